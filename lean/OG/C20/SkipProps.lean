/-
C20 — property theorems for the skip indexes (model: OG/C20/Skip.lean).

Property: "every data block that contains at least one row satisfying the condition is still
read".  For a skip index: if some row of fragment `j` (inside the ranges the primary-key scan
handed over) satisfies the condition, then `j` lies inside a range `SKIndexReaderImpl.Scan`
returns.  That splits into
  * `skipScan_sound`   — `Scan` keeps every fragment its reader answers `true` for;
  * a reader is sound  — a fragment holding a matching row is answered `true`:
      - set reader: **false** as written (`setReader_unsound`);
      - bloom-filter readers: `isExist_sound` (RPN evaluation), `bloom_no_false_negative`
        (filter), and the token level: **false** as written for four input classes
        (`bf_unsound_*`, `ft_unsound_ngram`), true under the coverage hypothesis
        (`bf_sound_partial`, `ft_sound_partial`);
      - min-max reader: `minMax_sound_of_bounds` / `minMax_asWritten_unsound_documentedLayout`.
-/
import OG.C20.Skip
import OG.C20.Lemmas

set_option linter.unusedSectionVars false
set_option linter.unusedVariables false
namespace OG.C20.Skip

/-! ## 1. `SKIndexReaderImpl.Scan` -/

/-- fragment `j` lies in one of the ranges. -/
def Covered (rs : List (Nat × Nat)) (j : Nat) : Prop := ∃ q ∈ rs, q.1 ≤ j ∧ j < q.2

/-- ranges `[s,e)` ascending, pairwise disjoint, starting at or after `B` (what the
primary-key `Scan` returns; `s = e` allowed). -/
def Asc : Nat → List (Nat × Nat) → Prop
  | _, [] => True
  | B, p :: rest => B ≤ p.1 ∧ p.1 ≤ p.2 ∧ Asc p.2 rest

def WFRanges (rgs : List (Nat × Nat)) : Prop := Asc 0 rgs

def Inv (acc : List (Nat × Nat)) (B : Nat) : Prop := ∀ q ∈ acc, q.1 ≤ q.2 ∧ q.2 ≤ B

theorem Inv.mono {acc : List (Nat × Nat)} {B B' : Nat} (h : Inv acc B) (hb : B ≤ B') : Inv acc B' :=
  fun q hq => ⟨(h q hq).1, Nat.le_trans (h q hq).2 hb⟩

theorem scanStep_spec (mm s e j : Nat) (acc : List (Nat × Nat)) (hs : s ≤ j) (he : j < e)
    (hinv : Inv acc j) :
    Inv (scanStep mm s e j acc) (j + 1) ∧ Covered (scanStep mm s e j acc) j ∧
      ∀ i, Covered acc i → Covered (scanStep mm s e j acc) i := by
  have h1 : max s j = j := Nat.max_eq_right hs
  have h2 : min e (j + 1) = j + 1 := Nat.min_eq_right (by omega)
  cases acc with
  | nil =>
    simp only [scanStep, h1, h2]
    refine ⟨?_, ⟨(j, j + 1), by simp, by simp, by simp⟩, ?_⟩
    · intro q hq; simp at hq; subst hq; simp
    · intro i ⟨q, hq, _⟩; simp at hq
  | cons p rest =>
    obtain ⟨ls, le⟩ := p
    have hp := hinv (ls, le) (by simp)
    simp only at hp
    simp only [scanStep, h1, h2]
    split
    · refine ⟨?_, ⟨(j, j + 1), by simp, by simp, by simp⟩, ?_⟩
      · intro q hq
        simp only [List.mem_cons] at hq
        rcases hq with rfl | hq
        · simp
        · have := hinv q (by simp only [List.mem_cons]; exact hq); omega
      · intro i ⟨q, hq, h⟩
        exact ⟨q, List.mem_cons_of_mem _ hq, h⟩
    · refine ⟨?_, ⟨(ls, j + 1), by simp, by simp only; omega, by simp⟩, ?_⟩
      · intro q hq
        simp only [List.mem_cons] at hq
        rcases hq with rfl | hq
        · simp only; omega
        · have := hinv q (by simp only [List.mem_cons]; exact Or.inr hq); omega
      · intro i ⟨q, hq, h⟩
        simp only [List.mem_cons] at hq
        rcases hq with rfl | hq
        · exact ⟨(ls, j + 1), by simp, by simpa using h.1, by simp only at h ⊢; omega⟩
        · exact ⟨q, by simp only [List.mem_cons]; exact Or.inr hq, h⟩

theorem scanRange_spec (mm : Nat) (rd : Reader) (s e : Nat) :
    ∀ (n a : Nat) (acc acc' : List (Nat × Nat)), s ≤ a → a + n ≤ e → Inv acc a →
      scanRange mm rd s e (List.range' a n) acc = some acc' →
      Inv acc' (a + n) ∧ (∀ i, Covered acc i → Covered acc' i) ∧
        (∀ j, a ≤ j → j < a + n → rd j = some true → Covered acc' j) := by
  intro n
  induction n with
  | zero =>
    intro a acc acc' _ _ hinv h
    simp [scanRange] at h
    subst h
    exact ⟨by simpa using hinv, fun _ h => h, fun j h1 h2 => by omega⟩
  | succ n ih =>
    intro a acc acc' hsa hae hinv h
    rw [List.range'_succ] at h
    unfold scanRange at h
    cases hr : rd a with
    | none => simp [hr] at h
    | some b =>
      cases b with
      | false =>
        simp only [hr] at h
        obtain ⟨i1, i2, i3⟩ := ih (a + 1) acc acc' (by omega) (by omega) (hinv.mono (by omega)) h
        refine ⟨by simpa [Nat.add_assoc, Nat.add_comm 1 n] using i1, i2, ?_⟩
        intro j h1 h2 hj
        by_cases hja : j = a
        · subst hja; rw [hr] at hj; simp at hj
        · exact i3 j (by omega) (by omega) hj
      | true =>
        simp only [hr] at h
        obtain ⟨s1, s2, s3⟩ := scanStep_spec mm s e a acc hsa (by omega) hinv
        obtain ⟨i1, i2, i3⟩ := ih (a + 1) _ acc' (by omega) (by omega) s1 h
        refine ⟨by simpa [Nat.add_assoc, Nat.add_comm 1 n] using i1, fun i hi => i2 i (s3 i hi), ?_⟩
        intro j h1 h2 hj
        by_cases hja : j = a
        · subst hja; exact i2 _ s2
        · exact i3 j (by omega) (by omega) hj

theorem scanAll_spec (mm : Nat) (rd : Reader) :
    ∀ (rgs : List (Nat × Nat)) (B : Nat) (acc acc' : List (Nat × Nat)), Asc B rgs → Inv acc B →
      scanAll mm rd rgs acc = some acc' →
      (∀ i, Covered acc i → Covered acc' i) ∧
        (∀ p ∈ rgs, ∀ j, p.1 ≤ j → j < p.2 → rd j = some true → Covered acc' j) := by
  intro rgs
  induction rgs with
  | nil =>
    intro B acc acc' _ _ h
    simp [scanAll] at h
    subst h
    exact ⟨fun _ h => h, fun p hp => by simp at hp⟩
  | cons p rest ih =>
    intro B acc acc' hasc hinv h
    obtain ⟨s, e⟩ := p
    obtain ⟨hB, hse, hrest⟩ := hasc
    simp only at hB hse hrest
    unfold scanAll at h
    cases h1 : scanRange mm rd s e (List.range' s (e - s)) acc with
    | none => simp [h1] at h
    | some acc1 =>
      simp only [h1] at h
      obtain ⟨r1, r2, r3⟩ := scanRange_spec mm rd s e (e - s) s acc acc1 (Nat.le_refl _) (by omega)
        (hinv.mono hB) h1
      have r1' : Inv acc1 e := by
        have : s + (e - s) = e := by omega
        rwa [this] at r1
      obtain ⟨i1, i2⟩ := ih e acc1 acc' hrest r1' h
      refine ⟨fun i hi => i1 i (r2 i hi), ?_⟩
      intro q hq j hj1 hj2 hj
      simp only [List.mem_cons] at hq
      rcases hq with rfl | hq
      · exact i1 j (r3 j hj1 (by simp at hj2; omega) hj)
      · exact i2 q hq j hj1 hj2 hj

/-- **S1** `SKIndexReaderImpl.Scan` keeps every fragment of its (ascending, disjoint) input
ranges for which the reader answered "maybe" — for every seek threshold `minMarksForSeek`
(the `uint32` difference that decides between "extend the last range" and "open a new one"
only ever *extends*). -/
theorem skipScan_sound (mm : Nat) (rd : Reader) (rgs out : List (Nat × Nat))
    (hwf : WFRanges rgs) (h : skipScan mm rd rgs = some out) :
    ∀ p ∈ rgs, ∀ j, p.1 ≤ j → j < p.2 → rd j = some true → Covered out j := by
  unfold skipScan at h
  cases h1 : scanAll mm rd rgs [] with
  | none => simp [h1] at h
  | some acc =>
    simp [h1] at h
    subst h
    obtain ⟨_, i2⟩ := scanAll_spec mm rd rgs 0 [] acc hwf (fun q hq => by simp at hq) h1
    intro p hp j hj1 hj2 hj
    obtain ⟨q, hq, hq2⟩ := i2 p hp j hj1 hj2 hj
    exact ⟨q, by simpa using hq, hq2⟩

/-- **S1'** with a sound reader: every fragment holding a matching row survives. -/
theorem skipIndex_sound (mm : Nat) (rd : Reader) (hasMatch : Nat → Prop)
    (hrd : ∀ j, hasMatch j → rd j = some true) (rgs out : List (Nat × Nat))
    (hwf : WFRanges rgs) (h : skipScan mm rd rgs = some out) :
    ∀ p ∈ rgs, ∀ j, p.1 ≤ j → j < p.2 → hasMatch j → Covered out j :=
  fun p hp j h1 h2 hm => skipScan_sound mm rd rgs out hwf h p hp j h1 h2 (hrd j hm)

/-- non-vacuity, and the threshold really is arbitrary. -/
example : WFRanges [(0, 2), (2, 3), (5, 8)] := by simp [WFRanges, Asc]
example : skipScan 0 (fun j => some (j != 1)) [(0, 2), (2, 3), (5, 8)] = some [(0, 1), (2, 3), (5, 8)] := by decide
example : skipScan 4294967295 (fun j => some (j != 1)) [(0, 2), (2, 3), (5, 8)] = some [(0, 8)] := by decide

/-- the hypothesis on the input ranges is needed: on overlapping ranges the "extend" branch
moves the end of the last range *backwards*. -/
theorem skipScan_needs_ascending :
    skipScan 10 (fun _ => some true) [(0, 5), (1, 2)] = some [(0, 2)] := by decide

/-! ## 2. the set index -/

/-- the statement a reader has to satisfy. -/
def ReaderSound (rd : Reader) (hasMatch : Nat → Prop) : Prop := ∀ j, hasMatch j → rd j = some true

/-- full statement for the set reader. -/
def setReader_sound_full : Prop := ∀ hasMatch : Nat → Prop, ReaderSound setMayBeInFragment hasMatch

/-- **S2** the set reader as written answers "no" for a fragment that holds a matching row. -/
theorem setReader_unsound : ¬ setReader_sound_full := by
  intro h
  have := h (fun _ => True) 0 trivial
  simp [setMayBeInFragment] at this

theorem scanRange_set (mm s e : Nat) : ∀ (js : List Nat) (acc : List (Nat × Nat)),
    scanRange mm setMayBeInFragment s e js acc = some acc := by
  intro js
  induction js with
  | nil => intro acc; simp [scanRange]
  | cons j js ih => intro acc; unfold scanRange; simp [setMayBeInFragment, ih]

/-- and `Scan` over it drops every fragment: the query returns nothing for the file. -/
theorem setReader_prunes_all (mm : Nat) (rgs : List (Nat × Nat)) :
    skipScan mm setMayBeInFragment rgs = some [] := by
  unfold skipScan
  suffices h : ∀ acc, scanAll mm setMayBeInFragment rgs acc = some acc by simp [h]
  induction rgs with
  | nil => intro acc; simp [scanAll]
  | cons p rest ih => intro acc; obtain ⟨s, e⟩ := p; unfold scanAll; simp [scanRange_set, ih]

/-! ## 3. `SKConditionImpl`: RPN evaluation -/

section rpn
variable {β : Type}

/-- well-formed condition: AND/OR over `field op literal` (either operand order); `atom` = the
comparisons a filter lookup decides (=, match-phrase), `atomO` = the others (<> < <= > >=). -/
inductive WFC : SExpr β → Prop
  | atom (n : Nat) (b : β) : WFC (.bin .cmp (.var n) (.lit b))
  | atomSw (n : Nat) (b : β) : WFC (.bin .cmp (.lit b) (.var n))
  | atomO (n : Nat) (b : β) : WFC (.bin .cmpo (.var n) (.lit b))
  | atomOSw (n : Nat) (b : β) : WFC (.bin .cmpo (.lit b) (.var n))
  | and {l r : SExpr β} : WFC l → WFC r → WFC (.bin .and l r)
  | or {l r : SExpr β} : WFC l → WFC r → WFC (.bin .or l r)
  | paren {e : SExpr β} : WFC e → WFC (.paren e)

/-- the elements `convertToRPNElem` produces for a well-formed tree. -/
def elemsOf (inSchema : Nat → Bool) : SExpr β → List (SKElem β)
  | .bin .cmp (.var n) (.lit b) => [if inSchema n then .inRange n b else .alwaysTrue]
  | .bin .cmp (.lit b) (.var n) => [if inSchema n then .inRange n b else .alwaysTrue]
  | .bin .cmpo (.var _) (.lit _) => [.alwaysTrue]
  | .bin .cmpo (.lit _) (.var _) => [.alwaysTrue]
  | .bin .and l r => elemsOf inSchema l ++ elemsOf inSchema r ++ [.and]
  | .bin .or l r => elemsOf inSchema l ++ elemsOf inSchema r ++ [.or]
  | .paren e => elemsOf inSchema e
  | _ => []

/-- tree evaluation over the atom answers: an atom on a field outside the reader's schema, or
with a comparison no lookup decides, is `true`; every atom is asked (no short circuit); an error anywhere is an error. -/
def evalE (inSchema : Nat → Bool) (ans : Nat → β → Option Bool) : SExpr β → Option Bool
  | .bin .cmp (.var n) (.lit b) => if inSchema n then ans n b else some true
  | .bin .cmp (.lit b) (.var n) => if inSchema n then ans n b else some true
  | .bin .cmpo (.var _) (.lit _) => some true
  | .bin .cmpo (.lit _) (.var _) => some true
  | .bin .and l r =>
    match evalE inSchema ans l, evalE inSchema ans r with
    | some x, some y => some (x && y)
    | _, _ => none
  | .bin .or l r =>
    match evalE inSchema ans l, evalE inSchema ans r with
    | some x, some y => some (x || y)
    | _, _ => none
  | .paren e => evalE inSchema ans e
  | _ => none

theorem WFC.not_var {e : SExpr β} (h : WFC e) : ∀ n, e ≠ .var n := by
  intro n; cases h <;> simp

theorem toRPN_bin {op : BOp} {l r : SExpr β} (h : ∀ n, r ≠ .var n) :
    toRPN (.bin op l r) = toRPN l ++ toRPN r ++ [opTok op] := by
  cases r with
  | var n => exact absurd rfl (h n)
  | lit b => simp [toRPN]
  | bin op' l' r' => simp [toRPN]
  | paren e => simp [toRPN]

theorem convElems_var_out (inSchema : Nat → Bool) (n : Nat) (ts : List (Tok β)) (h : inSchema n = false) :
    convElems inSchema (.var n :: ts) = (convElems inSchema ts).map (SKElem.alwaysTrue :: ·) := by
  cases ts with
  | nil => simp [convElems, h]
  | cons v t => cases t <;> simp [convElems, h]

theorem convElems_var_in (inSchema : Nat → Bool) (n : Nat) (b : β) (rest : List (Tok β)) (h : inSchema n = true) :
    convElems inSchema (.var n :: .lit b :: .cmp :: rest) =
      (convElems inSchema rest).map (SKElem.inRange n b :: ·) := by
  simp [convElems, h, Tok.isToken]

theorem convElems_wf (inSchema : Nat → Bool) {e : SExpr β} (h : WFC e) :
    ∀ rest, convElems inSchema (toRPN e ++ rest) =
      (convElems inSchema rest).map (elemsOf inSchema e ++ ·) := by
  induction h with
  | atom n b =>
    intro rest
    simp only [toRPN, opTok, List.cons_append, List.nil_append, elemsOf]
    cases hs : inSchema n
    · rw [convElems_var_out _ _ _ hs]; simp [convElems]
    · rw [convElems_var_in _ _ _ _ hs]; simp
  | atomSw n b =>
    intro rest
    simp only [toRPN, switchedTok, List.cons_append, List.nil_append, elemsOf]
    cases hs : inSchema n
    · rw [convElems_var_out _ _ _ hs]; simp [convElems]
    · rw [convElems_var_in _ _ _ _ hs]; simp
  | atomO n b =>
    intro rest
    simp only [toRPN, opTok, List.cons_append, List.nil_append, elemsOf]
    cases hs : inSchema n <;> simp [convElems, hs]
  | atomOSw n b =>
    intro rest
    simp only [toRPN, switchedTok, List.cons_append, List.nil_append, elemsOf]
    cases hs : inSchema n <;> simp [convElems, hs]
  | @and l r hl hr ihl ihr =>
    intro rest
    rw [toRPN_bin hr.not_var]
    simp only [List.append_assoc, opTok, elemsOf]
    rw [ihl, ihr]
    simp [convElems, Option.map_map, Function.comp_def]
  | @or l r hl hr ihl ihr =>
    intro rest
    rw [toRPN_bin hr.not_var]
    simp only [List.append_assoc, opTok, elemsOf]
    rw [ihl, ihr]
    simp [convElems, Option.map_map, Function.comp_def]
  | paren _ ih => intro rest; simpa [toRPN, elemsOf] using ih rest

theorem runElems_inRange (ans : Nat → β → Option Bool) (k : Nat) (b : β) (es : List (SKElem β)) (st : List Bool) :
    runElems ans (.inRange k b :: es) st =
      match ans k b with
      | none => none
      | some v => runElems ans es (v :: st) := by
  cases h : ans k b <;> simp [runElems, h]

theorem runElems_wf (inSchema : Nat → Bool) (ans : Nat → β → Option Bool) {e : SExpr β} (h : WFC e) :
    ∀ es st, runElems ans (elemsOf inSchema e ++ es) st =
      match evalE inSchema ans e with
      | none => none
      | some v => runElems ans es (v :: st) := by
  induction h with
  | atom n b =>
    intro es st
    simp only [elemsOf, evalE]
    cases hs : inSchema n
    · simp [runElems]
    · simp only [if_true, List.cons_append, List.nil_append, runElems_inRange]
  | atomSw n b =>
    intro es st
    simp only [elemsOf, evalE]
    cases hs : inSchema n
    · simp [runElems]
    · simp only [if_true, List.cons_append, List.nil_append, runElems_inRange]
  | atomO n b => intro es st; simp [elemsOf, evalE, runElems]
  | atomOSw n b => intro es st; simp [elemsOf, evalE, runElems]
  | @and l r hl hr ihl ihr =>
    intro es st
    simp only [elemsOf, evalE, List.append_assoc]
    rw [ihl]
    cases hx : evalE inSchema ans l with
    | none => simp
    | some x =>
      simp only
      rw [ihr]
      cases hy : evalE inSchema ans r with
      | none => simp
      | some y => simp [runElems, Bool.and_comm]
  | @or l r hl hr ihl ihr =>
    intro es st
    simp only [elemsOf, evalE, List.append_assoc]
    rw [ihl]
    cases hx : evalE inSchema ans l with
    | none => simp
    | some x =>
      simp only
      rw [ihr]
      cases hy : evalE inSchema ans r with
      | none => simp
      | some y => simp [runElems, Bool.or_comm]
  | paren _ ih => intro es st; simpa [elemsOf, evalE] using ih es st

/-- on a well-formed tree `NewSKCondition` succeeds and `IsExist` is the tree evaluation. -/
theorem isExist_eq (inSchema : Nat → Bool) (ans : Nat → β → Option Bool) {e : SExpr β} (h : WFC e) :
    isExist inSchema ans e = some (evalE inSchema ans e) := by
  unfold isExist
  have h1 := convElems_wf inSchema h []
  simp only [List.append_nil, convElems, Option.map_some] at h1
  rw [h1]
  have h2 := runElems_wf inSchema ans h [] []
  simp only [List.append_nil] at h2
  simp only [Option.map_some, h2]
  cases evalE inSchema ans e <;> simp [runElems]

/-- row-level truth of a tree, given the truth of its atoms. -/
def satE (holds : Nat → β → Prop) : SExpr β → Prop
  | .bin .cmp (.var n) (.lit b) => holds n b
  | .bin .cmp (.lit b) (.var n) => holds n b
  | .bin .cmpo (.var n) (.lit b) => holds n b
  | .bin .cmpo (.lit b) (.var n) => holds n b
  | .bin .and l r => satE holds l ∧ satE holds r
  | .bin .or l r => satE holds l ∨ satE holds r
  | .paren e => satE holds e
  | _ => False

theorem evalE_sound (inSchema : Nat → Bool) (ans : Nat → β → Option Bool) (holds : Nat → β → Prop)
    (hans : ∀ n b, inSchema n = true → holds n b → ans n b ≠ some false)
    {e : SExpr β} (h : WFC e) (hs : satE holds e) : evalE inSchema ans e ≠ some false := by
  induction h with
  | atom n b =>
    simp only [evalE]
    cases hi : inSchema n
    · simp
    · simpa using hans n b hi hs
  | atomSw n b =>
    simp only [evalE]
    cases hi : inSchema n
    · simp
    · simpa using hans n b hi hs
  | atomO n b => simp [evalE]
  | atomOSw n b => simp [evalE]
  | @and l r _ _ ihl ihr =>
    have h1 := ihl hs.1
    have h2 := ihr hs.2
    simp only [evalE]
    cases hx : evalE inSchema ans l with
    | none => simp
    | some x =>
      cases hy : evalE inSchema ans r with
      | none => simp
      | some y =>
        cases x <;> cases y <;> simp_all
  | @or l r _ _ ihl ihr =>
    simp only [evalE]
    cases hx : evalE inSchema ans l with
    | none => simp
    | some x =>
      cases hy : evalE inSchema ans r with
      | none => simp
      | some y =>
        rcases hs with hs | hs
        · have := ihl hs; cases x <;> cases y <;> simp_all
        · have := ihr hs; cases x <;> cases y <;> simp_all
  | paren _ ih => simpa [evalE] using ih hs

theorem evalE_total (inSchema : Nat → Bool) (ans : Nat → β → Option Bool)
    (hans : ∀ n b, inSchema n = true → ans n b ≠ none) {e : SExpr β} (h : WFC e) :
    evalE inSchema ans e ≠ none := by
  induction h with
  | atom n b =>
    simp only [evalE]
    cases hi : inSchema n
    · simp
    · simpa using hans n b hi
  | atomSw n b =>
    simp only [evalE]
    cases hi : inSchema n
    · simp
    · simpa using hans n b hi
  | atomO n b => simp [evalE]
  | atomOSw n b => simp [evalE]
  | @and l r _ _ ihl ihr =>
    simp only [evalE]
    cases hx : evalE inSchema ans l <;> cases hy : evalE inSchema ans r <;> simp_all
  | @or l r _ _ ihl ihr =>
    simp only [evalE]
    cases hx : evalE inSchema ans l <;> cases hy : evalE inSchema ans r <;> simp_all
  | paren _ ih => simpa [evalE] using ih

/-- **S3** `SKConditionImpl.IsExist` never answers "no" for a block that holds a row
satisfying the condition: every AND/OR tree, atoms on fields without the index count as
true, atoms on indexed fields answered soundly (`true` or an error whenever the row satisfies
the atom).  An error is propagated (the scan fails, nothing is pruned). -/
theorem isExist_sound (inSchema : Nat → Bool) (ans : Nat → β → Option Bool) (holds : Nat → β → Prop)
    (hans : ∀ n b, inSchema n = true → holds n b → ans n b ≠ some false)
    {e : SExpr β} (h : WFC e) (hs : satE holds e) :
    isExist inSchema ans e ≠ some (some false) := by
  rw [isExist_eq inSchema ans h]
  intro hc
  exact evalE_sound inSchema ans holds hans h hs (by simpa using hc)

/-- … and answers `true` when no atom reader fails. -/
theorem isExist_sound_true (inSchema : Nat → Bool) (ans : Nat → β → Option Bool) (holds : Nat → β → Prop)
    (hans : ∀ n b, inSchema n = true → holds n b → ans n b = some true)
    (htot : ∀ n b, inSchema n = true → ans n b ≠ none)
    {e : SExpr β} (h : WFC e) (hs : satE holds e) :
    isExist inSchema ans e = some (some true) := by
  rw [isExist_eq inSchema ans h]
  have h1 := evalE_sound inSchema ans holds (fun n b hi hh => by rw [hans n b hi hh]; simp) h hs
  have h2 := evalE_total inSchema ans htot h
  cases hv : evalE inSchema ans e with
  | none => exact absurd hv h2
  | some v => cases v <;> simp_all

/-- non-vacuity: `(f0 = 'a' AND x = 'b') OR f1 = 'c'`, f0/f1 indexed, the row satisfies the
first two atoms; the answers are sound (atom 2 may say no) and the result is `true`. -/
example : isExist (fun n => n != 2) (fun _ id => some (id != 2))
    (.bin .or (.paren (.bin .and (.bin .cmp (.var 0) (.lit 0)) (.bin .cmp (.var 2) (.lit 1))))
      (.bin .cmp (.var 1) (.lit 2))) = some (some true) := by decide

end rpn

/-! ## 4. the filter -/

theorem mem_build (pos : Nat → List Nat) (p : Nat) :
    ∀ (hs : List Nat) (f : List Nat), (p ∈ f ∨ ∃ h ∈ hs, p ∈ pos h) → p ∈ hs.foldl (Filter.add pos) f := by
  intro hs
  induction hs with
  | nil => intro f h; rcases h with h | ⟨_, hh, _⟩ <;> simp_all
  | cons x xs ih =>
    intro f h
    simp only [List.foldl_cons]
    apply ih
    rcases h with h | ⟨y, hy, hp⟩
    · left; simp [Filter.add, h]
    · simp only [List.mem_cons] at hy
      rcases hy with rfl | hy
      · left; simp [Filter.add, hp]
      · right; exact ⟨y, hy, hp⟩

/-- **S4** a filter built from a set of hashes answers `Hit` for each of them — for every
hash family `pos` (in particular `posV3`, the positions `OneHitBloomFilterV3.Add/Hit` and
`ProcessTokenizerBatch` use). -/
theorem bloom_no_false_negative (pos : Nat → List Nat) (hs : List Nat) (h : Nat) (hh : h ∈ hs) :
    Filter.hit pos (Filter.build pos hs) h = true := by
  unfold Filter.hit Filter.build
  rw [List.all_eq_true]
  intro p hp
  rw [List.contains_iff_mem]
  exact mem_build pos p hs [] (Or.inr ⟨h, hh, hp⟩)

example : Filter.hit posV3 (Filter.build posV3 [hashBytes [104, 105], hashBytes [97]]) (hashBytes [97]) = true := by decide
example : Filter.hit posV3 (Filter.build posV3 [hashBytes [104, 105], hashBytes [97]]) (hashBytes [98]) = false := by decide

/-! ## 5. the bloom-filter readers: token level -/

abbrev Row := List (Option (List Nat))

def bytesLt : List Nat → List Nat → Bool
  | [], [] => false
  | [], _ :: _ => true
  | _ :: _, [] => false
  | a :: as, b :: bs => a < b || (a == b && bytesLt as bs)

def cmpHolds (op : CmpK) (s v : List Nat) : Bool :=
  match op with
  | .mp => phraseMatch contentSplit s v
  | .eq => s == v
  | .neq => s != v
  | .lt => bytesLt s v
  | .gt => bytesLt v s
  | .lte => !bytesLt v s
  | .gte => !bytesLt s v

/-- row-level truth of an atom (what the row filter of the query evaluates): a null never
satisfies; `__log___` = match-phrase on one of the full-text columns `0..nIdx-1`; the column
that is not indexed sits at position `nIdx` of the row. -/
def atomHolds (nIdx : Nat) (row : Row) (n : Nat) (b : BLit) : Bool :=
  if n == fieldLog then
    (List.range nIdx).any fun f =>
      match row[f]? with
      | some (some s) => phraseMatch contentSplit s b.v
      | _ => false
  else
    match row[if n == fieldOther then nIdx else n]? with
    | some (some s) => cmpHolds b.op s b.v
    | _ => false

def rowSat (nIdx : Nat) (row : Row) (c : BCond) : Prop := satE (fun n b => atomHolds nIdx row n b = true) c

theorem allHit_of_subset (pos : Nat → List Nat) (hs ls : List Nat) (h : ∀ x ∈ ls, x ∈ hs) :
    allHit pos (Filter.build pos hs) ls = true := by
  unfold allHit
  rw [List.all_eq_true]
  intro x hx
  exact bloom_no_false_negative pos hs x (h x hx)

/-- coverage hypothesis for the plain bloom-filter reader: every match-phrase atom on the
indexed column tokenises, and when some row of the block satisfies it, it has at least one
lookup hash and each of them is among the hashes written for the block. -/
def LineCovered (wsp : Nat → Bool) (c : BCond) (seg : Seg) : Prop :=
  ∀ a ∈ atomsOf c, a.1 = 0 → a.2.op = .mp →
    ∃ ls, readerLookups contentSplit a.2.v = some ls ∧
      ((∃ row ∈ seg, atomHolds 1 row 0 a.2 = true) →
        ls ≠ [] ∧ ∀ h ∈ ls, h ∈ segHashes wsp [0] seg)

theorem atomsOf_and {β : Type} (op : BOp) (l r : SExpr β) (hop : op = .and ∨ op = .or) :
    atomsOf (.bin op l r) = atomsOf l ++ atomsOf r := by
  rcases hop with rfl | rfl <;> simp [atomsOf]

theorem lineHit_sound (wsp : Nat → Bool) (pos : Nat → List Nat) (seg : Seg) (row : Row) (hrow : row ∈ seg)
    {c : BCond} (h : WFC c) :
    (∀ a ∈ atomsOf c, a.1 = 0 → a.2.op = .mp →
      ∃ ls, readerLookups contentSplit a.2.v = some ls ∧
        ((∃ row ∈ seg, atomHolds 1 row 0 a.2 = true) →
          ls ≠ [] ∧ ∀ h ∈ ls, h ∈ segHashes wsp [0] seg)) →
    (∃ v, lineHit contentSplit pos (Filter.build pos (segHashes wsp [0] seg)) c = some v) ∧
    (rowSat 1 row c → lineHit contentSplit pos (Filter.build pos (segHashes wsp [0] seg)) c = some true) := by
  induction h with
  | atom n b =>
    intro hc
    simp only [lineHit]
    by_cases hm : (b.op == CmpK.mp && n == 0) = true
    · simp only [hm, if_true]
      simp only [Bool.and_eq_true, beq_iff_eq] at hm
      obtain ⟨ls, hls, hcov⟩ := hc (n, b) (by simp [atomsOf]) hm.2 hm.1
      rw [hls]
      refine ⟨⟨_, rfl⟩, ?_⟩
      intro hs
      simp only [rowSat, satE] at hs
      obtain ⟨hne, hsub⟩ := hcov ⟨row, hrow, by rw [hm.2] at hs; exact hs⟩
      simp only [Option.map_some, Option.some.injEq, Bool.and_eq_true, Bool.not_eq_true']
      exact ⟨by cases ls <;> simp_all, allHit_of_subset pos _ ls hsub⟩
    · simp only [hm]; exact ⟨⟨_, rfl⟩, fun _ => rfl⟩
  | atomSw n b => intro _; simp [lineHit]
  | atomO n b => intro _; simp [lineHit]
  | atomOSw n b => intro _; simp [lineHit]
  | @and l r _ _ ihl ihr =>
    intro hc
    rw [atomsOf_and _ _ _ (Or.inl rfl)] at hc
    obtain ⟨⟨vl, hvl⟩, sl⟩ := ihl (fun a ha => hc a (List.mem_append_left _ ha))
    obtain ⟨⟨vr, hvr⟩, sr⟩ := ihr (fun a ha => hc a (List.mem_append_right _ ha))
    simp only [lineHit, hvl]
    refine ⟨by cases vl <;> simp [hvr], ?_⟩
    intro hs
    simp only [rowSat, satE] at hs
    have := sl hs.1
    rw [hvl] at this
    simp only [Option.some.injEq] at this
    subst this
    exact sr hs.2
  | @or l r _ _ ihl ihr =>
    intro hc
    rw [atomsOf_and _ _ _ (Or.inr rfl)] at hc
    obtain ⟨⟨vl, hvl⟩, sl⟩ := ihl (fun a ha => hc a (List.mem_append_left _ ha))
    obtain ⟨⟨vr, hvr⟩, sr⟩ := ihr (fun a ha => hc a (List.mem_append_right _ ha))
    simp only [lineHit, hvl]
    refine ⟨by cases vl <;> simp [hvr], ?_⟩
    intro hs
    simp only [rowSat, satE] at hs
    cases vl with
    | true => simp
    | false =>
      rcases hs with hs | hs
      · have := sl hs; rw [hvl] at this; simp at this
      · exact sr hs
  | paren _ ih =>
    intro hc
    simpa [lineHit, atomsOf, rowSat, satE] using ih (by simpa [atomsOf] using hc)

theorem evalE_const_true {β : Type} (inSchema : Nat → Bool) {e : SExpr β} (h : WFC e) :
    evalE inSchema (fun _ _ => some true) e = some true := by
  induction h with
  | atom n b => simp [evalE]
  | atomSw n b => simp [evalE]
  | atomO n b => simp [evalE]
  | atomOSw n b => simp [evalE]
  | and _ _ ihl ihr => simp [evalE, ihl, ihr]
  | or _ _ ihl ihr => simp [evalE, ihl, ihr]
  | paren _ ih => simpa [evalE] using ih

/-- **S5 (partial)** plain bloom-filter index: under the coverage hypothesis a block that
holds a row satisfying the condition is answered `true` — every AND/OR tree, every hash
family, either split table on the write side. -/
theorem bf_sound_partial (wsp : Nat → Bool) (pos : Nat → List Nat) (c : BCond) (seg : Seg) (row : Row)
    (hwf : WFC c) (hcov : LineCovered wsp c seg) (hrow : row ∈ seg) (hs : rowSat 1 row c) :
    bfMayBe wsp pos c seg = some (some true) := by
  unfold bfMayBe
  simp only
  have := (lineHit_sound wsp pos seg row hrow hwf hcov).2 hs
  rw [this, isExist_eq _ _ hwf, evalE_const_true _ hwf]

/-- coverage hypothesis for the full-text reader: every atom on an indexed column tokenises
and, when a row of the block satisfies it, all its lookup hashes were written for the block. -/
def MultiCovered (wsp : Nat → Bool) (nIdx : Nat) (cols : List Nat) (c : BCond) (seg : Seg) : Prop :=
  ∀ (n : Nat) (b : BLit), (n < nIdx ∨ n = fieldLog) →
    ∃ ls, readerLookups contentSplit b.v = some ls ∧
      ((∃ row ∈ seg, atomHolds nIdx row n b = true) → ∀ h ∈ ls, h ∈ segHashes wsp cols seg)

/-- **S6 (partial)** full-text bloom-filter index, same statement. -/
theorem ft_sound_partial (wsp : Nat → Bool) (pos : Nat → List Nat) (nIdx : Nat) (cols : List Nat)
    (c : BCond) (seg : Seg) (row : Row)
    (hwf : WFC c) (hcov : MultiCovered wsp nIdx cols c seg) (hrow : row ∈ seg) (hs : rowSat nIdx row c) :
    ftMayBe wsp pos nIdx cols c seg = some (some true) := by
  unfold ftMayBe
  simp only
  apply isExist_sound_true _ _ (fun n b => atomHolds nIdx row n b = true) _ _ hwf hs
  · intro n b hi hh
    simp only [Bool.or_eq_true, decide_eq_true_eq, beq_iff_eq] at hi
    obtain ⟨ls, hls, hsub⟩ := hcov n b hi
    simp only [multiHit, hls, Option.map_some, Option.some.injEq, Bool.or_eq_true]
    right
    exact allHit_of_subset pos _ ls (hsub ⟨row, hrow, hh⟩)
  · intro n b hi
    simp only [Bool.or_eq_true, decide_eq_true_eq, beq_iff_eq] at hi
    obtain ⟨ls, hls, _⟩ := hcov n b hi
    simp [multiHit, hls]

/-! ### the full statements are false for the code as written -/

/-- full statement, plain bloom-filter index (real split tables, real positions). -/
def bf_sound_full : Prop :=
  ∀ (wsp : Nat → Bool) (c : BCond) (seg : Seg) (row : Row), (wsp = contentSplit ∨ wsp = noSplit) →
    WFC c → row ∈ seg → rowSat 1 row c → bfMayBe wsp posV3 c seg ≠ some (some false)

/-- full statement, full-text bloom-filter index. -/
def ft_sound_full : Prop :=
  ∀ (wsp : Nat → Bool) (nIdx : Nat) (c : BCond) (seg : Seg) (row : Row), (wsp = contentSplit ∨ wsp = noSplit) →
    WFC c → row ∈ seg → rowSat nIdx row c →
      ftMayBe wsp posV3 nIdx (List.range (nIdx + 1)) c seg ≠ some (some false)

def mpAtom (v : List Nat) : BCond := .bin .cmp (.var 0) (.lit ⟨.mp, v⟩)

/-- (a) a phrase of three tokens joined by the same separator is looked up as one 3-gram
hash, which the write side (`SimpleTokenizer` behind `ProcessTokenizerBatch`) never inserts:
the block holding the row `a b c` is pruned for `match-phrase 'a b c'`. -/
theorem bf_unsound_ngram :
    rowSat 1 [some [97, 32, 98, 32, 99]] (mpAtom [97, 32, 98, 32, 99]) ∧
    bfMayBe contentSplit posV3 (mpAtom [97, 32, 98, 32, 99]) [[some [97, 32, 98, 32, 99]]] = some (some false) := by
  constructor
  · show atomHolds 1 _ 0 _ = true; decide
  · decide

/-- (b) a phrase without any token (`.`) has no lookup hash; `LineFilterReader.hitExpr`
answers `false` for it: every block is pruned although the row `p.q` matches. -/
theorem bf_unsound_noToken :
    rowSat 1 [some [112, 46, 113]] (mpAtom [46]) ∧
    bfMayBe contentSplit posV3 (mpAtom [46]) [[some [112, 46, 113]]] = some (some false) := by
  constructor
  · show atomHolds 1 _ 0 _ = true; decide
  · decide

/-- (c) non-ASCII text: the query side cuts at every multi-byte character (and the row-level
matcher treats such bytes as boundaries), the write side does not: `华` is not found in the
block holding `华为` (bytes e5 8d 8e e4 b8 ba). -/
theorem bf_unsound_multibyte :
    rowSat 1 [some [229, 141, 142, 228, 184, 186]] (mpAtom [229, 141, 142]) ∧
    bfMayBe contentSplit posV3 (mpAtom [229, 141, 142]) [[some [229, 141, 142, 228, 184, 186]]] = some (some false) := by
  constructor
  · show atomHolds 1 _ 0 _ = true; decide
  · decide

/-- (d) write side without split characters (what `NewIndexWriters` passes for an index
created by CREATE MEASUREMENT … INDEXTYPE bloomfilter): the whole value is one token. -/
theorem bf_unsound_noSplitTokens :
    rowSat 1 [some [97, 32, 98]] (mpAtom [97]) ∧
    bfMayBe noSplit posV3 (mpAtom [97]) [[some [97, 32, 98]]] = some (some false) := by
  constructor
  · show atomHolds 1 _ 0 _ = true; decide
  · decide

theorem bf_unsound_asWritten : ¬ bf_sound_full := by
  intro h
  exact h contentSplit _ _ _ (Or.inl rfl) (WFC.atom 0 _) (List.mem_singleton.mpr rfl) bf_unsound_ngram.1
    bf_unsound_ngram.2

/-- (e) before fix 2 of this round every comparison on an indexed column became a lookup
element, whatever its operator, and the full-text reader looked its literal up: for `f0 != 'a'`
the block holding the row `b` was pruned. `convertToRPNElem` now keeps a lookup element only for
`=` / match-phrase (`Tok.cmp`); any other comparison (`Tok.cmpo`) is unknown: the block is kept. -/
theorem ft_operator_unknown :
    rowSat 1 [some [98], some []] (.bin .cmpo (.var 0) (.lit ⟨.neq, [97]⟩)) ∧
    ftMayBe contentSplit posV3 1 [0, 1] (.bin .cmpo (.var 0) (.lit ⟨.neq, [97]⟩)) [[some [98], some []]]
      = some (some true) := by
  constructor
  · show atomHolds 1 _ 0 _ = true; decide
  · decide

/-- the n-gram lookup (a) hits the full-text reader as well. -/
theorem ft_unsound_ngram :
    rowSat 1 [some [97, 32, 98, 32, 99], some []] (mpAtom [97, 32, 98, 32, 99]) ∧
    ftMayBe contentSplit posV3 1 [0, 1] (mpAtom [97, 32, 98, 32, 99]) [[some [97, 32, 98, 32, 99], some []]]
      = some (some false) := by
  constructor
  · show atomHolds 1 _ 0 _ = true; decide
  · decide

theorem ft_unsound_asWritten : ¬ ft_sound_full := by
  intro h
  exact h contentSplit 1 _ _ _ (Or.inl rfl) (WFC.atom 0 _) (List.mem_singleton.mpr rfl) ft_unsound_ngram.1
    ft_unsound_ngram.2

/-- non-vacuity of the partial statements: `hello world` / match-phrase `world`. -/
example : LineCovered contentSplit (mpAtom [119, 111, 114, 108, 100]) [[some [104, 101, 108, 108, 111, 32, 119, 111, 114, 108, 100]]] := by
  intro a ha h0 hmp
  simp [mpAtom, atomsOf] at ha
  subst ha
  refine ⟨[hashBytes [119, 111, 114, 108, 100]], by decide, fun _ => ⟨by simp, ?_⟩⟩
  intro h hh
  simp only [List.mem_singleton] at hh
  subst hh
  decide

example : bfMayBe contentSplit posV3 (mpAtom [119, 111, 114, 108, 100]) [[some [104, 101, 108, 108, 111, 32, 119, 111, 114, 108, 100]]] = some (some true) := by
  decide

/-! ## 6. end to end -/

/-- the reader `Scan` consults for a file whose blocks are `segs`. -/
def bfReader (wsp : Nat → Bool) (pos : Nat → List Nat) (c : BCond) (segs : List Seg) : Reader := fun j =>
  match segs[j]? with
  | some seg => (match bfMayBe wsp pos c seg with | some (some b) => some b | _ => none)
  | none => none

def ftReader (wsp : Nat → Bool) (pos : Nat → List Nat) (nIdx : Nat) (cols : List Nat) (c : BCond)
    (segs : List Seg) : Reader := fun j =>
  match segs[j]? with
  | some seg => (match ftMayBe wsp pos nIdx cols c seg with | some (some b) => some b | _ => none)
  | none => none

/-- **S7 (partial)** the property for the bloom-filter skip indexes, end to end: ranges from
the primary-key scan (ascending, disjoint), any seek threshold, any AND/OR condition; if block
`j` of the file holds a row satisfying the condition then `j` is in a returned range —
*provided* the token-coverage hypothesis holds for every block (it excludes exactly the
classes of `bf_unsound_*`). The set index is excluded altogether (`setReader_unsound`). -/
theorem bloom_scan_sound_partial (wsp : Nat → Bool) (pos : Nat → List Nat) (c : BCond) (segs : List Seg)
    (mm : Nat) (rgs out : List (Nat × Nat))
    (hwf : WFC c) (hcov : ∀ seg ∈ segs, LineCovered wsp c seg) (hr : WFRanges rgs)
    (h : skipScan mm (bfReader wsp pos c segs) rgs = some out) :
    ∀ p ∈ rgs, ∀ j, p.1 ≤ j → j < p.2 →
      (∃ seg row, segs[j]? = some seg ∧ row ∈ seg ∧ rowSat 1 row c) → Covered out j := by
  apply skipIndex_sound mm _ _ _ rgs out hr h
  intro j ⟨seg, row, hseg, hrow, hs⟩
  simp only [bfReader, hseg]
  rw [bf_sound_partial wsp pos c seg row hwf (hcov seg (List.mem_of_getElem? hseg)) hrow hs]

theorem fulltext_scan_sound_partial (wsp : Nat → Bool) (pos : Nat → List Nat) (nIdx : Nat) (cols : List Nat)
    (c : BCond) (segs : List Seg) (mm : Nat) (rgs out : List (Nat × Nat))
    (hwf : WFC c) (hcov : ∀ seg ∈ segs, MultiCovered wsp nIdx cols c seg) (hr : WFRanges rgs)
    (h : skipScan mm (ftReader wsp pos nIdx cols c segs) rgs = some out) :
    ∀ p ∈ rgs, ∀ j, p.1 ≤ j → j < p.2 →
      (∃ seg row, segs[j]? = some seg ∧ row ∈ seg ∧ rowSat nIdx row c) → Covered out j := by
  apply skipIndex_sound mm _ _ _ rgs out hr h
  intro j ⟨seg, row, hseg, hrow, hs⟩
  simp only [ftReader, hseg]
  rw [ft_sound_partial wsp pos nIdx cols c seg row hwf (hcov seg (List.mem_of_getElem? hseg)) hrow hs]

/-! ## 7. the min-max reader -/

section minmax
open OG.Gen.C20 (Mark)
variable {α : Type} [LT α] [LE α] [DecidableLT α] [DecidableEq α]
  [Std.IsLinearOrder α] [Std.LawfulOrderLT α]

/-- **S8** whatever rows the reader picks: if the range it builds contains the value of a
row that satisfies the condition, it answers `true` (this is `checkInRange_sound`). -/
theorem minMax_sound_of_bounds (d : Disc α) (hd : d.Lawful) (c : Cond α) (rg : Range α) (x : Option α)
    (hin : rg.memW (toExt x)) (hs : sat c [x]) : (checkInRange d c [rg]).canBeTrue = true :=
  checkInRange_sound d hd c [rg] [x] (InRect.cons hin InRect.nil) hs

end minmax

def intDiscS : Disc Int := ⟨fun a => some (a + 1), fun a => some (a - 1)⟩

/-- **S8'** with the layout the source comment documents (two rows — min, max — per fragment)
the rows the reader picks for fragment 1 are (max of fragment 0, min of fragment 1): for the
index record 1 3 | 5 9 and `value = 7`, fragment 1 (whose rows range over 5..9) is answered "no". -/
theorem minMax_asWritten_unsound_documentedLayout :
    minMaxMayBe intDiscS (.atom 0 .eq 7) [1, 3, 5, 9] 1 = some false ∧
    (minMaxRangeDocumented [1, 3, 5, 9] 1).map (fun rg => (checkInRange intDiscS (.atom 0 .eq 7) [rg]).canBeTrue)
      = some true := by
  constructor <;> decide

end OG.C20.Skip
