/-
C20 — the min-max skip-index reader on every column type.
`MinMaxIndexReader.MayBeInFragment(f)` builds the closed range [rec[f], rec[f+1]] from rows `f`
and `f+1` of the index record and evaluates the key condition on it (`minMaxMayBe`, Skip.lean).
That is sound exactly for an index record that holds *boundaries* of a sorted column (row `f` a
lower bound and row `f+1` an upper bound of fragment `f`, what the primary-key index writer would
produce) — for every linear order, i.e. every column type (`minMaxMayBe_sound`), end to end
through `Scan` (`minMax_scan_sound`) — and unsound for the layout the source comment documents
(`minMax_asWritten_unsound_documentedLayout`, SkipProps.lean).
-/
import OG.C20.SkipProps

set_option linter.unusedSectionVars false
set_option linter.unusedVariables false
namespace OG.C20.Skip

section
open OG.Gen.C20 (Mark)
variable {α : Type} [LT α] [LE α] [DecidableLT α] [DecidableEq α]
  [Std.IsLinearOrder α] [Std.LawfulOrderLT α]

theorem closed_memW (a b x : α) (h1 : a ≤ x) (h2 : x ≤ b) :
    (⟨.val a, .val b, true, true⟩ : Range α).memW (toExt (some x)) := by
  left
  refine ⟨?_, ?_⟩
  · rw [Range.leftLEQ_iff]
    simp only [toExt, Ext.val_lt_val, true_and, Ext.val.injEq]
    grind
  · rw [Range.rightGEQ_iff]
    simp only [toExt, Ext.val_lt_val, true_and, Ext.val.injEq]
    grind

/-- **M1** the min-max reader answers `true` for fragment `f` whenever a row value `x` of the
fragment lies between rows `f` and `f+1` of the index record and satisfies the condition — every
column type (any linear order; integers with the closed-range rewriting `d`), every AND/OR tree. -/
theorem minMaxMayBe_sound (d : Disc α) (hd : d.Lawful) (c : Cond α) (rec : List α) (f : Nat) (a b x : α)
    (hf : rec[f]? = some a) (hf1 : rec[f + 1]? = some b) (h1 : a ≤ x) (h2 : x ≤ b) (hs : sat c [some x]) :
    minMaxMayBe d c rec f = some true := by
  unfold minMaxMayBe minMaxRange
  simp only [hf, hf1, Option.map_some, Option.some.injEq]
  exact minMax_sound_of_bounds d hd c _ (some x) (closed_memW a b x h1 h2) hs

/-- the index record bounds the fragments of the data column `segs` (one list of non-null values
per fragment): what a writer in the primary-key layout produces for a sorted column. -/
def BoundaryLayout (rec : List α) (segs : List (List α)) : Prop :=
  ∀ f seg, segs[f]? = some seg → ∀ x ∈ seg, ∃ a b, rec[f]? = some a ∧ rec[f + 1]? = some b ∧ a ≤ x ∧ x ≤ b

def minMaxReader (d : Disc α) (c : Cond α) (rec : List α) : Reader := fun f => minMaxMayBe d c rec f

/-- **M2** end to end through `SKIndexReaderImpl.Scan`. -/
theorem minMax_scan_sound (d : Disc α) (hd : d.Lawful) (c : Cond α) (rec : List α) (segs : List (List α))
    (hlay : BoundaryLayout rec segs) (mm : Nat) (rgs out : List (Nat × Nat)) (hr : WFRanges rgs)
    (h : skipScan mm (minMaxReader d c rec) rgs = some out) :
    ∀ p ∈ rgs, ∀ j, p.1 ≤ j → j < p.2 →
      (∃ seg x, segs[j]? = some seg ∧ x ∈ seg ∧ sat c [some x]) → Covered out j := by
  apply skipIndex_sound mm _ _ _ rgs out hr h
  intro j ⟨seg, x, hseg, hx, hs⟩
  obtain ⟨a, b, ha, hb, h1, h2⟩ := hlay j seg hseg x hx
  exact minMaxMayBe_sound d hd c rec j a b x ha hb h1 h2 hs

end

/-- non-vacuity: sorted column 1 2 | 2 5 | 7 9, boundaries 1 2 7 9; `value = 5` keeps fragment 1
only, and fragment 1 does hold the 5. -/
example : BoundaryLayout [1, 2, 7, 9] [[1, 2], [2, 5], [7, 9]] := by
  intro f seg hseg x hx
  match f with
  | 0 => simp at hseg; subst hseg; exact ⟨1, 2, rfl, rfl, by simp at hx; omega, by simp at hx; omega⟩
  | 1 => simp at hseg; subst hseg; exact ⟨2, 7, rfl, rfl, by simp at hx; omega, by simp at hx; omega⟩
  | 2 => simp at hseg; subst hseg; exact ⟨7, 9, rfl, rfl, by simp at hx; omega, by simp at hx; omega⟩
  | n + 3 => simp at hseg

example : (List.range 3).map (minMaxMayBe intDiscS (.atom 0 .eq 5) [1, 2, 7, 9]) = [some false, some true, some false] := by
  decide

end OG.C20.Skip
