/-
C20 — model of the skip indexes of the column store (`engine/index/sparseindex`:
skip_index.go, set_index.go, min_max_index.go, condition.go (SKConditionImpl),
bloom_filter_index.go, bloom_filter_fulltext_index.go; `engine/index/bloomfilter`:
filter_reader.go (LineFilterReader), multi_field_filter_reader.go (MultiFiledLineFilterReader);
`lib/bloomfilter` (OneHitBloomFilterV3); `lib/tokenizer` (SimpleTokenizer on the write side,
SimpleUtf8Tokenizer + SimpleGramTokenizerV1 on the query side, SimpleTokenFinder = row-level
match-phrase); `lib/rpn.ConvertToRPNExpr`).

Core only, executable.  Everything here is a transcription of the code *as it is*; the two
constants `Prime_64` and `CONTENT_SPLITTER` are regenerated (OG.Generated.C20), the bodies
transcribed are pinned by OG/C20/SkipFacts.lean, the behaviour is tied by the correspondence
ops `skip skipset minmax mmx isex pmatch bloom`.
-/
import OG.C20.Model

namespace OG.C20.Skip
open OG.Gen.C20 (skPrime64 skContentSplitter)

/-! ### `SKIndexReaderImpl.Scan` -/

def two32 : Nat := 4294967296

/-- `minMarksForSeek`. -/
def minMarks (rpf minRows : Nat) : Nat := (minRows + rpf - 1) / rpf

/-- a skip-index file reader: `MayBeInFragment`; `none` = it returned an error. -/
abbrev Reader := Nat → Option Bool

/-- inner loop body for a fragment `j` of the input range `[s,e)` whose reader said "maybe".
`acc` is `res` reversed (head = last range). The difference is a `uint32` subtraction. -/
def scanStep (mm s e j : Nat) (acc : List (Nat × Nat)) : List (Nat × Nat) :=
  let dr : Nat × Nat := (max s j, min e (j + 1))
  match acc with
  | [] => [dr]
  | (ls, le) :: rest =>
    if (le + two32 - dr.1) % two32 > mm then dr :: acc else (ls, dr.2) :: rest

def scanRange (mm : Nat) (rd : Reader) (s e : Nat) :
    List Nat → List (Nat × Nat) → Option (List (Nat × Nat))
  | [], acc => some acc
  | j :: js, acc =>
    match rd j with
    | none => none
    | some false => scanRange mm rd s e js acc
    | some true => scanRange mm rd s e js (scanStep mm s e j acc)

def scanAll (mm : Nat) (rd : Reader) :
    List (Nat × Nat) → List (Nat × Nat) → Option (List (Nat × Nat))
  | [], acc => some acc
  | (s, e) :: rs, acc =>
    match scanRange mm rd s e (List.range' s (e - s)) acc with
    | none => none
    | some acc' => scanAll mm rd rs acc'

/-- `SKIndexReaderImpl.Scan(reader, rgs)`; `none` = error. -/
def skipScan (mm : Nat) (rd : Reader) (rgs : List (Nat × Nat)) : Option (List (Nat × Nat)) :=
  (scanAll mm rd rgs []).map List.reverse

/-- `SetIndexReader.MayBeInFragment`: `return false, nil`. -/
def setMayBeInFragment : Reader := fun _ => some false

/-! ### `rpn.ConvertToRPNExpr`, `SKConditionImpl.convertToRPNElem`, `SKConditionImpl.IsExist` -/

/-- operator of a binary expression, by how the two functions treat it: `cmp` = the comparisons
a filter lookup can decide (= MATCHPHRASE IPINRANGE; all in `switchMap`), `cmpo` = the other
tokens of `switchMap` (<> < <= > >=), `cmpns` = accepted by `convertToRPNElem` but not in
`switchMap` (MATCH, LIKE), `bad` = anything else. -/
inductive BOp where
  | and | or | cmp | cmpo | cmpns | bad
deriving DecidableEq, Repr

/-- condition expression; `β` is what a literal carries. -/
inductive SExpr (β : Type) where
  | var (n : Nat)
  | lit (b : β)
  | bin (op : BOp) (l r : SExpr β)
  | paren (e : SExpr β)
deriving Repr

/-- element of `RPNExpr.Val`. `cmp` = a comparison token the skip-index readers look up (= and the
two match operators), `cmpo` = any other comparison token `convertToRPNElem` accepts, `bad` = a
token it rejects (also the zero token `switchMap` yields for an operator it does not hold). -/
inductive Tok (β : Type) where
  | and | or | cmp | cmpo | bad
  | var (n : Nat)
  | lit (b : β)
deriving Repr

def opTok {β : Type} : BOp → Tok β
  | .and => .and | .or => .or | .cmp => .cmp | .cmpo => .cmpo | .cmpns => .cmpo | .bad => .bad

/-- `switchMap[op]` followed by the token classification (`switchMap` keeps the class: = ↦ =,
< ↦ >, …). -/
def switchedTok {β : Type} : BOp → Tok β
  | .cmp => .cmp
  | .cmpo => .cmpo
  | _ => .bad

/-- `ConvertToRPNExpr`: post-order; a binary expression whose right operand is a `VarRef` has
its operands swapped and its operator mapped through `switchMap`. -/
def toRPN {β : Type} : SExpr β → List (Tok β)
  | .var n => [.var n]
  | .lit b => [.lit b]
  | .paren e => toRPN e
  | .bin op l (.var n) => Tok.var n :: (toRPN l ++ [switchedTok op])
  | .bin op l r => toRPN l ++ toRPN r ++ [opTok op]

/-- `rpn.SKRPNElement` by `RPNOp`. -/
inductive SKElem (β : Type) where
  | inRange (key : Nat) (b : β)
  | alwaysTrue | alwaysFalse | and | or | unknown
deriving Repr

def Tok.isToken {β : Type} : Tok β → Bool
  | .and | .or | .cmp | .cmpo | .bad => true
  | _ => false

/-- `convertToRPNElem`; `none` = it returned an error. An in-schema field becomes a lookup element
only when the token two places on is a comparison the readers can decide (`cmp`); under any other
token the element is `AlwaysTrue` (fix 2 of this round; before, every comparison became a lookup). -/
def convElems {β : Type} (inSchema : Nat → Bool) : List (Tok β) → Option (List (SKElem β))
  | [] => some []
  | .and :: ts => (convElems inSchema ts).map (SKElem.and :: ·)
  | .or :: ts => (convElems inSchema ts).map (SKElem.or :: ·)
  | .cmp :: ts => convElems inSchema ts
  | .cmpo :: ts => convElems inSchema ts
  | .bad :: _ => none
  | .lit _ :: ts => convElems inSchema ts
  | .var n :: ts =>
    if !inSchema n then (convElems inSchema ts).map (SKElem.alwaysTrue :: ·)
    else
      match ts with
      | v :: o :: _ =>
        match o with
        | .cmp =>
          (match v with
          | .lit b => (convElems inSchema ts).map (SKElem.inRange n b :: ·)
          | _ => none)
        | .and | .or | .cmpo | .bad => (convElems inSchema ts).map (SKElem.alwaysTrue :: ·)
        | _ => none
      | _ => none

/-- the loop of `IsExist`; the stack's head is its top. `ans key b` = `reader.IsExist`. -/
def runElems {β : Type} (ans : Nat → β → Option Bool) : List (SKElem β) → List Bool → Option Bool
  | [], [b] => some b
  | [], _ => none
  | .inRange k b :: es, st =>
    match ans k b with
    | none => none
    | some v => runElems ans es (v :: st)
  | .alwaysTrue :: es, st => runElems ans es (true :: st)
  | .alwaysFalse :: es, st => runElems ans es (false :: st)
  | .and :: es, v1 :: v2 :: st => runElems ans es ((v1 && v2) :: st)
  | .and :: _, _ => none
  | .or :: es, v1 :: v2 :: st => runElems ans es ((v1 || v2) :: st)
  | .or :: _, _ => none
  | .unknown :: _, _ => none

/-- `NewSKCondition(ConvertToRPNExpr(e), schema)` then `IsExist`: outer `none` = the condition
could not be built, inner `none` = `IsExist` returned an error. -/
def isExist {β : Type} (inSchema : Nat → Bool) (ans : Nat → β → Option Bool) (e : SExpr β) :
    Option (Option Bool) :=
  (convElems inSchema (toRPN e)).map fun es => runElems ans es []

/-! ### hashing, tokenizers -/

def m64 : Nat := 18446744073709551616

/-- `bits.RotateLeft64(h, 11)`. -/
def rotl11 (h : Nat) : Nat := ((h <<< 11) % m64) ||| (h >>> 53)

/-- `hashValue ^= RotateLeft64(hashValue, 11) ^ (uint64(b) * Prime_64)`. -/
def hashStep (h b : Nat) : Nat := h ^^^ (rotl11 h ^^^ ((b * skPrime64) % m64))

def hashBytes (bs : List Nat) : Nat := bs.foldl hashStep 0

/-- `RotateLeft64(a, 11) ^ (b * Prime_64)`: how two hashes are joined into a gram. -/
def gram (a b : Nat) : Nat := rotl11 a ^^^ ((b * skPrime64) % m64)

/-- split table built from a split string (`BuildSplitTable`). -/
def splitOf (s : String) (b : Nat) : Bool := s.toList.any (fun ch => ch.toNat == b)

def contentSplit : Nat → Bool := splitOf skContentSplitter
def noSplit : Nat → Bool := fun _ => false

/-- write side: `SimpleTokenizer.Next` as driven by `ProcessTokenizerBatch` — one hash per
maximal run of bytes outside the split table (bytes ≥ 0x80 are ordinary token bytes). -/
def writerHashesAux (sp : Nat → Bool) : List Nat → Option Nat → List Nat
  | [], none => []
  | [], some h => [h]
  | b :: bs, cur =>
    if sp b then
      match cur with
      | some h => h :: writerHashesAux sp bs none
      | none => writerHashesAux sp bs none
    else writerHashesAux sp bs (some (hashStep (cur.getD 0) b))

def writerHashes (sp : Nat → Bool) (bs : List Nat) : List Nat := writerHashesAux sp bs none

/-- token of `SimpleUtf8Tokenizer`: its hash and the value of `preSplitChar` when `Next`
returned it. -/
structure UTok where
  hash : Nat
  psc : Nat
deriving Repr, DecidableEq

inductive UState where
  | idle
  | run (h : Nat)
  | multi (h : Nat) (rem : Nat)

/-- `SimpleUtf8Tokenizer.Next` iterated to the end of the input: the tokens and the final
`preSplitChar`; `none` = `updateHash` read past the end of the input (index-out-of-range panic). -/
def utf8Toks (sp : Nat → Bool) : List Nat → UState → Nat → Option (List UTok × Nat)
  | [], .idle, psc => some ([], psc)
  | [], .run h, psc => some ([⟨h, psc⟩], psc)
  | [], .multi _ _, _ => none
  | b :: bs, .multi h rem, psc =>
    let h' := hashStep h b
    match rem with
    | 0 => (utf8Toks sp bs .idle 1).map fun (ts, p) => (⟨h', 1⟩ :: ts, p)
    | rem' + 1 => utf8Toks sp bs (.multi h' rem') psc
  | b :: bs, st, psc =>
    -- close a run in progress when the byte does not continue it
    let isChar := b < 128 && !sp b
    match st, isChar with
    | .run h, true => utf8Toks sp bs (.run (hashStep h b)) psc
    | .idle, true => utf8Toks sp bs (.run (hashStep 0 b)) psc
    | st, _ =>
      let emit (r : Option (List UTok × Nat)) : Option (List UTok × Nat) :=
        match st with
        | .run h => r.map fun (ts, p) => (⟨h, psc⟩ :: ts, p)
        | _ => r
      if b < 128 then emit (utf8Toks sp bs .idle b)            -- split byte
      else if b ≤ 0xdf then emit (utf8Toks sp bs (.multi (hashStep 0 b) 0) psc)
      else if b ≤ 0xef then emit (utf8Toks sp bs (.multi (hashStep 0 b) 1) psc)
      else if b ≤ 0xf7 then emit (utf8Toks sp bs (.multi (hashStep 0 b) 2) psc)
      else emit (utf8Toks sp bs .idle psc)                     -- skipped byte

/-- state of `SimpleGramTokenizerV1.InitInput`. -/
structure V1 where
  hv : Nat := 0
  pre : Nat := 0
  prepre : Nat := 0
  split : Nat := 0
  num : Nat := 0
  init : Bool := false
  out : List Nat := []
deriving Repr

/-- `addHashes`. -/
def V1.addHashes (s : V1) (cur psc : Nat) : V1 :=
  let out :=
    if s.num == 1 then
      (if psc == 1 then s.out ++ [gram s.pre s.prepre] else s.out ++ [s.pre, s.prepre])
    else s.out ++ [s.hv]
  { s with hv := cur, pre := cur, prepre := 0, split := 0, num := 0, out := out }

/-- loop body of `InitInput` for one token. -/
def V1.step (s : V1) (t : UTok) : V1 :=
  if t.hash == 0 then s
  else if !s.init then { s with hv := t.hash, pre := t.hash, init := true }
  else if s.num == 0 then
    { s with prepre := s.pre, pre := t.hash, hv := gram t.hash s.hv, split := t.psc, num := 1 }
  else if s.split != t.psc then { s.addHashes t.hash t.psc with init := false }
  else if s.num ≥ 3 then { s.addHashes t.hash t.psc with init := false }
  else { s with prepre := s.pre, pre := t.hash, hv := gram t.hash s.hv, split := t.psc, num := s.num + 1 }

/-- query side: the hashes a reader looks up for a phrase (`NewSimpleGramTokenizer(split, 4, 0)`,
`InitInput`, then every `CurrentHash() != 0`); `none` = panic. -/
def readerLookups (sp : Nat → Bool) (phrase : List Nat) : Option (List Nat) :=
  (utf8Toks sp phrase .idle 0).map fun (ts, psc) =>
    let s := ts.foldl V1.step {}
    let s := if s.hv != 0 then s.addHashes 0 psc else s
    s.out.filter (· != 0)

/-! ### `OneHitBloomFilterV3` -/

def pairAux : Nat → Nat → Nat → Nat × Nat
  | 0, i, idx => (i, i + 1 + idx)
  | f + 1, i, idx => if idx < 31 - i then (i, i + 1 + idx) else pairAux f (i + 1) (idx - (31 - i))

/-- `tableV3[idx]` / the tokenizer's `table[idx]` as the two bit numbers it sets. -/
def pairOf (idx : Nat) : Nat × Nat := pairAux 31 0 (if idx ≥ 496 then idx - 496 else idx)

/-- the bit positions (within the filter, bit 0 = least significant bit of byte 0) that
`Add(hash)` sets and `Hit(hash)` tests. -/
def posV3 (h : Nat) : List Nat :=
  let base := (h >>> 46) * 8
  let lo := pairOf ((h >>> 28) &&& 0x1ff)
  let hi := pairOf ((h >>> 37) &&& 0x1ff)
  [base + lo.1, base + lo.2, base + 32 + hi.1, base + 32 + hi.2]

/-- a filter = the set of its one-bits; `pos` = hash family. -/
def Filter.add (pos : Nat → List Nat) (f : List Nat) (h : Nat) : List Nat := pos h ++ f
def Filter.build (pos : Nat → List Nat) (hs : List Nat) : List Nat := hs.foldl (Filter.add pos) []
def Filter.hit (pos : Nat → List Nat) (f : List Nat) (h : Nat) : Bool := (pos h).all (fun p => f.contains p)

/-! ### row-level match-phrase: `SimpleTokenFinder` -/

def tfIsSplit (sp : Nat → Bool) (c : List Nat) (pos : Nat) : Bool :=
  match c[pos]? with
  | some b => b ≥ 128 || sp b
  | none => false

/-- `indexOf(source, target, from)` for a non-empty target and `from < len(source)`. -/
def indexOfFrom (c t : List Nat) (frm : Nat) : Option Nat :=
  (List.range' frm (c.length + 1 - t.length - frm)).find? fun i => (c.drop i).take t.length == t

def tfLoop (sp : Nat → Bool) (c t : List Nat) : Nat → Nat → Bool
  | 0, _ => false
  | fuel + 1, frm =>
    if frm ≥ c.length then false
    else
      match indexOfFrom c t frm with
      | none => false
      | some found =>
        let first := found
        let last := found + t.length - 1
        let preValid := first == 0 || tfIsSplit sp c (first - 1) || tfIsSplit sp c first
        let postValid := last + 1 ≥ c.length || tfIsSplit sp c (last + 1) || tfIsSplit sp c last
        if preValid && postValid then true else tfLoop sp c t fuel (found + t.length)

/-- `tokenFinder.InitInput(content, goal); tokenFinder.Next()`. -/
def phraseMatch (sp : Nat → Bool) (content phrase : List Nat) : Bool :=
  if phrase.isEmpty then content.isEmpty
  else if content.isEmpty then false
  else tfLoop sp content phrase (content.length + 1) 0

/-! ### the two bloom-filter readers -/

inductive CmpK where
  | mp | eq | neq | lt | gt | lte | gte
deriving DecidableEq, Repr

/-- literal of a bloom condition: the comparison it belongs to and its bytes. -/
structure BLit where
  op : CmpK
  v : List Nat
deriving Repr

abbrev BCond := SExpr BLit

/-- field numbering of the bloom ops: `0..nIdx-1` indexed, `fieldOther` not indexed,
`fieldLog` = `__log___`. -/
def fieldOther : Nat := 1000
def fieldLog : Nat := 1001

def allHit (pos : Nat → List Nat) (f : List Nat) (ls : List Nat) : Bool := ls.all (Filter.hit pos f)

/-- `LineFilterReader.hitExpr` over the *whole* condition (`IsExist` ignores its element):
only a match-phrase on a field of `splitMap` (= the reader's first schema field, 0) can say no;
a phrase without any hash says no. `none` = panic in the tokenizer. -/
def lineHit (sp : Nat → Bool) (pos : Nat → List Nat) (f : List Nat) : BCond → Option Bool
  | .paren e => lineHit sp pos f e
  | .bin .and l r =>
    match lineHit sp pos f l with
    | none => none
    | some false => some false
    | some true => lineHit sp pos f r
  | .bin .or l r =>
    match lineHit sp pos f l with
    | none => none
    | some true => some true
    | some false => lineHit sp pos f r
  | .bin .cmp (.var n) (.lit b) =>
    if b.op == .mp && n == 0 then
      (readerLookups sp b.v).map fun ls => !ls.isEmpty && allHit pos f ls
    else some true
  | _ => some true

/-- atoms of a condition in `ConvertToRPNExpr` order. -/
def atomsOf {β : Type} : SExpr β → List (Nat × β)
  | .bin .cmp (.var n) (.lit b) => [(n, b)]
  | .bin _ l r => atomsOf l ++ atomsOf r
  | .paren e => atomsOf e
  | _ => []

/-- `MultiFiledLineFilterReader.hitExpr(elem.Value)`: every element the condition holds on a
field of the reader's schema is looked up, whatever its operator; no hash ⇒ `true`. -/
def multiHit (sp : Nat → Bool) (pos : Nat → List Nat) (f : List Nat) (b : BLit) : Option Bool :=
  (readerLookups sp b.v).map fun ls => ls.isEmpty || allHit pos f ls

/-- rows of one segment: per row the values of the string columns (`none` = null). -/
abbrev Seg := List (List (Option (List Nat)))

def segHashes (wsp : Nat → Bool) (cols : List Nat) (seg : Seg) : List Nat :=
  seg.flatMap fun row => cols.flatMap fun c =>
    match row[c]? with
    | some (some v) => writerHashes wsp v
    | _ => []

/-- `BloomFilterIndexReader.MayBeInFragment` for the block whose filter `GenBloomFilterData`
wrote from column 0 of `seg` (split table `wsp` on the write side, `CONTENT_SPLIT_TABLE` on
the query side). -/
def bfMayBe (wsp : Nat → Bool) (pos : Nat → List Nat) (c : BCond) (seg : Seg) : Option (Option Bool) :=
  let f := Filter.build pos (segHashes wsp [0] seg)
  isExist (fun n => n == 0) (fun _ _ => lineHit contentSplit pos f c) c

/-- `BloomFilterFullTextIndexReader.MayBeInFragment`; the filter holds every string column of
the record (`cols`), the schema is the index's column list plus `__log___`. -/
def ftMayBe (wsp : Nat → Bool) (pos : Nat → List Nat) (nIdx : Nat) (cols : List Nat) (c : BCond) (seg : Seg) :
    Option (Option Bool) :=
  let f := Filter.build pos (segHashes wsp cols seg)
  isExist (fun n => n < nIdx || n == fieldLog) (fun _ b => multiHit contentSplit pos f b) c

/-- `CreateSKFileReaders` creates a reader only when a field of the index (or `__log___`)
occurs in the condition. -/
def hasReader (inIdx : Nat → Bool) (c : BCond) : Bool := (atomsOf c).any fun a => inIdx a.1

/-! ### `MinMaxIndexReader.MayBeInFragment` (one index column) -/

section minmax
variable {α : Type} [LT α] [DecidableLT α] [DecidableEq α]

/-- the range the reader builds for fragment `f` from the index record `rec`: rows `f` and
`f+1` (row 0/1 for fragment 0, then `left.row = fragId`, `right.row = fragId+1`). -/
def minMaxRange (rec : List α) (f : Nat) : Option (Range α) :=
  match rec[f]?, rec[f + 1]? with
  | some a, some b => some ⟨.val a, .val b, true, true⟩
  | _, _ => none

def minMaxMayBe (d : Disc α) (c : Cond α) (rec : List α) (f : Nat) : Option Bool :=
  (minMaxRange rec f).map fun rg => (checkInRange d c [rg]).canBeTrue

/-- one answer of a run of `MayBeInFragment(0), (1), …` over an index record with nulls. -/
inductive MMAns where
  | yes | no | err | panic
deriving DecidableEq, Repr

/-- `MayBeInFragment` called for fragments `f, f+1, … < n` in order, index record `rec` with nulls
(`none`), `nullV` = how a null `FieldRef` compares (`FieldRef.Less`: below every value).
Fragment 0 compares the rows as they are. A later fragment replaces a null bound by the shared
sentinel `NEGATIVE_INFINITY` (both bounds: the right one too) — and the *next* call then writes
`row = fragId` into that sentinel and dereferences its nil column list: it panics, and the
package-level sentinel is left corrupted (`aliased` = a bound is the sentinel). Returns the
answers up to the first panic and whether the sentinel was written to. -/
def minMaxRunNull (d : Disc α) (c : Cond α) (nullV : α) (rec : List (Option α)) :
    Nat → Nat → Bool → List MMAns × Bool
  | 0, _, _ => ([], false)
  | fuel + 1, f, aliased =>
    if aliased then ([.panic], true)
    else
      match rec[f]?, rec[f + 1]? with
      | some a, some b =>
        let ext (x : Option α) : Ext α × Bool :=
          match x with
          | some v => (.val v, false)
          | none => if f == 0 then (.val nullV, false) else (.negInf, true)
        let (l, al) := ext a
        let (r, ar) := ext b
        let ans := if (checkInRange d c [⟨l, r, true, true⟩]).canBeTrue then MMAns.yes else MMAns.no
        let (rest, corrupted) := minMaxRunNull d c nullV rec fuel (f + 1) (al || ar)
        (ans :: rest, corrupted)
      | _, _ => ([.panic], false)

/-- the layout the comment in min_max_index.go documents: two rows (min, max) per fragment. -/
def minMaxRangeDocumented (rec : List α) (f : Nat) : Option (Range α) :=
  match rec[2 * f]?, rec[2 * f + 1]? with
  | some a, some b => some ⟨.val a, .val b, true, true⟩
  | _, _ => none

end minmax

end OG.C20.Skip
