/-
C20 — a sequence of scans by one reader (model: OG/C20/Seq.lean).
  * `scan_is_stateless` — whatever was scanned before, the answer for a file is the answer of a
    fresh reader, and the reader is unchanged: `scanSeq r files = (r, files.map (scan … r))`.
  * `scanSeq_sound` — so `scan_sound` holds for every file of the sequence, in any order, with
    files of different fragment counts and contents.
The tie: SeqFacts.lean (no reader field beyond the index property, no assignment to a reader
field) and the ops `scanseq` / `seqs` (one real reader + one real key condition over generated file
sequences; answers must equal the per-file answers of the model and the row oracle).
-/
import OG.C20.Seq
import OG.C20.Props

namespace OG.C20

section
variable {α : Type} [LT α] [LE α] [DecidableLT α] [DecidableEq α]
  [Std.IsLinearOrder α] [Std.LawfulOrderLT α]

/-- **Q1** a scan depends on its arguments only. -/
theorem scan_is_stateless (fixed : Bool) (d : Disc α) (c : Cond α) (hasKey : Bool) (us : List Bool) (r : PKReader) :
    ∀ files : List (List (List (Ext α))),
      scanSeq fixed d c hasKey us r files = (r, files.map fun m => scan fixed d c hasKey us m r.coarse r.minMarks) := by
  intro files
  induction files with
  | nil => rfl
  | cons f fs ih => simp [scanSeq, scanWith, ih]

/-- **Q2** the property for every file of a sequence scanned by one reader and one condition. -/
theorem scanSeq_sound (d : Disc α) (hd : d.Lawful) (c : Cond α) (hasKey : Bool) (us : List Bool) (r : PKReader)
    (hco : 2 ≤ r.coarse) (files : List (List (List (Ext α)))) (j : Nat) (marks : List (List (Ext α)))
    (hj : files[j]? = some marks) (i : Nat) (k : List (Option α))
    (hi : i < marks.length - 1)
    (hwidth : ∀ j, j < marks.length → c.usedKeySize ≤ (marks.getD j []).length)
    (hus : c.usedKeySize ≤ us.length) (hk : c.usedKeySize ≤ k.length)
    (hsorted : ∀ j j', j ≤ j' → j' < marks.length → lexLE (marks.getD j []) (marks.getD j' []))
    (hl : lexLE (marks.getD i []) (k.map toExt)) (hr : lexLE (k.map toExt) (marks.getD (i + 1) []))
    (hs : sat c k) :
    ∃ a, (scanSeq true d c hasKey us r files).2[j]? = some a ∧ ∃ p ∈ a, p.1 ≤ i ∧ i < p.2 := by
  rw [scan_is_stateless]
  refine ⟨scan true d c hasKey us marks r.coarse r.minMarks, by simp [hj], ?_⟩
  exact scan_sound d hd c hasKey us marks r.coarse r.minMarks i k hco hi hwidth hus hk hsorted hl hr hs

end

end OG.C20
