/-
C20 — model of the column-store primary-key sparse index pruning
(`engine/index/sparseindex`: field.go, range.go, condition.go, primary_index.go).

Core-only, executable.  `Mark` and its `And/Or/Not/isComplete` are *regenerated* from
`mark.go` by ogfacts (OG.Generated.C20); everything else is hand-written and tied to the
code by the correspondence harness (exact fragment ranges on random inputs).

Key values live in an arbitrary ordered type `α`; the order is a parameter so that one
theorem covers int / float (NaN excluded) / string / bool keys.  `Disc` carries the
successor / predecessor used by `turnOpenRangeIntoClosed` on integer columns (it is the
constant `none` on every other column type).
-/
import OG.Generated.C20

namespace OG.C20
open OG.Gen.C20 (Mark)

variable {α : Type}

section defs
variable [LT α] [DecidableLT α] [DecidableEq α]

/-- successor / predecessor on discrete (integer) columns; `none` when the column is not an
integer column or the value is the extreme one (`MaxInt64` / `MinInt64`). -/
structure Disc (α : Type) where
  succ : α → Option α
  pred : α → Option α

/-- `Range.turnOpenRangeIntoClosed`. -/
def Range.turnOpen (d : Disc α) (r : Range α) : Range α :=
  let r1 : Range α :=
    match r.li, r.left with
    | false, .val v =>
      match d.succ v with
      | some v' => { r with left := .val v', li := true }
      | none => r
    | _, _ => r
  match r1.ri, r1.right with
  | false, .val v =>
    match d.pred v with
    | some v' => { r1 with right := .val v', ri := true }
    | none => r1
  | _, _ => r1

/-- `createWholeRangeIncludeBound` (true) / `createWholeRangeWithoutBound` (false). -/
def Range.whole (incl : Bool) : Range α := ⟨.negInf, .posInf, incl, incl⟩
def Range.point (x : Ext α) : Range α := ⟨x, x, true, true⟩

/-- `createRightBounded`. -/
def createRightBounded (d : Disc α) (right : Ext α) (ri : Bool) (inclInf : Bool) : Range α :=
  let nr : Range α := (Range.mk .negInf right inclInf ri).turnOpen d
  if nr.right = .negInf && ri then { nr with li := true } else nr

/-- `createLeftBounded`. -/
def createLeftBounded (d : Disc α) (left : Ext α) (li : Bool) (inclInf : Bool) : Range α :=
  let nr : Range α := (Range.mk left .posInf li inclInf).turnOpen d
  if nr.left = .posInf && li then { nr with ri := true } else nr

/-- comparison operators accepted on a key column (`genRPNElementByOp`). -/
inductive CmpOp where
  | eq | neq | lt | lte | gt | gte
deriving DecidableEq, Repr

/-- `genRPNElementByOp`: (negated?, range). -/
def atomRange (d : Disc α) (op : CmpOp) (c : α) : Bool × Range α :=
  match op with
  | .eq  => (false, Range.point (.val c))
  | .neq => (true,  Range.point (.val c))
  | .lt  => (false, createRightBounded d (.val c) false false)
  | .gt  => (false, createLeftBounded d (.val c) false false)
  | .lte => (false, createRightBounded d (.val c) true false)
  | .gte => (false, createLeftBounded d (.val c) true false)

/-- condition tree: what `rpn.ConvertToRPNExpr` + `convertToRPNElem` accept. `other` is a
comparison on a column that is not part of the primary key (`AlwaysTrue`). -/
inductive Cond (α : Type) where
  | atom (col : Nat) (op : CmpOp) (c : α)
  | other
  | and (a b : Cond α)
  | or (a b : Cond α)
deriving Repr

/-- `checkInRangeForRange`. `rgs[col]` missing is impossible in the code (it would panic);
the model answers `(true,true)` there. -/
def checkAtom (d : Disc α) (col : Nat) (op : CmpOp) (c : α) (rgs : List (Range α)) : Mark :=
  match rgs[col]? with
  | none => ⟨true, true⟩
  | some keyRange =>
    let (neg, rg) := atomRange d op c
    let m : Mark := ⟨rg.intersects keyRange, !rg.contains keyRange⟩
    if neg then m.Not else m

/-- `CheckInRange` (RPN evaluation, written over the tree). -/
def checkInRange (d : Disc α) : Cond α → List (Range α) → Mark
  | .atom col op c, rgs => checkAtom d col op c rgs
  | .other, _ => ⟨true, false⟩
  | .and a b, rgs => (checkInRange d a rgs).And (checkInRange d b rgs)
  | .or a b, rgs => (checkInRange d a rgs).Or (checkInRange d b rgs)

/-- `checkInAnyRange` with its three helpers inlined.
`fixed = false` is the code as it was at the pinned commit (`checkRangeRightBound`
returned the last sub-result `mark`); `fixed = true` returns the accumulated `res`.
`pre` = ranges of the already fixed key prefix, `ls rs us` = remaining left keys, right
keys and "type unknown" flags. -/
def anyRange (fixed : Bool) (d : Disc α) (cb : List (Range α) → Mark) (init : Mark) :
    List (Range α) → List (Ext α) → List (Ext α) → List Bool → Bool → Bool → Mark
  | pre, l :: lt, r :: rt, u :: ut, lb, rb =>
    if !lb && !rb then cb (pre ++ (u :: ut).map Range.whole)
    else if lb && rb && l.eqv r then
      anyRange fixed d cb init (pre ++ [Range.point l]) lt rt ut lb rb
    else
      match lt with
      | [] =>
        -- prefixSize+1 == keySize
        let rg : Range α :=
          if lb && rb then ⟨l, r, true, true⟩
          else if lb then createLeftBounded d l true false
          else createRightBounded d r true false
        cb (pre ++ [rg])
      | _ :: _ =>
        let rg : Range α :=
          if lb && rb then ⟨l, r, false, false⟩
          else if lb then createLeftBounded d l false u
          else createRightBounded d r false u
        let res := init.Or (cb (pre ++ rg :: ut.map Range.whole))
        if res.isComplete then res
        else
          let resL :=
            if lb then res.Or (anyRange fixed d cb init (pre ++ [Range.point l]) lt rt ut true false)
            else res
          if lb && resL.isComplete then resL
          else if rb then
            let mark := anyRange fixed d cb init (pre ++ [Range.point r]) lt rt ut false true
            if fixed then resL.Or mark else mark
          else resL
  | pre, _, _, _, _, _ => cb pre

/-- `ConsiderOnlyBeTrue`. -/
def considerOnlyBeTrue : Mark := ⟨false, true⟩

/-- `MayBeInRange`. -/
def mayBeInRange (fixed : Bool) (d : Disc α) (c : Cond α) (us : List Bool)
    (ls rs : List (Ext α)) : Bool :=
  (anyRange fixed d (checkInRange d c) considerOnlyBeTrue [] ls rs us true true).canBeTrue

/-- `GetMaxKeyIndex` + 1 (0 when no key column is used: `HavePrimaryKey` is then decided
separately, see `Cond.hasElems`). -/
def Cond.usedKeySize : Cond α → Nat
  | .atom col _ _ => col + 1
  | .other => 0
  | .and a b => max a.usedKeySize b.usedKeySize
  | .or a b => max a.usedKeySize b.usedKeySize

end defs

/-! ### Scan: the two search strategies over the mark list -/

/-- `doBinarySearch`, left boundary loop: returns `left`. `check s e` = `MayBeInRange`
on marks `s` and `e`. -/
def bsLeft (check : Nat → Nat → Bool) : Nat → Nat → Nat → Nat
  | 0, left, _ => left
  | fuel + 1, left, right =>
    if left + 1 < right then
      let middle := (left + right) / 2
      if check 0 middle then bsLeft check fuel left middle else bsLeft check fuel middle right
    else left

/-- right boundary loop: returns `right`. -/
def bsRight (check : Nat → Nat → Bool) (n : Nat) : Nat → Nat → Nat → Nat
  | 0, _, right => right
  | fuel + 1, left, right =>
    if left + 1 < right then
      let middle := (left + right) / 2
      if check middle n then bsRight check n fuel middle right else bsRight check n fuel left middle
    else right

/-- `doBinarySearch`: list of half-open fragment ranges. -/
def binarySearch (check : Nat → Nat → Bool) (n : Nat) : List (Nat × Nat) :=
  let s := bsLeft check n 0 n
  let e := bsRight check n n s n
  if s < e then (if check s e then [(s, e)] else []) else []

/-- sub-ranges pushed by `doExclusionSearch` for a range `[s,e)` that may match, in the
order they are popped (ascending). Go: `for end = e; end > s+step; end -= step { push (end-step,
end) }; push (s, end)` — the stack is popped last-in first-out, i.e. `(s,end)` first, then the
pieces of width `step` in ascending order. Written here from the right end. -/
def splitR (s step : Nat) : Nat → Nat → List (Nat × Nat)
  | 0, e => [(s, e)]
  | fuel + 1, e => if e > s + step then splitR s step fuel (e - step) ++ [(e - step, e)] else [(s, e)]

def exclSplit (coarse : Nat) (s e : Nat) : List (Nat × Nat) :=
  splitR s ((e - s - 1) / coarse + 1) (e - s) e

/-- leaves (single fragments) that survive the exclusion search, ascending. -/
def exclLeaves (check : Nat → Nat → Bool) (coarse : Nat) : Nat → Nat → Nat → List Nat
  | 0, _, _ => []
  | fuel + 1, s, e =>
    if !check s e then []
    else if e = s + 1 then [s]
    else (exclSplit coarse s e).flatMap (fun p => exclLeaves check coarse fuel p.1 p.2)

/-- merging of neighbouring leaves into ranges (`minMarksForSeek`). -/
def exclMerge (minMarks : Nat) : List (Nat × Nat) → List Nat → List (Nat × Nat)
  | acc, [] => acc.reverse
  | [], x :: xs => exclMerge minMarks [(x, x + 1)] xs
  | (s, e) :: acc, x :: xs =>
    if x - e > minMarks then exclMerge minMarks ((x, x + 1) :: (s, e) :: acc) xs
    else exclMerge minMarks ((s, x + 1) :: acc) xs

/-- `doExclusionSearch` (the `CoarseIndexFragment ≤ 1` error is the caller's business). -/
def exclusionSearch (check : Nat → Nat → Bool) (coarse minMarks n : Nat) : List (Nat × Nat) :=
  exclMerge minMarks [] (exclLeaves check coarse (n + 1) 0 n)

section scan
variable [LT α] [DecidableLT α] [DecidableEq α]

/-- `Scan`: `marks` has `n+1` rows (first key of every fragment and the last key of the
last one), each a tuple of the primary-key columns. -/
def scan (fixed : Bool) (d : Disc α) (c : Cond α) (hasKey : Bool) (us : List Bool)
    (marks : List (List (Ext α))) (coarse minMarks : Nat) : List (Nat × Nat) :=
  let n := marks.length - 1
  if !hasKey then [(0, n)]
  else
    let used := c.usedKeySize
    let check := fun s e =>
      mayBeInRange fixed d c (us.take used) ((marks.getD s []).take used) ((marks.getD e []).take used)
    if used = 1 then binarySearch check n else exclusionSearch check coarse minMarks n

end scan

end OG.C20
