/-
C20 — model of the IP bloom-filter skip index (`bloomfilter_ip`): write side
`BloomFilterIpIndexWriter.GenBloomFilterData` + `IpTokenizer` (lib/tokenizer/tokenizer_ip.go: every
address is entered into the block's filter four times — /32, /24, /16, /8 — with the mask index
mixed into the hash), read side `BloomFilterIndexReader` with index type `BloomFilterIp`:
`SKConditionImpl` over the schema, every lookup element asks `LineFilterIpReader.hitExpr` over the
*whole* condition: `=` looks the /32 hash of its literal up, `IPINRANGE` the hash of the subnet at
its prefix floored to a multiple of 8 bits; since fix 4 of this round only for an atom
`field op 'literal'` on the field whose filter file was opened (a key of `splitMap`), any other atom
is unknown; a subnet with a prefix shorter than 8 bits has no hash and is unknown too.
IPv4 only (dotted quads; the harness generates no `:`), `net.ParseIP` / `net.ParseCIDR` are
modelled for canonical text. Core only.
-/
import OG.C20.SkipIdx

namespace OG.C20.Skip
open OG.Gen.C20 (skPrime64)

/-- decimal number without sign / leading zero, `< 256`. -/
def parseOctet (cs : List Nat) : Option Nat :=
  match cs with
  | [] => none
  | [d] => if 48 ≤ d ∧ d ≤ 57 then some (d - 48) else none
  | d :: ds =>
    if d == 48 then none
    else if (d :: ds).all (fun c => 48 ≤ c && c ≤ 57) && (d :: ds).length ≤ 3 then
      let v := (d :: ds).foldl (fun a c => a * 10 + (c - 48)) 0
      if v < 256 then some v else none
    else none

def splitOnByte (sep : Nat) : List Nat → List Nat → List (List Nat)
  | [], cur => [cur.reverse]
  | c :: cs, cur => if c == sep then cur.reverse :: splitOnByte sep cs [] else splitOnByte sep cs (c :: cur)

/-- `net.ParseIP` restricted to IPv4 dotted quads. -/
def parseIPv4 (s : List Nat) : Option (List Nat) :=
  match splitOnByte 46 s [] with
  | [a, b, c, d] =>
    match parseOctet a, parseOctet b, parseOctet c, parseOctet d with
    | some a, some b, some c, some d => some [a, b, c, d]
    | _, _, _, _ => none
  | _ => none

/-- `net.ParseCIDR` for `a.b.c.d/n`: the address bytes and the prefix length. -/
def parseCIDRv4 (s : List Nat) : Option (List Nat × Nat) :=
  match splitOnByte 47 s [] with
  | [ip, n] =>
    match parseIPv4 ip, parseOctet n with
    | some ip, some n => if n ≤ 32 then some (ip, n) else none
    | _, _ => none
  | _ => none

/-- `IPv4Masks[idx]` applied: index 0 = /32 … 3 = /8 — the first `4 - idx` bytes are kept. -/
def maskIdx (ip : List Nat) (idx : Nat) : List Nat :=
  (ip.take (4 - idx)) ++ List.replicate (ip.length - (4 - idx)) 0

/-- `HashWithMaskIndex`. -/
def ipHash (ip : List Nat) (idx : Nat) : Nat :=
  (maskIdx ip idx).foldl (fun h b => h ^^^ (rotl11 ((h + idx) % m64) ^^^ ((b * skPrime64) % m64))) 0

/-- write side: the four hashes of a value that is an IPv4 address; nothing for other text. -/
def ipWriteHashes (v : List Nat) : List Nat :=
  match parseIPv4 v with
  | some ip => [ipHash ip 0, ipHash ip 1, ipHash ip 2, ipHash ip 3]
  | none => []

def ipSegHashes (col : Nat) (seg : Seg) : List Nat :=
  seg.flatMap fun row =>
    match row[col]? with
    | some (some v) => ipWriteHashes v
    | _ => []

/-- one byte of the network mask of prefix length `n` at byte position `i`. -/
def prefixMaskByte (n i : Nat) : Nat :=
  if 8 * (i + 1) ≤ n then 255 else if n ≤ 8 * i then 0 else 256 - 2 ^ (8 - (n - 8 * i))

/-- the address masked to its prefix (`ipNet.IP` of `ParseCIDR`). -/
def maskPrefix (ip : List Nat) (n : Nat) : List Nat :=
  (List.range ip.length).map fun i => (ip.getD i 0) &&& prefixMaskByte n i

/-- `GetMatchedMaskIndex` after flooring the mask to whole bytes: prefix `n` ↦ index `4 - n/8`,
`none` when fewer than 8 bits remain. -/
def floorIdx (n : Nat) : Option Nat := if n / 8 = 0 then none else some (4 - n / 8)

/-- literal of an IP condition: is it an `IPINRANGE` (else `=`), and its bytes. -/
structure IpLit where
  inRange : Bool
  v : List Nat
deriving Repr

abbrev IpCond := SExpr IpLit

/-- `LineFilterIpReader.hitExpr` over the whole condition. -/
def ipHit (keys : Nat → Bool) (pos : Nat → List Nat) (f : List Nat) : IpCond → Bool
  | .paren e => ipHit keys pos f e
  | .bin .and l r => ipHit keys pos f l && ipHit keys pos f r
  | .bin .or l r => ipHit keys pos f l || ipHit keys pos f r
  | .bin .cmp (.var n) (.lit b) =>
    if !keys n then true
    else if b.inRange then
      match parseCIDRv4 b.v with
      | none => true
      | some (ip, plen) =>
        match floorIdx plen with
        | none => true
        | some idx =>
          let h := ipHash (maskPrefix ip plen) idx
          if h == 0 then true else Filter.hit pos f h
    else
      match parseIPv4 b.v with
      | none => true
      | some ip =>
        let h := ipHash ip 0
        if h == 0 then true else Filter.hit pos f h
  | _ => true

/-- `BloomFilterIndexReader.MayBeInFragment` for index type `BloomFilterIp`: schema = the index
columns the condition mentions, file and `splitMap` key = `schema[0]` (`bfFileCol`, `bfSplitKeys`). -/
def ipMayBe (pos : Nat → List Nat) (schema : List Nat) (c : IpCond) (seg : Seg) : Option (Option Bool) :=
  match bfFileCol schema with
  | none => none
  | some fc =>
    let f := Filter.build pos (ipSegHashes fc seg)
    isExist (fun n => schema.contains n)
      (fun _ _ => some (ipHit (fun n => (bfSplitKeys schema).contains n) pos f c)) c

end OG.C20.Skip
