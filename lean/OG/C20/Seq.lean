/-
C20 — one reader, one key condition, many files.  In a query the same `PKIndexReaderImpl`, the
same `KeyConditionImpl` and the same skip-index file readers scan every data file
(`shard.scanWithSparseIndex`, `attachedIndexReader.Next`, `detachedIndexReader.GetBatchFrag`; the
shard-level reader even lives across queries).  The reader is modelled as the object it is: the
fields `Scan` may read (`PKReader` = the index property; SeqFacts.lean pins that the struct has no
other state and that no method assigns a field), `scanWith` returns the reader next to the answer,
`scanSeq` threads it through a sequence of files.  Core only.
-/
import OG.C20.Model

namespace OG.C20

/-- what a `PKIndexReaderImpl` holds: `property` (coarse-index setting, seek threshold in marks). -/
structure PKReader where
  coarse : Nat
  minMarks : Nat
deriving DecidableEq, Repr

section
variable {α : Type} [LT α] [DecidableLT α] [DecidableEq α]

/-- one `Scan(file)` of reader `r` under key condition `c`: the reader afterwards, the ranges. -/
def scanWith (fixed : Bool) (d : Disc α) (c : Cond α) (hasKey : Bool) (us : List Bool) (r : PKReader)
    (marks : List (List (Ext α))) : PKReader × List (Nat × Nat) :=
  (r, scan fixed d c hasKey us marks r.coarse r.minMarks)

/-- the files of a query scanned one after the other by the same reader and condition. -/
def scanSeq (fixed : Bool) (d : Disc α) (c : Cond α) (hasKey : Bool) (us : List Bool) :
    PKReader → List (List (List (Ext α))) → PKReader × List (List (Nat × Nat))
  | r, [] => (r, [])
  | r, f :: fs =>
    let (r1, a) := scanWith fixed d c hasKey us r f
    let (r2, as) := scanSeq fixed d c hasKey us r1 fs
    (r2, a :: as)

end
end OG.C20
