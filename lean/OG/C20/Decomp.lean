/-
C20 — soundness of the lexicographic-interval decomposition (`checkInAnyRange`), for the
repaired code (`fixed = true`).
-/
import OG.C20.Lemmas

set_option linter.unusedSectionVars false
namespace OG.C20
open OG.Gen.C20 (Mark)

variable {α : Type} [LT α] [LE α] [DecidableLT α] [DecidableEq α]
  [Std.IsLinearOrder α] [Std.LawfulOrderLT α]

theorem anyRange_sound (d : Disc α) (hd : d.Lawful) (cb : List (Range α) → Mark) (init : Mark) :
    ∀ (ks : List (Option α)) (ls rs : List (Ext α)) (us : List Bool)
      (pre : List (Range α)) (kp : List (Option α)) (lb rb : Bool),
      ls.length = ks.length → rs.length = ks.length → us.length = ks.length →
      InRect kp pre →
      (lb = true → lexLE ls (ks.map toExt)) → (rb = true → lexLE (ks.map toExt) rs) →
      (∀ rgs, InRect (kp ++ ks) rgs → (cb rgs).canBeTrue = true) →
      (anyRange true d cb init pre ls rs us lb rb).canBeTrue = true := by
  intro ks
  induction ks with
  | nil =>
    intro ls rs us pre kp lb rb h1 h2 h3 hp _ _ hcb
    have : ls = [] := by simpa using h1
    subst this
    simp only [anyRange]
    exact hcb pre (by simpa using hp)
  | cons k kt ih =>
    intro ls rs us pre kp lb rb h1 h2 h3 hp hl hr hcb
    obtain ⟨l, lt, rfl⟩ : ∃ l lt, ls = l :: lt := by
      cases ls with | nil => simp at h1 | cons a b => exact ⟨a, b, rfl⟩
    obtain ⟨r, rt, rfl⟩ : ∃ r rt, rs = r :: rt := by
      cases rs with | nil => simp at h2 | cons a b => exact ⟨a, b, rfl⟩
    obtain ⟨u, ut, rfl⟩ : ∃ u ut, us = u :: ut := by
      cases us with | nil => simp at h3 | cons a b => exact ⟨a, b, rfl⟩
    have h1' : lt.length = kt.length := by simpa using h1
    have h2' : rt.length = kt.length := by simpa using h2
    have h3' : ut.length = kt.length := by simpa using h3
    simp only [List.map_cons, lexLE] at hl hr
    -- callback on a rectangle built from a range for `k` and anything for the rest
    have hcb' : ∀ (rg : Range α) (rest : List (Range α)), rg.memW (toExt k) → InRect kt rest →
        (cb (pre ++ rg :: rest)).canBeTrue = true := by
      intro rg rest hk hrest
      exact hcb _ (hp.append (InRect.cons hk hrest))
    -- recursion on the tail with `k` fixed to a point
    have hrec : ∀ (p : Ext α) (lb' rb' : Bool), p = toExt k →
        (lb' = true → lexLE lt (kt.map toExt)) → (rb' = true → lexLE (kt.map toExt) rt) →
        (anyRange true d cb init (pre ++ [Range.point p]) lt rt ut lb' rb').canBeTrue = true := by
      intro p lb' rb' hpk hl' hr'
      subst hpk
      apply ih lt rt ut (pre ++ [Range.point (toExt k)]) (kp ++ [k]) lb' rb' h1' h2' h3'
        (hp.snoc (memW_point k)) hl' hr'
      intro rgs hin
      exact hcb rgs (by simpa using hin)
    unfold anyRange
    by_cases hbb : (!lb && !rb) = true
    · -- unbounded on both sides
      simp only [hbb, if_true]
      have : InRect (k :: kt) ((u :: ut).map Range.whole) := InRect.wholes _ _ (by simpa using h3)
      exact hcb _ (hp.append this)
    · simp only [hbb]
      by_cases heq : (lb && rb && l.eqv r) = true
      · -- common prefix
        simp only [heq, if_true]
        simp only [Bool.and_eq_true, Ext.eqv_iff] at heq
        obtain ⟨⟨hlb, hrb⟩, rfl⟩ := heq
        have hl0 := hl hlb
        have hr0 := hr hrb
        have hk : l = toExt k := by grind
        apply hrec l lb rb hk
        · intro _; rcases hl0 with h | h
          · exfalso; grind
          · exact h.2
        · intro _; rcases hr0 with h | h
          · exfalso; grind
          · exact h.2
      · simp only [heq]
        simp only [Bool.and_eq_true, Ext.eqv_iff, Bool.not_eq_true', Bool.and_eq_true] at hbb heq
        cases hlt : lt with
        | nil =>
          -- last key column
          have hkt : kt = [] := by subst hlt; simpa using h1'.symm
          subst hkt
          have := fun rg h => hcb' rg [] h InRect.nil
          simp only [List.append_nil] at this ⊢
          cases lb <;> cases rb <;> simp_all
          · apply hcb' _ [] _ InRect.nil
            exact memW_rightBounded d hd r true false k (by grind)
          · apply hcb' _ [] _ InRect.nil
            exact memW_leftBounded d hd l true false k (by grind)
          · apply hcb' _ [] _ InRect.nil
            exact memW_closed l r k (by grind) (by grind)
        | cons l2 lt2 =>
          simp only []
          rw [← hlt]
          -- the three sub-results as opaque marks
          have hwh : InRect kt (ut.map Range.whole) := InRect.wholes _ _ h3'
          generalize hm : cb (pre ++ (if (lb && rb) = true then (⟨l, r, false, false⟩ : Range α)
              else if lb = true then createLeftBounded d l false u
              else createRightBounded d r false u) :: ut.map Range.whole) = m
          generalize hrl : anyRange true d cb init (pre ++ [Range.point l]) lt rt ut true false = mL
          generalize hrr : anyRange true d cb init (pre ++ [Range.point r]) lt rt ut false true = mR
          have hmid : (lb = true → l < toExt k) → (rb = true → toExt k < r) → m.canBeTrue = true := by
            intro a b
            rw [← hm]
            apply hcb' _ _ _ hwh
            cases lb <;> cases rb <;> simp_all
            · exact memW_rightBounded d hd r false u k (Or.inl b)
            · exact memW_leftBounded d hd l false u k (Or.inl a)
            · exact memW_open l r k a b
          have hL : lb = true → l = toExt k → lexLE lt (kt.map toExt) → mL.canBeTrue = true := by
            intro _ a b
            rw [← hrl]
            exact hrec l true false a (fun _ => b) (by simp)
          have hR : rb = true → toExt k = r → lexLE (kt.map toExt) rt → mR.canBeTrue = true := by
            intro _ a b
            rw [← hrr]
            exact hrec r false true a.symm (by simp) (fun _ => b)
          have key : ((lb = true → l < toExt k) ∧ (rb = true → toExt k < r)) ∨
              (lb = true ∧ l = toExt k ∧ lexLE lt (kt.map toExt)) ∨
              (rb = true ∧ toExt k = r ∧ lexLE (kt.map toExt) rt) := by
            cases lb <;> cases rb <;> simp_all <;> grind
          rcases m with ⟨mt, mf⟩
          rcases mL with ⟨lt', lf⟩
          rcases mR with ⟨rt', rf⟩
          rcases init with ⟨it, iff⟩
          rcases key with ⟨a, b⟩ | ⟨a, b, c⟩ | ⟨a, b, c⟩
          · have := hmid a b
            simp only [] at this
            subst this
            cases lb <;> cases rb <;> cases mf <;> cases lf <;> cases iff <;> cases it <;> cases lt' <;>
              cases rt' <;> cases rf <;> simp [Mark.isComplete, Mark.Or]
          · have := hL a b c
            simp only [] at this
            subst this
            subst a
            cases rb <;> cases mf <;> cases lf <;> cases iff <;> cases it <;> cases mt <;>
              cases rt' <;> cases rf <;> simp [Mark.isComplete, Mark.Or]
          · have := hR a b c
            simp only [] at this
            subst this
            subst a
            cases lb <;> cases mf <;> cases lf <;> cases iff <;> cases it <;> cases mt <;>
              cases lt' <;> cases rf <;> simp [Mark.isComplete, Mark.Or]
  
end OG.C20
