/-
C20 — the IP bloom-filter index is sound outright (model: OG/C20/SkipIp.lean): no tokenisation
caveat, no coverage hypothesis.  `ip_sound`: for every schema, every block, every AND/OR tree of
`field = 'literal'` / `field IPINRANGE 'subnet'` / other comparisons over any columns, a block
holding a row that satisfies the condition is answered `true`; `ip_scan_sound` end to end through
`Scan`.  The two properties of the reader the proof uses were both violated before fix 4 of this
round (an `=` on any other column was looked up in this column's filter; a subnet with a prefix
shorter than 8 bits was answered "no"): `ip_unsound_other_column_before_fix`,
`ip_unsound_short_prefix_before_fix` keep the witnesses against the old shape.
-/
import OG.C20.SkipIp
import OG.C20.SkipIdxProps

set_option linter.unusedSectionVars false
set_option linter.unusedVariables false
namespace OG.C20.Skip

/-- row-level truth of an IP atom: `=` is equality of the text; `IPINRANGE` holds when the value
is an address inside the subnet; a null never satisfies. -/
def atomHoldsIp (row : Row) (n : Nat) (b : IpLit) : Prop :=
  ∃ v, row[n]? = some (some v) ∧
    (if b.inRange then
      ∃ r c plen, parseIPv4 v = some r ∧ parseCIDRv4 b.v = some (c, plen) ∧ maskPrefix r plen = maskPrefix c plen
    else v = b.v)

inductive WFI : IpCond → Prop
  | atom (n : Nat) (b : IpLit) : WFI (.bin .cmp (.var n) (.lit b))
  | atomO (n : Nat) (b : IpLit) : WFI (.bin .cmpo (.var n) (.lit b))
  | and {l r : IpCond} : WFI l → WFI r → WFI (.bin .and l r)
  | or {l r : IpCond} : WFI l → WFI r → WFI (.bin .or l r)
  | paren {e : IpCond} : WFI e → WFI (.paren e)

theorem WFI.wfc {c : IpCond} (h : WFI c) : WFC c := by
  induction h with
  | atom n b => exact .atom n b
  | atomO n b => exact .atomO n b
  | and _ _ ihl ihr => exact .and ihl ihr
  | or _ _ ihl ihr => exact .or ihl ihr
  | paren _ ih => exact .paren ih

theorem parseOctet_lt (cs : List Nat) (v : Nat) (h : parseOctet cs = some v) : v < 256 := by
  unfold parseOctet at h
  split at h
  · cases h
  · split at h
    · simp at h; omega
    · cases h
  · split at h
    · cases h
    · split at h
      · dsimp only at h
        split at h
        · rename_i hlt; cases h; exact hlt
        · cases h
      · cases h

theorem parseIPv4_shape (s ip : List Nat) (h : parseIPv4 s = some ip) :
    ∃ a b c d, ip = [a, b, c, d] ∧ a < 256 ∧ b < 256 ∧ c < 256 ∧ d < 256 := by
  unfold parseIPv4 at h
  split at h
  · rename_i a b c d _
    cases ha : parseOctet a <;> cases hb : parseOctet b <;> cases hc : parseOctet c <;>
      cases hd : parseOctet d <;> simp_all
    subst h
    exact ⟨_, _, _, _, rfl, parseOctet_lt _ _ ha, parseOctet_lt _ _ hb, parseOctet_lt _ _ hc, parseOctet_lt _ _ hd⟩
  · cases h

theorem parseCIDRv4_shape (s c : List Nat) (plen : Nat) (h : parseCIDRv4 s = some (c, plen)) :
    (∃ a b c' d, c = [a, b, c', d] ∧ a < 256 ∧ b < 256 ∧ c' < 256 ∧ d < 256) ∧ plen ≤ 32 := by
  unfold parseCIDRv4 at h
  split at h
  · rename_i ip n _
    cases hi : parseIPv4 ip <;> cases hn : parseOctet n <;> simp_all
    obtain ⟨hle, h1, h2⟩ := h
    subst h1; subst h2
    exact ⟨parseIPv4_shape _ _ hi, hle⟩
  · cases h

theorem and255 (x : Nat) (h : x < 256) : x &&& 255 = x := by
  have : (255 : Nat) = 2 ^ 8 - 1 := by decide
  rw [this, Nat.and_two_pow_sub_one_eq_mod]
  omega

/-- the hash the query computes for the subnet equals the hash written for an address inside it. -/
theorem ipHash_subnet (r c : List Nat) (plen idx : Nat)
    (hr : ∃ a b c' d, r = [a, b, c', d] ∧ a < 256 ∧ b < 256 ∧ c' < 256 ∧ d < 256)
    (hc : ∃ a b c' d, c = [a, b, c', d] ∧ a < 256 ∧ b < 256 ∧ c' < 256 ∧ d < 256)
    (hle : plen ≤ 32) (hin : maskPrefix r plen = maskPrefix c plen) (hidx : floorIdx plen = some idx) :
    ipHash (maskPrefix c plen) idx = ipHash r idx := by
  obtain ⟨r0, r1, r2, r3, rfl, hr0, hr1, hr2, hr3⟩ := hr
  obtain ⟨c0, c1, c2, c3, rfl, hc0, hc1, hc2, hc3⟩ := hc
  unfold floorIdx at hidx
  split at hidx
  · cases hidx
  · rename_i hq
    simp only [Option.some.injEq] at hidx
    have hq4 : plen / 8 = 1 ∨ plen / 8 = 2 ∨ plen / 8 = 3 ∨ plen / 8 = 4 := by omega
    simp only [maskPrefix, List.length_cons, List.length_nil, List.range, List.range.loop, List.map_cons,
      List.map_nil, List.getD_cons_zero, List.getD_cons_succ, List.cons.injEq, and_true] at hin
    obtain ⟨h0, h1, h2, h3⟩ := hin
    have e : maskIdx (maskPrefix [c0, c1, c2, c3] plen) idx = maskIdx [r0, r1, r2, r3] idx := by
      simp only [maskPrefix, List.length_cons, List.length_nil, List.range, List.range.loop, List.map_cons,
        List.map_nil, List.getD_cons_zero, List.getD_cons_succ]
      rcases hq4 with hq' | hq' | hq' | hq'
      · have hi : idx = 3 := by omega
        subst hi
        have p0 : prefixMaskByte plen 0 = 255 := by unfold prefixMaskByte; rw [if_pos (by omega)]
        rw [p0, and255 _ hr0, and255 _ hc0] at h0
        simp [maskIdx, p0, and255 _ hc0, h0]
      · have hi : idx = 2 := by omega
        subst hi
        have p0 : prefixMaskByte plen 0 = 255 := by unfold prefixMaskByte; rw [if_pos (by omega)]
        have p1 : prefixMaskByte plen 1 = 255 := by unfold prefixMaskByte; rw [if_pos (by omega)]
        rw [p0, and255 _ hr0, and255 _ hc0] at h0
        rw [p1, and255 _ hr1, and255 _ hc1] at h1
        simp [maskIdx, p0, p1, and255 _ hc0, and255 _ hc1, h0, h1]
      · have hi : idx = 1 := by omega
        subst hi
        have p0 : prefixMaskByte plen 0 = 255 := by unfold prefixMaskByte; rw [if_pos (by omega)]
        have p1 : prefixMaskByte plen 1 = 255 := by unfold prefixMaskByte; rw [if_pos (by omega)]
        have p2 : prefixMaskByte plen 2 = 255 := by unfold prefixMaskByte; rw [if_pos (by omega)]
        rw [p0, and255 _ hr0, and255 _ hc0] at h0
        rw [p1, and255 _ hr1, and255 _ hc1] at h1
        rw [p2, and255 _ hr2, and255 _ hc2] at h2
        simp [maskIdx, p0, p1, p2, and255 _ hc0, and255 _ hc1, and255 _ hc2, h0, h1, h2]
      · have hi : idx = 0 := by omega
        subst hi
        have p0 : prefixMaskByte plen 0 = 255 := by unfold prefixMaskByte; rw [if_pos (by omega)]
        have p1 : prefixMaskByte plen 1 = 255 := by unfold prefixMaskByte; rw [if_pos (by omega)]
        have p2 : prefixMaskByte plen 2 = 255 := by unfold prefixMaskByte; rw [if_pos (by omega)]
        have p3 : prefixMaskByte plen 3 = 255 := by unfold prefixMaskByte; rw [if_pos (by omega)]
        rw [p0, and255 _ hr0, and255 _ hc0] at h0
        rw [p1, and255 _ hr1, and255 _ hc1] at h1
        rw [p2, and255 _ hr2, and255 _ hc2] at h2
        rw [p3, and255 _ hr3, and255 _ hc3] at h3
        simp [maskIdx, p0, p1, p2, p3, and255 _ hc0, and255 _ hc1, and255 _ hc2, and255 _ hc3, h0, h1, h2, h3]
    unfold ipHash
    rw [e]

theorem mem_ipSegHashes (fc : Nat) (seg : Seg) (row : Row) (hrow : row ∈ seg) (v : List Nat)
    (hv : row[fc]? = some (some v)) (h : Nat) (hh : h ∈ ipWriteHashes v) : h ∈ ipSegHashes fc seg := by
  unfold ipSegHashes
  rw [List.mem_flatMap]
  exact ⟨row, hrow, by simp only [hv]; exact hh⟩

theorem ipHit_sound (keys : Nat → Bool) (fc : Nat) (hown : ∀ n, keys n = true → n = fc)
    (pos : Nat → List Nat) (seg : Seg) (row : Row) (hrow : row ∈ seg) {c : IpCond} (h : WFI c)
    (hs : satE (atomHoldsIp row) c) :
    ipHit keys pos (Filter.build pos (ipSegHashes fc seg)) c = true := by
  induction h with
  | atom n b =>
    simp only [satE] at hs
    obtain ⟨v, hv, hcase⟩ := hs
    simp only [ipHit]
    cases hk : keys n
    · simp
    · have hn := hown n hk
      subst hn
      simp only [Bool.not_true, Bool.false_eq_true, if_false]
      cases hb : b.inRange
      · -- `=`
        simp only [hb, Bool.false_eq_true, if_false] at hcase ⊢
        rw [hcase] at hv
        cases hp : parseIPv4 b.v with
        | none => rfl
        | some ip =>
          simp only
          split
          · rfl
          · exact bloom_no_false_negative pos _ _
              (mem_ipSegHashes n seg row hrow b.v hv _ (by simp [ipWriteHashes, hp]))
      · -- IPINRANGE
        simp only [hb, if_true] at hcase ⊢
        obtain ⟨r, c, plen, hr, hcidr, hin⟩ := hcase
        simp only [hcidr]
        cases hf : floorIdx plen with
        | none => rfl
        | some idx =>
          simp only
          split
          · rfl
          · obtain ⟨hcs, hle⟩ := parseCIDRv4_shape _ _ _ hcidr
            rw [ipHash_subnet r c plen idx (parseIPv4_shape _ _ hr) hcs hle hin hf]
            have hidx : idx ≤ 3 := by unfold floorIdx at hf; split at hf <;> simp at hf; omega
            apply bloom_no_false_negative pos _ _
            apply mem_ipSegHashes n seg row hrow v hv
            simp only [ipWriteHashes, hr]
            have : idx = 0 ∨ idx = 1 ∨ idx = 2 ∨ idx = 3 := by omega
            rcases this with rfl | rfl | rfl | rfl <;> simp
  | atomO n b => simp [ipHit]
  | @and l r _ _ ihl ihr =>
    simp only [satE] at hs
    simp [ipHit, ihl hs.1, ihr hs.2]
  | @or l r _ _ ihl ihr =>
    simp only [satE] at hs
    rcases hs with hs | hs
    · simp [ipHit, ihl hs]
    · simp [ipHit, ihr hs]
  | paren _ ih => simpa [ipHit, satE] using ih (by simpa [satE] using hs)

/-- **P1** the IP bloom-filter index reader, every non-empty schema, every block, every AND/OR
tree over any columns: a block holding a row that satisfies the condition is answered `true`. -/
theorem ip_sound (pos : Nat → List Nat) (schema : List Nat) (hne : schema ≠ []) (c : IpCond) (seg : Seg)
    (row : Row) (hwf : WFI c) (hrow : row ∈ seg) (hs : satE (atomHoldsIp row) c) :
    ipMayBe pos schema c seg = some (some true) := by
  unfold ipMayBe
  cases hf : bfFileCol schema with
  | none => rw [bfFileCol_now] at hf; cases schema <;> simp_all
  | some fc =>
    simp only
    have hk : ∀ n, (bfSplitKeys schema).contains n = true → n = fc := by
      intro n hn
      have := bf_lookup_own_column schema n (by simpa using hn)
      rw [hf] at this
      exact (Option.some.inj this).symm
    rw [ipHit_sound _ fc hk pos seg row hrow hwf hs, isExist_eq _ _ hwf.wfc, evalE_const_true _ hwf.wfc]

def ipReader (pos : Nat → List Nat) (schema : List Nat) (c : IpCond) (segs : List Seg) : Reader :=
  answerOf segs (ipMayBe pos schema c)

/-- **P2** end to end through `SKIndexReaderImpl.Scan`. -/
theorem ip_scan_sound (pos : Nat → List Nat) (schema : List Nat) (hne : schema ≠ []) (c : IpCond)
    (segs : List Seg) (mm : Nat) (rgs out : List (Nat × Nat)) (hwf : WFI c) (hr : WFRanges rgs)
    (h : skipScan mm (ipReader pos schema c segs) rgs = some out) :
    ∀ p ∈ rgs, ∀ j, p.1 ≤ j → j < p.2 →
      (∃ seg row, segs[j]? = some seg ∧ row ∈ seg ∧ satE (atomHoldsIp row) c) → Covered out j := by
  apply skipIndex_sound mm _ _ _ rgs out hr h
  intro j ⟨seg, row, hseg, hrow, hs⟩
  simp only [ipReader, answerOf, hseg]
  rw [ip_sound pos schema hne c seg row hwf hrow hs]

def ipEq (n : Nat) (v : List Nat) : IpCond := .bin .cmp (.var n) (.lit ⟨false, v⟩)
def ipIn (n : Nat) (v : List Nat) : IpCond := .bin .cmp (.var n) (.lit ⟨true, v⟩)

/-- `1.2.3.4` / `10.0.0.9` -/
def exIpRow : Row := [some [49, 46, 50, 46, 51, 46, 52], some [49, 48, 46, 48, 46, 48, 46, 57]]

/-- before fix 4 the reader looked every `=` up in its one filter, whatever the column:
`ip = '1.2.3.4' AND host = '10.0.0.9'` (keys = every column) prunes the block holding that row. -/
theorem ip_unsound_other_column_before_fix :
    ipHit (fun _ => true) posV3 (Filter.build posV3 (ipSegHashes 0 [exIpRow]))
      (.bin .and (ipEq 0 [49, 46, 50, 46, 51, 46, 52]) (ipEq 1 [49, 48, 46, 48, 46, 48, 46, 57])) = false := by
  decide

/-- … and it answered "no" for a subnet with a prefix shorter than 8 bits (no hash); now unknown:
`ip IPINRANGE '0.0.0.0/0'` keeps the block. -/
example : ipMayBe posV3 [0] (ipIn 0 [48, 46, 48, 46, 48, 46, 48, 47, 48]) [exIpRow] = some (some true) := by decide

/-- non-vacuity: the row is found by address and by subnet (`1.2.0.0/20`), and a foreign address
is ruled out. -/
example : ipMayBe posV3 [0] (ipEq 0 [49, 46, 50, 46, 51, 46, 52]) [exIpRow] = some (some true) := by decide
example : ipMayBe posV3 [0] (ipIn 0 [49, 46, 50, 46, 48, 46, 48, 47, 50, 48]) [exIpRow] = some (some true) := by decide
example : ipMayBe posV3 [0] (ipEq 0 [57, 46, 57, 46, 57, 46, 57]) [exIpRow] = some (some false) := by decide

end OG.C20.Skip
