/-
C20 — property theorems for the text (inverted) skip index (model: OG/C20/SkipText.lean).

  * `text_sound_partial` — under the token-coverage hypothesis (`TxCovered`: the literal of every
    atom on a text-index column tokenises, every value of the block tokenises, and when a row of
    the block satisfies the atom every query token is one of the tokens written for that row) a
    block holding a row that satisfies the condition is answered `true` — every AND/OR tree,
    every schema, every split set; `text_scan_sound_partial` end to end through `Scan`.
  * the full statement is false for the code as written: `text_unsound_noToken` (a phrase of
    separators only is answered "no"). Two more classes were found by the failing correspondence /
    spec diff and repaired in /repo, their statements are now positive: `text_operator_unknown`
    (e0764af: a comparison other than `=` / match-phrase is no longer looked up) and
    `text_ascii_before_multibyte_found` (0f0f78c: the write side no longer drops an ASCII run
    that is directly followed by a multi-byte character).
-/
import OG.C20.SkipText
import OG.C20.SkipIdxProps

set_option linter.unusedSectionVars false
set_option linter.unusedVariables false
namespace OG.C20.Skip

/-- coverage hypothesis for the text index, per atom of the condition on a schema column. -/
def TxCovered (sp : Nat → Bool) (schema : List Nat) (c : BCond) (seg : Seg) : Prop :=
  (∀ row ∈ seg, ∀ n ∈ schema, ∀ s, row[n]? = some (some s) → (txTokensOf sp s).isSome) ∧
  ∀ a ∈ atomsOf c, schema.contains a.1 = true →
    ∃ qs, txQueryToks sp a.2.v = some qs ∧
      ∀ row ∈ seg, atomHoldsR [] row a.1 a.2 = true →
        qs ≠ [] ∧ ∃ s ts, row[a.1]? = some (some s) ∧ txTokensOf sp s = some ts ∧ ∀ q ∈ qs, q ∈ ts

theorem txAnswer_total (sp : Nat → Bool) (seg : Seg) (n : Nat) (v : List Nat) (qs : List (List Nat))
    (hq : txQueryToks sp v = some qs)
    (hrows : ∀ row ∈ seg, ∀ s, row[n]? = some (some s) → (txTokensOf sp s).isSome) :
    ∃ b, txAnswer sp seg n v = some b := by
  unfold txAnswer
  simp only [hq]
  split
  · exact ⟨_, rfl⟩
  · split
    · rename_i hany
      exfalso
      rw [List.any_eq_true] at hany
      obtain ⟨r, hr, hnone⟩ := hany
      rw [List.mem_map] at hr
      obtain ⟨row, hrow, rfl⟩ := hr
      split at hnone
      · rename_i s hs
        have := hrows row hrow s hs
        cases h : txTokensOf sp s <;> simp_all
      · simp at hnone
    · exact ⟨_, rfl⟩

theorem txAnswer_true (sp : Nat → Bool) (seg : Seg) (n : Nat) (v : List Nat) (qs : List (List Nat))
    (hq : txQueryToks sp v = some qs) (hne : qs ≠ [])
    (hrows : ∀ row ∈ seg, ∀ s, row[n]? = some (some s) → (txTokensOf sp s).isSome)
    (row : Row) (hrow : row ∈ seg) (s : List Nat) (ts : List (List Nat))
    (hs : row[n]? = some (some s)) (hts : txTokensOf sp s = some ts) (hsub : ∀ q ∈ qs, q ∈ ts) :
    txAnswer sp seg n v = some true := by
  obtain ⟨b, hb⟩ := txAnswer_total sp seg n v qs hq hrows
  unfold txAnswer at hb ⊢
  simp only [hq] at hb ⊢
  have hqe : qs.isEmpty = false := by cases qs <;> simp_all
  simp only [hqe, Bool.false_eq_true, if_false] at hb ⊢
  split
  · rename_i hany; simp only [hany, if_true] at hb; cases hb
  · simp only [Option.some.injEq, List.any_eq_true]
    refine ⟨some ts, ?_, ?_⟩
    · rw [List.mem_map]
      exact ⟨row, hrow, by simp only [hs, hts]⟩
    · simp only [List.all_eq_true, List.contains_iff_mem]
      exact hsub

/-- **X1 (partial)** text index: under the coverage hypothesis a block that holds a row
satisfying the condition is answered `true`. -/
theorem text_sound_partial (sp : Nat → Bool) (schema : List Nat) (c : BCond) (seg : Seg) (row : Row)
    (hwf : WFB c) (hcov : TxCovered sp schema c seg) (hrow : row ∈ seg) (hs : rowSatR [] row c) :
    txMayBe sp schema c seg = some (some true) := by
  unfold txMayBe
  rw [isExist_eq _ _ hwf.wfc]
  have := (evalB_true_on (fun n => schema.contains n) (fun n b => txAnswer sp seg n b.v)
    (fun n b => atomHoldsR [] row n b = true) hwf ?_).2 hs
  · rw [this]
  · intro a ha hi
    obtain ⟨qs, hq, hh⟩ := hcov.2 a ha hi
    have hrows : ∀ row ∈ seg, ∀ s, row[a.1]? = some (some s) → (txTokensOf sp s).isSome :=
      fun r hr s hs' => hcov.1 r hr a.1 (by simpa using hi) s hs'
    refine ⟨txAnswer_total sp seg a.1 a.2.v qs hq hrows, ?_⟩
    intro hsat
    obtain ⟨hne, s, ts, hs', hts, hsub⟩ := hh row hrow hsat
    exact txAnswer_true sp seg a.1 a.2.v qs hq hne hrows row hrow s ts hs' hts hsub

def txReader (sp : Nat → Bool) (schema : List Nat) (c : BCond) (segs : List Seg) : Reader :=
  answerOf segs (txMayBe sp schema c)

/-- **X2 (partial)** end to end through `SKIndexReaderImpl.Scan`. -/
theorem text_scan_sound_partial (sp : Nat → Bool) (schema : List Nat) (c : BCond) (segs : List Seg)
    (mm : Nat) (rgs out : List (Nat × Nat))
    (hwf : WFB c) (hcov : ∀ seg ∈ segs, TxCovered sp schema c seg) (hr : WFRanges rgs)
    (h : skipScan mm (txReader sp schema c segs) rgs = some out) :
    ∀ p ∈ rgs, ∀ j, p.1 ≤ j → j < p.2 → HasMatch [] c segs j → Covered out j := by
  apply skipIndex_sound mm _ _ _ rgs out hr h
  intro j ⟨seg, row, hseg, hrow, hs⟩
  simp only [txReader, answerOf, hseg]
  rw [text_sound_partial sp schema c seg row hwf (hcov seg (List.mem_of_getElem? hseg)) hrow hs]

/-- full statement for the text index with the split set of the harness (`contentSplit`). -/
def text_sound_full : Prop :=
  ∀ (schema : List Nat) (c : BCond) (seg : Seg) (row : Row), WFB c → row ∈ seg → rowSatR [] row c →
    txMayBe contentSplit schema c seg ≠ some (some false)

/-- (a) a comparison other than `=` / match-phrase is not looked up (fix 2 of this round; before,
`f0 != 'a'` pruned the block holding the row `b`): the block is kept. -/
theorem text_operator_unknown :
    rowSatR [] [some [98]] (.bin .cmpo (.var 0) (.lit ⟨.neq, [97]⟩)) ∧
    txMayBe contentSplit [0] (.bin .cmpo (.var 0) (.lit ⟨.neq, [97]⟩)) [[some [98]]] = some (some true) := by
  constructor
  · show atomHoldsR [] _ 0 _ = true; decide
  · decide

/-- (b) an ASCII run directly followed by a multi-byte character: `ab日` (61 62 e6 97 a5) is cut
into `ab` and `日` on both sides (write side since fix 0f0f78c; before, it stored the one token
`ab\xe6` and match-phrase `ab` did not find the block). -/
theorem text_ascii_before_multibyte_found :
    rowSatR [] [some [97, 98, 230, 151, 165]] (mpOn 0 [97, 98]) ∧
    txTokensOf contentSplit [97, 98, 230, 151, 165] = some [[97, 98], [230, 151, 165]] ∧
    txMayBe contentSplit [0] (mpOn 0 [97, 98]) [[some [97, 98, 230, 151, 165]]] = some (some true) := by
  refine ⟨?_, by decide, by decide⟩
  show atomHoldsR [] _ 0 _ = true; decide

/-- (c) a match-phrase without any token (separators only, `.`) is answered "no" for every
segment (`IsExist`: `len(queryStrs) == 0`), although the row-level matcher accepts the row `p.q`. -/
theorem text_unsound_noToken :
    rowSatR [] [some [112, 46, 113]] (mpOn 0 [46]) ∧
    txMayBe contentSplit [0] (mpOn 0 [46]) [[some [112, 46, 113]]] = some (some false) := by
  constructor
  · show atomHoldsR [] _ 0 _ = true; decide
  · decide

/-- (d) text that is not valid UTF-8: both tokenizers take the width of a character from its first
byte alone, so a stray continuation byte (or a Latin-1 letter) swallows the ASCII bytes behind it
into one token, while the row-level matcher cuts at every byte ≥ 0x80: the value `92 45` (`\x92E`)
is stored as the single token `92 45` and match-phrase `E` does not find the block. -/
theorem text_unsound_malformed_utf8 :
    rowSatR [] [some [146, 69]] (mpOn 0 [69]) ∧
    txTokensOf contentSplit [146, 69] = some [[146, 69]] ∧
    txMayBe contentSplit [0] (mpOn 0 [69]) [[some [146, 69]]] = some (some false) := by
  refine ⟨?_, by decide, by decide⟩
  show atomHoldsR [] _ 0 _ = true; decide

theorem text_unsound_asWritten : ¬ text_sound_full := by
  intro h
  exact h [0] _ _ _ (WFB.atom 0 _) (List.mem_singleton.mpr rfl) text_unsound_noToken.1 text_unsound_noToken.2

/-- non-vacuity of the partial statement: `GET /index.html 日本` / match-phrase `index`. -/
example : txMayBe contentSplit [0] (mpOn 0 [105, 110, 100, 101, 120])
    [[some [71, 69, 84, 32, 47, 105, 110, 100, 101, 120, 46, 104, 116, 109, 108, 32, 230, 151, 165, 230, 156, 172]]]
    = some (some true) := by decide

example : txTokensOf contentSplit [71, 69, 84, 32, 47, 105, 110, 100, 101, 120, 32, 230, 151, 165, 230, 156, 172]
    = some [[71, 69, 84], [105, 110, 100, 101, 120], [230, 151, 165], [230, 156, 172]] := by decide

end OG.C20.Skip
