/-
C20, readers and conditions as stateful objects — expectations about the regenerated struct
field lists and receiver-field assignments (ogfacts/c20state.go) of the primary-key reader, the
skip-index reader, the two condition types and every skip-index file reader. One reader, one key
condition and one set of file readers serve every file of a query; the model (OG/C20/Seq.lean)
lets a scan depend on its arguments only, which is right as long as
  * `PKIndexReaderImpl` / `SKIndexReaderImpl` hold nothing but the immutable index property
    (`pk_reader_has_no_scan_state`, `sk_reader_has_no_scan_state` below: no method assigns a field),
  * `KeyConditionImpl` is written by its constructor path only,
  * the per-file state of a file reader is replaced by `ReInit` (`r.bf`, `r.readers`, …).
A new cached field, or a method that starts writing one, breaks an expectation here and has to be
judged; the sequence ops `scanseq` / `seqs` supply the failing input if it is wrong.
-/
import OG.Generated.C20

namespace OG.C20.SeqFacts
open OG.Gen.C20

theorem fields_PKIndexReaderImpl_expected : fields_PKIndexReaderImpl = ["property *IndexProperty", "logger *logger.Logger"] := by rfl

theorem writes_PKIndexReaderImpl_expected : writes_PKIndexReaderImpl = [ ] := by rfl

theorem fields_SKIndexReaderImpl_expected : fields_SKIndexReaderImpl = ["property *IndexProperty", "logger *logger.Logger"] := by rfl

theorem writes_SKIndexReaderImpl_expected : writes_SKIndexReaderImpl = [ ] := by rfl

theorem fields_IndexProperty_expected : fields_IndexProperty = ["RowsNumPerFragment int", "CoarseIndexFragment int", "MinRowsForSeek int"] := by rfl

theorem fields_KeyConditionImpl_expected : fields_KeyConditionImpl = ["pkSchema record.Schemas", "rpn []*RPNElement"] := by rfl

theorem writes_KeyConditionImpl_expected : writes_KeyConditionImpl = [ ("SetRPN", "kc.rpn"), ("convertToRPNElem", "kc.rpn"), ("convertToRPNElem", "kc.rpn"), ("convertToRPNElem", "kc.rpn"), ("genRPNElementByVal", "kc.rpn") ] := by rfl

theorem fields_SKConditionImpl_expected : fields_SKConditionImpl = ["schema record.Schemas", "rpn []*rpn.SKRPNElement", "rpnStack []bool"] := by rfl

theorem writes_SKConditionImpl_expected : writes_SKConditionImpl = [ ("IsExist", "c.rpnStack"), ("IsExist", "c.rpnStack"), ("IsExist", "c.rpnStack"), ("IsExist", "c.rpnStack"), ("IsExist", "c.rpnStack"), ("IsExist", "c.rpnStack[len(c.rpnStack)-1]"), ("IsExist", "c.rpnStack"), ("IsExist", "c.rpnStack[len(c.rpnStack)-1]"), ("convertToRPNElem", "c.rpn"), ("convertToRPNElem", "c.rpn"), ("convertToRPNElem", "c.rpn"), ("convertToRPNElem", "c.rpn"), ("genRPNElementByFullText", "c.rpn"), ("genRPNElementByVal", "c.rpn") ] := by rfl

theorem fields_RPNElement_expected : fields_RPNElement = ["op rpn.Op", "rg *Range", "setIndex *setIndex", "keyColumn int", "monotonicChains []*FunctionBase"] := by rfl

theorem fields_BloomFilterIndexReader_expected : fields_BloomFilterIndexReader = ["isCache bool", "version uint32", "schema record.Schemas", "option hybridqp.Options", "bf rpn.SKBaseReader", "sk SKCondition", "span *tracing.Span", "indexType index.IndexType"] := by rfl

theorem writes_BloomFilterIndexReader_expected : writes_BloomFilterIndexReader = [ ("ReInit", "r.bf"), ("ReInit", "r.bf"), ("ReInit", "r.bf"), ("StartSpan", "r.span") ] := by rfl

theorem fields_BloomFilterFullTextIndexReader_expected : fields_BloomFilterFullTextIndexReader = ["isCache bool", "isInitSpan bool", "version uint32", "currFile interface{}", "schema record.Schemas", "option hybridqp.Options", "bf rpn.SKBaseReader", "sk SKCondition", "span *tracing.Span"] := by rfl

theorem writes_BloomFilterFullTextIndexReader_expected : writes_BloomFilterFullTextIndexReader = [ ("ReInit", "r.bf"), ("ReInit", "r.bf"), ("ReInit", "r.currFile"), ("ReInit", "r.bf"), ("ReInit", "r.currFile"), ("StartSpan", "r.isInitSpan"), ("StartSpan", "r.span") ] := by rfl

theorem fields_MinMaxIndexReader_expected : fields_MinMaxIndexReader = ["initial bool", "isCache bool", "indexRange []*Range", "indexCols []*ColumnRef", "indexType []int", "rec *record.Record", "condition KeyCondition", "option hybridqp.Options", "schema record.Schemas", "ReadFunc func(file interface{}, rec *record.Record, isCache bool) (*record.Record, error)", "sk SKCondition", "span *tracing.Span"] := by rfl

theorem writes_MinMaxIndexReader_expected : writes_MinMaxIndexReader = [ ("MayBeInFragment", "r.indexRange"), ("MayBeInFragment", "r.indexRange[i].left.row"), ("MayBeInFragment", "r.indexRange[i].left"), ("MayBeInFragment", "r.indexRange[i].right.row"), ("MayBeInFragment", "r.indexRange[i].right"), ("ReInit", "r.indexRange"), ("ReInit", "r.indexCols"), ("ReInit", "r.rec"), ("ReInit", "r.indexCols"), ("StartSpan", "r.span"), ("init", "r.rec"), ("init", "r.rec"), ("init", "r.indexType"), ("init", "r.condition"), ("init", "r.indexCols"), ("init", "r.initial") ] := by rfl

theorem fields_SetIndexReader_expected : fields_SetIndexReader = ["init bool", "isCache bool", "schema record.Schemas", "option hybridqp.Options", "sk SKCondition", "span *tracing.Span"] := by rfl

theorem writes_SetIndexReader_expected : writes_SetIndexReader = [ ("ReInit", "r.init"), ("StartSpan", "r.span") ] := by rfl

theorem fields_TextIndexReader_expected : fields_TextIndexReader = ["isCache bool", "schema record.Schemas", "option hybridqp.Options", "sk sparseindex.SKCondition", "readers *TextIndexFilterReaders", "span *tracing.Span"] := by rfl

theorem writes_TextIndexReader_expected : writes_TextIndexReader = [ ("Close", "r.readers"), ("ReInit", "r.readers"), ("StartSpan", "r.span") ] := by rfl

/-! the query's shared objects and the production caller `attachedIndexReader.Next` -/

theorem fields_indexContext_expected : fields_indexContext = ["readSegmentBatch bool", "segmentBatchCount int", "shardPath string", "pkIndexReader sparseindex.PKIndexReader", "skIndexReader sparseindex.SKIndexReader", "schema hybridqp.Catalog", "keyCondition sparseindex.KeyCondition", "tr util.TimeRange", "log *logger.Logger"] := by rfl

theorem src_seqNewIndexContext_expected : src_seqNewIndexContext = "{ return &indexContext{ readSegmentBatch: readBatch, segmentBatchCount: batchCount, shardPath: shardPath, pkIndexReader: sparseindex.NewPKIndexReader(util.RowsNumPerFragment, colstore.CoarseIndexFragment, colstore.MinRowsForSeek), skIndexReader: sparseindex.NewSKIndexReader(util.RowsNumPerFragment, colstore.CoarseIndexFragment, colstore.MinRowsForSeek), schema: schema, tr: util.TimeRange{Min: schema.Options().GetStartTime(), Max: schema.Options().GetEndTime()}, log: logger.NewLogger(errno.ModuleIndex), } }" := by rfl

theorem src_seqAttachedInit_expected : src_seqAttachedInit = "{ mstInfo := r.ctx.schema.Options().GetMeasurements()[0] r.skFileReader, err = r.ctx.skIndexReader.CreateSKFileReaders(r.ctx.schema.Options(), mstInfo, true) if err != nil { return err } return initKeyCondition(r.info.Infos()[0].GetRec().Schema, r.ctx, r.info.Infos()[0].GetTCLocation()) }" := by rfl

theorem src_seqAttachedNext_expected : src_seqAttachedNext = "{ if r.info == nil || len(r.info.Files()) == 0 { return nil, nil } if !r.init { if err := r.Init(); err != nil { return nil, err } r.init = true } var err error dataFiles, pkInfos := r.info.Files(), r.info.Infos() frags := executor.NewAttachedFrags(r.dataPath, len(dataFiles)) for r.idx < len(dataFiles) { dataFile, pkInfo := dataFiles[r.idx], pkInfos[r.idx] var frs fragment.FragmentRanges frs, err = r.ctx.pkIndexReader.Scan(dataFile.Path(), pkInfo.GetRec(), pkInfo.GetMark(), r.ctx.keyCondition) if err != nil { return nil, err } if frs.Empty() { r.idx++ continue } for j := range r.skFileReader { if err = r.skFileReader[j].ReInit(dataFile); err != nil { return nil, err } frs, err = r.ctx.skIndexReader.Scan(r.skFileReader[j], frs) if err != nil { return nil, err } if frs.Empty() { break } } var fragmentCount uint32 for j := range frs { fragmentCount += frs[j].End - frs[j].Start } if fragmentCount == 0 { r.idx++ continue } frags.AppendIndexes(dataFile) frags.AppendFragRanges(frs) frags.AddFragCount(int64(fragmentCount)) if r.ctx.readSegmentBatch && int(frags.FragCount()) >= r.ctx.segmentBatchCount { r.idx++ return frags, nil } r.idx++ } if frags.FragCount() == 0 { return nil, nil } return frags, nil }" := by rfl

theorem src_pkCreateFieldRefFunc_expected : src_pkCreateFieldRefFunc = "{ doCreateFieldRef := func(row int, column int, field *FieldRef, cols []*ColumnRef) { field.Set(cols, column, row) if field.IsNull() { field.SetPositiveInfinity() } } indexPartColumns := make([]*ColumnRef, usedKeySize) for i := 0; i < usedKeySize; i++ { indexPartColumns[i] = &ColumnRef{ column: index.Column(i), name: primaryKey[i].Name, dataType: primaryKey[i].Type} } createFieldRef = func(row int, column int, field *FieldRef) { doCreateFieldRef(row, column, field, indexPartColumns) } return }" := by rfl

theorem src_pkScan_expected : src_pkScan = "{ var res fragment.FragmentRanges var createFieldRef func(int, int, *FieldRef) index := pkRec pkSchema := pkRec.Schema fragmentCount := pkMark.GetFragmentCount() if !keyCondition.HavePrimaryKey() { res = append(res, fragment.NewFragmentRange(0, fragmentCount)) return res, nil } usedKeySize := keyCondition.GetMaxKeyIndex() + 1 primaryKey := pkSchema pkTypes := getDataTypesFromPk(primaryKey) createFieldRef = r.createFieldRefFunc(index, primaryKey, usedKeySize) indexLeft := make([]*FieldRef, usedKeySize) indexRight := make([]*FieldRef, usedKeySize) for i := 0; i < usedKeySize; i++ { indexLeft[i] = &FieldRef{} indexRight[i] = &FieldRef{} } checkInRange := func(mr *fragment.FragmentRange) (bool, error) { for i := 0; i < usedKeySize; i++ { createFieldRef(int(mr.Start), i, indexLeft[i]) createFieldRef(int(mr.End), i, indexRight[i]) } return keyCondition.MayBeInRange(usedKeySize, indexLeft, indexRight, pkTypes) } if !keyCondition.CanDoBinarySearch() { return r.doExclusionSearch(fragmentCount, pkFile, checkInRange) } return r.doBinarySearch(fragmentCount, pkFile, checkInRange) }" := by rfl

theorem src_pkNewPKIndexReader_expected : src_pkNewPKIndexReader = "{ return &PKIndexReaderImpl{ property: NewIndexProperty(rowsNumPerFragment, coarseIndexFragment, minRowsForSeek), logger: logger.NewLogger(errno.ModuleIndex), } }" := by rfl

/-- the primary-key reader carries no state from one `Scan` to the next. -/
theorem pk_reader_has_no_scan_state :
    fields_PKIndexReaderImpl = ["property *IndexProperty", "logger *logger.Logger"] ∧ writes_PKIndexReaderImpl = [] :=
  ⟨rfl, rfl⟩

theorem sk_reader_has_no_scan_state :
    fields_SKIndexReaderImpl = ["property *IndexProperty", "logger *logger.Logger"] ∧ writes_SKIndexReaderImpl = [] :=
  ⟨rfl, rfl⟩

/-- the key condition is assigned while it is built (and by `SetRPN`), never by the range checks. -/
theorem key_condition_written_by_constructor_only :
    writes_KeyConditionImpl.all (fun w => w.1 == "SetRPN" || w.1 == "convertToRPNElem" || w.1 == "genRPNElementByVal") = true := by
  decide

end OG.C20.SeqFacts
