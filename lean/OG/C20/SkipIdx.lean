/-
C20 — model of the *reader-construction layer* of the skip indexes: from the index relation of a
measurement (several indexes, each with an index list of several columns) and a condition to the
readers `SKIndexReaderImpl.CreateSKFileReaders` builds, which filter file each reader opens and
which columns of the condition it may look up there (`BloomFilterIndexReader.ReInit`:
`splitMap` + file name; `BloomFilterFullTextIndexReader.ReInit`), and how the engine chains the
readers (`ReInit` + `Scan` per reader, stop when nothing is left).

Core only, executable.  Transcribed: skip_index.go (`CreateSKFileReaders`, `getSKInfoByExpr`,
`createSKFileReaders`), bloom_filter_index.go (`ReInit`), bloom_filter_fulltext_index.go
(`ReInit`), filter_reader.go (`NewLineFilterReader`, `LineFilterReader.hitExpr`: an atom on a
column that is not a key of `splitMap` is *unknown* = may match), ast.go
(`IndexRelation.GetFullTextColumns`, `GetIndexOidByName`), engine/hybrid_index_reader.go (the loop
over the readers).  Which keys `ReInit` puts into `splitMap` and which column names the filter
file are **regenerated** (`OG.Gen.C20.bfReInitSplitMapKeys`, `bfReInitFileNameCols`) and
interpreted here (`bfSplitKeys`, `bfFileCol`), so the theorems of SkipIdxProps.lean are re-proved
against what `ReInit` says now.
-/
import OG.C20.Skip

namespace OG.C20.Skip
open OG.Gen.C20 (bfReInitSplitMapKeys bfReInitFileNameCols)

/-! ### `LineFilterReader.hitExpr` with an arbitrary `splitMap` -/

/-- `LineFilterReader.hitExpr` over the whole condition: a match-phrase whose column is a key of
`splitMap` (`keys`) is tokenised and looked up in the one filter `f` the reader opened; every
other atom — other operator, or a column without an entry in `splitMap` — is unknown (`true`).
A phrase without any hash says no. `none` = panic in the tokenizer. -/
def lineHitK (keys : Nat → Bool) (sp : Nat → Bool) (pos : Nat → List Nat) (f : List Nat) : BCond → Option Bool
  | .paren e => lineHitK keys sp pos f e
  | .bin .and l r =>
    match lineHitK keys sp pos f l with
    | none => none
    | some false => some false
    | some true => lineHitK keys sp pos f r
  | .bin .or l r =>
    match lineHitK keys sp pos f l with
    | none => none
    | some true => some true
    | some false => lineHitK keys sp pos f r
  | .bin .cmp (.var n) (.lit b) =>
    if b.op == .mp && keys n then
      (readerLookups sp b.v).map fun ls => !ls.isEmpty && allHit pos f ls
    else some true
  | _ => some true

/-! ### the index relation and `getSKInfoByExpr` -/

/-- index type (`IndexRelation.Oids[i]`) by what `CreateSKFileReaders` does with it. -/
inductive IdxKind where
  | bloom | fullText | set | minMax | timeCluster
deriving DecidableEq, Repr

/-- one index of the relation: `Oids[i]`, `IndexNames[i]`, `IndexList[i].IList`. -/
structure IdxDef where
  kind : IdxKind
  name : Nat
  cols : List Nat
deriving Repr

abbrev Relation := List IdxDef

/-- the key `getSKInfoByExpr` files the full-text reader under (`index.BloomFilterFullTextIndex`);
the harness names every index by its type, so names are the `lib/index.IndexType` numbers. -/
def ftKey : Nat := 5

def IdxKind.stdName : IdxKind → Nat
  | .timeCluster => 3 | .bloom => 4 | .fullText => 5 | .minMax => 6 | .set => 7

/-- `skFieldMap[f]`: names of the indexes (time cluster excepted) whose list holds `f`, in
relation order, once per occurrence. -/
def fieldIndexNames (rel : Relation) (f : Nat) : List Nat :=
  rel.flatMap fun d =>
    if d.kind == .timeCluster then [] else (d.cols.filter (· == f)).map fun _ => d.name

/-- `IndexRelation.GetFullTextColumns`. -/
def fullTextCols (rel : Relation) : List Nat :=
  match rel.find? (·.kind == .fullText) with
  | some d => d.cols
  | none => []

/-- `IndexRelation.GetIndexOidByName`. -/
def oidByName (rel : Relation) (nm : Nat) : Option IdxKind := (rel.find? (·.name == nm)).map (·.kind)

/-- `SkInfo` with its key in `skInfoMap`. -/
structure SkInfo where
  name : Nat
  kind : IdxKind
  fields : List Nat
deriving Repr

/-- one index name of one condition field: append the field to the entry, or create it. -/
def addField (rel : Relation) (v : Nat) (infos : List SkInfo) (nm : Nat) : Option (List SkInfo) :=
  if infos.any (·.name == nm) then
    some (infos.map fun i => if i.name == nm then { i with fields := i.fields ++ [v] } else i)
  else
    match oidByName rel nm with
    | none => none
    | some k => some (infos ++ [⟨nm, k, [v]⟩])

def addFields (rel : Relation) (v : Nat) : List Nat → List SkInfo → Option (List SkInfo)
  | [], infos => some infos
  | nm :: nms, infos =>
    match addField rel v infos nm with
    | none => none
    | some infos' => addFields rel v nms infos'

/-- loop body of `getSKInfoByExpr` for one `VarRef` of the RPN. -/
def addVar (rel : Relation) (infos : List SkInfo) (v : Nat) : Option (List SkInfo) :=
  if v == fieldLog then
    let fs := fullTextCols rel
    if fs.isEmpty then none
    else if infos.any (·.name == ftKey) then
      some (infos.map fun i => if i.name == ftKey then ⟨ftKey, .fullText, fs⟩ else i)
    else some (infos ++ [⟨ftKey, .fullText, fs⟩])
  else addFields rel v (fieldIndexNames rel v) infos

def addVars (rel : Relation) : List Nat → List SkInfo → Option (List SkInfo)
  | [], infos => some infos
  | v :: vs, infos =>
    match addVar rel infos v with
    | none => none
    | some infos' => addVars rel vs infos'

/-- the `VarRef`s of an RPN in order. -/
def varsOf {β : Type} : List (Tok β) → List Nat
  | [] => []
  | .var n :: ts => n :: varsOf ts
  | _ :: ts => varsOf ts

/-- `CreateSKFileReaders` up to `getSKInfoByExpr`: `some []` = no reader (no skip index with a
column), `none` = error. The map is kept in insertion order (Go iterates it in random order; the
chained scans do not depend on the order, `scanReaders`). -/
def skInfos {β : Type} (rel : Relation) (c : SExpr β) : Option (List SkInfo) :=
  if rel.all (fun d => d.kind == .timeCluster || d.cols.isEmpty) then some []
  else addVars rel (varsOf (toRPN c)) []

/-! ### `BloomFilterIndexReader.ReInit`: which columns may be looked up, in which file -/

/-- the only shape of a `splitMap` key / file-name column this model understands. -/
def firstFieldExpr : String := "r.schema[0].Name"

/-- keys of `splitMap` for a reader with schema `schema`, from the regenerated list of
`splitMap[K] = …` assignments of `ReInit` (`(K, enclosing range expression or "")`):
if every assignment is `splitMap[r.schema[0].Name]` outside any loop the map has the one key
`schema[0]`; anything else is read as "every field of the schema" (a loop over `r.schema`). -/
def bfSplitKeys (schema : List Nat) : List Nat :=
  if bfReInitSplitMapKeys.all (fun k => k.1 == firstFieldExpr && k.2 == "") then schema.take 1
  else schema

/-- the column whose filter file `ReInit` opens (`<data>.<col>.bf` / `bloomfilter_<col>.idx`),
from the regenerated `r.schema[…].Name` operands of the two file names. -/
def bfFileCol (schema : List Nat) : Option Nat :=
  if bfReInitFileNameCols.all (· == firstFieldExpr) then schema.head? else schema.getLast?

/-- `BloomFilterIndexReader.MayBeInFragment` with explicit `splitMap` keys and file column:
`SKConditionImpl` over `schema`, every in-schema element asks the `LineFilterReader`, which
evaluates the whole condition against the filter written from column `fc` of the block. -/
def bfMayBeWith (keys : List Nat) (fc : Nat) (wsp : Nat → Bool) (pos : Nat → List Nat) (schema : List Nat)
    (c : BCond) (seg : Seg) : Option (Option Bool) :=
  let f := Filter.build pos (segHashes wsp [fc] seg)
  isExist (fun n => schema.contains n) (fun _ _ => lineHitK (fun n => keys.contains n) contentSplit pos f c) c

/-- … as `ReInit` sets it up now; outer `none` also when the schema is empty (`r.schema[0]`). -/
def bfMayBeIdx (wsp : Nat → Bool) (pos : Nat → List Nat) (schema : List Nat) (c : BCond) (seg : Seg) :
    Option (Option Bool) :=
  match bfFileCol schema with
  | none => none
  | some fc => bfMayBeWith (bfSplitKeys schema) fc wsp pos schema c seg

/-- `BloomFilterFullTextIndexReader.MayBeInFragment`: `splitMap` holds every schema field and
`__log___`; the one filter holds every string column of the record (`allCols`). -/
def ftMayBeIdx (wsp : Nat → Bool) (pos : Nat → List Nat) (schema allCols : List Nat) (c : BCond) (seg : Seg) :
    Option (Option Bool) :=
  let f := Filter.build pos (segHashes wsp allCols seg)
  isExist (fun n => schema.contains n || n == fieldLog) (fun _ b => multiHit contentSplit pos f b) c

/-! ### the detached (OBS) layout: `FilterReader` = vertical groups + line filters -/

/-- `FilterReader.IsExist` behind `BloomFilterIndexReader` for `OBSFilterPath{local, remote}`: the
remote file holds `nv` filters in the transposed layout (`VerticalFilterReader`), the local file
the next `nl` ones (`LineFilterReader`); a block past both is answered "no" by every in-schema
element. Both readers evaluate the whole condition the same way — a match-phrase on a key of
`splitMap` is looked up, any other atom is unknown (`VerticalFilterReader.hitExpr` since fix
660bc1b; before it answered "no" for a column without `splitMap` entry) — on the same filter
bits (`FlushVerticalFilter` / `loadHash` transpose them; tied by the op `bloomv`). -/
def bfMayBeDetached (nv nl j : Nat) (wsp : Nat → Bool) (pos : Nat → List Nat) (schema : List Nat) (c : BCond)
    (seg : Seg) : Option (Option Bool) :=
  if j ≥ nv + nl then
    (bfFileCol schema).bind fun _ => isExist (fun n => schema.contains n) (fun _ _ => some false) c
  else bfMayBeIdx wsp pos schema c seg

/-! ### the readers of a file, chained -/

def answerOf (segs : List Seg) (mayBe : Seg → Option (Option Bool)) : Reader := fun j =>
  match segs[j]? with
  | some seg => (match mayBe seg with | some (some b) => some b | _ => none)
  | none => none

/-- the `SKFileReader` created for one `SkInfo`, over a file whose blocks are `segs`.
min-max: `ReInit` calls the nil `ReadFunc` (`none` everywhere, the driver reports the panic). -/
def readerOf (wsp : Nat → Bool) (pos : Nat → List Nat) (allCols : List Nat) (c : BCond) (segs : List Seg)
    (i : SkInfo) : Reader :=
  match i.kind with
  | .bloom => answerOf segs (bfMayBeIdx wsp pos i.fields c)
  | .fullText => answerOf segs (ftMayBeIdx wsp pos i.fields allCols c)
  | .set => setMayBeInFragment
  | _ => fun _ => none

/-- the loop of `hybrid_index_reader.go`: `frs = Scan(reader_j, frs)` for every reader. -/
def scanReaders (mm : Nat) : List Reader → List (Nat × Nat) → Option (List (Nat × Nat))
  | [], rgs => some rgs
  | rd :: rds, rgs =>
    match skipScan mm rd rgs with
    | none => none
    | some rgs' => scanReaders mm rds rgs'

/-- `createSKFileReaders`: a creator is registered for every skip-index type but the time cluster
(which `getSKInfoByExpr` can only reach through an index name shared with another index). -/
def SkInfo.creatable (i : SkInfo) : Bool := i.kind != .timeCluster

/-- `CreateSKFileReaders` + the loop, for a file with blocks `segs`: outer `none` = the readers
could not be created (error). -/
def skipIndexScan (wsp : Nat → Bool) (pos : Nat → List Nat) (rel : Relation) (allCols : List Nat) (c : BCond)
    (segs : List Seg) (mm : Nat) (rgs : List (Nat × Nat)) : Option (Option (List (Nat × Nat))) :=
  match skInfos rel c with
  | none => none
  | some infos =>
    if infos.all SkInfo.creatable then some (scanReaders mm (infos.map (readerOf wsp pos allCols c segs)) rgs)
    else none

end OG.C20.Skip
