/-
C20 — the key type and the discrete structure the driver instantiates the model with satisfy
the hypotheses of the theorems, so `scan_sound` applies to exactly what the correspondence runs.
-/
import OG.C20.Props
import OG.C20.Driver

namespace OG.C20

theorem DK.lt_def (a b : DK) : a < b ↔ (a.isInt = false ∧ b.isInt = true) ∨ (a.isInt = b.isInt ∧ a.v < b.v) :=
  Iff.rfl
theorem DK.le_def (a b : DK) : a ≤ b ↔ ¬ b < a := Iff.rfl

instance : Std.IsLinearOrder DK where
  le_refl a := by
    rw [DK.le_def, DK.lt_def]; rcases a with ⟨t, v⟩; cases t <;> simp
  le_trans a b c := by
    simp only [DK.le_def, DK.lt_def]
    rcases a with ⟨ta, va⟩; rcases b with ⟨tb, vb⟩; rcases c with ⟨tc, vc⟩
    cases ta <;> cases tb <;> cases tc <;> simp <;> omega
  le_antisymm a b := by
    simp only [DK.le_def, DK.lt_def]
    rcases a with ⟨ta, va⟩; rcases b with ⟨tb, vb⟩
    cases ta <;> cases tb <;> simp <;> omega
  le_total a b := by
    simp only [DK.le_def, DK.lt_def]
    rcases a with ⟨ta, va⟩; rcases b with ⟨tb, vb⟩
    cases ta <;> cases tb <;> simp <;> omega

instance : Std.LawfulOrderLT DK where
  lt_iff a b := by
    simp only [DK.le_def, DK.lt_def]
    rcases a with ⟨ta, va⟩; rcases b with ⟨tb, vb⟩
    cases ta <;> cases tb <;> simp <;> omega

theorem dkDisc_lawful : dkDisc.Lawful := by
  constructor
  · intro a b h x hx
    simp only [dkDisc] at h
    split at h
    · rename_i hc
      cases h
      simp only [Bool.and_eq_true, bne_iff_ne, ne_eq] at hc
      simp only [DK.le_def, DK.lt_def] at hx ⊢
      rcases a with ⟨ta, va⟩; rcases x with ⟨tx, vx⟩
      simp only [] at hc hx ⊢
      cases tx <;> simp_all <;> omega
    · cases h
  · intro a b h x hx
    simp only [dkDisc] at h
    split at h
    · rename_i hc
      cases h
      simp only [Bool.and_eq_true, bne_iff_ne, ne_eq] at hc
      simp only [DK.le_def, DK.lt_def] at hx ⊢
      rcases a with ⟨ta, va⟩; rcases x with ⟨tx, vx⟩
      simp only [] at hc hx ⊢
      cases tx <;> simp_all <;> omega
    · cases h

/-- `scan_sound` for the instantiation the driver runs. -/
theorem scan_sound_driver (c : Cond DK) (hasKey : Bool) (us : List Bool)
    (marks : List (List (Ext DK))) (coarse minMarks i : Nat) (k : List (Option DK))
    (hco : 2 ≤ coarse) (hi : i < marks.length - 1)
    (hwidth : ∀ j, j < marks.length → c.usedKeySize ≤ (marks.getD j []).length)
    (hus : c.usedKeySize ≤ us.length) (hk : c.usedKeySize ≤ k.length)
    (hsorted : ∀ j j', j ≤ j' → j' < marks.length → lexLE (marks.getD j []) (marks.getD j' []))
    (hl : lexLE (marks.getD i []) (k.map toExt)) (hr : lexLE (k.map toExt) (marks.getD (i + 1) []))
    (hs : sat c k) :
    ∃ p ∈ scan true dkDisc c hasKey us marks coarse minMarks, p.1 ≤ i ∧ i < p.2 :=
  scan_sound dkDisc dkDisc_lawful c hasKey us marks coarse minMarks i k hco hi hwidth hus hk hsorted hl hr hs

end OG.C20
