/-
C20 — time cluster, theorems (model: OG/C20/TimeCluster.lean).
-/
import OG.C20.TimeCluster

namespace OG.C20.TC
open OG.Gen.C20 (tcWindow tcMinTime tcMaxTime)

theorem clusterOf_eq (t d : Int) : clusterOf t d = d * t.tdiv d := by
  unfold clusterOf
  rw [Int.tmod_def]
  omega

theorem tdiv_mono (d : Int) (hd : 0 < d) (a b : Int) (h : a ≤ b) : a.tdiv d ≤ b.tdiv d := by
  by_cases ha : 0 ≤ a
  · rw [Int.tdiv_eq_ediv_of_nonneg ha, Int.tdiv_eq_ediv_of_nonneg (by omega)]
    exact Int.ediv_le_ediv hd h
  · by_cases hb : 0 ≤ b
    · have h1 : a.tdiv d ≤ 0 := by
        have e := Int.neg_tdiv a d
        have := Int.tdiv_nonneg (a := -a) (b := d) (by omega) (by omega)
        omega
      have h2 := Int.tdiv_nonneg (a := b) (b := d) hb (by omega)
      omega
    · have ea := Int.neg_tdiv a d
      have eb := Int.neg_tdiv b d
      have e1 := Int.tdiv_eq_ediv_of_nonneg (a := -a) (b := d) (by omega)
      have e2 := Int.tdiv_eq_ediv_of_nonneg (a := -b) (b := d) (by omega)
      have := Int.ediv_le_ediv hd (show -b ≤ -a by omega)
      omega

/-- truncation toward zero is monotone. -/
theorem clusterOf_mono (d : Int) (hd : 0 < d) (a b : Int) (h : a ≤ b) : clusterOf a d ≤ clusterOf b d := by
  rw [clusterOf_eq, clusterOf_eq]
  exact Int.mul_le_mul_of_nonneg_left (tdiv_mono d hd a b h) (by omega)

theorem clusterOf_nonneg (d : Int) (hd : 0 < d) (a : Int) (ha : 0 ≤ a) : 0 ≤ clusterOf a d ∧ clusterOf a d ≤ a := by
  unfold clusterOf
  rw [Int.tmod_eq_emod_of_nonneg ha]
  have h1 := Int.emod_nonneg a (show d ≠ 0 by omega)
  have h2 : a % d ≤ a := by
    by_cases h : a < d
    · rw [Int.emod_eq_of_lt ha h]; omega
    · have := Int.emod_lt_of_pos a hd; omega
  omega

theorem clusterOf_nonpos (d : Int) (hd : 0 < d) (a : Int) (ha : a ≤ 0) : a ≤ clusterOf a d ∧ clusterOf a d ≤ 0 := by
  have h := clusterOf_nonneg d hd (-a) (by omega)
  have : clusterOf a d = -(clusterOf (-a) d) := by
    rw [clusterOf_eq, clusterOf_eq, Int.neg_tdiv, Int.mul_neg]
    omega
  omega

/-- **T1** the rounded time range of the query contains the cluster value of every row whose
time lies in the query's time range: the time-cluster condition never excludes such a row
(any cluster duration, open ranges `MinTime` / `MaxTime`, times before 1970 included). -/
theorem timeCluster_range_sound (d tmin tmax t : Int) (hd : 0 < d)
    (h1 : tmin ≤ t) (h2 : t ≤ tmax) (hlo : tcMinTime ≤ tmin) (hhi : tmax ≤ tcMaxTime)
    (ht1 : tcMinTime < t) (ht2 : t < tcMaxTime) :
    tcCond (tcWindow tmin d) (tcWindow tmax d) (clusterOf t d) = true := by
  have m1 := clusterOf_mono d hd tmin t h1
  have m2 := clusterOf_mono d hd t tmax h2
  have bmin : (0 ≤ tmin → 0 ≤ clusterOf tmin d ∧ clusterOf tmin d ≤ tmin) ∧
      (tmin ≤ 0 → tmin ≤ clusterOf tmin d ∧ clusterOf tmin d ≤ 0) :=
    ⟨clusterOf_nonneg d hd tmin, clusterOf_nonpos d hd tmin⟩
  have bmax : (0 ≤ tmax → 0 ≤ clusterOf tmax d ∧ clusterOf tmax d ≤ tmax) ∧
      (tmax ≤ 0 → tmax ≤ clusterOf tmax d ∧ clusterOf tmax d ≤ 0) :=
    ⟨clusterOf_nonneg d hd tmax, clusterOf_nonpos d hd tmax⟩
  have eL : tcWindow tmin d = if tmin = tcMinTime then tmin else clusterOf tmin d := by
    unfold tcWindow clusterOf
    have : tmin ≠ tcMaxTime := by omega
    have : d ≠ 0 := by omega
    by_cases h : tmin = tcMinTime <;> simp_all
  have eH : tcWindow tmax d = if tmax = tcMaxTime then tmax else clusterOf tmax d := by
    unfold tcWindow clusterOf
    have : tmax ≠ tcMinTime := by omega
    have : d ≠ 0 := by omega
    by_cases h : tmax = tcMaxTime <;> simp_all
  rw [eL, eH]
  generalize clusterOf t d = x at *
  generalize clusterOf tmin d = l at *
  generalize clusterOf tmax d = hh at *
  have c1 : tcMinTime = -9223372036854775806 := rfl
  have c2 : tcMaxTime = 9223372036854775806 := rfl
  unfold tcCond
  by_cases e1 : tmin = tcMinTime <;> by_cases e2 : tmax = tcMaxTime <;>
    simp only [e1, e2, if_true, if_false, beq_iff_eq, bne_iff_ne, ne_eq, Bool.and_eq_true, decide_eq_true_eq] <;>
    (repeat' split) <;> simp_all <;> omega

/-- non-vacuity: duration 10, query range [-25, 37], a row at -21 (cluster -20) and one at 37. -/
example : tcCond (tcWindow (-25) 10) (tcWindow 37 10) (clusterOf (-21) 10) = true := by decide
example : tcCond (tcWindow (-25) 10) (tcWindow 37 10) (clusterOf 37 10) = true := by decide
/-- and the condition is in use: a row at 45 (cluster 40) is outside. -/
example : tcCond (tcWindow (-25) 10) (tcWindow 37 10) (clusterOf 45 10) = false := by decide

/-- rounding the upper end *up* to the next window start instead would still be sound, rounding
the lower end up is not: the shape `t - t%w + w` for the lower bound excludes the row at -21. -/
example : tcCond ((-25) - Int.tmod (-25) 10 + 10) (tcWindow 37 10) (clusterOf (-21) 10) = false := by decide

end OG.C20.TC
