/-
C20 — expectations about the regenerated facts. Each `theorem` below compares what ogfacts
extracted from /repo *now* with what the hand-written model was written against. A failure
here means the modelled source changed shape: the correspondence run then decides whether
the property still holds (and supplies the replay).
-/
import OG.C20.Model

namespace OG.C20.Facts
open OG.Gen.C20

theorem considerOnlyBeTrueSrc_expected : considerOnlyBeTrueSrc = "NewMark(false, true)" := by rfl

theorem atomTable_expected : atomTable = [
  ("influxql.EQ", "res.op = rpn.InRange; res.rg = NewRange(value, value, true, true)"),
  ("influxql.NEQ", "res.op = rpn.NotInRange; res.rg = NewRange(value, value, true, true)"),
  ("influxql.LT", "res.op = rpn.InRange; res.rg = createRightBounded(value, false, false)"),
  ("influxql.GT", "res.op = rpn.InRange; res.rg = createLeftBounded(value, false, false)"),
  ("influxql.LTE", "res.op = rpn.InRange; res.rg = createRightBounded(value, true, false)"),
  ("influxql.GTE", "res.op = rpn.InRange; res.rg = createLeftBounded(value, true, false)"),
  ("influxql.IN", "res.op = rpn.InSet"),
  ("influxql.MATCHPHRASE", "res.op = rpn.InRange; res.rg = NewRange(value, value, true, true)"),
  ("influxql.IPINRANGE", "res.op = rpn.InRange; res.rg = NewRange(value, value, true, true)"),
  ("default", "res.op = rpn.UNKNOWN; return false")
] := by rfl

theorem returns_checkRangeLeftRightBound_expected : returns_checkRangeLeftRightBound = ["m, true, err", "Mark{}, false, err", "res, true, nil", "res, false, nil"] := by rfl

theorem returns_checkRangeLeftBound_expected : returns_checkRangeLeftBound = ["res, false, err", "res, true, nil", "res, false, nil"] := by rfl

theorem returns_checkRangeRightBound_expected : returns_checkRangeRightBound = ["mark, false, err", "res, true, nil", "res, false, nil"] := by rfl

theorem returns_checkInAnyRange_expected : returns_checkInAnyRange = ["callBack(rgs)", "callBack(rgs)", "res, err", "res, err", "res, err", "res, nil"] := by rfl

theorem src_createRightBounded_expected : src_createRightBounded = "{ var nr *Range if isInfinityIncluded { nr = createWholeRangeIncludeBound() } else { nr = createWholeRangeWithoutBound() } nr.right = right nr.rightIncluded = ri nr.turnOpenRangeIntoClosed() if nr.right.IsNegativeInfinity() && ri { nr.leftIncluded = true } return nr }" := by rfl

theorem src_createLeftBounded_expected : src_createLeftBounded = "{ var nr *Range if isInfinityIncluded { nr = createWholeRangeIncludeBound() } else { nr = createWholeRangeWithoutBound() } nr.left = left nr.leftIncluded = li nr.turnOpenRangeIntoClosed() if nr.left.IsPositiveInfinity() && li { nr.rightIncluded = true } return nr }" := by rfl

theorem src_turnOpenRangeIntoClosed_expected : src_turnOpenRangeIntoClosed = "{ if val, ok := openIntegerBound(r.left, r.leftIncluded); ok && val != math.MaxInt64 { r.left = newIntegerFieldRef(val + 1) r.leftIncluded = true } if val, ok := openIntegerBound(r.right, r.rightIncluded); ok && val != math.MinInt64 { r.right = newIntegerFieldRef(val - 1) r.rightIncluded = true } }" := by rfl

theorem src_checkInRangeForRange_expected : src_checkInRangeForRange = "{ keyRange := rgs[elem.keyColumn] if len(elem.monotonicChains) > 0 { newRange := kc.applyChainToRange(keyRange, elem.monotonicChains, dataTypes[elem.keyColumn], singlePoint) if newRange != nil { rpnStack = append(rpnStack, NewMark(true, true)) return rpnStack } keyRange = newRange } intersects := elem.rg.intersectsRange(keyRange) contains := elem.rg.containsRange(keyRange) rpnStack = append(rpnStack, NewMark(intersects, !contains)) if elem.op == rpn.NotInRange { rpnStack[len(rpnStack)-1] = rpnStack[len(rpnStack)-1].Not() } return rpnStack }" := by rfl

theorem generation_ok : generationFailed = false := by rfl

end OG.C20.Facts
