/-
C20 — theorems about the way from kept fragment ranges to the segments that are read
(model: OG/C20/Frag.lean).

  * `segRanges_cover` — `getSegmentRanges`: for the segment ranges of a file's fragments
    (ascending, pairwise disjoint) and fragment ranges inside the file, every segment of every kept
    fragment lies in a returned segment range; no error, no panic.
  * `iterAsc_visits` / `locIter_asc_visits` — `Location` ascending: over ascending, disjoint,
    non-empty ranges the cursor visits exactly the segments of the ranges, in order, each once.
    (Descending: the mirror-image code; tied by the op `locit` and its spec diff, examples below.)
-/
import OG.C20.Frag
import OG.C20.SkipProps

set_option linter.unusedVariables false
namespace OG.C20.Frag
open OG.C20.Skip (Asc Covered)

theorem asc_get : ∀ (l : List (Nat × Nat)) (B i : Nat) (p : Nat × Nat), Asc B l → l[i]? = some p →
    B ≤ p.1 ∧ p.1 ≤ p.2 := by
  intro l
  induction l with
  | nil => intro B i p _ h; simp at h
  | cons q rest ih =>
    intro B i p hasc h
    obtain ⟨h1, h2, h3⟩ := hasc
    cases i with
    | zero => simp at h; subst h; exact ⟨h1, h2⟩
    | succ i =>
      simp at h
      have := ih q.2 i p h3 h
      exact ⟨by omega, this.2⟩

theorem asc_get_lt : ∀ (l : List (Nat × Nat)) (B i j : Nat) (p q : Nat × Nat), Asc B l → i < j →
    l[i]? = some p → l[j]? = some q → p.2 ≤ q.1 := by
  intro l
  induction l with
  | nil => intro B i j p q _ _ h; simp at h
  | cons r rest ih =>
    intro B i j p q hasc hij hi hj
    obtain ⟨h1, h2, h3⟩ := hasc
    cases j with
    | zero => omega
    | succ j =>
      simp at hj
      cases i with
      | zero =>
        simp at hi
        rw [← hi]
        exact (asc_get rest r.2 j q h3 hj).1
      | succ i =>
        simp at hi
        exact ih r.2 i j p q h3 (by omega) hi hj

/-- the range `getSegmentRanges` builds for one fragment range (total version for the proof). -/
def segOf (all : List (Nat × Nat)) (f : Nat × Nat) : Nat × Nat :=
  ((all[f.1]?.getD (0, 0)).1, (all[f.2 - 1]?.getD (0, 0)).2)

theorem segRangesAux_ok (all : List (Nat × Nat)) :
    ∀ (frs acc : List (Nat × Nat)), (∀ f ∈ frs, f.1 < f.2 ∧ f.2 ≤ all.length) →
      segRangesAux all frs acc = .ok (acc.reverse ++ frs.map (segOf all)) := by
  intro frs
  induction frs with
  | nil => intro acc _; simp [segRangesAux]
  | cons f rest ih =>
    intro acc h
    obtain ⟨s, e⟩ := f
    have hf := h (s, e) (by simp)
    simp only at hf
    unfold segRangesAux
    have h1 : ¬ e > all.length := by omega
    have h2 : e ≠ 0 := by omega
    have hs : s < all.length := by omega
    have he : e - 1 < all.length := by omega
    simp only [h1, h2, if_false, List.getElem?_eq_getElem hs, List.getElem?_eq_getElem he]
    rw [ih _ (fun f hf' => h f (List.mem_cons_of_mem _ hf'))]
    simp [segOf, List.getElem?_eq_getElem hs, List.getElem?_eq_getElem he]

/-- **F1** `getSegmentRanges` keeps every segment of every kept fragment. -/
theorem segRanges_cover (all frs : List (Nat × Nat)) (hall : Asc 0 all)
    (hfrs : ∀ f ∈ frs, f.1 < f.2 ∧ f.2 ≤ all.length) :
    ∃ rs, segRanges all frs = .ok rs ∧
      ∀ f ∈ frs, ∀ i, f.1 ≤ i → i < f.2 → ∀ a, all[i]? = some a → ∀ sg, a.1 ≤ sg → sg < a.2 → Covered rs sg := by
  refine ⟨frs.map (segOf all), by simpa [segRanges] using segRangesAux_ok all frs [] hfrs, ?_⟩
  intro f hf i hi1 hi2 a ha sg hs1 hs2
  refine ⟨segOf all f, List.mem_map.mpr ⟨f, hf, rfl⟩, ?_, ?_⟩
  · -- all[f.1].1 ≤ a.1
    have hlen := (hfrs f hf).2
    have hs : f.1 < all.length := by have := (hfrs f hf).1; omega
    simp only [segOf, List.getElem?_eq_getElem hs, Option.getD_some]
    by_cases h : f.1 = i
    · subst h; rw [List.getElem?_eq_getElem hs] at ha; simp at ha; rw [ha]; exact hs1
    · have h1 := asc_get_lt all 0 f.1 i all[f.1] a hall (by omega) (List.getElem?_eq_getElem hs) ha
      have h2 := asc_get all 0 f.1 all[f.1] hall (List.getElem?_eq_getElem hs)
      omega
  · have hlen := (hfrs f hf).2
    have he : f.2 - 1 < all.length := by have := (hfrs f hf).1; omega
    simp only [segOf, List.getElem?_eq_getElem he, Option.getD_some]
    by_cases h : i = f.2 - 1
    · subst h; rw [List.getElem?_eq_getElem he] at ha; simp at ha; rw [ha]; exact hs2
    · have h1 := asc_get_lt all 0 i (f.2 - 1) a all[f.2 - 1] hall (by omega) ha (List.getElem?_eq_getElem he)
      have h2 := asc_get all 0 (f.2 - 1) all[f.2 - 1] hall (List.getElem?_eq_getElem he)
      omega

example : segRanges [(2, 3), (3, 5), (5, 8), (8, 11)] [(0, 2), (3, 4)] = .ok [(2, 5), (8, 11)] := by decide
example : segRanges [(2, 3), (3, 5)] [(0, 3)] = .err := by decide
example : segRanges [(2, 3), (3, 5)] [(2, 1)] = .panic := by decide

/-! ### `Location`, ascending -/

/-- the segments of the ranges, in order. -/
def segsOf (frs : List (Nat × Nat)) : List Nat := frs.flatMap fun f => List.range' f.1 (f.2 - f.1)

def total (frs : List (Nat × Nat)) : Nat := (frs.map fun f => f.2 - f.1).sum

theorem getLast_of_get (l : List (Nat × Nat)) (k : Nat) (p : Nat × Nat) (h : l[k]? = some p)
    (hk : k + 1 = l.length) : l.getLast? = some p := by
  rw [List.getLast?_eq_getElem?]
  have : l.length - 1 = k := by omega
  rw [this]; exact h

theorem hasNext_of_in (frs : List (Nat × Nat)) (hasc : Asc 0 frs) (k x : Nat) (s e : Nat)
    (hk : frs[k]? = some (s, e)) (hx : x < e) : hasNextAsc frs x = true := by
  unfold hasNextAsc
  have hlen : k < frs.length := by
    rcases Nat.lt_or_ge k frs.length with h | h
    · exact h
    · rw [List.getElem?_eq_none h] at hk; cases hk
  have hl : frs.getLast? = frs[frs.length - 1]? := List.getLast?_eq_getElem? ..
  have hlt : frs.length - 1 < frs.length := by omega
  rw [hl, List.getElem?_eq_getElem hlt]
  simp only [decide_eq_true_eq]
  by_cases h : k = frs.length - 1
  · subst h
    rw [List.getElem?_eq_getElem hlt] at hk
    simp at hk
    rw [hk]; exact hx
  · have h1 := asc_get_lt frs 0 k (frs.length - 1) (s, e) frs[frs.length - 1] hasc (by omega) hk
      (List.getElem?_eq_getElem hlt)
    have h2 := asc_get frs 0 (frs.length - 1) frs[frs.length - 1] hasc (List.getElem?_eq_getElem hlt)
    simp only at h1
    omega

theorem iterAsc_visits (frs : List (Nat × Nat)) (hasc : Asc 0 frs) (hne : ∀ f ∈ frs, f.1 < f.2) :
    ∀ (fuel k x s e : Nat), frs[k]? = some (s, e) → s ≤ x → x < e →
      (e - x) + total (frs.drop (k + 1)) < fuel →
      iterAsc frs fuel k x = some (List.range' x (e - x) ++ segsOf (frs.drop (k + 1))) := by
  intro fuel
  induction fuel with
  | zero => intro k x s e _ _ _ h; omega
  | succ fuel ih =>
    intro k x s e hk hsx hxe hfuel
    have hlen : k < frs.length := by
      rcases Nat.lt_or_ge k frs.length with h | h
      · exact h
      · rw [List.getElem?_eq_none h] at hk; cases hk
    unfold iterAsc
    rw [hasNext_of_in frs hasc k x s e hk hxe]
    simp only [if_true]
    unfold stepAsc
    simp only [hk]
    by_cases hlast : k + 1 = frs.length
    · -- last range
      have hdrop : frs.drop (k + 1) = [] := by rw [hlast]; simp
      have hcond : (k + 1 = frs.length ∧ s ≤ x ∧ x < e) ∨ (k + 1 < frs.length ∧ s ≤ x ∧ x + 1 < e) :=
        Or.inl ⟨hlast, hsx, hxe⟩
      simp only [hcond, if_true]
      by_cases hx1 : x + 1 < e
      · rw [ih k (x + 1) s e hk (by omega) hx1 (by rw [hdrop] at hfuel ⊢; simp [total] at hfuel ⊢; omega)]
        have : e - x = (e - (x + 1)) + 1 := by omega
        rw [this, List.range'_succ]
        simp
      · have hxe' : x + 1 = e := by omega
        have hlast' := getLast_of_get frs k (s, e) hk hlast
        have hnn : hasNextAsc frs (x + 1) = false := by
          unfold hasNextAsc; rw [hlast']; simp; omega
        have : iterAsc frs fuel k (x + 1) = some [] := by
          cases fuel with
          | zero => rfl
          | succ f => unfold iterAsc; simp [hnn]
        rw [this, hdrop]
        have : e - x = 1 := by omega
        simp [this, segsOf]
    · have hlt : k + 1 < frs.length := by omega
      have hd : frs.drop (k + 1) = frs[k + 1] :: frs.drop (k + 1 + 1) := List.drop_eq_getElem_cons hlt
      rcases hq : frs[k + 1] with ⟨s', e'⟩
      have hk1 : frs[k + 1]? = some (s', e') := by rw [List.getElem?_eq_getElem hlt, hq]
      have hne' : s' < e' := hne (s', e') (by rw [← hq]; exact List.getElem_mem hlt)
      by_cases hx1 : x + 1 < e
      · have hcond : (k + 1 = frs.length ∧ s ≤ x ∧ x < e) ∨ (k + 1 < frs.length ∧ s ≤ x ∧ x + 1 < e) :=
          Or.inr ⟨hlt, hsx, hx1⟩
        simp only [hcond, if_true]
        rw [ih k (x + 1) s e hk (by omega) hx1 (by omega)]
        have : e - x = (e - (x + 1)) + 1 := by omega
        rw [this, List.range'_succ]
        simp
      · have hcond : ¬ ((k + 1 = frs.length ∧ s ≤ x ∧ x < e) ∨ (k + 1 < frs.length ∧ s ≤ x ∧ x + 1 < e)) := by
          intro h; rcases h with h | h <;> omega
        simp only [hcond, if_false, hk1]
        have htot : total (frs.drop (k + 1)) = (e' - s') + total (frs.drop (k + 1 + 1)) := by
          rw [hd, hq]; simp [total]
        rw [ih (k + 1) s' s' e' hk1 (Nat.le_refl _) hne' (by omega)]
        have : e - x = 1 := by omega
        rw [this, hd, hq]
        simp [segsOf]

/-- **F2** `Location`, ascending: over ascending, pairwise disjoint, non-empty ranges the cursor
visits exactly the segments of the ranges, in order (limit above their number). -/
theorem locIter_asc_visits (frs : List (Nat × Nat)) (hasc : Asc 0 frs) (hne : ∀ f ∈ frs, f.1 < f.2)
    (hnil : frs ≠ []) (limit : Nat) (hl : total frs < limit) :
    locIter frs true limit = some ((segsOf frs).map Int.ofNat) := by
  cases frs with
  | nil => exact absurd rfl hnil
  | cons f rest =>
    obtain ⟨s, e⟩ := f
    have hse : s < e := hne (s, e) (by simp)
    unfold locIter
    simp only [if_true, List.head?_cons]
    rw [iterAsc_visits ((s, e) :: rest) hasc hne limit 0 s s e (by simp) (Nat.le_refl _) hse
      (by simp [total] at hl ⊢; omega)]
    simp [segsOf]

example : locIter [(0, 2), (3, 4), (6, 8)] true 100 = some [0, 1, 3, 6, 7] := by decide
example : locIter [(0, 2), (3, 4), (6, 8)] false 100 = some [7, 6, 3, 1, 0] := by decide
example : locIter [(0, 2), (3, 4), (6, 8)] false 2 = some [7, 6] := by decide
/-- an empty range in the middle makes the ascending cursor read one segment too many (never too
few): segment 3 below belongs to no range. -/
example : locIter [(0, 2), (3, 3), (4, 5)] true 100 = some [0, 1, 3, 4] := by decide

end OG.C20.Frag
