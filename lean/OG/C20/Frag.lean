/-
C20 — from the fragment ranges a sparse-index scan left to the segments that are read.

  * `getSegmentRanges` (engine/column_store_reader.go): a fragment range `[s,e)` of a file becomes
    the segment range `[all[s].Start, all[e-1].End)`, `all` = the segment range of every fragment
    (`pkMark.GetSegmentsFromFragmentRange()`).
  * `Location.SetFragmentRanges / hasNext / nextSegment` (engine/immutable/location.go): the read
    cursor walks the segments of the ranges, ascending or descending.

Transcriptions (core only, executable); both are reached through build-tag-`verif` hooks
(`VerifC20GetSegmentRanges`, `VerifC20IterSegments`) by the ops `segr` / `locit`, their bodies are
pinned (FragFacts.lean). Theorems: FragProps.lean.
-/
namespace OG.C20.Frag

inductive SegRes where
  | ok (rs : List (Nat × Nat))
  | err      -- "can`t get segment ranges when init the read cursor"
  | panic    -- index out of range
deriving DecidableEq, Repr

/-- `getSegmentRanges(fragmentRanges, allSegmentRanges)`; `acc` reversed. -/
def segRangesAux (all : List (Nat × Nat)) : List (Nat × Nat) → List (Nat × Nat) → SegRes
  | [], acc => .ok acc.reverse
  | (s, e) :: rest, acc =>
    if e > all.length then .err
    else
      match all[s]?, (if e = 0 then none else all[e - 1]?) with
      | some a, some b => segRangesAux all rest ((a.1, b.2) :: acc)
      | _, _ => .panic

def segRanges (all frs : List (Nat × Nat)) : SegRes := segRangesAux all frs []

/-! ### `Location`: iteration over the segments of the ranges -/

/-- `hasNext`, ascending: `segPos < fragRgs[len-1].End`. -/
def hasNextAsc (frs : List (Nat × Nat)) (x : Nat) : Bool :=
  match frs.getLast? with
  | some (_, e) => x < e
  | none => false

/-- `nextSegment(false)`, ascending, from fragment range number `k` at segment `x`:
inside the range (the last segment of a range that is not the last range excepted) the position
moves on by one, otherwise to the start of the next range. `none` = index out of range. -/
def stepAsc (frs : List (Nat × Nat)) (k x : Nat) : Option (Nat × Nat) :=
  match frs[k]? with
  | none => none
  | some (s, e) =>
    if (k + 1 = frs.length ∧ s ≤ x ∧ x < e) ∨ (k + 1 < frs.length ∧ s ≤ x ∧ x + 1 < e) then some (k, x + 1)
    else
      match frs[k + 1]? with
      | some (s', _) => some (k + 1, s')
      | none => none

/-- positions visited ascending from `(k, x)`; `fuel` = the hook's limit; `none` = panic. -/
def iterAsc (frs : List (Nat × Nat)) : Nat → Nat → Nat → Option (List Nat)
  | 0, _, _ => some []
  | fuel + 1, k, x =>
    if hasNextAsc frs x then
      match stepAsc frs k x with
      | none => none
      | some (k', x') => (iterAsc frs fuel k' x').map (x :: ·)
    else some []

/-- `hasNext`, descending: `segPos >= fragRgs[0].Start` (positions are `int`: `-1` is reachable). -/
def hasNextDesc (frs : List (Nat × Nat)) (x : Int) : Bool :=
  match frs.head? with
  | some (s, _) => (s : Int) ≤ x
  | none => false

def stepDesc (frs : List (Nat × Nat)) (k : Nat) (x : Int) : Option (Nat × Int) :=
  match frs[k]? with
  | none => none
  | some (s, e) =>
    if (k = 0 ∧ (s : Int) ≤ x ∧ x < e) ∨ (0 < k ∧ (s : Int) < x ∧ x < e) then some (k, x - 1)
    else
      match k with
      | 0 => none
      | k' + 1 =>
        match frs[k']? with
        | some (_, e') => some (k', (e' : Int) - 1)
        | none => none

def iterDesc (frs : List (Nat × Nat)) : Nat → Nat → Int → Option (List Int)
  | 0, _, _ => some []
  | fuel + 1, k, x =>
    if hasNextDesc frs x then
      match stepDesc frs k x with
      | none => none
      | some (k', x') => (iterDesc frs fuel k' x').map (x :: ·)
    else some []

/-- `VerifC20IterSegments(frs, ascending, limit)`: `SetFragmentRanges` (`frs` non-empty), then the
loop. -/
def locIter (frs : List (Nat × Nat)) (asc : Bool) (limit : Nat) : Option (List Int) :=
  if asc then
    match frs.head? with
    | some (s, _) => (iterAsc frs limit 0 s).map (·.map Int.ofNat)
    | none => none
  else
    match frs.getLast? with
    | some (_, e) => iterDesc frs limit (frs.length - 1) ((e : Int) - 1)
    | none => none

end OG.C20.Frag
