/-
C20 — helper lemmas: the order on `Ext α`, range membership, soundness of the range
predicates.  The property theorems are in `OG.C20.Props`.
-/
import OG.C20.Model

set_option linter.unusedSectionVars false
namespace OG.C20
open OG.Gen.C20 (Mark)

variable {α : Type} [LT α] [LE α] [DecidableLT α] [DecidableEq α]
  [Std.IsLinearOrder α] [Std.LawfulOrderLT α]

instance : LT (Ext α) := ⟨fun a b => a.less b = true⟩
instance : LE (Ext α) := ⟨fun a b => b.less a = false⟩

theorem Ext.lt_def (a b : Ext α) : a < b ↔ a.less b = true := Iff.rfl
theorem Ext.le_def (a b : Ext α) : a ≤ b ↔ b.less a = false := Iff.rfl

instance : Std.IsLinearOrder (Ext α) where
  le_refl a := by cases a <;> simp [Ext.le_def, Ext.less] <;> grind
  le_trans a b c := by
    cases a <;> cases b <;> cases c <;> simp [Ext.le_def, Ext.less] <;> grind
  le_antisymm a b := by
    cases a <;> cases b <;> simp [Ext.le_def, Ext.less] <;> grind
  le_total a b := by
    cases a <;> cases b <;> simp [Ext.le_def, Ext.less] <;> grind

instance : Std.LawfulOrderLT (Ext α) where
  lt_iff a b := by
    cases a <;> cases b <;> simp [Ext.le_def, Ext.lt_def, Ext.less] <;> grind

@[simp] theorem Ext.less_iff (a b : Ext α) : a.less b = true ↔ a < b := Iff.rfl
@[simp] theorem Ext.eqv_iff (a b : Ext α) : a.eqv b = true ↔ a = b := by simp [Ext.eqv]

theorem Ext.val_lt_val (a b : α) : (Ext.val a : Ext α) < .val b ↔ a < b := by
  simp [Ext.lt_def, Ext.less]
theorem Ext.val_le_val (a b : α) : (Ext.val a : Ext α) ≤ .val b ↔ a ≤ b := by
  simp [Ext.le_def, Ext.less]; grind
theorem Ext.negInf_le (a : Ext α) : Ext.negInf ≤ a := by cases a <;> simp [Ext.le_def, Ext.less]
theorem Ext.le_posInf (a : Ext α) : a ≤ Ext.posInf := by cases a <;> simp [Ext.le_def, Ext.less]

end OG.C20

namespace OG.C20
open OG.Gen.C20 (Mark)

variable {α : Type} [LT α] [LE α] [DecidableLT α] [DecidableEq α]
  [Std.IsLinearOrder α] [Std.LawfulOrderLT α]

/-! ### facts about the regenerated `Mark` operations (these break if `mark.go` changes meaning) -/

@[simp] theorem Mark.or_t (m n : Mark) : (m.Or n).canBeTrue = (m.canBeTrue || n.canBeTrue) := rfl
@[simp] theorem Mark.or_f (m n : Mark) : (m.Or n).canBeFalse = (m.canBeFalse && n.canBeFalse) := rfl
@[simp] theorem Mark.and_t (m n : Mark) : (m.And n).canBeTrue = (m.canBeTrue && n.canBeTrue) := rfl
@[simp] theorem Mark.and_f (m n : Mark) : (m.And n).canBeFalse = (m.canBeFalse || n.canBeFalse) := rfl
@[simp] theorem Mark.not_t (m : Mark) : m.Not.canBeTrue = m.canBeFalse := rfl
@[simp] theorem Mark.not_f (m : Mark) : m.Not.canBeFalse = m.canBeTrue := rfl
theorem Mark.complete_t (m : Mark) (h : m.isComplete = true) : m.canBeTrue = true := by
  simp [Mark.isComplete] at h; exact h.2

/-! ### membership -/

/-- a (non-infinite or null) key value as a `FieldRef`: null is `+∞`. -/
def toExt : Option α → Ext α
  | some a => .val a
  | none => .posInf

/-- strict membership of a point in a range. -/
def Range.mem (r : Range α) (x : Ext α) : Prop := r.leftLEQ x = true ∧ r.rightGEQ x = true

/-- membership as the index sees a row value: a null key (`+∞`) also counts as inside a
range whose right end is `+∞` even when that end is excluded. -/
def Range.memW (r : Range α) (x : Ext α) : Prop := r.mem x ∨ (x = .posInf ∧ r.right = .posInf)

theorem Range.leftLEQ_iff (r : Range α) (x : Ext α) :
    r.leftLEQ x = true ↔ (r.left < x ∨ (r.li = true ∧ x = r.left)) := by
  simp [Range.leftLEQ]
theorem Range.rightGEQ_iff (r : Range α) (x : Ext α) :
    r.rightGEQ x = true ↔ (x < r.right ∨ (r.ri = true ∧ x = r.right)) := by
  simp [Range.rightGEQ]

theorem Range.mem_iff (r : Range α) (x : Ext α) :
    r.mem x ↔ (r.left < x ∨ (r.li = true ∧ x = r.left)) ∧ (x < r.right ∨ (r.ri = true ∧ x = r.right)) := by
  simp [Range.mem, Range.leftLEQ_iff, Range.rightGEQ_iff]

/-- a common point makes two ranges intersect. -/
theorem Range.intersects_of_mem (r nr : Range α) (x : Ext α) (h1 : r.mem x) (h2 : nr.mem x) :
    r.intersects nr = true := by
  rw [Range.mem_iff] at h1 h2
  simp only [Range.intersects, Range.rightLQ, Bool.not_eq_true', Bool.or_eq_false_iff,
    Bool.or_eq_true, Bool.and_eq_true, Bool.not_eq_true, Bool.and_eq_false_imp,
    Ext.eqv_iff, ← Bool.not_eq_true, Ext.less_iff, Bool.not_eq_true']
  grind

/-- a range containing another contains its points. -/
theorem Range.mem_of_contains (r nr : Range α) (x : Ext α) (hc : r.contains nr = true) (h2 : nr.mem x) :
    r.mem x := by
  rw [Range.mem_iff] at *
  simp only [Range.contains, Bool.and_eq_true, Range.leftLEQ_iff, Range.rightGEQ_iff] at hc
  grind

end OG.C20

namespace OG.C20
open OG.Gen.C20 (Mark)

variable {α : Type} [LT α] [LE α] [DecidableLT α] [DecidableEq α]
  [Std.IsLinearOrder α] [Std.LawfulOrderLT α]

/-! ### atoms -/

/-- what `turnOpenRangeIntoClosed` needs from the successor / predecessor it uses. -/
structure Disc.Lawful (d : Disc α) : Prop where
  succ_spec : ∀ a b, d.succ a = some b → ∀ x : α, a < x → b ≤ x
  pred_spec : ∀ a b, d.pred a = some b → ∀ x : α, x < a → x ≤ b

/-- the row-level meaning of `column op constant` for a key value (`none` = null, which
satisfies only `!=`). -/
def satAtom (op : CmpOp) (c : α) : Option α → Prop
  | some a =>
    match op with
    | .eq => a = c | .neq => a ≠ c | .lt => a < c | .lte => a ≤ c | .gt => c < a | .gte => c ≤ a
  | none => op = .neq

theorem turnOpen_mem (d : Disc α) (hd : d.Lawful) (r : Range α) (a : α)
    (h : r.mem (.val a)) : (r.turnOpen d).mem (.val a) := by
  rw [Range.mem_iff] at *
  obtain ⟨hl, hr⟩ := h
  unfold Range.turnOpen
  have hs := hd.succ_spec
  have hp := hd.pred_spec
  rcases r with ⟨l, rr, li, ri⟩
  cases li <;> cases ri <;> cases l <;> cases rr <;> simp only [] at hl hr ⊢ <;>
    (try split) <;> (try split) <;> simp_all [Ext.val_lt_val, Ext.val_le_val] <;> grind [Ext.val_lt_val, Ext.val_le_val]

end OG.C20

namespace OG.C20
open OG.Gen.C20 (Mark)

variable {α : Type} [LT α] [LE α] [DecidableLT α] [DecidableEq α]
  [Std.IsLinearOrder α] [Std.LawfulOrderLT α]

theorem Ext.negInf_lt_val (a : α) : (Ext.negInf : Ext α) < .val a := by simp [Ext.lt_def, Ext.less]
theorem Ext.val_lt_posInf (a : α) : (Ext.val a : Ext α) < .posInf := by simp [Ext.lt_def, Ext.less]

theorem Range.mem_li (r : Range α) (x : Ext α) (h : r.mem x) : ({ r with li := true } : Range α).mem x := by
  rw [Range.mem_iff] at *; grind
theorem Range.mem_ri (r : Range α) (x : Ext α) (h : r.mem x) : ({ r with ri := true } : Range α).mem x := by
  rw [Range.mem_iff] at *; grind

theorem createRightBounded_mem (d : Disc α) (hd : d.Lawful) (c a : α) (ri u : Bool)
    (h : a < c ∨ (ri = true ∧ a = c)) : (createRightBounded d (.val c) ri u).mem (.val a) := by
  unfold createRightBounded
  have h0 : (Range.mk .negInf (.val c) u ri : Range α).mem (.val a) := by
    rw [Range.mem_iff]
    refine ⟨Or.inl (Ext.negInf_lt_val a), ?_⟩
    simpa [Ext.val_lt_val] using h
  have h1 := turnOpen_mem d hd _ a h0
  simp only []
  split
  · exact Range.mem_li _ _ h1
  · exact h1

theorem createLeftBounded_mem (d : Disc α) (hd : d.Lawful) (c a : α) (li u : Bool)
    (h : c < a ∨ (li = true ∧ a = c)) : (createLeftBounded d (.val c) li u).mem (.val a) := by
  unfold createLeftBounded
  have h0 : (Range.mk (.val c) .posInf li u : Range α).mem (.val a) := by
    rw [Range.mem_iff]
    refine ⟨?_, Or.inl (Ext.val_lt_posInf a)⟩
    simpa [Ext.val_lt_val] using h
  have h1 := turnOpen_mem d hd _ a h0
  simp only []
  split
  · exact Range.mem_ri _ _ h1
  · exact h1

/-- a satisfied positive atom: the value lies in the atom's range. -/
theorem atomRange_pos (d : Disc α) (hd : d.Lawful) (op : CmpOp) (c : α) (x : Option α)
    (hs : satAtom op c x) (hn : (atomRange d op c).1 = false) :
    ∃ a, x = some a ∧ (atomRange d op c).2.mem (.val a) := by
  cases x with
  | none => cases op <;> simp_all [satAtom, atomRange]
  | some a =>
    refine ⟨a, rfl, ?_⟩
    cases op <;> simp only [atomRange, satAtom] at hs hn ⊢
    · subst hs; rw [Range.mem_iff]; simp [Range.point]
    · simp at hn
    · exact createRightBounded_mem d hd c a false false (Or.inl hs)
    · exact createRightBounded_mem d hd c a true false (by grind)
    · exact createLeftBounded_mem d hd c a false false (Or.inl hs)
    · exact createLeftBounded_mem d hd c a true false (by grind)

/-- soundness of `checkInRangeForRange` for the `canBeTrue` component. -/
theorem checkAtom_sound (d : Disc α) (hd : d.Lawful) (col : Nat) (op : CmpOp) (c : α)
    (rgs : List (Range α)) (x : Option α)
    (hmem : ∀ r, rgs[col]? = some r → r.memW (toExt x))
    (hs : satAtom op c x) : (checkAtom d col op c rgs).canBeTrue = true := by
  unfold checkAtom
  cases hr : rgs[col]? with
  | none => rfl
  | some keyRange =>
    have hm := hmem keyRange hr
    simp only []
    cases hneg : (atomRange d op c).1 with
    | false =>
      obtain ⟨a, rfl, ha⟩ := atomRange_pos d hd op c x hs hneg
      have : keyRange.mem (.val a) := by
        rcases hm with h | h
        · exact h
        · simp [toExt] at h
      have hi := Range.intersects_of_mem _ _ _ ha this
      rcases hab : atomRange d op c with ⟨ng, rg⟩
      simp_all
    | true =>
      have hop : op = .neq := by cases op <;> simp_all [atomRange]
      subst hop
      rcases hab : atomRange d CmpOp.neq c with ⟨ng, rg⟩
      simp only [atomRange] at hab
      obtain ⟨rfl, rfl⟩ := Prod.mk.inj hab
      simp only [if_true, Mark.not_t, Bool.not_eq_true']
      -- the point range [c,c] cannot contain a range that holds x ≠ c
      cases hcn : (Range.point (Ext.val c) : Range α).contains keyRange with
      | false => rfl
      | true =>
        exfalso
        rcases hm with h | ⟨h1, h2⟩
        · have := Range.mem_of_contains _ _ _ hcn h
          rw [Range.mem_iff] at this
          cases x with
          | none => simp [toExt, Range.point, Ext.lt_def, Ext.less] at this
          | some a =>
            simp only [satAtom] at hs
            simp [toExt, Range.point, Ext.val_lt_val] at this
            grind
        · simp only [Range.contains, Bool.and_eq_true, Range.rightGEQ_iff, h2] at hcn
          simp [Range.point, Ext.lt_def, Ext.less] at hcn

end OG.C20

namespace OG.C20
open OG.Gen.C20 (Mark)

variable {α : Type} [LT α] [LE α] [DecidableLT α] [DecidableEq α]
  [Std.IsLinearOrder α] [Std.LawfulOrderLT α]

/-! ### conditions on rectangles -/

/-- row-level satisfaction of a condition by a key tuple (`none` = null). A comparison on a
non-key column (`other`) is over-approximated by `True`: conditions are negation-free, so a
row satisfying the real condition satisfies this one. -/
def sat : Cond α → List (Option α) → Prop
  | .atom col op c, k => ∃ x, k[col]? = some x ∧ satAtom op c x
  | .other, _ => True
  | .and a b, k => sat a k ∧ sat b k
  | .or a b, k => sat a k ∨ sat b k

/-- the key tuple lies in the hyper-rectangle. -/
inductive InRect : List (Option α) → List (Range α) → Prop
  | nil : InRect [] []
  | cons {x r k rgs} : Range.memW r (toExt x) → InRect k rgs → InRect (x :: k) (r :: rgs)

theorem InRect.get {k : List (Option α)} {rgs : List (Range α)} (h : InRect k rgs) :
    ∀ (i : Nat) x r, k[i]? = some x → rgs[i]? = some r → r.memW (toExt x) := by
  induction h with
  | nil => intro i x r h1; simp at h1
  | cons hd _ ih =>
    intro i x r h1 h2
    cases i with
    | zero => simp at h1 h2; subst h1; subst h2; exact hd
    | succ j => simp at h1 h2; exact ih j x r h1 h2

theorem InRect.append {k1 k2 : List (Option α)} {r1 r2 : List (Range α)}
    (h1 : InRect k1 r1) (h2 : InRect k2 r2) : InRect (k1 ++ k2) (r1 ++ r2) := by
  induction h1 with
  | nil => simpa using h2
  | cons hd _ ih => exact InRect.cons hd ih

theorem memW_whole (u : Bool) (x : Option α) : (Range.whole u : Range α).memW (toExt x) := by
  cases x with
  | none => right; simp [toExt, Range.whole]
  | some a =>
    left; rw [Range.mem_iff]
    exact ⟨Or.inl (Ext.negInf_lt_val a), Or.inl (Ext.val_lt_posInf a)⟩

theorem InRect.wholes (ks : List (Option α)) (us : List Bool) (h : us.length = ks.length) :
    InRect ks (us.map Range.whole) := by
  induction ks generalizing us with
  | nil => cases us <;> simp_all <;> exact InRect.nil
  | cons k kt ih =>
    cases us with
    | nil => simp at h
    | cons u ut => exact InRect.cons (memW_whole u k) (ih ut (by simpa using h))

/-- soundness of `CheckInRange` for `canBeTrue`. -/
theorem checkInRange_sound (d : Disc α) (hd : d.Lawful) (c : Cond α) (rgs : List (Range α))
    (k : List (Option α)) (hk : InRect k rgs) (hs : sat c k) :
    (checkInRange d c rgs).canBeTrue = true := by
  induction c with
  | atom col op cst =>
    obtain ⟨x, hx, hsx⟩ := hs
    exact checkAtom_sound d hd col op cst rgs x (fun r hr => hk.get col x r hx hr) hsx
  | other => rfl
  | and a b iha ihb => simp [checkInRange, iha hs.1, ihb hs.2]
  | or a b iha ihb =>
    rcases hs with h | h
    · simp [checkInRange, iha h]
    · simp [checkInRange, ihb h]

/-- lexicographic `≤` on mark / key tuples. -/
def lexLE : List (Ext α) → List (Ext α) → Prop
  | [], _ => True
  | _ :: _, [] => False
  | a :: as, b :: bs => a < b ∨ (a = b ∧ lexLE as bs)

theorem toExt_ne_negInf (x : Option α) : toExt x ≠ (Ext.negInf : Ext α) := by cases x <;> simp [toExt]

end OG.C20

namespace OG.C20
open OG.Gen.C20 (Mark)

variable {α : Type} [LT α] [LE α] [DecidableLT α] [DecidableEq α]
  [Std.IsLinearOrder α] [Std.LawfulOrderLT α]

theorem InRect.snoc {kp : List (Option α)} {pre : List (Range α)} (h : InRect kp pre)
    {x : Option α} {r : Range α} (hx : r.memW (toExt x)) : InRect (kp ++ [x]) (pre ++ [r]) :=
  h.append (InRect.cons hx InRect.nil)

theorem memW_point (x : Option α) : (Range.point (toExt x) : Range α).memW (toExt x) := by
  left; rw [Range.mem_iff]; simp [Range.point]

theorem memW_closed (l r : Ext α) (x : Option α) (h1 : l < toExt x ∨ toExt x = l)
    (h2 : toExt x < r ∨ toExt x = r) : (Range.mk l r true true).memW (toExt x) := by
  left; rw [Range.mem_iff]; simp; exact ⟨h1, h2⟩

theorem memW_open (l r : Ext α) (x : Option α) (h1 : l < toExt x) (h2 : toExt x < r) :
    (Range.mk l r false false).memW (toExt x) := by
  left; rw [Range.mem_iff]; simp; exact ⟨h1, h2⟩

/-- membership in `createLeftBounded l li u` for a row value at or right of `l`. -/
theorem memW_leftBounded (d : Disc α) (hd : d.Lawful) (l : Ext α) (li u : Bool) (x : Option α)
    (h : l < toExt x ∨ (li = true ∧ toExt x = l)) : (createLeftBounded d l li u).memW (toExt x) := by
  cases x with
  | none =>
    -- null row value: +∞; the right end of a left-bounded range is +∞
    right
    refine ⟨rfl, ?_⟩
    unfold createLeftBounded Range.turnOpen
    simp only []
    cases li <;> cases l <;> simp <;> (repeat' split) <;> simp_all
  | some a =>
    cases l with
    | negInf =>
      left
      unfold createLeftBounded Range.turnOpen
      simp only []
      rw [Range.mem_iff]
      cases li <;> simp <;> (repeat' split) <;> simp_all [toExt, Ext.negInf_lt_val, Ext.val_lt_posInf]
    | posInf =>
      exfalso
      rcases h with h | h
      · simp [toExt, Ext.lt_def, Ext.less] at h
      · simp [toExt] at h
    | val c =>
      left
      apply createLeftBounded_mem d hd c a li u
      simpa [toExt, Ext.val_lt_val] using h

theorem memW_rightBounded (d : Disc α) (hd : d.Lawful) (r : Ext α) (ri u : Bool) (x : Option α)
    (h : toExt x < r ∨ (ri = true ∧ toExt x = r)) : (createRightBounded d r ri u).memW (toExt x) := by
  cases x with
  | none =>
    rcases h with h | h
    · exfalso; cases r <;> simp [toExt, Ext.lt_def, Ext.less] at h
    · -- x = +∞ = r, ri
      obtain ⟨rfl, h2⟩ := h
      right
      refine ⟨rfl, ?_⟩
      unfold createRightBounded Range.turnOpen
      simp [← h2, toExt]
  | some a =>
    cases r with
    | posInf =>
      left
      unfold createRightBounded Range.turnOpen
      simp only []
      rw [Range.mem_iff]
      cases ri <;> simp <;> (repeat' split) <;> simp_all [toExt, Ext.negInf_lt_val, Ext.val_lt_posInf]
    | negInf =>
      exfalso
      rcases h with h | h
      · simp [toExt, Ext.lt_def, Ext.less] at h
      · simp [toExt] at h
    | val c =>
      left
      apply createRightBounded_mem d hd c a ri u
      simpa [toExt, Ext.val_lt_val] using h

end OG.C20
