/-
C01 — the sync discipline of the write path, and what it buys under the weaker file-system
model "after a power loss only data covered by a completed `Sync` survives" (the process-kill
model of `OG.C01.Props` lets every completed call survive).

What the code does (regenerated facts, `OG.C01.Facts`): `LogWriter.Write` = `currentFd.Write`, then
`trySync`; `trySync` syncs before returning exactly when `wal-sync-interval` is 0 (translated:
`trySyncMode`), otherwise a background task syncs later; the acknowledgement follows
`WAL.Write`. A data file is written through buffered writers, `tsspFileWriter.Close` ends with
`fd.Sync`, the rename into place comes after it; the old WAL files are synced and closed at the
switch and removed only after the commit.

The step relations below encode exactly that order; the correspondence harness checks it on the
observed VFS trace of every run (a WAL append acknowledged before its `Sync` under interval 0, or
a data file renamed before its `Sync`, is reported).
-/
import OG.Generated.C01

namespace OG.C01
open OG.Gen.C01

/-- the WAL as the file system holds it: records appended (partition, batch id) in issue order,
those covered by a completed `Sync`, the batches acknowledged, and the write in progress
(partition, id, has its own `Sync` returned). -/
structure SState where
  recs : List (Nat × Nat)
  synced : List (Nat × Nat)
  acked : List Nat
  pend : Option (Nat × Nat × Bool)
deriving Repr

def SState.init : SState := ⟨[], [], [], none⟩

/-- `Sync` of partition `p`'s file: everything appended to it so far becomes durable. -/
def syncP (s : SState) (p : Nat) : List (Nat × Nat) :=
  s.recs.filter fun r => r.1 == p || s.synced.contains r

/-- one writer at a time (`shard.writeRows` → `WAL.Write` → `LogWriter.Write`): append, then — only
when `trySyncMode` says so — `Sync`, then the acknowledgement; a background `Sync` of any partition
(the interval task, or `closeCurrentFile` at a switch) may happen at any moment. -/
inductive SStep (si : Int) : SState → SState → Prop
  | append (s : SState) (p id : Nat) (h : s.pend = none) :
      SStep si s { s with recs := s.recs ++ [(p, id)], pend := some (p, id, false) }
  | syncW (s : SState) (p id : Nat) (h : s.pend = some (p, id, false)) (hm : trySyncMode si = 0) :
      SStep si s { s with synced := syncP s p, pend := some (p, id, true) }
  | ack (s : SState) (p id : Nat) (b : Bool) (h : s.pend = some (p, id, b))
      (hb : trySyncMode si = 0 → b = true) :
      SStep si s { s with acked := s.acked ++ [id], pend := none }
  | bgSync (s : SState) (p : Nat) : SStep si s { s with synced := syncP s p }

inductive SReach (si : Int) : SState → Prop
  | init : SReach si SState.init
  | step {s t : SState} : SReach si s → SStep si s t → SReach si t

/-- after a process kill every appended record is there; after a power loss only the synced ones. -/
def SState.killWal (s : SState) : List (Nat × Nat) := s.recs
def SState.powerLossWal (s : SState) : List (Nat × Nat) := s.synced

theorem mem_syncP (s : SState) (p : Nat) (r : Nat × Nat) :
    r ∈ syncP s p ↔ r ∈ s.recs ∧ (r.1 = p ∨ r ∈ s.synced) := by
  simp [syncP, List.mem_filter]

/-- the invariant behind the three theorems. -/
structure SInv (si : Int) (s : SState) : Prop where
  sub : ∀ r ∈ s.synced, r ∈ s.recs
  acked : trySyncMode si = 0 → ∀ id ∈ s.acked, ∃ p, (p, id) ∈ s.synced
  pendSynced : trySyncMode si = 0 → ∀ p id, s.pend = some (p, id, true) → (p, id) ∈ s.synced
  pendRec : ∀ p id b, s.pend = some (p, id, b) → (p, id) ∈ s.recs

theorem sinv_step (si : Int) {s t : SState} (hi : SInv si s) (hst : SStep si s t) : SInv si t := by
  cases hst with
  | append p id h =>
    refine ⟨?_, ?_, ?_, ?_⟩
    · intro r hr; simp; left; exact hi.sub r hr
    · intro hm id' hid; exact hi.acked hm id' hid
    · intro hm p' id' hp; simp at hp
    · intro p' id' b hp
      simp only [Option.some.injEq, Prod.mk.injEq] at hp
      obtain ⟨rfl, rfl, _⟩ := hp
      simp
  | syncW p id h hm =>
    refine ⟨?_, ?_, ?_, ?_⟩
    · intro r hr; exact ((mem_syncP s p r).1 hr).1
    · intro hm' id' hid
      obtain ⟨q, hq⟩ := hi.acked hm' id' hid
      exact ⟨q, (mem_syncP s p _).2 ⟨hi.sub _ hq, Or.inr hq⟩⟩
    · intro _ p' id' hp
      simp only [Option.some.injEq, Prod.mk.injEq] at hp
      obtain ⟨rfl, rfl, _⟩ := hp
      exact (mem_syncP s p _).2 ⟨hi.pendRec p id false h, Or.inl rfl⟩
    · intro p' id' b hp
      simp only [Option.some.injEq, Prod.mk.injEq] at hp
      obtain ⟨rfl, rfl, _⟩ := hp
      exact hi.pendRec p id false h
  | ack p id b h hb =>
    refine ⟨hi.sub, ?_, ?_, ?_⟩
    · intro hm id' hid
      simp only [List.mem_append, List.mem_singleton] at hid
      rcases hid with hid | rfl
      · exact hi.acked hm id' hid
      · have hb' := hb hm
        subst hb'
        exact ⟨p, hi.pendSynced hm p id' h⟩
    · intro _ p' id' hp; simp at hp
    · intro p' id' b' hp; simp at hp
  | bgSync p =>
    refine ⟨?_, ?_, ?_, ?_⟩
    · intro r hr; exact ((mem_syncP s p r).1 hr).1
    · intro hm id' hid
      obtain ⟨q, hq⟩ := hi.acked hm id' hid
      exact ⟨q, (mem_syncP s p _).2 ⟨hi.sub _ hq, Or.inr hq⟩⟩
    · intro hm p' id' hp
      have := hi.pendSynced hm p' id' hp
      exact (mem_syncP s p _).2 ⟨hi.sub _ this, Or.inr this⟩
    · intro p' id' b hp; exact hi.pendRec p' id' b hp

theorem sreach_inv (si : Int) {s : SState} (hr : SReach si s) : SInv si s := by
  induction hr with
  | init => exact ⟨by simp [SState.init], by simp [SState.init], by simp [SState.init], by simp [SState.init]⟩
  | step _ hst ih => exact sinv_step si ih hst

/-- **power loss, `wal-sync-interval = 0`**: at every instant every acknowledged batch's WAL record
is covered by a completed `Sync`: it survives even if only synced data survives. -/
theorem sync0_acked_durable (si : Int) (h0 : trySyncMode si = 0) {s : SState} (hr : SReach si s) :
    ∀ id ∈ s.acked, ∃ p, (p, id) ∈ s.powerLossWal :=
  (sreach_inv si hr).acked h0

/-- the configuration under which that holds is exactly interval 0. -/
theorem trySyncMode_zero_iff (si : Int) : trySyncMode si = 0 ↔ si = 0 := by
  unfold trySyncMode
  by_cases h : si = 0 <;> simp [h]

/-- **with a positive interval (the default is 100 ms) the statement is false**: a batch is
acknowledged while its record is not yet synced; a power loss in that window loses it. (The
property C01 quantifies over process kills, where it survives.) -/
theorem async_acked_not_durable :
    ∃ s : SState, SReach 100000000 s ∧ 7 ∈ s.acked ∧ (∀ p, (p, 7) ∉ s.powerLossWal) ∧ (0, 7) ∈ s.killWal := by
  refine ⟨⟨[(0, 7)], [], [7], none⟩, ?_, by simp, by simp [SState.powerLossWal], by simp [SState.killWal]⟩
  have h1 : SReach 100000000 ⟨[(0, 7)], [], [], some (0, 7, false)⟩ :=
    SReach.step SReach.init (SStep.append SState.init 0 7 rfl)
  exact SReach.step h1 (SStep.ack _ 0 7 false rfl (by decide))

/-- **under interval 0 a power loss is a process kill one step earlier**: what survives is either
everything appended, or everything but the record of the write in progress (not acknowledged
yet) — and that is the WAL a kill right before that append leaves, with the same acknowledged
batches. So every statement proved for all kill states applies to every power-loss state. -/
def PLInv (si : Int) (s : SState) : Prop :=
  s.synced = s.recs ∨
  ∃ p id, s.pend = some (p, id, false) ∧ s.recs = s.synced ++ [(p, id)] ∧
    ∃ s', SReach si s' ∧ s'.recs = s.synced ∧ s'.synced = s.synced ∧ s'.acked = s.acked ∧ s'.pend = none

theorem filter_all {α : Type} (l : List α) (f : α → Bool) (h : ∀ x ∈ l, f x = true) : l.filter f = l :=
  List.filter_eq_self.2 h

theorem syncP_idle (s : SState) (p : Nat) (h : s.synced = s.recs) : syncP s p = s.recs := by
  unfold syncP
  apply filter_all
  intro r hr
  simp [h, hr]

theorem syncP_own (s : SState) (p id : Nat) (h : s.recs = s.synced ++ [(p, id)]) : syncP s p = s.recs := by
  unfold syncP
  apply filter_all
  intro r hr
  rw [h] at hr
  simp only [List.mem_append, List.mem_singleton] at hr
  rcases hr with hr | rfl
  · simp [hr]
  · simp

theorem plinv_step (si : Int) (h0 : trySyncMode si = 0) {s t : SState} (hr : SReach si s)
    (hi : PLInv si s) (hst : SStep si s t) : PLInv si t := by
  cases hst with
  | append p id h =>
    rcases hi with hs | ⟨p', id', hp, _⟩
    · right
      exact ⟨p, id, rfl, by simp [hs], s, hr, hs.symm, rfl, rfl, h⟩
    · rw [h] at hp; cases hp
  | syncW p id h hm =>
    left
    rcases hi with hs | ⟨p', id', hp, hrec, _⟩
    · exact syncP_idle s p hs
    · rw [h] at hp
      simp only [Option.some.injEq, Prod.mk.injEq] at hp
      obtain ⟨rfl, rfl, _⟩ := hp
      exact syncP_own s p id hrec
  | ack p id b h hb =>
    have hb' := hb h0
    subst hb'
    rcases hi with hs | ⟨p', id', hp, _⟩
    · left; exact hs
    · rw [h] at hp; simp at hp
  | bgSync p =>
    rcases hi with hs | ⟨p', id', hp, hrec, s', hs', h1, h2, h3, h4⟩
    · left; exact syncP_idle s p hs
    · by_cases hpp : p' = p
      · subst hpp; left; exact syncP_own s p' id' hrec
      · by_cases hc : (p', id') ∈ s.synced
        · left
          show syncP s p = s.recs
          unfold syncP
          apply filter_all
          intro r hr
          rw [hrec] at hr
          simp only [List.mem_append, List.mem_singleton] at hr
          rcases hr with hr | rfl
          · simp [hr]
          · simp [hc]
        · right
          have hsy : syncP s p = s.synced := by
            unfold syncP
            rw [hrec, List.filter_append, filter_all s.synced _ (by intro r hr; simp [hr])]
            simp [hpp, hc]
          exact ⟨p', id', hp, by rw [hsy]; exact hrec, s', hs', by rw [hsy]; exact h1, by rw [hsy]; exact h2, h3, h4⟩

theorem sreach_plinv (si : Int) (h0 : trySyncMode si = 0) {s : SState} (hr : SReach si s) : PLInv si s := by
  induction hr with
  | init => left; rfl
  | step hs hst ih => exact plinv_step si h0 hs ih hst

/-- the theorem: what a power loss leaves of the WAL is what a process kill leaves in a reachable
state with the same acknowledged batches. -/
theorem powerLoss_is_kill_of_reachable (si : Int) (h0 : trySyncMode si = 0) {s : SState} (hr : SReach si s) :
    ∃ s', SReach si s' ∧ s'.killWal = s.powerLossWal ∧ s'.acked = s.acked := by
  rcases sreach_plinv si h0 hr with hs | ⟨p, id, _, _, s', hs', h1, _, h3, _⟩
  · exact ⟨s, hr, hs.symm, rfl⟩
  · exact ⟨s', hs', h1, h3⟩

/-! ### data files: written, synced, then renamed into place; WAL files removed after that -/

/-- a data file of a flush: bytes written, bytes covered by `Sync`, visible under its final name. -/
structure DFile where
  len : Nat
  synced : Nat
  visible : Bool
deriving Repr, DecidableEq

/-- `tsspFileWriter`: writes, `Close` = flush the buffered writers then `fd.Sync`, and only a closed
file is handed to `RenameTmpFiles`. -/
inductive DStep : DFile → DFile → Prop
  | write (f : DFile) (n : Nat) (h : f.visible = false) : DStep f { f with len := f.len + n }
  | sync (f : DFile) : DStep f { f with synced := f.len }
  | rename (f : DFile) (h : f.synced = f.len) : DStep f { f with visible := true }

inductive DReach : DFile → Prop
  | init : DReach ⟨0, 0, false⟩
  | step {f g : DFile} : DReach f → DStep f g → DReach g

/-- **a data file that is visible is completely synced**: a power loss never leaves a committed
file with missing content (and the WAL files of its generation are removed only afterwards —
`PStep.remove` requires every file of the generation to be committed). -/
theorem visible_is_synced {f : DFile} (h : DReach f) : f.visible = true → f.synced = f.len := by
  induction h with
  | init => intro h; cases h
  | step _ hst ih =>
    cases hst with
    | write n hv => intro h; simp [hv] at h
    | sync => intro _; rfl
    | rename hs => intro _; exact hs

example : DReach ⟨10, 10, true⟩ :=
  ((DReach.init.step (DStep.write _ 10 rfl)).step (DStep.sync _)).step (DStep.rename _ rfl)

end OG.C01
