/-
C01 — helper lemmas: histories as cell lists, shadowed segments, generations.
-/
import OG.C01.Model
import OG.C02.Refine

namespace OG.C01
open OG.C02

theorem histOf_nil : histOf [] = [] := rfl

theorem histOf_append (xs ys : List (List Row)) : histOf (xs ++ ys) = histOf ys ++ histOf xs := by
  simp [histOf, List.reverse_append, List.map_append]

theorem histOf_snoc (xs : List (List Row)) (b : List Row) : histOf (xs ++ [b]) = batchCells b ++ histOf xs := by
  simp [histOf_append, histOf]

theorem histOf_take_drop (bs : List (List Row)) (k : Nat) :
    histOf bs = histOf (bs.drop k) ++ histOf (bs.take k) := by
  rw [← histOf_append, List.take_append_drop]

/-- keys of a cell list. -/
def KeysIn (m x : List Cell) : Prop := ∀ c ∈ m, ∃ d ∈ x, d.key = c.key

theorem KeysIn.refl (x : List Cell) : KeysIn x x := fun c hc => ⟨c, hc, rfl⟩

theorem KeysIn.mono {m x y : List Cell} (h : KeysIn m x) (hxy : ∀ c ∈ x, c ∈ y) : KeysIn m y :=
  fun c hc => let ⟨d, hd, hk⟩ := h c hc; ⟨d, hxy d hd, hk⟩

theorem KeysIn.append {m1 m2 x : List Cell} (h1 : KeysIn m1 x) (h2 : KeysIn m2 x) : KeysIn (m1 ++ m2) x := by
  intro c hc
  rcases List.mem_append.1 hc with h | h
  · exact h1 c h
  · exact h2 c h

theorem KeysIn.filter {m x : List Cell} (p : Cell → Bool) (h : KeysIn m x) : KeysIn (m.filter p) x :=
  fun c hc => h c (List.mem_filter.1 hc).1

/-- a segment whose keys all occur earlier (in `x`) does not change any lookup. -/
theorem equiv_drop_shadowed (x a m c : List Cell) (h : KeysIn m x) :
    Equiv (x ++ a ++ m ++ c) (x ++ a ++ c) := by
  intro k
  simp only [lookup_append, List.append_assoc]
  cases hx : lookup k x with
  | some v => rfl
  | none =>
    have hm : lookup k m = none := by
      apply lookup_none_of_no_key
      intro cc hcc hk
      obtain ⟨d, hd, hdk⟩ := h cc hcc
      have : lookup d.key x ≠ none := by
        obtain ⟨v, hv⟩ := lookup_isSome_of_mem d x hd
        simp [hv]
      rw [hdk, hk] at this
      exact this hx
    simp [hm]

end OG.C01
