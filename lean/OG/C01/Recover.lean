/-
C01 — recovery is exact on every durable state that satisfies `safeDurable`.
-/
import OG.C01.Refine

namespace OG.C01
open OG.C02

def visO (d : Durable) (gs : List Gen) : List Cell :=
  (gs.map fun g => visPart d g.no false g.ooo).flatten
def visR (d : Durable) (gs : List Gen) : List Cell :=
  (gs.map fun g => visPart d g.no true g.ordered).flatten

theorem fileCells_eq (h : Hist) (d : Durable) : fileCells h d = visO d h.gens ++ visR d h.gens := rfl

theorem visO_cons (d : Durable) (g : Gen) (gs : List Gen) :
    visO d (g :: gs) = visPart d g.no false g.ooo ++ visO d gs := by
  simp [visO]

theorem visR_cons (d : Durable) (g : Gen) (gs : List Gen) :
    visR d (g :: gs) = visPart d g.no true g.ordered ++ visR d gs := by
  simp [visR]

/-- when every generation is completely visible the visible cells are all the cells. -/
theorem vis_full (d : Durable) (gs : List Gen) (hf : ∀ g ∈ gs, fullGen d g = true) :
    visO d gs = (gs.map (·.ooo)).flatten ∧ visR d gs = (gs.map (·.ordered)).flatten := by
  induction gs with
  | nil => simp [visO, visR]
  | cons g gs ih =>
    have ih' := ih (fun x hx => hf x (by simp [hx]))
    have hg := hf g (by simp)
    simp only [fullGen, Bool.and_eq_true, List.all_eq_true] at hg
    constructor
    · rw [visO_cons, ih'.1]
      simp only [visPart, List.map_cons, List.flatten_cons]
      rw [List.filter_eq_self.2 hg.2]
    · rw [visR_cons, ih'.2]
      simp only [visPart, List.map_cons, List.flatten_cons]
      rw [List.filter_eq_self.2 hg.1]

theorem visO_cons_keys (d : Durable) (g : Gen) (gs : List Gen) :
    ∃ o, visO d (g :: gs) = o ++ visO d gs ∧ (∀ c ∈ o, c ∈ g.ooo) :=
  ⟨visPart d g.no false g.ooo, visO_cons d g gs, fun c hc => (List.mem_filter.1 hc).1⟩

theorem visR_cons_keys (d : Durable) (g : Gen) (gs : List Gen) :
    ∃ o, visR d (g :: gs) = o ++ visR d gs ∧ (∀ c ∈ o, c ∈ g.ordered) :=
  ⟨visPart d g.no true g.ordered, visR_cons d g gs, fun c hc => (List.mem_filter.1 hc).1⟩

/-- cells of the batches `[a, b)` occur among the cells of the batches `[w, m)` when
`w ≤ a` and `b ≤ m`. -/
theorem mem_histOf_sub (B : List (List Row)) (w a b m : Nat) (h1 : w ≤ a) (h2 : b ≤ m) (c : Cell)
    (hc : c ∈ histOf ((B.take b).drop a)) : c ∈ histOf ((B.take m).drop w) := by
  simp only [histOf, List.mem_flatten, List.mem_map, List.mem_reverse] at hc ⊢
  obtain ⟨l, ⟨bt, hbt, rfl⟩, hcl⟩ := hc
  refine ⟨_, ⟨bt, ?_, rfl⟩, hcl⟩
  -- bt is the i-th batch for some a ≤ i < b
  obtain ⟨i, hi, rfl⟩ := List.mem_iff_getElem.1 hbt
  simp only [List.length_drop, List.length_take] at hi
  rw [List.getElem_drop, List.getElem_take]
  have hlt : a + i < B.length := by omega
  apply List.mem_iff_getElem.2
  refine ⟨a + i - w, ?_, ?_⟩
  · simp only [List.length_drop, List.length_take]; omega
  · rw [List.getElem_drop, List.getElem_take]
    congr 1; omega

/-- the core of recovery: replaying the batches `[w, m)` over the files. -/
theorem replay_over_files (B : List (List Row)) (d : Durable) (w m : Nat) (hm : m ≤ B.length) :
    ∀ (gs : List Gen) (top : Nat), GensOK B gs top → w ≤ top → top ≤ m →
      (∀ g ∈ gs, g.hi ≤ m ∧ (w ≤ g.lo ∨ fullGen d g = true)) →
      Equiv (histOf ((B.take m).drop w) ++ visO d gs ++ visR d gs) (histOf (B.take m)) := by
  intro gs
  induction gs with
  | nil =>
    intro top hg hw _ _
    simp only [GensOK] at hg
    have : w = 0 := by omega
    subst this
    simp [visO, visR, Equiv]
  | cons g gs ih =>
    intro top hg hw htop hall
    obtain ⟨h1, h2, h3, h4, h5, h6⟩ := hg
    have hgm := (hall g (by simp)).1
    by_cases hlo : w ≤ g.lo
    · -- the whole generation is replayed: its files are shadowed
      obtain ⟨o, ho, hok⟩ := visO_cons_keys d g gs
      obtain ⟨r, hr, hrk⟩ := visR_cons_keys d g gs
      have hsh : ∀ xs : List Cell, (∀ c ∈ xs, c ∈ g.ooo ++ g.ordered) →
          KeysIn xs (histOf ((B.take m).drop w)) := by
        intro xs hxs c hc
        obtain ⟨e, he, hek⟩ := h5 c (hxs c hc)
        exact ⟨e, mem_histOf_sub B w g.lo g.hi m hlo hgm e he, hek⟩
      have ih' := ih g.lo h6 hlo (by omega) (fun x hx => hall x (by simp [hx]))
      rw [ho, hr]
      have e1 : Equiv (histOf ((B.take m).drop w) ++ (o ++ visO d gs) ++ (r ++ visR d gs))
          (histOf ((B.take m).drop w) ++ visO d gs ++ (r ++ visR d gs)) := by
        have := equiv_drop_shadowed (histOf ((B.take m).drop w)) [] o (visO d gs ++ (r ++ visR d gs))
          (hsh o (fun c hc => by simp [hok c hc]))
        simpa [List.append_assoc] using this
      have e2 : Equiv (histOf ((B.take m).drop w) ++ visO d gs ++ (r ++ visR d gs))
          (histOf ((B.take m).drop w) ++ visO d gs ++ visR d gs) := by
        have := equiv_drop_shadowed (histOf ((B.take m).drop w)) (visO d gs) r (visR d gs)
          (hsh r (fun c hc => by simp [hrk c hc]))
        simpa [List.append_assoc] using this
      exact (e1.trans e2).trans ih'
    · -- this generation and every older one is completely visible
      have hfull : ∀ x ∈ g :: gs, fullGen d x = true := by
        -- older generations start even lower
        have hlow : ∀ (gs' : List Gen) (t : Nat), GensOK B gs' t → t ≤ g.lo → ∀ x ∈ gs', x.lo < w := by
          intro gs'
          induction gs' with
          | nil => intro _ _ _ x hx; simp at hx
          | cons y ys ihy =>
            intro t hy ht x hx
            obtain ⟨y1, y2, _, _, _, y6⟩ := hy
            simp only [List.mem_cons] at hx
            rcases hx with rfl | hx
            · omega
            · exact ihy y.lo y6 (by omega) x hx
        intro x hx
        simp only [List.mem_cons] at hx
        rcases hx with rfl | hx
        · rcases (hall x (by simp)).2 with h | h
          · omega
          · exact h
        · have := hlow gs g.lo h6 (Nat.le_refl _) x hx
          rcases (hall x (by simp [hx])).2 with h | h
          · omega
          · exact h
      obtain ⟨eo, er⟩ := vis_full d (g :: gs) hfull
      have hfiles : Equiv (visO d (g :: gs) ++ visR d (g :: gs)) (histOf (B.take g.hi)) := by
        rw [eo, er]; exact h4
      -- histOf (B.take hi) = histOf (B[w,hi)) ++ histOf (B.take w), the first part is shadowed
      have hsplit : histOf (B.take g.hi) = histOf ((B.take g.hi).drop w) ++ histOf (B.take w) := by
        rw [histOf_take_drop (B.take g.hi) w, List.take_take, Nat.min_eq_left (by omega)]
      have hmsplit : histOf (B.take m) = histOf ((B.take m).drop w) ++ histOf (B.take w) := by
        rw [histOf_take_drop (B.take m) w, List.take_take, Nat.min_eq_left (by omega)]
      have e1 : Equiv (histOf ((B.take m).drop w) ++ visO d (g :: gs) ++ visR d (g :: gs))
          (histOf ((B.take m).drop w) ++ histOf (B.take g.hi)) := by
        rw [List.append_assoc]
        exact Equiv.append_left _ hfiles
      have e2 : Equiv (histOf ((B.take m).drop w) ++ histOf (B.take g.hi))
          (histOf ((B.take m).drop w) ++ histOf (B.take w)) := by
        rw [hsplit]
        have := equiv_drop_shadowed (histOf ((B.take m).drop w)) [] (histOf ((B.take g.hi).drop w))
          (histOf (B.take w)) (fun c hc => ⟨c, mem_histOf_sub B w w g.hi m (Nat.le_refl _) hgm c hc, rfl⟩)
        simpa [List.append_assoc] using this
      rw [hmsplit]
      exact e1.trans e2

end OG.C01
