import OG.C01.Driver
def main : IO Unit := OG.C01.main
