/-
C01 — line-protocol driver (core only).
  open <i> / parts <n> / write … / flush        (as C02)               → ok / ack
  crash at=<k> vis=<g>:<o|u>:<mst>,… wal=<p>:<id>.<id>|… torn=<id|->   → rows …
-/
import OG.C01.Model
import OG.C02.Driver

namespace OG.C01
open OG.C02

def parseVis (s : String) : Option (List (Nat × Bool × Nat)) :=
  if s == "" then some [] else
  (s.splitOn ",").mapM fun x =>
    match x.splitOn ":" with
    | [g, k, m] => do
      let g ← g.toNat?
      let m ← m.toNat?
      if k == "o" then some (g, true, m) else if k == "u" then some (g, false, m) else none
    | _ => none

def parseWal (s : String) : Option (List (Nat × Nat)) :=
  if s == "" then some [] else do
  let parts ← (s.splitOn "|").mapM fun x =>
    match x.splitOn ":" with
    | [p, ids] => do
      let p ← p.toNat?
      let ids ← if ids == "" then some [] else (ids.splitOn ".").mapM (·.toNat?)
      some (ids.map fun i => (p, i))
    | _ => none
  some parts.flatten

def stripPrefix (pre s : String) : Option String :=
  if s.startsWith pre then some (s.drop pre.length).toString else none

/-- driver state: the history so far and a snapshot of it after every history op, so that a
crash line is answered against the history as it was when the image was taken (`at=<k>` = number
of write / flush lines issued before). -/
structure DState where
  h : Hist
  snaps : Array Hist

def DState.push (s : DState) (h : Hist) : DState := ⟨h, s.snaps.push h⟩

def step (s : DState) (line : String) : DState × String :=
  let h := s.h
  match (line.trimAscii.toString.splitOn " ").filter (· ≠ "") with
  | ["open", _] => (⟨Hist.init 1, #[Hist.init 1]⟩, "ok")
  | ["parts", n] =>
    match n.toNat? with
    | some k =>
      if k = 0 then (s, "bad-op")
      else
        let h' := { h with st := { h.st with nParts := k } }
        (⟨h', #[h']⟩, "ok")
    | none => (s, "bad-op")
  | ["write", rows] =>
    match (rows.splitOn ";").mapM parseRow with
    | some b => (s.push (h.write b), "ack")
    | none => (s, "bad-op")
  | ["flush"] => (s.push h.flush, "ok")
  | ["crash", at_, vis, wal, _torn] =>
    match stripPrefix "at=" at_, stripPrefix "vis=" vis, stripPrefix "wal=" wal with
    | some k, some v, some w =>
      match k.toNat?, parseVis v, parseWal w with
      | some k, some v, some w =>
        match s.snaps[k]? with
        | some hk =>
          let d : Durable := ⟨v, w⟩
          (s, showRows (recoveredRead hk d ["fb", "ff", "fi", "fs"])
            ++ (if safeDurable hk d then "" else " window"))
        | none => (s, "bad-op")
      | _, _, _ => (s, "bad-op")
    | _, _, _ => (s, "bad-op")
  | _ => (s, "bad-op")

partial def loop (i : IO.FS.Stream) (o : IO.FS.Stream) (s : DState) : IO Unit := do
  let line ← i.getLine
  if line.isEmpty then return ()
  let (s', out) := step s line
  o.putStrLn out
  loop i o s'

def main : IO Unit := do
  loop (← IO.getStdin) (← IO.getStdout) ⟨Hist.init 1, #[Hist.init 1]⟩

end OG.C01
