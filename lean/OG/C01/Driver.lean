/-
C01 — line-protocol driver (core only).
  open <i> / parts <n> / write … / flush        (as C02)               → ok / ack
  crash vis=<g>:<o|u>,… wal=<p>:<id>.<id>|… torn=<id|->                → rows …
-/
import OG.C01.Model
import OG.C02.Driver

namespace OG.C01
open OG.C02

def parseVis (s : String) : Option (List (Nat × Bool)) :=
  if s == "" then some [] else
  (s.splitOn ",").mapM fun x =>
    match x.splitOn ":" with
    | [g, k] => do
      let g ← g.toNat?
      if k == "o" then some (g, true) else if k == "u" then some (g, false) else none
    | _ => none

def parseWal (s : String) : Option (List (Nat × Nat)) :=
  if s == "" then some [] else do
  let parts ← (s.splitOn "|").mapM fun x =>
    match x.splitOn ":" with
    | [p, ids] => do
      let p ← p.toNat?
      let ids ← if ids == "" then some [] else (ids.splitOn ".").mapM (·.toNat?)
      some (ids.map fun i => (p, i))
    | _ => none
  some parts.flatten

def stripPrefix (pre s : String) : Option String :=
  if s.startsWith pre then some (s.drop pre.length).toString else none

def step (h : Hist) (line : String) : Hist × String :=
  match (line.trimAscii.toString.splitOn " ").filter (· ≠ "") with
  | ["open", _] => (Hist.init 1, "ok")
  | ["parts", n] =>
    match n.toNat? with
    | some k => if k = 0 then (h, "bad-op") else ({ h with st := { h.st with nParts := k } }, "ok")
    | none => (h, "bad-op")
  | ["write", rows] =>
    match (rows.splitOn ";").mapM parseRow with
    | some b => (h.write b, "ack")
    | none => (h, "bad-op")
  | ["flush"] => (h.flush, "ok")
  | ["crash", vis, wal, _torn] =>
    match stripPrefix "vis=" vis, stripPrefix "wal=" wal with
    | some v, some w =>
      match parseVis v, parseWal w with
      | some v, some w => (h, showRows (recoveredRead h ⟨v, w⟩ ["fb", "ff", "fi", "fs"]))
      | _, _ => (h, "bad-op")
    | _, _ => (h, "bad-op")
  | _ => (h, "bad-op")

partial def loop (i : IO.FS.Stream) (o : IO.FS.Stream) (h : Hist) : IO Unit := do
  let line ← i.getLine
  if line.isEmpty then return ()
  let (h', out) := step h line
  o.putStrLn out
  loop i o h'

def main : IO Unit := do
  loop (← IO.getStdin) (← IO.getStdout) (Hist.init 1)

end OG.C01
