/-
C01 — invariant of the history model: what the data files of every generation stand for.
-/
import OG.C01.Lemmas

namespace OG.C01
open OG.C02

def gensCells (gs : List Gen) : List Cell := (gs.map (·.ooo)).flatten ++ (gs.map (·.ordered)).flatten

/-- generations (newest first) cut `[0, top)` into contiguous batch ranges; the files of every
older suffix read like the history up to that suffix's upper end; the cells of one
generation's files come from that generation's batches. -/
def GensOK (B : List (List Row)) : List Gen → Nat → Prop
  | [], top => top = 0
  | g :: gs, top => g.hi = top ∧ g.lo ≤ g.hi ∧ g.hi ≤ B.length ∧
      Equiv (gensCells (g :: gs)) (histOf (B.take g.hi)) ∧
      KeysIn (g.ooo ++ g.ordered) (histOf ((B.take g.hi).drop g.lo)) ∧
      GensOK B gs g.lo

structure HistInv (h : Hist) : Prop where
  c02 : Inv h.st
  eqv : Equiv h.st.cells (histOf h.batches)
  active : h.st.active = histOf (h.batches.drop h.flushedTo)
  le : h.flushedTo ≤ h.batches.length
  gens : GensOK h.batches h.gens h.flushedTo
  filesO : (h.gens.map (·.ooo)).flatten = h.st.ooo.flatten
  filesR : (h.gens.map (·.ordered)).flatten = h.st.ordered.flatten

theorem histInv_init (n : Nat) (hn : 0 < n) : HistInv (Hist.init n) := by
  refine ⟨inv_init n hn true, ?_, ?_, ?_, ?_, ?_, ?_⟩ <;>
    simp [Hist.init, St.init, St.cells, histOf, GensOK, Equiv]

theorem gensOK_snoc (B : List (List Row)) (b : List Row) : ∀ (gs : List Gen) (top : Nat),
    GensOK B gs top → GensOK (B ++ [b]) gs top := by
  intro gs
  induction gs with
  | nil => intro top h; exact h
  | cons g gs ih =>
    intro top h
    obtain ⟨h1, h2, h3, h4, h5, h6⟩ := h
    have ht : (B ++ [b]).take g.hi = B.take g.hi := by
      rw [List.take_append_of_le_length h3]
    refine ⟨h1, h2, by simp; omega, ?_, ?_, ih _ h6⟩
    · rw [ht]; exact h4
    · rw [ht]; exact h5

theorem write_histInv (h : Hist) (b : List Row) (hi : HistInv h) : HistInv (h.write b) := by
  refine ⟨write_inv _ b hi.c02, ?_, ?_, ?_, gensOK_snoc _ b _ _ hi.gens, hi.filesO, hi.filesR⟩
  · simp only [Hist.write, write_cells, histOf_snoc]
    exact Equiv.append_left _ hi.eqv
  · simp only [Hist.write, St.write]
    rw [List.drop_append_of_le_length hi.le, histOf_snoc, hi.active]
  · simp only [Hist.write, List.length_append, List.length_singleton]
    have := hi.le; omega

/-- the cells of the files after a flush, as a list. -/
theorem flush_cells (st : St) :
    st.flush.cells =
      (st.active.filter fun c => !isOrdered st.lastFlush c) ++ st.ooo.flatten ++
        ((st.active.filter (isOrdered st.lastFlush)) ++ st.ordered.flatten) := by
  unfold St.flush St.cells
  simp only []
  by_cases ha : st.active = []
  · simp [ha]
  · simp only [ha, if_false, flatten_cons_if, List.nil_append, List.append_assoc]

theorem flush_ooo (st : St) :
    st.flush.ooo.flatten = (st.active.filter fun c => !isOrdered st.lastFlush c) ++ st.ooo.flatten := by
  unfold St.flush
  simp only []
  by_cases ha : st.active = []
  · simp [ha]
  · simp only [ha, if_false, flatten_cons_if]

theorem flush_ordered (st : St) :
    st.flush.ordered.flatten = (st.active.filter (isOrdered st.lastFlush)) ++ st.ordered.flatten := by
  unfold St.flush
  simp only []
  by_cases ha : st.active = []
  · simp [ha]
  · simp only [ha, if_false, flatten_cons_if]

theorem flush_histInv (h : Hist) (hi : HistInv h) : HistInv h.flush := by
  have hfl := flush_wal h.st
  have heq : Equiv h.st.flush.cells (histOf h.batches) :=
    (flush_equiv h.st hi.c02.files).trans hi.eqv
  refine ⟨flush_inv _ hi.c02.files hi.c02.np, heq, ?_, ?_, ?_, ?_, ?_⟩
  · simp [Hist.flush, hfl.2.2.2.2, histOf]
  · simp [Hist.flush]
  · -- the new generation
    simp only [Hist.flush, GensOK]
    refine ⟨trivial, hi.le, Nat.le_refl _, ?_, ?_, hi.gens⟩
    · simp only [List.take_length]
      intro k
      rw [← heq k, flush_cells]
      simp only [gensCells, List.map_cons, List.flatten_cons, hi.filesO, hi.filesR, List.append_assoc]
    · simp only [List.take_length]
      rw [← hi.active]
      exact KeysIn.append ((KeysIn.refl _).filter _) ((KeysIn.refl _).filter _)
  · simp only [Hist.flush, List.map_cons, List.flatten_cons, hi.filesO, flush_ooo]
  · simp only [Hist.flush, List.map_cons, List.flatten_cons, hi.filesR, flush_ordered]

/-- history operations of C01. -/
inductive HOp where
  | write (b : List Row)
  | flush

def Hist.step (h : Hist) : HOp → Hist
  | .write b => h.write b
  | .flush => h.flush

theorem run_histInv (n : Nat) (hn : 0 < n) (ops : List HOp) :
    HistInv (ops.foldl Hist.step (Hist.init n)) := by
  suffices ∀ h, HistInv h → HistInv (ops.foldl Hist.step h) from this _ (histInv_init n hn)
  induction ops with
  | nil => intro h hi; exact hi
  | cons op ops ih =>
    intro h hi
    apply ih
    cases op with
    | write b => exact write_histInv h b hi
    | flush => exact flush_histInv h hi

end OG.C01
