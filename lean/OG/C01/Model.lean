/-
C01 — model of crash recovery of a ts-store shard (engine/wal.go, engine/shard.go
writeSnapshot/commitSnapshot/RemoveWalFiles, Open → replay → ForceFlush).

It reuses the layout model of C02 (cells, lookup, flush split, round-robin replay) and adds
the *durable state* a `kill -9` leaves behind, as the correspondence harness observes it in a
crash image:
  * which data files are visible (a file is visible once its `.init` name has been renamed),
    identified by (flush generation, ordered | out-of-order);
  * which complete WAL records each partition holds, in file order (a record cut short by the
    crash is not there: the reader stops at it — that part is C07's theorem about the reader).
Recovery replays the partitions round-robin into a fresh memtable, which then takes precedence
over all visible files.
Core-only, executable.
-/
import OG.C02.Model

namespace OG.C01
open OG.C02

/-- one flush generation: the batches it covers `[lo, hi)` and the two files it writes. -/
structure Gen where
  no : Nat
  lo : Nat
  hi : Nat
  ordered : List Cell
  ooo : List Cell
deriving Repr

/-- the history as the model follows it. -/
structure Hist where
  st : St                       -- the C02 layout model, run along
  batches : List (List Row)     -- every batch handed to the shard, by id
  gens : List Gen               -- newest first
  flushedTo : Nat               -- batches below this id are covered by a generation
deriving Repr

def Hist.init (n : Nat) : Hist := ⟨St.init n, [], [], 0⟩

def Hist.write (h : Hist) (b : List Row) : Hist :=
  { h with st := h.st.write b, batches := h.batches ++ [b] }

/-- a flush: the generation's two files are what C02's flush splits off. -/
def Hist.flush (h : Hist) : Hist :=
  let act := h.st.active
  let g : Gen := ⟨h.gens.length + 1, h.flushedTo, h.batches.length,
    act.filter (isOrdered h.st.lastFlush), act.filter (fun c => !isOrdered h.st.lastFlush c)⟩
  { h with st := h.st.flush, gens := g :: h.gens, flushedTo := h.batches.length }

/-- the measurement a series belongs to: the harness numbers the series of its k-th measurement
`100·k + i` (every measurement has its own data files, so a crash between two renames of one flush
leaves the files of some measurements visible and not the others'). -/
def mstOf (s : Nat) : Nat := s / 100

/-- the durable state observed in a crash image. -/
structure Durable where
  vis : List (Nat × Bool × Nat)      -- (generation, ordered?, measurement) of every visible data file
  wal : List (Nat × Nat)             -- (partition, batch id) of every complete record, per partition in file order
deriving Repr

def batchOf (h : Hist) (id : Nat) : List Row := h.batches.getD id []

/-- cells of a list of batches, newest first. -/
def histOf (bs : List (List Row)) : List Cell := (bs.reverse.map batchCells).flatten

def insertById (x : Nat × Nat) : List (Nat × Nat) → List (Nat × Nat)
  | [] => [x]
  | y :: ys => if x.2 ≤ y.2 then x :: y :: ys else y :: insertById x ys

/-- the surviving records in write order (ids ascend inside every partition, so this keeps
each partition's file order). -/
def sortById (xs : List (Nat × Nat)) : List (Nat × Nat) := xs.foldr insertById []

/-- recovery: the order in which the surviving records are replayed (`consumeRecordSerial`). -/
def replayOrder (n : Nat) (d : Durable) : List Nat :=
  let recs : List (Nat × List Row) := (sortById d.wal).map fun (p, id) => (p, [⟨id, 0, []⟩])
  (roundRobin n (recs.length + 1) recs).map fun b => match b with
    | [r] => r.s
    | _ => 0

/-- the cells of a generation's files of one kind that are visible. -/
def visPart (d : Durable) (no : Nat) (ordered : Bool) (cells : List Cell) : List Cell :=
  cells.filter fun c => d.vis.contains (no, ordered, mstOf c.s)

def fileCells (h : Hist) (d : Durable) : List Cell :=
  (h.gens.map fun g => visPart d g.no false g.ooo).flatten ++
    (h.gens.map fun g => visPart d g.no true g.ordered).flatten

/-- cells a reader consults after recovery, in precedence order: the replayed memtable, then
the visible out-of-order files (newest first), then the visible ordered files. -/
def recoveredCells (h : Hist) (d : Durable) : List Cell :=
  histOf ((replayOrder h.st.nParts d).map (batchOf h)) ++ fileCells h d

def recoveredRead (h : Hist) (d : Durable) (fields : List String) :=
  readCells (recoveredCells h d) (-1000000) 1000000 true fields

/-- every file of a generation is visible (a measurement without cells of a kind has no such file). -/
def fullGen (d : Durable) (g : Gen) : Bool :=
  g.ordered.all (fun c => d.vis.contains (g.no, true, mstOf c.s)) &&
    g.ooo.all (fun c => d.vis.contains (g.no, false, mstOf c.s))

/-- the decidable condition under which recovery is exact (see `OG.C01.recover_exact`):
the replayed records are a run `w, w+1, …, m-1` of batch ids in write order, every generation
that holds a batch below `w` is completely visible, and no generation reaches beyond `m`. It
fails exactly in the two windows of a flush described in DESIGN.md (records of a visible
generation surviving in part; old and new records interleaved by the round-robin). -/
def safeDurable (h : Hist) (d : Durable) : Bool :=
  match replayOrder h.st.nParts d with
  | [] => h.gens.all (fullGen d)
  | w :: rest =>
    let m := w + (rest.length + 1)
    (w :: rest) == List.range' w (rest.length + 1)
      && decide (w ≤ h.flushedTo) && decide (m ≤ h.batches.length)
      && h.gens.all (fun g => decide (g.hi ≤ m) && (decide (w ≤ g.lo) || fullGen d g))

/-- number of batches the recovered state stands for. -/
def durableCount (h : Hist) (d : Durable) : Nat :=
  match replayOrder h.st.nParts d with
  | [] => h.flushedTo
  | w :: rest => w + (rest.length + 1)

end OG.C01
