/-
C01 — model of crash recovery of a ts-store shard (engine/wal.go, engine/shard.go
writeSnapshot/commitSnapshot/RemoveWalFiles, Open → replay → ForceFlush).

It reuses the layout model of C02 (cells, lookup, flush split, round-robin replay) and adds
the *durable state* a `kill -9` leaves behind, as the correspondence harness observes it in a
crash image:
  * which data files are visible (a file is visible once its `.init` name has been renamed),
    identified by (flush generation, ordered | out-of-order);
  * which complete WAL records each partition holds, in file order (a record cut short by the
    crash is not there: the reader stops at it — that part is C07's theorem about the reader).
Recovery replays the partitions round-robin into a fresh memtable, which then takes precedence
over all visible files.
Core-only, executable.
-/
import OG.C02.Model

namespace OG.C01
open OG.C02

/-- one flush generation: the batches it covers `[lo, hi)` and the two files it writes. -/
structure Gen where
  no : Nat
  lo : Nat
  hi : Nat
  ordered : List Cell
  ooo : List Cell
deriving Repr

/-- the history as the model follows it. -/
structure Hist where
  st : St                       -- the C02 layout model, run along
  batches : List (List Row)     -- every batch handed to the shard, by id
  gens : List Gen               -- newest first
  flushedTo : Nat               -- batches below this id are covered by a generation
deriving Repr

def Hist.init (n : Nat) : Hist := ⟨St.init n, [], [], 0⟩

def Hist.write (h : Hist) (b : List Row) : Hist :=
  { h with st := h.st.write b, batches := h.batches ++ [b] }

/-- a flush: the generation's two files are what C02's flush splits off. -/
def Hist.flush (h : Hist) : Hist :=
  let act := h.st.active
  let g : Gen := ⟨h.gens.length + 1, h.flushedTo, h.batches.length,
    act.filter (isOrdered h.st.lastFlush), act.filter (fun c => !isOrdered h.st.lastFlush c)⟩
  { h with st := h.st.flush, gens := g :: h.gens, flushedTo := h.batches.length }

/-- the durable state observed in a crash image. -/
structure Durable where
  vis : List (Nat × Bool)            -- (generation, ordered?) of every visible data file
  wal : List (Nat × Nat)             -- (partition, batch id) of every complete record, per partition in file order
deriving Repr

def batchOf (h : Hist) (id : Nat) : List Row := h.batches.getD id []

/-- recovery: replay order of the surviving records. -/
def replayOrder (n : Nat) (d : Durable) : List Nat :=
  let recs : List (Nat × List Row) := d.wal.map fun (p, id) => (p, [⟨id, 0, []⟩])
  -- reuse C02.roundRobin on records tagged with their id
  (roundRobin n (recs.length + 1) recs).map fun b => match b with
    | [r] => r.s
    | _ => 0

/-- cells a reader consults after recovery, in precedence order. -/
def recoveredCells (h : Hist) (d : Durable) : List Cell :=
  let replay := (replayOrder h.st.nParts d).map (batchOf h)
  let mem := (replay.reverse.map batchCells).flatten
  let visOOO := h.gens.filter fun g => d.vis.contains (g.no, false)
  let visOrd := h.gens.filter fun g => d.vis.contains (g.no, true)
  mem ++ (visOOO.map (·.ooo)).flatten ++ (visOrd.map (·.ordered)).flatten

def recoveredRead (h : Hist) (d : Durable) (fields : List String) :=
  readCells (recoveredCells h d) (-1000000) 1000000 true fields

end OG.C01
