/-
C01 — property theorems.

Property: once a write has been acknowledged, every point in it stays readable after the
process is killed at any instant and restarted, with the values of the latest acknowledged
write to each (series, timestamp, field); recovery never loses, reverts or invents points.

The model separates (1) the history (which batches exist, what every flush generation's files
hold — reusing the C02 layout model) from (2) the durable state a crash leaves (visible files,
complete WAL records per partition), which the harness observes in every crash image.
-/
import OG.C01.Recover
import OG.C02.Props

namespace OG.C01
open OG.C02

theorem map_batchOf_range (h : Hist) (w len : Nat) (hm : w + len ≤ h.batches.length) :
    (List.range' w len).map (batchOf h) = (h.batches.take (w + len)).drop w := by
  induction len generalizing w with
  | zero => simp
  | succ n ih =>
    rw [List.range'_succ, List.map_cons, ih (w + 1) (by omega)]
    have hw : w < h.batches.length := by omega
    have e : w + (n + 1) = w + 1 + n := by omega
    rw [e]
    have : (h.batches.take (w + 1 + n)).drop w =
        h.batches[w] :: (h.batches.take (w + 1 + n)).drop (w + 1) := by
      rw [List.drop_eq_getElem_cons (by simp; omega)]
      simp
    rw [this]
    simp [batchOf, List.getD, hw]

/-- **T1 (exactness of recovery).** For every history (any number of WAL partitions, any
sequence of write batches and flushes) and every durable state that satisfies the decidable
condition `safeDurable`, what a reader sees after recovery is, key by key, the last-write-wins
replay of the first `durableCount` batches: nothing lost, nothing reverted, nothing invented. -/
theorem recover_exact (h : Hist) (hi : HistInv h) (d : Durable) (hs : safeDurable h d = true) :
    Equiv (recoveredCells h d) (histOf (h.batches.take (durableCount h d))) := by
  unfold safeDurable at hs
  unfold recoveredCells durableCount
  cases ho : replayOrder h.st.nParts d with
  | nil =>
    simp only [ho] at hs ⊢
    have hf : ∀ g ∈ h.gens, fullGen d g = true := by simpa [List.all_eq_true] using hs
    obtain ⟨eo, er⟩ := vis_full d h.gens hf
    simp only [List.map_nil, histOf_nil, List.nil_append, fileCells_eq, eo, er]
    cases hg : h.gens with
    | nil =>
      have := hi.gens
      rw [hg] at this
      simp only [GensOK] at this
      simp [this, histOf, Equiv]
    | cons g gs =>
      have := hi.gens
      rw [hg] at this
      obtain ⟨h1, _, _, h4, _, _⟩ := this
      rw [← h1]
      exact h4
  | cons w rest =>
    simp only [ho, Bool.and_eq_true, beq_iff_eq, decide_eq_true_eq, List.all_eq_true,
      Bool.or_eq_true] at hs ⊢
    obtain ⟨⟨⟨hord, hwf⟩, hmB⟩, hall⟩ := hs
    rw [hord, map_batchOf_range h w (rest.length + 1) hmB, fileCells_eq, ← List.append_assoc]
    have htop : h.flushedTo ≤ w + (rest.length + 1) := by
      cases hg : h.gens with
      | nil =>
        have := hi.gens
        rw [hg] at this
        simp only [GensOK] at this
        omega
      | cons g gs =>
        have := hi.gens
        rw [hg] at this
        have h1 := this.1
        have := (hall g (by simp [hg])).1
        omega
    exact replay_over_files h.batches d w (w + (rest.length + 1)) hmB h.gens h.flushedTo hi.gens hwf htop
      (fun g hg => ⟨(hall g hg).1, (hall g hg).2⟩)

/-- cells of a list of batches = cells of their rows in acknowledgement order. -/
theorem histOf_rows (bs : List (List Row)) :
    histOf bs = ((bs.flatten).reverse.map Row.cells).flatten := by
  induction bs with
  | nil => rfl
  | cons b bs ih =>
    have : histOf (b :: bs) = histOf bs ++ batchCells b := by
      have := histOf_append [b] bs
      simpa [histOf] using this
    rw [this, ih]
    simp [batchCells, List.reverse_append, List.map_append]

/-- **T1, end to end**: for every number of WAL partitions, every history and every safe durable
state, the recovered shard answers every key exactly as the last-write-wins map of the durable
batches does. -/
theorem recovered_eq_lww (n : Nat) (hn : 0 < n) (ops : List HOp) (d : Durable)
    (hs : safeDurable (ops.foldl Hist.step (Hist.init n)) d = true) (k : Key) :
    lookup k (recoveredCells (ops.foldl Hist.step (Hist.init n)) d) =
      lwwMap (((ops.foldl Hist.step (Hist.init n)).batches.take
        (durableCount (ops.foldl Hist.step (Hist.init n)) d)).flatten) k := by
  have hi := run_histInv n hn ops
  rw [recover_exact _ hi d hs k, histOf_rows, lookup_rows_lww]

/-- and the rows a reader gets are those of that map: sorted, one per timestamp. -/
theorem recovered_read_eq (n : Nat) (hn : 0 < n) (ops : List HOp) (d : Durable)
    (hs : safeDurable (ops.foldl Hist.step (Hist.init n)) d = true) (fields : List String) :
    recoveredRead (ops.foldl Hist.step (Hist.init n)) d fields =
      readCells (histOf ((ops.foldl Hist.step (Hist.init n)).batches.take
        (durableCount (ops.foldl Hist.step (Hist.init n)) d))) (-1000000) 1000000 true fields :=
  readCells_congr (recover_exact _ (run_histInv n hn ops) d hs) _ _ _ _

/-! ### the crash protocol, and why the full statement fails in two windows of a flush -/

/-- a flush in progress: the generation being written, which of its files still have to be
renamed into place, which partitions still hold WAL files of that generation. -/
structure Pending where
  gen : Nat
  lo : Nat
  hi : Nat
  toCommit : List (Bool × Nat)   -- (ordered?, measurement) of each file not yet visible
  toRemove : List Nat            -- partitions whose old WAL files are not yet removed
deriving Repr, DecidableEq

/-- protocol state: history, what is durable right now, the flush in progress if any. -/
structure PState where
  h : Hist
  d : Durable
  pending : Option Pending
deriving Repr

def PState.init (n : Nat) : PState := ⟨Hist.init n, ⟨[], []⟩, none⟩

/-- what a flush that has just switched still has to do. -/
def pendingOf (h : Hist) (d : Durable) : Pending :=
  let g := h.gens.headD ⟨0, 0, 0, [], []⟩
  ⟨g.no, g.lo, g.hi,
    ((g.ooo.map fun c => (false, mstOf c.s)) ++ (g.ordered.map fun c => (true, mstOf c.s))).eraseDups,
    ((d.wal.filter fun r => g.lo ≤ r.2 ∧ r.2 < g.hi).map (·.1)).eraseDups⟩

def PState.append (s : PState) (b : List Row) : PState :=
  ⟨s.h.write b, ⟨s.d.vis, s.d.wal ++ [(s.h.st.ctr % s.h.st.nParts, s.h.batches.length)]⟩, s.pending⟩
def PState.switch (s : PState) : PState := ⟨s.h.flush, s.d, some (pendingOf s.h.flush s.d)⟩
def PState.commit (s : PState) (p : Pending) (k : Bool × Nat) : PState :=
  ⟨s.h, ⟨(p.gen, k.1, k.2) :: s.d.vis, s.d.wal⟩, some { p with toCommit := p.toCommit.erase k }⟩
def PState.remove (s : PState) (p : Pending) (q : Nat) : PState :=
  ⟨s.h, ⟨s.d.vis, s.d.wal.filter fun r => ¬ (r.1 = q ∧ p.lo ≤ r.2 ∧ r.2 < p.hi)⟩,
    some { p with toRemove := p.toRemove.erase q }⟩

/-- the atomic, durable steps of the write path (`WAL.Write`, `writeSnapshot`: switch → commit
each file by rename → remove each old WAL file; writers keep appending meanwhile). A crash may
happen between any two of them; whatever `d` is then is what recovery starts from. -/
inductive PStep : PState → PState → Prop
  | append (s : PState) (b : List Row) : PStep s (s.append b)
  | switch (s : PState) (hp : s.pending = none) : PStep s s.switch
  | commit (s : PState) (p : Pending) (k : Bool × Nat) (hp : s.pending = some p) (hk : k ∈ p.toCommit) :
      PStep s (s.commit p k)
  | remove (s : PState) (p : Pending) (q : Nat) (hp : s.pending = some p) (hc : p.toCommit = [])
      (hq : q ∈ p.toRemove) : PStep s (s.remove p q)
  | finish (s : PState) (p : Pending) (hp : s.pending = some p) (hc : p.toCommit = [])
      (hr : p.toRemove = []) : PStep s ⟨s.h, s.d, none⟩

/-- reachable protocol states. -/
inductive Reach (n : Nat) : PState → Prop
  | init : Reach n (PState.init n)
  | step {s t : PState} : Reach n s → PStep s t → Reach n t

/-- the history part of a reachable state keeps the history invariant. -/
theorem reach_histInv (n : Nat) (hn : 0 < n) {s : PState} (hr : Reach n s) : HistInv s.h := by
  induction hr with
  | init => exact histInv_init n hn
  | step _ hst ih =>
    cases hst with
    | append b => exact write_histInv _ b ih
    | switch hp => exact flush_histInv _ ih
    | commit p k hp hk => exact ih
    | remove p q hp hc hq => exact ih
    | finish p hp hc hr => exact ih

/-- **T1 over the protocol (partial)**: at every crash point of every execution whose durable
state satisfies `safeDurable`, recovery yields exactly the last-write-wins replay of the durable
batches. -/
theorem crash_recovery_exact_partial (n : Nat) (hn : 0 < n) {s : PState} (hr : Reach n s)
    (hs : safeDurable s.h s.d = true) :
    Equiv (recoveredCells s.h s.d) (histOf (s.h.batches.take (durableCount s.h s.d))) :=
  recover_exact s.h (reach_histInv n hn hr) s.d hs

/-- the full statement: at *every* crash point recovery yields the last-write-wins replay of
every batch whose WAL record was completely written. -/
def crash_recovery_exact_full : Prop :=
  ∀ (n : Nat), 0 < n → ∀ s : PState, Reach n s →
    Equiv (recoveredCells s.h s.d) (histOf s.h.batches)

/-- history: two writes to one key in two partitions, one flush. -/
def witnessHist : Hist :=
  [HOp.write [⟨0, 1, [("f", "old")]⟩], .write [⟨0, 1, [("f", "new")]⟩], .flush].foldl Hist.step (Hist.init 2)

/-- **finding `crash_inside_wal_removal`**: the flush has committed its file (value `new`) and has
removed partition 1's WAL file but not yet partition 0's. Replaying the surviving record (`old`)
over the file brings the older value back. -/
theorem wal_removal_window_unsafe :
    lookup (0, 1, "f") (recoveredCells witnessHist ⟨[(1, true, 0)], [(0, 0)]⟩) = some "old" ∧
    lwwMap (witnessHist.batches.flatten) (0, 1, "f") = some "new" ∧
    safeDurable witnessHist ⟨[(1, true, 0)], [(0, 0)]⟩ = false := by
  decide

/-- the protocol execution that reaches that state. -/
def wsA0 : PState := ((PState.init 2).append [⟨0, 1, [("f", "old")]⟩]).append [⟨0, 1, [("f", "new")]⟩]
def wsA1 : PState := wsA0.switch
def wsA2 : PState := wsA1.commit (pendingOf wsA1.h wsA1.d) (true, 0)
def wsA3 : PState := wsA2.remove { pendingOf wsA1.h wsA1.d with toCommit := [] } 1

theorem wsA3_reachable : Reach 2 wsA3 := by
  have r0 : Reach 2 wsA0 := (Reach.init.step (PStep.append _ _)).step (PStep.append _ _)
  have r1 : Reach 2 wsA1 := r0.step (PStep.switch _ rfl)
  have r2 : Reach 2 wsA2 := r1.step (PStep.commit _ _ (true, 0) rfl (by decide))
  exact r2.step (PStep.remove _ _ 1 (by decide) rfl (by decide))

/-- **the full statement is false of the code as it is.** -/
theorem crash_recovery_exact_full_fails : ¬ crash_recovery_exact_full := by
  intro h
  have := h 2 (by decide) wsA3 wsA3_reachable (0, 1, "f")
  revert this
  decide

/-- history: a write, a flush (switch done, commit pending), two writes to one key meanwhile. -/
def witnessHist2 : Hist :=
  [HOp.write [⟨0, 0, [("f", "a")]⟩], .flush,
   .write [⟨0, 1, [("f", "old")]⟩], .write [⟨0, 1, [("f", "new")]⟩]].foldl Hist.step (Hist.init 2)

/-- **finding `flush_window_replay_order`**: crash before the flush commits; partition 0 holds the
old generation's record and the first new one, partition 1 the second new one. The round-robin
replays 0, 2, 1: the older of the two new values wins. -/
theorem flush_window_unsafe :
    lookup (0, 1, "f") (recoveredCells witnessHist2 ⟨[], [(0, 0), (0, 1), (1, 2)]⟩) = some "old" ∧
    lwwMap (witnessHist2.batches.flatten) (0, 1, "f") = some "new" ∧
    safeDurable witnessHist2 ⟨[], [(0, 0), (0, 1), (1, 2)]⟩ = false := by
  decide

/-- that state is reachable too: append, switch, two appends while the flush is pending. -/
def wsB : PState :=
  ((((PState.init 2).append [⟨0, 0, [("f", "a")]⟩]).switch).append [⟨0, 1, [("f", "old")]⟩]).append
    [⟨0, 1, [("f", "new")]⟩]

theorem wsB_reachable : Reach 2 wsB :=
  (((Reach.init.step (PStep.append _ _)).step (PStep.switch _ rfl)).step (PStep.append _ _)).step
    (PStep.append _ _)

theorem wsB_is_witness : wsB.d.vis = [] ∧ wsB.d.wal = [(0, 0), (0, 1), (1, 2)] ∧
    lookup (0, 1, "f") (recoveredCells wsB.h wsB.d) = some "old" ∧
    lookup (0, 1, "f") (histOf wsB.h.batches) = some "new" := by
  decide

/-- non-vacuity of T1: after the flush has completed (file visible, old WAL files gone) and one
more batch has been written, the state is safe and the new batch is there. -/
example : safeDurable witnessHist2 ⟨[(1, true, 0)], [(0, 1), (1, 2)]⟩ = true ∧
    lookup (0, 1, "f") (recoveredCells witnessHist2 ⟨[(1, true, 0)], [(0, 1), (1, 2)]⟩) = some "new" := by
  decide

/-- a record cut short by the crash is not part of the durable state: the batch it carried is
simply absent, never partially present (the reader's side of this is C07 `wal_prefix_safe`). -/
example : recoveredCells witnessHist2 ⟨[(1, true, 0)], [(0, 1)]⟩ =
    histOf [[⟨0, 1, [("f", "old")]⟩]] ++ fileCells witnessHist2 ⟨[(1, true, 0)], [(0, 1)]⟩ := by
  decide

/-- two measurements in one batch (series 0 of measurement 0, series 100 of measurement 1): a
flush commits one file per measurement; a crash after the first rename leaves only that file
visible. The WAL is still complete, so the state is safe and recovery is exact; with the
measurement-1 file alone visible *and the WAL gone* the state is not safe (rows of measurement 0
would be missing) — such a state is not reachable: `PStep.remove` needs every file committed. -/
def witnessHist3 : Hist :=
  [HOp.write [⟨0, 1, [("f", "a")]⟩, ⟨100, 1, [("f", "b")]⟩], .flush].foldl Hist.step (Hist.init 1)

example : safeDurable witnessHist3 ⟨[(1, true, 1)], [(0, 0)]⟩ = true ∧
    lookup (0, 1, "f") (recoveredCells witnessHist3 ⟨[(1, true, 1)], [(0, 0)]⟩) = some "a" ∧
    lookup (100, 1, "f") (recoveredCells witnessHist3 ⟨[(1, true, 1)], [(0, 0)]⟩) = some "b" ∧
    fileCells witnessHist3 ⟨[(1, true, 1)], [(0, 0)]⟩ = [⟨100, 1, "f", "b"⟩] ∧
    safeDurable witnessHist3 ⟨[(1, true, 1)], []⟩ = false ∧
    (pendingOf witnessHist3 ⟨[], [(0, 0)]⟩).toCommit = [(true, 1), (true, 0)] := by
  decide

end OG.C01
