/-
C01 — expectations about the regenerated facts: the bodies of the WAL / flush functions the
C01 and C02 models transcribe. A failure means that source changed shape; the correspondence
run then decides whether the property still holds.
-/
import OG.Generated.C01

namespace OG.C01.Facts
open OG.Gen.C01

theorem src_writeBinary_expected : src_writeBinary = "{ compBuf := walCompBufPool.Get() maxEncodeLen := snappy.MaxEncodedLen(len(walRecord.binary)) compBuf = bufferpool.Resize(compBuf, WalRecordHeadSize+maxEncodeLen) defer func() { if len(compBuf) <= WalCompMaxBufSize { walCompBufPool.Put(compBuf) } }() compData := snappy.Encode(compBuf[WalRecordHeadSize:], walRecord.binary) compBuf[0] = byte(walRecord.writeWalType) binary.BigEndian.PutUint32(compBuf[1:WalRecordHeadSize], uint32(len(compData))) compBuf = compBuf[:WalRecordHeadSize+len(compData)] l.mu.RLock() err := l.logWriter[(atomic.AddUint64(&l.writeReq, 1)-1)%uint64(l.partitionNum)].Write(compBuf) l.mu.RUnlock() if err != nil { panic(fmt.Errorf(\"writing WAL entry failed: %v\", err)) } return nil }" := by rfl

theorem src_Switch_expected : src_Switch = "{ if !l.walEnabled { return nil, nil } errs := errno.NewErrs() errs.Init(l.partitionNum, nil) l.mu.Lock() defer l.mu.Unlock() walFiles := newWalFiles(l.maxRowTime, l.lock, l.logPath) l.maxRowTime = math.MinInt64 atomic.StoreUint64(&l.writeReq, 0) for i := 0; i < l.partitionNum; i++ { go func(lw *LogWriter) { files, err := lw.Switch() walFiles.Add(files...) errs.Dispatch(err) }(&l.logWriter[i]) } err := errs.Err() return walFiles, err }" := by rfl

theorem src_restoreLog_expected : src_restoreLog = "{ logPath := writer.logPath dirs, err := fileops.ReadDir(logPath) if err != nil { panic(err) } sort.Slice(dirs, func(i, j int) bool { iLen := len(dirs[i].Name()) jLen := len(dirs[j].Name()) if iLen == jLen { return dirs[i].Name() > dirs[j].Name() } return iLen > jLen }) if len(dirs) == 0 { return } maxSeq, err := strconv.Atoi(dirs[0].Name()[:len(dirs[0].Name())-len(WALFileSuffixes)-1]) if err != nil { l.log.Error(\"parse wal file failed\", zap.String(\"path\", logPath), zap.Error(err)) return } writer.fileSeq = maxSeq for n := len(dirs) - 1; n >= 0; n-- { walFile := filepath.Join(logPath, dirs[n].Name()) replay.fileNames = append(replay.fileNames, walFile) } }" := by rfl

theorem src_consumeRecordSerial_expected : src_consumeRecordSerial = "{ ptFinish := make([]bool, len(ptChs)) ptFinishNum := 0 for { for i := range ptChs { if ptFinish[i] { continue } var pc *walRecord select { case <-ctx.Done(): finish <- struct{}{} return case pc = <-ptChs[i]: } if len(pc.binary) == 0 && (pc.rowsObjs == nil || (len(pc.rowsObjs.rows) == 0 && !pc.rowsObjs.isLastRows)) { ptFinishNum++ ptFinish[i] = true if ptFinishNum == len(ptChs) { finish <- struct{}{} return } continue } err := callBack(pc.binary, pc.rowsObjs, pc.writeWalType, logReplay[i]) if err != nil { mu.Lock() *errs = append(*errs, err) mu.Unlock() } } } }" := by rfl

theorem src_replayOnePartition_expected : src_replayOnePartition = "{ for i, fileName := range l.logReplay[idx].fileNames { select { case <-ctx.Done(): l.log.Info(\"cancel replay wal\", zap.String(\"filename\", fileName)) return nil default: } var lastFile bool if idx == len(l.logReplay)-1 && i == len(l.logReplay[idx].fileNames)-1 { lastFile = true } err := l.replayWalFile(ctx, fileName, lastFile, callBack) if err != nil { return err } } return nil }" := by rfl

theorem src_writeSnapshot_expected : src_writeSnapshot = "{ snapShotter := s.SnapShotter if snapShotter != nil { atomic.StoreUint32(&snapShotter.RaftFlag, 0) } s.snapshotLock.Lock() if s.activeTbl == nil { s.snapshotLock.Unlock() return } walFiles, err := s.wal.Switch() if err != nil { s.snapshotLock.Unlock() panic(\"wal switch failed\") } s.snapshotTbl = s.activeTbl curSize := s.snapshotTbl.GetMemSize() s.activeTbl = s.memTablePool.Get(s.engineType) s.activeTbl.SetIdx(s.skIdx) s.snapshotLock.Unlock() start := time.Now() s.indexBuilder.Flush() s.commitSnapshot(s.snapshotTbl) nodeMutableLimit.freeResource(curSize) err = RemoveWalFiles(walFiles) if err != nil { panic(\"wal remove files failed: \" + err.Error()) } if snapShotter != nil { snapShotter.RaftFlushC <- true atomic.StoreUint32(&snapShotter.RaftFlag, 1) } failpoint.Inject(\"snapshot-table-reset-delay\", func() { time.Sleep(2 * time.Second) }) s.snapshotLock.Lock() s.snapshotTbl.UnRef() s.snapshotTbl = nil s.snapshotLock.Unlock() atomic.AddInt64(&statistics.PerfStat.FlushSnapshotDurationNs, time.Since(start).Nanoseconds()) atomic.AddInt64(&statistics.PerfStat.FlushSnapshotCount, 1) }" := by rfl

theorem generation_ok : generationFailed = false := by rfl

end OG.C01.Facts
