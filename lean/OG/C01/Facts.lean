/-
C01 — expectations about the regenerated facts: the bodies of the WAL / flush functions the
C01 and C02 models transcribe. A failure means that source changed shape; the correspondence
run then decides whether the property still holds.
-/
import OG.Generated.C01

namespace OG.C01.Facts
open OG.Gen.C01

theorem src_writeBinary_expected : src_writeBinary = "{ compBuf := walCompBufPool.Get() maxEncodeLen := snappy.MaxEncodedLen(len(walRecord.binary)) compBuf = bufferpool.Resize(compBuf, WalRecordHeadSize+maxEncodeLen) defer func() { if len(compBuf) <= WalCompMaxBufSize { walCompBufPool.Put(compBuf) } }() compData := snappy.Encode(compBuf[WalRecordHeadSize:], walRecord.binary) compBuf[0] = byte(walRecord.writeWalType) binary.BigEndian.PutUint32(compBuf[1:WalRecordHeadSize], uint32(len(compData))) compBuf = compBuf[:WalRecordHeadSize+len(compData)] l.mu.RLock() err := l.logWriter[(atomic.AddUint64(&l.writeReq, 1)-1)%uint64(l.partitionNum)].Write(compBuf) l.mu.RUnlock() if err != nil { panic(fmt.Errorf(\"writing WAL entry failed: %v\", err)) } return nil }" := by rfl

theorem src_Switch_expected : src_Switch = "{ if !l.walEnabled { return nil, nil } errs := errno.NewErrs() errs.Init(l.partitionNum, nil) l.mu.Lock() defer l.mu.Unlock() walFiles := newWalFiles(l.maxRowTime, l.lock, l.logPath) l.maxRowTime = math.MinInt64 atomic.StoreUint64(&l.writeReq, 0) for i := 0; i < l.partitionNum; i++ { go func(lw *LogWriter) { files, err := lw.Switch() walFiles.Add(files...) errs.Dispatch(err) }(&l.logWriter[i]) } err := errs.Err() return walFiles, err }" := by rfl

theorem src_restoreLog_expected : src_restoreLog = "{ logPath := writer.logPath dirs, err := fileops.ReadDir(logPath) if err != nil { panic(err) } sort.Slice(dirs, func(i, j int) bool { iLen := len(dirs[i].Name()) jLen := len(dirs[j].Name()) if iLen == jLen { return dirs[i].Name() > dirs[j].Name() } return iLen > jLen }) if len(dirs) == 0 { return } maxSeq, err := strconv.Atoi(dirs[0].Name()[:len(dirs[0].Name())-len(WALFileSuffixes)-1]) if err != nil { l.log.Error(\"parse wal file failed\", zap.String(\"path\", logPath), zap.Error(err)) return } writer.fileSeq = maxSeq for n := len(dirs) - 1; n >= 0; n-- { walFile := filepath.Join(logPath, dirs[n].Name()) replay.fileNames = append(replay.fileNames, walFile) } }" := by rfl

theorem src_consumeRecordSerial_expected : src_consumeRecordSerial = "{ ptFinish := make([]bool, len(ptChs)) ptFinishNum := 0 for { for i := range ptChs { if ptFinish[i] { continue } var pc *walRecord select { case <-ctx.Done(): finish <- struct{}{} return case pc = <-ptChs[i]: } if len(pc.binary) == 0 && (pc.rowsObjs == nil || (len(pc.rowsObjs.rows) == 0 && !pc.rowsObjs.isLastRows)) { ptFinishNum++ ptFinish[i] = true if ptFinishNum == len(ptChs) { finish <- struct{}{} return } continue } err := callBack(pc.binary, pc.rowsObjs, pc.writeWalType, logReplay[i]) if err != nil { mu.Lock() *errs = append(*errs, err) mu.Unlock() } } } }" := by rfl

theorem src_replayOnePartition_expected : src_replayOnePartition = "{ for i, fileName := range l.logReplay[idx].fileNames { select { case <-ctx.Done(): l.log.Info(\"cancel replay wal\", zap.String(\"filename\", fileName)) return nil default: } var lastFile bool if idx == len(l.logReplay)-1 && i == len(l.logReplay[idx].fileNames)-1 { lastFile = true } err := l.replayWalFile(ctx, fileName, lastFile, callBack) if err != nil { return err } } return nil }" := by rfl

theorem src_writeSnapshot_expected : src_writeSnapshot = "{ snapShotter := s.SnapShotter if snapShotter != nil { atomic.StoreUint32(&snapShotter.RaftFlag, 0) } s.snapshotLock.Lock() if s.activeTbl == nil { s.snapshotLock.Unlock() return } walFiles, err := s.wal.Switch() if err != nil { s.snapshotLock.Unlock() panic(\"wal switch failed\") } s.snapshotTbl = s.activeTbl curSize := s.snapshotTbl.GetMemSize() s.activeTbl = s.memTablePool.Get(s.engineType) s.activeTbl.SetIdx(s.skIdx) s.snapshotLock.Unlock() start := time.Now() s.indexBuilder.Flush() s.commitSnapshot(s.snapshotTbl) nodeMutableLimit.freeResource(curSize) err = RemoveWalFiles(walFiles) if err != nil { panic(\"wal remove files failed: \" + err.Error()) } if snapShotter != nil { snapShotter.RaftFlushC <- true atomic.StoreUint32(&snapShotter.RaftFlag, 1) } failpoint.Inject(\"snapshot-table-reset-delay\", func() { time.Sleep(2 * time.Second) }) s.snapshotLock.Lock() s.snapshotTbl.UnRef() s.snapshotTbl = nil s.snapshotLock.Unlock() atomic.AddInt64(&statistics.PerfStat.FlushSnapshotDurationNs, time.Since(start).Nanoseconds()) atomic.AddInt64(&statistics.PerfStat.FlushSnapshotCount, 1) }" := by rfl

theorem src_trySync_expected : src_trySync = "{ if w.SyncInterval == 0 { return w.sync() } if !atomic.CompareAndSwapInt32(&w.syncTaskCount, 0, 1) { return nil } go func() { _ = w.sync() }() return nil }" := by rfl

theorem src_sync_expected : src_sync = "{ var err error if w.SyncInterval == 0 { w.syncMu.Lock() if w.currentFd != nil { err = w.currentFd.Sync() } w.syncMu.Unlock() return err } t := time.NewTicker(w.SyncInterval) defer t.Stop() for { select { case <-w.closed: atomic.StoreInt32(&w.syncTaskCount, 0) return nil case <-t.C: w.syncMu.Lock() if w.currentFd != nil { err = w.currentFd.Sync() } atomic.StoreInt32(&w.syncTaskCount, 0) w.syncMu.Unlock() return err } } }" := by rfl

theorem src_closeCurrentFile_expected : src_closeCurrentFile = "{ if w.currentFd == nil || w.currentFileSize == 0 { return nil } if err := w.currentFd.Sync(); err != nil { return err } if err := w.currentFd.Close(); err != nil { return err } w.currentFileSize = 0 w.currentFd = nil return nil }" := by rfl

theorem src_LogWriterSwitch_expected : src_LogWriterSwitch = "{ w.syncMu.Lock() err := w.closeCurrentFile() w.syncMu.Unlock() if err != nil { return nil, err } fileNames := make([]string, 0, len(w.fileNames)) fileNames = append(fileNames, w.fileNames...) w.fileNames = w.fileNames[:0] return fileNames, nil }" := by rfl

theorem src_trySwitchFile_expected : src_trySwitchFile = "{ if w.currentFd == nil || w.currentFileSize > DefaultFileSize { w.fileSeq++ err := w.closeCurrentFile() if err != nil { return err } fileName := filepath.Join(logPath, fmt.Sprintf(\"%d.%s\", w.fileSeq, WALFileSuffixes)) lock := fileops.FileLockOption(*w.lock) pri := fileops.FilePriorityOption(fileops.IO_PRIORITY_ULTRA_HIGH) fd, err := fileops.OpenFile(fileName, os.O_CREATE|os.O_RDWR, 0600, lock, pri) if err != nil { return err } w.fileNames = append(w.fileNames, fileName) w.currentFd = fd w.currentFileSize = 0 } return nil }" := by rfl

theorem src_removeWalFiles_expected : src_removeWalFiles = "{ if files == nil { return nil } var err error lock := fileops.FileLockOption(*files.lock) for _, f := range files.files { e := fileops.Remove(f, lock) if e != nil { err = e logger.NewLogger(errno.ModuleWal).Error(\"failed to remove wal file\", zap.String(\"file\", f), zap.Error(err)) } } return err }" := by rfl

theorem src_RenameTmpFiles_expected : src_RenameTmpFiles = "{ for i := range newFiles { f := newFiles[i] tmpName := f.Path() if IsTempleFile(filepath.Base(tmpName)) { fname := tmpName[:len(tmpName)-len(tmpFileSuffix)] if err := f.FreeFileHandle(); err != nil { return err } if err := f.Rename(fname); err != nil { log.Error(\"rename file error\", zap.String(\"name\", tmpName), zap.Error(err)) if _, e := fileops.Stat(fname); e != nil { return os.ErrNotExist } return err } } } return nil }" := by rfl

/-! ### the sync discipline: which call follows which -/

theorem calls_LogWriterWrite_expected : calls_LogWriterWrite = ["w.trySwitchFile", "w.currentFd.Write", "w.trySync"] := by decide

theorem calls_closeCurrentFile_expected : calls_closeCurrentFile = ["w.currentFd.Sync", "w.currentFd.Close"] := by decide

theorem calls_LogWriterSwitch_expected : calls_LogWriterSwitch = ["w.closeCurrentFile"] := by decide

theorem calls_writeRows_expected : calls_writeRows = ["s.activeTbl.MTable.WriteRows", "s.wal.Write"] := by decide

theorem calls_WALWrite_expected : calls_WALWrite = ["l.writeBinary"] := by decide

theorem calls_writeSnapshot_expected : calls_writeSnapshot = ["s.wal.Switch", "s.indexBuilder.Flush", "s.commitSnapshot", "RemoveWalFiles"] := by decide

theorem calls_tsspWriterClose_expected : calls_tsspWriterClose = ["w.fileWriter.Close", "w.cmw.Close", "w.fd.Sync"] := by decide

theorem calls_RenameTmpFiles_expected : calls_RenameTmpFiles = ["f.FreeFileHandle", "f.Rename"] := by decide

theorem calls_syncReplayWal_expected : calls_syncReplayWal = ["s.wal.Replay", "s.ForceFlush", "s.wal.Remove"] := by decide

theorem syncNow_body_expected : syncNow_body = "{ w.syncMu.Lock() if w.currentFd != nil { err = w.currentFd.Sync() } w.syncMu.Unlock() return err }" := by rfl

/-- `LogWriter.trySync` as translated. -/
theorem trySyncMode_expected (si : Int) : trySyncMode si = if (si == 0) then 0 else 1 := by rfl

theorem generation_ok : generationFailed = false := by rfl

end OG.C01.Facts
