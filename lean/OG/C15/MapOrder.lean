/-
C15 — `maporder_harmless`: where the code takes "the first" measurement of a Go map
(CreateShardGroup, validMeasurementShardType) the outcome does not depend on which one it gets,
provided every measurement of the policy carries a shard key of the same sharding type.
Without that condition it does (`maporder_matters_when_mixed`).
-/
import OG.C15.Props

namespace OG.C15
open OG.Meta

/-- the condition on one policy -/
def UniformRP (r : RP) : Prop := ∃ t : String, ∀ m ∈ r.msts, ∃ k rest, m.shardKeys = k :: rest ∧ k.typ = t

theorem pickMst_mem {p : Nat} {l : List Mst} {m : Mst} (h : pickMst p l = some m) : m ∈ l := by
  unfold pickMst at h
  split at h
  · cases h
  · exact List.mem_of_getElem? h

theorem pickMst_none {p : Nat} {l : List Mst} (h : pickMst p l = none) : l = [] := by
  unfold pickMst at h
  split at h
  · rfl
  · next hne =>
    exfalso
    rw [List.getElem?_eq_none_iff] at h
    have hpos : 0 < l.length := by
      cases l with
      | nil => exact absurd rfl hne
      | cons a l => simp
    have := Nat.mod_lt p hpos
    omega

/-- the part of a measurement the two call sites read: whether it has a shard key, and the
sharding type of the first one -/
def keyView (m : Mst) : Option String := m.shardKeys.head?.map (·.typ)

theorem uniform_keyView {r : RP} (hU : UniformRP r) : ∃ t, ∀ m ∈ r.msts, keyView m = some t := by
  obtain ⟨t, ht⟩ := hU
  refine ⟨t, fun m hm => ?_⟩
  obtain ⟨k, rest, hk, hkt⟩ := ht m hm
  simp [keyView, hk, hkt]

theorem validShardType_pick (r : RP) (hU : UniformRP r) (typ mst : String) (p q : Nat) :
    validShardType p r typ mst = validShardType q r typ mst := by
  obtain ⟨t, ht⟩ := hU
  unfold validShardType
  have hsub : ∀ m ∈ (r.msts.filter fun m => originName m.name ≠ mst), m ∈ r.msts := fun m hm => (List.mem_filter.1 hm).1
  generalize (r.msts.filter fun m => originName m.name ≠ mst) = l at hsub ⊢
  cases hp : pickMst p l with
  | none =>
    have hl := pickMst_none hp
    subst hl
    simp [pickMst]
  | some mp =>
    cases hq : pickMst q l with
    | none =>
      have hl := pickMst_none hq
      subst hl
      simp [pickMst] at hp
    | some mq =>
      obtain ⟨kp, rp', hkp, htp⟩ := ht mp (hsub _ (pickMst_mem hp))
      obtain ⟨kq, rq', hkq, htq⟩ := ht mq (hsub _ (pickMst_mem hq))
      simp [hkp, hkq, htp, htq]

theorem mkShards_keyView (d : Data) (r : RP) (m1 m2 : Mst) (ig : IG) (tier : Nat) (h : keyView m1 = keyView m2) :
    mkShards d r m1 ig tier = mkShards d r m2 ig tier := by
  unfold mkShards
  unfold keyView at h
  cases h1 : m1.shardKeys with
  | nil =>
    cases h2 : m2.shardKeys with
    | nil => rfl
    | cons k2 r2 => simp [h1, h2] at h
  | cons k1 r1 =>
    cases h2 : m2.shardKeys with
    | nil => simp [h1, h2] at h
    | cons k2 r2 =>
      simp [h1, h2] at h
      simp [h]

theorem createShardGroup_pick (d : Data) (db rp : String) (ts : Int) (tier e v : Nat) (p q : Nat)
    (hU : ∀ dbi k r, getRP d db rp = .ok (dbi, k, r) → UniformRP r) :
    createShardGroup p d db rp ts tier e v = createShardGroup q d db rp ts tier e v := by
  unfold createShardGroup
  split
  · rfl
  · cases hg : getRP d db rp with
    | error err => rfl
    | ok x =>
      obtain ⟨dbi, k, r⟩ := x
      obtain ⟨t, ht⟩ := uniform_keyView (hU dbi k r hg)
      simp only
      split
      · rfl
      · cases hp : pickMst p r.msts with
        | none =>
          have hl := pickMst_none hp
          simp [hl, pickMst]
        | some mp =>
          cases hq : pickMst q r.msts with
          | none =>
            have hl := pickMst_none hq
            rw [hl] at hp
            simp [pickMst] at hp
          | some mq =>
            have h1 := ht mp (pickMst_mem hp)
            have h2 := ht mq (pickMst_mem hq)
            have hkv : keyView mp = keyView mq := by rw [h1, h2]
            simp only
            cases hsp : mp.shardKeys with
            | nil => simp [keyView, hsp] at h1
            | cons kp rp' =>
              cases hsq : mq.shardKeys with
              | nil => simp [keyView, hsq] at h2
              | cons kq rq' =>
                simp only
                rw [mkShards_keyView _ _ mp mq _ _ hkv]

theorem createMeasurement_pick (d : Data) (db rp mst : String) (ski : Option ShardKey) (e : Nat) (fs : List FieldReq) (p q : Nat)
    (hU : ∀ dbi k r, getRP d db rp = .ok (dbi, k, r) → UniformRP r) :
    createMeasurement p d db rp mst ski e fs = createMeasurement q d db rp mst ski e fs := by
  unfold createMeasurement
  cases hg : getRP d db rp with
  | error err => rfl
  | ok x =>
    obtain ⟨dbi, k, r⟩ := x
    simp only
    cases ski with
    | none => rfl
    | some s => simp only [validShardType_pick r (hU dbi k r hg) s.typ mst p q]

theorem alterShardKey_pick (d : Data) (db rp mst : String) (ski : Option ShardKey) (p q : Nat)
    (hU : ∀ dbi k r, getRP d db rp = .ok (dbi, k, r) → UniformRP r) :
    alterShardKey p d db rp mst ski = alterShardKey q d db rp mst ski := by
  unfold alterShardKey
  cases hg : getRP d db rp with
  | error err => rfl
  | ok x =>
    obtain ⟨dbi, k, r⟩ := x
    simp only [validShardType_pick r (hU dbi k r hg) _ mst p q]

theorem uniform_of_getRP {d : Data} (h : UniformShardType d) {db rp : String} {dbi : DB} {k : String} {r : RP}
    (hg : getRP d db rp = .ok (dbi, k, r)) : UniformRP r := by
  have hm := getRP_ok hg
  exact h _ hm.1 _ hm.2.1

/-- **T4** under `UniformShardType` the result of every command — state and answer — is the
same whichever element the map iteration yields first. -/
theorem maporder_harmless (d : Data) (h : UniformShardType d) (p q : Nat) (c : Cmd) : applyP p d c = applyP q d c := by
  cases c with
  | createMeasurement db rp m ski e fs => exact createMeasurement_pick d db rp m ski e fs p q (fun _ _ _ hg => uniform_of_getRP h hg)
  | alterShardKey db rp m ski => exact alterShardKey_pick d db rp m ski p q (fun _ _ _ hg => uniform_of_getRP h hg)
  | createShardGroup db rp ts tier e v => exact createShardGroup_pick d db rp ts tier e v p q (fun _ _ _ hg => uniform_of_getRP h hg)
  | _ => rfl

/-- a policy holding a measurement without a shard key next to a keyed one: the pick decides
between a refusal (a panic before the `fix:`) and a new shard group (the state the harness reaches with
`CreateMeasurement … m0 hash:t0`, `CreateMeasurement … m1` *without* Ski). -/
def mixedLog : List Cmd := [
  .createDataNode "n1:8400" "n1:8401" "",
  .createDatabase "db0" none 1,
  .createMeasurement "db0" "autogen" "m0" (some ⟨["t0"], "hash", 0⟩) 0 [],
  .createMeasurement "db0" "autogen" "m1" none 0 []]

/-- without the condition the map order does matter. -/
theorem maporder_matters_when_mixed :
    ∃ d c, (∃ log, d = applyAll Data.init log) ∧ (applyP 0 d c).2 ≠ (applyP 1 d c).2 := by
  refine ⟨applyAll Data.init mixedLog, .createShardGroup "db0" "autogen" (3 * hour) 1 0 0, ⟨mixedLog, rfl⟩, ?_⟩
  decide +kernel

/-- non-vacuity of T4: the demo state is uniform (two measurements, both `hash`). -/
example : UniformShardType (applyAll Data.init demoLog) := by
  intro kdb hkdb kr hkr
  refine ⟨"hash", ?_⟩
  have h1 : (applyAll Data.init demoLog).databases.all (fun kdb => kdb.2.rps.all fun kr => kr.2.msts.all fun m =>
      match m.shardKeys with | k :: _ => k.typ == "hash" | [] => false) = true := by decide +kernel
  rw [List.all_eq_true] at h1
  have h2 := h1 _ hkdb
  rw [List.all_eq_true] at h2
  have h3 := h2 _ hkr
  rw [List.all_eq_true] at h3
  intro m hm
  have h4 := h3 m hm
  split at h4
  · next k rest hk => exact ⟨k, rest, hk, by simpa using h4⟩
  · cases h4

end OG.C15
