/-
C15 — snapshot / restore of the catalogue *model*, defined from the regenerated coverage table.

Every field of the model's state names the Go field(s) it stands for; `maskData p` keeps a field
iff `p` selects all of them and resets it to its zero value otherwise.  Then

    clone     = maskData cloneOK
    marshal   = wrapTimes ∘ maskData marshalOK   (instants are written as int64 UnixNano: out-of-range ones wrap)
    unmarshal = rekey ∘ maskData unmarshalOK     (unmarshal rebuilds the two name-keyed maps
                                                  from the names of their values)
    snapshot  = marshal ∘ clone,   restore = unmarshal
-/
import OG.Meta.Model
import OG.Meta.Wire
import OG.C15.Table

namespace OG.C15
open OG.Meta

class HasZero (α : Type) where
  zero : α
instance : HasZero Nat := ⟨0⟩
instance : HasZero Int := ⟨0⟩
instance : HasZero String := ⟨""⟩
instance : HasZero Bool := ⟨false⟩
instance {α : Type} : HasZero (List α) := ⟨[]⟩

abbrev Sel := String → String → Bool

/-- keep the value iff the Go field is selected -/
def keep {α : Type} [HasZero α] (p : Sel) (ty field : String) (x : α) : α :=
  if p ty field then x else HasZero.zero

def maskShardKey (p : Sel) (k : ShardKey) : ShardKey :=
  { keys := keep p "ShardKeyInfo" "ShardKey" k.keys, typ := keep p "ShardKeyInfo" "Type" k.typ,
    sgid := keep p "ShardKeyInfo" "ShardGroup" k.sgid }

def maskSchemaField (p : Sel) (f : SchemaField) : SchemaField :=
  { name := f.name, typ := keep p "SchemaVal" "Typ" f.typ, endTime := keep p "SchemaVal" "EndTime" f.endTime }

def maskMst (p : Sel) (m : Mst) : Mst :=
  { name := keep p "MeasurementInfo" "Name" m.name, id := keep p "MeasurementInfo" "ID" m.id,
    markDeleted := keep p "MeasurementInfo" "MarkDeleted" m.markDeleted, engine := keep p "MeasurementInfo" "EngineType" m.engine,
    shardKeys := keep p "MeasurementInfo" "ShardKeys" (m.shardKeys.map (maskShardKey p)),
    schema := keep p "MeasurementInfo" "Schema" (m.schema.map (maskSchemaField p)) }

def maskVer (p : Sel) (v : MstVer) : MstVer :=
  { name := v.name, version := keep p "MeasurementVer" "Version" v.version }

def maskShard (p : Sel) (s : Shard) : Shard :=
  { id := keep p "ShardInfo" "ID" s.id, owners := keep p "ShardInfo" "Owners" s.owners, indexID := keep p "ShardInfo" "IndexID" s.indexID,
    tier := keep p "ShardInfo" "Tier" s.tier, markDelete := keep p "ShardInfo" "MarkDelete" s.markDelete }

def maskSG (p : Sel) (g : SG) : SG :=
  { id := keep p "ShardGroupInfo" "ID" g.id, start := keep p "ShardGroupInfo" "StartTime" g.start, stop := keep p "ShardGroupInfo" "EndTime" g.stop,
    deleted := keep p "ShardGroupInfo" "DeletedAt" g.deleted, engine := keep p "ShardGroupInfo" "EngineType" g.engine,
    version := keep p "ShardGroupInfo" "Version" g.version, shards := keep p "ShardGroupInfo" "Shards" (g.shards.map (maskShard p)) }

def maskIndex (p : Sel) (x : Index) : Index :=
  { id := keep p "IndexInfo" "ID" x.id, owners := keep p "IndexInfo" "Owners" x.owners, markDelete := keep p "IndexInfo" "MarkDelete" x.markDelete,
    tier := keep p "IndexInfo" "Tier" x.tier }

def maskIG (p : Sel) (g : IG) : IG :=
  { id := keep p "IndexGroupInfo" "ID" g.id, start := keep p "IndexGroupInfo" "StartTime" g.start, stop := keep p "IndexGroupInfo" "EndTime" g.stop,
    deleted := keep p "IndexGroupInfo" "DeletedAt" g.deleted, engine := keep p "IndexGroupInfo" "EngineType" g.engine,
    indexes := keep p "IndexGroupInfo" "Indexes" (g.indexes.map (maskIndex p)) }

def maskRP (p : Sel) (r : RP) : RP :=
  { name := keep p "RetentionPolicyInfo" "Name" r.name, replicaN := keep p "RetentionPolicyInfo" "ReplicaN" r.replicaN,
    duration := keep p "RetentionPolicyInfo" "Duration" r.duration, sgDuration := keep p "RetentionPolicyInfo" "ShardGroupDuration" r.sgDuration,
    shardMergeDuration := keep p "RetentionPolicyInfo" "ShardMergeDuration" r.shardMergeDuration, hot := keep p "RetentionPolicyInfo" "HotDuration" r.hot,
    warm := keep p "RetentionPolicyInfo" "WarmDuration" r.warm, indexCold := keep p "RetentionPolicyInfo" "IndexColdDuration" r.indexCold,
    igDuration := keep p "RetentionPolicyInfo" "IndexGroupDuration" r.igDuration,
    indexGroups := keep p "RetentionPolicyInfo" "IndexGroups" (r.indexGroups.map (maskIG p)),
    msts := keep p "RetentionPolicyInfo" "Measurements" (r.msts.map (maskMst p)),
    mstVersions := keep p "RetentionPolicyInfo" "MstVersions" (r.mstVersions.map (maskVer p)),
    shardGroups := keep p "RetentionPolicyInfo" "ShardGroups" (r.shardGroups.map (maskSG p)),
    markDeleted := keep p "RetentionPolicyInfo" "MarkDeleted" r.markDeleted }

def maskDB (p : Sel) (db : DB) : DB :=
  { name := keep p "DatabaseInfo" "Name" db.name, defaultRP := keep p "DatabaseInfo" "DefaultRetentionPolicy" db.defaultRP,
    rps := keep p "DatabaseInfo" "RetentionPolicies" (db.rps.map fun (k, r) => (k, maskRP p r)),
    markDeleted := keep p "DatabaseInfo" "MarkDeleted" db.markDeleted, replicaN := keep p "DatabaseInfo" "ReplicaN" db.replicaN }

def maskPt (p : Sel) (x : Pt) : Pt :=
  { owner := keep p "PtInfo" "Owner" (keep p "PtOwner" "NodeID" x.owner), status := keep p "PtInfo" "Status" x.status,
    ptId := keep p "PtInfo" "PtId" x.ptId, ver := keep p "PtInfo" "Ver" x.ver }

def maskNode (p : Sel) (n : Node) : Node :=
  { id := keep p "DataNode" "NodeInfo" (keep p "NodeInfo" "ID" n.id), host := keep p "DataNode" "NodeInfo" (keep p "NodeInfo" "Host" n.host),
    tcpHost := keep p "DataNode" "NodeInfo" (keep p "NodeInfo" "TCPHost" n.tcpHost), role := keep p "DataNode" "NodeInfo" (keep p "NodeInfo" "Role" n.role),
    connID := keep p "DataNode" "ConnID" n.connID }

def maskUser (p : Sel) (u : User) : User :=
  { name := keep p "UserInfo" "Name" u.name, hash := keep p "UserInfo" "Hash" u.hash, admin := keep p "UserInfo" "Admin" u.admin,
    rwuser := keep p "UserInfo" "Rwuser" u.rwuser, privileges := keep p "UserInfo" "Privileges" u.privileges }

def maskData (p : Sel) (d : Data) : Data :=
  { clusterPtNum := keep p "Data" "ClusterPtNum" d.clusterPtNum, ptNumPerNode := keep p "Data" "PtNumPerNode" d.ptNumPerNode,
    maxNodeID := keep p "Data" "MaxNodeID" d.maxNodeID, maxShardGroupID := keep p "Data" "MaxShardGroupID" d.maxShardGroupID,
    maxShardID := keep p "Data" "MaxShardID" d.maxShardID, maxMstID := keep p "Data" "MaxMstID" d.maxMstID,
    maxIndexGroupID := keep p "Data" "MaxIndexGroupID" d.maxIndexGroupID, maxIndexID := keep p "Data" "MaxIndexID" d.maxIndexID,
    maxConnID := keep p "Data" "MaxConnID" d.maxConnID,
    dataNodes := keep p "Data" "DataNodes" (d.dataNodes.map (maskNode p)),
    ptView := keep p "Data" "PtView" (d.ptView.map fun (k, v) => (k, v.map (maskPt p))),
    databases := keep p "Data" "Databases" (d.databases.map fun (k, db) => (k, maskDB p db)),
    users := keep p "Data" "Users" (d.users.map (maskUser p)) }

/-- the Go fields the model's state stands for -/
def modelFields : List (String × String) := [
  ("Data", "ClusterPtNum"), ("Data", "PtNumPerNode"), ("Data", "MaxNodeID"), ("Data", "MaxShardGroupID"), ("Data", "MaxShardID"),
  ("Data", "MaxMstID"), ("Data", "MaxIndexGroupID"), ("Data", "MaxIndexID"), ("Data", "MaxConnID"), ("Data", "DataNodes"),
  ("Data", "PtView"), ("Data", "Databases"), ("Data", "Users"),
  ("DataNode", "NodeInfo"), ("DataNode", "ConnID"), ("NodeInfo", "ID"), ("NodeInfo", "Host"), ("NodeInfo", "TCPHost"), ("NodeInfo", "Role"),
  ("PtInfo", "Owner"), ("PtOwner", "NodeID"), ("PtInfo", "Status"), ("PtInfo", "PtId"), ("PtInfo", "Ver"),
  ("DatabaseInfo", "Name"), ("DatabaseInfo", "DefaultRetentionPolicy"), ("DatabaseInfo", "RetentionPolicies"), ("DatabaseInfo", "MarkDeleted"),
  ("DatabaseInfo", "ReplicaN"),
  ("RetentionPolicyInfo", "Name"), ("RetentionPolicyInfo", "ReplicaN"), ("RetentionPolicyInfo", "Duration"), ("RetentionPolicyInfo", "ShardGroupDuration"),
  ("RetentionPolicyInfo", "ShardMergeDuration"), ("RetentionPolicyInfo", "HotDuration"), ("RetentionPolicyInfo", "WarmDuration"),
  ("RetentionPolicyInfo", "IndexColdDuration"), ("RetentionPolicyInfo", "IndexGroupDuration"), ("RetentionPolicyInfo", "IndexGroups"),
  ("RetentionPolicyInfo", "Measurements"), ("RetentionPolicyInfo", "MstVersions"), ("RetentionPolicyInfo", "ShardGroups"),
  ("RetentionPolicyInfo", "MarkDeleted"),
  ("MeasurementInfo", "Name"), ("MeasurementInfo", "ID"), ("MeasurementInfo", "MarkDeleted"), ("MeasurementInfo", "EngineType"),
  ("MeasurementInfo", "ShardKeys"), ("MeasurementInfo", "Schema"), ("MeasurementVer", "Version"),
  ("ShardKeyInfo", "ShardKey"), ("ShardKeyInfo", "Type"), ("ShardKeyInfo", "ShardGroup"), ("SchemaVal", "Typ"), ("SchemaVal", "EndTime"),
  ("ShardGroupInfo", "ID"), ("ShardGroupInfo", "StartTime"), ("ShardGroupInfo", "EndTime"), ("ShardGroupInfo", "DeletedAt"),
  ("ShardGroupInfo", "EngineType"), ("ShardGroupInfo", "Version"), ("ShardGroupInfo", "Shards"),
  ("ShardInfo", "ID"), ("ShardInfo", "Owners"), ("ShardInfo", "IndexID"), ("ShardInfo", "Tier"), ("ShardInfo", "MarkDelete"),
  ("IndexGroupInfo", "ID"), ("IndexGroupInfo", "StartTime"), ("IndexGroupInfo", "EndTime"), ("IndexGroupInfo", "DeletedAt"),
  ("IndexGroupInfo", "EngineType"), ("IndexGroupInfo", "Indexes"),
  ("IndexInfo", "ID"), ("IndexInfo", "Owners"), ("IndexInfo", "MarkDelete"), ("IndexInfo", "Tier"),
  ("UserInfo", "Name"), ("UserInfo", "Hash"), ("UserInfo", "Admin"), ("UserInfo", "Rwuser"), ("UserInfo", "Privileges")
]

/-- `Data.Unmarshal` / `DatabaseInfo.unmarshal` insert every database and every policy under
its own name. -/
def rekey (d : Data) : Data :=
  { d with databases := d.databases.map fun (_, db) => (db.name, { db with rps := db.rps.map fun (_, r) => (r.name, r) }) }

/-- `MarshalTime` is `t.UnixNano()`: the start / end of a shard or index group that lies outside
the int64 nanosecond range (a group created for an instant within one duration of
`math.MinInt64`) is written *wrapped around* (finding `group_start_before_int64_range`). -/
def wrapTimes (d : Data) : Data := OG.Meta.Wire.canon d

def clone (d : Data) : Data := maskData cloneOK d
def marshal (d : Data) : Data := wrapTimes (maskData marshalOK d)
def unmarshal (d : Data) : Data := rekey (maskData unmarshalOK d)

/-- `storeFSM.Snapshot` (deep copy) followed by `Persist` (marshal) -/
def snapshot (d : Data) : Data := marshal (clone d)
/-- `storeFSM.Restore` -/
def restore (d : Data) : Data := unmarshal d

end OG.C15
