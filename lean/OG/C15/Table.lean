/-
C15 — the snapshot path as a function of the regenerated field-coverage table.

`OG.Gen.C15.fieldTable` (written by ogfacts from the working tree) says, for every field of
`meta.Data` and of every struct reachable from it, where its value flows in `marshal`, where it
is rebuilt from in `unmarshal`, and how `clone` treats it.  Three predicates are read off the
table; clone / marshal / unmarshal of a value are "keep the selected fields, reset the others
to their zero value" (`Val.mask`), and

    snapshot = marshal ∘ clone        (storeFSM.Snapshot + storeFSMSnapshot.Persist)
    restore  = unmarshal              (storeFSM.Restore)
-/
import OG.Meta.Val
import OG.Generated.C15

namespace OG.C15
open OG.Meta OG.Gen.C15

def findFact (ty field : String) : Option FieldFact :=
  fieldTable.find? fun r => r.ty == ty && r.field == field

/-- struct types the table speaks about; records of any other type (map entries `kv`, structs
of other packages, protobuf leftovers) pass through unchanged -/
def tracked (ty : String) : Bool := fieldTable.any (·.ty == ty)

/-- `clone` copies the field on every path: not missing, and not placed after an early return -/
def cloneKeeps (r : FieldFact) : Bool := r.clone != "none" && !r.clone.startsWith "afterReturn"

/-- the value reaches the protobuf message -/
def marshalKeeps (r : FieldFact) : Bool := !r.marshalTo.isEmpty

/-- `unmarshal` rebuilds the field from a protobuf field that `marshal` wrote it to -/
def unmarshalKeeps (r : FieldFact) : Bool := r.unmarshalFrom.any fun k => r.marshalTo.contains k

def sel (f : FieldFact → Bool) (ty field : String) : Bool :=
  match findFact ty field with
  | some r => f r
  | none => !tracked ty        -- an unknown field of a tracked struct is lost

def cloneOK : String → String → Bool := sel cloneKeeps
def marshalOK : String → String → Bool := sel marshalKeeps
def unmarshalOK : String → String → Bool := sel unmarshalKeeps

def covered (ty field : String) : Bool := cloneOK ty field && marshalOK ty field && unmarshalOK ty field

/-! ### transient fields

Not part of the replicated catalogue: skipped by the harness's dump (the op line `transients`
compares the two lists), and exempt from the coverage obligation. Each with its reason. -/
def transient : List (String × String) := [
  -- incremental-sync command cache: storeFSM.Restore re-attaches it from the running store (SetOps)
  ("Data", "opsMapMu"), ("Data", "OpsMap"), ("Data", "OpsMapMinIndex"), ("Data", "OpsMapMaxIndex"), ("Data", "OpsToMarshalIndex"),
  -- set to Index by Unmarshal and by every successful apply; read only when the leader schedules
  -- UpdateNodeTmpIndex commands, never by a command
  ("Data", "UpdateNodeTmpIndexCommandStart"),
  -- copied from the node's own configuration at the start of CreateDataNode / CreateSqlNode
  ("Data", "ExpandShardsEnable"),
  -- cache of `HasAdminUser()`: recomputed by Unmarshal; CreateUser consults HasAdminUser, not the cache
  ("Data", "AdminUserExists"),
  -- external handle; only its presence is persisted (IsSQLiteEnabled)
  ("Data", "SQLite"),
  -- caches recomputed by unmarshal from Name / the schema; no command reads them
  ("MeasurementInfo", "originName"), ("MeasurementInfo", "tagKeysTotal"), ("MeasurementInfo", "SchemaLock"),
  -- rebuilt by unmarshal from the map key and Version (GetNameWithVersion)
  ("MeasurementVer", "NameWithVersion"),
  -- denormalised copy of DbPtInfo.Db inside a migrate event: DbPtInfo.Marshal writes Db in its place
  ("DatabaseBriefInfo", "Name")
]

def isTransient (ty field : String) : Bool := transient.contains (ty, field)

/-- persistent fields the snapshot path does *not* carry on the unchanged tree (finding
`node_tmp_index_not_in_snapshot`): `DataNode.Index` has no protobuf field, yet
UpdateNodeTmpIndex reads and writes it. -/
def knownGaps : List (String × String) := [("DataNode", "Index")]

def isGap (ty field : String) : Bool := knownGaps.contains (ty, field)

namespace Val
open OG.Meta.Val

def clone (v : OG.Meta.Val) : OG.Meta.Val := mask cloneOK v
def marshal (v : OG.Meta.Val) : OG.Meta.Val := mask marshalOK v
def unmarshal (v : OG.Meta.Val) : OG.Meta.Val := mask unmarshalOK v
def snapshot (v : OG.Meta.Val) : OG.Meta.Val := marshal (clone v)
def restore (v : OG.Meta.Val) : OG.Meta.Val := unmarshal v

end Val
end OG.C15
