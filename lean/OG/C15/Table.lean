/-
C15 — the snapshot path as a function of the regenerated field-coverage table.

`OG.Gen.C15.fieldTable` (written by ogfacts from the working tree) says, for every field of
`meta.Data` and of every struct reachable from it, where its value flows in `marshal`, where it
is rebuilt from in `unmarshal`, and how `clone` treats it.  Three predicates are read off the
table; clone / marshal / unmarshal of a value are "keep the selected fields, reset the others
to their zero value" (`Val.mask`), and

    snapshot = marshal ∘ clone        (storeFSM.Snapshot + storeFSMSnapshot.Persist)
    restore  = unmarshal              (storeFSM.Restore)
-/
import OG.Meta.Val
import OG.Generated.C15

namespace OG.C15
open OG.Meta OG.Gen.C15

def findFact (ty field : String) : Option FieldFact :=
  fieldTable.find? fun r => r.ty == ty && r.field == field

/-- struct types the table speaks about; records of any other type (map entries `kv`, structs
of other packages, protobuf leftovers) pass through unchanged -/
def tracked (ty : String) : Bool := fieldTable.any (·.ty == ty)

/-! ### guards

The table also says *under which conditions* the most favourable write of a field happens
(`marshalGuard`, `unmarshalGuard`, `cloneGuard`: the enclosing `if` / `range` / early-return
conditions). ogfacts drops the harmless ones — a test of the carried field itself (or of the
protobuf field it is rebuilt from) for being non-empty: nil and empty are the same catalogue —
and lists them in `selfGuards` (pinned in Facts.lean). Whatever remains is a condition on
*something else*: the field is lost whenever that condition is false, unless the guard is
recorded here with its reason. A field marshalled only inside `if len(x.Other) > 0 { … }` is
therefore *not carried*, and the coverage obligation breaks. -/

/-- (struct, field, phase, guard) — the residual guards of the unchanged tree, each justified -/
def guardAllowed : List (String × String × String × String) := [
  -- the elements of a container are written inside the parent's loop over that container; the
  -- guards are the container's own emptiness test and the loop (the container itself is the
  -- row `RetentionPolicyInfo.MstVersions`, which must be carried unconditionally)
  ("MeasurementVer", "Version", "marshal", "rpi.MstVersions != nil"),
  ("MeasurementVer", "Version", "marshal", "range rpi.MstVersions"),
  -- same for the schema map of a measurement (`CleanSchema.Marshal`, row `MeasurementInfo.Schema`)
  ("SchemaVal", "Typ", "marshal", "cs != nil"), ("SchemaVal", "Typ", "marshal", "range *cs"),
  ("SchemaVal", "EndTime", "marshal", "cs != nil"), ("SchemaVal", "EndTime", "marshal", "range *cs"),
  -- same for the peers of a replica group (row `ReplicaGroup.Peers`)
  ("Peer", "ID", "marshal", "len(rg.Peers) > 0"), ("Peer", "ID", "marshal", "range rg.Peers"),
  ("Peer", "PtRole", "marshal", "len(rg.Peers) > 0"), ("Peer", "PtRole", "marshal", "range rg.Peers"),
  ("Peer", "ID", "unmarshal", "len(pb.GetPeers()) > 0"), ("Peer", "ID", "unmarshal", "range pb.Peers"),
  ("Peer", "PtRole", "unmarshal", "len(pb.GetPeers()) > 0"), ("Peer", "PtRole", "unmarshal", "range pb.Peers"),
  -- transient (only the presence of the handle is persisted)
  ("Data", "SQLite", "unmarshal", "pb.GetIsSQLiteEnabled()")
]

def guardsOK (r : FieldFact) (phase : String) (gs : List String) : Bool :=
  gs.all fun g => guardAllowed.contains (r.ty, r.field, phase, g)

/-! ### aliasing

`clone = "copy"` / `"byValue"` means the field is copied by plain assignment. For a slice, a map
or a pointer that is a *shared* object: the snapshot that raft persists later, concurrently with
further Apply calls, sees whatever those calls write through it (`append(s[:i], s[i+1:]...)`,
`s[i].F = …`, `p.F = nil`). Such a field counts as cloned only if it is recorded here with the
reason why nothing ever writes through it. -/

def isRefKind (k : String) : Bool := k.startsWith "[]" || k.startsWith "map[" || k.startsWith "*"

/-- (struct, field): shared by `clone`, and never written through -/
def aliasAllowed : List (String × String) := [
  -- transient: the ops cache is re-attached on Restore, the SQLite handle is external
  ("Data", "OpsMap"), ("Data", "SQLite"),
  -- string / id lists fixed when the object is created; the holder is replaced as a whole or dropped
  ("ShardKeyInfo", "ShardKey"), ("ColStoreInfo", "PrimaryKey"), ("ColStoreInfo", "SortKey"), ("ColStoreInfo", "PropertyKey"),
  ("ColStoreInfo", "PropertyValue"), ("SubscriptionInfo", "Destinations"), ("DownSampleOperators", "AggOps"),
  -- the operator / policy lists of a down-sample policy: set by CreateDownSamplePolicy, cleared by assigning nil to the
  -- holder's field (the holder itself is copied by RetentionPolicyInfo.Clone since the `fix:` of the shallow clones)
  ("DownSamplePolicyInfo", "Calls"), ("DownSamplePolicyInfo", "DownSamplePolicies"),
  -- the partition of a migrate event: built by CreateEvent, UpdateEvent only changes the event's own two state words
  ("DbPtInfo", "Pti"), ("DbPtInfo", "Shards"), ("DbPtInfo", "DBBriefInfo")
]

/-- shared by `clone` *and* written through by commands (finding
`replication_state_shared_with_snapshot`): the replica groups of a database and the clear-info of
an index group are edited in place by the replication commands (the subject of C05). -/
def aliasKnown : List (String × String) := [
  ("Data", "ReplicaGroups"), ("ReplicaGroup", "Peers"), ("IndexGroupInfo", "ClearInfo"), ("ReplicaClearInfo", "ClearPeers")
]

def aliased (r : FieldFact) : Bool := isRefKind r.kind && (r.clone == "copy" || r.clone == "byValue")

def aliasOK (r : FieldFact) : Bool := !aliased r || aliasAllowed.contains (r.ty, r.field) || aliasKnown.contains (r.ty, r.field)

/-- `clone` copies the field on every path: not missing, not placed after an early return, not
under a condition on something else, and not as a shared reference that commands write through -/
def cloneKeeps (r : FieldFact) : Bool :=
  r.clone != "none" && !r.clone.startsWith "afterReturn" && guardsOK r "clone" r.cloneGuard && aliasOK r

/-- the value reaches the protobuf message, unconditionally -/
def marshalKeeps (r : FieldFact) : Bool := !r.marshalTo.isEmpty && guardsOK r "marshal" r.marshalGuard

/-- `unmarshal` rebuilds the field from a protobuf field that `marshal` wrote it to, unconditionally -/
def unmarshalKeeps (r : FieldFact) : Bool :=
  (r.unmarshalFrom.any fun k => r.marshalTo.contains k) && guardsOK r "unmarshal" r.unmarshalGuard

def sel (f : FieldFact → Bool) (ty field : String) : Bool :=
  match findFact ty field with
  | some r => f r
  | none => !tracked ty        -- an unknown field of a tracked struct is lost

def cloneOK : String → String → Bool := sel cloneKeeps
def marshalOK : String → String → Bool := sel marshalKeeps
def unmarshalOK : String → String → Bool := sel unmarshalKeeps

def covered (ty field : String) : Bool := cloneOK ty field && marshalOK ty field && unmarshalOK ty field

/-! ### transient fields

Not part of the replicated catalogue: skipped by the harness's dump (the op line `transients`
compares the two lists), and exempt from the coverage obligation. Each with its reason. -/
def transient : List (String × String) := [
  -- incremental-sync command cache: storeFSM.Restore re-attaches it from the running store (SetOps)
  ("Data", "opsMapMu"), ("Data", "OpsMap"), ("Data", "OpsMapMinIndex"), ("Data", "OpsMapMaxIndex"), ("Data", "OpsToMarshalIndex"),
  -- set to Index by Unmarshal and by every successful apply; read only when the leader schedules
  -- UpdateNodeTmpIndex commands, never by a command
  ("Data", "UpdateNodeTmpIndexCommandStart"),
  -- copied from the node's own configuration at the start of CreateDataNode / CreateSqlNode
  ("Data", "ExpandShardsEnable"),
  -- cache of `HasAdminUser()`: recomputed by Unmarshal; CreateUser consults HasAdminUser, not the cache
  ("Data", "AdminUserExists"),
  -- external handle; only its presence is persisted (IsSQLiteEnabled)
  ("Data", "SQLite"),
  -- caches recomputed by unmarshal from Name / the schema; no command reads them
  ("MeasurementInfo", "originName"), ("MeasurementInfo", "tagKeysTotal"), ("MeasurementInfo", "SchemaLock"),
  -- rebuilt by unmarshal from the map key and Version (GetNameWithVersion)
  ("MeasurementVer", "NameWithVersion"),
  -- denormalised copy of DbPtInfo.Db inside a migrate event: DbPtInfo.Marshal writes Db in its place
  ("DatabaseBriefInfo", "Name")
]

def isTransient (ty field : String) : Bool := transient.contains (ty, field)

/-- persistent fields the snapshot path does *not* carry on the unchanged tree (finding
`node_tmp_index_not_in_snapshot`): `DataNode.Index` has no protobuf field, yet
UpdateNodeTmpIndex reads and writes it. -/
def knownGaps : List (String × String) := [("DataNode", "Index")]

def isGap (ty field : String) : Bool := knownGaps.contains (ty, field)

namespace Val
open OG.Meta.Val

def clone (v : OG.Meta.Val) : OG.Meta.Val := mask cloneOK v
def marshal (v : OG.Meta.Val) : OG.Meta.Val := mask marshalOK v
def unmarshal (v : OG.Meta.Val) : OG.Meta.Val := mask unmarshalOK v
def snapshot (v : OG.Meta.Val) : OG.Meta.Val := marshal (clone v)
def restore (v : OG.Meta.Val) : OG.Meta.Val := unmarshal v

end Val
end OG.C15
