/-
C15 — helper lemmas: the mask functions are the identity when every field is selected.
-/
import OG.C15.Snapshot

namespace OG.C15
open OG.Meta

theorem allSel_mono_aux (p q : String → String → Bool) (h : ∀ t f, p t f = true → q t f = true) :
    (∀ v, Val.allSel p v = true → Val.allSel q v = true) ∧
    (∀ xs, Val.allSelList p xs = true → Val.allSelList q xs = true) ∧
    (∀ ty fs, Val.allSelFields p ty fs = true → Val.allSelFields q ty fs = true) := by
  have key : ∀ n : Nat,
      (∀ v, sizeOf v ≤ n → Val.allSel p v = true → Val.allSel q v = true) ∧
      (∀ xs : List Val, sizeOf xs ≤ n → Val.allSelList p xs = true → Val.allSelList q xs = true) ∧
      (∀ ty (fs : List (String × Val)), sizeOf fs ≤ n → Val.allSelFields p ty fs = true → Val.allSelFields q ty fs = true) := by
    intro n
    induction n with
    | zero =>
      refine ⟨?_, ?_, ?_⟩
      · intro v hv; cases v <;> simp at hv <;> omega
      · intro xs hx; cases xs <;> simp at hx <;> first | (simp [Val.allSelList]) | omega
      · intro ty fs hf; cases fs <;> simp at hf <;> first | (simp [Val.allSelFields]) | omega
    | succ n ih =>
      obtain ⟨ih1, ih2, ih3⟩ := ih
      refine ⟨?_, ?_, ?_⟩
      · intro v hv hp
        cases v with
        | num _ => simp [Val.allSel]
        | str _ => simp [Val.allSel]
        | list xs =>
          simp only [Val.allSel] at hp ⊢
          exact ih2 xs (by simp at hv; omega) hp
        | obj ty fs =>
          simp only [Val.allSel] at hp ⊢
          exact ih3 ty fs (by simp at hv; omega) hp
      · intro xs hx hp
        cases xs with
        | nil => simp [Val.allSelList]
        | cons x xs =>
          simp only [Val.allSelList, Bool.and_eq_true] at hp ⊢
          exact ⟨ih1 x (by simp at hx; omega) hp.1, ih2 xs (by simp at hx; omega) hp.2⟩
      · intro ty fs hf hp
        cases fs with
        | nil => simp [Val.allSelFields]
        | cons a fs =>
          obtain ⟨nm, v⟩ := a
          simp only [Val.allSelFields, Bool.and_eq_true] at hp ⊢
          exact ⟨⟨h _ _ hp.1.1, ih1 v (by simp at hf; omega) hp.1.2⟩, ih3 ty fs (by simp at hf; omega) hp.2⟩
  refine ⟨fun v => (key (sizeOf v)).1 v (Nat.le_refl _), fun xs => (key (sizeOf xs)).2.1 xs (Nat.le_refl _),
    fun ty fs => (key (sizeOf fs)).2.2 ty fs (Nat.le_refl _)⟩

theorem allSel_mono (p q : String → String → Bool) (h : ∀ t f, p t f = true → q t f = true) (v : Val) :
    Val.allSel p v = true → Val.allSel q v = true := (allSel_mono_aux p q h).1 v

end OG.C15
