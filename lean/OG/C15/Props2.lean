/-
C15 — snapshot + restore is the identity on the larger model too.
-/
import OG.C15.Snapshot2
import OG.C15.Props
import OG.C16.Props5

namespace OG.C15
open OG.Meta

def AllModel2 (p : Sel) : Prop := ∀ tf ∈ modelFields2, p tf.1 tf.2 = true

/-- every Go field the new state stands for is covered by the regenerated table -/
theorem modelFields2_covered : ∀ tf ∈ modelFields2, covered tf.1 tf.2 = true := by decide +kernel

theorem allModel2_clone : AllModel2 cloneOK := fun tf h => by
  have := modelFields2_covered tf h; simp [covered] at this; exact this.1.1
theorem allModel2_marshal : AllModel2 marshalOK := fun tf h => by
  have := modelFields2_covered tf h; simp [covered] at this; exact this.1.2
theorem allModel2_unmarshal : AllModel2 unmarshalOK := fun tf h => by
  have := modelFields2_covered tf h; simp [covered] at this; exact this.2

macro "msel2" h:ident t:str f:str : term => `($h ($t, $f) (by decide))

variable {p : Sel}

theorem maskStream_id (h : AllModel2 p) (s : Stream) : maskStream p s = s := by
  cases s
  simp [maskStream, keep_of_sel p _ _ _ (msel2 h "StreamInfo" "Name"), keep_of_sel p _ _ _ (msel2 h "StreamInfo" "ID"),
    keep_of_sel p _ _ _ (msel2 h "StreamInfo" "SrcMst"), keep_of_sel p _ _ _ (msel2 h "StreamInfo" "DesMst"),
    keep_of_sel p _ _ _ (msel2 h "StreamInfo" "Interval"), keep_of_sel p _ _ _ (msel2 h "StreamInfo" "Delay"),
    keep_of_sel p _ _ _ (msel2 h "StreamMeasurementInfo" "Database"), keep_of_sel p _ _ _ (msel2 h "StreamMeasurementInfo" "RetentionPolicy"),
    keep_of_sel p _ _ _ (msel2 h "StreamMeasurementInfo" "Name")]

theorem maskSub_id (h : AllModel2 p) (s : Sub) : maskSub p s = s := by
  cases s
  simp [maskSub, keep_of_sel p _ _ _ (msel2 h "SubscriptionInfo" "Name"), keep_of_sel p _ _ _ (msel2 h "SubscriptionInfo" "Mode"),
    keep_of_sel p _ _ _ (msel2 h "SubscriptionInfo" "Destinations")]

theorem maskCQ_id (h : AllModel2 p) (q : CQ) : maskCQ p q = q := by
  cases q
  simp [maskCQ, keep_of_sel p _ _ _ (msel2 h "ContinuousQueryInfo" "Name"), keep_of_sel p _ _ _ (msel2 h "ContinuousQueryInfo" "Query"),
    keep_of_sel p _ _ _ (msel2 h "ContinuousQueryInfo" "LastRunTime")]

theorem maskExt_id (h : AllModel2 p) (e : Ext) : maskExt p e = e := by
  cases e
  simp [maskExt, keep_of_sel p _ _ _ (msel2 h "Data" "TakeOverEnabled"), keep_of_sel p _ _ _ (msel2 h "Data" "BalancerEnabled"),
    keep_of_sel p _ _ _ (msel2 h "Data" "MaxStreamID"), keep_of_sel p _ _ _ (msel2 h "Data" "Streams"),
    keep_of_sel p _ _ _ (msel2 h "Data" "MaxSubscriptionID"), keep_of_sel p _ _ _ (msel2 h "Data" "MaxCQChangeID"),
    keep_of_sel p _ _ _ (msel2 h "RetentionPolicyInfo" "Subscriptions"), keep_of_sel p _ _ _ (msel2 h "DatabaseInfo" "ContinuousQueries"),
    map_id_of _ (maskStream_id h), map_id_of _ (maskSub_id h), map_id_of _ (maskCQ_id h)]

/-- **snapshot + restore is the identity on the larger state** (same hypotheses as T1) -/
theorem restore2_snapshot2_id (d : Data2) (h : KeysAreNames d.base) (hr : InRange d.base) : restore2 (snapshot2 d) = d := by
  unfold restore2 snapshot2
  simp only
  rw [restore_snapshot_id d.base h hr, maskExt_id allModel2_clone, maskExt_id allModel2_marshal, maskExt_id allModel2_unmarshal]

/-- … on every reachable state of the larger model (38 command types) whose group boundaries fit
the int64 range -/
theorem snapshot2_restore2_id (log : List Cmd2) (hr : InRange (applyAll2 Data2.init log).base) :
    restore2 (snapshot2 (applyAll2 Data2.init log)) = applyAll2 Data2.init log :=
  restore2_snapshot2_id _ (OG.C16.reachable2_keysAreNames log) hr

/-- **T2′** snapshot at any position of a log of the larger model, restore, replay the rest:
same catalogue as replaying everything — streams, subscriptions, continuous queries, the two
switches and the change counters included. -/
theorem snapshot_anywhere2 (log : List Cmd2) (i : Nat) (hr : InRange (applyAll2 Data2.init (log.take i)).base) :
    applyAll2 (restore2 (snapshot2 (applyAll2 Data2.init (log.take i)))) (log.drop i) = applyAll2 Data2.init log := by
  rw [snapshot2_restore2_id _ hr, ← OG.C16.applyAll2_append, List.take_append_drop]

/-- non-vacuity: the demo log of OG/C16/Props5.lean (ExpandGroups, a stream, a subscription, a
continuous query) is in range, and its state is not the initial one -/
example : InRange (applyAll2 Data2.init OG.C16.demoLog2).base ∧ (applyAll2 Data2.init OG.C16.demoLog2).ext.subs ≠ [] := by decide +kernel

end OG.C15
