/-
C15 — snapshot / restore of the larger model (OG/Meta/Model2.lean), from the same regenerated
coverage table: the new state (switches, streams, subscriptions, continuous queries and their
counters) names its Go fields too.
-/
import OG.Meta.Model2
import OG.C15.Snapshot

namespace OG.C15
open OG.Meta

def maskStream (p : Sel) (s : Stream) : Stream :=
  { name := keep p "StreamInfo" "Name" s.name, id := keep p "StreamInfo" "ID" s.id,
    srcDb := keep p "StreamInfo" "SrcMst" (keep p "StreamMeasurementInfo" "Database" s.srcDb),
    srcRp := keep p "StreamInfo" "SrcMst" (keep p "StreamMeasurementInfo" "RetentionPolicy" s.srcRp),
    srcMst := keep p "StreamInfo" "SrcMst" (keep p "StreamMeasurementInfo" "Name" s.srcMst),
    dstDb := keep p "StreamInfo" "DesMst" (keep p "StreamMeasurementInfo" "Database" s.dstDb),
    dstRp := keep p "StreamInfo" "DesMst" (keep p "StreamMeasurementInfo" "RetentionPolicy" s.dstRp),
    dstMst := keep p "StreamInfo" "DesMst" (keep p "StreamMeasurementInfo" "Name" s.dstMst),
    interval := keep p "StreamInfo" "Interval" s.interval, delay := keep p "StreamInfo" "Delay" s.delay }

def maskSub (p : Sel) (s : Sub) : Sub :=
  { name := keep p "SubscriptionInfo" "Name" s.name, mode := keep p "SubscriptionInfo" "Mode" s.mode,
    dests := keep p "SubscriptionInfo" "Destinations" s.dests }

def maskCQ (p : Sel) (q : CQ) : CQ :=
  { name := keep p "ContinuousQueryInfo" "Name" q.name, query := keep p "ContinuousQueryInfo" "Query" q.query,
    lastRun := keep p "ContinuousQueryInfo" "LastRunTime" q.lastRun }

def maskExt (p : Sel) (e : Ext) : Ext :=
  { takeOver := keep p "Data" "TakeOverEnabled" e.takeOver, balancer := keep p "Data" "BalancerEnabled" e.balancer,
    maxStreamID := keep p "Data" "MaxStreamID" e.maxStreamID,
    streams := keep p "Data" "Streams" (e.streams.map (maskStream p)),
    maxSubscriptionID := keep p "Data" "MaxSubscriptionID" e.maxSubscriptionID,
    subs := e.subs.map fun x => (x.1, keep p "RetentionPolicyInfo" "Subscriptions" (x.2.map (maskSub p))),
    maxCQChangeID := keep p "Data" "MaxCQChangeID" e.maxCQChangeID,
    cqs := e.cqs.map fun x => (x.1, keep p "DatabaseInfo" "ContinuousQueries" (x.2.map (maskCQ p))) }

/-- the Go fields the new state stands for -/
def modelFields2 : List (String × String) := [
  ("Data", "TakeOverEnabled"), ("Data", "BalancerEnabled"), ("Data", "MaxStreamID"), ("Data", "Streams"), ("Data", "MaxSubscriptionID"),
  ("Data", "MaxCQChangeID"),
  ("StreamInfo", "Name"), ("StreamInfo", "ID"), ("StreamInfo", "SrcMst"), ("StreamInfo", "DesMst"), ("StreamInfo", "Interval"),
  ("StreamInfo", "Delay"), ("StreamMeasurementInfo", "Database"), ("StreamMeasurementInfo", "RetentionPolicy"), ("StreamMeasurementInfo", "Name"),
  ("RetentionPolicyInfo", "Subscriptions"), ("SubscriptionInfo", "Name"), ("SubscriptionInfo", "Mode"), ("SubscriptionInfo", "Destinations"),
  ("DatabaseInfo", "ContinuousQueries"), ("ContinuousQueryInfo", "Name"), ("ContinuousQueryInfo", "Query"), ("ContinuousQueryInfo", "LastRunTime")
]

def snapshot2 (d : Data2) : Data2 := ⟨snapshot d.base, maskExt marshalOK (maskExt cloneOK d.ext)⟩
def restore2 (d : Data2) : Data2 := ⟨restore d.base, maskExt unmarshalOK d.ext⟩

end OG.C15
