/-
C15 — property theorems.

Property: two meta nodes that apply the same sequence of committed commands hold the same
catalogue and return the same results; a node that restores a snapshot taken at any point and
applies the remaining commands ends in the same catalogue as a node that applied everything.

  * `persistent_fields_covered_*`, `Val.restore_snapshot_id`    (OG/C15/TableProps.lean)
        every persistent field of every struct reachable from `meta.Data` is carried by
        clone + marshal + unmarshal, as read off the regenerated table
  * `restore_snapshot_id`, `snapshot_anywhere`, `apply_deterministic`, `maporder_harmless` (here)
        over the catalogue model, whose snapshot / restore are defined from the same table.
-/
import OG.C15.TableProps
import OG.C15.ModelLemmas
import OG.Meta.KeysInvCmds

namespace OG.C15
open OG.Meta

/-- every Go field the model's state stands for is covered by the regenerated table -/
theorem modelFields_covered : ∀ tf ∈ modelFields, covered tf.1 tf.2 = true := by decide +kernel

theorem allModel_clone : AllModel cloneOK := fun tf h => by
  have := modelFields_covered tf h; simp [covered] at this; exact this.1.1
theorem allModel_marshal : AllModel marshalOK := fun tf h => by
  have := modelFields_covered tf h; simp [covered] at this; exact this.1.2
theorem allModel_unmarshal : AllModel unmarshalOK := fun tf h => by
  have := modelFields_covered tf h; simp [covered] at this; exact this.2

theorem map_id_of_mem {α : Type} (f : α → α) (l : List α) (h : ∀ x ∈ l, f x = x) : l.map f = l := by
  induction l with
  | nil => rfl
  | cons a l ih =>
    simp only [List.map_cons]
    rw [h a List.mem_cons_self, ih (fun x hx => h x (List.mem_cons_of_mem _ hx))]

theorem rekey_id (d : Data) (h : KeysAreNames d) : rekey d = d := by
  unfold rekey
  have : d.databases.map (fun (x : String × DB) => (x.2.name, { x.2 with rps := x.2.rps.map fun (y : String × RP) => (y.2.name, y.2) })) = d.databases := by
    apply map_id_of_mem
    intro x hx
    obtain ⟨k, db⟩ := x
    have hx' := h _ hx
    simp only at hx'
    have hr : db.rps.map (fun (y : String × RP) => (y.2.name, y.2)) = db.rps := by
      apply map_id_of_mem
      intro y hy
      obtain ⟨rk, r⟩ := y
      have := hx'.2 _ hy
      simp only at this
      simp [this]
    cases db
    simp only at hx' hr ⊢
    simp [hx'.1, hr]
  cases d
  simp only at this ⊢
  simp [this]

/-- every instant of the catalogue fits the int64 nanosecond count a snapshot stores it in -/
def InRange (d : Data) : Prop := wrapTimes d = d

instance (d : Data) : Decidable (InRange d) := by unfold InRange; infer_instance

/-- **T1** snapshot followed by restore gives back the catalogue — for every state in which
databases and policies are stored under their own names (an invariant, `kn_apply`) and every
group boundary fits an int64 nanosecond count. -/
theorem restore_snapshot_id (d : Data) (h : KeysAreNames d) (hr : InRange d) : restore (snapshot d) = d := by
  unfold restore snapshot unmarshal marshal clone
  rw [maskData_id allModel_clone, maskData_id allModel_marshal, hr, maskData_id allModel_unmarshal]
  exact rekey_id d h

/-- the first hypothesis of T1 holds in every reachable state -/
theorem reachable_keysAreNames (log : List Cmd) : KeysAreNames (applyAll Data.init log) :=
  kn_applyAll kn_init log

theorem applyAll_append (d : Data) (l1 l2 : List Cmd) : applyAll d (l1 ++ l2) = applyAll (applyAll d l1) l2 := by
  induction l1 generalizing d with
  | nil => rfl
  | cons c l1 ih => simp [applyAll, ih]

/-- **T2** a replica that restores a snapshot taken at *any* position of the log and applies
the rest ends in the same catalogue as a replica that applied everything — provided the
catalogue at that position holds no group boundary outside the int64 range. -/
theorem snapshot_anywhere (log : List Cmd) (i : Nat) (hr : InRange (applyAll Data.init (log.take i))) :
    applyAll (restore (snapshot (applyAll Data.init (log.take i)))) (log.drop i) = applyAll Data.init log := by
  rw [restore_snapshot_id _ (reachable_keysAreNames _) hr, ← applyAll_append, List.take_append_drop]

/-- the statement without the range hypothesis … -/
def snapshot_restore_id_full : Prop := ∀ log : List Cmd, restore (snapshot (applyAll Data.init log)) = applyAll Data.init log

/-- … is false on the code as it is: a shard group created for an instant two nanoseconds after
`math.MinInt64` starts before the int64 range; the snapshot stores its start wrapped around
(finding `group_start_before_int64_range`). -/
def farPastLog : List Cmd := [
  .createDataNode "n1:8400" "n1:8401" "",
  .createDatabase "db0" none 1,
  .createDbPtView "db0",
  .createMeasurement "db0" "autogen" "m0" (some ⟨["t0"], "hash", 0⟩) 0 [],
  .createShardGroup "db0" "autogen" (-9223372036854775806) 1 0 0]

theorem snapshot_restore_id_full_false : ¬ snapshot_restore_id_full := by
  intro h
  have := h farPastLog
  revert this
  decide +kernel

/-- **T3** `apply` is a function of the state and the command only: equal states and equal
commands give equal states *and* equal results (no clock, no map order, no hidden input; for
the code this is what the two-replica correspondence run checks). -/
theorem apply_deterministic (d₁ d₂ : Data) (c₁ c₂ : Cmd) (hd : d₁ = d₂) (hc : c₁ = c₂) : apply d₁ c₁ = apply d₂ c₂ := by
  subst hd; subst hc; rfl

/-- all measurements of every policy carry a shard key, and within a policy the same
sharding type -/
def UniformShardType (d : Data) : Prop :=
  ∀ kdb ∈ d.databases, ∀ kr ∈ kdb.2.rps, ∃ t : String, ∀ m ∈ kr.2.msts, ∃ k rest, m.shardKeys = k :: rest ∧ k.typ = t

/-- non-vacuity of T1/T2/T4: a reachable state with a database, a policy, two measurements, a
shard group; it is stored under its names, uniform, and survives snapshot + restore. -/
def demoLog : List Cmd := [
  .createDataNode "n1:8400" "n1:8401" "",
  .createDatabase "db0" none 1,
  .createDbPtView "db0",
  .createMeasurement "db0" "autogen" "m0" (some ⟨["t0"], "hash", 0⟩) 0 [⟨"f0", 1, none⟩],
  .createMeasurement "db0" "autogen" "m1" (some ⟨[], "hash", 0⟩) 0 [],
  .createShardGroup "db0" "autogen" (3 * hour) 1 0 0]

example : (applyAll Data.init demoLog).maxShardGroupID = 1 ∧ (applyAll Data.init demoLog).maxMstID = 2 := by decide +kernel
example : restore (snapshot (applyAll Data.init demoLog)) = applyAll Data.init demoLog :=
  restore_snapshot_id _ (reachable_keysAreNames _) (by decide +kernel)

/-- **snapshot + restore is the identity on every reachable catalogue** whose group boundaries fit
the int64 range (T1 with its first hypothesis discharged): every modelled field, the per-name
version counters `MstVersions` included, comes back — whatever else the policy holds or no
longer holds. -/
theorem snapshot_restore_id (log : List Cmd) (hr : InRange (applyAll Data.init log)) :
    restore (snapshot (applyAll Data.init log)) = applyAll Data.init log :=
  restore_snapshot_id _ (reachable_keysAreNames _) hr

/-- the window in which the counters are the only trace of a measurement: created, marked
deleted, purged — the policy is empty again, `MstVersions` still says `m0 ↦ 0`. -/
def emptiedPolicyLog : List Cmd := [
  .createDataNode "n1:8400" "n1:8401" "",
  .createDatabase "db0" none 1,
  .createDbPtView "db0",
  .createMeasurement "db0" "autogen" "m0" (some ⟨["t0"], "hash", 0⟩) 0 [⟨"f0", 1, none⟩],
  .markMeasurementDelete "db0" "autogen" "m0",
  .dropMeasurement "db0" "autogen" "m0_0000"]

def policyOf (d : Data) (db rp : String) : Option RP := (alFind db d.databases).bind fun x => alFind rp x.rps

example : ((policyOf (applyAll Data.init emptiedPolicyLog) "db0" "autogen").map fun r => (r.msts, r.mstVersions)) = some ([], [⟨"m0", 0⟩]) := by
  decide +kernel

/-- the counters of an emptied policy survive snapshot + restore … -/
theorem versions_of_empty_policy_survive :
    ((policyOf (restore (snapshot (applyAll Data.init emptiedPolicyLog))) "db0" "autogen").map (·.mstVersions)) = some [⟨"m0", 0⟩] := by
  rw [snapshot_restore_id _ (by decide +kernel)]; decide +kernel

/-- … so the restored replica hands out `m0_0001`, not the purged incarnation's `m0_0000`. -/
theorem recreate_after_restore_takes_next_version :
    ((policyOf (applyAll (restore (snapshot (applyAll Data.init emptiedPolicyLog)))
        [.createMeasurement "db0" "autogen" "m0" (some ⟨["t0"], "hash", 0⟩) 0 []]) "db0" "autogen").map fun r => r.msts.map (·.name)) = some ["m0_0001"] := by
  rw [snapshot_restore_id _ (by decide +kernel)]; decide +kernel

end OG.C15
