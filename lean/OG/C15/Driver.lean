/-
C15 — line-protocol driver (core only). The ops of OG/Meta/Session.lean plus

  snap <value>      → the value after `restore (snapshot ·)` as the regenerated coverage table
                      predicts it (fields clone / marshal / unmarshal do not carry are reset)
  snaprestore       → ok      the model's catalogue goes through its own snapshot + restore
  transients        → transients <ty.field,…>   (compared with the harness's list)
-/
import OG.Meta.Session
import OG.C15.Snapshot2

namespace OG.C15
open OG.Meta

def extra (s : Sess) (toks : List String) (_line : String) : Option (Sess × String) :=
  match toks with
  | "snap" :: rest =>
    match OG.Meta.Val.parse (rest.length + 2) rest with
    | some (v, []) => some (s, (Val.restore (Val.snapshot v)).render)
    | _ => none
  | ["snaprestore"] => some ({ s with cur := restore2 (snapshot2 s.cur) }, "ok")
  | ["transients"] =>
    let names := (transient.map fun (t, f) => t ++ "." ++ f)
    some (s, "transients " ++ ",".intercalate (names.toArray.qsort (· < ·)).toList)
  | _ => none

def main : IO Unit := do
  OG.Meta.runLoop extra (← IO.getStdin) (← IO.getStdout) {}

end OG.C15

def main : IO Unit := OG.C15.main
