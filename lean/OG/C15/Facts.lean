/-
C15 — expectations about the regenerated facts (the coverage table itself is consumed by the
theorems of TableProps.lean; here: its shape, the dispatch table, the snapshot path).
-/
import OG.C15.Table

namespace OG.C15.Facts
open OG.Gen.C15 OG.C15

theorem generation_ok : generationFailed = false := by rfl

/-- struct types of package meta that a listed struct refers to but that are not listed:
only the two that hang off transient fields (`Data.OpsMap`, `Data.SQLite`). -/
theorem unlistedStructs_expected : unlistedStructs = ["Op", "SQLiteWrapper"] := by rfl

/-- the 65 command types of the state machine's dispatch table (the harness must generate
every one of them: `kinds-exercised` in the evidence). -/
theorem commandTypes_expected : commandTypes = ["CreateDatabaseCommand", "DropDatabaseCommand", "CreateRetentionPolicyCommand", "DropRetentionPolicyCommand", "SetDefaultRetentionPolicyCommand", "UpdateRetentionPolicyCommand", "CreateShardGroupCommand", "DeleteShardGroupCommand", "CreateSubscriptionCommand", "DropSubscriptionCommand", "CreateUserCommand", "DropUserCommand", "UpdateUserCommand", "SetPrivilegeCommand", "SetAdminPrivilegeCommand", "SetDataCommand", "CreateMetaNodeCommand", "DeleteMetaNodeCommand", "SetMetaNodeCommand", "CreateDataNodeCommand", "CreateSqlNodeCommand", "DeleteDataNodeCommand", "MarkDatabaseDeleteCommand", "MarkRetentionPolicyDeleteCommand", "CreateMeasurementCommand", "ReShardingCommand", "UpdateSchemaCommand", "AlterShardKeyCmd", "PruneGroupsCommand", "MarkMeasurementDeleteCommand", "DropMeasurementCommand", "DeleteIndexGroupCommand", "UpdateShardInfoTierCommand", "UpdateNodeStatusCommand", "UpdateSqlNodeStatusCommand", "CreateEventCommand", "UpdateEventCommand", "UpdatePtInfoCommand", "RemoveEventCommand", "CreateDownSamplePolicyCommand", "DropDownSamplePolicyCommand", "CreateDbPtViewCommand", "UpdateShardDownSampleInfoCommand", "MarkTakeoverCommand", "MarkBalancerCommand", "CreateStreamCommand", "DropStreamCommand", "VerifyDataNodeCommand", "ExpandGroupsCommand", "UpdatePtVersionCommand", "RegisterQueryIDOffsetCommand", "CreateContinuousQueryCommand", "ContinuousQueryReportCommand", "DropContinuousQueryCommand", "NotifyCQLeaseChangedCommand", "SetNodeSegregateStatusCommand", "RemoveNodeCommand", "UpdateReplicationCommand", "UpdateMeasurementCommand", "UpdateNodeTmpIndexCommand", "InsertFilesCommand", "UpdateMetaNodeStatusCommand", "UpdateIndexInfoTierCommand", "ReplaceMergeShardsCommand", "RecoverMetaData"] := by rfl

theorem src_Snapshot_expected : src_Snapshot = "{ s := (*Store)(fsm) s.mu.Lock() defer s.mu.Unlock() return &storeFSMSnapshot{Data: fsm.data.Clone()}, nil }" := by rfl
theorem src_Persist_expected : src_Persist = "{ persist := func() error { dataBytes, err := s.Data.MarshalBinary() if err != nil { return err } if _, err := sink.Write(dataBytes); err != nil { return err } return sink.Close() } if err := persist(); err != nil { if cancelErr := sink.Cancel(); cancelErr != nil { return cancelErr } return err } return nil }" := by rfl
theorem src_Restore_expected : src_Restore = "{ b, err := io.ReadAll(r) if err != nil { return err } data := &meta2.Data{} if err = data.UnmarshalBinary(b); err != nil { return err } if fsm.UseIncSyncData { data.SetOps(fsm.data) } fsm.data = data fsm.restoreCQNames() return nil }" := by rfl
theorem src_MarshalBinary_expected : src_MarshalBinary = "{ return proto.Marshal(data.Marshal()) }" := by rfl
theorem src_UnmarshalBinary_expected : src_UnmarshalBinary = "{ var pb proto2.Data if err := proto.Unmarshal(buf, &pb); err != nil { return err } data.Unmarshal(&pb) return nil }" := by rfl

/-- `CreateShardGroup` / `createShards` read nothing of the picked measurement but its shard
keys (the premise of `maporder_harmless`). -/
theorem createShardGroup_mstiReads_expected : createShardGroup_mstiReads = ["ShardKeys"] := by rfl
theorem createShards_mstiReads_expected : createShards_mstiReads = ["ShardKeys"] := by rfl

/-- the persistent fields the table reports as not carried are exactly the recorded gaps -/
def uncoveredPersistent : List (String × String) :=
  (fieldTable.filter fun r => !isTransient r.ty r.field && !covered r.ty r.field).map fun r => (r.ty, r.field)

set_option maxRecDepth 100000 in
theorem uncoveredPersistent_expected : uncoveredPersistent = knownGaps := by decide +kernel

set_option maxRecDepth 100000 in
/-- every transient entry names a field of the table -/
theorem transient_in_table : (transient.all fun tf => (findFact tf.1 tf.2).isSome) = true := by decide +kernel

end OG.C15.Facts
