/-
C15 — expectations about the regenerated facts (the coverage table itself is consumed by the
theorems of TableProps.lean; here: its shape, the dispatch table, the snapshot path).
-/
import OG.C15.Table

namespace OG.C15.Facts
open OG.Gen.C15 OG.C15

theorem generation_ok : generationFailed = false := by rfl

/-- struct types of package meta that a listed struct refers to but that are not listed:
only the two that hang off transient fields (`Data.OpsMap`, `Data.SQLite`). -/
theorem unlistedStructs_expected : unlistedStructs = ["Op", "SQLiteWrapper"] := by rfl

/-- the 65 command types of the state machine's dispatch table (the harness must generate
every one of them: `kinds-exercised` in the evidence). -/
theorem commandTypes_expected : commandTypes = ["CreateDatabaseCommand", "DropDatabaseCommand", "CreateRetentionPolicyCommand", "DropRetentionPolicyCommand", "SetDefaultRetentionPolicyCommand", "UpdateRetentionPolicyCommand", "CreateShardGroupCommand", "DeleteShardGroupCommand", "CreateSubscriptionCommand", "DropSubscriptionCommand", "CreateUserCommand", "DropUserCommand", "UpdateUserCommand", "SetPrivilegeCommand", "SetAdminPrivilegeCommand", "SetDataCommand", "CreateMetaNodeCommand", "DeleteMetaNodeCommand", "SetMetaNodeCommand", "CreateDataNodeCommand", "CreateSqlNodeCommand", "DeleteDataNodeCommand", "MarkDatabaseDeleteCommand", "MarkRetentionPolicyDeleteCommand", "CreateMeasurementCommand", "ReShardingCommand", "UpdateSchemaCommand", "AlterShardKeyCmd", "PruneGroupsCommand", "MarkMeasurementDeleteCommand", "DropMeasurementCommand", "DeleteIndexGroupCommand", "UpdateShardInfoTierCommand", "UpdateNodeStatusCommand", "UpdateSqlNodeStatusCommand", "CreateEventCommand", "UpdateEventCommand", "UpdatePtInfoCommand", "RemoveEventCommand", "CreateDownSamplePolicyCommand", "DropDownSamplePolicyCommand", "CreateDbPtViewCommand", "UpdateShardDownSampleInfoCommand", "MarkTakeoverCommand", "MarkBalancerCommand", "CreateStreamCommand", "DropStreamCommand", "VerifyDataNodeCommand", "ExpandGroupsCommand", "UpdatePtVersionCommand", "RegisterQueryIDOffsetCommand", "CreateContinuousQueryCommand", "ContinuousQueryReportCommand", "DropContinuousQueryCommand", "NotifyCQLeaseChangedCommand", "SetNodeSegregateStatusCommand", "RemoveNodeCommand", "UpdateReplicationCommand", "UpdateMeasurementCommand", "UpdateNodeTmpIndexCommand", "InsertFilesCommand", "UpdateMetaNodeStatusCommand", "UpdateIndexInfoTierCommand", "ReplaceMergeShardsCommand", "RecoverMetaData"] := by rfl

theorem src_Snapshot_expected : src_Snapshot = "{ s := (*Store)(fsm) s.mu.Lock() defer s.mu.Unlock() return &storeFSMSnapshot{Data: fsm.data.Clone()}, nil }" := by rfl
theorem src_Persist_expected : src_Persist = "{ persist := func() error { dataBytes, err := s.Data.MarshalBinary() if err != nil { return err } if _, err := sink.Write(dataBytes); err != nil { return err } return sink.Close() } if err := persist(); err != nil { if cancelErr := sink.Cancel(); cancelErr != nil { return cancelErr } return err } return nil }" := by rfl
theorem src_Restore_expected : src_Restore = "{ b, err := io.ReadAll(r) if err != nil { return err } data := &meta2.Data{} if err = data.UnmarshalBinary(b); err != nil { return err } if fsm.UseIncSyncData { data.SetOps(fsm.data) } fsm.data = data fsm.restoreCQNames() return nil }" := by rfl
theorem src_MarshalBinary_expected : src_MarshalBinary = "{ return proto.Marshal(data.Marshal()) }" := by rfl
theorem src_UnmarshalBinary_expected : src_UnmarshalBinary = "{ var pb proto2.Data if err := proto.Unmarshal(buf, &pb); err != nil { return err } data.Unmarshal(&pb) return nil }" := by rfl

/-- `CreateShardGroup` / `createShards` read nothing of the picked measurement but its shard
keys (the premise of `maporder_harmless`) — and its name, for the text of the refusal when it
has none (`fix:` 01de664). -/
theorem createShardGroup_mstiReads_expected : createShardGroup_mstiReads = ["Name", "ShardKeys"] := by rfl
theorem createShards_mstiReads_expected : createShards_mstiReads = ["ShardKeys"] := by rfl

/-- the persistent fields the table reports as not carried are exactly the recorded gaps -/
def uncoveredPersistent : List (String × String) :=
  (fieldTable.filter fun r => !isTransient r.ty r.field && !covered r.ty r.field).map fun r => (r.ty, r.field)

set_option maxRecDepth 100000 in
theorem uncoveredPersistent_expected : uncoveredPersistent = knownGaps := by decide +kernel

set_option maxRecDepth 100000 in
/-- every transient entry names a field of the table -/
theorem transient_in_table : (transient.all fun tf => (findFact tf.1 tf.2).isSome) = true := by decide +kernel

/-! ### guards (structural coverage): under which conditions a field is written -/

/-- every residual guard of the table: a condition on something other than the carried field -/
def residualGuards : List (String × String × String × String) :=
  fieldTable.flatMap fun r =>
    (r.marshalGuard.map fun g => (r.ty, r.field, "marshal", g)) ++
    (r.unmarshalGuard.map fun g => (r.ty, r.field, "unmarshal", g)) ++
    (r.cloneGuard.map fun g => (r.ty, r.field, "clone", g))

set_option maxRecDepth 100000 in
/-- … they are exactly the recorded, justified ones (`guardAllowed`): container-emptiness tests
around the elements of a container, and the transient SQLite handle. A field newly marshalled
under a condition on another field shows up here (and in `tableOK`). -/
theorem residualGuards_expected : residualGuards = [
    ("Data", "SQLite", "unmarshal", "pb.GetIsSQLiteEnabled()"),
    ("MeasurementVer", "Version", "marshal", "rpi.MstVersions != nil"), ("MeasurementVer", "Version", "marshal", "range rpi.MstVersions"),
    ("SchemaVal", "Typ", "marshal", "cs != nil"), ("SchemaVal", "Typ", "marshal", "range *cs"),
    ("SchemaVal", "EndTime", "marshal", "cs != nil"), ("SchemaVal", "EndTime", "marshal", "range *cs"),
    ("Peer", "ID", "marshal", "len(rg.Peers) > 0"), ("Peer", "ID", "marshal", "range rg.Peers"),
    ("Peer", "ID", "unmarshal", "len(pb.GetPeers()) > 0"), ("Peer", "ID", "unmarshal", "range pb.Peers"),
    ("Peer", "PtRole", "marshal", "len(rg.Peers) > 0"), ("Peer", "PtRole", "marshal", "range rg.Peers"),
    ("Peer", "PtRole", "unmarshal", "len(pb.GetPeers()) > 0"), ("Peer", "PtRole", "unmarshal", "range pb.Peers")] := by decide +kernel

set_option maxRecDepth 100000 in
theorem residualGuards_allowed : (residualGuards.all fun g => guardAllowed.contains g) = true := by decide +kernel

/-- the guards ogfacts classified as harmless (a non-emptiness test of the carried field itself,
of the protobuf field it is rebuilt from, or of the struct / message as a whole), pinned: a
change of this list means the snapshot path changed shape and is re-validated. In particular
`RetentionPolicyInfo.MstVersions marshal: rpi.MstVersions != nil` — the version counters are
written whether or not the policy still has measurements. -/
theorem selfGuards_expected : selfGuards = ["Data.ReplicaGroups marshal: len(data.ReplicaGroups) > 0", "Data.ReplicaGroups unmarshal: !(len(pb.ReplicaGroups) == 0)", "DatabaseInfo.ContinuousQueries clone: di.ContinuousQueries != nil", "DatabaseInfo.ContinuousQueries unmarshal: len(pb.GetContinuousQueries()) > 0", "DatabaseInfo.Options clone: di.Options != nil", "DatabaseInfo.Options marshal: di.Options != nil", "DatabaseInfo.Options unmarshal: pb.GetOptions() != nil", "DatabaseInfo.RetentionPolicies clone: di.RetentionPolicies != nil", "DatabaseInfo.RetentionPolicies unmarshal: len(pb.GetRetentionPolicies()) > 0", "DatabaseInfo.ShardKey marshal: di.ShardKey.ShardKey != nil || di.ShardKey.Type != \"\" || di.ShardKey.ShardGroup != 0", "DatabaseInfo.ShardKey unmarshal: pb.ShardKey != nil", "DbPtInfo.Pti unmarshal: pb.GetPt() != nil", "DbPtInfo.Shards marshal: range pt.Shards", "DbPtInfo.Shards unmarshal: len(pb.Shards) > 0", "DownSamplePolicyInfo.Calls marshal: len(d.Calls) > 0", "DownSamplePolicyInfo.Calls unmarshal: range pb.GetCalls()", "DownSamplePolicyInfo.DownSamplePolicies marshal: len(d.DownSamplePolicies) > 0", "DownSamplePolicyInfo.DownSamplePolicies unmarshal: range pb.GetDownSamplePolicies()", "IndexGroupInfo.ClearInfo unmarshal: pb.GetClearInfo() != nil", "IndexGroupInfo.EndTime unmarshal: !(i == 0)", "IndexGroupInfo.Indexes clone: igi.Indexes != nil", "IndexGroupInfo.Indexes unmarshal: len(pb.GetIndexes()) > 0", "IndexGroupInfo.StartTime unmarshal: !(i == 0)", "MeasurementInfo.ColStoreInfo clone: msti.ColStoreInfo != nil", "MeasurementInfo.ColStoreInfo marshal: msti.ColStoreInfo != nil", "MeasurementInfo.ColStoreInfo unmarshal: pb.GetColStoreInfo() != nil", "MeasurementInfo.IndexRelation unmarshal: pb.GetIndexRelation() != nil", "MeasurementInfo.ObsOptions clone: msti.ObsOptions != nil", "MeasurementInfo.ObsOptions marshal: msti.ObsOptions != nil", "MeasurementInfo.ObsOptions unmarshal: pb.GetObsOptions() != nil", "MeasurementInfo.Options clone: msti.Options != nil", "MeasurementInfo.Options marshal: msti.Options != nil", "MeasurementInfo.Options unmarshal: pb.GetOptions() != nil", "MeasurementInfo.Schema unmarshal: pbSchema != nil", "MeasurementInfo.ShardIdexes marshal: msti.ShardIdexes != nil", "MeasurementInfo.ShardKeys clone: msti.ShardKeys != nil", "MeasurementInfo.ShardKeys marshal: msti.ShardKeys != nil", "MeasurementInfo.ShardKeys unmarshal: pb.GetShardKeys() != nil", "MeasurementVer.NameWithVersion unmarshal: len(pb.GetMstVersions()) > 0", "MeasurementVer.NameWithVersion unmarshal: range mstVersions", "MeasurementVer.Version unmarshal: len(pb.GetMstVersions()) > 0", "MeasurementVer.Version unmarshal: range mstVersions", "ReplicaClearInfo.ClearPeers marshal: !(rci == nil)", "ReplicaClearInfo.NoClearIndexId marshal: !(rci == nil)", "ReplicaGroup.Peers marshal: len(rg.Peers) > 0", "ReplicaGroup.Peers unmarshal: len(pb.GetPeers()) > 0", "RetentionPolicyInfo.DownSamplePolicyInfo clone: rpi.DownSamplePolicyInfo != nil", "RetentionPolicyInfo.DownSamplePolicyInfo marshal: rpi.DownSamplePolicyInfo != nil", "RetentionPolicyInfo.DownSamplePolicyInfo unmarshal: pb.GetDownSamplePolicyInfo() != nil", "RetentionPolicyInfo.IndexGroups clone: rpi.IndexGroups != nil", "RetentionPolicyInfo.IndexGroups unmarshal: len(pb.GetIndexGroups()) > 0", "RetentionPolicyInfo.Measurements clone: rpi.Measurements != nil", "RetentionPolicyInfo.Measurements marshal: len(rpi.Measurements) > 0", "RetentionPolicyInfo.Measurements unmarshal: len(pb.GetMeasurements()) > 0", "RetentionPolicyInfo.MstVersions clone: rpi.MstVersions != nil", "RetentionPolicyInfo.MstVersions marshal: rpi.MstVersions != nil", "RetentionPolicyInfo.MstVersions unmarshal: len(pb.GetMstVersions()) > 0", "RetentionPolicyInfo.ShardGroups clone: rpi.ShardGroups != nil", "RetentionPolicyInfo.ShardGroups unmarshal: len(pb.GetShardGroups()) > 0", "RetentionPolicyInfo.Subscriptions clone: rpi.Subscriptions != nil", "RetentionPolicyInfo.Subscriptions marshal: len(rpi.Subscriptions) > 0", "RetentionPolicyInfo.Subscriptions unmarshal: len(pb.GetSubscriptions()) > 0", "SchemaVal.EndTime unmarshal: pbSchema != nil", "SchemaVal.EndTime unmarshal: range pbSchema", "SchemaVal.Typ unmarshal: pbSchema != nil", "SchemaVal.Typ unmarshal: range pbSchema", "ShardDurationInfo.Ident unmarshal: pb.Ident != nil", "ShardGroupInfo.EndTime unmarshal: !(i == 0)", "ShardGroupInfo.Shards clone: sgi.Shards != nil", "ShardGroupInfo.Shards unmarshal: len(pb.GetShards()) > 0", "ShardGroupInfo.StartTime unmarshal: !(i == 0)", "ShardGroupInfo.TruncatedAt marshal: !sgi.TruncatedAt.IsZero()", "ShardGroupInfo.TruncatedAt unmarshal: pb != nil", "ShardGroupInfo.TruncatedAt unmarshal: pb.TruncatedAt != nil", "ShardKeyInfo.ShardGroup marshal: ski.ShardGroup > 0", "ShardKeyInfo.ShardGroup unmarshal: pb.GetSgID() > 0", "StreamInfo.Calls marshal: len(s.Calls) > 0", "StreamInfo.Calls unmarshal: len(pb.Calls) > 0", "StreamInfo.Dims marshal: len(s.Dims) > 0", "SubscriptionInfo.Destinations unmarshal: len(pb.GetDestinations()) > 0", "UserInfo.Privileges clone: u.Privileges != nil", "UserInfo.Privileges marshal: range u.Privileges", "UserInfo.Privileges unmarshal: len(pb.Privileges) > 0"] := by rfl

/-! ### aliasing: reference-typed fields that `clone` shares with the live catalogue -/

def aliasedFields : List (String × String) := (fieldTable.filter aliased).map fun r => (r.ty, r.field)

set_option maxRecDepth 100000 in
/-- exactly the recorded ones (`aliasAllowed` ++ `aliasKnown`): `Data.SqlNodes`,
`RetentionPolicyInfo.Subscriptions` and `RetentionPolicyInfo.DownSamplePolicyInfo` were on this
list until the `fix:` that makes `Clone` copy them. -/
theorem aliasedFields_expected : aliasedFields = [
    ("Data", "ReplicaGroups"), ("Data", "OpsMap"), ("Data", "SQLite"), ("ShardKeyInfo", "ShardKey"),
    ("ColStoreInfo", "PrimaryKey"), ("ColStoreInfo", "SortKey"), ("ColStoreInfo", "PropertyKey"), ("ColStoreInfo", "PropertyValue"),
    ("IndexGroupInfo", "ClearInfo"), ("ReplicaClearInfo", "ClearPeers"), ("SubscriptionInfo", "Destinations"),
    ("DownSamplePolicyInfo", "Calls"), ("DownSamplePolicyInfo", "DownSamplePolicies"), ("DownSampleOperators", "AggOps"),
    ("DbPtInfo", "Pti"), ("DbPtInfo", "Shards"), ("DbPtInfo", "DBBriefInfo"), ("ReplicaGroup", "Peers")] := by decide +kernel

end OG.C15.Facts
