/-
C15 — the typed mask is the identity when every Go field the model stands for is selected.
-/
import OG.C15.Snapshot

namespace OG.C15
open OG.Meta

def AllModel (p : Sel) : Prop := ∀ tf ∈ modelFields, p tf.1 tf.2 = true

theorem keep_of_sel {α : Type} [HasZero α] (p : Sel) (ty f : String) (x : α) (h : p ty f = true) : keep p ty f x = x := by
  simp [keep, h]

theorem map_id_of {α : Type} (f : α → α) (h : ∀ x, f x = x) (l : List α) : l.map f = l := by
  induction l with
  | nil => rfl
  | cons a l ih => simp [h a, ih]

macro "msel" h:ident t:str f:str : term => `($h ($t, $f) (by decide))

variable {p : Sel}

theorem maskShardKey_id (h : AllModel p) (k : ShardKey) : maskShardKey p k = k := by
  cases k
  simp [maskShardKey, keep_of_sel p _ _ _ (msel h "ShardKeyInfo" "ShardKey"), keep_of_sel p _ _ _ (msel h "ShardKeyInfo" "Type"),
    keep_of_sel p _ _ _ (msel h "ShardKeyInfo" "ShardGroup")]

theorem maskSchemaField_id (h : AllModel p) (f : SchemaField) : maskSchemaField p f = f := by
  cases f
  simp [maskSchemaField, keep_of_sel p _ _ _ (msel h "SchemaVal" "Typ"), keep_of_sel p _ _ _ (msel h "SchemaVal" "EndTime")]

theorem maskMst_id (h : AllModel p) (m : Mst) : maskMst p m = m := by
  cases m
  simp [maskMst, keep_of_sel p _ _ _ (msel h "MeasurementInfo" "Name"), keep_of_sel p _ _ _ (msel h "MeasurementInfo" "ID"),
    keep_of_sel p _ _ _ (msel h "MeasurementInfo" "MarkDeleted"), keep_of_sel p _ _ _ (msel h "MeasurementInfo" "EngineType"),
    keep_of_sel p _ _ _ (msel h "MeasurementInfo" "ShardKeys"), keep_of_sel p _ _ _ (msel h "MeasurementInfo" "Schema"),
    map_id_of _ (maskShardKey_id h), map_id_of _ (maskSchemaField_id h)]

theorem maskVer_id (h : AllModel p) (v : MstVer) : maskVer p v = v := by
  cases v
  simp [maskVer, keep_of_sel p _ _ _ (msel h "MeasurementVer" "Version")]

theorem maskShard_id (h : AllModel p) (s : Shard) : maskShard p s = s := by
  cases s
  simp [maskShard, keep_of_sel p _ _ _ (msel h "ShardInfo" "ID"), keep_of_sel p _ _ _ (msel h "ShardInfo" "Owners"),
    keep_of_sel p _ _ _ (msel h "ShardInfo" "IndexID"), keep_of_sel p _ _ _ (msel h "ShardInfo" "Tier"),
    keep_of_sel p _ _ _ (msel h "ShardInfo" "MarkDelete")]

theorem maskSG_id (h : AllModel p) (g : SG) : maskSG p g = g := by
  cases g
  simp [maskSG, keep_of_sel p _ _ _ (msel h "ShardGroupInfo" "ID"), keep_of_sel p _ _ _ (msel h "ShardGroupInfo" "StartTime"),
    keep_of_sel p _ _ _ (msel h "ShardGroupInfo" "EndTime"), keep_of_sel p _ _ _ (msel h "ShardGroupInfo" "DeletedAt"),
    keep_of_sel p _ _ _ (msel h "ShardGroupInfo" "EngineType"), keep_of_sel p _ _ _ (msel h "ShardGroupInfo" "Version"),
    keep_of_sel p _ _ _ (msel h "ShardGroupInfo" "Shards"), map_id_of _ (maskShard_id h)]

theorem maskIndex_id (h : AllModel p) (x : Index) : maskIndex p x = x := by
  cases x
  simp [maskIndex, keep_of_sel p _ _ _ (msel h "IndexInfo" "ID"), keep_of_sel p _ _ _ (msel h "IndexInfo" "Owners"),
    keep_of_sel p _ _ _ (msel h "IndexInfo" "MarkDelete"), keep_of_sel p _ _ _ (msel h "IndexInfo" "Tier")]

theorem maskIG_id (h : AllModel p) (g : IG) : maskIG p g = g := by
  cases g
  simp [maskIG, keep_of_sel p _ _ _ (msel h "IndexGroupInfo" "ID"), keep_of_sel p _ _ _ (msel h "IndexGroupInfo" "StartTime"),
    keep_of_sel p _ _ _ (msel h "IndexGroupInfo" "EndTime"), keep_of_sel p _ _ _ (msel h "IndexGroupInfo" "DeletedAt"),
    keep_of_sel p _ _ _ (msel h "IndexGroupInfo" "EngineType"), keep_of_sel p _ _ _ (msel h "IndexGroupInfo" "Indexes"),
    map_id_of _ (maskIndex_id h)]

theorem maskRP_id (h : AllModel p) (r : RP) : maskRP p r = r := by
  cases r
  simp [maskRP, keep_of_sel p _ _ _ (msel h "RetentionPolicyInfo" "Name"), keep_of_sel p _ _ _ (msel h "RetentionPolicyInfo" "ReplicaN"),
    keep_of_sel p _ _ _ (msel h "RetentionPolicyInfo" "Duration"), keep_of_sel p _ _ _ (msel h "RetentionPolicyInfo" "ShardGroupDuration"),
    keep_of_sel p _ _ _ (msel h "RetentionPolicyInfo" "ShardMergeDuration"), keep_of_sel p _ _ _ (msel h "RetentionPolicyInfo" "HotDuration"),
    keep_of_sel p _ _ _ (msel h "RetentionPolicyInfo" "WarmDuration"), keep_of_sel p _ _ _ (msel h "RetentionPolicyInfo" "IndexColdDuration"),
    keep_of_sel p _ _ _ (msel h "RetentionPolicyInfo" "IndexGroupDuration"), keep_of_sel p _ _ _ (msel h "RetentionPolicyInfo" "IndexGroups"),
    keep_of_sel p _ _ _ (msel h "RetentionPolicyInfo" "Measurements"), keep_of_sel p _ _ _ (msel h "RetentionPolicyInfo" "MstVersions"),
    keep_of_sel p _ _ _ (msel h "RetentionPolicyInfo" "ShardGroups"), keep_of_sel p _ _ _ (msel h "RetentionPolicyInfo" "MarkDeleted"),
    map_id_of _ (maskIG_id h), map_id_of _ (maskMst_id h), map_id_of _ (maskVer_id h), map_id_of _ (maskSG_id h)]

theorem maskDB_id (h : AllModel p) (db : DB) : maskDB p db = db := by
  cases db
  simp [maskDB, keep_of_sel p _ _ _ (msel h "DatabaseInfo" "Name"), keep_of_sel p _ _ _ (msel h "DatabaseInfo" "DefaultRetentionPolicy"),
    keep_of_sel p _ _ _ (msel h "DatabaseInfo" "RetentionPolicies"), keep_of_sel p _ _ _ (msel h "DatabaseInfo" "MarkDeleted"),
    keep_of_sel p _ _ _ (msel h "DatabaseInfo" "ReplicaN"), maskRP_id h]

theorem maskPt_id (h : AllModel p) (x : Pt) : maskPt p x = x := by
  cases x
  simp [maskPt, keep_of_sel p _ _ _ (msel h "PtInfo" "Owner"), keep_of_sel p _ _ _ (msel h "PtOwner" "NodeID"),
    keep_of_sel p _ _ _ (msel h "PtInfo" "Status"), keep_of_sel p _ _ _ (msel h "PtInfo" "PtId"), keep_of_sel p _ _ _ (msel h "PtInfo" "Ver")]

theorem maskNode_id (h : AllModel p) (n : Node) : maskNode p n = n := by
  cases n
  simp [maskNode, keep_of_sel p _ _ _ (msel h "DataNode" "NodeInfo"), keep_of_sel p _ _ _ (msel h "DataNode" "ConnID"),
    keep_of_sel p _ _ _ (msel h "NodeInfo" "ID"), keep_of_sel p _ _ _ (msel h "NodeInfo" "Host"),
    keep_of_sel p _ _ _ (msel h "NodeInfo" "TCPHost"), keep_of_sel p _ _ _ (msel h "NodeInfo" "Role")]

theorem maskUser_id (h : AllModel p) (u : User) : maskUser p u = u := by
  cases u
  simp [maskUser, keep_of_sel p _ _ _ (msel h "UserInfo" "Name"), keep_of_sel p _ _ _ (msel h "UserInfo" "Hash"),
    keep_of_sel p _ _ _ (msel h "UserInfo" "Admin"), keep_of_sel p _ _ _ (msel h "UserInfo" "Rwuser"),
    keep_of_sel p _ _ _ (msel h "UserInfo" "Privileges")]

theorem maskData_id (h : AllModel p) (d : Data) : maskData p d = d := by
  cases d
  simp [maskData, keep_of_sel p _ _ _ (msel h "Data" "ClusterPtNum"), keep_of_sel p _ _ _ (msel h "Data" "PtNumPerNode"),
    keep_of_sel p _ _ _ (msel h "Data" "MaxNodeID"), keep_of_sel p _ _ _ (msel h "Data" "MaxShardGroupID"),
    keep_of_sel p _ _ _ (msel h "Data" "MaxShardID"), keep_of_sel p _ _ _ (msel h "Data" "MaxMstID"),
    keep_of_sel p _ _ _ (msel h "Data" "MaxIndexGroupID"), keep_of_sel p _ _ _ (msel h "Data" "MaxIndexID"),
    keep_of_sel p _ _ _ (msel h "Data" "MaxConnID"), keep_of_sel p _ _ _ (msel h "Data" "DataNodes"),
    keep_of_sel p _ _ _ (msel h "Data" "PtView"), keep_of_sel p _ _ _ (msel h "Data" "Databases"), keep_of_sel p _ _ _ (msel h "Data" "Users"),
    map_id_of _ (maskNode_id h), map_id_of _ (maskUser_id h), maskDB_id h]
  apply map_id_of
  intro x
  simp [map_id_of _ (maskPt_id h)]

end OG.C15
