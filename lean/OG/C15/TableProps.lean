/-
C15 — what the regenerated coverage table says (closed by kernel evaluation of the table), and
the generic round-trip theorem over value trees.
-/
import OG.C15.Lemmas

namespace OG.C15
open OG.Meta OG.Gen.C15

/-- the table check as one Boolean -/
def tableOK : Bool :=
  fieldTable.all fun r => isTransient r.ty r.field || isGap r.ty r.field || covered r.ty r.field

set_option maxRecDepth 100000 in
theorem tableOK_true : tableOK = true := by decide +kernel

/-- **every persistent field is covered** (full statement): each field of `meta.Data` and of
every struct reachable from it that is not on the justified transient list is copied by
`clone`, written by `marshal`, and rebuilt by `unmarshal` from what `marshal` wrote. -/
def persistent_fields_covered_full : Prop :=
  ∀ r ∈ fieldTable, isTransient r.ty r.field = false → covered r.ty r.field = true

/-- on the unchanged tree the full statement is false: `DataNode.Index` (read and written by
UpdateNodeTmpIndex) has no protobuf field. -/
theorem persistent_fields_covered_full_false : ¬ persistent_fields_covered_full := by
  intro h
  have hm : (⟨"DataNode", "Index", "uint64", [], [], "byValue", [], [], []⟩ : FieldFact) ∈ fieldTable := by decide +kernel
  have := h _ hm (by decide +kernel)
  revert this
  decide +kernel

/-- … and it holds for every other persistent field. -/
theorem persistent_fields_covered_partial :
    ∀ r ∈ fieldTable, isTransient r.ty r.field = false → isGap r.ty r.field = false → covered r.ty r.field = true := by
  intro r hr h1 h2
  have := tableOK_true
  unfold tableOK at this
  rw [List.all_eq_true] at this
  have := this r hr
  simp [h1, h2] at this
  exact this

/-- non-vacuity: the table has persistent, covered rows (e.g. the measurement id, which the
unrepaired `clone` dropped). -/
example : covered "MeasurementInfo" "ID" = true ∧ isTransient "MeasurementInfo" "ID" = false := by decide +kernel

/-- a field of a value tree is admissible when it is neither transient nor a known gap and
belongs to the table (or to a struct the table does not track) -/
def admissible (ty field : String) : Bool :=
  !isTransient ty field && !isGap ty field && ((findFact ty field).isSome || !tracked ty)

theorem covered_of_admissible (ty field : String) (h : admissible ty field = true) : covered ty field = true := by
  unfold admissible at h
  simp only [Bool.and_eq_true, Bool.not_eq_true', Bool.or_eq_true] at h
  obtain ⟨⟨ht, hg⟩, hk⟩ := h
  cases hf : findFact ty field with
  | none =>
    have htr : tracked ty = false := by
      rcases hk with hk | hk
      · simp [hf] at hk
      · exact hk
    simp [covered, cloneOK, marshalOK, unmarshalOK, sel, hf, htr]
  | some r =>
    have hmem : r ∈ fieldTable := List.mem_of_find?_eq_some hf
    have hprop := List.find?_some hf
    simp only [Bool.and_eq_true, beq_iff_eq] at hprop
    have := persistent_fields_covered_partial r hmem (by rw [hprop.1, hprop.2]; exact ht) (by rw [hprop.1, hprop.2]; exact hg)
    rw [hprop.1, hprop.2] at this
    exact this

/-- **generic round trip**: a value all of whose record fields are admissible comes back
unchanged from `restore ∘ snapshot` (= unmarshal ∘ marshal ∘ clone). -/
theorem Val.restore_snapshot_id (v : OG.Meta.Val) (h : OG.Meta.Val.allSel admissible v = true) :
    Val.restore (Val.snapshot v) = v := by
  have hc : OG.Meta.Val.allSel cloneOK v = true :=
    allSel_mono admissible cloneOK (fun t f ha => by have := covered_of_admissible t f ha; simp [covered] at this; exact this.1.1) v h
  have hm : OG.Meta.Val.allSel marshalOK v = true :=
    allSel_mono admissible marshalOK (fun t f ha => by have := covered_of_admissible t f ha; simp [covered] at this; exact this.1.2) v h
  have hu : OG.Meta.Val.allSel unmarshalOK v = true :=
    allSel_mono admissible unmarshalOK (fun t f ha => by have := covered_of_admissible t f ha; simp [covered] at this; exact this.2) v h
  unfold Val.restore Val.snapshot Val.unmarshal Val.marshal Val.clone
  rw [OG.Meta.Val.mask_of_allSel cloneOK v hc, OG.Meta.Val.mask_of_allSel marshalOK v hm, OG.Meta.Val.mask_of_allSel unmarshalOK v hu]

/-- non-vacuity: a measurement record with a non-zero id is admissible and survives. -/
example : Val.restore (Val.snapshot (.obj "MeasurementInfo" [("Name", .str "6d305f30303030"), ("ID", .num 2)]))
    = .obj "MeasurementInfo" [("Name", .str "6d305f30303030"), ("ID", .num 2)] :=
  Val.restore_snapshot_id _ (by decide +kernel)

/-- the known gap does lose data: a data node's tmp index does not survive. -/
theorem node_index_lost :
    Val.restore (Val.snapshot (.obj "DataNode" [("Index", .num 9)])) = .obj "DataNode" [("Index", .num 0)] := by
  have h : marshalOK "DataNode" "Index" = false := by decide +kernel
  have h2 : cloneOK "DataNode" "Index" = true := by decide +kernel
  have h3 : unmarshalOK "DataNode" "Index" = false := by decide +kernel
  simp [Val.restore, Val.snapshot, Val.unmarshal, Val.marshal, Val.clone, OG.Meta.Val.mask, OG.Meta.Val.maskFields, OG.Meta.Val.zero, h, h2, h3]

end OG.C15
