import OG.C13.Driver
def main : IO Unit := OG.C13.main
