/-
C13 — operations, runs, and the specification the read shapes are compared with: a
last-write-wins history of the acknowledged cells keyed by *series key*, from which a drop
removes exactly the cells of the series it names (Core-only, executable).
-/
import OG.C13.Model

namespace OG.C13
open OG.C02

inductive Op where
  | write (b : List Row)            -- rows keyed by series key
  | flush
  | compact
  | merge
  | dropSeries (m : String) (p : Pred)
  | dropMst (m : String)
  | purge
  | tick
  | reopen
  | crash
  | imerge (sel : List Nat)          -- a merge of the index parts at these positions, start to end
  | mbegin (sel : List Nat)          -- a merger takes these index parts ...
  | mend                             -- ... and finishes
  | regroup (gs : List (List Nat))   -- the background mergers of a new process regrouped the parts
deriving Repr

def St.step (U : Univ) (st : St) : Op → St
  | .write b => st.write b
  | .flush => st.flush
  | .compact => st.compact
  | .merge => st.mergeOOO
  | .dropSeries m p => (st.dropSeries U m p).1
  | .dropMst m => st.dropMst U m
  | .purge => st.purge
  | .tick => st.tick
  | .reopen => st.reopen
  | .crash => st.crash
  | .imerge sel => st.imerge sel
  | .mbegin sel => st.mbegin sel
  | .mend => st.mend
  | .regroup gs => st.regroup gs

def run (U : Univ) (st : St) (ops : List Op) : St := ops.foldl (St.step U) st

/-- the specification state. -/
structure Sp where
  cells : List Cell      -- acknowledged cells that were not dropped, keyed by series key, newest first
  known : List Nat       -- series that exist, in order of creation
deriving Repr

def Sp.init : Sp := ⟨[], []⟩

def addKnown (known : List Nat) (b : List Row) : List Nat :=
  b.foldl (fun k r => if k.contains r.s then k else k ++ [r.s]) known

/-- a series named by DROP SERIES FROM m WHERE p. -/
def named (U : Univ) (m : String) (p : Pred) (kid : Nat) : Bool :=
  U.mst kid == m && p.eval (U.tags kid)

def Sp.step (U : Univ) (sp : Sp) : Op → Sp
  | .write b => { cells := batchCells b ++ sp.cells, known := addKnown sp.known b }
  | .dropSeries m p =>
    { cells := sp.cells.filter (fun c => !named U m p c.s), known := sp.known.filter (fun k => !named U m p k) }
  | .dropMst m => { sp with cells := sp.cells.filter (fun c => !(U.mst c.s == m)) }
  | _ => sp

def specRun (U : Univ) (sp : Sp) (ops : List Op) : Sp := ops.foldl (Sp.step U) sp

/-! ### the read shapes over the specification -/

def Sp.search (U : Univ) (sp : Sp) (m : String) (p : Pred) : List Nat :=
  sp.known.filter fun k => U.mst k == m && p.eval (U.tags k)

def Sp.sel (U : Univ) (sp : Sp) (m : String) (c : Cond) (dims : List String) (lo hi : Int) (asc : Bool)
    (fields : List String) : List SelRow :=
  let kids := sp.known.filter fun k => U.mst k == m && c.series (U.tags k)
  (sortDistinct kids).flatMap fun kid => selSeries sp.cells (U.tags kid) kid kid c dims lo hi asc fields

def Sp.agg (U : Univ) (sp : Sp) (m call : String) (c : Cond) (dims : List String) (lo hi : Int) :
    List (String × Int) :=
  aggOf call (sp.sel U m c dims lo hi true ["fi"])

def Sp.series (U : Univ) (sp : Sp) (m : String) (p : Pred) : List Nat := sortNat (sp.search U m p)
def Sp.tagKeys (U : Univ) (sp : Sp) (m : String) (p : Pred) : List String := tagKeysOf U (sp.series U m p)
def Sp.tagVals (U : Univ) (sp : Sp) (m : String) (keys : List String) (p : Pred) : List (String × List String) :=
  tagValsOf U (sp.search U m p) keys
def Sp.tagValCard (U : Univ) (sp : Sp) (m : String) (keys : List String) (p : Pred) : Nat :=
  (sortDistinct ((sp.tagVals U m keys p).flatMap (·.2))).length
def Sp.card (U : Univ) (sp : Sp) (m : String) (p : Option Pred) : Nat :=
  match p with
  | none => (sp.search U m .all).length
  | some p => (sp.search U m p).length

/-! ### the hypothesis that excludes the two known defect classes -/

/-- replaying the WAL through the write path gives every row the tsid it had when it was
written: no series with a row in the WAL was dropped since. -/
def replayStable (st : St) : Bool :=
  let ix0 : Idx := st.idx.restart
  let r := resolveBatches ix0 (replayOrder st.lay.nParts st.kwal)
  decide (r.2 = roundRobin st.lay.nParts (st.lay.wal.length + 1) st.lay.wal) && decide (r.1 = ix0)

def safeOp (st : St) : Op → Bool
  | .reopen => replayStable st.tick
  | .crash => replayStable st && st.idx.delPend.isEmpty
  | _ => true

/-- `Safe`: no restart while the WAL holds rows of a dropped series, no crash while an
acknowledged drop is only in memory. -/
def safeRun (U : Univ) : St → List Op → Bool
  | _, [] => true
  | st, op :: ops => safeOp st op && safeRun U (st.step U op) ops

def Safe (U : Univ) (st : St) (ops : List Op) : Prop := safeRun U st ops = true

end OG.C13
