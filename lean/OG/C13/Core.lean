/-
C13 — the refinement relation between the drop model and its specification, and its
preservation by a write (the index hands every row the visible tsid of its series key, or a
fresh one).
-/
import OG.C13.Lemmas

namespace OG.C13
open OG.C02

/-- an index entry is visible: its tsid is not in the deleted set. -/
def Idx.visible (ix : Idx) (e : Ent) : Bool := !ix.deleted.contains e.id

theorem vis_true (ix : Idx) (e : Ent) : ix.vis true e = ix.visible e := by
  simp [Idx.vis, Idx.visible]

structure IdxOK (ix : Idx) : Prop where
  nodup : ix.ents.Nodup
  idLt : ∀ e ∈ ix.ents, e.id < ix.next
  idInj : ∀ e1 ∈ ix.ents, ∀ e2 ∈ ix.ents, e1.id = e2.id → e1 = e2
  uniq : ∀ e1 ∈ ix.ents, ∀ e2 ∈ ix.ents, e1.kid = e2.kid → ix.visible e1 = true → ix.visible e2 = true → e1 = e2
  delLt : ∀ id, (id ∈ ix.deleted ∨ id ∈ ix.delDisk ∨ id ∈ ix.delPend) → id < ix.next
  delSync : ∀ e ∈ ix.ents, (e.id ∈ ix.deleted ↔ e.id ∈ ix.delDisk ∨ e.id ∈ ix.delPend)
  born : ∀ e ∈ ix.ents, ix.born.lookup e.id = some e.kid
  bornLt : ∀ x ∈ ix.born, x.1 < ix.next

/-- what ties index + cells (keyed by tsid) to the specification (keyed by series key). -/
structure Core (ix : Idx) (cs : List Cell) (sp : Sp) : Prop where
  idx : IdxOK ix
  cellLt : ∀ c ∈ cs, c.s < ix.next
  data : ∀ e ∈ ix.ents, ix.visible e = true → ∀ t f, lookup (e.id, t, f) cs = lookup (e.kid, t, f) sp.cells
  none : ∀ kid, (∀ e ∈ ix.ents, e.kid = kid → ix.visible e = false) → ∀ t f, lookup (kid, t, f) sp.cells = none
  known : sp.known = (ix.ents.filter ix.visible).map (·.kid)

theorem core_init : Core Idx.init [] Sp.init := by
  refine ⟨⟨?_, ?_, ?_, ?_, ?_, ?_, ?_, ?_⟩, ?_, ?_, ?_, ?_⟩ <;> simp [Idx.init, Sp.init, lookup]

/-- the cell list may be replaced by a lookup-equivalent one that invents no cell. -/
theorem Core.congr {ix : Idx} {cs cs' : List Cell} {sp : Sp} (h : Core ix cs sp)
    (he : Equiv cs' cs) (hm : ∀ c ∈ cs', c ∈ cs) : Core ix cs' sp :=
  ⟨h.idx, fun c hc => h.cellLt c (hm c hc), fun e he' hv t f => (he _).trans (h.data e he' hv t f),
   h.none, h.known⟩

/-! ### cells of one row -/

theorem lookup_row_cells (s s' : Nat) (t t' : Int) (f : String) (fs : List (String × String)) :
    lookup (s, t, f) (Row.cells ⟨s', t', fs⟩) =
      if s' = s ∧ t' = t then lookup (0, 0, f) (Row.cells ⟨0, 0, fs⟩) else none := by
  induction fs with
  | nil => simp [Row.cells, lookup]
  | cons x xs ih =>
    obtain ⟨k, v⟩ := x
    simp only [Row.cells, List.map_cons, lookup, Cell.key, Prod.mk.injEq] at ih ⊢
    by_cases h1 : s' = s <;> by_cases h2 : t' = t <;> by_cases h3 : k = f <;> simp_all

/-- the cells of a row under another series name read the same. -/
theorem lookup_row_relabel (a : Nat) (r : Row) (t : Int) (f : String) :
    lookup (a, t, f) (Row.cells { r with s := a }) = lookup (r.s, t, f) r.cells := by
  obtain ⟨s, t', fs⟩ := r
  rw [lookup_row_cells a a, lookup_row_cells s s]
  simp

theorem lookup_row_other (a b : Nat) (r : Row) (t : Int) (f : String) (h : a ≠ b) :
    lookup (a, t, f) (Row.cells { r with s := b }) = none := by
  obtain ⟨s, t', fs⟩ := r
  rw [lookup_row_cells a b]
  simp [Ne.symm h]

theorem lookup_row_other' (a : Nat) (r : Row) (t : Int) (f : String) (h : a ≠ r.s) :
    lookup (a, t, f) r.cells = none := lookup_row_other a r.s r t f h

theorem row_cells_s (r : Row) (c : Cell) (h : c ∈ r.cells) : c.s = r.s := by
  simp only [Row.cells, List.mem_map] at h
  obtain ⟨x, _, rfl⟩ := h
  rfl

/-! ### the index on the write path -/

theorem liveId_some {ix : Idx} {kid id : Nat} (h : ix.liveId kid = some id) :
    ∃ e ∈ ix.ents, e.kid = kid ∧ e.id = id ∧ ix.visible e = true := by
  simp only [Idx.liveId, Option.map_eq_some_iff] at h
  obtain ⟨e, he, rfl⟩ := h
  have hp := List.find?_some he
  have hm := List.mem_of_find?_eq_some he
  simp only [Bool.and_eq_true, beq_iff_eq] at hp
  exact ⟨e, hm, hp.1, rfl, by simpa [Idx.visible] using hp.2⟩

theorem liveId_none {ix : Idx} {kid : Nat} (h : ix.liveId kid = none) :
    ∀ e ∈ ix.ents, e.kid = kid → ix.visible e = false := by
  simp only [Idx.liveId, Option.map_eq_none_iff, List.find?_eq_none] at h
  intro e he hk
  have := h e he
  simp only [hk, beq_self_eq_true, Bool.true_and] at this
  simpa [Idx.visible] using this

/-- one row: the index resolves its series key, the cells go on top. -/
theorem core_row {ix : Idx} {cs : List Cell} {sp : Sp} (h : Core ix cs sp) (r : Row) :
    Core (ix.resolve r.s).1 (Row.cells { r with s := (ix.resolve r.s).2 } ++ cs)
      ⟨r.cells ++ sp.cells, if sp.known.contains r.s then sp.known else sp.known ++ [r.s]⟩ := by
  unfold Idx.resolve
  cases hl : ix.liveId r.s with
  | some id =>
    obtain ⟨e, he, hk, hid, hv⟩ := liveId_some hl
    simp only []
    refine ⟨h.idx, ?_, ?_, ?_, ?_⟩
    · intro c hc
      simp only [List.mem_append] at hc
      rcases hc with hc | hc
      · rw [row_cells_s _ c hc]; simpa [← hid] using h.idx.idLt e he
      · exact h.cellLt c hc
    · intro e0 he0 hv0 t f
      rw [lookup_append, lookup_append, h.data e0 he0 hv0 t f]
      by_cases hq : e0.id = id
      · have : e0 = e := h.idx.idInj e0 he0 e he (by rw [hq, hid])
        subst this
        rw [← hq, lookup_row_relabel e0.id r t f, hk]
      · have hq2 : e0.kid ≠ r.s := by
          intro hc
          exact hq (by rw [h.idx.uniq e0 he0 e he (by rw [hc, hk]) hv0 hv, hid])
        rw [lookup_row_other _ _ r t f hq, lookup_row_other' _ r t f hq2]
    · intro kid hkid t f
      have hne : kid ≠ r.s := by
        intro hc
        have := hkid e he (by rw [hk, hc])
        rw [hv] at this; cases this
      rw [lookup_append, lookup_row_other' _ r t f hne]
      exact h.none kid hkid t f
    · have : sp.known.contains r.s = true := by
        rw [h.known]
        simp only [List.contains_eq_mem, List.mem_map, List.mem_filter, decide_eq_true_eq]
        exact ⟨e, ⟨he, hv⟩, hk⟩
      simp only [this, if_true]
      exact h.known
  | none =>
    have hnv := liveId_none hl
    simp only []
    have hfresh : ∀ id, (id ∈ ix.deleted ∨ id ∈ ix.delDisk ∨ id ∈ ix.delPend) → id ≠ ix.next :=
      fun id hid => Nat.ne_of_lt (h.idx.delLt id hid)
    have hvis_new : (!ix.deleted.contains ix.next) = true := by
      simp only [List.contains_eq_mem, Bool.not_eq_true', decide_eq_false_iff_not]
      intro hc; exact hfresh _ (Or.inl hc) rfl
    refine ⟨⟨?_, ?_, ?_, ?_, ?_, ?_, ?_, ?_⟩, ?_, ?_, ?_, ?_⟩
    · simp only []
      rw [List.nodup_append]
      refine ⟨h.idx.nodup, by simp, ?_⟩
      intro a ha b hb hab
      simp only [List.mem_singleton] at hb
      subst hb; subst hab
      have := h.idx.idLt _ ha
      simp only [] at this
      omega
    · intro e he
      simp only [List.mem_append, List.mem_singleton] at he
      rcases he with he | rfl
      · have := h.idx.idLt e he; simp only []; omega
      · simp
    · intro e1 h1 e2 h2 hq
      simp only [List.mem_append, List.mem_singleton] at h1 h2
      rcases h1 with h1 | rfl <;> rcases h2 with h2 | rfl
      · exact h.idx.idInj e1 h1 e2 h2 hq
      · have := h.idx.idLt e1 h1; simp only [] at hq; omega
      · have := h.idx.idLt e2 h2; simp only [] at hq; omega
      · rfl
    · intro e1 h1 e2 h2 hq hv1 hv2
      simp only [List.mem_append, List.mem_singleton] at h1 h2
      simp only [Idx.visible] at hv1 hv2
      rcases h1 with h1 | rfl <;> rcases h2 with h2 | rfl
      · exact h.idx.uniq e1 h1 e2 h2 hq hv1 hv2
      · have := hnv e1 h1 hq; simp only [Idx.visible] at this; rw [this] at hv1; cases hv1
      · have := hnv e2 h2 hq.symm; simp only [Idx.visible] at this; rw [this] at hv2; cases hv2
      · rfl
    · intro id hid
      have := h.idx.delLt id hid; simp only []; omega
    · intro e he
      simp only [List.mem_append, List.mem_singleton] at he
      rcases he with he | rfl
      · exact h.idx.delSync e he
      · simp only []
        constructor
        · intro hc; exact absurd rfl (hfresh _ (Or.inl hc))
        · intro hc
          rcases hc with hc | hc
          · exact absurd rfl (hfresh _ (Or.inr (Or.inl hc)))
          · exact absurd rfl (hfresh _ (Or.inr (Or.inr hc)))
    · intro e he
      simp only [List.mem_append, List.mem_singleton] at he
      rcases he with he | rfl
      · have hne : (ix.next == e.id) = false := by
          have := h.idx.idLt e he
          simp only [beq_eq_false_iff_ne, ne_eq]; omega
        simp only [List.lookup, hne]
        have := h.idx.born e he
        rw [show (e.id == ix.next) = false by
          have := h.idx.idLt e he
          simp only [beq_eq_false_iff_ne, ne_eq]; omega]
        exact this
      · simp [List.lookup]
    · intro x hx
      simp only [List.mem_cons] at hx
      rcases hx with rfl | hx
      · simp
      · have := h.idx.bornLt x hx; simp only []; omega
    · intro c hc
      simp only [List.mem_append] at hc
      rcases hc with hc | hc
      · rw [row_cells_s _ c hc]; simp
      · have := h.cellLt c hc; simp only []; omega
    · intro e0 he0 hv0 t f
      simp only [List.mem_append, List.mem_singleton] at he0
      simp only [Idx.visible] at hv0
      rw [lookup_append, lookup_append]
      rcases he0 with he0 | rfl
      · have hq : e0.id ≠ ix.next := Nat.ne_of_lt (h.idx.idLt e0 he0)
        have hq2 : e0.kid ≠ r.s := by
          intro hc
          have := hnv e0 he0 hc
          simp only [Idx.visible] at this
          rw [this] at hv0; cases hv0
        rw [lookup_row_other _ _ r t f hq, lookup_row_other' _ r t f hq2]
        exact h.data e0 he0 hv0 t f
      · simp only []
        rw [lookup_row_relabel ix.next r t f]
        have h1 : lookup (ix.next, t, f) cs = none := by
          apply lookup_none_of_no_key
          intro c hc hk
          have := h.cellLt c hc
          simp only [Cell.key, Prod.mk.injEq] at hk
          omega
        rw [h1, h.none r.s hnv t f]
    · intro kid hkid t f
      have hne : kid ≠ r.s := by
        intro hc
        have := hkid ⟨r.s, ix.next⟩ (by simp) hc.symm
        simp only [Idx.visible] at this
        rw [hvis_new] at this; cases this
      rw [lookup_append, lookup_row_other' _ r t f hne]
      apply h.none kid _ t f
      intro e he hk
      have := hkid e (by simp [he]) hk
      simpa [Idx.visible] using this
    · have : sp.known.contains r.s = false := by
        rw [h.known]
        simp only [List.contains_eq_mem, List.mem_map, List.mem_filter, decide_eq_false_iff_not]
        rintro ⟨e, ⟨he, hv⟩, hk⟩
        rw [hnv e he hk] at hv; cases hv
      simp only [this, Bool.false_eq_true, if_false]
      rw [h.known]
      simp only [List.filter_append, List.map_append]
      congr 1
      simp only [List.filter, Idx.visible, hvis_new, List.map_cons, List.map_nil]

end OG.C13
