/-
C13 — the parts of the index table: what the walk of the purge leaves in which part, the
invariant that ties the index entries to the parts, and its preservation by every operation.
-/
import OG.C13.Core

namespace OG.C13
open OG.C02

/-! ### the regenerated protocol facts, as the proofs use them -/

theorem selected_eq (p : Part) : p.selected = (!p.inMerge && !p.mark) := by
  simp only [Part.selected, OG.Gen.C13.purgeSkipsInMerge, OG.Gen.C13.purgeSkipsMarked, Bool.true_and]
  cases p.inMerge <;> cases p.mark <;> rfl

theorem mergeable_eq (p : Part) : p.mergeable = (!p.inMerge && !p.mark) := by
  simp only [Part.mergeable, OG.Gen.C13.mergeSkipsInMerge, OG.Gen.C13.mergeSkipsMarked, Bool.true_and]
  cases p.inMerge <;> cases p.mark <;> rfl

theorem rewritePart_eq (del : List Nat) (p : Part) :
    rewritePart del p =
      if p.hit del then
        (none, if (p.ids.filter fun i => !del.contains i).isEmpty then none
               else some ⟨p.ids.filter fun i => !del.contains i, false, false⟩)
      else (some { p with mark := false }, none) := by
  simp only [rewritePart, OG.Gen.C13.purgeMarksSelected, OG.Gen.C13.purgeUnchangedClearsMark,
    OG.Gen.C13.purgeChangedReplacesPart, OG.Gen.C13.purgeNewPartUnflagged]
  cases p.hit del <;> simp

theorem purgeRefused_eq (parts : List Part) : purgeRefused parts = parts.any (·.inMerge) := by
  simp [purgeRefused, OG.Gen.C13.purgeRefusesWhenInMerge, OG.Gen.C13.purgeRefusesWhenMarked,
    OG.Gen.C13.purgeSkipsInMerge]

theorem hit_false {del : List Nat} {p : Part} (h : p.hit del = false) : ∀ i ∈ p.ids, i ∉ del := by
  simpa [Part.hit] using h

/-! ### which tsids the parts hold after the walk -/

/-- a tsid is in some part after the walk iff it was in a part before and either the walk did not
take that part or the tsid is not deleted. -/
theorem mem_purgeParts (del : List Nat) (parts : List Part) (i : Nat) :
    (∃ q ∈ purgeParts del parts, i ∈ q.ids) ↔
      ∃ p ∈ parts, i ∈ p.ids ∧ (p.selected = false ∨ i ∉ del) := by
  simp only [purgeParts, List.mem_append, List.mem_filterMap]
  constructor
  · rintro ⟨q, ⟨p, hp, hq⟩ | ⟨p, hp, hq⟩, hi⟩
    · cases hs : p.selected
      · simp only [hs, Bool.false_eq_true, if_false, Option.some.injEq] at hq
        subst hq
        exact ⟨p, hp, hi, Or.inl hs⟩
      · simp only [hs, if_true, rewritePart_eq] at hq
        cases hh : p.hit del
        · simp only [hh, Bool.false_eq_true, if_false, Option.some.injEq] at hq
          subst hq
          exact ⟨p, hp, hi, Or.inr (hit_false hh i hi)⟩
        · simp [hh] at hq
    · cases hs : p.selected
      · simp [hs] at hq
      · simp only [hs, if_true, rewritePart_eq] at hq
        cases hh : p.hit del
        · simp [hh] at hq
        · simp only [hh, if_true] at hq
          split at hq
          · cases hq
          · simp only [Option.some.injEq] at hq
            subst hq
            simp only [List.mem_filter, Bool.not_eq_true', List.contains_eq_mem, decide_eq_false_iff_not] at hi
            exact ⟨p, hp, hi.1, Or.inr hi.2⟩
  · rintro ⟨p, hp, hi, hc⟩
    cases hs : p.selected
    · exact ⟨p, Or.inl ⟨p, hp, by simp [hs]⟩, hi⟩
    · have hnd : i ∉ del := by
        rcases hc with hc | hc
        · rw [hs] at hc; cases hc
        · exact hc
      cases hh : p.hit del
      · exact ⟨{ p with mark := false }, Or.inl ⟨p, hp, by simp [hs, rewritePart_eq, hh]⟩, hi⟩
      · have hmem : i ∈ p.ids.filter fun i => !del.contains i := by
          simp only [List.mem_filter, Bool.not_eq_true', List.contains_eq_mem, decide_eq_false_iff_not]
          exact ⟨hi, hnd⟩
        have hne : (p.ids.filter fun i => !del.contains i).isEmpty = false := by
          cases hf : p.ids.filter fun i => !del.contains i with
          | nil => rw [hf] at hmem; cases hmem
          | cons _ _ => rfl
        refine ⟨⟨p.ids.filter fun i => !del.contains i, false, false⟩, Or.inr ⟨p, hp, ?_⟩, hmem⟩
        simp only [hs, if_true, rewritePart_eq, hh, hne, Bool.false_eq_true, if_false]

/-- after the walk a part carries the purge mark only if the walk did not take it. -/
theorem mark_purgeParts (del : List Nat) (parts : List Part) (q : Part) (hq : q ∈ purgeParts del parts)
    (hm : q.mark = true) : ∃ p ∈ parts, p.selected = false ∧ p.mark = true := by
  simp only [purgeParts, List.mem_append, List.mem_filterMap] at hq
  rcases hq with ⟨p, hp, hq⟩ | ⟨p, hp, hq⟩
  · cases hs : p.selected
    · simp only [hs, Bool.false_eq_true, if_false, Option.some.injEq] at hq
      subst hq
      exact ⟨p, hp, hs, hm⟩
    · simp only [hs, if_true, rewritePart_eq] at hq
      cases hh : p.hit del
      · simp only [hh, Bool.false_eq_true, if_false, Option.some.injEq] at hq
        subst hq
        cases hm
      · simp [hh] at hq
  · cases hs : p.selected
    · simp [hs] at hq
    · simp only [hs, if_true, rewritePart_eq] at hq
      cases hh : p.hit del
      · simp [hh] at hq
      · simp only [hh, if_true] at hq
        split at hq
        · cases hq
        · simp only [Option.some.injEq] at hq
          subst hq
          cases hm

/-! ### the invariant -/

/-- every index entry has its items somewhere in the table, no part carries the purge mark. -/
structure Cover (ix : Idx) : Prop where
  cover : ∀ e ∈ ix.ents, e.id ∈ ix.raw ∨ ∃ p ∈ ix.parts, e.id ∈ p.ids
  noMark : ∀ p ∈ ix.parts, p.mark = false
  delSub : ∀ i, (i ∈ ix.delDisk ∨ i ∈ ix.delPend) → i ∈ ix.deleted

/-- at an operation boundary: nothing is left in the raw items (the harness flushes the index
table after every write batch; see the model's header). -/
structure PartsOK (ix : Idx) : Prop extends Cover ix where
  rawNil : ix.raw = []

theorem PartsOK.inPart {ix : Idx} (h : PartsOK ix) : ∀ e ∈ ix.ents, ∃ p ∈ ix.parts, e.id ∈ p.ids := by
  intro e he
  rcases h.cover e he with hr | hp
  · rw [h.rawNil] at hr; cases hr
  · exact hp

theorem partsOK_init : PartsOK Idx.init := ⟨⟨by simp [Idx.init], by simp [Idx.init], by simp [Idx.init]⟩, rfl⟩

theorem cover_resolve {ix : Idx} (h : Cover ix) (kid : Nat) : Cover (ix.resolve kid).1 := by
  unfold Idx.resolve
  cases ix.liveId kid with
  | some id => exact h
  | none =>
    refine ⟨?_, h.noMark, h.delSub⟩
    intro e he
    simp only [List.mem_append, List.mem_singleton] at he ⊢
    rcases he with he | rfl
    · rcases h.cover e he with hr | hp
      · exact Or.inl (Or.inl hr)
      · exact Or.inr hp
    · exact Or.inl (Or.inr rfl)

theorem cover_resolveRows (b : List Row) : ∀ {ix : Idx}, Cover ix → Cover (resolveRows ix b).1 := by
  induction b with
  | nil => intro ix h; exact h
  | cons r rs ih =>
    intro ix h
    simp only [resolveRows]
    exact ih (cover_resolve h r.s)

theorem cover_resolveBatches (bs : List (List Row)) : ∀ {ix : Idx}, Cover ix → Cover (resolveBatches ix bs).1 := by
  induction bs with
  | nil => intro ix h; exact h
  | cons b bs ih =>
    intro ix h
    simp only [resolveBatches]
    exact ih (cover_resolveRows b h)

theorem partsOK_flushRaw {ix : Idx} (h : Cover ix) : PartsOK ix.flushRaw := by
  unfold Idx.flushRaw
  cases hr : ix.raw with
  | nil => simpa using (⟨h, hr⟩ : PartsOK ix)
  | cons x xs =>
    simp only [List.isEmpty_cons, Bool.false_eq_true, if_false]
    refine ⟨⟨?_, ?_, h.delSub⟩, rfl⟩
    · intro e he
      right
      rcases h.cover e he with hraw | ⟨p, hp, hi⟩
      · exact ⟨⟨x :: xs, false, false⟩, by simp, by simpa [hr] using hraw⟩
      · exact ⟨p, by simp [hp], hi⟩
    · intro p hp
      simp only [List.mem_append, List.mem_singleton] at hp
      rcases hp with hp | rfl
      · exact h.noMark p hp
      · rfl

/-- an update of the deleted-set fields only. -/
theorem PartsOK.congr {ix ix' : Idx} (h : PartsOK ix) (he : ix'.ents = ix.ents) (hr : ix'.raw = ix.raw)
    (hp : ix'.parts = ix.parts) (hd : ∀ i, (i ∈ ix'.delDisk ∨ i ∈ ix'.delPend) → i ∈ ix'.deleted) : PartsOK ix' :=
  ⟨⟨by rw [he, hr, hp]; exact h.cover, by rw [hp]; exact h.noMark, hd⟩, by rw [hr]; exact h.rawNil⟩

theorem cover_restart {ix : Idx} (h : PartsOK ix) : Cover ix.restart := by
  refine ⟨?_, ?_, by simp [Idx.restart]⟩
  · intro e he
    obtain ⟨p, hp, hi⟩ := h.inPart e he
    exact Or.inr ⟨{ p with inMerge := false, mark := false }, List.mem_map.2 ⟨p, hp, rfl⟩, hi⟩
  · intro p hp
    simp only [Idx.restart, List.mem_map] at hp
    obtain ⟨q, _, rfl⟩ := hp
    rfl

/-! ### merges -/

theorem beginMergeAt_spec (sel : List Nat) : ∀ (i : Nat) (parts : List Part),
    (∀ q ∈ beginMergeAt sel i parts, ∃ p ∈ parts, q.ids = p.ids ∧ q.mark = p.mark) ∧
      (∀ p ∈ parts, ∃ q ∈ beginMergeAt sel i parts, q.ids = p.ids) := by
  intro i parts
  induction parts generalizing i with
  | nil => simp [beginMergeAt]
  | cons p ps ih =>
    obtain ⟨h1, h2⟩ := ih (i + 1)
    simp only [beginMergeAt, List.mem_cons]
    constructor
    · rintro q (rfl | hq)
      · refine ⟨p, Or.inl rfl, ?_⟩
        split <;> simp
      · obtain ⟨p', hp', h⟩ := h1 q hq
        exact ⟨p', Or.inr hp', h⟩
    · rintro p' (rfl | hp')
      · exact ⟨_, Or.inl rfl, by split <;> simp⟩
      · obtain ⟨q, hq, h⟩ := h2 p' hp'
        exact ⟨q, Or.inr hq, h⟩

theorem endMerge_spec (parts : List Part) :
    (∀ q ∈ endMerge parts, q.mark = true → ∃ p ∈ parts, p.mark = true) ∧
      (∀ p ∈ parts, ∀ i ∈ p.ids, ∃ q ∈ endMerge parts, i ∈ q.ids) := by
  unfold endMerge
  simp only []
  split
  · exact ⟨fun q hq hm => ⟨q, hq, hm⟩, fun p hp i hi => ⟨p, hp, hi⟩⟩
  · constructor
    · intro q hq hm
      simp only [List.mem_append, List.mem_filter, List.mem_singleton] at hq
      rcases hq with hq | rfl
      · exact ⟨q, hq.1, hm⟩
      · cases hm
    · intro p hp i hi
      cases hm : p.inMerge
      · exact ⟨p, by simp [hp, hm], hi⟩
      · refine ⟨⟨(parts.filter (·.inMerge)).flatMap (·.ids), false, false⟩, by simp, ?_⟩
        simp only [List.mem_flatMap, List.mem_filter]
        exact ⟨p, ⟨hp, hm⟩, hi⟩

theorem partsOK_parts {ix : Idx} (h : PartsOK ix) (parts' : List Part)
    (hc : ∀ p ∈ ix.parts, ∀ i ∈ p.ids, ∃ q ∈ parts', i ∈ q.ids)
    (hm : ∀ q ∈ parts', q.mark = true → ∃ p ∈ ix.parts, p.mark = true) :
    PartsOK { ix with parts := parts' } := by
  refine ⟨⟨?_, ?_, h.delSub⟩, h.rawNil⟩
  · intro e he
    obtain ⟨p, hp, hi⟩ := h.inPart e he
    exact Or.inr (hc p hp e.id hi)
  · intro q hq
    cases hqm : q.mark
    · rfl
    · obtain ⟨p, hp, hpm⟩ := hm q hq hqm
      rw [h.noMark p hp] at hpm; cases hpm

theorem partsOK_mbegin {st : St} (h : PartsOK st.idx) (sel : List Nat) : PartsOK (st.mbegin sel).idx := by
  obtain ⟨h1, h2⟩ := beginMergeAt_spec sel 0 st.idx.parts
  apply partsOK_parts h
  · intro p hp i hi
    obtain ⟨q, hq, he⟩ := h2 p hp
    exact ⟨q, hq, by rw [he]; exact hi⟩
  · intro q hq hm
    obtain ⟨p, hp, _, he⟩ := h1 q hq
    exact ⟨p, hp, by rw [← he]; exact hm⟩

theorem partsOK_mend {st : St} (h : PartsOK st.idx) : PartsOK st.mend.idx := by
  obtain ⟨h1, h2⟩ := endMerge_spec st.idx.parts
  exact partsOK_parts h _ h2 h1

theorem partsOK_regroup {st : St} (h : PartsOK st.idx) (gs : List (List Nat)) : PartsOK (st.regroup gs).idx := by
  unfold St.regroup
  simp only []
  split
  · rename_i hc
    simp only [Bool.and_eq_true, List.all_eq_true] at hc
    apply partsOK_parts h
    · intro p hp i hi
      have hin : i ∈ gs.flatten := by
        have := hc.1.2 i (List.mem_flatMap.2 ⟨p, hp, hi⟩)
        simpa using this
      obtain ⟨g, hg, hig⟩ := List.mem_flatten.1 hin
      refine ⟨⟨g, false, false⟩, ?_, hig⟩
      simp only [List.mem_map, List.mem_filter]
      refine ⟨g, ⟨hg, ?_⟩, rfl⟩
      cases g with
      | nil => cases hig
      | cons _ _ => rfl
    · intro q hq hm
      simp only [List.mem_map] at hq
      obtain ⟨g, _, rfl⟩ := hq
      cases hm
  · exact h

/-! ### the purge -/

/-- which index entries the purge keeps. -/
theorem purge_kept {st : St} (h : PartsOK st.idx) (e : Ent) :
    ((purgeParts st.idx.deleted st.idx.parts).flatMap (·.ids) ++ st.idx.raw).contains e.id = true ↔
      ∃ p ∈ st.idx.parts, e.id ∈ p.ids ∧ (p.selected = false ∨ e.id ∉ st.idx.deleted) := by
  rw [← mem_purgeParts]
  simp [h.rawNil, List.mem_flatMap]

theorem partsOK_purge {st : St} (h : PartsOK st.idx) : PartsOK st.purge.idx := by
  unfold St.purge
  split
  · exact h
  · refine ⟨⟨?_, ?_, ?_⟩, h.rawNil⟩
    rotate_left 2
    · intro i hi
      apply h.delSub i
      split at hi
      · exact hi
      · simp only [List.not_mem_nil, false_or] at hi
        exact Or.inr hi
    · intro e he
      simp only [List.mem_filter] at he
      have := (purge_kept h e).1 he.2
      right
      exact (mem_purgeParts _ _ _).2 this
    · intro q hq
      cases hqm : q.mark
      · rfl
      · obtain ⟨p, hp, _, hpm⟩ := mark_purgeParts _ _ q hq hqm
        rw [h.noMark p hp] at hpm; cases hpm

/-- the parts and the raw items do not matter to the refinement relation. -/
theorem Core.reparts {ix : Idx} {cs : List Cell} {sp : Sp} (h : Core ix cs sp) (raw' : List Nat)
    (parts' : List Part) : Core { ix with raw := raw', parts := parts' } cs sp :=
  ⟨⟨h.idx.nodup, h.idx.idLt, h.idx.idInj, h.idx.uniq, h.idx.delLt, h.idx.delSync, h.idx.born, h.idx.bornLt⟩,
   h.cellLt, h.data, h.none, h.known⟩

theorem Core.flushRaw {ix : Idx} {cs : List Cell} {sp : Sp} (h : Core ix cs sp) : Core ix.flushRaw cs sp := by
  unfold Idx.flushRaw
  split
  · exact h
  · exact h.reparts _ _

end OG.C13
