/-
C13 — the catalogue side of dropping: measurement versions and the mark / drop protocol of
database, retention policy and measurement (lib/util/lifted/influx/meta/data.go:
CreateDatabase, CreateRetentionPolicy, CreateMeasurement / createVersionMeasurement,
MarkDatabaseDelete / DropDatabase, MarkRetentionPolicyDelete / DropRetentionPolicy,
MarkMeasurementDelete / DropMeasurement, Measurement). One database with one policy.
Core-only, executable.
-/
namespace OG.C13

structure Rp where
  marked : Bool
  vers : List (String × Nat)      -- MstVersions: logical name ↦ last version
  msts : List (String × Bool)     -- Measurements: name with version ↦ MarkDeleted
  schema : List (String × List String)  -- MeasurementInfo.Schema: name with version ↦ field keys
deriving Repr, DecidableEq

structure Db where
  marked : Bool
  rp : Option Rp
deriving Repr, DecidableEq

structure Cat where
  db : Option Db
deriving Repr, DecidableEq

def Cat.init : Cat := ⟨none⟩

def hexDigit (n : Nat) : Char :=
  if n < 10 then Char.ofNat (48 + n) else Char.ofNat (87 + n)

/-- `influx.GetNameWithVersion`: name, underscore, four hex digits of the version. -/
def nameWithVer (n : String) (v : Nat) : String :=
  n ++ "_" ++ String.ofList [hexDigit (v / 4096 % 16), hexDigit (v / 256 % 16), hexDigit (v / 16 % 16), hexDigit (v % 16)]

/-- version of a (re-)created measurement: `(version.Version + 1) & 0xffff`, 0 for a new name. -/
def nextVer : Option Nat → Nat
  | none => 0
  | some v => (v + 1) % 65536

inductive CatErr where
  | dbNotFound | dbDeleting | rpNotFound | rpDeleting | mstNotFound | mstExists
deriving Repr, DecidableEq

def CatErr.text : CatErr → String
  | .dbNotFound => "db-notfound" | .dbDeleting => "db-deleting"
  | .rpNotFound => "rp-notfound" | .rpDeleting => "rp-deleting"
  | .mstNotFound => "mst-notfound" | .mstExists => "mst-exists"

/-- `Data.GetDatabase`. -/
def Cat.getDb (c : Cat) : Except CatErr Db :=
  match c.db with
  | none => .error .dbNotFound
  | some d => if d.marked then .error .dbDeleting else .ok d

/-- `Data.RetentionPolicy` (GetDatabase, then GetRetentionPolicy). -/
def Cat.getRp (c : Cat) : Except CatErr (Db × Rp) := do
  let d ← c.getDb
  match d.rp with
  | none => .error .rpNotFound
  | some r => if r.marked then .error .rpDeleting else .ok (d, r)

def Cat.setRp (d : Db) (r : Rp) : Cat := ⟨some { d with rp := some r }⟩

/-- `RetentionPolicyInfo.Measurement`: the entry of the last version, if it is still there. -/
def Rp.current (r : Rp) (n : String) : Option (String × Bool) :=
  match r.vers.lookup n with
  | none => none
  | some v => match r.msts.lookup (nameWithVer n v) with
    | none => none
    | some marked => some (nameWithVer n v, marked)

/-- `Data.Measurement`: name with version of a live measurement. -/
def Cat.resolve (c : Cat) (n : String) : Except CatErr String := do
  let dr ← c.getRp
  let r := dr.2
  match r.current n with
  | some (p, false) => .ok p
  | _ => .error .mstNotFound

def setAssoc {β : Type} (l : List (String × β)) (k : String) (v : β) : List (String × β) :=
  (k, v) :: l.filter (·.1 != k)

def Cat.dbCreate (c : Cat) : Except CatErr Cat :=
  match c.db with
  | none => .ok ⟨some ⟨false, some ⟨false, [], [], []⟩⟩⟩
  | some d => if d.marked then .error .dbDeleting else .ok c

def Cat.dbMark (c : Cat) : Except CatErr Cat :=
  match c.db with
  | none => .error .dbNotFound
  | some d => if d.marked then .error .dbDeleting else .ok ⟨some { d with marked := true }⟩

def Cat.dbDrop (_ : Cat) : Cat := ⟨none⟩

def Cat.rpCreate (c : Cat) : Except CatErr Cat := do
  let d ← c.getDb
  match d.rp with
  | none => .ok ⟨some { d with rp := some ⟨false, [], [], []⟩ }⟩
  | some _ => .ok c

def Cat.rpMark (c : Cat) : Except CatErr Cat := do
  let dr ← c.getRp
  let d := dr.1
  let r := dr.2
  .ok (Cat.setRp d { r with marked := true })

def Cat.rpDrop (c : Cat) : Except CatErr Cat := do
  let d ← c.getDb
  .ok ⟨some { d with rp := none }⟩

/-- `Data.CreateMeasurement` without a shard key. -/
def Cat.mCreate (c : Cat) (n : String) : Except CatErr (Cat × String) := do
  let dr ← c.getRp
  let d := dr.1
  let r := dr.2
  match r.current n with
  | some (_, false) => .error .mstExists
  | _ =>
    let v := nextVer (r.vers.lookup n)
    let p := nameWithVer n v
    -- a new `MeasurementInfo`: no schema yet
    .ok (Cat.setRp d { r with vers := setAssoc r.vers n v, msts := setAssoc r.msts p false,
                              schema := setAssoc r.schema p [] }, p)

def Cat.mMark (c : Cat) (n : String) : Except CatErr Cat := do
  let dr ← c.getRp
  let d := dr.1
  let r := dr.2
  match r.current n with
  | some (p, false) => .ok (Cat.setRp d { r with msts := setAssoc r.msts p true })
  | _ => .error .mstNotFound

/-- `Data.DropMeasurement`: removes the entry only if it is marked. -/
def Cat.mDrop (c : Cat) (p : String) : Except CatErr Cat := do
  let dr ← c.getRp
  let d := dr.1
  let r := dr.2
  match r.msts.lookup p with
  | some true => .ok (Cat.setRp d { r with msts := r.msts.filter (·.1 != p) })
  | _ => .ok c

def insertStr (x : String) : List String → List String
  | [] => [x]
  | y :: ys => if x < y then x :: y :: ys else if x == y then y :: ys else y :: insertStr x ys

/-- `Data.UpdateSchema` with one new field of a fixed type: the live measurement's schema gets
the key. -/
def Cat.addField (c : Cat) (n f : String) : Except CatErr Cat := do
  let dr ← c.getRp
  let d := dr.1
  let r := dr.2
  match r.current n with
  | some (p, false) =>
    .ok (Cat.setRp d { r with schema := setAssoc r.schema p (insertStr f ((r.schema.lookup p).getD [])) })
  | _ => .error .mstNotFound

/-- SHOW FIELD KEYS FROM n: the schema of the measurement the name resolves to, keys ascending. -/
def Cat.fieldKeys (c : Cat) (n : String) : Except CatErr (List String) := do
  let dr ← c.getRp
  let r := dr.2
  match r.current n with
  | some (p, false) => .ok ((r.schema.lookup p).getD [])
  | _ => .error .mstNotFound

/-- SHOW MEASUREMENTS: the logical names that resolve. -/
def Cat.measurements (c : Cat) : List String :=
  match c.getRp with
  | .ok (_, r) => (r.vers.map (·.1)).filter fun n =>
      match r.current n with
      | some (_, false) => true
      | _ => false
  | .error _ => []

end OG.C13
