/-
C13 — the store side of DROP MEASUREMENT / DROP RETENTION POLICY / DROP DATABASE on one node:
`EngineImpl.DropMeasurement`, `DropRetentionPolicy`, `DeleteDatabase` (engine/engine_ddl.go)
over the shards the engine holds, their series indexes and the directories below the data
and the WAL root.

State = the shards the engine has loaded (database, policy, shard id, index id, rows) + the
database directories that have been made. A shard's rows are kept newest first, keyed by
(measurement, series, time): a dump reads the last write of every key. Drops remove whole
shards (policy / database) or the rows of one measurement in the named shards; a restart loads
exactly the shards the catalogue still lists. Core-only, executable.
-/
namespace OG.C13.Store

structure SRow where
  mst : String
  s : Nat
  t : Int
  v : String
deriving Repr, DecidableEq

structure Shard where
  db : String
  rp : String
  id : Nat
  ix : Nat
  rows : List SRow          -- newest first
  series : List (String × Nat) := []   -- (measurement, series) with a live tsid in the shard's index
  hidden : List (String × Nat) := []   -- ghost: dropped series whose index items are still stored
  busy : Bool := false                 -- a merger holds parts of the shard's index
deriving Repr, DecidableEq

/-- the deleted-tsid index of a policy: is its set in memory / on disk non-empty? -/
structure Pol where
  db : String
  rp : String
  mem : Bool
  disk : Bool
deriving Repr, DecidableEq

structure St where
  shards : List Shard       -- what the engine holds (DBPartitions[db][pt].shards), in order of creation
  dbDirs : List String      -- database directories below data/ and wal/ (made with the first shard, never removed)
  pols : List Pol := []     -- the policies in which a DROP SERIES has named a series
deriving Repr, DecidableEq

def St.init : St := ⟨[], [], []⟩

def St.find (st : St) (id : Nat) : Option Shard := st.shards.find? (·.id == id)

/-- `CreateShard` for a shard the catalogue has created (a shard id is never used twice). -/
def St.mkShard (st : St) (db rp : String) (id ix : Nat) : St :=
  if (st.find id).isSome then st
  else { st with shards := st.shards ++ [{ db := db, rp := rp, id := id, ix := ix, rows := [] }]
                 dbDirs := if st.dbDirs.contains db then st.dbDirs else st.dbDirs ++ [db] }

/-- `WriteRows` into a loaded shard; `none` when the engine does not hold the shard. -/
def St.write (st : St) (id : Nat) (r : SRow) : Option St :=
  match st.find id with
  | none => none
  | some _ => some { st with shards := st.shards.map fun sh =>
      if sh.id == id then
        { sh with rows := r :: sh.rows
                  series := if sh.series.contains (r.mst, r.s) then sh.series else sh.series ++ [(r.mst, r.s)] }
      else sh }

/-- `EngineImpl.DropMeasurement db rp name shardIds`: the rows of the measurement go from the named
shards of the database. -/
def St.dropMst (st : St) (db mst : String) (ids : List Nat) : St :=
  { st with shards := st.shards.map fun sh =>
      if sh.db == db && ids.contains sh.id then { sh with rows := sh.rows.filter (·.mst != mst) } else sh }

/-- `EngineImpl.DropRetentionPolicy`: the shards and indexes of the policy are closed and
forgotten, its directories below data/ and wal/ removed. -/
def St.dropRp (st : St) (db rp : String) : St :=
  { st with shards := st.shards.filter fun sh => !(sh.db == db && sh.rp == rp)
            pols := st.pols.filter fun p => !(p.db == db && p.rp == rp) }

/-- `EngineImpl.DeleteDatabase`: the same for every policy of the database (the partition
directory goes, the database directory stays). -/
def St.dropDb (st : St) (db : String) : St :=
  { st with shards := st.shards.filter fun sh => !(sh.db == db)
            pols := st.pols.filter fun p => !(p.db == db) }

/-- a start of the store with the shard list of the catalogue: what is on disk and listed is loaded. -/
def St.restart (st : St) (listed : List Nat) : St :=
  { st with shards := (st.shards.filter fun sh => listed.contains sh.id).map fun sh => { sh with busy := false }
            pols := st.pols.map fun p => { p with mem := p.disk } }

/-! ### DROP SERIES and its purge over the indexes of a policy

`DropSeries.Process` searches the predicate on the index of every shard of the database and
stores the tsids in the deleted-tsid index of the shard's policy (one per policy, shared by all
its indexes); the rows of the series are not touched but no read returns them any more.
`EngineImpl.DropSeries` purges policy by policy (`tsi.DropSeriesOfPolicy`): when the policy's
deleted set in memory is not empty, every index of the policy is walked; only if none of them
had to leave parts to a running merger is the deleted set on disk emptied. -/

def setPol (pols : List Pol) (db rp : String) (mem disk : Bool) : List Pol :=
  ⟨db, rp, mem, disk⟩ :: pols.filter fun p => !(p.db == db && p.rp == rp)

def St.polOf (st : St) (db rp : String) : Option Pol := st.pols.find? fun p => p.db == db && p.rp == rp

/-- DROP SERIES FROM mst WHERE host = s on a database. -/
def St.dropSeries (st : St) (db mst : String) (s : Nat) : St :=
  let hit := st.shards.filter fun sh => sh.db == db && sh.series.contains (mst, s)
  { st with
    shards := st.shards.map fun sh =>
      if sh.db == db && sh.series.contains (mst, s) then
        { sh with series := sh.series.filter (· != (mst, s)), hidden := sh.hidden ++ [(mst, s)]
                  rows := sh.rows.filter fun r => !(r.mst == mst && r.s == s) }
      else sh
    pols := hit.foldl (fun ps sh => setPol ps sh.db sh.rp true true) st.pols }

/-- how many series the drop selects per shard of the database. -/
def St.dropCount (st : St) (db mst : String) (s : Nat) : List (Nat × Nat) :=
  (st.shards.filter (·.db == db)).map fun sh => (sh.id, if sh.series.contains (mst, s) then 1 else 0)

def St.setBusy (st : St) (id : Nat) (b : Bool) : St :=
  { st with shards := st.shards.map fun sh => if sh.id == id then { sh with busy := b } else sh }

/-- is the purge of the policy refused?  (an index of the policy has parts in a running merge) -/
def St.polBusy (st : St) (p : Pol) : Bool := st.shards.any fun sh => sh.db == p.db && sh.rp == p.rp && sh.busy

/-- `EngineImpl.DropSeries`. -/
def St.purge (st : St) : St :=
  { st with
    shards := st.shards.map fun sh =>
      match st.polOf sh.db sh.rp with
      | some p => if p.mem && !sh.busy then { sh with hidden := [] } else sh
      | none => sh
    pols := st.pols.map fun p => if p.mem && !st.polBusy p then { p with disk := false } else p }

def St.purgeRefused (st : St) : Bool := st.pols.any fun p => p.mem && st.polBusy p

/-! ### observations -/

def rowKeyLe (a b : SRow) : Bool := a.s < b.s || (a.s == b.s && a.t ≤ b.t)

def insertRow (x : SRow) : List SRow → List SRow
  | [] => [x]
  | y :: ys => if rowKeyLe x y then x :: y :: ys else y :: insertRow x ys

/-- last write per (series, time) of one measurement, ascending by series then time. -/
def lww (mst : String) : List SRow → List SRow
  | [] => []
  | r :: rs =>
    let rest := lww mst rs
    if r.mst == mst then r :: rest.filter (fun x => !(x.s == r.s && x.t == r.t)) else rest

def St.dump (st : St) (id : Nat) (mst : String) : Option (List SRow) :=
  (st.find id).map fun sh => (lww mst sh.rows).foldr insertRow []

def insertNat' (x : Nat) : List Nat → List Nat
  | [] => [x]
  | y :: ys => if x ≤ y then x :: y :: ys else y :: insertNat' x ys

/-- SHOW SERIES of one measurement on the shard's index. -/
def St.seriesOf (st : St) (id : Nat) (mst : String) : Option (List Nat) :=
  (st.find id).map fun sh => ((sh.series.filter (·.1 == mst)).map (·.2)).foldr insertNat' []

/-- what the engine holds: (db, rp, "shard" | "index", id). -/
def St.loaded (st : St) : List (String × String × String × Nat) :=
  st.shards.flatMap fun sh => [(sh.db, sh.rp, "index", sh.ix), (sh.db, sh.rp, "shard", sh.id)]

/-- the directories: data/db, wal/db for every database directory made; data/db/pt/rp/<shard>,
data/db/pt/rp/index/<index>, wal/db/pt/rp/<shard> for every shard held. -/
def St.tree (st : St) : List (String × String × String × String × Nat) :=
  st.dbDirs.flatMap (fun db => [("data", db, "", "", 0), ("wal", db, "", "", 0)]) ++
    st.shards.flatMap fun sh =>
      [("data", sh.db, sh.rp, "index", sh.ix), ("data", sh.db, sh.rp, "shard", sh.id), ("wal", sh.db, sh.rp, "shard", sh.id)]

end OG.C13.Store
