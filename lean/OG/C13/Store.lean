/-
C13 — the store side of DROP MEASUREMENT / DROP RETENTION POLICY / DROP DATABASE on one node:
`EngineImpl.DropMeasurement`, `DropRetentionPolicy`, `DeleteDatabase` (engine/engine_ddl.go)
over the shards the engine holds, their series indexes and the directories below the data
and the WAL root.

State = the shards the engine has loaded (database, policy, shard id, index id, rows) + the
database directories that have been made. A shard's rows are kept newest first, keyed by
(measurement, series, time): a dump reads the last write of every key. Drops remove whole
shards (policy / database) or the rows of one measurement in the named shards; a restart loads
exactly the shards the catalogue still lists. Core-only, executable.
-/
namespace OG.C13.Store

structure SRow where
  mst : String
  s : Nat
  t : Int
  v : String
deriving Repr, DecidableEq

structure Shard where
  db : String
  rp : String
  id : Nat
  ix : Nat
  rows : List SRow          -- newest first
deriving Repr, DecidableEq

structure St where
  shards : List Shard       -- what the engine holds (DBPartitions[db][pt].shards), in order of creation
  dbDirs : List String      -- database directories below data/ and wal/ (made with the first shard, never removed)
deriving Repr, DecidableEq

def St.init : St := ⟨[], []⟩

def St.find (st : St) (id : Nat) : Option Shard := st.shards.find? (·.id == id)

/-- `CreateShard` for a shard the catalogue has created (a shard id is never used twice). -/
def St.mkShard (st : St) (db rp : String) (id ix : Nat) : St :=
  if (st.find id).isSome then st
  else { shards := st.shards ++ [⟨db, rp, id, ix, []⟩]
         dbDirs := if st.dbDirs.contains db then st.dbDirs else st.dbDirs ++ [db] }

/-- `WriteRows` into a loaded shard; `none` when the engine does not hold the shard. -/
def St.write (st : St) (id : Nat) (r : SRow) : Option St :=
  match st.find id with
  | none => none
  | some _ => some { st with shards := st.shards.map fun sh => if sh.id == id then { sh with rows := r :: sh.rows } else sh }

/-- `EngineImpl.DropMeasurement db rp name shardIds`: the rows of the measurement go from the named
shards of the database. -/
def St.dropMst (st : St) (db mst : String) (ids : List Nat) : St :=
  { st with shards := st.shards.map fun sh =>
      if sh.db == db && ids.contains sh.id then { sh with rows := sh.rows.filter (·.mst != mst) } else sh }

/-- `EngineImpl.DropRetentionPolicy`: the shards and indexes of the policy are closed and
forgotten, its directories below data/ and wal/ removed. -/
def St.dropRp (st : St) (db rp : String) : St :=
  { st with shards := st.shards.filter fun sh => !(sh.db == db && sh.rp == rp) }

/-- `EngineImpl.DeleteDatabase`: the same for every policy of the database (the partition
directory goes, the database directory stays). -/
def St.dropDb (st : St) (db : String) : St :=
  { st with shards := st.shards.filter fun sh => !(sh.db == db) }

/-- a start of the store with the shard list of the catalogue: what is on disk and listed is loaded. -/
def St.restart (st : St) (listed : List Nat) : St :=
  { st with shards := st.shards.filter fun sh => listed.contains sh.id }

/-! ### observations -/

def rowKeyLe (a b : SRow) : Bool := a.s < b.s || (a.s == b.s && a.t ≤ b.t)

def insertRow (x : SRow) : List SRow → List SRow
  | [] => [x]
  | y :: ys => if rowKeyLe x y then x :: y :: ys else y :: insertRow x ys

/-- last write per (series, time) of one measurement, ascending by series then time. -/
def lww (mst : String) : List SRow → List SRow
  | [] => []
  | r :: rs =>
    let rest := lww mst rs
    if r.mst == mst then r :: rest.filter (fun x => !(x.s == r.s && x.t == r.t)) else rest

def St.dump (st : St) (id : Nat) (mst : String) : Option (List SRow) :=
  (st.find id).map fun sh => (lww mst sh.rows).foldr insertRow []

/-- what the engine holds: (db, rp, "shard" | "index", id). -/
def St.loaded (st : St) : List (String × String × String × Nat) :=
  st.shards.flatMap fun sh => [(sh.db, sh.rp, "index", sh.ix), (sh.db, sh.rp, "shard", sh.id)]

/-- the directories: data/db, wal/db for every database directory made; data/db/pt/rp/<shard>,
data/db/pt/rp/index/<index>, wal/db/pt/rp/<shard> for every shard held. -/
def St.tree (st : St) : List (String × String × String × String × Nat) :=
  st.dbDirs.flatMap (fun db => [("data", db, "", "", 0), ("wal", db, "", "", 0)]) ++
    st.shards.flatMap fun sh =>
      [("data", sh.db, sh.rp, "index", sh.ix), ("data", sh.db, sh.rp, "shard", sh.id), ("wal", sh.db, sh.rp, "shard", sh.id)]

end OG.C13.Store
