/-
C13 — related states answer every read shape identically.
-/
import OG.C13.Refine

namespace OG.C13
open OG.C02

/-! ### run refinement -/

theorem partsOK_tick {st : St} (hp : PartsOK st.idx) : PartsOK st.tick.idx := by
  refine hp.congr rfl rfl rfl ?_
  intro i hi
  simp only [St.tick, List.mem_append, List.not_mem_nil, or_false] at hi
  exact hp.delSub i hi

/-- every operation keeps the parts invariant (no `Safe` needed: it is a property of the index
table alone). -/
theorem partsOK_step {st : St} (U : Univ) (hp : PartsOK st.idx) (op : Op) : PartsOK (st.step U op).idx := by
  cases op with
  | write b =>
    simp only [St.step, St.write]
    exact partsOK_flushRaw (cover_resolveRows b hp.toCover)
  | flush => exact hp
  | compact => exact hp
  | merge => exact hp
  | dropSeries m p =>
    refine hp.congr rfl rfl rfl ?_
    intro i hi
    simp only [St.step, St.dropSeries, List.mem_append] at hi ⊢
    rcases hi with hi | hi | hi
    · exact Or.inl (hp.delSub i (Or.inl hi))
    · exact Or.inl (hp.delSub i (Or.inr hi))
    · exact Or.inr hi
  | dropMst m => exact hp
  | purge => exact partsOK_purge hp
  | tick => exact partsOK_tick hp
  | reopen =>
    simp only [St.step, St.reopen, St.recover]
    exact partsOK_flushRaw (cover_resolveBatches _ (cover_restart (partsOK_tick hp)))
  | crash =>
    simp only [St.step, St.crash, St.recover]
    exact partsOK_flushRaw (cover_resolveBatches _ (cover_restart hp))
  | imerge sel => exact partsOK_mend (partsOK_mbegin hp sel)
  | mbegin sel => exact partsOK_mbegin hp sel
  | mend => exact partsOK_mend hp
  | regroup gs => exact partsOK_regroup hp gs

theorem partsOK_run (U : Univ) (ops : List Op) : ∀ (st : St), PartsOK st.idx → PartsOK (run U st ops).idx := by
  induction ops with
  | nil => intro st h; exact h
  | cons op ops ih => intro st h; exact ih _ (partsOK_step U h op)

theorem step_R {st : St} {sp : Sp} (U : Univ) (h : R st sp) (hp : PartsOK st.idx) (op : Op)
    (hs : safeOp st op = true) : R (st.step U op) (sp.step U op) := by
  cases op with
  | write b => exact write_R U h b
  | flush => exact flush_R U h
  | compact => exact compact_R U h
  | merge => exact merge_R U h
  | dropSeries m p => exact dropSeries_R U h m p
  | dropMst m => exact dropMst_R U h m
  | purge => exact purge_R U h hp
  | tick => exact tick_R U h
  | reopen => exact reopen_R U h hs
  | crash => exact crash_R U h hs
  | imerge sel => exact imerge_R h sel
  | mbegin sel => exact mbegin_R h sel
  | mend => exact mend_R h
  | regroup gs => exact regroup_R h gs

theorem run_R (U : Univ) (ops : List Op) : ∀ (st : St) (sp : Sp), R st sp → PartsOK st.idx → Safe U st ops →
    R (run U st ops) (specRun U sp ops) := by
  induction ops with
  | nil => intro st sp h _ _; exact h
  | cons op ops ih =>
    intro st sp h hp hs
    simp only [Safe, safeRun, Bool.and_eq_true] at hs
    exact ih _ _ (step_R U h hp op hs.1) (partsOK_step U hp op) hs.2

theorem filterMap_congr' {α β : Type} {f g : α → Option β} : ∀ {l : List α}, (∀ x ∈ l, f x = g x) →
    l.filterMap f = l.filterMap g := by
  intro l
  induction l with
  | nil => intro _; rfl
  | cons x xs ih =>
    intro h
    simp only [List.filterMap_cons, h x (by simp), ih (fun y hy => h y (by simp [hy]))]

theorem flatMap_congr' {α β : Type} {f g : α → List β} : ∀ {l : List α}, (∀ x ∈ l, f x = g x) →
    l.flatMap f = l.flatMap g := by
  intro l
  induction l with
  | nil => intro _; rfl
  | cons x xs ih =>
    intro h
    simp only [List.flatMap_cons, h x (by simp), ih (fun y hy => h y (by simp [hy]))]

/-! ### listings -/

theorem search_eq {st : St} {sp : Sp} (U : Univ) (h : R st sp) (m : String) (p : Pred) :
    (st.search U true m p).map (·.kid) = sp.search U m p := by
  simp only [St.search, Sp.search, h.core.known, List.filter_map, vis_true]
  congr 1
  rw [List.filter_filter]
  apply List.filter_congr
  intro e _
  simp only [Function.comp]

/-! ### selections -/

/-- times of a series are determined by its lookups. -/
theorem times_relabel (cs cs' : List Cell) (a b : Nat) (lo hi : Int)
    (h : ∀ t f, lookup (a, t, f) cs = lookup (b, t, f) cs') :
    sortDistinct ((cs.filter fun c => c.s = a ∧ lo ≤ c.t ∧ c.t ≤ hi).map (·.t)) =
      sortDistinct ((cs'.filter fun c => c.s = b ∧ lo ≤ c.t ∧ c.t ≤ hi).map (·.t)) := by
  apply sortDistinct_congr
  intro t
  have key : ∀ (xs ys : List Cell) (x y : Nat), (∀ t f, lookup (x, t, f) xs = lookup (y, t, f) ys) →
      t ∈ (xs.filter fun c => c.s = x ∧ lo ≤ c.t ∧ c.t ≤ hi).map (·.t) →
      t ∈ (ys.filter fun c => c.s = y ∧ lo ≤ c.t ∧ c.t ≤ hi).map (·.t) := by
    intro xs ys x y hxy ht
    simp only [List.mem_map, List.mem_filter, decide_eq_true_eq] at ht ⊢
    obtain ⟨c, ⟨hc, hs, h1, h2⟩, rfl⟩ := ht
    obtain ⟨v, hv⟩ := lookup_isSome_of_mem c xs hc
    have hk : c.key = (x, c.t, c.f) := by simp [Cell.key, hs]
    rw [hk, hxy] at hv
    obtain ⟨d, hd, hdk⟩ := lookup_some_mem _ _ _ hv
    simp only [Cell.key, Prod.mk.injEq] at hdk
    exact ⟨d, ⟨hd, hdk.1, by omega, by omega⟩, hdk.2.1⟩
  exact ⟨key cs cs' a b h, key cs' cs b a (fun t f => (h t f).symm)⟩

theorem selSeries_relabel (cs cs' : List Cell) (tags : Tags) (kid a b : Nat) (c : Cond)
    (dims : List String) (lo hi : Int) (asc : Bool) (fields : List String)
    (h : ∀ t f, lookup (a, t, f) cs = lookup (b, t, f) cs') :
    selSeries cs tags kid a c dims lo hi asc fields = selSeries cs' tags kid b c dims lo hi asc fields := by
  unfold selSeries readSeries
  simp only [List.filterMap_filterMap, times_relabel cs cs' a b lo hi h]
  apply filterMap_congr'
  intro t _
  have hv : (fields.map fun f => lookup (a, t, f) cs) = (fields.map fun f => lookup (b, t, f) cs') :=
    List.map_congr_left (fun f _ => h t f)
  have hr : c.row tags cs a t = c.row tags cs' b t := by
    simp only [Cond.row, fieldPass, h t "fi"]
  simp only [hv]
  split <;> simp [hr]

theorem filter_kid_singleton {l : List Ent} (hn : l.Nodup) (e : Ent) (he : e ∈ l)
    (hu : ∀ x ∈ l, x.kid = e.kid → x = e) : l.filter (·.kid == e.kid) = [e] := by
  induction l with
  | nil => cases he
  | cons y ys ih =>
    have hn' := List.nodup_cons.1 hn
    simp only [List.mem_cons] at he
    by_cases hy : y.kid = e.kid
    · have : y = e := hu y (by simp) hy
      subst this
      rw [List.filter_cons, if_pos (by simp)]
      congr 1
      rw [List.filter_eq_nil_iff]
      intro x hx
      simp only [beq_iff_eq]
      intro hxk
      have := hu x (by simp [hx]) hxk
      subst this
      exact hn'.1 hx
    · rcases he with rfl | he
      · exact absurd rfl hy
      · rw [List.filter_cons, if_neg (by simpa using hy)]
        exact ih hn'.2 he (fun x hx => hu x (by simp [hx]))

theorem sel_eq {st : St} {sp : Sp} (U : Univ) (h : R st sp) (m : String) (c : Cond) (dims : List String)
    (lo hi : Int) (asc : Bool) (fields : List String) :
    st.sel U m c dims lo hi asc fields = sp.sel U m c dims lo hi asc fields := by
  unfold St.sel Sp.sel
  simp only [guarded_select, vis_true]
  generalize hE : (st.idx.ents.filter fun e =>
    U.mst e.kid == m && c.series (U.tags e.kid) && st.idx.visible e) = ents
  have hkids : ents.map (·.kid) = sp.known.filter fun k => U.mst k == m && c.series (U.tags k) := by
    rw [← hE, h.core.known, List.filter_map]
    congr 1
    rw [List.filter_filter]
    apply List.filter_congr
    intro e _
    simp only [Function.comp]
  rw [← hkids]
  apply flatMap_congr'
  intro kid hkid
  rw [mem_sortDistinct] at hkid
  simp only [List.mem_map] at hkid
  obtain ⟨e, he, rfl⟩ := hkid
  have hsub : ∀ x ∈ ents, x ∈ st.idx.ents ∧ st.idx.visible x = true := by
    intro x hx
    rw [← hE] at hx
    have := List.mem_filter.1 hx
    simp only [Bool.and_eq_true] at this
    exact ⟨this.1, this.2.2⟩
  have hnd : ents.Nodup := by rw [← hE]; exact h.core.idx.nodup.filter _
  have hone := filter_kid_singleton hnd e he (fun x hx hk =>
    h.core.idx.uniq x (hsub x hx).1 e (hsub e he).1 hk (hsub x hx).2 (hsub e he).2)
  rw [hone]
  simp only [List.flatMap_cons, List.flatMap_nil, List.append_nil]
  exact selSeries_relabel _ _ _ _ _ _ _ _ _ _ _ _ (h.core.data e (hsub e he).1 (hsub e he).2)

/-- every read shape of the model and of the specification. -/
structure ReadsAgree (U : Univ) (st : St) (sp : Sp) : Prop where
  sel : ∀ m c dims lo hi asc fields, st.sel U m c dims lo hi asc fields = sp.sel U m c dims lo hi asc fields
  agg : ∀ m call c dims lo hi, st.agg U m call c dims lo hi = sp.agg U m call c dims lo hi
  series : ∀ m p, st.series U m p = sp.series U m p
  tagKeys : ∀ m p, st.tagKeys U m p = sp.tagKeys U m p
  tagVals : ∀ m keys p, st.tagVals U m keys p = sp.tagVals U m keys p
  card : ∀ m p, st.card U m p = sp.card U m p
  tagValCard : ∀ m keys p, st.tagValCard U m keys p = sp.tagValCard U m keys p

theorem reads_agree {st : St} {sp : Sp} (U : Univ) (h : R st sp) : ReadsAgree U st sp := by
  refine ⟨sel_eq U h, ?_, ?_, ?_, ?_, ?_, ?_⟩
  · intro m call c dims lo hi
    simp only [St.agg, Sp.agg, sel_eq U h]
  · intro m p
    simp only [St.series, Sp.series, guarded_showseries, search_eq U h]
  · intro m p
    simp only [St.tagKeys, Sp.tagKeys, St.series, Sp.series, guarded_showseries, search_eq U h]
  · intro m keys p
    simp only [St.tagVals, Sp.tagVals, guarded_tagvalues, search_eq U h]
  · intro m p
    cases p with
    | none =>
      simp only [St.card, Sp.card, guarded_cardall]
      rw [← search_eq U h, List.length_map]
    | some p =>
      simp only [St.card, Sp.card, guarded_cardcond]
      rw [← search_eq U h, List.length_map]
  · intro m keys p
    simp only [St.tagValCard, Sp.tagValCard, St.tagVals, Sp.tagVals, guarded_tagvalues, search_eq U h]

end OG.C13
