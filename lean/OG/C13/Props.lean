/-
C13 — property theorems.

Property: after DROP SERIES with a tag predicate or DROP MEASUREMENT has been acknowledged, every
kind of read — selections with or without tag / field conditions and grouping, aggregates,
series, tag-key, tag-value listings and the series cardinality — stops returning the dropped
data, all other data is unchanged, and the dropped data never reappears after flushes,
compactions, merges, the physical purge or restarts; new writes to a dropped series, or to a
measurement created again under the same name, behave as writes to a fresh one.
-/
import OG.C13.Reads

namespace OG.C13
open OG.C02

/-! ### T1: every read shape equals the specification's, for every history -/

/-- **drop_exact (partial)**: for every universe of series keys, every number of WAL partitions
and every history of write / flush / compaction / merge / drop series / drop measurement /
purge / index flush interval / merges of index parts (atomic or with other operations between
their two halves) / clean reopen / crash that is `Safe` — no restart while the WAL
holds rows of a series dropped since they were written, no crash while an acknowledged drop has
not reached the deleted-tsid table on disk — every read shape of the model answers what the
specification answers: the last-write-wins replay of the acknowledged rows minus exactly the
series named by the drops. -/
theorem drop_exact_partial (U : Univ) (n : Nat) (hn : 0 < n) (ops : List Op)
    (hs : Safe U (St.init n) ops) :
    ReadsAgree U (run U (St.init n) ops) (specRun U Sp.init ops) :=
  reads_agree U (run_R U ops _ _ (R_init n hn) partsOK_init hs)

/-- the full statement: the same without `Safe`. -/
def drop_exact_full : Prop :=
  ∀ (U : Univ) (n : Nat), 0 < n → ∀ ops : List Op,
    ReadsAgree U (run U (St.init n) ops) (specRun U Sp.init ops)

def U1 : Univ := ⟨fun _ => "m", fun _ => [("host", "a")]⟩

/-- **the code violates the full statement (class `unflushed_rows_then_crash`)**: a row that is
only in the memtable and the WAL, DROP SERIES of its series (acknowledged, every read shape agrees
it is gone), restart: the WAL replay writes the row again, the index finds only a deleted tsid for
its series key and creates a new one — the series is listed again and its row is back. -/
theorem drop_exact_full_fails : ¬ drop_exact_full := by
  intro h
  have := (h U1 1 (by decide)
    [.write [⟨0, 0, [("fi", "1")]⟩], .dropSeries "m" .all, .reopen]).series "m" .all
  revert this
  decide

/-- the second defect class (`crash_before_index_flush`): the row is flushed, the series dropped,
and the process is killed before the deleted-tsid table's raw items are flushed — the drop is gone. -/
theorem drop_lost_by_crash : ¬ ReadsAgree U1
    (run U1 (St.init 1) [.write [⟨0, 0, [("fi", "1")]⟩], .flush, .dropSeries "m" .all, .crash])
    (specRun U1 Sp.init [.write [⟨0, 0, [("fi", "1")]⟩], .flush, .dropSeries "m" .all, .crash]) := by
  intro h
  have := h.series "m" .all
  revert this
  decide

/-- with a flush before the drop and the index flush interval before the crash, the same
histories are `Safe` (non-vacuity of T1) and the series stays dropped. -/
example : Safe U1 (St.init 1)
    [.write [⟨0, 0, [("fi", "1")]⟩], .flush, .dropSeries "m" .all, .tick, .crash,
     .write [⟨0, 1, [("fi", "2")]⟩], .reopen] := by unfold Safe; decide

example : (run U1 (St.init 1)
    [.write [⟨0, 0, [("fi", "1")]⟩], .flush, .dropSeries "m" .all, .tick, .crash]).series U1 "m" .all = [] := by
  decide

/-! ### what the specification says a drop does: exactly what was named -/

/-- DROP SERIES removes every cell and the existence of the named series ... -/
theorem spec_dropSeries_removes (U : Univ) (sp : Sp) (m : String) (p : Pred) (kid : Nat)
    (hk : named U m p kid = true) :
    (∀ t f, lookup (kid, t, f) (sp.step U (.dropSeries m p)).cells = none) ∧
      kid ∉ (sp.step U (.dropSeries m p)).known := by
  constructor
  · intro t f
    show lookup _ (sp.cells.filter _) = none
    rw [lookup_filter_series (fun s => !named U m p s)]
    simp [hk]
  · show kid ∉ sp.known.filter _
    simp [hk]

/-- ... and nothing else: every other series keeps its cells and its existence. -/
theorem spec_dropSeries_keeps (U : Univ) (sp : Sp) (m : String) (p : Pred) (kid : Nat)
    (hk : named U m p kid = false) :
    (∀ t f, lookup (kid, t, f) (sp.step U (.dropSeries m p)).cells = lookup (kid, t, f) sp.cells) ∧
      (kid ∈ (sp.step U (.dropSeries m p)).known ↔ kid ∈ sp.known) := by
  constructor
  · intro t f
    show lookup _ (sp.cells.filter _) = _
    rw [lookup_filter_series (fun s => !named U m p s)]
    simp [hk]
  · show kid ∈ sp.known.filter _ ↔ _
    simp [hk]

theorem spec_dropMst_removes (U : Univ) (sp : Sp) (m : String) (kid : Nat) (hk : U.mst kid = m) :
    ∀ t f, lookup (kid, t, f) (sp.step U (.dropMst m)).cells = none := by
  intro t f
  show lookup _ (sp.cells.filter _) = none
  rw [lookup_filter_series (fun s => !(U.mst s == m))]
  simp [hk]

theorem spec_dropMst_keeps (U : Univ) (sp : Sp) (m : String) (kid : Nat) (hk : U.mst kid ≠ m) :
    ∀ t f, lookup (kid, t, f) (sp.step U (.dropMst m)).cells = lookup (kid, t, f) sp.cells := by
  intro t f
  show lookup _ (sp.cells.filter _) = _
  rw [lookup_filter_series (fun s => !(U.mst s == m))]
  simp [hk]

/-! ### fresh after a drop -/

/-- two specification states that agree on one series. -/
structure AgreeOn (kid : Nat) (a b : Sp) : Prop where
  cells : ∀ t f, lookup (kid, t, f) a.cells = lookup (kid, t, f) b.cells
  known : kid ∈ a.known ↔ kid ∈ b.known

theorem mem_addKnown (b : List Row) : ∀ (known : List Nat) (kid : Nat),
    kid ∈ addKnown known b ↔ kid ∈ known ∨ kid ∈ b.map (·.s) := by
  induction b with
  | nil => intro known kid; simp [addKnown]
  | cons r rs ih =>
    intro known kid
    have := ih (if known.contains r.s then known else known ++ [r.s]) kid
    simp only [addKnown, List.foldl_cons] at this ⊢
    rw [this]
    by_cases hc : known.contains r.s = true
    · simp only [hc, if_true, List.map_cons, List.mem_cons]
      have : r.s ∈ known := by simpa using hc
      grind
    · simp only [hc, Bool.false_eq_true, if_false, List.mem_append, List.mem_singleton, List.map_cons, List.mem_cons]
      grind

theorem agree_step (U : Univ) (kid : Nat) {a b : Sp} (h : AgreeOn kid a b) (op : Op) :
    AgreeOn kid (a.step U op) (b.step U op) := by
  cases op with
  | write r =>
    refine ⟨fun t f => ?_, ?_⟩
    · show lookup _ (_ ++ a.cells) = lookup _ (_ ++ b.cells)
      rw [lookup_append, lookup_append, h.cells t f]
    · show kid ∈ addKnown _ _ ↔ kid ∈ addKnown _ _
      rw [mem_addKnown, mem_addKnown, h.known]
  | dropSeries m p =>
    refine ⟨fun t f => ?_, ?_⟩
    · show lookup _ (a.cells.filter _) = lookup _ (b.cells.filter _)
      rw [lookup_filter_series (fun s => !named U m p s), lookup_filter_series (fun s => !named U m p s),
        h.cells t f]
    · show kid ∈ a.known.filter _ ↔ kid ∈ b.known.filter _
      simp only [List.mem_filter, h.known]
  | dropMst m =>
    refine ⟨fun t f => ?_, h.known⟩
    show lookup _ (a.cells.filter _) = lookup _ (b.cells.filter _)
    rw [lookup_filter_series (fun s => !(U.mst s == m)), lookup_filter_series (fun s => !(U.mst s == m)),
      h.cells t f]
  | flush => exact h
  | compact => exact h
  | merge => exact h
  | purge => exact h
  | tick => exact h
  | reopen => exact h
  | crash => exact h
  | imerge _ => exact h
  | mbegin _ => exact h
  | mend => exact h
  | regroup _ => exact h

theorem agree_run (U : Univ) (kid : Nat) (ops : List Op) : ∀ {a b : Sp}, AgreeOn kid a b →
    AgreeOn kid (specRun U a ops) (specRun U b ops) := by
  induction ops with
  | nil => intro a b h; exact h
  | cons op ops ih => intro a b h; exact ih (agree_step U kid h op)

theorem specRun_append (U : Univ) (sp : Sp) (xs ys : List Op) :
    specRun U sp (xs ++ ys) = specRun U (specRun U sp xs) ys := by
  simp [specRun, List.foldl_append]

/-- in the specification, a series named by a DROP SERIES afterwards is what the later writes
alone make of it. -/
theorem spec_fresh_after_dropSeries (U : Univ) (pre post : List Op) (m : String) (p : Pred) (kid : Nat)
    (hk : named U m p kid = true) :
    AgreeOn kid (specRun U Sp.init (pre ++ [.dropSeries m p] ++ post)) (specRun U Sp.init post) := by
  rw [specRun_append, specRun_append]
  apply agree_run
  obtain ⟨h1, h2⟩ := spec_dropSeries_removes U (specRun U Sp.init pre) m p kid hk
  refine ⟨fun t f => ?_, ?_⟩
  · simpa [specRun, Sp.init, lookup] using h1 t f
  · simpa [specRun, Sp.init] using h2

/-- **rewrite_after_drop_fresh**: after a `Safe` history in which DROP SERIES named the series
`kid`, what the index and the layout hold for `kid` is exactly what the writes *after* the drop
make of a fresh series: the series is listed iff it was written again, and the visible tsid reads
the last-write-wins replay of the later rows only — the old rows do not come back. -/
theorem rewrite_after_drop_fresh (U : Univ) (n : Nat) (hn : 0 < n) (pre post : List Op) (m : String)
    (p : Pred) (kid : Nat) (hk : named U m p kid = true)
    (hs : Safe U (St.init n) (pre ++ [.dropSeries m p] ++ post)) :
    let st := run U (St.init n) (pre ++ [.dropSeries m p] ++ post)
    let fresh := specRun U Sp.init post
    ((∃ e ∈ st.idx.ents, e.kid = kid ∧ st.idx.visible e = true) ↔ kid ∈ fresh.known) ∧
      ∀ e ∈ st.idx.ents, e.kid = kid → st.idx.visible e = true →
        ∀ t f, lookup (e.id, t, f) st.lay.cells = lookup (kid, t, f) fresh.cells := by
  intro st fresh
  have hR := run_R U _ _ _ (R_init n hn) partsOK_init hs
  have hA := spec_fresh_after_dropSeries U pre post m p kid hk
  constructor
  · rw [← hA.known, hR.core.known]
    simp only [List.mem_map, List.mem_filter]
    constructor
    · rintro ⟨e, he, hkid, hv⟩; exact ⟨e, ⟨he, hv⟩, hkid⟩
    · rintro ⟨e, ⟨he, hv⟩, hkid⟩; exact ⟨e, he, hkid, hv⟩
  · intro e he hkid hv t f
    rw [hR.core.data e he hv t f, hkid]
    exact hA.cells t f

/-- in the specification, a series of a dropped measurement afterwards holds what the later
writes alone put there. -/
theorem spec_fresh_after_dropMst (U : Univ) (pre post : List Op) (m : String) (kid : Nat)
    (hk : U.mst kid = m) (t : Int) (f : String) :
    lookup (kid, t, f) (specRun U Sp.init (pre ++ [.dropMst m] ++ post)).cells =
      lookup (kid, t, f) (specRun U (Sp.mk [] (specRun U Sp.init pre).known) post).cells := by
  rw [specRun_append, specRun_append]
  have : AgreeOn kid (specRun U (specRun U Sp.init pre) [.dropMst m]) (Sp.mk [] (specRun U Sp.init pre).known) := by
    refine ⟨fun t f => ?_, by simp [specRun, Sp.step]⟩
    simpa [specRun, lookup] using spec_dropMst_removes U (specRun U Sp.init pre) m kid hk t f
  exact (agree_run U kid post this).cells t f

/-- **drop_measurement_permanent**: after a `Safe` history in which the measurement of `kid` was
dropped, every visible tsid of `kid` reads exactly the rows written after the drop: nothing of
the dropped measurement comes back through flush, compaction, merge, purge or restart, and the
measurement written again starts empty. -/
theorem drop_measurement_permanent (U : Univ) (n : Nat) (hn : 0 < n) (pre post : List Op) (m : String)
    (kid : Nat) (hk : U.mst kid = m) (hs : Safe U (St.init n) (pre ++ [.dropMst m] ++ post)) :
    let st := run U (St.init n) (pre ++ [.dropMst m] ++ post)
    ∀ e ∈ st.idx.ents, e.kid = kid → st.idx.visible e = true → ∀ t f,
      lookup (e.id, t, f) st.lay.cells =
        lookup (kid, t, f) (specRun U (Sp.mk [] (specRun U Sp.init pre).known) post).cells := by
  intro st e he hkid hv t f
  have hR := run_R U _ _ _ (R_init n hn) partsOK_init hs
  rw [hR.core.data e he hv t f, hkid]
  exact spec_fresh_after_dropMst U pre post m kid hk t f

/-- right after DROP MEASUREMENT no selection on the measurement returns a row, whatever the
history before (no `Safe` needed for the data: the drop flushes and cuts the WAL). -/
theorem dropMst_leaves_no_cell (U : Univ) (st : St) (sp : Sp) (h : R st sp) (m : String) :
    ∀ e ∈ (st.dropMst U m).idx.ents, U.mst e.kid = m → (st.dropMst U m).idx.visible e = true →
      ∀ t f, lookup (e.id, t, f) (st.dropMst U m).lay.cells = none := by
  intro e he hk hv t f
  have hR := dropMst_R U h m
  simp only [St.step] at hR
  rw [hR.core.data e he hv t f]
  exact spec_dropMst_removes U sp m e.kid hk t f

end OG.C13
