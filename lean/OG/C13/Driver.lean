/-
C13 — line-protocol driver of the drop model (core only).
  open <i> | parts <n> | close | eclose        → ok
  key <kid> <mst> k=v,k=v                      → ok        (declares a series key of the universe)
  write kid:t:f=v,f=v;…                        → ack
  flush                                        → ok [m=o|u|ou …]   (measurements that got a new ordered / out-of-order file)
  flushq                                       → ok        (flush after a restart: the per-series flush times are reloaded in the background, the split is not reported)
  compact <l> | fullcompact | merge | tick | purge | reopen | crash → ok
  dropseries <mst> <pred>                      → ok <n>
  dropmst <mst>                                → ok
  sel <mst> <pred>#<fgt=c|->#<and|or> <dims|-> <asc|desc> <lo> <hi>   → rows kid:t:v,v,v,v@g|…
  agg | aggraw <mst> <count|sum> <cond> <dims|-> <lo> <hi>            → agg g=val|…
  series <mst> <pred>                          → keys kid,kid
  tagkeys <mst> <pred>                         → tk k,k
  tagvals <mst> <pred>                         → tv k=v+v;k=v
  card <mst> <pred|*>                          → n <k>     (`*` = no condition)
  tvcard <mst> <pred>                          → n <k>     (distinct tag values of the keys)
  rowsync <mst> <key> <v=entry,entry|v=…>      → ok | err rowsync   (the tag→tsids rows of the key, read off the index)
  tagvalsk <mst> <key,key> <pred>              → tv k=v+v;k=v        (SHOW TAG VALUES by the row scan over the synced rows)
  cat <dbcreate|dbmark|dbdrop|rpcreate|rpmark|rpdrop|mcreate n|mmark n|mdrop p|resolve n|addfield n f|fieldkeys n|msts> → ok | name p | fk k,k | msts n,n | err e
  purge                                        → ok | err parts-in-merge
  imerge | mbegin <entry,entry…>               → ok <n>    (the parts that hold these series entries are merged / taken by a merger; n = parts taken)
  mend                                         → ok
  regroup <part>|<part>…                       → ok | err regroup   (the new process's mergers regrouped the index parts)
  parts                                        → parts <part>|<part>…   (index parts: entries ascending, parts by first entry; ~ being merged, * purge mark)
  ddisk                                        → ddisk <entry,entry…>   (tsids in the parts of the deleted-tsid table)
entry: <kid>.<n> = the n-th tsid ever issued for series key kid; part: entry,entry….
engine histories (OG.C13.Store):
  eopen <i> | emk <db> <rp> <shard> <index> | ewrite <shard> <mst> <series> <t> <v> | eflush |
  edropmst <db> <mst> <shard,shard> | edroprp <db> <rp> | edropdb <db> | erestart <shard,shard|->   → ok
  edropseries <db> <mst> <series> → ok shard=n,…;  embegin | emend <shard> → ok;  epurge → ok | err parts-in-merge;  eseries <shard> <mst> → keys s,s
  edump <shard> <mst> → rows s:t:v|… | notloaded;  eloaded → loaded db/rp/index|shard/id,…;  etree → tree data|wal/db[/rp/index|shard/id],…
pred: RPN over `;` — `-` (none), eq:k:v, neq:k:v, re:k:a+b, nre:k:a+b, and, or.
-/
import OG.C13.Model
import OG.C13.Catalog
import OG.C13.Store
import OG.C13.Rows

namespace OG.C13
open OG.C02

structure DSt where
  st : St
  keys : List (Nat × String × Tags)
  cat : Cat
  store : Store.St := Store.St.init
  rows : List ((String × String) × List TRow) := []   -- (measurement, tag key) ↦ the rows last read off the index

def DSt.univ (d : DSt) : Univ where
  mst := fun k => match d.keys.lookup k with
    | some x => x.1
    | none => ""
  tags := fun k => match d.keys.lookup k with
    | some x => x.2
    | none => []

def parseKRow (s : String) : Option Row :=
  match s.splitOn ":" with
  | [a, b, kv] => do
    let kid ← a.toNat?
    let t ← b.toInt?
    let fields ← (kv.splitOn ",").mapM fun p =>
      match p.splitOn "=" with
      | [k, v] => some (k, v)
      | _ => none
    some ⟨kid, t, fields⟩
  | _ => none

def parseTags (s : String) : Option Tags :=
  if s == "-" then some [] else
  (s.splitOn ",").mapM fun p =>
    match p.splitOn "=" with
    | [k, v] => some (k, v)
    | _ => none

def parsePredTok (stack : List Pred) (tok : String) : Option (List Pred) :=
  match tok.splitOn ":" with
  | ["-"] => some (Pred.all :: stack)
  | ["eq", k, v] => some (Pred.eq k v :: stack)
  | ["neq", k, v] => some (Pred.neq k v :: stack)
  | ["re", k, a] => some (Pred.re k (a.splitOn "+") :: stack)
  | ["nre", k, a] => some (Pred.nre k (a.splitOn "+") :: stack)
  | ["rs", k, a] => some (Pred.re k (a.splitOn "+") :: stack)     -- the same predicate, written x[12]
  | ["nrs", k, a] => some (Pred.nre k (a.splitOn "+") :: stack)
  | ["and"] => match stack with
    | b :: a :: rest => some (Pred.and a b :: rest)
    | _ => none
  | ["or"] => match stack with
    | b :: a :: rest => some (Pred.or a b :: rest)
    | _ => none
  | _ => none

def parsePred (s : String) : Option Pred :=
  match (s.splitOn ";").foldlM parsePredTok [] with
  | some [p] => some p
  | _ => none

def parseCond (s : String) : Option Cond :=
  match s.splitOn "#" with
  | [p, f, c] => do
    let p ← parsePred p
    let conj ← (if c == "and" then some true else if c == "or" then some false else none)
    if f == "-" then some ⟨p, none, conj⟩
    else match f.splitOn "=" with
      | ["fgt", x] => do
        let x ← x.toInt?
        some ⟨p, some x, conj⟩
      | _ => none
  | _ => none

def parseDims (s : String) : List String := if s == "-" then [] else s.splitOn ","

def showSel (rs : List SelRow) : String :=
  "rows " ++ String.intercalate "|" (rs.map fun (k, t, vs, g) =>
    toString k ++ ":" ++ toString t ++ ":" ++ String.intercalate "," (vs.map fun v => v.getD "_") ++ "@" ++ g)

def showAgg (rs : List (String × Int)) : String :=
  "agg " ++ String.intercalate "|" (rs.map fun (g, v) => g ++ "=" ++ toString v)

def showLayout (l : List (String × Bool × Bool)) : String :=
  String.join (l.filterMap fun (m, o, u) =>
    if o || u then some (" " ++ m ++ "=" ++ (if o then "o" else "") ++ (if u then "u" else "")) else none)

/-! ### index parts on the line protocol: a tsid is named `kid.n` -/

/-- (kid, n) of a tsid: its series key and how many smaller tsids that key had been issued before. -/
def entryOf (born : List (Nat × Nat)) (id : Nat) : Option (Nat × Nat) :=
  match born.lookup id with
  | some kid => some (kid, (born.filter fun x => x.2 == kid && decide (x.1 < id)).length)
  | none => none

def idOf (born : List (Nat × Nat)) (kid n : Nat) : Option Nat :=
  (born.find? fun x => x.2 == kid && entryOf born x.1 == some (kid, n)).map (·.1)

def pairLe (a b : Nat × Nat) : Bool := a.1 < b.1 || (a.1 == b.1 && a.2 ≤ b.2)

def insertPair (x : Nat × Nat) : List (Nat × Nat) → List (Nat × Nat)
  | [] => [x]
  | y :: ys => if pairLe x y then x :: y :: ys else y :: insertPair x ys

def sortPairs (xs : List (Nat × Nat)) : List (Nat × Nat) := xs.foldr insertPair []

def insertPart (x : List (Nat × Nat) × String) : List (List (Nat × Nat) × String) → List (List (Nat × Nat) × String)
  | [] => [x]
  | y :: ys =>
    if pairLe (x.1.headD (0, 0)) (y.1.headD (0, 0)) then x :: y :: ys else y :: insertPart x ys

def showEntries (es : List (Nat × Nat)) : String :=
  String.intercalate "," (es.map fun e => toString e.1 ++ "." ++ toString e.2)

def showParts (born : List (Nat × Nat)) (parts : List Part) : String :=
  let rows := parts.map fun p =>
    (sortPairs (p.ids.map fun i => (entryOf born i).getD (999999, i)),
     (if p.inMerge then "~" else "") ++ (if p.mark then "*" else ""))
  "parts " ++ String.intercalate "|" ((rows.foldr insertPart []).map fun r => showEntries r.1 ++ r.2)

def parseEntry (s : String) : Option (Nat × Nat) :=
  match s.splitOn "." with
  | [a, b] => do
    let k ← a.toNat?
    let n ← b.toNat?
    some (k, n)
  | _ => none

def parseEntries (born : List (Nat × Nat)) (s : String) : Option (List Nat) :=
  if s == "-" then some [] else
  (s.splitOn ",").mapM fun t => do
    let (k, n) ← parseEntry t
    idOf born k n

/-- positions of the parts that hold the given tsids. -/
def positionsOf (parts : List Part) (ids : List Nat) : List Nat :=
  ((List.range parts.length).zip parts).filterMap fun (i, p) => if ids.any p.ids.contains then some i else none

def catStep (c : Cat) : List String → Cat × String
  | ["dbcreate"] => match c.dbCreate with | .ok c' => (c', "ok") | .error e => (c, "err " ++ e.text)
  | ["dbmark"] => match c.dbMark with | .ok c' => (c', "ok") | .error e => (c, "err " ++ e.text)
  | ["dbdrop"] => (c.dbDrop, "ok")
  | ["rpcreate"] => match c.rpCreate with | .ok c' => (c', "ok") | .error e => (c, "err " ++ e.text)
  | ["rpmark"] => match c.rpMark with | .ok c' => (c', "ok") | .error e => (c, "err " ++ e.text)
  | ["rpdrop"] => match c.rpDrop with | .ok c' => (c', "ok") | .error e => (c, "err " ++ e.text)
  | ["mcreate", n] => match c.mCreate n with | .ok (c', p) => (c', "name " ++ p) | .error e => (c, "err " ++ e.text)
  | ["mmark", n] => match c.mMark n with | .ok c' => (c', "ok") | .error e => (c, "err " ++ e.text)
  | ["mdrop", p] => match c.mDrop p with | .ok c' => (c', "ok") | .error e => (c, "err " ++ e.text)
  | ["resolve", n] => match c.resolve n with | .ok p => (c, "name " ++ p) | .error e => (c, "err " ++ e.text)
  | ["addfield", n, f] => match c.addField n f with | .ok c' => (c', "ok") | .error e => (c, "err " ++ e.text)
  | ["fieldkeys", n] => match c.fieldKeys n with
    | .ok ks => (c, "fk " ++ String.intercalate "," ks) | .error e => (c, "err " ++ e.text)
  | ["msts"] => (c, "msts " ++ String.intercalate "," (c.measurements.foldr insertStr []))
  | _ => (c, "bad-op")

/-! ### the engine histories (`OG.C13.Store`) -/

def parseNatList (s : String) : Option (List Nat) :=
  if s == "-" then some [] else (s.splitOn ",").mapM (·.toNat?)

def insertS (x : String) : List String → List String
  | [] => [x]
  | y :: ys => if x < y then x :: y :: ys else if x == y then y :: ys else y :: insertS x ys

def storeStep (d : DSt) : List String → Option (DSt × String)
  | ["eopen", _] => some ({ d with store := Store.St.init }, "ok")
  | ["emk", db, rp, id, ix] =>
    match id.toNat?, ix.toNat? with
    | some i, some x => some ({ d with store := d.store.mkShard db rp i x }, "ok")
    | _, _ => some (d, "bad-op")
  | ["ewrite", id, mst, s, t, v] =>
    match id.toNat?, s.toNat?, t.toInt? with
    | some i, some s', some t' =>
      match d.store.write i ⟨mst, s', t', v⟩ with
      | some st' => some ({ d with store := st' }, "ok")
      | none => some (d, "err shard-notfound")
    | _, _, _ => some (d, "bad-op")
  | ["eflush"] => some (d, "ok")
  | ["eclose"] => some (d, "ok")
  | ["close"] => some (d, "ok")
  | ["edropmst", db, mst, ids] =>
    match parseNatList ids with
    | some l => some ({ d with store := d.store.dropMst db mst l }, "ok")
    | none => some (d, "bad-op")
  | ["edroprp", db, rp] => some ({ d with store := d.store.dropRp db rp }, "ok")
  | ["edropdb", db] => some ({ d with store := d.store.dropDb db }, "ok")
  | ["erestart", ids] =>
    match parseNatList ids with
    | some l => some ({ d with store := d.store.restart l }, "ok")
    | none => some (d, "bad-op")
  | ["edropseries", db, mst, s] =>
    match s.toNat? with
    | some s' =>
      let cnt := (d.store.dropCount db mst s').map fun (i, n) => toString i ++ "=" ++ toString n
      some ({ d with store := d.store.dropSeries db mst s' }, "ok " ++ String.intercalate "," (cnt.foldr insertS []))
    | none => some (d, "bad-op")
  | ["embegin", id] =>
    match id.toNat? with
    | some i => some ({ d with store := d.store.setBusy i true }, "ok")
    | none => some (d, "bad-op")
  | ["emend", id] =>
    match id.toNat? with
    | some i => some ({ d with store := d.store.setBusy i false }, "ok")
    | none => some (d, "bad-op")
  | ["epurge"] =>
    some ({ d with store := d.store.purge }, if d.store.purgeRefused then "err parts-in-merge" else "ok")
  | ["eseries", id, mst] =>
    match id.toNat? with
    | some i =>
      match d.store.seriesOf i mst with
      | some ks => some (d, "keys " ++ String.intercalate "," (ks.map toString))
      | none => some (d, "notloaded")
    | none => some (d, "bad-op")
  | ["edump", id, mst] =>
    match id.toNat? with
    | some i =>
      match d.store.dump i mst with
      | some rows => some (d, "rows " ++ String.intercalate "|" (rows.map fun r => toString r.s ++ ":" ++ toString r.t ++ ":" ++ r.v))
      | none => some (d, "notloaded")
    | none => some (d, "bad-op")
  | ["eloaded"] =>
    some (d, "loaded " ++ String.intercalate "," ((d.store.loaded.map fun (db, rp, k, i) =>
      db ++ "/" ++ rp ++ "/" ++ k ++ "/" ++ toString i).foldr insertS []))
  | ["etree"] =>
    some (d, "tree " ++ String.intercalate "," ((d.store.tree.map fun (root, db, rp, k, i) =>
      if rp == "" then root ++ "/" ++ db else root ++ "/" ++ db ++ "/" ++ rp ++ "/" ++ k ++ "/" ++ toString i).foldr insertS []))
  | _ => none

def mergeStep (d : DSt) (whole : Bool) (es : String) : DSt × String :=
  let st := d.st
  if st.idx.parts.any (·.inMerge) then (d, "bad-op") else
  match parseEntries st.idx.born es with
  | some ids =>
    let sel := positionsOf st.idx.parts ids
    let n := (((List.range st.idx.parts.length).zip st.idx.parts).filter fun (i, p) => sel.contains i && p.mergeable).length
    ({ d with st := if whole then st.imerge sel else st.mbegin sel }, "ok " ++ toString n)
  | none => (d, "bad-op")

def step (d : DSt) (line : String) : DSt × String :=
  let U := d.univ
  let st := d.st
  let toks := (line.trimAscii.toString.splitOn " ").filter (· ≠ "")
  match storeStep d toks with
  | some r => r
  | none =>
  match toks with
  | ["open", _] => (⟨St.init 1, [], Cat.init, d.store, []⟩, "ok")
  | ["parts", n] =>
    match n.toNat? with
    | some k => if k = 0 then (d, "bad-op") else ({ d with st := { st with lay := { st.lay with nParts := k } } }, "ok")
    | none => (d, "bad-op")
  | ["key", kid, m, tags] =>
    match kid.toNat?, parseTags tags with
    | some k, some t => ({ d with keys := (k, m, t) :: d.keys }, "ok")
    | _, _ => (d, "bad-op")
  | ["write", rows] =>
    match (rows.splitOn ";").mapM parseKRow with
    | some b =>
      if b.all (fun r => (d.keys.lookup r.s).isSome) then ({ d with st := st.write b }, "ack") else (d, "bad-op")
    | none => (d, "bad-op")
  | ["flush"] => ({ d with st := st.flush }, "ok" ++ showLayout (st.flushLayout U))
  | ["flushq"] => ({ d with st := st.flush }, "ok")
  | ["compact", _] => ({ d with st := st.compact }, "ok")
  | ["fullcompact"] => ({ d with st := st.compact }, "ok")
  | ["merge"] => ({ d with st := st.mergeOOO }, "ok")
  | ["tick"] => ({ d with st := st.tick }, "ok")
  | ["purge"] => ({ d with st := st.purge }, if st.purgeErr then "err parts-in-merge" else "ok")
  | ["imerge", es] => mergeStep d true es
  | ["mbegin", es] => mergeStep d false es
  | ["regroup", es] =>
    match (es.splitOn "|").mapM (parseEntries st.idx.born) with
    | some gs =>
      let st' := st.regroup gs
      if st'.idx.parts == (gs.filter (!·.isEmpty)).map (fun g => (⟨g, false, false⟩ : Part)) then ({ d with st := st' }, "ok")
      else (d, "err regroup")
    | none => (d, "err regroup")
  | ["mend"] => ({ d with st := st.mend }, "ok")
  | ["parts"] => (d, showParts st.idx.born st.idx.parts)
  | ["ddisk"] =>
    (d, "ddisk " ++ showEntries (sortPairs ((st.idx.delDisk.eraseDups).map fun i => (entryOf st.idx.born i).getD (999999, i))))
  | ["reopen"] => ({ d with st := st.reopen }, "ok")
  | ["crash"] => ({ d with st := st.crash }, "ok")
  | ["dropseries", m, p] =>
    match parsePred p with
    | some p => let (st', n) := st.dropSeries U m p; ({ d with st := st' }, "ok " ++ toString n)
    | none => (d, "bad-op")
  | ["dropmst", m] => ({ d with st := st.dropMst U m }, "ok")
  | ["sel", m, c, dims, dir, lo, hi] =>
    match parseCond c, lo.toInt?, hi.toInt? with
    | some c, some l, some h => (d, showSel (st.sel U m c (parseDims dims) l h (dir == "asc") allFields))
    | _, _, _ => (d, "bad-op")
  | [op, m, call, c, dims, lo, hi] =>
    if op == "agg" || op == "aggraw" then
      match parseCond c, lo.toInt?, hi.toInt? with
      | some c, some l, some h =>
        if call == "count" || call == "sum" then (d, showAgg (st.agg U m call c (parseDims dims) l h)) else (d, "bad-op")
      | _, _, _ => (d, "bad-op")
    else (d, "bad-op")
  | ["series", m, p] =>
    match parsePred p with
    | some p => (d, "keys " ++ String.intercalate "," ((st.series U m p).map toString))
    | none => (d, "bad-op")
  | ["tagkeys", m, p] =>
    match parsePred p with
    | some p => (d, "tk " ++ String.intercalate "," (st.tagKeys U m p))
    | none => (d, "bad-op")
  | ["tagvals", m, p] =>
    match parsePred p with
    | some p => (d, "tv " ++ String.intercalate ";" ((st.tagVals U m ["host", "zone"] p).map fun (k, vs) =>
        k ++ "=" ++ String.intercalate "+" vs))
    | none => (d, "bad-op")
  | ["rowsync", m, k, rs] =>
    -- the tag→tsids rows of (m, k) as a table search of the real index sees them: value=entry,entry|value=…
    let parsed : Option (List TRow) :=
      if rs == "-" then some [] else
      (rs.splitOn "|").mapM fun t =>
        match t.splitOn "=" with
        | [v, es] => (parseEntries st.idx.born es).map fun ids => (⟨v, ids⟩ : TRow)
        | _ => none
    match parsed with
    | some rows =>
      if st.rowsConsistent U m k rows then
        ({ d with rows := ((m, k), rows) :: d.rows.filter (·.1 != (m, k)) }, "ok")
      else (d, "err rowsync")
    | none => (d, "err rowsync")
  | ["tagvalsk", m, ks, p] =>
    match parsePred p with
    | some p =>
      let keys := ks.splitOn ","
      match keys.mapM fun k => (d.rows.lookup (m, k)).map fun rs => (k, rs) with
      | some rows =>
        (d, "tv " ++ String.intercalate ";" ((st.tagValsRows U m p rows).map fun (k, vs) =>
          k ++ "=" ++ String.intercalate "+" vs))
      | none => (d, "err norows")
    | none => (d, "bad-op")
  | ["tvcard", m, p] =>
    match parsePred p with
    | some p => (d, "n " ++ toString (st.tagValCard U m ["host", "zone"] p))
    | none => (d, "bad-op")
  | ["card", m, p] =>
    if p == "*" then (d, "n " ++ toString (st.card U m none))
    else match parsePred p with
      | some p => (d, "n " ++ toString (st.card U m (some p)))
      | none => (d, "bad-op")
  | "cat" :: rest => let (c, o) := catStep d.cat rest; ({ d with cat := c }, o)
  | _ => (d, "bad-op")

partial def loop (h : IO.FS.Stream) (out : IO.FS.Stream) (d : DSt) : IO Unit := do
  let line ← h.getLine
  if line.isEmpty then return ()
  let (d', o) := step d line
  out.putStrLn o
  loop h out d'

def main : IO Unit := do
  loop (← IO.getStdin) (← IO.getStdout) ⟨St.init 1, [], Cat.init, Store.St.init, []⟩

end OG.C13
