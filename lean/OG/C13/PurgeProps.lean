/-
C13 — the physical purge of dropped series over the parts of the index table.

The deleted-tsid table may be emptied only when no item of a deleted tsid is left in any part:
otherwise the next start, which loads the deleted set from that table, brings the series back.
The theorems hold for every history (no `Safe` hypothesis: they are properties of the index
tables alone) of writes, flushes, compactions, drops, index flush intervals, merges of index
parts — atomic or with any operations between their two halves —, repeated purges, clean
restarts and crashes. They are proved against the regenerated protocol facts
(`OG.Gen.C13.purge…`, `merge…`): a source edit that moves the taking-off of the purge mark,
stops skipping parts that are being merged, or stops reporting them, breaks a proof here.
-/
import OG.C13.Reads

namespace OG.C13
open OG.C02

/-- the invariant of the index parts holds after every history. -/
theorem partsOK_reachable (U : Univ) (n : Nat) (ops : List Op) : PartsOK (run U (St.init n) ops).idx :=
  partsOK_run U ops _ partsOK_init

/-- **purge_marks_clear**: at every operation boundary no part carries the purge mark — the walk
takes the mark off every part it leaves in place, and replaces the others by unmarked copies.
(A part that kept the mark would be skipped by every later walk and by the mergers.) -/
theorem purge_marks_clear (U : Univ) (n : Nat) (ops : List Op) :
    ∀ p ∈ (run U (St.init n) ops).idx.parts, p.mark = false :=
  (partsOK_reachable U n ops).noMark

/-- one purge step on a state that satisfies the invariant. -/
theorem purge_step_complete {st : St} (hp : PartsOK st.idx) :
    st.purge.idx.delDisk = st.idx.delDisk ∨
      ((∀ e ∈ st.purge.idx.ents, e.id ∉ st.idx.deleted) ∧
       (∀ p ∈ st.purge.idx.parts, ∀ i ∈ p.ids, i ∉ st.idx.deleted) ∧ st.purge.idx.raw = []) := by
  unfold St.purge
  split
  · exact Or.inl rfl
  · cases hr : purgeRefused st.idx.parts
    · right
      have hsel : ∀ p ∈ st.idx.parts, p.selected = true := by
        intro p hpm
        rw [purgeRefused_eq] at hr
        have hnm : p.inMerge = false := by
          cases hm : p.inMerge
          · rfl
          · have : st.idx.parts.any (·.inMerge) = true := List.any_eq_true.2 ⟨p, hpm, hm⟩
            rw [hr] at this; cases this
        simp [selected_eq, hnm, hp.noMark p hpm]
      have hpart : ∀ q ∈ purgeParts st.idx.deleted st.idx.parts, ∀ i ∈ q.ids, i ∉ st.idx.deleted := by
        intro q hq i hi
        obtain ⟨p, hpm, _, hc⟩ := (mem_purgeParts _ _ i).1 ⟨q, hq, hi⟩
        rcases hc with hc | hc
        · rw [hsel p hpm] at hc; cases hc
        · exact hc
      refine ⟨?_, hpart, hp.rawNil⟩
      intro e he
      simp only [List.mem_filter] at he
      obtain ⟨p, hpm, _, hc⟩ := (purge_kept hp e).1 he.2
      rcases hc with hc | hc
      · rw [hsel p hpm] at hc; cases hc
      · exact hc
    · left; simp

/-- **purge_complete**: after every history, a purge either leaves the deleted-tsid table as it
is (nothing was deleted, or a part had to be left to a running merge), or it has taken every item
of every deleted tsid out of every part of the index table (and none is in the raw items): only
then is the table emptied. -/
theorem purge_complete (U : Univ) (n : Nat) (ops : List Op) :
    let st := run U (St.init n) ops
    st.purge.idx.delDisk = st.idx.delDisk ∨
      ((∀ e ∈ st.purge.idx.ents, e.id ∉ st.idx.deleted) ∧
       (∀ p ∈ st.purge.idx.parts, ∀ i ∈ p.ids, i ∉ st.idx.deleted) ∧ st.purge.idx.raw = []) :=
  purge_step_complete (partsOK_reachable U n ops)

/-- **purge_progress**: when no merge is running the purge does finish: the table is emptied
(so `purge_complete` is not satisfied by never emptying). -/
theorem purge_progress (U : Univ) (n : Nat) (ops : List Op) :
    let st := run U (St.init n) ops
    st.idx.parts.all (fun p => !p.inMerge) = true → st.idx.deleted ≠ [] → st.purge.idx.delDisk = [] := by
  intro st hm hd
  have : purgeRefused st.idx.parts = false := by
    rw [purgeRefused_eq]
    simp only [List.all_eq_true, Bool.not_eq_true'] at hm
    simp only [List.any_eq_false]
    intro p hp; simpa using hm p hp
  unfold St.purge
  have hne : st.idx.deleted.isEmpty = false := by
    cases h : st.idx.deleted with
    | nil => exact absurd h hd
    | cons _ _ => rfl
  simp [hne, this]

/-- **purge_keeps_live**: the purge removes nothing else — every index entry whose tsid is not
deleted is still there afterwards, after every history. -/
theorem purge_keeps_live (U : Univ) (n : Nat) (ops : List Op) :
    let st := run U (St.init n) ops
    ∀ e ∈ st.idx.ents, st.idx.visible e = true → e ∈ st.purge.idx.ents := by
  intro st e he hv
  have hp := partsOK_reachable U n ops
  unfold St.purge
  split
  · exact he
  · have hnd : e.id ∉ st.idx.deleted := by simpa [Idx.visible] using hv
    obtain ⟨p, hpm, hi⟩ := hp.inPart e he
    exact List.mem_filter.2 ⟨he, (purge_kept hp e).2 ⟨p, hpm, hi, Or.inr hnd⟩⟩

/-- when no merge is running, the purge leaves exactly the entries whose tsid is not deleted. -/
theorem purge_ents {st : St} (hp : PartsOK st.idx) (hm : purgeRefused st.idx.parts = false) :
    st.purge.idx.ents = st.idx.ents.filter (fun e => !st.idx.deleted.contains e.id) := by
  unfold St.purge
  split
  · rename_i he
    have : st.idx.deleted = [] := by simpa using he
    rw [this]
    exact (List.filter_eq_self.2 (fun _ _ => rfl)).symm
  · apply List.filter_congr
    intro e he
    have hsel : ∀ p ∈ st.idx.parts, p.selected = true := by
      intro p hpm
      rw [purgeRefused_eq] at hm
      have hnm : p.inMerge = false := by
        cases hx : p.inMerge
        · rfl
        · have : st.idx.parts.any (·.inMerge) = true := List.any_eq_true.2 ⟨p, hpm, hx⟩
          rw [hm] at this; cases this
      simp [selected_eq, hnm, hp.noMark p hpm]
    by_cases hd : e.id ∈ st.idx.deleted
    · have h1 : ¬ ((purgeParts st.idx.deleted st.idx.parts).flatMap (·.ids) ++ st.idx.raw).contains e.id = true := by
        intro hc
        obtain ⟨p, hpm, _, hc⟩ := (purge_kept hp e).1 hc
        rcases hc with hc | hc
        · rw [hsel p hpm] at hc; cases hc
        · exact hc hd
      simp only [Bool.not_eq_true] at h1
      rw [h1]; simp [hd]
    · obtain ⟨p, hpm, hi⟩ := hp.inPart e he
      have h1 := (purge_kept hp e).2 ⟨p, hpm, hi, Or.inr hd⟩
      rw [h1]; simp [hd]

/-- a restart with an empty WAL only reloads the deleted set. -/
theorem reopen_idx_of_flushed {st : St} (hp : PartsOK st.idx) (hw : st.kwal = []) :
    st.reopen.idx = st.tick.idx.restart := by
  have hraw : st.tick.idx.restart.raw = [] := hp.rawNil
  simp only [St.reopen, St.recover, show st.tick.kwal = [] from hw, replayOrder, roundRobin,
    List.length_nil, if_true, resolveBatches, Idx.flushRaw, hraw, List.isEmpty_nil]

/-- **restart_after_purge_preserves_reads**: after every history that has left nothing in the WAL
and no merge running, a purge followed by a clean restart changes no search: every id-producing
path — whether or not it subtracts the deleted set — returns exactly the series that the
deleted-set-subtracting search returned before. In particular no dropped series is back once the
deleted-tsid table has been emptied. -/
theorem restart_after_purge_preserves_reads (U : Univ) (n : Nat) (ops : List Op) (g : Bool)
    (m : String) (p : Pred) :
    let st := run U (St.init n) ops
    st.kwal = [] → st.idx.parts.all (fun q => !q.inMerge) = true →
      st.purge.reopen.search U g m p = st.search U true m p := by
  intro st hw hm
  have hp := partsOK_reachable U n ops
  have hpp : PartsOK st.purge.idx := partsOK_purge hp
  have href : purgeRefused st.idx.parts = false := by
    rw [purgeRefused_eq]
    simp only [List.all_eq_true, Bool.not_eq_true'] at hm
    simp only [List.any_eq_false]
    intro q hq; simpa using hm q hq
  have hkw : st.purge.kwal = [] := by
    unfold St.purge; split <;> exact hw
  have hdel : st.purge.idx.deleted = st.idx.deleted := by
    unfold St.purge; split <;> rfl
  have h1 : st.purge.reopen.idx = st.purge.tick.idx.restart := reopen_idx_of_flushed hpp hkw
  have h2 : st.purge.tick.idx.restart.ents = st.idx.ents.filter (fun e => !st.idx.deleted.contains e.id) :=
    purge_ents hp href
  unfold St.search
  rw [h1, h2, List.filter_filter]
  apply List.filter_congr
  intro e _
  simp only [Idx.vis, Idx.restart, St.tick]
  by_cases hd : e.id ∈ st.idx.deleted
  · simp [hd]
  · have hnew : e.id ∉ st.purge.idx.delDisk ++ st.purge.idx.delPend := by
      intro hc
      have := hpp.delSub e.id (List.mem_append.1 hc)
      rw [hdel] at this
      exact hd this
    simp only [List.mem_append, not_or] at hnew
    simp [hd, hnew.1, hnew.2]

/-! ### several indexes of one retention policy share the deleted-tsid table

`tsi.DropSeriesOfPolicy` labels the parts of the deleted-tsid table, walks every index of the
policy with the same deleted set, and removes the labelled parts only when no walk reported an
error. -/

/-- the walk over the indexes of a policy: the parts of each after the walk, and whether any walk
was refused. -/
def purgePolicy (del : List Nat) (ixs : List (List Part)) : List (List Part) × Bool :=
  (ixs.map (purgeParts del), OG.Gen.C13.policyPurgeForgetsOnlyWhenAllOk && ixs.any purgeRefused)

/-- **purge_policy_complete**: when no index of the policy reports an error (and none carries a
left-over purge mark, which `purge_marks_clear` guarantees for every reachable index), no part
of any index of the policy holds a deleted tsid after the walk — only then may the shared
deleted-tsid table be emptied. -/
theorem purge_policy_complete (del : List Nat) (ixs : List (List Part))
    (hm : ∀ parts ∈ ixs, ∀ p ∈ parts, p.mark = false) (hr : (purgePolicy del ixs).2 = false) :
    ∀ parts' ∈ (purgePolicy del ixs).1, ∀ q ∈ parts', ∀ i ∈ q.ids, i ∉ del := by
  intro parts' hp' q hq i hi
  simp only [purgePolicy, List.mem_map] at hp'
  obtain ⟨parts, hparts, rfl⟩ := hp'
  obtain ⟨p, hpm, _, hc⟩ := (mem_purgeParts del parts i).1 ⟨q, hq, hi⟩
  have hnr : purgeRefused parts = false := by
    simp only [purgePolicy, OG.Gen.C13.policyPurgeForgetsOnlyWhenAllOk, Bool.true_and, List.any_eq_false] at hr
    simpa using hr parts hparts
  have hsel : p.selected = true := by
    rw [purgeRefused_eq] at hnr
    have hnm : p.inMerge = false := by
      cases hx : p.inMerge
      · rfl
      · have : parts.any (·.inMerge) = true := List.any_eq_true.2 ⟨p, hpm, hx⟩
        rw [hnr] at this; cases this
    simp [selected_eq, hnm, hm parts hparts p hpm]
  rcases hc with hc | hc
  · rw [hsel] at hc; cases hc
  · exact hc

/-- one refused index is enough to keep the table: the walk of the policy reports it. -/
theorem purge_policy_refused (del : List Nat) (ixs : List (List Part)) (parts : List Part) (h : parts ∈ ixs)
    (hr : purgeRefused parts = true) : (purgePolicy del ixs).2 = true := by
  simp only [purgePolicy, OG.Gen.C13.policyPurgeForgetsOnlyWhenAllOk, Bool.true_and, List.any_eq_true]
  exact ⟨parts, h, hr⟩

/-- two indexes, the series 1 in both; a merger holds the part of the second index: the walk is
refused as a whole, although the first index has been rewritten. -/
example : purgePolicy [1] [[⟨[1, 2], false, false⟩], [⟨[1], true, false⟩, ⟨[3], false, false⟩]] =
    ([[⟨[2], false, false⟩], [⟨[1], true, false⟩, ⟨[3], false, false⟩]], true) := by decide

/-! ### non-vacuity and the two ways the protocol can go wrong -/

def U2 : Univ := ⟨fun _ => "m", fun k => [("host", if k = 0 then "a" else "b")]⟩

/-- two series in two parts; the first is dropped and purged (the second part is left as it is),
then the second; after the restart neither is back, and the hypotheses of
`restart_after_purge_preserves_reads` hold along the way. -/
def twoRounds : List Op :=
  [.write [⟨0, 0, [("fi", "1")]⟩], .write [⟨1, 0, [("fi", "2")]⟩], .flush,
   .dropSeries "m" (.eq "host" "a"), .tick, .purge,
   .dropSeries "m" (.eq "host" "b"), .tick]

example : (run U2 (St.init 1) twoRounds).idx.parts = [⟨[2], false, false⟩] := by decide
example : (run U2 (St.init 1) twoRounds).kwal = [] ∧
    (run U2 (St.init 1) twoRounds).idx.parts.all (fun q => !q.inMerge) = true ∧
    (run U2 (St.init 1) twoRounds).idx.deleted = [1, 2] := by decide
example : ((run U2 (St.init 1) twoRounds).purge.reopen).series U2 "m" .all = [] := by decide
example : ((run U2 (St.init 1) twoRounds).purge).idx.delDisk = [] ∧
    ((run U2 (St.init 1) twoRounds).purge).idx.parts = [] := by decide

/-- what a purge mark that was left on a part would do (the reason for `purge_marks_clear`):
the walk skips the part, its deleted tsid stays, and nothing reports it. -/
example : purgeParts [2] [⟨[1], false, false⟩, ⟨[2], false, true⟩] = [⟨[1], false, false⟩, ⟨[2], false, true⟩] ∧
    purgeRefused [⟨[1], false, false⟩, ⟨[2], false, true⟩] = false := by decide

/-- a purge while a merger holds the part of the dropped series: the walk leaves the part alone and
reports it, the deleted-tsid table is kept; after the merge has finished the next purge completes,
and the series stays dropped over the restart. -/
def mergeRace : List Op :=
  [.write [⟨0, 0, [("fi", "1")]⟩], .write [⟨1, 0, [("fi", "2")]⟩], .flush, .mbegin [0, 1],
   .dropSeries "m" (.eq "host" "a"), .tick, .purge]

example : (run U2 (St.init 1) mergeRace).idx.delDisk = [1] ∧
    (run U2 (St.init 1) mergeRace).idx.parts = [⟨[1], true, false⟩, ⟨[2], true, false⟩] := by decide
example : (run U2 (St.init 1) (mergeRace ++ [.mend, .reopen])).series U2 "m" .all = [1] := by decide
example : (run U2 (St.init 1) (mergeRace ++ [.mend, .purge])).idx.parts = [⟨[2], false, false⟩] ∧
    (run U2 (St.init 1) (mergeRace ++ [.mend, .purge])).idx.delDisk = [] := by decide

end OG.C13
