/-
C13 — the store side of the drops: a drop removes exactly the shards (or the rows) it names,
from memory and from the directory tree; nothing of it comes back by later operations or a
restart; what is created again under the same name starts empty.
-/
import OG.C13.Store

namespace OG.C13.Store

inductive Op where
  | mkShard (db rp : String) (id ix : Nat)
  | write (id : Nat) (r : SRow)
  | dropMst (db mst : String) (ids : List Nat)
  | dropRp (db rp : String)
  | dropDb (db : String)
  | restart (listed : List Nat)
  | dropSeries (db mst : String) (s : Nat)
  | mbegin (id : Nat)
  | mend (id : Nat)
  | purge
deriving Repr

def St.step (st : St) : Op → St
  | .mkShard db rp id ix => st.mkShard db rp id ix
  | .write id r => (st.write id r).getD st
  | .dropMst db mst ids => st.dropMst db mst ids
  | .dropRp db rp => st.dropRp db rp
  | .dropDb db => st.dropDb db
  | .restart l => st.restart l
  | .dropSeries db mst s => st.dropSeries db mst s
  | .mbegin id => st.setBusy id true
  | .mend id => st.setBusy id false
  | .purge => st.purge

def run (st : St) (ops : List Op) : St := ops.foldl St.step st

/-! ### DROP RETENTION POLICY / DROP DATABASE remove exactly the shards they name -/

theorem dropRp_removes (st : St) (db rp : String) :
    ∀ sh ∈ (st.dropRp db rp).shards, ¬ (sh.db = db ∧ sh.rp = rp) := by
  intro sh h
  simp only [St.dropRp, List.mem_filter, Bool.not_eq_true', Bool.and_eq_false_iff, beq_eq_false_iff_ne] at h
  rintro ⟨h1, h2⟩
  rcases h.2 with h3 | h3
  · exact h3 h1
  · exact h3 h2

theorem dropRp_keeps (st : St) (db rp : String) (sh : Shard) (h : sh ∈ st.shards) (hn : ¬ (sh.db = db ∧ sh.rp = rp)) :
    sh ∈ (st.dropRp db rp).shards := by
  simp only [St.dropRp, List.mem_filter, Bool.not_eq_true', Bool.and_eq_false_iff, beq_eq_false_iff_ne]
  refine ⟨h, ?_⟩
  by_cases h1 : sh.db = db
  · exact Or.inr (fun h2 => hn ⟨h1, h2⟩)
  · exact Or.inl h1

theorem dropDb_removes (st : St) (db : String) : ∀ sh ∈ (st.dropDb db).shards, sh.db ≠ db := by
  intro sh h
  simp only [St.dropDb, List.mem_filter, Bool.not_eq_true', beq_eq_false_iff_ne] at h
  exact h.2

theorem dropDb_keeps (st : St) (db : String) (sh : Shard) (h : sh ∈ st.shards) (hn : sh.db ≠ db) :
    sh ∈ (st.dropDb db).shards := by
  simp only [St.dropDb, List.mem_filter, Bool.not_eq_true', beq_eq_false_iff_ne]
  exact ⟨h, hn⟩

/-- the directory tree after DROP RETENTION POLICY has no entry below the policy, in data/ or in wal/. -/
theorem dropRp_tree (st : St) (db rp : String) :
    ∀ e ∈ (st.dropRp db rp).tree, ¬ (e.2.1 = db ∧ e.2.2.1 = rp ∧ rp ≠ "") := by
  intro e he
  simp only [St.tree, List.mem_append, List.mem_flatMap] at he
  rcases he with ⟨d, _, hd⟩ | ⟨sh, hsh, hd⟩
  · simp only [List.mem_cons, List.not_mem_nil, or_false] at hd
    rcases hd with rfl | rfl <;> (rintro ⟨_, h2, h3⟩; exact h3 h2.symm)
  · have := dropRp_removes st db rp sh hsh
    simp only [List.mem_cons, List.not_mem_nil, or_false] at hd
    rcases hd with rfl | rfl | rfl <;> (rintro ⟨h1, h2, _⟩; exact this ⟨h1, h2⟩)

theorem dropDb_tree (st : St) (db : String) :
    ∀ e ∈ (st.dropDb db).tree, e.2.1 = db → e.2.2.1 = "" := by
  intro e he hdb
  simp only [St.tree, List.mem_append, List.mem_flatMap] at he
  rcases he with ⟨d, _, hd⟩ | ⟨sh, hsh, hd⟩
  · simp only [List.mem_cons, List.not_mem_nil, or_false] at hd
    rcases hd with rfl | rfl <;> rfl
  · have := dropDb_removes st db sh hsh
    simp only [List.mem_cons, List.not_mem_nil, or_false] at hd
    rcases hd with rfl | rfl | rfl <;> exact absurd hdb this

/-! ### DROP MEASUREMENT removes exactly the rows of the measurement in the named shards -/

theorem lww_filter_ne (mst : String) (rows : List SRow) : lww mst (rows.filter (·.mst != mst)) = [] := by
  induction rows with
  | nil => rfl
  | cons r rs ih =>
    by_cases h : r.mst = mst
    · simp [List.filter, h, ih]
    · have hb : (r.mst != mst) = true := by simpa using h
      have hb2 : (r.mst == mst) = false := by simpa using h
      simp [List.filter, hb, lww, hb2, ih]

theorem lww_filter_other (mst other : String) (h : other ≠ mst) (rows : List SRow) :
    lww other (rows.filter (·.mst != mst)) = lww other rows := by
  induction rows with
  | nil => rfl
  | cons r rs ih =>
    by_cases h1 : r.mst = mst
    · have hb2 : (r.mst == other) = false := by
        simp only [beq_eq_false_iff_ne, ne_eq]; rw [h1]; exact fun hc => h hc.symm
      have hb : (r.mst != mst) = false := by simp [h1]
      simp only [List.filter, hb, lww, hb2, Bool.false_eq_true, if_false, ih]
    · have hb : (r.mst != mst) = true := by simpa using h1
      simp only [List.filter, hb, lww, ih]

theorem find_map (st : St) (f : Shard → Shard) (hf : ∀ sh, (f sh).id = sh.id) (id : Nat) :
    (st.shards.map f).find? (·.id == id) = (st.shards.find? (·.id == id)).map f := by
  induction st.shards with
  | nil => rfl
  | cons sh rest ih =>
    simp only [List.map_cons, List.find?_cons, hf]
    split <;> simp_all

/-- the measurement reads empty in every shard the drop names ... -/
theorem dropMst_removes (st : St) (db mst : String) (ids : List Nat) (id : Nat) (sh : Shard)
    (h : st.find id = some sh) (hdb : sh.db = db) (hid : id ∈ ids) :
    (st.dropMst db mst ids).dump id mst = some [] := by
  have hsid : sh.id = id := by
    have := List.find?_some h
    simpa using this
  simp only [St.dump, St.find, St.dropMst]
  rw [find_map st _ (by intro s; split <;> rfl)]
  simp only [St.find] at h
  simp only [h, Option.map_some, hdb, beq_self_eq_true, hsid, List.contains_eq_mem, hid, decide_true,
    Bool.and_self, if_true, lww_filter_ne, List.foldr_nil]

/-- ... every other measurement of those shards, and every measurement of every other shard, reads as before. -/
theorem dropMst_keeps (st : St) (db mst : String) (ids : List Nat) (id : Nat) (other : String)
    (h : other ≠ mst ∨ id ∉ ids) : (st.dropMst db mst ids).dump id other = st.dump id other := by
  simp only [St.dump, St.find, St.dropMst]
  rw [find_map st _ (by intro s; split <;> rfl)]
  cases hf : st.shards.find? (·.id == id) with
  | none => rfl
  | some sh =>
    have hsid : sh.id = id := by
      have := List.find?_some hf
      simpa using this
    simp only [Option.map_some, Option.some.injEq]
    split
    · rename_i hc
      simp only [Bool.and_eq_true, beq_iff_eq, List.contains_eq_mem, decide_eq_true_eq] at hc
      rcases h with h | h
      · simp only [lww_filter_other mst other h]
      · exact absurd (hsid ▸ hc.2) h
    · rfl

/-! ### nothing comes back -/

/-- no shard of the policy is held. -/
def NoRp (st : St) (db rp : String) : Prop := ∀ sh ∈ st.shards, ¬ (sh.db = db ∧ sh.rp = rp)

def Op.makes (db rp : String) : Op → Bool
  | .mkShard d r _ _ => d == db && r == rp
  | _ => false

theorem noRp_step (st : St) (db rp : String) (h : NoRp st db rp) (op : Op) (hm : op.makes db rp = false) :
    NoRp (st.step op) db rp := by
  cases op with
  | mkShard d r id ix =>
    simp only [St.step, St.mkShard]
    split
    · exact h
    · intro sh hsh
      simp only [List.mem_append, List.mem_singleton] at hsh
      rcases hsh with hsh | rfl
      · exact h sh hsh
      · simp only [Op.makes, Bool.and_eq_false_iff, beq_eq_false_iff_ne] at hm
        rintro ⟨h1, h2⟩
        rcases hm with hm | hm
        · exact hm h1
        · exact hm h2
  | write id r =>
    simp only [St.step, St.write]
    cases st.find id with
    | none => exact h
    | some _ =>
      intro sh hsh
      simp only [Option.getD_some, List.mem_map] at hsh
      obtain ⟨s0, hs0, rfl⟩ := hsh
      have := h s0 hs0
      split <;> exact this
  | dropMst d m ids =>
    intro sh hsh
    simp only [St.step, St.dropMst, List.mem_map] at hsh
    obtain ⟨s0, hs0, rfl⟩ := hsh
    have := h s0 hs0
    split <;> exact this
  | dropRp d r => exact fun sh hsh => h sh (List.mem_filter.1 hsh).1
  | dropDb d => exact fun sh hsh => h sh (List.mem_filter.1 hsh).1
  | restart l =>
    intro sh hsh
    simp only [St.step, St.restart, List.mem_map, List.mem_filter] at hsh
    obtain ⟨s0, hs0, rfl⟩ := hsh
    exact h s0 hs0.1
  | dropSeries d m s =>
    intro sh hsh
    simp only [St.step, St.dropSeries, List.mem_map] at hsh
    obtain ⟨s0, hs0, rfl⟩ := hsh
    have := h s0 hs0
    split <;> exact this
  | mbegin id =>
    intro sh hsh
    simp only [St.step, St.setBusy, List.mem_map] at hsh
    obtain ⟨s0, hs0, rfl⟩ := hsh
    have := h s0 hs0
    split <;> exact this
  | mend id =>
    intro sh hsh
    simp only [St.step, St.setBusy, List.mem_map] at hsh
    obtain ⟨s0, hs0, rfl⟩ := hsh
    have := h s0 hs0
    split <;> exact this
  | purge =>
    intro sh hsh
    simp only [St.step, St.purge, List.mem_map] at hsh
    obtain ⟨s0, hs0, rfl⟩ := hsh
    have := h s0 hs0
    split
    · split <;> exact this
    · exact this

/-- **drop_rp_permanent**: after DROP RETENTION POLICY, whatever follows — writes, other drops,
restarts with any shard list — as long as no shard is created for the policy again, the engine
holds no shard of it (and so the tree has no directory below it). -/
theorem drop_rp_permanent (st : St) (db rp : String) (ops : List Op) (hm : ∀ op ∈ ops, op.makes db rp = false) :
    NoRp (run (st.dropRp db rp) ops) db rp := by
  have h0 : NoRp (st.dropRp db rp) db rp := dropRp_removes st db rp
  generalize st.dropRp db rp = s at h0
  induction ops generalizing s with
  | nil => exact h0
  | cons op ops ih =>
    exact ih (fun o ho => hm o (List.mem_cons_of_mem _ ho)) _ (noRp_step s db rp h0 op (hm op (List.mem_cons_self)))

/-- a shard created for the policy after the drop is empty: every measurement dumps no row. -/
theorem recreated_rp_empty (st : St) (db rp : String) (id ix : Nat) (mst : String)
    (hfresh : (st.dropRp db rp).find id = none) :
    ((st.dropRp db rp).mkShard db rp id ix).dump id mst = some [] := by
  unfold St.mkShard
  rw [hfresh]
  simp only [Option.isSome_none, Bool.false_eq_true, if_false, St.dump, St.find, List.find?_append]
  simp only [St.find] at hfresh
  rw [hfresh]
  simp [lww]

/-- a restart with a list that names every shard held keeps every shard with its rows and its series. -/
theorem restart_all_listed (st : St) (listed : List Nat) (h : ∀ sh ∈ st.shards, sh.id ∈ listed) (id : Nat) (mst : String) :
    (st.restart listed).dump id mst = st.dump id mst ∧ (st.restart listed).seriesOf id mst = st.seriesOf id mst := by
  have hf : (st.shards.filter fun sh => listed.contains sh.id) = st.shards :=
    List.filter_eq_self.2 (fun sh hsh => by simpa using h sh hsh)
  have key : ((st.restart listed).find id) = (st.find id).map fun sh => { sh with busy := false } := by
    simp only [St.find, St.restart, hf]
    exact find_map st (fun sh => { sh with busy := false }) (fun _ => rfl) id
  simp only [St.dump, St.seriesOf, key]
  cases st.find id <;> simp

/-! ### DROP SERIES on the engine: what is named goes from every index of the database, and stays away -/

/-- the series is listed in no shard of the database after the drop ... -/
theorem dropSeries_removes (st : St) (db mst : String) (s : Nat) :
    ∀ sh ∈ (st.dropSeries db mst s).shards, sh.db = db → (mst, s) ∉ sh.series := by
  intro sh hsh hdb
  simp only [St.dropSeries, List.mem_map] at hsh
  obtain ⟨s0, _, rfl⟩ := hsh
  by_cases hc : (s0.db == db && s0.series.contains (mst, s)) = true
  · simp only [hc, if_true]
    simp
  · simp only [hc, Bool.false_eq_true, if_false] at hdb ⊢
    simp only [Bool.and_eq_true, beq_iff_eq, List.contains_eq_mem, decide_eq_true_eq, not_and] at hc
    exact hc hdb

/-- ... every other series of every shard stays listed. -/
theorem dropSeries_keeps (st : St) (db mst : String) (s : Nat) (sh : Shard) (h : sh ∈ st.shards) (k : String × Nat)
    (hk : k ∈ sh.series) (hne : k ≠ (mst, s)) :
    ∃ sh' ∈ (st.dropSeries db mst s).shards, sh'.id = sh.id ∧ k ∈ sh'.series := by
  refine ⟨_, List.mem_map.2 ⟨sh, h, rfl⟩, ?_, ?_⟩
  · by_cases hc : (sh.db == db && sh.series.contains (mst, s)) = true
    · simp only [hc, if_true]
    · simp only [hc, Bool.false_eq_true, if_false]
  · by_cases hc : (sh.db == db && sh.series.contains (mst, s)) = true
    · simp only [hc, if_true, List.mem_filter, bne_iff_ne, ne_eq]
      exact ⟨hk, hne⟩
    · simp only [hc, Bool.false_eq_true, if_false]
      exact hk

/-- a series is listed in no shard of the database. -/
def NoSeries (st : St) (db mst : String) (s : Nat) : Prop := ∀ sh ∈ st.shards, sh.db = db → (mst, s) ∉ sh.series

def Op.writes (mst : String) (s : Nat) : Op → Bool
  | .write _ r => r.mst == mst && r.s == s
  | _ => false

theorem noSeries_step (st : St) (db mst : String) (s : Nat) (h : NoSeries st db mst s) (op : Op)
    (hw : op.writes mst s = false) : NoSeries (st.step op) db mst s := by
  cases op with
  | mkShard d r id ix =>
    simp only [St.step, St.mkShard]
    split
    · exact h
    · intro sh hsh hdb
      simp only [List.mem_append, List.mem_singleton] at hsh
      rcases hsh with hsh | rfl
      · exact h sh hsh hdb
      · simp
  | write id r =>
    simp only [St.step, St.write]
    cases hf : st.find id with
    | none => exact h
    | some sh0 =>
      intro sh hsh hdb
      simp only [Option.getD_some, List.mem_map] at hsh
      obtain ⟨s0, hs0, rfl⟩ := hsh
      simp only [Op.writes, Bool.and_eq_false_iff, beq_eq_false_iff_ne] at hw
      by_cases hid : (s0.id == id) = true
      · simp only [hid, if_true] at hdb ⊢
        split
        · exact h s0 hs0 hdb
        · simp only [List.mem_append, List.mem_singleton, not_or]
          refine ⟨h s0 hs0 hdb, ?_⟩
          intro hc
          have := Prod.mk.inj hc
          rcases hw with hw | hw
          · exact hw this.1.symm
          · exact hw this.2.symm
      · simp only [hid, if_false] at hdb ⊢
        exact h s0 hs0 hdb
  | dropMst d m ids =>
    intro sh hsh hdb
    simp only [St.step, St.dropMst, List.mem_map] at hsh
    obtain ⟨s0, hs0, rfl⟩ := hsh
    by_cases hc : (s0.db == d && ids.contains s0.id) = true
    · simp only [hc, if_true] at hdb ⊢
      exact h s0 hs0 hdb
    · simp only [hc, Bool.false_eq_true, if_false] at hdb ⊢
      exact h s0 hs0 hdb
  | dropRp d r => exact fun sh hsh => h sh (List.mem_filter.1 hsh).1
  | dropDb d => exact fun sh hsh => h sh (List.mem_filter.1 hsh).1
  | restart l =>
    intro sh hsh hdb
    simp only [St.step, St.restart, List.mem_map, List.mem_filter] at hsh
    obtain ⟨s0, hs0, rfl⟩ := hsh
    exact h s0 hs0.1 hdb
  | dropSeries d m s' =>
    intro sh hsh hdb
    simp only [St.step, St.dropSeries, List.mem_map] at hsh
    obtain ⟨s0, hs0, rfl⟩ := hsh
    by_cases hc : (s0.db == d && s0.series.contains (m, s')) = true
    · simp only [hc, if_true] at hdb ⊢
      intro hx
      exact h s0 hs0 hdb (List.mem_filter.1 hx).1
    · simp only [hc, Bool.false_eq_true, if_false] at hdb ⊢
      exact h s0 hs0 hdb
  | mbegin id =>
    intro sh hsh hdb
    simp only [St.step, St.setBusy, List.mem_map] at hsh
    obtain ⟨s0, hs0, rfl⟩ := hsh
    by_cases hc : (s0.id == id) = true
    · simp only [hc, if_true] at hdb ⊢
      exact h s0 hs0 hdb
    · simp only [hc, Bool.false_eq_true, if_false] at hdb ⊢
      exact h s0 hs0 hdb
  | mend id =>
    intro sh hsh hdb
    simp only [St.step, St.setBusy, List.mem_map] at hsh
    obtain ⟨s0, hs0, rfl⟩ := hsh
    by_cases hc : (s0.id == id) = true
    · simp only [hc, if_true] at hdb ⊢
      exact h s0 hs0 hdb
    · simp only [hc, Bool.false_eq_true, if_false] at hdb ⊢
      exact h s0 hs0 hdb
  | purge =>
    intro sh hsh hdb
    simp only [St.step, St.purge, List.mem_map] at hsh
    obtain ⟨s0, hs0, rfl⟩ := hsh
    cases hp : st.polOf s0.db s0.rp with
    | none =>
      simp only [hp] at hdb ⊢
      exact h s0 hs0 hdb
    | some p =>
      simp only [hp] at hdb ⊢
      by_cases hc : (p.mem && !s0.busy) = true
      · simp only [hc, if_true] at hdb ⊢
        exact h s0 hs0 hdb
      · simp only [hc, Bool.false_eq_true, if_false] at hdb ⊢
        exact h s0 hs0 hdb

/-- **drop_series_permanent**: after DROP SERIES on a database, whatever follows — drops of
measurements / policies / databases, new shards, merges of index parts, purges (complete or
refused), restarts — as long as the series is not written again, no index of the database lists it. -/
theorem drop_series_permanent (st : St) (db mst : String) (s : Nat) (ops : List Op)
    (hw : ∀ op ∈ ops, op.writes mst s = false) : NoSeries (run (st.dropSeries db mst s) ops) db mst s := by
  have h0 : NoSeries (st.dropSeries db mst s) db mst s := dropSeries_removes st db mst s
  generalize st.dropSeries db mst s = t at h0
  induction ops generalizing t with
  | nil => exact h0
  | cons op ops ih =>
    exact ih (fun o ho => hw o (List.mem_cons_of_mem _ ho)) _ (noSeries_step t db mst s h0 op (hw op (List.mem_cons_self)))

/-- the purge forgets the deleted tsids of a policy on disk only when no index of the policy had
to leave parts to a running merger. -/
theorem purge_forgets_only_complete (st : St) (p : Pol) (hp : p ∈ st.pols) (hd : p.disk = true) (hb : st.polBusy p = true) :
    p ∈ st.purge.pols := by
  simp only [St.purge, List.mem_map]
  exact ⟨p, hp, by simp [hb]⟩

/-! ### non-vacuity -/

def demo : List Op :=
  [.mkShard "db0" "rp0" 1 1, .mkShard "db0" "rp1" 2 2, .mkShard "db1" "rp0" 3 3,
   .write 1 ⟨"m", 0, 0, "1"⟩, .write 2 ⟨"m", 0, 0, "2"⟩, .write 3 ⟨"m", 0, 0, "3"⟩, .write 1 ⟨"n", 0, 0, "4"⟩,
   .dropRp "db0" "rp1", .dropMst "db0" "m" [1], .dropDb "db1", .mkShard "db0" "rp1" 4 4, .write 4 ⟨"m", 1, 5, "9"⟩,
   .restart [1, 4]]

example : (run St.init demo).loaded =
    [("db0", "rp0", "index", 1), ("db0", "rp0", "shard", 1), ("db0", "rp1", "index", 4), ("db0", "rp1", "shard", 4)] := by decide
example : (run St.init demo).dump 1 "m" = some [] ∧ (run St.init demo).dump 1 "n" = some [⟨"n", 0, 0, "4"⟩] ∧
    (run St.init demo).dump 4 "m" = some [⟨"m", 1, 5, "9"⟩] ∧ (run St.init demo).dump 2 "m" = none := by decide
example : (run St.init demo).dbDirs = ["db0", "db1"] := by decide

/-- two shards of one policy (an index each): the series is dropped from both; a merger holds
parts of the second index when the purge runs: refused, the deleted set stays on disk; after the
merge the purge completes. The series is listed by neither index, before or after the restart. -/
def demo2 : List Op :=
  [.mkShard "db0" "rp0" 1 1, .mkShard "db0" "rp0" 2 2,
   .write 1 ⟨"m", 0, 0, "1"⟩, .write 1 ⟨"m", 1, 1, "1"⟩, .write 2 ⟨"m", 0, 3, "1"⟩, .write 2 ⟨"m", 1, 4, "1"⟩,
   .dropSeries "db0" "m" 0, .mbegin 2, .purge]

example : (run St.init demo2.dropLast).purgeRefused = true ∧ (run St.init (demo2 ++ [.mend 2])).purgeRefused = false := by decide
example : (run St.init demo2).pols = [⟨"db0", "rp0", true, true⟩] := by decide
example : (run St.init (demo2 ++ [.mend 2, .purge])).pols = [⟨"db0", "rp0", true, false⟩] := by decide
example : (run St.init (demo2 ++ [.mend 2, .restart [1, 2]])).seriesOf 2 "m" = some [1] ∧
    (run St.init (demo2 ++ [.mend 2, .restart [1, 2]])).dump 2 "m" = some [⟨"m", 1, 4, "1"⟩] := by decide

end OG.C13.Store
