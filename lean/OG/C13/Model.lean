/-
C13 — model of dropping (series by tag predicate, measurement) on one ts-store shard and of
every read shape over it.

State = the storage layout of C02 (`lay`, cells keyed by tsid) + what the WAL really holds
(`kwal`, rows keyed by *series key*, not by tsid) + the series index (`idx`: series key ↦ tsid
entries, the deleted-tsid set in memory, on disk and not yet flushed to disk).

Series keys are named by a number `kid`; a universe `U` gives the measurement and the tags of a
key (the driver builds it from `key` lines; the theorems hold for every universe).

Transcribed from the code:
* write: a row's tsid is the first stored tsid of its series key that is not deleted
  (`getSeriesIdBySeriesKey` / `getTSIDBySeriesKey`), else a new one (`createIndexesIfNotExists`);
  the memtable is keyed by tsid, the WAL record holds the rows with their series keys;
* drop series (`DropSeries.Process`): search the tsids by the tag predicate on the flushed index
  (`SearchSeriesByTableAndCond`, deleted tsids already subtracted), add them to the deleted set
  (`WriteDeleteTsids`: in memory at once, on disk when the raw items of the deleted-tsid table
  are flushed — within a second, or by a clean close). No data is touched;
* every read shape goes through an id-producing path of the index; whether that path subtracts
  the deleted set is read from the regenerated table (`OG.Gen.C13.paths`);
* drop measurement (`shard.DropMeasurement`): force flush with the rows of the measurement left
  out (`commitSnapshot` skips a deleting measurement), the WAL is cut by that flush, then the
  files of the measurement are deleted and its flush times forgotten (`DelMmsIdTime`). The
  series index is not touched;
* the index table is a set of *parts* (`Part`): the items of the series a write batch creates are
  raw items until the next flush of the table, which makes one part of them; mergers combine
  parts (`mbegin` / `mend`: a merger takes parts by setting `isInMerge`, later replaces them by
  their union); searches read every part;
* the periodic purge (`IndexBuilder.DropSeries` → `RemoveItemsByDelTsidsFromParts`): every part
  that is neither being merged nor already marked is marked (`isDeleteTsids`) and rewritten
  without the items of deleted tsids — unchanged: the mark is taken off; changed: the part is
  replaced by its rewritten copy; only if no part had to be left to a running merge are the
  caches cleared and the on-disk deleted set emptied; the in-memory set stays until the next start;
* close + reopen / crash + recover: the deleted set is reloaded from disk (a clean close flushes
  it first, a crash loses what was not flushed), then the WAL is replayed through the write
  path — a row whose series was dropped gets a *new* tsid (the drop is not in the WAL) —
  and flushed.
Core-only, executable.
-/
import OG.C02.Model
import OG.Generated.C13

namespace OG.C13
open OG.C02

abbrev Tags := List (String × String)

/-- measurement and tags of every series key. -/
structure Univ where
  mst : Nat → String
  tags : Nat → Tags

/-- value of a tag; a series without the tag has the empty value (InfluxQL semantics). -/
def tagVal (tags : Tags) (k : String) : String :=
  match tags.lookup k with
  | some v => v
  | none => ""

/-- tag predicates of DROP SERIES … WHERE / SHOW … WHERE / SELECT … WHERE (tag part). -/
inductive Pred where
  | all
  | eq (k v : String)
  | neq (k v : String)
  | re (k : String) (alts : List String)      -- k =~ /^(a|b|…)$/
  | nre (k : String) (alts : List String)
  | and (a b : Pred)
  | or (a b : Pred)
deriving Repr, DecidableEq

def Pred.eval (tags : Tags) : Pred → Bool
  | .all => true
  | .eq k v => tagVal tags k == v
  | .neq k v => tagVal tags k != v
  | .re k alts => alts.contains (tagVal tags k)
  | .nre k alts => !alts.contains (tagVal tags k)
  | .and a b => a.eval tags && b.eval tags
  | .or a b => a.eval tags || b.eval tags

/-- one (series key, tsid) entry of the index. -/
structure Ent where
  kid : Nat
  id : Nat
deriving DecidableEq, Repr

/-- a part of the primary index table: the tsids whose items (key→tsid, tsid→key, tag→tsids
rows) it holds, and the two flags of `partWrapper`: `isInMerge` (a merger has taken the part)
and `isDeleteTsids` (the purge of deleted tsids has taken the part). -/
structure Part where
  ids : List Nat
  inMerge : Bool
  mark : Bool
deriving Repr, DecidableEq

structure Idx where
  ents : List Ent          -- stored key↦tsid items, creation order
  deleted : List Nat       -- deleted-tsid set in memory
  delDisk : List Nat       -- deleted-tsid table on disk
  delPend : List Nat       -- acknowledged, still in the raw items of the deleted-tsid table
  next : Nat               -- next tsid
  born : List (Nat × Nat)  -- ghost: every tsid ever issued with its series key (file layout report only)
  raw : List Nat           -- tsids whose items are still raw items of the index table (in no part yet)
  parts : List Part        -- the parts of the index table, in the order of `tb.parts`
deriving Repr, DecidableEq

def Idx.init : Idx := ⟨[], [], [], [], 1, [], [], []⟩

/-- `getTSIDBySeriesKey` after the repair of C10: the first stored tsid of the key that is not deleted. -/
def Idx.liveId (ix : Idx) (kid : Nat) : Option Nat :=
  (ix.ents.find? fun e => e.kid == kid && !ix.deleted.contains e.id).map (·.id)

/-- series key ↦ tsid on the write path; creates the series when there is no live tsid. -/
def Idx.resolve (ix : Idx) (kid : Nat) : Idx × Nat :=
  match ix.liveId kid with
  | some id => (ix, id)
  | none =>
    ({ ix with ents := ix.ents ++ [⟨kid, ix.next⟩], next := ix.next + 1, born := (ix.next, kid) :: ix.born,
               raw := ix.raw ++ [ix.next] },
     ix.next)

/-- the raw items of the index table are flushed: they become one new part (`flushRawItems` →
`mergeRawItemsBlocks`; nothing happens when there are none). The harness does this after every
write batch, the code within a second, at every data flush, in `ClearCache` and at close. -/
def Idx.flushRaw (ix : Idx) : Idx :=
  if ix.raw.isEmpty then ix else { ix with parts := ix.parts ++ [⟨ix.raw, false, false⟩], raw := [] }

/-- a batch of rows keyed by series key ↦ the same rows keyed by tsid. -/
def resolveRows : Idx → List Row → Idx × List Row
  | ix, [] => (ix, [])
  | ix, r :: rs =>
    let (ix1, id) := ix.resolve r.s
    let (ix2, rs') := resolveRows ix1 rs
    (ix2, { r with s := id } :: rs')

def resolveBatches : Idx → List (List Row) → Idx × List (List Row)
  | ix, [] => (ix, [])
  | ix, b :: bs =>
    let (ix1, b') := resolveRows ix b
    let (ix2, bs') := resolveBatches ix1 bs
    (ix2, b' :: bs')

structure St where
  lay : C02.St                      -- layout, cells keyed by tsid (`lay.wal`: ghost, rows with the tsid of write time)
  kwal : List (Nat × List Row)      -- the WAL: (partition, rows keyed by series key) since the last switch
  idx : Idx
deriving Repr

def St.init (n : Nat) : St := ⟨C02.St.init n true, [], Idx.init⟩

/-! ### operations -/

def St.write (st : St) (b : List Row) : St :=
  let (ix, rows) := resolveRows st.idx b
  { lay := st.lay.write rows
    kwal := st.kwal ++ [(st.lay.ctr % st.lay.nParts, b)]
    idx := ix.flushRaw }

def St.flush (st : St) : St := { st with lay := st.lay.flush, kwal := [] }
def St.compact (st : St) : St := { st with lay := st.lay.compact }
def St.mergeOOO (st : St) : St := { st with lay := st.lay.mergeOOO }

/-- does the id-producing path of a read shape subtract the deleted set?  (regenerated table) -/
def guarded (entry : String) : Bool :=
  let rows := OG.Gen.C13.paths.filter (·.1 == entry)
  !rows.isEmpty && rows.all (fun r => r.2.2 != "UNGUARDED")

/-- an index entry is returned by a path: always if the path does not subtract the deleted set. -/
def Idx.vis (ix : Idx) (g : Bool) (e : Ent) : Bool := !g || !ix.deleted.contains e.id

/-- entries of a measurement that a search with tag predicate `p` returns. -/
def St.search (U : Univ) (st : St) (g : Bool) (m : String) (p : Pred) : List Ent :=
  st.idx.ents.filter fun e => U.mst e.kid == m && p.eval (U.tags e.kid) && st.idx.vis g e

/-- DROP SERIES FROM m WHERE p, as the store executes it on one shard. -/
def St.dropSeries (U : Univ) (st : St) (m : String) (p : Pred) : St × Nat :=
  let ids := (st.search U (guarded "dropsearch") m p).map (·.id)
  ({ st with idx := { st.idx with deleted := st.idx.deleted ++ ids, delPend := st.idx.delPend ++ ids } },
   ids.length)

/-- a second passes: the raw items of the deleted-tsid table reach the disk. -/
def St.tick (st : St) : St :=
  { st with idx := { st.idx with delDisk := st.idx.delDisk ++ st.idx.delPend, delPend := [] } }

/-- tsids of a measurement (live, deleted or purged). -/
def Idx.ofMst (U : Univ) (ix : Idx) (m : String) (id : Nat) : Bool :=
  match ix.born.lookup id with
  | some kid => U.mst kid == m
  | none => false

/-- DROP MEASUREMENT on the shard. -/
def St.dropMst (U : Univ) (st : St) (m : String) : St :=
  let keep : Cell → Bool := fun c => !st.idx.ofMst U m c.s
  let lay1 := { st.lay with active := st.lay.active.filter keep }
  let lay2 := lay1.flush
  let lay3 := { lay2 with
    ooo := lay2.ooo.map (·.filter keep)
    ordered := lay2.ordered.map (·.filter keep)
    lastFlush := lay2.lastFlush.filter fun x => !st.idx.ofMst U m x.1 }
  { st with lay := lay3, kwal := [] }

/-! ### the parts of the index table: mergers and the purge of deleted tsids

Transcribed from `lib/util/lifted/vm/mergeset/table.go`; the Boolean facts `OG.Gen.C13.*` are
regenerated from the source on every run, so the definitions follow what the source says now. -/

/-- may a merger take the part?  (`getPartsToMerge` leaves out parts that are being merged,
`appendPartsToMerge` parts that carry the purge mark) -/
def Part.mergeable (p : Part) : Bool :=
  !((OG.Gen.C13.mergeSkipsInMerge && p.inMerge) || (OG.Gen.C13.mergeSkipsMarked && p.mark))

/-- a merger has chosen the parts at positions `sel` (`getPartsToMerge`: `isInMerge = true` under
`partsLock`). -/
def beginMergeAt (sel : List Nat) : Nat → List Part → List Part
  | _, [] => []
  | i, p :: ps =>
    (if sel.contains i && p.mergeable then { p with inMerge := p.inMerge || OG.Gen.C13.mergeMarksPicked } else p)
      :: beginMergeAt sel (i + 1) ps

/-- the running merge finishes (`mergeParts`): its source parts leave `tb.parts`, the output part
(the union of their items, no flag) is appended. -/
def endMerge (parts : List Part) : List Part :=
  let src := parts.filter (·.inMerge)
  if src.isEmpty then parts
  else parts.filter (fun p => !p.inMerge) ++ [⟨src.flatMap (·.ids), false, false⟩]

/-- does the walk of the purge take the part?  (`if temp[i].isInMerge … continue`,
`if temp[i].isDeleteTsids … continue`) -/
def Part.selected (p : Part) : Bool :=
  !((OG.Gen.C13.purgeSkipsInMerge && p.inMerge) || (OG.Gen.C13.purgeSkipsMarked && p.mark))

/-- does the part hold an item of a deleted tsid?  (`genTempPart`: `changed`) -/
def Part.hit (del : List Nat) (p : Part) : Bool := p.ids.any fun i => del.contains i

/-- `filterByDelTsidAndGenNewPart` for a part the walk has taken (and marked): what stays at the
part's place in `tb.parts`, and what is appended to `tb.parts`. -/
def rewritePart (del : List Nat) (p : Part) : Option Part × Option Part :=
  let marked : Part := { p with mark := p.mark || OG.Gen.C13.purgeMarksSelected }
  if !p.hit del then
    -- `if !changed { pw.isDeleteTsids = false; …; return nil }`
    (some { marked with mark := marked.mark && !OG.Gen.C13.purgeUnchangedClearsMark }, none)
  else if OG.Gen.C13.purgeChangedReplacesPart then
    -- `removeParts(tb.parts, {pw})`, `if newPW != nil { tb.parts = append(tb.parts, newPW) }`
    let ids := p.ids.filter fun i => !del.contains i
    (none, if ids.isEmpty then none
           else some ⟨ids, false, !OG.Gen.C13.purgeNewPartUnflagged⟩)
  else (some marked, none)

/-- `RemoveItemsByDelTsidsFromParts`: the parts of the table after the walk. -/
def purgeParts (del : List Nat) (parts : List Part) : List Part :=
  parts.filterMap (fun p => if p.selected then (rewritePart del p).1 else some p) ++
    parts.filterMap (fun p => if p.selected then (rewritePart del p).2 else none)

/-- does the walk report that it is incomplete?  (the error of `RemoveItemsByDelTsidsFromParts`) -/
def purgeRefused (parts : List Part) : Bool :=
  (OG.Gen.C13.purgeRefusesWhenInMerge && parts.any fun p => OG.Gen.C13.purgeSkipsInMerge && p.inMerge) ||
    (OG.Gen.C13.purgeRefusesWhenMarked && parts.any fun p =>
      !(OG.Gen.C13.purgeSkipsInMerge && p.inMerge) && OG.Gen.C13.purgeSkipsMarked && p.mark)

/-- the periodic physical purge of deleted series (`IndexBuilder.DropSeries`): nothing to do when
the deleted set in memory is empty; else the parts of the index table are walked, an index entry
survives iff its tsid is still in some part (or in the raw items), and — only when the walk
reported no error — the caches are cleared and the parts of the deleted-tsid table removed. -/
def St.purge (st : St) : St :=
  if st.idx.deleted.isEmpty then st
  else
    let parts := purgeParts st.idx.deleted st.idx.parts
    let kept := parts.flatMap (·.ids) ++ st.idx.raw
    { st with idx := { st.idx with
        ents := st.idx.ents.filter (fun e => kept.contains e.id)
        parts := parts
        delDisk := if purgeRefused st.idx.parts then st.idx.delDisk else [] } }

/-- did the last purge report an error?  (what the driver answers) -/
def St.purgeErr (st : St) : Bool := !st.idx.deleted.isEmpty && purgeRefused st.idx.parts

def St.mbegin (st : St) (sel : List Nat) : St :=
  { st with idx := { st.idx with parts := beginMergeAt sel 0 st.idx.parts } }

def St.mend (st : St) : St := { st with idx := { st.idx with parts := endMerge st.idx.parts } }

/-- a merge of the parts at positions `sel` from start to end. -/
def St.imerge (st : St) (sel : List Nat) : St := (st.mbegin sel).mend

/-- the background mergers, which run from the start of the process until the harness stops
them, have regrouped the parts: any grouping of the same tsids, no flag. Refused (state
unchanged) when a flag is set or the groups do not hold exactly the tsids of the parts. -/
def St.regroup (st : St) (gs : List (List Nat)) : St :=
  let old := st.idx.parts.flatMap (·.ids)
  let new := gs.flatten
  if st.idx.parts.all (fun p => !p.inMerge && !p.mark) && old.all new.contains && new.all old.contains then
    { st with idx := { st.idx with parts := (gs.filter (!·.isEmpty)).map fun g => ⟨g, false, false⟩ } }
  else st

/-- one round of serial WAL replay, generic in the record payload (`C02.popRound`). -/
def replayOrder (n : Nat) (recs : List (Nat × List Row)) : List (List Row) :=
  roundRobin n (recs.length + 1) recs

/-- a new process opens the index: the deleted set is what the deleted-tsid table holds, the part
flags are those of fresh `partWrapper`s (a merge that was running left its sources in place). -/
def Idx.restart (ix : Idx) : Idx :=
  { ix with deleted := ix.delDisk, delPend := []
            parts := ix.parts.map fun p => { p with inMerge := false, mark := false } }

/-- start of a shard on what is on disk: load the deleted set, replay the WAL through the write
path, flush (the data flush flushes the index's raw items too). -/
def St.recover (st : St) : St :=
  let ix0 := st.idx.restart
  let (ix, batches) := resolveBatches ix0 (replayOrder st.lay.nParts st.kwal)
  let act := (batches.reverse.map batchCells).flatten
  { lay := C02.St.flush { st.lay with ctr := 0, active := act }
    kwal := []
    idx := ix.flushRaw }

/-- clean close (flushes the index tables) + start. -/
def St.reopen (st : St) : St := st.tick.recover

/-- kill -9 + start: what was not flushed to the deleted-tsid table is lost. -/
def St.crash (st : St) : St := st.recover

/-! ### read shapes -/

def allFields : List String := ["fb", "ff", "fi", "fs"]

/-- group-by key of a series. -/
def groupKey (dims : List String) (tags : Tags) : String :=
  String.intercalate "," (dims.map fun d => d ++ "=" ++ tagVal tags d)

/-- condition of a selection: tag predicate, optional field filter `fi > c`, AND / OR. -/
structure Cond where
  p : Pred
  f : Option Int
  conj : Bool
deriving Repr

def fieldPass (cells : List Cell) (s : Nat) (t : Int) (c : Int) : Bool :=
  match lookup (s, t, "fi") cells with
  | some v => match v.toInt? with
    | some x => decide (c < x)
    | none => false
  | none => false

/-- which series the index hands to the cursors. -/
def Cond.series (c : Cond) (tags : Tags) : Bool :=
  match c.f with
  | none => c.p.eval tags
  | some _ => if c.conj then c.p.eval tags else true

def Cond.row (c : Cond) (tags : Tags) (cells : List Cell) (s : Nat) (t : Int) : Bool :=
  match c.f with
  | none => true
  | some x => if c.conj then fieldPass cells s t x else (c.p.eval tags || fieldPass cells s t x)

abbrev SelRow := Nat × Int × List (Option String) × String

/-- rows of the series `(kid ↦ s)` over a cell list. -/
def selSeries (cells : List Cell) (tags : Tags) (kid s : Nat) (c : Cond) (dims : List String)
    (lo hi : Int) (asc : Bool) (fields : List String) : List SelRow :=
  (readSeries cells s lo hi asc fields).filterMap fun (_, t, vals) =>
    if c.row tags cells s t then some (kid, t, vals, groupKey dims tags) else none

/-- SELECT fields FROM m WHERE c GROUP BY dims: series ascending by key, rows by time. -/
def St.sel (U : Univ) (st : St) (m : String) (c : Cond) (dims : List String) (lo hi : Int) (asc : Bool)
    (fields : List String) : List SelRow :=
  let ents := st.idx.ents.filter fun e =>
    U.mst e.kid == m && c.series (U.tags e.kid) && st.idx.vis (guarded "select") e
  (sortDistinct (ents.map (·.kid))).flatMap fun kid =>
    (ents.filter (·.kid == kid)).flatMap fun e =>
      selSeries st.lay.cells (U.tags kid) kid e.id c dims lo hi asc fields

/-- aggregate of `fi` per group, groups ascending. -/
def aggOf (call : String) (rows : List SelRow) : List (String × Int) :=
  let groups := sortDistinct (rows.map (·.2.2.2))
  groups.map fun g =>
    let vals := (rows.filter (·.2.2.2 == g)).filterMap fun r =>
      match r.2.2.1 with
      | [some v] => v.toInt?
      | _ => none
    (g, if call == "count" then (vals.length : Int) else vals.foldl (· + ·) 0)

def St.agg (U : Univ) (st : St) (m call : String) (c : Cond) (dims : List String) (lo hi : Int) :
    List (String × Int) :=
  aggOf call (st.sel U m c dims lo hi true ["fi"])

/-- insertion sort that keeps duplicates. -/
def insertNat (x : Nat) : List Nat → List Nat
  | [] => [x]
  | y :: ys => if x ≤ y then x :: y :: ys else y :: insertNat x ys

def sortNat (xs : List Nat) : List Nat := xs.foldr insertNat []

/-- SHOW SERIES FROM m WHERE p: one line per stored tsid that the search returns. -/
def St.series (U : Univ) (st : St) (m : String) (p : Pred) : List Nat :=
  sortNat ((st.search U (guarded "showseries") m p).map (·.kid))

def tagKeysOf (U : Univ) (kids : List Nat) : List String :=
  sortDistinct ((kids.flatMap fun k => U.tags k).map (·.1))

/-- SHOW TAG KEYS FROM m WHERE p (derived from the series keys, as the engine does). -/
def St.tagKeys (U : Univ) (st : St) (m : String) (p : Pred) : List String :=
  tagKeysOf U (st.series U m p)

def tagValsOf (U : Univ) (kids : List Nat) (keys : List String) : List (String × List String) :=
  keys.map fun k => (k, sortDistinct ((kids.filter fun kid => (U.tags kid).lookup k != none).map
    fun kid => tagVal (U.tags kid) k))

/-- SHOW TAG VALUES FROM m WITH KEY IN keys WHERE p. -/
def St.tagVals (U : Univ) (st : St) (m : String) (keys : List String) (p : Pred) :
    List (String × List String) :=
  tagValsOf U ((st.search U (guarded "tagvalues") m p).map (·.kid)) keys

/-- SHOW TAG VALUES CARDINALITY: the number of distinct values `SearchTagValues` returns for the
keys (`EngineImpl.TagValuesCardinality` unions them per measurement). -/
def St.tagValCard (U : Univ) (st : St) (m : String) (keys : List String) (p : Pred) : Nat :=
  (sortDistinct ((st.tagVals U m keys p).flatMap (·.2))).length

/-- SHOW SERIES CARDINALITY FROM m [WHERE p]: without a condition the count of the measurement's
tsids (`seriesCount`), with one the length of a search. -/
def St.card (U : Univ) (st : St) (m : String) (p : Option Pred) : Nat :=
  match p with
  | none => (st.search U (guarded "cardall") m .all).length
  | some p => (st.search U (guarded "cardcond") m p).length

/-- which measurements got a new ordered / out-of-order file by the flush of `st`. -/
def St.flushLayout (U : Univ) (st : St) : List (String × Bool × Bool) :=
  let ord := st.lay.active.filter (isOrdered st.lay.lastFlush)
  let o3 := st.lay.active.filter (fun c => !isOrdered st.lay.lastFlush c)
  let mstOf : Cell → String := fun c =>
    match st.idx.born.lookup c.s with
    | some kid => U.mst kid
    | none => ""
  let ms := sortDistinct (st.lay.active.map mstOf)
  ms.map fun m => (m, ord.any (mstOf · == m), o3.any (mstOf · == m))

end OG.C13
