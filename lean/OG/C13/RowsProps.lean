/-
C13 — the row scan of SHOW TAG VALUES is exact for every split of a tag value's tsids into rows.
-/
import OG.C13.Rows

namespace OG.C13
open OG.C02

theorem mem_of_mem_dropWhile {α : Type} (p : α → Bool) : ∀ (l : List α) (x : α), x ∈ l.dropWhile p → x ∈ l := by
  intro l
  induction l with
  | nil => intro x h; exact h
  | cons a as ih =>
    intro x h
    simp only [List.dropWhile] at h
    split at h
    · exact List.mem_cons_of_mem _ (ih x h)
    · exact h

theorem mem_split_dropWhile {α : Type} (p : α → Bool) : ∀ (l : List α) (x : α), x ∈ l →
    p x = true ∨ x ∈ l.dropWhile p := by
  intro l
  induction l with
  | nil => intro x h; cases h
  | cons a as ih =>
    intro x h
    simp only [List.dropWhile]
    cases hp : p a
    · exact Or.inr h
    · simp only [List.mem_cons] at h
      rcases h with rfl | h
      · exact Or.inl hp
      · exact ih x h

theorem length_dropWhile_le {α : Type} (p : α → Bool) (l : List α) : (l.dropWhile p).length ≤ l.length := by
  induction l with
  | nil => simp
  | cons a as ih =>
    simp only [List.dropWhile]
    split
    · simp only [List.length_cons]; omega
    · simp

/-- the scan with enough fuel records exactly the values of the rows that list a wanted tsid. -/
theorem scanRows_exact (want : Nat → Bool) : ∀ (fuel : Nat) (rows : List TRow), rows.length ≤ fuel →
    ∀ v, v ∈ scanRows want fuel rows ↔ ∃ r ∈ rows, r.value = v ∧ r.ids.any want = true := by
  intro fuel
  induction fuel with
  | zero =>
    intro rows h v
    have : rows = [] := by cases rows with | nil => rfl | cons _ _ => simp at h
    subst this
    simp [scanRows]
  | succ n ih =>
    intro rows h v
    cases rows with
    | nil => simp [scanRows]
    | cons r rs =>
      have hl : rs.length ≤ n := by simp only [List.length_cons] at h; omega
      simp only [scanRows, OG.Gen.C13.tagValuesSeekGuardedByRecord, OG.Gen.C13.tagValuesSeeksAfterFullRow,
        Bool.and_true, Bool.not_true, Bool.or_false, List.mem_cons, exists_eq_or_imp]
      cases he : r.ids.any want
      · -- nothing wanted in the row: it contributes nothing and the scan goes on with the next row
        simp only [Bool.not_false, if_true, Bool.false_eq_true, and_false, false_or]
        exact ih rs hl v
      · simp only [Bool.not_true, Bool.false_eq_true, if_false, if_true, and_true]
        split
        · simp only [List.mem_append, List.mem_singleton]
          rw [ih rs hl v]
          constructor
          · rintro (h1 | h1)
            · exact Or.inl h1.symm
            · exact Or.inr h1
          · rintro (h1 | h1)
            · exact Or.inl h1.symm
            · exact Or.inr h1
        · -- a full row: the remaining rows of its value are jumped over, the value is recorded already
          simp only [List.mem_append, List.mem_singleton]
          rw [ih _ (Nat.le_trans (length_dropWhile_le _ rs) hl) v]
          constructor
          · rintro (h1 | ⟨r', hr', hv, hw⟩)
            · exact Or.inl h1.symm
            · exact Or.inr ⟨r', mem_of_mem_dropWhile _ rs r' hr', hv, hw⟩
          · rintro (h1 | ⟨r', hr', hv, hw⟩)
            · exact Or.inl h1.symm
            · rcases mem_split_dropWhile (fun x : TRow => x.value == r.value) rs r' hr' with hp | hd
              · left
                have : r'.value = r.value := by simpa using hp
                rw [← hv, this]
              · exact Or.inr ⟨r', hd, hv, hw⟩

/-- **tagvalues_row_scan_exact**: for every way the tsids of the tag values are split into rows
(any number of rows per value, of any lengths, full or not, in any order), the scan with the
jump after a full row returns a value iff some row of that value lists a wanted tsid. -/
theorem tagvalues_row_scan_exact (want : Nat → Bool) (rows : List TRow) (v : String) :
    v ∈ scanRows want rows.length rows ↔ ∃ r ∈ rows, r.value = v ∧ r.ids.any want = true :=
  scanRows_exact want rows.length rows (Nat.le_refl _) v

/-- the rows of a key list exactly the (value, tsid) pairs of the index entries. -/
def RowsOK (U : Univ) (st : St) (m k : String) (rows : List TRow) : Prop :=
  ∀ v i, (∃ r ∈ rows, r.value = v ∧ i ∈ r.ids) ↔
    ∃ e ∈ st.idx.ents, e.id = i ∧ U.mst e.kid = m ∧ (U.tags e.kid).lookup k = some v

/-- **tagvalues_rows_agree**: over rows that list the index's (value, tsid) pairs — however they
are split — the scan answers a value iff a series the search returns carries it: the row-level
read is the series-level read `St.tagVals` is defined by (`hinj`: a tsid names one entry, part of
the index invariant `IdxOK` that `run_R` maintains). -/
theorem tagvalues_rows_agree (U : Univ) (st : St) (m k : String) (p : Pred) (rows : List TRow)
    (h : RowsOK U st m k rows)
    (hinj : ∀ e1 ∈ st.idx.ents, ∀ e2 ∈ st.idx.ents, e1.id = e2.id → e1 = e2) (v : String) :
    v ∈ scanRows (st.wanted U m p) rows.length rows ↔
      ∃ e ∈ st.search U (guarded "tagvalues") m p, (U.tags e.kid).lookup k = some v := by
  rw [tagvalues_row_scan_exact]
  constructor
  · rintro ⟨r, hr, hv, hw⟩
    simp only [List.any_eq_true, St.wanted, List.contains_eq_mem, List.mem_map, decide_eq_true_eq] at hw
    obtain ⟨i, hi, e, he, hei⟩ := hw
    obtain ⟨e', he', hid, _, hk⟩ := (h v i).1 ⟨r, hr, hv, hi⟩
    -- the search returns entries of the index; the tsid names one entry's series key
    refine ⟨e, he, ?_⟩
    have hme : e ∈ st.idx.ents := (List.mem_filter.1 he).1
    have : e = e' := hinj e hme e' he' (by rw [hei, hid])
    rw [this]; exact hk
  · rintro ⟨e, he, hk⟩
    have hme : e ∈ st.idx.ents := (List.mem_filter.1 he).1
    have hm : U.mst e.kid = m := by
      have := (List.mem_filter.1 he).2
      simp only [Bool.and_eq_true, beq_iff_eq] at this
      exact this.1.1
    obtain ⟨r, hr, hv, hi⟩ := (h v e.id).2 ⟨e, hme, rfl, hm, hk⟩
    refine ⟨r, hr, hv, ?_⟩
    simp only [List.any_eq_true, St.wanted, List.contains_eq_mem, List.mem_map, decide_eq_true_eq]
    exact ⟨e.id, hi, e, he, rfl⟩

/-- a full first row whose tsids are all unwanted (dropped, or excluded by the condition), then a
row of the same value with a wanted tsid: the value is found (the scan does not jump). -/
example : scanRows (fun i => decide (64 ≤ i)) 2 [⟨"z0", List.range 64⟩, ⟨"z0", [64, 65]⟩] = ["z0"] := by decide

/-- a full first row with a wanted tsid: the value is recorded once, the later rows of the value are
jumped over, the next value is still read. -/
example : scanRows (fun i => decide (i < 100)) 3 [⟨"z0", List.range 64⟩, ⟨"z0", [64, 65]⟩, ⟨"z1", [70]⟩] = ["z0", "z1"] := by
  decide

end OG.C13
