/-
C13 — every property theorem of C13 under one module, so that one `lake build` and one axiom
audit cover them (the check builds and audits each listed module separately, under the shared
build lock).
-/
import OG.C13.Props
import OG.C13.PurgeProps
import OG.C13.CatProps
import OG.C13.StoreProps
import OG.C13.RowsProps
