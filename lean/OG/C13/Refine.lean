/-
C13 — every operation keeps the refinement relation `R` between the drop model and the
specification; the read shapes of related states agree.
-/
import OG.C13.Parts

namespace OG.C13
open OG.C02

theorem batchCells_cons (r : Row) (rs : List Row) : batchCells (r :: rs) = batchCells rs ++ r.cells := by
  simp [batchCells]

theorem core_rows (b : List Row) : ∀ {ix : Idx} {cs : List Cell} {sp : Sp}, Core ix cs sp →
    Core (resolveRows ix b).1 (batchCells (resolveRows ix b).2 ++ cs)
      ⟨batchCells b ++ sp.cells, addKnown sp.known b⟩ := by
  induction b with
  | nil => intro ix cs sp h; simpa [resolveRows, batchCells, addKnown] using h
  | cons r rs ih =>
    intro ix cs sp h
    have h1 := core_row h r
    have h2 := ih h1
    simp only [resolveRows, batchCells_cons, List.append_assoc]
    simpa [addKnown] using h2

/-- the refinement relation. -/
structure R (st : St) (sp : Sp) : Prop where
  lay : C02.Inv st.lay
  fixed : st.lay.fixed = true
  core : Core st.idx st.lay.cells sp

theorem R_init (n : Nat) (hn : 0 < n) : R (St.init n) Sp.init :=
  ⟨inv_init n hn true, rfl, by simpa [St.init, C02.St.init, C02.St.cells] using core_init⟩

theorem write_R {st : St} {sp : Sp} (U : Univ) (h : R st sp) (b : List Row) :
    R (st.step U (.write b)) (sp.step U (.write b)) := by
  simp only [St.step, Sp.step, St.write]
  refine ⟨write_inv _ _ h.lay, by simpa [C02.St.write] using h.fixed, ?_⟩
  simp only [write_cells]
  exact (core_rows b h.core).flushRaw

/-- layout-only operations. -/
theorem layout_R {st : St} {sp : Sp} (h : R st sp) (lay' : C02.St) (hi : C02.Inv lay') (hf : lay'.fixed = true)
    (he : Equiv lay'.cells st.lay.cells) (hm : ∀ c ∈ lay'.cells, c ∈ st.lay.cells) (kw : List (Nat × List Row)) :
    R { st with lay := lay', kwal := kw } sp :=
  ⟨hi, hf, h.core.congr he hm⟩

theorem fixed_flush (l : C02.St) : l.flush.fixed = l.fixed := (flush_wal l).2.2.1

theorem flush_R {st : St} {sp : Sp} (U : Univ) (h : R st sp) : R (st.step U .flush) (sp.step U .flush) := by
  simp only [St.step, Sp.step, St.flush]
  exact layout_R h _ (flush_inv _ h.lay.files h.lay.np) (by rw [fixed_flush]; exact h.fixed)
    (flush_equiv _ h.lay.files) (flush_cells_mem _) []

theorem compact_R {st : St} {sp : Sp} (U : Univ) (h : R st sp) : R (st.step U .compact) (sp.step U .compact) := by
  simp only [St.step, Sp.step, St.compact]
  have := layout_R h _ (compact_inv _ h.lay) (by simpa [C02.St.compact] using h.fixed)
    (compact_equiv _) (compact_cells_mem _) st.kwal
  simpa using this

theorem merge_R {st : St} {sp : Sp} (U : Univ) (h : R st sp) : R (st.step U .merge) (sp.step U .merge) := by
  simp only [St.step, Sp.step, St.mergeOOO]
  have hf : st.lay.mergeOOO.fixed = true := by
    unfold C02.St.mergeOOO; split <;> simpa using h.fixed
  have := layout_R h _ (merge_inv _ h.lay) hf (merge_equiv _) (merge_cells_mem _) st.kwal
  simpa using this

end OG.C13

namespace OG.C13
open OG.C02

/-! ### the regenerated table says every id-producing path subtracts the deleted set -/

theorem guarded_select : guarded "select" = true := by decide
theorem guarded_showseries : guarded "showseries" = true := by decide
theorem guarded_dropsearch : guarded "dropsearch" = true := by decide
theorem guarded_cardall : guarded "cardall" = true := by decide
theorem guarded_cardcond : guarded "cardcond" = true := by decide
theorem guarded_tagvalues : guarded "tagvalues" = true := by decide
theorem guarded_keylookup : guarded "keylookup" = true := by decide

/-! ### index-only changes -/

theorem Core.reidx {ix ix' : Idx} {cs : List Cell} {sp : Sp} (h : Core ix cs sp)
    (he : ix'.ents = ix.ents) (hn : ix'.next = ix.next) (hb : ix'.born = ix.born)
    (hv : ∀ e ∈ ix.ents, ix'.visible e = ix.visible e)
    (hdl : ∀ id, (id ∈ ix'.deleted ∨ id ∈ ix'.delDisk ∨ id ∈ ix'.delPend) → id < ix.next)
    (hds : ∀ e ∈ ix.ents, (e.id ∈ ix'.deleted ↔ e.id ∈ ix'.delDisk ∨ e.id ∈ ix'.delPend)) :
    Core ix' cs sp := by
  refine ⟨⟨?_, ?_, ?_, ?_, ?_, ?_, ?_, ?_⟩, ?_, ?_, ?_, ?_⟩
  · rw [he]; exact h.idx.nodup
  · rw [he, hn]; exact h.idx.idLt
  · rw [he]; exact h.idx.idInj
  · rw [he]; intro e1 h1 e2 h2 hq hv1 hv2
    exact h.idx.uniq e1 h1 e2 h2 hq (by rw [← hv e1 h1]; exact hv1) (by rw [← hv e2 h2]; exact hv2)
  · rw [hn]; exact hdl
  · rw [he]; exact hds
  · rw [he, hb]; exact h.idx.born
  · rw [hb, hn]; exact h.idx.bornLt
  · rw [hn]; exact h.cellLt
  · rw [he]; intro e he' hv' t f
    exact h.data e he' (by rw [← hv e he']; exact hv') t f
  · rw [he]; intro kid hk t f
    exact h.none kid (fun e he' hkid => by rw [← hv e he']; exact hk e he' hkid) t f
  · rw [h.known, he]
    congr 1
    apply List.filter_congr
    intro e he'
    exact (hv e he').symm

theorem tick_core {st : St} {sp : Sp} (h : Core st.idx st.lay.cells sp) : Core st.tick.idx st.lay.cells sp := by
  refine h.reidx (ix' := st.tick.idx) rfl rfl rfl (fun _ _ => rfl) ?_ ?_
  · intro id hid
    apply h.idx.delLt id
    simp only [St.tick, List.mem_append, List.not_mem_nil, or_false] at hid
    grind
  · intro e he
    rw [show st.tick.idx.deleted = st.idx.deleted from rfl, h.idx.delSync e he]
    simp only [St.tick, List.mem_append, List.not_mem_nil, or_false]

theorem tick_R {st : St} {sp : Sp} (U : Univ) (h : R st sp) : R (st.step U .tick) (sp.step U .tick) :=
  ⟨h.lay, h.fixed, tick_core h.core⟩

end OG.C13

namespace OG.C13
open OG.C02

/-! ### drop series -/

theorem dropSeries_R {st : St} {sp : Sp} (U : Univ) (h : R st sp) (m : String) (p : Pred) :
    R (st.step U (.dropSeries m p)) (sp.step U (.dropSeries m p)) := by
  simp only [St.step, Sp.step, St.dropSeries, guarded_dropsearch, St.search]
  refine ⟨h.lay, h.fixed, ?_⟩
  simp only []
  generalize hids : (List.map (fun x => x.id) (List.filter (fun e =>
    U.mst e.kid == m && p.eval (U.tags e.kid) && st.idx.vis true e) st.idx.ents)) = ids
  have hc := h.core
  -- membership of an entry's tsid in the dropped ids
  have hmem : ∀ e ∈ st.idx.ents, (e.id ∈ ids ↔ (named U m p e.kid && st.idx.visible e) = true) := by
    intro e he
    rw [← hids]
    simp only [List.mem_map, List.mem_filter, vis_true, named]
    constructor
    · rintro ⟨e', ⟨he', hs⟩, hq⟩
      have := hc.idx.idInj e' he' e he hq
      subst this
      exact hs
    · intro hs
      exact ⟨e, ⟨he, hs⟩, rfl⟩
  have hvis : ∀ e ∈ st.idx.ents,
      (!(st.idx.deleted ++ ids).contains e.id) = (st.idx.visible e && !named U m p e.kid) := by
    intro e he
    have := hmem e he
    by_cases h1 : e.id ∈ st.idx.deleted <;> by_cases h2 : e.id ∈ ids <;>
      cases hn : named U m p e.kid <;> simp_all [Idx.visible, List.contains_eq_mem]
  have hf : ∀ k : Key, lookup k (sp.cells.filter fun c => !named U m p c.s) =
      if (!named U m p k.1) = true then lookup k sp.cells else none :=
    fun k => lookup_filter_series (fun s => !named U m p s) k sp.cells
  refine ⟨⟨hc.idx.nodup, hc.idx.idLt, hc.idx.idInj, ?_, ?_, ?_, hc.idx.born, hc.idx.bornLt⟩, hc.cellLt, ?_, ?_, ?_⟩
  · intro e1 h1 e2 h2 hq hv1 hv2
    simp only [Idx.visible] at hv1 hv2
    rw [hvis e1 h1] at hv1
    rw [hvis e2 h2] at hv2
    simp only [Bool.and_eq_true] at hv1 hv2
    exact hc.idx.uniq e1 h1 e2 h2 hq hv1.1 hv2.1
  · intro id hid
    simp only [List.mem_append] at hid
    have hin : id ∈ ids → id < st.idx.next := by
      intro hi
      rw [← hids] at hi
      simp only [List.mem_map, List.mem_filter] at hi
      obtain ⟨e, ⟨he, _⟩, rfl⟩ := hi
      exact hc.idx.idLt e he
    rcases hid with (hid | hid) | hid | hid | hid
    · exact hc.idx.delLt id (Or.inl hid)
    · exact hin hid
    · exact hc.idx.delLt id (Or.inr (Or.inl hid))
    · exact hc.idx.delLt id (Or.inr (Or.inr hid))
    · exact hin hid
  · intro e he
    simp only [List.mem_append]
    rw [hc.idx.delSync e he]
    grind
  · intro e he hv t f
    simp only [Idx.visible] at hv
    rw [hvis e he] at hv
    simp only [Bool.and_eq_true, Bool.not_eq_true'] at hv
    rw [hc.data e he hv.1 t f]
    show _ = lookup _ (sp.cells.filter _)
    rw [hf]
    simp [hv.2]
  · intro kid hk t f
    show lookup _ (sp.cells.filter _) = none
    rw [hf]
    cases hn : named U m p kid
    · simp only [Bool.not_false, if_true]
      apply hc.none kid _ t f
      intro e he hkid
      have := hk e he hkid
      simp only [Idx.visible] at this
      rw [hvis e he, hkid, hn] at this
      simpa using this
    · simp
  · show List.filter _ sp.known = List.map _ (List.filter _ st.idx.ents)
    rw [hc.known, List.filter_map, List.filter_filter]
    congr 1
    apply List.filter_congr
    intro e he
    show _ = (!(st.idx.deleted ++ ids).contains e.id)
    rw [hvis e he]
    simp [Bool.and_comm]

end OG.C13

namespace OG.C13
open OG.C02

/-! ### the physical purge -/

/-- index entries of deleted tsids may be taken out of the index; when all of them are out, the
deleted-tsid table on disk may be emptied. -/
theorem Core.prune {ix : Idx} {cs : List Cell} {sp : Sp} (hc : Core ix cs sp) (keep : Ent → Bool)
    (parts' : List Part) (dd : List Nat)
    (hk : ∀ e ∈ ix.ents, ix.visible e = true → keep e = true)
    (hd : dd = ix.delDisk ∨ (dd = [] ∧ ∀ e ∈ ix.ents, keep e = true → ix.visible e = true)) :
    Core { ix with ents := ix.ents.filter keep, parts := parts', delDisk := dd } cs sp := by
  have hsub : ∀ e, e ∈ ix.ents.filter keep → e ∈ ix.ents := fun e he => (List.mem_filter.1 he).1
  refine ⟨⟨hc.idx.nodup.filter _, ?_, ?_, ?_, ?_, ?_, ?_, hc.idx.bornLt⟩, hc.cellLt, ?_, ?_, ?_⟩
  · intro e he; exact hc.idx.idLt e (hsub e he)
  · intro e1 h1 e2 h2 hq; exact hc.idx.idInj e1 (hsub e1 h1) e2 (hsub e2 h2) hq
  · intro e1 h1 e2 h2 hq hv1 hv2
    exact hc.idx.uniq e1 (hsub e1 h1) e2 (hsub e2 h2) hq hv1 hv2
  · intro id hid
    apply hc.idx.delLt id
    rcases hd with rfl | ⟨rfl, _⟩
    · exact hid
    · simp only [List.not_mem_nil, false_or] at hid
      grind
  · intro e he
    have hm := hsub e he
    have := hc.idx.delSync e hm
    rcases hd with rfl | ⟨rfl, hd⟩
    · exact this
    · have hv := hd e hm (List.mem_filter.1 he).2
      have hnd : e.id ∉ ix.deleted := by simpa [Idx.visible] using hv
      simp only [List.not_mem_nil, false_or]
      constructor
      · intro hd'; exact absurd hd' hnd
      · intro hp; exact absurd (this.2 (Or.inr hp)) hnd
  · intro e he; exact hc.idx.born e (hsub e he)
  · intro e he hv t f; exact hc.data e (hsub e he) hv t f
  · intro kid hk' t f
    apply hc.none kid _ t f
    intro e he hkid
    cases hv : ix.visible e
    · rfl
    · have := hk' e (List.mem_filter.2 ⟨he, hk e he hv⟩) hkid
      have hv' : ix.visible e = false := by simpa [Idx.visible] using this
      rw [hv] at hv'; cases hv'
  · rw [hc.known]
    congr 1
    show List.filter ix.visible ix.ents = List.filter ix.visible (List.filter keep ix.ents)
    rw [List.filter_filter]
    apply List.filter_congr
    intro e he
    cases hv : ix.visible e
    · simp
    · simp [hk e he hv]

theorem purge_R {st : St} {sp : Sp} (U : Univ) (h : R st sp) (hp : PartsOK st.idx) :
    R (st.step U .purge) (sp.step U .purge) := by
  simp only [St.step, Sp.step, St.purge]
  split
  · exact h
  · refine ⟨h.lay, h.fixed, ?_⟩
    apply h.core.prune
    · intro e he hv
      have hnd : e.id ∉ st.idx.deleted := by simpa [Idx.visible] using hv
      obtain ⟨p, hpm, hi⟩ := hp.inPart e he
      exact (purge_kept hp e).2 ⟨p, hpm, hi, Or.inr hnd⟩
    · cases hr : purgeRefused st.idx.parts
      · right
        refine ⟨by simp, ?_⟩
        intro e _ hk
        obtain ⟨p, hpm, _, hc⟩ := (purge_kept hp e).1 hk
        have hsel : p.selected = true := by
          rw [purgeRefused_eq] at hr
          have hnm : p.inMerge = false := by
            cases hm : p.inMerge
            · rfl
            · have : st.idx.parts.any (·.inMerge) = true := List.any_eq_true.2 ⟨p, hpm, hm⟩
              rw [hr] at this; cases this
          simp [selected_eq, hnm, hp.noMark p hpm]
        rcases hc with hc | hc
        · rw [hsel] at hc; cases hc
        · simpa [Idx.visible] using hc
      · left; simp

end OG.C13

namespace OG.C13
open OG.C02

/-! ### restart -/

/-- replaying the (ghost) WAL of write-time tsids rebuilds the memtable. -/
theorem reopen_active (l : C02.St) (h : C02.Inv l) (hf : l.fixed = true) :
    ((roundRobin l.nParts (l.wal.length + 1) l.wal).reverse.map batchCells).flatten = l.active := by
  rw [roundRobin_aligned l.nParts h.np _ l.wal (h.aligned hf).1 (by omega)]
  have := h.wal
  simp only [WalOK] at this
  rw [this]
  simp [List.map_reverse, Function.comp_def]

theorem reopen_cells_mem (l : C02.St) (h : C02.Inv l) (hf : l.fixed = true) (c : Cell)
    (hc : c ∈ l.reopen.cells) : c ∈ l.cells := by
  unfold C02.St.reopen at hc
  simp only [reopen_active l h hf] at hc
  have := flush_cells_mem _ c hc
  simpa [C02.St.cells] using this

theorem reopen_fixed (l : C02.St) : l.reopen.fixed = l.fixed := by
  unfold C02.St.reopen
  simp only [fixed_flush]

theorem recover_R {st : St} {sp : Sp} (h : R st sp) (hp : st.idx.delPend = [])
    (hs : replayStable st = true) : R st.recover sp := by
  simp only [replayStable, Bool.and_eq_true, decide_eq_true_eq] at hs
  obtain ⟨hb, hi⟩ := hs
  have hrec : st.recover = ⟨st.lay.reopen, [], st.idx.restart.flushRaw⟩ := by
    unfold St.recover C02.St.reopen
    simp only []
    generalize hr : resolveBatches st.idx.restart (replayOrder st.lay.nParts st.kwal) = r at hb hi
    obtain ⟨r1, r2⟩ := r
    simp only [] at hb hi
    subst hb hi
    rfl
  rw [hrec]
  obtain ⟨heq, hinv⟩ := reopen_equiv st.lay h.lay (Or.inl h.fixed)
  refine ⟨hinv, by rw [reopen_fixed]; exact h.fixed, ?_⟩
  have hc := h.core
  have hcore0 : Core st.idx.restart st.lay.cells sp := by
    refine hc.reidx (ix' := st.idx.restart) rfl rfl rfl ?_ ?_ ?_
    · intro e he
      have := hc.idx.delSync e he
      rw [hp] at this
      simp only [List.not_mem_nil, or_false] at this
      simp only [Idx.visible, Idx.restart, List.contains_eq_mem]
      by_cases h1 : e.id ∈ st.idx.deleted
      · simp [h1, this.1 h1]
      · have h2 : e.id ∉ st.idx.delDisk := fun hx => h1 (this.2 hx)
        simp [h1, h2]
    · intro id hid
      apply hc.idx.delLt id
      simp only [Idx.restart, List.not_mem_nil, or_false] at hid
      grind
    · intro e _
      simp [Idx.restart]
  exact hcore0.flushRaw.congr heq (reopen_cells_mem st.lay h.lay h.fixed)

theorem reopen_R {st : St} {sp : Sp} (U : Univ) (h : R st sp) (hs : safeOp st .reopen = true) :
    R (st.step U .reopen) (sp.step U .reopen) := by
  simp only [St.step, Sp.step, St.reopen]
  exact recover_R (tick_R U h) rfl hs

theorem crash_R {st : St} {sp : Sp} (U : Univ) (h : R st sp) (hs : safeOp st .crash = true) :
    R (st.step U .crash) (sp.step U .crash) := by
  simp only [St.step, Sp.step, St.crash]
  simp only [safeOp, Bool.and_eq_true, List.isEmpty_iff] at hs
  exact recover_R h hs.2 hs.1

end OG.C13

namespace OG.C13
open OG.C02

/-! ### drop measurement -/

theorem flatten_map_filter (p : Cell → Bool) (L : List (List Cell)) :
    (L.map (List.filter p)).flatten = L.flatten.filter p := by
  induction L with
  | nil => rfl
  | cons x xs ih => simp only [List.map_cons, List.flatten_cons, List.filter_append, ih]

/-- the file part of DROP MEASUREMENT: files and flush times of the series that are not kept go. -/
def dropFiles (keepS : Nat → Bool) (l : C02.St) : C02.St :=
  { l with
    ooo := l.ooo.map (List.filter fun c => keepS c.s)
    ordered := l.ordered.map (List.filter fun c => keepS c.s)
    lastFlush := l.lastFlush.filter fun x => keepS x.1 }

theorem dropMst_eq (U : Univ) (st : St) (m : String) :
    st.dropMst U m =
      { st with
        lay := dropFiles (fun s => !st.idx.ofMst U m s)
          (C02.St.flush { st.lay with active := st.lay.active.filter fun c => (fun s => !st.idx.ofMst U m s) c.s })
        kwal := [] } := rfl

theorem dropMst_R {st : St} {sp : Sp} (U : Univ) (h : R st sp) (m : String) :
    R (st.step U (.dropMst m)) (sp.step U (.dropMst m)) := by
  simp only [St.step, Sp.step]
  rw [dropMst_eq]
  generalize hks : (fun s => !st.idx.ofMst U m s) = keepS
  generalize hl1 : ({ st.lay with active := st.lay.active.filter fun c => keepS c.s } : C02.St) = lay1
  have hfiles1 : FilesBelow lay1 := by rw [← hl1]; exact h.lay.files
  have hnp1 : 0 < lay1.nParts := by rw [← hl1]; exact h.lay.np
  have hfx1 : lay1.fixed = true := by rw [← hl1]; exact h.fixed
  have heq2 := flush_equiv lay1 hfiles1
  have hinv2 := flush_inv lay1 hfiles1 hnp1
  obtain ⟨hw2, hn2, hf2, hc2, ha2⟩ := flush_wal lay1
  generalize hl2 : lay1.flush = lay2 at heq2 hinv2 hw2 hn2 hf2 hc2 ha2
  -- the cells of the result
  have hcells : (dropFiles keepS lay2).cells = lay2.cells.filter fun c => keepS c.s := by
    simp only [dropFiles, C02.St.cells, ha2, List.nil_append, flatten_map_filter, List.filter_append]
  have hlook : ∀ k : Key, lookup k (lay2.cells.filter fun c => keepS c.s) =
      if keepS k.1 = true then lookup k st.lay.cells else none := by
    intro k
    rw [lookup_filter_series]
    split
    · rename_i hk
      rw [heq2 k, ← hl1]
      simp only [C02.St.cells, List.append_assoc, lookup_append]
      rw [lookup_filter_series, if_pos hk]
    · rfl
  have hmem : ∀ c ∈ lay2.cells.filter (fun c => keepS c.s), c ∈ st.lay.cells := by
    intro c hc
    have h1 := (List.mem_filter.1 hc).1
    rw [← hl2] at h1
    have h2 := flush_cells_mem lay1 c h1
    rw [← hl1] at h2
    simp only [C02.St.cells, List.mem_append, List.mem_filter] at h2 ⊢
    rcases h2 with (h2 | h2) | h2
    · exact Or.inl (Or.inl h2.1)
    · exact Or.inl (Or.inr h2)
    · exact Or.inr h2
  refine ⟨?_, by simpa [dropFiles] using (hf2.trans hfx1), ?_⟩
  · -- layout invariant
    refine ⟨?_, ?_, hinv2.np, ?_, ?_⟩
    · intro c hc
      simp only [dropFiles, flatten_map_filter, List.mem_append, List.mem_filter] at hc
      have hk : keepS c.s = true := by rcases hc with hc | hc <;> exact hc.2
      have hin : c ∈ lay2.ooo.flatten ++ lay2.ordered.flatten := by
        simp only [List.mem_append]
        rcases hc with hc | hc
        · exact Or.inl hc.1
        · exact Or.inr hc.1
      obtain ⟨mx, hmx, hle⟩ := hinv2.files c hin
      refine ⟨mx, ?_, hle⟩
      simp only [dropFiles]
      rw [lastFlushOf_filter keepS _ _ hk]; exact hmx
    · simp only [WalOK, dropFiles, ha2, hw2]; rfl
    · intro r hr; simp only [dropFiles, hw2] at hr; cases hr
    · intro hf; exact hinv2.aligned hf
  · -- index, data
    show Core st.idx (dropFiles keepS lay2).cells _
    rw [hcells]
    have hc := h.core
    have hof : ∀ e ∈ st.idx.ents, keepS e.id = !(U.mst e.kid == m) := by
      intro e he
      rw [← hks]
      simp only [Idx.ofMst, hc.idx.born e he]
    have hsf : ∀ k : Key, lookup k (sp.cells.filter fun c => !(U.mst c.s == m)) =
        if (!(U.mst k.1 == m)) = true then lookup k sp.cells else none :=
      fun k => lookup_filter_series (fun s => !(U.mst s == m)) k sp.cells
    refine ⟨hc.idx, fun c hcm => hc.cellLt c (hmem c hcm), ?_, ?_, hc.known⟩
    · intro e he hv t f
      rw [hlook]
      show _ = lookup _ (sp.cells.filter _)
      rw [hsf]
      simp only [hof e he]
      rw [hc.data e he hv t f]
    · intro kid hk t f
      show lookup _ (sp.cells.filter _) = none
      rw [hsf, hc.none kid hk t f]
      simp

end OG.C13

namespace OG.C13
open OG.C02

/-! ### merges of index parts -/

theorem parts_R {st : St} {sp : Sp} (h : R st sp) (parts' : List Part) :
    R { st with idx := { st.idx with parts := parts' } } sp :=
  ⟨h.lay, h.fixed, h.core.reparts st.idx.raw parts'⟩

theorem mbegin_R {st : St} {sp : Sp} (h : R st sp) (sel : List Nat) : R (st.mbegin sel) sp := parts_R h _
theorem mend_R {st : St} {sp : Sp} (h : R st sp) : R st.mend sp := parts_R h _
theorem imerge_R {st : St} {sp : Sp} (h : R st sp) (sel : List Nat) : R (st.imerge sel) sp :=
  mend_R (mbegin_R h sel)
theorem regroup_R {st : St} {sp : Sp} (h : R st sp) (gs : List (List Nat)) : R (st.regroup gs) sp := by
  unfold St.regroup
  simp only []
  split
  · exact parts_R h _
  · exact h

end OG.C13
