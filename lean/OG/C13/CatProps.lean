/-
C13 — the catalogue side: a marked measurement / policy / database no longer resolves, a
measurement created again gets the next version (a new physical name), a policy created again is
empty.
-/
import OG.C13.Catalog

namespace OG.C13

theorem lookup_setAssoc {β : Type} (l : List (String × β)) (k : String) (v : β) :
    (setAssoc l k v).lookup k = some v := by
  simp [setAssoc, List.lookup]

theorem lookup_setAssoc_ne {β : Type} (l : List (String × β)) (k k' : String) (v : β) (h : k' ≠ k) :
    (setAssoc l k v).lookup k' = l.lookup k' := by
  have hb : (k' == k) = false := by simpa using h
  simp only [setAssoc, List.lookup, hb]
  induction l with
  | nil => rfl
  | cons x xs ih =>
    obtain ⟨a, b⟩ := x
    by_cases ha : a = k
    · subst ha
      simp only [List.filter, bne_self_eq_false, List.lookup, hb]
      exact ih
    · have hne : (a != k) = true := by simpa using ha
      simp only [List.filter, hne, List.lookup]
      split <;> simp_all

/-- the version of a measurement created again differs from the one it had (16-bit counter). -/
theorem nextVer_fresh (v : Nat) (h : v < 65536) : nextVer (some v) ≠ v := by
  simp only [nextVer]; omega

theorem nextVer_new : nextVer none = 0 := rfl

theorem getDb_ok {c : Cat} {d : Db} : c.getDb = .ok d ↔ c.db = some d ∧ d.marked = false := by
  unfold Cat.getDb
  cases hdb : c.db with
  | none => simp
  | some d0 =>
    by_cases hm : d0.marked = true
    · simp only [hm, if_true, Option.some.injEq]
      constructor
      · intro h; cases h
      · rintro ⟨rfl, h2⟩; rw [hm] at h2; cases h2
    · simp only [hm, Bool.false_eq_true, if_false, Except.ok.injEq, Option.some.injEq]
      constructor
      · rintro rfl; exact ⟨rfl, by simpa using hm⟩
      · rintro ⟨rfl, _⟩; rfl

theorem getRp_ok {c : Cat} {d : Db} {r : Rp} :
    c.getRp = .ok (d, r) ↔ c.db = some d ∧ d.marked = false ∧ d.rp = some r ∧ r.marked = false := by
  unfold Cat.getRp
  cases hg : c.getDb with
  | error e =>
    simp only [bind, Except.bind]
    constructor
    · intro h; cases h
    · rintro ⟨h1, h2, _⟩
      rw [getDb_ok.2 ⟨h1, h2⟩] at hg; cases hg
  | ok d0 =>
    obtain ⟨h1, h2⟩ := getDb_ok.1 hg
    simp only [bind, Except.bind]
    cases hrp : d0.rp with
    | none =>
      simp only []
      constructor
      · intro h; cases h
      · rintro ⟨h3, _, h5, _⟩
        rw [h1] at h3; cases h3; rw [hrp] at h5; cases h5
    | some r0 =>
      by_cases hm : r0.marked = true
      · simp only [hm, if_true]
        constructor
        · intro h; cases h
        · rintro ⟨h3, _, h5, h6⟩
          rw [h1] at h3; cases h3; rw [hrp] at h5; cases h5; rw [hm] at h6; cases h6
      · simp only [hm, Bool.false_eq_true, if_false, Except.ok.injEq, Prod.mk.injEq]
        constructor
        · rintro ⟨rfl, rfl⟩; exact ⟨h1, h2, hrp, by simpa using hm⟩
        · rintro ⟨h3, _, h5, _⟩
          rw [h1] at h3; cases h3; rw [hrp] at h5; cases h5; exact ⟨rfl, rfl⟩

/-- resolution in terms of the policy's tables. -/
theorem resolve_of_getRp {c : Cat} {d : Db} {r : Rp} (h : c.getRp = .ok (d, r)) (n : String) :
    c.resolve n = match r.current n with
      | some (p, false) => .ok p
      | _ => .error .mstNotFound := by
  simp only [Cat.resolve, h, bind, Except.bind]
  cases r.current n with
  | none => rfl
  | some pm => obtain ⟨p, b⟩ := pm; cases b <;> rfl

theorem getRp_setRp {d : Db} {r : Rp} (hd : d.marked = false) (hr : r.marked = false) :
    (Cat.setRp d r).getRp = .ok ({ d with rp := some r }, r) :=
  getRp_ok.2 ⟨rfl, hd, rfl, hr⟩

/-- **mark = acknowledged phase 1 of DROP MEASUREMENT**: the name no longer resolves. -/
theorem mMark_unresolvable (c c' : Cat) (n : String) (h : c.mMark n = .ok c') :
    c'.resolve n = .error .mstNotFound := by
  unfold Cat.mMark at h
  cases hg : c.getRp with
  | error e => simp [hg, bind, Except.bind] at h
  | ok dr =>
    obtain ⟨d, r⟩ := dr
    obtain ⟨_, hd, _, hr⟩ := getRp_ok.1 hg
    simp only [hg, bind, Except.bind] at h
    cases hc : r.current n with
    | none => simp [hc] at h
    | some pm =>
      obtain ⟨p, mk⟩ := pm
      cases mk with
      | true => simp [hc] at h
      | false =>
        simp only [hc, Except.ok.injEq] at h
        subst h
        rw [resolve_of_getRp (getRp_setRp hd (by simpa using hr))]
        unfold Rp.current at hc ⊢
        cases hv : r.vers.lookup n with
        | none => simp [hv] at hc
        | some v =>
          simp only [hv] at hc ⊢
          cases hm : r.msts.lookup (nameWithVer n v) with
          | none => simp [hm] at hc
          | some x =>
            simp only [hm, Option.some.injEq, Prod.mk.injEq] at hc
            rw [← hc.1, lookup_setAssoc]

/-- a marked policy resolves no measurement. -/
theorem rpMark_unresolvable (c c' : Cat) (h : c.rpMark = .ok c') (n : String) :
    c'.resolve n = .error .rpDeleting := by
  unfold Cat.rpMark at h
  cases hg : c.getRp with
  | error e => simp [hg, bind, Except.bind] at h
  | ok dr =>
    obtain ⟨d, r⟩ := dr
    obtain ⟨_, hd, _, _⟩ := getRp_ok.1 hg
    simp only [hg, bind, Except.bind, Except.ok.injEq] at h
    subst h
    simp [Cat.resolve, Cat.getRp, Cat.getDb, Cat.setRp, hd, bind, Except.bind]

/-- a marked database resolves no measurement. -/
theorem dbMark_unresolvable (c c' : Cat) (h : c.dbMark = .ok c') (n : String) :
    c'.resolve n = .error .dbDeleting := by
  unfold Cat.dbMark at h
  cases hdb : c.db with
  | none => simp [hdb] at h
  | some d0 =>
    simp only [hdb] at h
    by_cases hdm : d0.marked = true
    · simp [hdm] at h
    · simp only [hdm, Bool.false_eq_true, if_false, Except.ok.injEq] at h
      subst h
      simp [Cat.resolve, Cat.getRp, Cat.getDb, bind, Except.bind]

/-- a policy dropped and created again holds no measurement: every name is unknown until it is
created. -/
theorem rp_recreated_empty (c c1 c2 : Cat) (h1 : c.rpDrop = .ok c1) (h2 : c1.rpCreate = .ok c2)
    (n : String) : c2.resolve n = .error .mstNotFound := by
  unfold Cat.rpDrop at h1
  cases hg : c.getDb with
  | error e => simp [hg, bind, Except.bind] at h1
  | ok d =>
    obtain ⟨_, hd⟩ := getDb_ok.1 hg
    simp only [hg, bind, Except.bind, Except.ok.injEq] at h1
    subst h1
    have hg1 : (⟨some { d with rp := none }⟩ : Cat).getDb = .ok { d with rp := none } := getDb_ok.2 ⟨rfl, hd⟩
    simp only [Cat.rpCreate, hg1, bind, Except.bind, Except.ok.injEq] at h2
    subst h2
    have : (⟨some { d with rp := some ⟨false, [], [], []⟩ }⟩ : Cat).getRp = .ok ({ d with rp := some ⟨false, [], [], []⟩ }, ⟨false, [], [], []⟩) :=
      getRp_ok.2 ⟨rfl, hd, rfl, rfl⟩
    rw [resolve_of_getRp this]
    simp [Rp.current, List.lookup]

/-- a measurement created again after mark + drop gets the next version and resolves to it. -/
theorem mCreate_next_version (c : Cat) (d : Db) (r : Rp) (n : String) (hg : c.getRp = .ok (d, r))
    (hcur : ∀ p, r.current n ≠ some (p, false)) :
    ∃ c', c.mCreate n = .ok (c', nameWithVer n (nextVer (r.vers.lookup n))) ∧
      c'.resolve n = .ok (nameWithVer n (nextVer (r.vers.lookup n))) := by
  obtain ⟨_, hd, _, hr⟩ := getRp_ok.1 hg
  unfold Cat.mCreate
  simp only [hg, bind, Except.bind]
  cases hc : r.current n with
  | none =>
    refine ⟨_, rfl, ?_⟩
    rw [resolve_of_getRp (getRp_setRp hd (by simpa using hr))]
    simp [Rp.current, lookup_setAssoc]
  | some pm =>
    obtain ⟨p, mk⟩ := pm
    cases mk with
    | false => exact absurd hc (hcur p)
    | true =>
      refine ⟨_, rfl, ?_⟩
      rw [resolve_of_getRp (getRp_setRp hd (by simpa using hr))]
      simp [Rp.current, lookup_setAssoc]

/-- **SHOW FIELD KEYS after DROP MEASUREMENT**: a marked measurement has no field keys to show
(the name does not resolve) ... -/
theorem mMark_no_fieldKeys (c c' : Cat) (n : String) (h : c.mMark n = .ok c') :
    c'.fieldKeys n = .error .mstNotFound := by
  have hr := mMark_unresolvable c c' n h
  unfold Cat.resolve at hr
  unfold Cat.fieldKeys
  cases hg : c'.getRp with
  | error e => simp [hg, bind, Except.bind] at hr ⊢; exact hr
  | ok dr =>
    simp only [hg, bind, Except.bind] at hr ⊢
    cases hc : dr.2.current n with
    | none => rfl
    | some pm =>
      obtain ⟨p, mk⟩ := pm
      cases mk with
      | true => rfl
      | false => simp [hc] at hr

/-- ... and a measurement created again starts with no field key, whatever the dropped one had. -/
theorem mCreate_no_fieldKeys (c : Cat) (d : Db) (r : Rp) (n : String) (hg : c.getRp = .ok (d, r))
    (hcur : ∀ p, r.current n ≠ some (p, false)) :
    ∃ c' p, c.mCreate n = .ok (c', p) ∧ c'.fieldKeys n = .ok [] := by
  obtain ⟨_, hd, _, hr⟩ := getRp_ok.1 hg
  unfold Cat.mCreate
  simp only [hg, bind, Except.bind]
  have key : ∀ v : Nat, (Cat.setRp d (Rp.mk r.marked (setAssoc r.vers n v)
      (setAssoc r.msts (nameWithVer n v) false) (setAssoc r.schema (nameWithVer n v) []))).fieldKeys n = .ok [] := by
    intro v
    unfold Cat.fieldKeys
    rw [getRp_setRp hd (by simpa using hr)]
    simp [bind, Except.bind, Rp.current, lookup_setAssoc]
  cases hc : r.current n with
  | none => exact ⟨_, _, rfl, key _⟩
  | some pm =>
    obtain ⟨p, mk⟩ := pm
    cases mk with
    | false => exact absurd hc (hcur p)
    | true => exact ⟨_, _, rfl, key _⟩

/-- the physical name of version `v` of `n`, run against the code's formatter in the harness. -/
example : nameWithVer "m" 0 = "m_0000" ∧ nameWithVer "m" 1 = "m_0001" ∧ nameWithVer "cpu" 43981 = "cpu_abcd" := by
  decide

/-- drop + create again: mark, remove, create gives the next version. -/
def demoRecreate : Option (String × String × String) :=
  match Cat.init.dbCreate with
  | .ok c => match c.mCreate "m" with
    | .ok (c, p0) => match c.mMark "m" with
      | .ok c => match c.mDrop p0 with
        | .ok c => match c.mCreate "m" with
          | .ok (c, p1) => match c.resolve "m" with
            | .ok r => some (p0, p1, r)
            | _ => none
          | _ => none
        | _ => none
      | _ => none
    | _ => none
  | _ => none

example : demoRecreate = some ("m_0000", "m_0001", "m_0001") := by decide

/-- field keys over drop + create again: the old keys are gone. -/
def demoFields : Option (List String × List String × List String) :=
  match Cat.init.dbCreate with
  | .ok c => match c.mCreate "m" with
    | .ok (c, p0) => match c.addField "m" "fi" with
      | .ok c => match c.addField "m" "fb" with
        | .ok c => match c.fieldKeys "m", c.mMark "m" with
          | .ok k0, .ok c => match c.mDrop p0 with
            | .ok c => match c.mCreate "m" with
              | .ok (c, _) => match c.fieldKeys "m", c.addField "m" "ff" with
                | .ok k1, .ok c => match c.fieldKeys "m" with
                  | .ok k2 => some (k0, k1, k2)
                  | _ => none
                | _, _ => none
              | _ => none
            | _ => none
          | _, _ => none
        | _ => none
      | _ => none
    | _ => none
  | _ => none

example : demoFields = some (["fb", "fi"], [], ["ff"]) := by decide

end OG.C13
