/-
C13 — SHOW TAG VALUES on the store walks the tag→tsids *rows* of the index
(`indexSearch.searchTagValuesBySingleKey`, engine/index/tsi/search.go). The tsids of one tag
value are split over rows: a merge packs them into rows of at most
`mergeindex.MaxTSIDsPerRow` tsids, unmerged rows and rows of different parts lie next to them.
The scan looks at one row after the other in item order; a row with a wanted tsid (not deleted,
and eligible for the WHERE condition) records its tag value; after a *full* row the scan jumps
to the next tag value instead of reading the remaining rows of the value it has just recorded.
Which rows there are is read off the real index on every call (`rowsync`), the scan is this
file; the constant and the shape of the shortcut are regenerated facts. Core-only, executable.
-/
import OG.C13.Model

namespace OG.C13
open OG.C02

/-- one tag→tsids row of a tag key: the tag value and the tsids the row lists. -/
structure TRow where
  value : String
  ids : List Nat
deriving Repr, DecidableEq

/-- the scan of `searchTagValuesBySingleKey`; `fuel` bounds the number of rows looked at. -/
def scanRows (want : Nat → Bool) : Nat → List TRow → List String
  | 0, _ => []
  | _, [] => []
  | fuel + 1, r :: rs =>
    -- `isExpect, tsid := mp.IsExpectedTag(deletedTSIDs, eligibleTSIDs)`
    let expect := r.ids.any want
    -- `if !isExpect { continue }` in front of the record: the rest of the body is not reached
    if !expect && OG.Gen.C13.tagValuesSeekGuardedByRecord then scanRows want fuel rs
    else
      let recorded := if expect then [r.value] else []
      -- `if mp.TSIDsLen() < mergeindex.MaxTSIDsPerRow { continue }`
      if r.ids.length < OG.Gen.C13.maxTSIDsPerRow || !OG.Gen.C13.tagValuesSeeksAfterFullRow then
        recorded ++ scanRows want fuel rs
      else
        -- seek to the first item after every row of this tag value
        recorded ++ scanRows want fuel (rs.dropWhile (·.value == r.value))

def tagValuesOfRows (want : Nat → Bool) (rows : List TRow) : List String :=
  sortDistinct (scanRows want rows.length rows)

/-- the tsids a tag-values scan wants: those a search of the condition returns (deleted tsids
subtracted on the path `tagvalues`; no condition = every visible series of the measurement). -/
def St.wanted (U : Univ) (st : St) (m : String) (p : Pred) : Nat → Bool :=
  let ids := (st.search U (guarded "tagvalues") m p).map (·.id)
  fun i => ids.contains i

/-- SHOW TAG VALUES WITH KEY IN keys over the rows the index holds for every key. -/
def St.tagValsRows (U : Univ) (st : St) (m : String) (p : Pred) (rows : List (String × List TRow)) :
    List (String × List String) :=
  rows.map fun (k, rs) => (k, tagValuesOfRows (st.wanted U m p) rs)

/-- do the rows of a key list exactly the (value, tsid) pairs of the index entries of the
measurement that carry the key?  (what `rowsync` checks before the rows are used) -/
def St.rowsConsistent (U : Univ) (st : St) (m k : String) (rows : List TRow) : Bool :=
  let have_ := rows.flatMap fun r => r.ids.map fun i => (r.value, i)
  let want := (st.idx.ents.filter fun e => U.mst e.kid == m && ((U.tags e.kid).lookup k).isSome).map
    fun e => (tagVal (U.tags e.kid) k, e.id)
  have_.all want.contains && want.all have_.contains

end OG.C13
