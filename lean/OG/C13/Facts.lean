/-
C13 — the regenerated facts the model was written against, compared with the recorded
expectation. A source edit that changes one of them breaks the corresponding `rfl`.
-/
import OG.Generated.C13

namespace OG.C13.Facts
open OG.Gen.C13

theorem generation_ok : generationFailed = false := rfl

theorem paths_expected : paths = ([
  ("select", "MergeSetIndex.SearchSeriesIterator", "setDeleted:idx.GetDeletedTSIDs()"),
  ("select", "MergeSetIndex.getSeriesIdBySeriesKey", "guard:GetDeletedTSIDs"),
  ("select", "indexSearch.scanTSIDsForTagFilter", "guard:is.deleted"),
  ("select", "indexSearch.updateTSIDsByOrSuffixes", "guard:is.deleted"),
  ("select", "indexSearch.updateTSIDsForPrefix", "guard:is.deleted"),
  ("showseries", "indexSearch.searchTSIDs", "guard:GetDeletedTSIDs"),
  ("dropsearch", "indexSearch.searchTSIDs", "guard:GetDeletedTSIDs"),
  ("cardall", "indexSearch.getSeriesCount", "guard:GetDeletedTSIDs"),
  ("cardcond", "indexSearch.searchTSIDs", "guard:GetDeletedTSIDs"),
  ("tagvalues", "indexSearch.searchTagValuesBySingleKey", "guard:GetDeletedTSIDs"),
  ("keylookup", "MergeSetIndex.getSeriesIdBySeriesKey", "guard:GetDeletedTSIDs")
] : List (String × String × String)) := by rfl

theorem deletedSetUses_expected : deletedSetUses = ([
  ("MergeSetIndex.HasDeletedTSID", "GetDeletedTSIDs"),
  ("MergeSetIndex.SearchSeriesIterator", "setDeleted(idx.GetDeletedTSIDs())"),
  ("MergeSetIndex.getSeriesIdBySeriesKey", "GetDeletedTSIDs"),
  ("indexSearch.getSeriesCount", "GetDeletedTSIDs"),
  ("indexSearch.getTSIDBySeriesKey", "GetDeletedTSIDs"),
  ("indexSearch.scanTSIDsForTagFilter", "is.deleted"),
  ("indexSearch.searchTSIDs", "GetDeletedTSIDs"),
  ("indexSearch.searchTagValuesBySingleKey", "GetDeletedTSIDs"),
  ("indexSearch.updateTSIDsByOrSuffixes", "is.deleted"),
  ("indexSearch.updateTSIDsForPrefix", "is.deleted")
] : List (String × String)) := by rfl

theorem steps_shardDropMeasurement_expected : steps_shardDropMeasurement = (["s.DisableDownSample()", "defer s.EnableDownSample()", "s.setMstDeleting(name)", "defer s.clearMstDeleting(name)", "s.mu.RLock()", "defer s.mu.RUnlock()", "if s.replayingWal { return fmt.Errorf(\"async replay wal not finish\") }", "s.ForceFlush()", "return s.immTables.DropMeasurement(ctx, name)"] : List String) := by rfl

theorem steps_mmsDropMeasurement_expected : steps_mmsDropMeasurement = (["var orderWg, inorderWg, csWg *sync.WaitGroup", "mstPath := filepath.Join(m.path, name)", "log.Info(\"drop measurement start...\", zap.String(\"name\", name), zap.String(\"path\", mstPath))", "m.mu.RLock()", "order, ok := m.Order[name]", "orderWg = stopFiles(ok, order)", "unOrder, ok := m.OutOfOrder[name]", "inorderWg = stopFiles(ok, unOrder)", "csFiles, ok := m.CSFiles[name]", "csWg = stopFiles(ok, csFiles)", "m.mu.RUnlock()", "if orderWg != nil { orderWg.Wait() }", "if inorderWg != nil { inorderWg.Wait() }", "if csWg != nil { csWg.Wait() }", "err := m.deleteFilesForDropMeasurement(order, unOrder, csFiles, name, mstPath)", "if err != nil { return err }", "m.mu.Lock()", "delete(m.Order, name)", "delete(m.OutOfOrder, name)", "delete(m.CSFiles, name)", "m.sequencer.DelMmsIdTime(name)", "m.mu.Unlock()", "mmsDir := filepath.Join(m.path, name)", "lockFile := fileops.FileLockOption(*m.lock)", "_ = fileops.RemoveAll(mmsDir, lockFile)", "_ = fileops.RemoveAll(fileops.GetRemoteDataPath(m.GetObsOption(), mmsDir), lockFile)", "log.Info(\"drop measurement done\", zap.String(\"name\", name), zap.String(\"path\", mstPath))", "return nil"] : List String) := by rfl

theorem steps_writeDeleteTsids_expected : steps_writeDeleteTsids = (["items := make([][]byte, 0, len(tsids))", "for i := range tsids { t := make([]byte, 0) t = encoding.MarshalUint64(t, tsids[i]) items = append(items, t) }", "idx.deletedTSIDsLock.Lock()", "defer idx.deletedTSIDsLock.Unlock()", "if curDeleted, ok := idx.deletedTSIDs.Load().(*uint64set.Set); ok { newDeleted := curDeleted.Clone() newDeleted.AddMulti(tsids) idx.deletedTSIDs.Store(newDeleted) } else { return errors.New(\"curDeleted must be *uint64set.Set\") }", "invalidateTagCache()", "return idx.tb.AddItems(items)"] : List String) := by rfl

theorem steps_loadDeletedTSIDs_expected : steps_loadDeletedTSIDs = (["if err := idx.Open(); err != nil { return err }", "isDelete := idx.getIndexSearch()", "defer idx.putIndexSearch(isDelete)", "if tsid, err := isDelete.getAllTSID(); err != nil { return err } else { idx.deletedTSIDs.Store(tsid) }", "return nil"] : List String) := by rfl

theorem steps_seriesCardinality_expected : steps_seriesCardinality = (["if !idx.isOpen { if err := idx.Open(); err != nil { return 0, err } }", "if condition == nil { return idx.seriesCardinality(name) }", "tsids, err := idx.searchTSIDs(name, condition, tr)", "if err != nil { return 0, err }", "return uint64(len(tsids)), nil"] : List String) := by rfl

theorem steps_purge_expected : steps_purge = (["return DropSeriesOfPolicy([]*IndexBuilder{iBuilder})"] : List String) := by rfl

theorem steps_setDelMergeSet_expected : steps_setDelMergeSet = (["err := errors.New(\"delMergeSet must be *tsi.MergeSetIndex\")", "if delMergeSet, ok := dbPT.GetDelIndexBuilderByRp(rp).GetPrimaryIndex().(*tsi.MergeSetIndex); ok { if err = delMergeSet.LoadDeletedTSIDs(); err != nil { return err } for _, v := range dbPT.indexBuilder { if curMerge, ok := v.GetPrimaryIndex().(*tsi.MergeSetIndex); ok { if curMerge.RpName() == rp { curMerge.SetDeleteMergeSet(delMergeSet) } } else { return errors.New(\"curMerge must be *tsi.MergeSetIndex\") } } }", "return err"] : List String) := by rfl

theorem src_commitSnapshotGuard_expected : src_commitSnapshotGuard = ("if s.checkMstDeleting(msName) { return }" : String) := by rfl

theorem calls_shardClose_expected : calls_shardClose = (["atomic.AddInt32", "errno.NewError", "s.DisableDownSample", "s.DisableHierarchicalStorage", "s.DisableCompAndMerge", "s.mu.Lock", "s.mu.Unlock", "compWorker.UnregisterShard", "s.skIdx.Close", "s.closed.Close", "log.Info", "zap.Uint64", "s.cancelWalReplay", "s.wal.Close", "log.Error", "zap.Uint64", "zap.Error", "s.snapshotLock.Lock", "int64", "s.activeTbl.GetMemSize", "s.snapshotLock.Unlock", "nodeMutableLimit.freeResource", "s.waitSnapshot", "log.Info", "zap.Uint64", "s.immTables.Close", "log.Error", "zap.Uint64", "zap.Error", "log.Info", "zap.Uint64", "s.wg.Wait", "shelf.NewRunner().UnregisterShard", "shelf.NewRunner"] : List String) := by rfl

theorem calls_dropSeriesProcess_expected : calls_dropSeriesProcess = (["parseTagKeyCondition", "tr.Min.IsZero", "time.Unix(0, influxql.MinTime).UTC", "time.Unix", "tr.Max.IsZero", "time.Unix(0, influxql.MaxTime).UTC", "time.Unix", "tr.MinTimeNano", "tr.MaxTimeNano", "h.store.GetEngine().GetDatabase", "h.store.GetEngine", "h.req.GetDb", "[]byte", "h.store.GetMetaClient", "dbptInfo.Shards", "h.store.GetEngine().OpenShardLazy", "h.store.GetEngine", "shard.GetIndexBuilder().GetPrimaryIndex", "shard.GetIndexBuilder", "index.SearchSeriesByTableAndCond", "storeTsids"] : List String) := by rfl

theorem calls_storeTsids_expected : calls_storeTsids = (["len", "shard.GetRPName", "len", "dbptInfo.GetDelIndexBuilderByRp", "shard.GetEngineType", "dbptInfo.NewMergeSetIndex", "engine.SetDelMergeSetForEachMergeSet", "dbptInfo.GetDelIndexBuilderByRp(rp).GetPrimaryIndex", "dbptInfo.GetDelIndexBuilderByRp", "errors.New", "idx.Open", "idx.WriteDeleteTsids"] : List String) := by rfl

theorem returns_dropSeriesProcess_expected : returns_dropSeriesProcess = (["nil, err", "h.rsp, err", "h.rsp, err", "h.rsp, err", "h.rsp, err"] : List String) := by rfl

theorem steps_loadShards_expected : steps_loadShards = (["if loadStat != immutable.PRELOAD { err := dbPT.OpenIndexes(opId, rp, engineType, client) if err != nil { return err } }", "return dbPT.OpenShards(opId, rp, durationInfos, loadStat, client)"] : List String) := by rfl

theorem src_nextVersion_expected : src_nextVersion = ("(version.Version + 1) & 0xffff" : String) := by rfl

theorem src_recreateCond_expected : src_recreateCond = ("msti == nil || msti.MarkDeleted" : String) := by rfl

theorem src_appendVersion_expected : src_appendVersion = ("{ for i := 0; i < 4; i++ { v := uint8((version >> (12 - i*4)) & 0xf) if v > 9 { v += 'a' - 10 } else { v += '0' } buf = append(buf, v) } return buf }" : String) := by rfl

theorem returns_getOriginMstName_expected : returns_getOriginMstName = (["nameWithVer", "nameWithVer[:len(nameWithVer)-5]"] : List String) := by rfl

/-! ### the part protocol of the purge (lib/util/lifted/vm/mergeset/table.go)

The Boolean facts are used by the model (`purgeParts`, `purgeRefused`, `beginMergeAt`); the
statement lists and sources are what the transcription was made from. -/

theorem steps_removeItemsByDelTsids_expected : steps_removeItemsByDelTsids = (["tb.partsLock.Lock()", "temp := tb.parts", "pws := make([]*partWrapper, 0)", "inMerge := 0", "for i := 0; i < len(temp); i++ { if temp[i].isInMerge { inMerge++ continue } if temp[i].isDeleteTsids { continue } temp[i].isDeleteTsids = true pws = append(pws, temp[i]) }", "tb.partsLock.Unlock()", "for _, pw := range pws { err := tb.filterByDelTsidAndGenNewPart(pw, delTsids) if err != nil { return err } }", "if inMerge > 0 { return fmt.Errorf(\"%d parts of %q are being merged: the items of deleted tsids in them are left for the next run\", inMerge, tb.path) }", "return nil"] : List String) := by rfl

theorem src_purgeSkipConds_expected : src_purgeSkipConds = (["temp[i].isInMerge", "temp[i].isDeleteTsids"] : List String) := by rfl

theorem purgeSkipsInMerge_expected : purgeSkipsInMerge = (true : Bool) := by rfl

theorem purgeSkipsMarked_expected : purgeSkipsMarked = (true : Bool) := by rfl

theorem purgeMarksSelected_expected : purgeMarksSelected = (true : Bool) := by rfl

theorem purgeRefusesWhenInMerge_expected : purgeRefusesWhenInMerge = (true : Bool) := by rfl

theorem purgeRefusesWhenMarked_expected : purgeRefusesWhenMarked = (false : Bool) := by rfl

theorem purgeErrorPathUnmarks_expected : purgeErrorPathUnmarks = (false : Bool) := by rfl

theorem src_removeItemsLastReturn_expected : src_removeItemsLastReturn = ("return nil" : String) := by rfl

theorem steps_filterByDelTsid_expected : steps_filterByDelTsid = (["_, partDirName := filepath.Split(pw.p.path)", "tmpPartPath := filepath.Join(tb.path, \"tmp\", partDirName)", "lock := fileops.FileLockOption(tmpPartPath)", "_, ph, changed, err := tb.genTempPart(pw, delTsids, tmpPartPath)", "if err != nil { return err }", "if !changed { tb.partsLock.Lock() pw.isDeleteTsids = false tb.partsLock.Unlock() if err = fileops.RemoveAll(tmpPartPath, lock); err != nil { return fmt.Errorf(\"remove tmp part fail. tmp part path: %q, err: %w\", tmpPartPath, err) } return nil }", "var dstPartPath = \"\"", "if ph.itemsCount != 0 { partDirNames := strings.SplitN(partDirName, \"_\", 2) if len(partDirNames) != 2 { return fmt.Errorf(\"split part dir name [%s] fail. please check dir name format: x_xxxx_xxxx\", partDirName) } newPartDirName := fmt.Sprintf(\"%d_%s\", ph.itemsCount, partDirNames[1]) dstPartPath = filepath.Join(tb.path, newPartDirName) }", "var newPW *partWrapper = nil", "if ph.itemsCount != 0 { if err = fileops.RenameFile(tmpPartPath, dstPartPath, lock); err != nil { tb.partsLock.Lock() defer tb.partsLock.Unlock() pw.isDeleteTsids = false if e := fileops.RemoveAll(tmpPartPath, lock); e != nil { return fmt.Errorf(\"move tmp part files and remove tmp part fail. tmp part path: %q, err: %w\", tmpPartPath, e) } return fmt.Errorf(\"move tmp part files to new part files fail. tmp path: %q, new path: %q, err: %w\", tmpPartPath, dstPartPath, err) } newP, err := openFilePartFn(dstPartPath) if err != nil { return fmt.Errorf(\"cannot open new part %q: %w\", dstPartPath, err) } newPW = &partWrapper{ p: newP, refCount: 1, lock: tb.lock, } }", "m := make(map[*partWrapper]bool, 1)", "m[pw] = true", "removedParts := 0", "tb.partsLock.Lock()", "tb.parts, removedParts = removeParts(tb.parts, m)", "if newPW != nil { tb.parts = append(tb.parts, newPW) }", "tb.partsLock.Unlock()", "if removedParts != 1 { logger.Panicf(\"BUG: unexpected number of parts removed; got %d; want %d\", removedParts, 1) }", "var removeWG sync.WaitGroup", "if pw.mp == nil { pw.removeWG = &removeWG }", "removeWG.Add(1)", "pw.decRef()", "return nil"] : List String) := by rfl

theorem purgeUnchangedClearsMark_expected : purgeUnchangedClearsMark = (true : Bool) := by rfl

theorem purgeChangedReplacesPart_expected : purgeChangedReplacesPart = (true : Bool) := by rfl

theorem purgeNewPartUnflagged_expected : purgeNewPartUnflagged = (true : Bool) := by rfl

theorem src_newPartCond_expected : src_newPartCond = ("ph.itemsCount != 0" : String) := by rfl

theorem src_genTempPartChanged_expected : src_genTempPartChanged = (["delTsids.Has(tsid)", "isDeleted(delTsids, item)"] : List String) := by rfl

theorem src_isDeleted_expected : src_isDeleted = ("{ itemLen := len(item) if itemLen < separatorMarshaledUint64Len { return false } var tsidBytes []byte if item[0] == nsPrefixKeyToTSID && item[itemLen-separatorMarshaledUint64Len] == kvSeparatorChar { tsidBytes = item[itemLen-MarshaledUint64Len:] } else if item[0] == nsPrefixTSIDToKey { tsidBytes = item[1 : MarshaledUint64Len+1] } else if item[0] == nsPrefixTagToTSIDs { tsidBytes = item[itemLen-MarshaledUint64Len:] } else { return false } tsid := encoding.UnmarshalUint64(tsidBytes) return delTsids.Has(tsid) }" : String) := by rfl

theorem mergeSkipsMarked_expected : mergeSkipsMarked = (true : Bool) := by rfl

theorem mergeSkipsInMerge_expected : mergeSkipsInMerge = (true : Bool) := by rfl

theorem mergeMarksPicked_expected : mergeMarksPicked = (true : Bool) := by rfl

theorem mergeClearsInMergeDeferred_expected : mergeClearsInMergeDeferred = (true : Bool) := by rfl

theorem steps_mergePublish_expected : steps_mergePublish = (["tb.partsLock.Lock()", "tb.parts, removedParts = removeParts(tb.parts, m)", "tb.parts = append(tb.parts, newPW)", "tb.partsLock.Unlock()"] : List String) := by rfl

theorem steps_setLabelForDeletePart_expected : steps_setLabelForDeletePart = (["tb.partsLock.Lock()", "for i := 0; i < len(tb.parts); i++ { if tb.parts[i].isInMerge || tb.parts[i].isDeleteTsids { continue } tb.parts[i].isDeleteTsids = true }", "tb.partsLock.Unlock()"] : List String) := by rfl

theorem steps_removeDeletedPart_expected : steps_removeDeletedPart = (["tb.partsLock.Lock()", "m := make(map[*partWrapper]bool)", "pws := make([]*partWrapper, 0)", "for i := 0; i < len(tb.parts); i++ { if tb.parts[i].isDeleteTsids { m[tb.parts[i]] = true pws = append(pws, tb.parts[i]) } }", "removedParts := 0", "tb.parts, removedParts = removeParts(tb.parts, m)", "tb.partsLock.Unlock()", "if removedParts != len(m) { logger.Panicf(\"BUG: unexpected number of parts removed; got %d; want %d\", removedParts, len(m)) }", "var removeWG sync.WaitGroup", "for _, pw := range pws { pw.removeWG = &removeWG removeWG.Add(1) pw.decRef() }", "removeWG.Wait()"] : List String) := by rfl

theorem steps_clearCache_expected : steps_clearCache = (["if !idx.isOpen { return nil }", "idx.logger.Info(\"ClearCache\", zap.String(\"path\", idx.path))", "idx.mu.Lock()", "defer idx.mu.Unlock()", "idx.tb.DebugFlush()", "if err := idx.cache.reset(); err != nil { return err }", "return nil"] : List String) := by rfl

/-! ### the store side of the drops (engine/engine_ddl.go, engine/engine.go), as `OG.C13.Store` transcribes it -/

theorem steps_engineDropRetentionPolicy_expected : steps_engineDropRetentionPolicy = (["rpName := db + \".\" + rp", "if err := e.startDrop(rpName, e.droppingRP); err != nil { return err }", "defer e.endDrop(rpName, e.droppingRP)", "atomic.AddInt64(&stat.EngineStat.DropRPCount, 1)", "start := time.Now()", "e.log.Info(\"start drop retention policy...\", zap.String(\"db\", db), zap.String(\"rp\", rp), zap.Uint32(\"pt\", ptId))", "defer func(st time.Time) { d := time.Since(st) atomic.AddInt64(&stat.EngineStat.DropRPDurations, d.Nanoseconds()) stat.UpdateEngineStatS() e.log.Info(\"drop retention policy done\", zap.String(\"db\", db), zap.String(\"rp\", rp), zap.Duration(\"duration\", d), zap.Uint32(\"pt\", ptId)) }(start)", "obsOpt, _ := e.metaClient.DatabaseOption(db)", "deleteDirFunc := func() error { dataPath := path.Join(e.dataPath, config.DataDirectory, db, strconv.Itoa(int(ptId)), rp) walPath := path.Join(e.walPath, config.WalDirectory, db, strconv.Itoa(int(ptId)), rp) lockPath := \"\" if err := deleteDataAndWalPath(dataPath, walPath, obsOpt, &lockPath); err != nil { atomic.AddInt64(&stat.EngineStat.DropRPErrs, 1) return err } return nil }", "if err := e.DbPTRef(db, ptId); err != nil { atomic.AddInt64(&stat.EngineStat.DropRPErrs, 1) return err }", "defer e.DbPTUnref(db, ptId)", "if err := e.deleteIndexes(db, ptId, rp, func(dbPTInfo *DBPTInfo, shardID uint64, sh Shard) error { if err := sh.Close(); err != nil { return err } dbPTInfo.mu.Lock() delete(dbPTInfo.shards, shardID) delete(dbPTInfo.newestRpShard, rp) dbPTInfo.mu.Unlock() return nil }); err != nil { atomic.AddInt64(&stat.EngineStat.DropRPErrs, 1) return err }", "colstore.MstManagerIns().DelAll(db, rp)", "return deleteDirFunc()"] : List String) := by rfl

theorem steps_engineDropMeasurement_expected : steps_engineDropMeasurement = (["e.log.Info(\"start delete measurement...\", zap.String(\"db\", db), zap.String(\"name\", name))", "start := time.Now()", "atomic.AddInt64(&stat.EngineStat.DropMstCount, 1)", "defer func(tm time.Time) { d := time.Since(tm) atomic.AddInt64(&stat.EngineStat.DropMstDurations, d.Nanoseconds()) stat.UpdateEngineStatS() e.log.Info(\"delete measurement done\", zap.String(\"db\", db), zap.String(\"name\", name), zap.Duration(\"time used\", d)) }(start)", "mstName := db + \".\" + rp + \".\" + name", "if err := e.startDrop(mstName, e.droppingMst); err != nil { return err }", "defer e.endDrop(mstName, e.droppingMst)", "e.mu.RLock()", "pts, ok := e.DBPartitions[db]", "if !ok || len(pts) == 0 { e.mu.RUnlock() return nil }", "ptIds, err := e.refDBPTsNoLock(pts, db)", "if err != nil { atomic.AddInt64(&stat.EngineStat.DropRPErrs, 1) e.mu.RUnlock() return err }", "ident := colstore.NewMeasurementIdent(db, rp)", "ident.SetName(name)", "e.mu.RUnlock()", "defer e.unrefDBPTs(db, ptIds)", "colstore.MstManagerIns().Del(ident)", "for ptID, pt := range pts { pt.mu.RLock() for _, id := range shardIds { sh, ok := pt.shards[id] if !ok { continue } if err := sh.DropMeasurement(context.TODO(), name); err != nil { e.log.Error(\"drop measurement fail\", zap.Uint32(\"ptid\", ptID), zap.Uint64(\"shard\", id), zap.Error(err)) pt.mu.RUnlock() atomic.AddInt64(&stat.EngineStat.DropMstErrs, 1) return err } } pt.mu.RUnlock() }", "return nil"] : List String) := by rfl

theorem steps_deleteDataAndWalPath_expected : steps_deleteDataAndWalPath = (["logger.GetLogger().Info(\"deleteDataAndWalPath\", zap.String(\"data\", dataPath), zap.String(\"wal\", walPath))", "if obsOpt != nil { if err := deleteDir(fileops.GetRemoteDataPath(obsOpt, dataPath), lockPath); err != nil && !os.IsNotExist(err) { return err } }", "if err := deleteDir(dataPath, lockPath); err != nil && !os.IsNotExist(err) { return err }", "if err := deleteDir(walPath, lockPath); err != nil && !os.IsNotExist(err) { return err }", "return nil"] : List String) := by rfl

theorem steps_deleteShardsAndIndexes_expected : steps_deleteShardsAndIndexes = (["dbPTInfo.mu.Lock()", "defer dbPTInfo.mu.Unlock()", "for id, shard := range dbPTInfo.shards { if err := shard.Close(); err != nil { return err } delete(dbPTInfo.shards, id) }", "for id, iBuild := range dbPTInfo.indexBuilder { if err := iBuild.Close(); err != nil { return err } delete(dbPTInfo.indexBuilder, id) }", "var errs []error", "deleteRps := make([]string, 0, len(dbPTInfo.delIndexBuilderMap))", "for rp, iBuild := range dbPTInfo.delIndexBuilderMap { if err := iBuild.Close(); err != nil { e.log.Error(\"drop series failed\", zap.Uint32(\"ptId\", dbPTInfo.id), zap.String(\"rp\", rp), zap.Error(err)) errs = append(errs, err) } else { deleteRps = append(deleteRps, rp) } }", "for _, rp := range deleteRps { delete(dbPTInfo.delIndexBuilderMap, rp) }", "if len(errs) > 0 { return errors.Join(errs...) }", "return nil"] : List String) := by rfl

theorem calls_engineDeleteDatabase_expected : calls_engineDeleteDatabase = (["e.log.Info", "e.log.Info", "e.startDrop", "e.endDrop", "e.metaClient.DatabaseOption", "e.mu.RLock", "e.mu.RUnlock", "deleteDataAndWalPath", "e.mu.RUnlock", "deleteDataAndWalPath", "dbPTInfo.markOffload", "dbPTInfo.unMarkOffload", "e.mu.RUnlock", "dbPTInfo.wg.Wait", "e.deleteShardsAndIndexes", "deleteDataAndWalPath", "dbPTInfo.unMarkOffload", "e.mu.RUnlock", "dbPTInfo.node.Stop", "e.mu.RUnlock", "e.mu.Lock", "e.dropDBPTInfo", "e.mu.Unlock", "colstore.MstManagerIns().DelAll", "colstore.MstManagerIns"] : List String) := by rfl

/-! ### the purge over the indexes of one policy -/

theorem steps_dropSeriesOfPolicy_expected : steps_dropSeriesOfPolicy = (["ibs := append([]*IndexBuilder(nil), iBuilders...)", "sort.Slice(ibs, func(i, j int) bool { return ibs[i].GetIndexID() < ibs[j].GetIndexID() })", "idxs := make([]*MergeSetIndex, 0, len(ibs))", "for _, iBuilder := range ibs { iBuilder.mu.Lock() defer iBuilder.mu.Unlock() idx, ok := iBuilder.GetPrimaryIndex().(*MergeSetIndex) if !ok { return errors.New(\"idx is nil or not be *MergeSetIndex\") } idxs = append(idxs, idx) }", "var deleteMergeSet *MergeSetIndex", "var withDeleted *MergeSetIndex", "for _, idx := range idxs { if d := idx.DeleteMergeSet(); d != nil { if deleteMergeSet != nil && deleteMergeSet != d { return errors.New(\"the indexes of one retention policy must share one deleted-tsid index\") } deleteMergeSet, withDeleted = d, idx } }", "if deleteMergeSet == nil { logger.GetLogger().Info(\"new db and didn't execute drop, no need to delete\") return nil }", "deleteMergeSet.tb.SetLabelForDeletePart()", "delTsids := withDeleted.GetDeletedTSIDs()", "if delTsids == nil || delTsids.Len() <= 0 { return nil }", "var errs []error", "for _, idx := range idxs { e := idx.tb.RemoveItemsByDelTsidsFromParts(delTsids) if e == nil { e = idx.ClearCache() } if e != nil { errs = append(errs, e) } }", "if len(errs) > 0 { return errors.Join(errs...) }", "deleteMergeSet.tb.RemoveDeletedPart()", "return nil"] : List String) := by rfl

theorem policyPurgeForgetsOnlyWhenAllOk_expected : policyPurgeForgetsOnlyWhenAllOk = (true : Bool) := by rfl

theorem steps_engineDropSeries_expected : steps_engineDropSeries = (["e.log.Info(\"start drop series task\")", "var errs []error", "e.mu.Lock()", "defer e.mu.Unlock()", "for db, dbptInfoMap := range e.DBPartitions { for pt, dbptInfo := range dbptInfoMap { byRp := make(map[string][]*tsi.IndexBuilder) for indexId, ib := range dbptInfo.indexBuilder { if DelIndexBuilderId == indexId { continue } byRp[ib.RPName()] = append(byRp[ib.RPName()], ib) } for rp, ibs := range byRp { err := tsi.DropSeriesOfPolicy(ibs) if err != nil { e.log.Error(\"drop series failed\", zap.Uint32(\"pt\", pt), zap.String(\"db\", db), zap.String(\"rp\", rp), zap.Error(err)) errs = append(errs, err) } } } }", "if len(errs) > 0 { err := errors.Join(errs...) return err }", "e.log.Info(\"end drop series task\")", "return nil"] : List String) := by rfl

/-! ### every index of a policy subtracts the policy's deleted tsids -/

theorem newIndexGetsDeletedSet_expected : newIndexGetsDeletedSet = (true : Bool) := by rfl

theorem src_getDeletedTSIDs_expected : src_getDeletedTSIDs = ("{ if idx.DeleteMergeSet() == nil { return &uint64set.Set{} } if deleted, ok := idx.DeleteMergeSet().deletedTSIDs.Load().(*uint64set.Set); ok && deleted != nil { return deleted } return &uint64set.Set{} }" : String) := by rfl

/-! ### SHOW TAG VALUES walks tag→tsids rows (`OG.C13.Rows`) -/

theorem maxTSIDsPerRow_expected : maxTSIDsPerRow = (64 : Nat) := by rfl

theorem steps_tagValuesScanLoop_expected : steps_tagValuesScanLoop = (["item := ts.Item", "if !bytes.HasPrefix(item, prefix) { break }", "if err := mp.Init(item, nsPrefixTagToTSIDs); err != nil { return nil, err }", "isExpect, tsid := mp.IsExpectedTag(deletedTSIDs, eligibleTSIDs)", "if !isExpect { continue }", "if is.TagArrayEnabled() { if !is.isExpectTagWithTagArray(tsid, seriesKeys, combineSeriesKey, condition, mp.Tag) { continue } }", "tagValueMap[string(mp.Tag.Value)] = struct{}{}", "if mp.TSIDsLen() < mergeindex.MaxTSIDsPerRow { continue }", "kb.B = append(kb.B[:0], nsPrefixTagToTSIDs)", "kb.B = marshalTagValue(kb.B, compositeKey.B)", "kb.B = marshalTagValue(kb.B, mp.Tag.Value)", "kb.B[len(kb.B)-1]++", "ts.Seek(kb.B)"] : List String) := by rfl

theorem src_tagValuesFullRowCond_expected : src_tagValuesFullRowCond = ("mp.TSIDsLen() < mergeindex.MaxTSIDsPerRow" : String) := by rfl

theorem tagValuesSeekGuardedByRecord_expected : tagValuesSeekGuardedByRecord = (true : Bool) := by rfl

theorem tagValuesSeeksAfterFullRow_expected : tagValuesSeeksAfterFullRow = (true : Bool) := by rfl

theorem steps_isExpectedTag_expected : steps_isExpectedTag = (["if eligibleTSIDs != nil && eligibleTSIDs.Len() == 0 { return false, 0 }", "brp.ParseTSIDs()", "for _, tsid := range brp.TSIDs { if !deletedTSIDs.Has(tsid) && (eligibleTSIDs == nil || eligibleTSIDs.Has(tsid)) { return true, tsid } }", "return false, 0"] : List String) := by rfl

theorem steps_searchTagValues_expected : steps_searchTagValues = (["result := make([][]string, len(tagKeys))", "var eligibleTSIDs *uint64set.Set", "if condition != nil { var err error eligibleTSIDs, err = is.searchTSIDsInternal(name, condition, TimeRange{Min: 0, Max: influxql.MaxTime}) if err != nil { return nil, err } if eligibleTSIDs.Len() == 0 { return nil, nil } }", "for i, tagKey := range tagKeys { tvm, err := is.searchTagValuesBySingleKey(name, tagKey, eligibleTSIDs, condition) if err != nil { return nil, err } tagValues := make([]string, 0, len(tvm)) for tv := range tvm { tagValues = append(tagValues, tv) } result[i] = tagValues }", "return result, nil"] : List String) := by rfl

end OG.C13.Facts
