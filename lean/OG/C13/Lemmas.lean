/-
C13 — helper lemmas: how the C02 layout operations act on `lookup` and on membership, filters
that only look at the series of a cell, relabelling a series.
-/
import OG.C13.Spec
import OG.C02.Read

namespace OG.C13
open OG.C02

/-! ### membership: layout operations never invent cells -/

theorem flush_cells_mem (st : C02.St) (c : Cell) (h : c ∈ st.flush.cells) : c ∈ st.cells := by
  unfold C02.St.flush at h
  simp only [] at h
  by_cases ha : st.active = []
  · simpa [ha, C02.St.cells] using h
  · simp only [ha, if_false, C02.St.cells, flatten_cons_if, List.nil_append, List.mem_append,
      List.mem_filter] at h
    simp only [C02.St.cells, List.mem_append]
    rcases h with (h | h) | (h | h)
    · exact Or.inl (Or.inl h.1)
    · exact Or.inl (Or.inr h)
    · exact Or.inl (Or.inl h.1)
    · exact Or.inr h

theorem compact_cells_mem (st : C02.St) (c : Cell) (h : c ∈ st.compact.cells) : c ∈ st.cells := by
  unfold C02.St.compact C02.St.cells at *
  by_cases ho : st.ordered = [] <;> simp_all

theorem merge_cells_mem (st : C02.St) (c : Cell) (h : c ∈ st.mergeOOO.cells) : c ∈ st.cells := by
  unfold C02.St.mergeOOO at h
  by_cases ho : st.ooo = []
  · simpa [ho] using h
  · simp only [ho, if_false, C02.St.cells, List.flatten_nil, List.append_nil, List.flatten_cons,
      List.mem_append] at h
    simp only [C02.St.cells, List.mem_append]
    grind

/-! ### filters that only look at the series of a cell -/

theorem lookup_filter_series (keepS : Nat → Bool) (k : Key) (xs : List Cell) :
    lookup k (xs.filter fun c => keepS c.s) = if keepS k.1 then lookup k xs else none := by
  apply lookup_filter (b := keepS k.1)
  intro c _ hk
  simp only [Cell.key] at hk
  rw [← hk]

theorem equiv_filter_series (keepS : Nat → Bool) {xs ys : List Cell} (h : Equiv xs ys) :
    Equiv (xs.filter fun c => keepS c.s) (ys.filter fun c => keepS c.s) := by
  intro k
  rw [lookup_filter_series, lookup_filter_series, h k]

theorem lastFlushOf_filter (keepS : Nat → Bool) (lf : List (Nat × Int)) (s : Nat) (hs : keepS s = true) :
    lastFlushOf (lf.filter fun x => keepS x.1) s = lastFlushOf lf s := by
  induction lf with
  | nil => rfl
  | cons x rest ih =>
    obtain ⟨s', t⟩ := x
    by_cases hx : s' = s
    · subst hx
      simp [List.filter, hs, lastFlushOf, ih]
    · by_cases hk : keepS s' = true
      · simp [List.filter, hk, lastFlushOf, hx, ih]
      · simp [List.filter, hk, lastFlushOf, hx, ih]

end OG.C13
