/-
C09 — expectations about the regenerated facts. Each `theorem` compares what ogfacts extracted
from /repo *now* with what the hand-written model was written against: the eligibility
predicates as closed Boolean formulas (the generated definitions themselves are what the model
and the theorems use), the segment-fully-covered / overlap tests, the calls that have statistics,
the fields of the stored record, the type -> builder table of `BuildPreAgg`, the dispatch of
`readSegmentMetaRecord`, and the source text of every accumulate / merge / tie-breaking /
shortcut function the model transcribes. A failure here means the modelled source changed shape:
the correspondence run then decides whether the property still holds (and supplies the replay).
-/
import OG.C09.Model

namespace OG.C09.Facts
open OG.C09 OG.Gen.C09

theorem generation_ok : generationFailed = false := by rfl

/-- `matchPreAgg` (store side): the sequence of `if … return false`. -/
theorem matchPreAgg_expected (q : QueryShape) :
    matchPreAgg q = (q.preAggEnabled && q.hasCall && !q.hasNonPreCall && !q.hasInterval &&
      !(q.ctxFieldCond || q.schemaFieldCond) && !(q.hint == Hint.ExactStatisticQuery) && !q.isProm) := by
  rcases q with ⟨a, b, c, d, e, f, g, h⟩
  cases a <;> cases b <;> cases c <;> cases d <;> cases e <;> cases f <;> cases g <;> cases h <;> rfl

/-- `QuerySchema.MatchPreAgg` (planner side): no hint test, schema-level field condition only. -/
theorem schemaMatchPreAgg_expected (q : QueryShape) :
    schemaMatchPreAgg q = (q.preAggEnabled && q.hasCall && !q.hasNonPreCall && !q.hasInterval &&
      !q.schemaFieldCond && !q.isProm) := by
  rcases q with ⟨a, b, c, d, e, f, g, h⟩
  cases a <;> cases b <;> cases c <;> cases d <;> cases f <;> cases g <;> rfl

theorem seriesPlanSkipped_expected (q : QueryShape) :
    seriesPlanSkipped q = (schemaMatchPreAgg q && (q.hint != Hint.ExactStatisticQuery)) := by rfl

/-- `ChunkMeta.allRowsInRange`: both ends inclusive. -/
theorem allRowsInRange_expected (lo hi a b : Int) :
    allRowsInRange lo hi a b = (decide (lo ≤ a) && decide (hi ≥ b)) := by rfl

/-- `TimeRange.Overlaps`: both ends inclusive. -/
theorem overlaps_expected (lo hi a b : Int) :
    overlaps lo hi a b = (decide (lo ≤ b) && decide (hi ≥ a)) := by rfl

/-! ## data expectations (tools/c09_refresh_facts.py) -/

theorem hintNames_expected : hintNames = ["DefaultNoHint", "FilterNullColumn", "ExactStatisticQuery", "FullSeriesQuery", "SpecificSeriesQuery", "QueryPushDown"] := by rfl

theorem preAggCalls_expected : preAggCalls = ["count", "sum", "max", "min", "first", "last", "mean"] := by rfl

theorem statFields_expected : statFields = ["minIndex", "maxIndex", "minTIndex", "maxTIndex", "sumIndex", "countIndex"] := by rfl

theorem buildPreAggTable_expected : buildPreAggTable = [
  ("influx.Field_Type_String", "builder = b.stringPreAggBuilder"),
  ("influx.Field_Type_Boolean", "builder = b.boolPreAggBuilder"),
  ("influx.Field_Type_Float", "builder = b.floatPreAggBuilder"),
  ("influx.Field_Type_Int", "if b.colMeta.IsTime() { builder = b.timePreAggBuilder } else { builder = b.intPreAggBuilder }"),
  ("default", "panic(b.colMeta.ty)")
] := by rfl

theorem metaReadTable_expected : metaReadTable = [
  ("\"min\"", "isMin := call.Call.Name == \"min\""),
  ("\"max\"", "isMin := call.Call.Name == \"min\""),
  ("\"first\"", "isFirst := call.Call.Name == \"first\""),
  ("\"last\"", "isFirst := call.Call.Name == \"first\""),
  ("\"count\"", "isSum := call.Call.Name == \"sum\""),
  ("\"sum\"", "isSum := call.Call.Name == \"sum\""),
  ("default", "panic(call)")
] := by rfl

theorem src_int_addValues_expected : src_int_addValues = "{ values := col.IntegerValues() valLen := len(values) agg := m.values for i, j := 0, 0; i < col.Len; i++ { if col.NilCount > 0 && col.IsNil(i) { continue } v := values[j] j++ if agg[minIndex] > v { agg[minIndex] = v agg[minTIndex] = times[i] } if agg[maxIndex] < v { agg[maxIndex] = v agg[maxTIndex] = times[i] } agg[sumIndex] += v } agg[countIndex] += int64(valLen) }" := by rfl

theorem src_float_addValues_expected : src_float_addValues = "{ values := col.FloatValues() valLen := len(values) for i, j := 0, 0; i < col.Len; i++ { if col.NilCount > 0 && col.IsNil(i) { continue } v := values[j] j++ if m.minV > v { m.minV = v m.minTime = times[i] } if m.maxV < v { m.maxV = v m.maxTime = times[i] } m.sumV += v } m.countV += int64(valLen) }" := by rfl

theorem src_int_addMin_expected : src_int_addMin = "{ v := int64(value) if v < m.values[minIndex] { m.values[minIndex] = v m.values[minTIndex] = tm } else if m.values[minIndex] == v { if tm < m.values[minTIndex] { m.values[minTIndex] = tm } } }" := by rfl

theorem src_int_addMax_expected : src_int_addMax = "{ v := int64(value) if v > m.values[maxIndex] { m.values[maxIndex] = v m.values[maxTIndex] = tm } else if m.values[maxIndex] == v { if tm < m.values[maxTIndex] { m.values[maxTIndex] = tm } } }" := by rfl

theorem src_float_addMin_expected : src_float_addMin = "{ if m.minV > v { m.minV = v m.minTime = tm } else if m.minV == v { if tm < m.minTime { m.minTime = tm } } }" := by rfl

theorem src_float_addMax_expected : src_float_addMax = "{ if m.maxV < v { m.maxV = v m.maxTime = tm } else if m.maxV == v { if tm < m.maxTime { m.maxTime = tm } } }" := by rfl

theorem src_firstLast_fromPreAgg_expected : src_firstLast_fromPreAgg = "{ if r.first && ctx.tr.Min <= sr.minTime() { val, tm, ok := r.ReadMinFromPreAgg(colMeta) return val, tm, ok && tm == sr.minTime() } if !r.first && ctx.tr.Max >= sr.maxTime() { val, tm, ok := r.ReadMaxFromPreAgg(colMeta) return val, tm, ok && tm == sr.maxTime() } return 0, 0, false }" := by rfl

theorem src_firstLast_readRowIndex_expected : src_firstLast_readRowIndex = "{ if r.first == ctx.Ascending { return readFirstRowIndex(timeCol, dataCol, ctx.tr, ctx.Ascending) } return readLastRowIndex(timeCol, dataCol, ctx.tr, ctx.Ascending) }" := by rfl

theorem src_readFirstRowIndex_expected : src_readFirstRowIndex = "{ rowIndex := timeCol.Length() + 1 var rowIdxStart, rowIdxStop int rowIdxStart, rowIdxStop = findRowIdxRange(timeCol, tr, ascending) for i := rowIdxStart; i < rowIdxStop; i++ { if !callCol.IsNil(i) { rowIndex = i break } } return rowIndex }" := by rfl

theorem src_readLastRowIndex_expected : src_readLastRowIndex = "{ rowIndex := timeCol.Length() var rowIdxStart, rowIdxStop int rowIdxStart, rowIdxStop = findRowIdxRange(timeCol, tr, ascending) for i := rowIdxStop - 1; i >= rowIdxStart; i-- { if !callCol.IsNil(i) { rowIndex = i break } } return rowIndex }" := by rfl

theorem src_findRowIdxRange_expected : src_findRowIdxRange = "{ rowIdxStart := findRowIdxStart(timeCol, tr.Min, ascending) rowIdxStop := findRowIdxStop(timeCol, tr.Max, ascending) if !ascending { rowIdxStart, rowIdxStop = rowIdxStop, rowIdxStart } return rowIdxStart, rowIdxStop }" := by rfl

theorem src_countMeta_skeleton_expected : src_countMeta_skeleton = "{ if newRec.RecMeta == nil || baseRec.RecMeta == nil { return false } var swap bool for _, call := range ops { idx := newRec.Schema.FieldIndex(call.Ref.Val) switch call.Call.Name { case \"min\": swap = minMeta(newRec, baseRec, idx) case \"max\": swap = maxMeta(newRec, baseRec, idx) case \"count\": countMeta(newRec, baseRec, idx) swap = false case \"sum\": sumMeta(newRec, baseRec, idx) swap = false case \"first\": swap = firstMeta(newRec, baseRec, idx) case \"last\": swap = lastMeta(newRec, baseRec, idx) default: fmt.Println(\"not support\", call.Call.Name) } } return swap }" := by rfl

theorem src_string_addValues_expected : src_string_addValues = "{ m.counts += int64(col.Length() - col.NullN()) }" := by rfl

theorem src_bool_addValues_expected : src_bool_addValues = "{ values := col.Int8Values() valLen := len(values) for i, j := 0, 0; i < col.Len && j < valLen; i++ { if col.NilCount > 0 && col.IsNil(i) { continue } v := values[j] j++ if m.minV > v { m.minV = v m.minTime = times[i] } if m.maxV < v { m.maxV = v m.maxTime = times[i] } } m.counts += int64(valLen) }" := by rfl

theorem src_int_merge_expected : src_int_merge = "{ m.addMin(float64(other.values[minIndex]), other.values[minTIndex]) m.addMax(float64(other.values[maxIndex]), other.values[maxTIndex]) m.values[sumIndex] += other.values[sumIndex] m.values[countIndex] += other.values[countIndex] }" := by rfl

theorem src_float_merge_expected : src_float_merge = "{ m.addMin(other.minV, other.minTime) m.addMax(other.maxV, other.maxTime) m.addSum(other.sumV) m.addCount(other.countV) }" := by rfl

theorem src_isPreAggRead_expected : src_isPreAggRead = "{ return len(l.ctx.ops) > 0 }" := by rfl

theorem src_compareMin_expected : src_compareMin = "{ switch newRecV.(type) { case int64: base, ok := baseRecV.(int64) if !ok { return true } return newRecV.(int64) < base case float64: base, ok := baseRecV.(float64) if !ok { return true } return newRecV.(float64) < base case string: base, ok := baseRecV.(string) if !ok { return true } return newRecV.(string) < base case bool: base, ok := baseRecV.(bool) if !ok { return true } if (!base && !newRecV.(bool)) || (base && newRecV.(bool)) { return false } else if !newRecV.(bool) { return true } return false default: return true } }" := by rfl

theorem src_minBool_expected : src_minBool = "{ newRecV, newRecTime := newRec.RecMeta.ColMeta[idx].Min() baseRecV, baseRecTime := baseRec.RecMeta.ColMeta[idx].Min() base, ok := baseRecV.(bool) if !ok { panic(\"meta Min isn't base type\") } if (!base && !newRecV.(bool)) || (base && newRecV.(bool)) { if baseRecTime < newRecTime { newRec.RecMeta.ColMeta[idx].SetMin(baseRecV, baseRecTime) newRec.ColVals = baseRec.CopyColVals() return true } else { return false } } else if !base { newRec.RecMeta.ColMeta[idx].SetMin(baseRecV, baseRecTime) newRec.ColVals = baseRec.CopyColVals() return false } else { return true } }" := by rfl

theorem src_maxBool_expected : src_maxBool = "{ newRecV, newRecTime := newRec.RecMeta.ColMeta[idx].Max() baseRecV, baseRecTime := baseRec.RecMeta.ColMeta[idx].Max() base, ok := baseRecV.(bool) if !ok { panic(\"meta Max isn't base type\") } if (!base && !newRecV.(bool)) || (base && newRecV.(bool)) { if baseRecTime < newRecTime { newRec.RecMeta.ColMeta[idx].SetMax(baseRecV, baseRecTime) newRec.ColVals = baseRec.CopyColVals() return true } else { return false } } else if base { newRec.RecMeta.ColMeta[idx].SetMax(baseRecV, baseRecTime) newRec.ColVals = baseRec.CopyColVals() return true } else { return false } }" := by rfl

theorem src_int_marshal_expected : src_int_marshal = "{ if m.values[countIndex] == 1 { dst = numberenc.MarshalInt64Append(dst, m.values[minIndex]) dst = numberenc.MarshalInt64Append(dst, m.values[minTIndex]) return dst } if IsChunkMetaCompressSelf() { size := len(dst) dst = m.VLCEncode(dst) if PreAggOnlyOneRow(dst[size:]) { dst = append(dst, 0) return dst } if len(dst)-size < m.size() { return dst } dst = dst[:size] } for _, val := range m.values { dst = numberenc.MarshalInt64Append(dst, val) } return dst }" := by rfl

theorem src_float_marshal_expected : src_float_marshal = "{ if m.countV == 1 { dst = numberenc.MarshalFloat64(dst, m.minV) dst = numberenc.MarshalInt64Append(dst, m.minTime) return dst } if IsChunkMetaCompressSelf() { size := len(dst) dst = m.VLCEncode(dst) if PreAggOnlyOneRow(dst[size:]) { dst = append(dst, 0) return dst } if len(dst)-size < m.size() { return dst } dst = dst[:size] } dst = numberenc.MarshalFloat64(dst, m.minV) dst = numberenc.MarshalFloat64(dst, m.maxV) dst = numberenc.MarshalInt64Append(dst, m.minTime) dst = numberenc.MarshalInt64Append(dst, m.maxTime) dst = numberenc.MarshalFloat64(dst, m.sumV) dst = numberenc.MarshalInt64Append(dst, m.countV) return dst }" := by rfl

theorem src_bool_marshal_expected : src_bool_marshal = "{ dst = numberenc.MarshalInt64Append(dst, m.counts) dst = numberenc.MarshalInt64Append(dst, m.minTime) dst = numberenc.MarshalInt64Append(dst, m.maxTime) dst = append(dst, byte(m.minV)) dst = append(dst, byte(m.maxV)) return dst }" := by rfl

theorem src_string_marshal_expected : src_string_marshal = "{ dst = numberenc.MarshalInt64Append(dst, m.counts) return dst }" := by rfl

theorem src_time_marshal_expected : src_time_marshal = "{ dst = numberenc.MarshalUint32Append(dst, b.countV) return dst }" := by rfl

theorem src_firstLast_unmarshalPreAgg_expected : src_firstLast_unmarshalPreAgg = "{ var ab PreAggBuilder switch col.ty { case influx.Field_Type_Int: ab = r.getIntPreAgg() case influx.Field_Type_Float: ab = r.getFloatPreAgg() default: return nil, false } _, err := ab.unmarshal(col.preAgg) if err != nil { logger.GetLogger().Error(\"failed to unmarshal pre agg\", zap.Binary(\"data\", col.preAgg), zap.Error(err)) return nil, false } return ab, true }" := by rfl

theorem src_mergeIntegerPreAgg_expected : src_mergeIntegerPreAgg = "{ ab, ok := c.colBuilder.intPreAggBuilder.(*IntegerPreAgg) if !ok || ab == nil { ab = &IntegerPreAgg{} } if c.chunkSegments > c.Conf.maxSegmentLimit { cm.preAgg = ab.marshal(cm.preAgg[:0]) return nil } aggBuilder := c.ctx.preAggBuilders.IntegerBuilder() aggBuilder.reset() for i := 0; i < len(c.chunkItrs); i++ { itr := c.chunkItrs[i] idx := fieldIndex[i] if idx >= 0 { srcMeta := &itr.curtChunkMeta.colMeta[idx] ab.reset() if i == 0 { if _, err := aggBuilder.unmarshal(srcMeta.preAgg); err != nil { c.log.Error(\"unmarshal preagg fail\", zap.String(\"column\", ref.String())) return err } continue } else { if _, err := ab.unmarshal(srcMeta.preAgg); err != nil { c.log.Error(\"unmarshal preagg fail\", zap.String(\"column\", ref.String())) return err } } aggBuilder.merge(ab) } } cm.preAgg = aggBuilder.marshal(cm.preAgg[:0]) return nil }" := by rfl

theorem src_mergeFloatPreAgg_expected : src_mergeFloatPreAgg = "{ ab, ok := c.colBuilder.floatPreAggBuilder.(*FloatPreAgg) if !ok || ab == nil { ab = &FloatPreAgg{} } if c.chunkSegments > c.Conf.maxSegmentLimit { cm.preAgg = ab.marshal(cm.preAgg[:0]) return nil } aggBuilder := c.ctx.preAggBuilders.FloatBuilder() aggBuilder.reset() for i := 0; i < len(c.chunkItrs); i++ { itr := c.chunkItrs[i] idx := fieldIndex[i] if idx >= 0 { srcMeta := &itr.curtChunkMeta.colMeta[idx] ab.reset() if i == 0 { if _, err := aggBuilder.unmarshal(srcMeta.preAgg); err != nil { c.log.Error(\"unmarshal preagg fail\", zap.String(\"column\", ref.String())) return err } continue } if _, err := ab.unmarshal(srcMeta.preAgg); err != nil { c.log.Error(\"unmarshal preagg fail\", zap.String(\"column\", ref.String())) return err } aggBuilder.merge(ab) } } cm.preAgg = aggBuilder.marshal(cm.preAgg[:0]) return nil }" := by rfl

theorem src_mergeBooleanPreAgg_expected : src_mergeBooleanPreAgg = "{ ab := c.colBuilder.boolPreAggBuilder if c.chunkSegments > c.Conf.maxSegmentLimit { cm.preAgg = ab.marshal(cm.preAgg[:0]) return nil } aggBuilder := c.ctx.preAggBuilders.boolBuilder aggBuilder.reset() for i := 0; i < len(c.chunkItrs); i++ { itr := c.chunkItrs[i] idx := fieldIndex[i] if idx >= 0 { srcMeta := &itr.curtChunkMeta.colMeta[idx] ab.reset() if i == 0 { if _, err := aggBuilder.unmarshal(srcMeta.preAgg); err != nil { c.log.Error(\"unmarshal preagg fail\", zap.String(\"column\", ref.String())) return err } continue } if _, err := ab.unmarshal(srcMeta.preAgg); err != nil { c.log.Error(\"unmarshal preagg fail\", zap.String(\"column\", ref.String())) return err } bv := float64(0) v, t := ab.min() min := v.(bool) if min { bv = 1 } aggBuilder.addMin(bv, t) v, t = ab.max() max := v.(bool) bv = 0 if max { bv = 1 } aggBuilder.addMax(bv, t) aggBuilder.addCount(ab.count()) } } cm.preAgg = aggBuilder.marshal(cm.preAgg[:0]) return nil }" := by rfl

theorem src_mergeStringPreAgg_expected : src_mergeStringPreAgg = "{ ab := c.colBuilder.stringPreAggBuilder if c.chunkSegments > c.Conf.maxSegmentLimit { cm.preAgg = ab.marshal(cm.preAgg[:0]) return nil } aggBuilder := c.ctx.preAggBuilders.stringBuilder aggBuilder.reset() for i := 0; i < len(c.chunkItrs); i++ { itr := c.chunkItrs[i] idx := fieldIndex[i] if idx >= 0 { srcMeta := &itr.curtChunkMeta.colMeta[idx] ab.reset() if i == 0 { if _, err := aggBuilder.unmarshal(srcMeta.preAgg); err != nil { c.log.Error(\"unmarshal preagg fail\", zap.String(\"column\", ref.String())) return err } continue } if _, err := ab.unmarshal(srcMeta.preAgg); err != nil { c.log.Error(\"unmarshal preagg fail\", zap.String(\"column\", ref.String())) return err } aggBuilder.addCount(ab.count()) } } cm.preAgg = aggBuilder.marshal(cm.preAgg[:0]) return nil }" := by rfl

theorem src_readMemTableMetaRecord_expected : src_readMemTableMetaRecord = "{ if r.record == nil { return } schema := r.record.Schema if r.record.RecMeta == nil { r.record.RecMeta = &record.RecMeta{} } if cap(r.record.ColMeta) < len(schema)-1 { r.record.ColMeta = make([]record.ColMeta, len(schema)-1) } timeCol := r.record.TimeColumn() descending := r.record.RowNums() > 1 && r.record.Time(0) > r.record.Time(r.record.RowNums()-1) var done []int for _, call := range ops { if r.record == nil { return } idx := r.record.Schema.FieldIndex(call.Ref.Val) if idx < 0 { continue } if slices.Contains(done, idx) { continue } switch r.record.Schema[idx].Type { case influx.Field_Type_Int: r.setIntColumnMeta(timeCol, idx, r.record, ops) case influx.Field_Type_String, influx.Field_Type_Tag: r.setStringColumnMeta(timeCol, idx, r.record, ops) case influx.Field_Type_Float: r.setFloatColumnMeta(timeCol, idx, r.record, ops) case influx.Field_Type_Boolean: r.setBoolColumnMeta(timeCol, idx, r.record, ops) default: return } if r.record == nil { return } done = append(done, idx) if descending { first, firstTime := r.record.ColMeta[idx].First() last, lastTime := r.record.ColMeta[idx].Last() r.record.ColMeta[idx].SetFirst(last, lastTime) r.record.ColMeta[idx].SetLast(first, firstTime) } } }" := by rfl

theorem src_setIntColumnMeta_expected : src_setIntColumnMeta = "{ timeCols := timeColVals.IntegerValues() colVals := rec.ColVals[idx] cols := colVals.IntegerValues() if cols == nil { if len(ops) == 1 { r.reset() } return } var minV, maxV, minVTime, maxVTime, sumV, countV int64 var colIndex, lastIndex, firstIndex, minIndex, maxIndex int nilCount := 0 colIndex = -1 lastIndex, firstIndex, minIndex, maxIndex = -1, -1, -1, -1 firstInit := false var lastTime int64 lastRow := -1 for index, timeCol := range timeCols { if colVals.IsNil(index) { nilCount += 1 continue } if !firstInit { minV = cols[index-nilCount] minVTime = timeCol maxV = cols[index-nilCount] maxVTime = timeCol firstIndex, minIndex, maxIndex = index, index, index firstInit = true } countV += 1 colIndex += 1 if colIndex == 0 { rec.ColMeta[idx].SetFirst(cols[index-nilCount], timeCol) firstIndex = index } if cols[index-nilCount] < minV || (cols[index-nilCount] == minV && minVTime > timeCol) { minV = cols[index-nilCount] minVTime = timeCol minIndex = index } if cols[index-nilCount] > maxV || (cols[index-nilCount] == maxV && maxVTime > timeCol) { maxV = cols[index-nilCount] maxVTime = timeCol maxIndex = index } sumV += cols[index-nilCount] lastIndex = colIndex lastRow = index lastTime = timeCol } rec.ColMeta[idx].SetLast(cols[lastIndex], lastTime) rec.ColMeta[idx].SetMin(minV, minVTime) rec.ColMeta[idx].SetMax(maxV, maxVTime) rec.ColMeta[idx].SetCount(countV) rec.ColMeta[idx].SetSum(sumV) setColValInAux(timeColVals, idx, ops, rec, minIndex, firstIndex, maxIndex, lastRow) }" := by rfl

theorem src_setBoolColumnMeta_expected : src_setBoolColumnMeta = "{ timeCols := timeColVals.IntegerValues() colVals := rec.ColVals[idx] cols := colVals.BooleanValues() if cols == nil { if len(ops) == 1 { r.reset() } return } var minVTime, maxVTime, countV int64 var minV, maxV bool var colIndex, lastIndex, firstIndex, minIndex, maxIndex int nilCount := 0 lastIndex, firstIndex, minIndex, maxIndex = -1, -1, -1, -1 countV = 0 colIndex = -1 firstInit := false var lastTime int64 lastRow := -1 for index, timeCol := range timeCols { if colVals.IsNil(index) { nilCount += 1 continue } if !firstInit { minV = cols[index-nilCount] minVTime = timeCol maxV = cols[index-nilCount] maxVTime = timeCol firstInit = true firstIndex, minIndex, maxIndex = index, index, index } countV += 1 colIndex += 1 if colIndex == 0 { rec.ColMeta[idx].SetFirst(cols[index-nilCount], timeCol) } if minV && !cols[index-nilCount] { minV = cols[index-nilCount] minVTime = timeCol minIndex = index } if !maxV && cols[index-nilCount] { maxV = cols[index-nilCount] maxVTime = timeCol maxIndex = index } lastIndex = colIndex lastRow = index lastTime = timeCol } rec.ColMeta[idx].SetLast(cols[lastIndex], lastTime) rec.ColMeta[idx].SetMin(minV, minVTime) rec.ColMeta[idx].SetMax(maxV, maxVTime) rec.ColMeta[idx].SetCount(countV) setColValInAux(timeColVals, idx, ops, rec, minIndex, firstIndex, maxIndex, lastRow) }" := by rfl

theorem src_countMeta_expected : src_countMeta = "{ newRecV := newRec.RecMeta.ColMeta[idx].Count() baseRecV := baseRec.RecMeta.ColMeta[idx].Count() if IsInterfaceNil(baseRecV) { return } if IsInterfaceNil(newRecV) { newRec.RecMeta.ColMeta[idx].SetCount(baseRecV) return } switch newRecV.(type) { case int64: base, ok := baseRecV.(int64) if !ok { panic(\"meta count isn't int64 type\") } newRec.RecMeta.ColMeta[idx].SetCount(base + newRecV.(int64)) return case float64: base, ok := baseRecV.(float64) if !ok { panic(\"meta count isn't float64 type\") } newRec.RecMeta.ColMeta[idx].SetCount(base + newRecV.(float64)) return default: panic(\"meta can't count\") } }" := by rfl

theorem src_sumMeta_expected : src_sumMeta = "{ newRecV := newRec.RecMeta.ColMeta[idx].Sum() baseRecV := baseRec.RecMeta.ColMeta[idx].Sum() if IsInterfaceNil(baseRecV) { return } if IsInterfaceNil(newRecV) { newRec.RecMeta.ColMeta[idx].SetSum(baseRecV) return } switch newRecV.(type) { case int64: base, ok := baseRecV.(int64) if !ok { panic(\"meta count isn't int64 type\") } newRec.RecMeta.ColMeta[idx].SetSum(base + newRecV.(int64)) return case float64: base, ok := baseRecV.(float64) if !ok { panic(\"meta count isn't float64 type\") } newRec.RecMeta.ColMeta[idx].SetSum(base + newRecV.(float64)) return default: panic(\"meta can't sum\") } }" := by rfl

theorem src_sumRangeValues_expected : src_sumRangeValues = "{ switch ref.Type { case influx.Field_Type_Int: var sum int64 values := col.SubIntegerValues(rowIdxStart, rowIdxStop) if len(values) == 0 { return } for _, n := range values { sum += n } s := meta.Sum() if !IsInterfaceNil(s) { s, ok := s.(int64) if !ok { panic(\"meta Sum isn't int64 type\") } sum += s } meta.SetSum(sum) case influx.Field_Type_Float: var sum float64 values := col.SubFloatValues(rowIdxStart, rowIdxStop) if len(values) == 0 { return } for _, n := range values { sum += n } s := meta.Sum() if !IsInterfaceNil(s) { s, ok := s.(float64) if !ok { panic(\"eta Sum isn't float64 type\") } sum += s } meta.SetSum(sum) } }" := by rfl

theorem src_readTimeCount_expected : src_readTimeCount = "{ tmMeta := cm.timeMeta() dstIdx := dst.Schema.FieldIndex(ref.Name) if dstIdx < 0 { panic(fmt.Sprintf(\"column(%v) not find in %v\", ref.String(), dst.Schema.String())) } meta := &dst.ColMeta[dstIdx] col := dst.Column(dstIdx) trSegs := cm.timeRange countN := 0 for i := range tmMeta.entries { seg := tmMeta.entries[i] if !ctx.tr.Overlaps(trSegs[i].minTime(), trSegs[i].maxTime()) { continue } err := readTimeColumn(seg, col, ctx, cr, false, ioPriority) if err != nil { log.Error(\"decode time data fail\", zap.Error(err)) } start, end := findRowIdxRange(col, ctx.tr, ctx.Ascending) countN += end - start } meta.SetCount(int64(countN)) return nil }" := by rfl

theorem conds_minMeta_expected : conds_minMeta = ["IsInterfaceNil(baseRecV)", "IsInterfaceNil(newRecV)", "!ok", "newRecV.(int64) > base || (newRecV.(int64) == base && newRecTime > baseRecTime)", "!ok", "newRecV.(float64) > base || (newRecV.(float64) == base && newRecTime > baseRecTime)"] := by rfl

theorem conds_maxMeta_expected : conds_maxMeta = ["IsInterfaceNil(baseRecV)", "IsInterfaceNil(newRecV)", "!ok", "newRecV.(int64) < base || (newRecV.(int64) == base && newRecTime > baseRecTime)", "!ok", "newRecV.(float64) < base || (newRecV.(float64) == base && newRecTime > baseRecTime)"] := by rfl

theorem conds_firstMeta_expected : conds_firstMeta = ["IsInterfaceNil(baseRecV)", "IsInterfaceNil(newRecV) && !IsInterfaceNil(baseRecV)", "newRecTime > baseRecTime", "newRecTime == baseRecTime && compareMin(newRecV, baseRecV)"] := by rfl

theorem conds_lastMeta_expected : conds_lastMeta = ["IsInterfaceNil(baseRecV)", "IsInterfaceNil(newRecV) && !IsInterfaceNil(baseRecV)", "newRecTime < baseRecTime", "newRecTime == baseRecTime && compareMin(newRecV, baseRecV)"] := by rfl

theorem conds_compareMin_expected : conds_compareMin = ["!ok", "!ok", "!ok", "!ok", "(!base && !newRecV.(bool)) || (base && newRecV.(bool))", "!newRecV.(bool)"] := by rfl

theorem conds_readSumCount_expected : conds_readSumCount = ["colIdx < 0", "dstIdx < 0", "cm.allRowsInRange(ctx.tr)", "err != nil", "isSum", "cb.count() != 0", "!isSum && ref.Name == record.TimeField", "err != nil"] := by rfl

theorem conds_readMinMax_expected : conds_readMinMax = ["colIdx < 0", "dstIdx < 0", "cm.allRowsInRange(ctx.tr)", "err != nil", "isMin", "cb.count() != 0", "cb.count() != 0", "readAux", "isMin", "err != nil", "readAux && rowIndex >= 0", "err != nil", "col.Length()-col.NilCount != 1"] := by rfl

theorem conds_readSumCountFromData_expected : conds_readSumCountFromData = ["!ctx.tr.Overlaps(trSegs[i].minTime(), trSegs[i].maxTime())", "err != nil", "err != nil", "err != nil", "isSum", "count != 0", "mc != nil", "!ok"] := by rfl

theorem conds_readMinMaxFromData_expected : conds_readMinMaxFromData = ["!ctx.tr.Overlaps(minT, maxT)", "err != nil", "er != nil", "er != nil", "ok"] := by rfl

theorem conds_loopMinRowindex_expected : conds_loopMinRowindex = ["isNil", "min == nil", "min.(bool) && !v"] := by rfl

theorem conds_loopMaxRowindex_expected : conds_loopMaxRowindex = ["isNil", "max == nil", "!max.(bool) && v"] := by rfl

theorem conds_Location_readData_expected : conds_Location_readData = ["!l.ctx.tr.Overlaps(l.meta.MinMaxTime())", "l.ctx.IsAborted()", "(!l.ctx.tr.Overlaps(l.getCurSegMinMax())) || (!l.overlapsForRowFilter(filterOpts.rowFilters))", "err != nil", "l.isPreAggRead()", "unnestOperator != nil", "rec != nil", "l.ctx.Ascending", "rec != nil"] := by rfl

theorem conds_tsspFileReader_ReadData_expected : conds_tsspFileReader_ReadData = ["err != nil", "len(decs.ops) > 0", "err != nil"] := by rfl

theorem conds_FirstLastReader_Read_expected : conds_FirstLastReader_Read = ["idx < 0", "r.timeCol.Length() > 0", "r.meta.IsEmpty()", "!ctx.tr.Overlaps(minMaxSeg.minTime(), minMaxSeg.maxTime())", "ok", "e != nil", "err != nil", "r.first && r.dataCol.NilCount == 0 && minMaxSeg.minTime() >= ctx.tr.Min", "!ctx.Ascending", "!r.first && r.dataCol.NilCount == 0 && minMaxSeg.maxTime() <= ctx.tr.Max", "!ctx.Ascending", "err != nil", "rowIndex >= r.timeCol.Length()"] := by rfl

theorem firstLast_tm_assignments_expected : firstLast_tm_assignments = ["tm = minMaxSeg.minTime()", "tm = minMaxSeg.maxTime()"] := by rfl

end OG.C09.Facts
