/-
C09 — what the fields of a statistics record mean, for rows in any order (one series or a
whole group): count, sum, and the four selectors with their tie-breaking orders.
-/
import OG.C09.Lemmas
namespace OG.C09

variable (ty : ColType)

/-! ## what the fields of a record mean (any order of the rows: one series or a whole group) -/

/-- the points (time, value) of the rows that have a value. -/
def points (l : List Row) : List (Int × Int) := l.filterMap (fun r => r.v.map (fun v => (r.t, v)))

theorem single_count (r : Row) : (Stats.single r).count = (points [r]).length := by
  rcases r with ⟨t, v⟩; cases v <;> simp [Stats.single, points]
theorem single_sum (r : Row) : (Stats.single r).sum = ((points [r]).map (·.2)).sum := by
  rcases r with ⟨t, v⟩; cases v <;> simp [Stats.single, points]

theorem points_cons (r : Row) (l : List Row) : points (r :: l) = points [r] ++ points l := by
  simp [points, List.filterMap_cons]; cases r.v <;> simp

theorem mergeOf_count (l : List Row) : (mergeOf ty l).count = (points l).length := by
  induction l with
  | nil => rfl
  | cons r l ih =>
    rw [mergeOf_cons, points_cons, List.length_append, ← ih, ← single_count]; rfl

theorem mergeOf_sum (l : List Row) : (mergeOf ty l).sum = ((points l).map (·.2)).sum := by
  induction l with
  | nil => rfl
  | cons r l ih =>
    rw [mergeOf_cons, points_cons, List.map_append, List.sum_append, ← ih, ← single_sum]; rfl

/-- `SelSpec R key l o`: `o` is none when no row of `l` has a key, otherwise the key of a row
of `l` that is `R`-below the key of every row of `l`. -/
def SelSpec {β : Type} (R : β → β → Prop) (key : Row → Option β) (l : List Row) : Option β → Prop
  | none => ∀ x ∈ l, key x = none
  | some p => (∃ x ∈ l, key x = some p) ∧ ∀ x ∈ l, ∀ q, key x = some q → R p q

/-- generic selector: a fold of `optComb f` over the keys of the rows picks a key of some row
that is `R`-below the key of every row. -/
theorem sel_spec {β : Type} (f : β → β → β) (R : β → β → Prop) (key : Row → Option β)
    (S : List Row → Option β) (hnil : S [] = none) (hcons : ∀ r l, S (r :: l) = optComb f (key r) (S l))
    (hch : ∀ a b, f a b = a ∨ f a b = b) (hlow : ∀ a b, R (f a b) a ∧ R (f a b) b)
    (hrefl : ∀ a, R a a) (htrans : ∀ a b c, R a b → R b c → R a c) (l : List Row) :
    SelSpec R key l (S l) := by
  induction l with
  | nil => simp [hnil, SelSpec]
  | cons r l ih =>
    rw [hcons]
    cases hk : key r <;> cases hs : S l <;> simp only [optComb, hs, SelSpec] at ih ⊢
    · intro x hx; rcases List.mem_cons.mp hx with rfl | hx'
      · exact hk
      · exact ih x hx'
    · rename_i p
      refine ⟨?_, ?_⟩
      · obtain ⟨x, hx, e⟩ := ih.1; exact ⟨x, List.mem_cons_of_mem _ hx, e⟩
      · intro x hx q hq; rcases List.mem_cons.mp hx with rfl | hx'
        · rw [hk] at hq; cases hq
        · exact ih.2 x hx' q hq
    · rename_i k
      refine ⟨⟨r, List.mem_cons_self, hk⟩, ?_⟩
      intro x hx q hq; rcases List.mem_cons.mp hx with rfl | hx'
      · rw [hk] at hq; cases hq; exact hrefl _
      · rw [ih x hx'] at hq; cases hq
    · rename_i k p
      refine ⟨?_, ?_⟩
      · rcases hch k p with e | e <;> rw [e]
        · exact ⟨r, List.mem_cons_self, hk⟩
        · obtain ⟨x, hx, e'⟩ := ih.1; exact ⟨x, List.mem_cons_of_mem _ hx, e'⟩
      · intro x hx q hq; rcases List.mem_cons.mp hx with rfl | hx'
        · rw [hk] at hq; cases hq; exact (hlow k p).1
        · exact htrans _ _ _ (hlow k p).2 (ih.2 x hx' q hq)

/-- the orders the four selectors minimise: (value, time) for min/max, (time, value) for
first/last; ties exactly as `minMeta` / `maxMeta` / `firstMeta` / `lastMeta` break them. -/
def RMin (p q : Int × Int) : Prop := p.1 < q.1 ∨ (p.1 = q.1 ∧ p.2 ≤ q.2)
def RMax (p q : Int × Int) : Prop := q.1 < p.1 ∨ (p.1 = q.1 ∧ p.2 ≤ q.2)
def RFirst (_ty : ColType) (p q : Int × Int) : Prop := p.1 < q.1 ∨ (p.1 = q.1 ∧ q.2 ≤ p.2)
def RLast (p q : Int × Int) : Prop := q.1 < p.1 ∨ (p.1 = q.1 ∧ q.2 ≤ p.2)

def keyVT (r : Row) : Option (Int × Int) := r.v.map (fun v => (v, r.t))
def keyTV (r : Row) : Option (Int × Int) := r.v.map (fun v => (r.t, v))

theorem single_min_key (r : Row) : (Stats.single r).min = keyVT r := by
  rcases r with ⟨t, v⟩; cases v <;> rfl
theorem single_max_key (r : Row) : (Stats.single r).max = keyVT r := by
  rcases r with ⟨t, v⟩; cases v <;> rfl
theorem single_first_key (r : Row) : (Stats.single r).first = keyTV r := by
  rcases r with ⟨t, v⟩; cases v <;> rfl
theorem single_last_key (r : Row) : (Stats.single r).last = keyTV r := by
  rcases r with ⟨t, v⟩; cases v <;> rfl

theorem pickMin_choice (a b : Int × Int) : pickMin a b = a ∨ pickMin a b = b := by unfold pickMin; split <;> simp
theorem pickMax_choice (a b : Int × Int) : pickMax a b = a ∨ pickMax a b = b := by unfold pickMax; split <;> simp
theorem pickFirst_choice (a b : Int × Int) : pickFirst ty a b = a ∨ pickFirst ty a b = b := by
  unfold pickFirst; split <;> simp
theorem pickLast_choice (a b : Int × Int) : pickLast a b = a ∨ pickLast a b = b := by unfold pickLast; split <;> simp

theorem mergeOf_min_spec (l : List Row) :
    SelSpec RMin keyVT l (mergeOf ty l).min :=
  sel_spec pickMin RMin keyVT (fun l => (mergeOf ty l).min) rfl
    (fun r l => by rw [mergeOf_cons, ← single_min_key]; rfl) pickMin_choice
    (fun a b => by unfold pickMin RMin; grind) (fun a => by unfold RMin; grind)
    (fun a b c => by unfold RMin; grind) l

theorem mergeOf_max_spec (l : List Row) :
    SelSpec RMax keyVT l (mergeOf ty l).max :=
  sel_spec pickMax RMax keyVT (fun l => (mergeOf ty l).max) rfl
    (fun r l => by rw [mergeOf_cons, ← single_max_key]; rfl) pickMax_choice
    (fun a b => by unfold pickMax RMax; grind) (fun a => by unfold RMax; grind)
    (fun a b c => by unfold RMax; grind) l

theorem mergeOf_first_spec (l : List Row) :
    SelSpec (RFirst ty) keyTV l (mergeOf ty l).first :=
  sel_spec (pickFirst ty) (RFirst ty) keyTV (fun l => (mergeOf ty l).first) rfl
    (fun r l => by rw [mergeOf_cons, ← single_first_key]; rfl) (pickFirst_choice ty)
    (fun a b => by unfold pickFirst RFirst; grind) (fun a => by unfold RFirst; grind)
    (fun a b c => by unfold RFirst; grind) l

theorem mergeOf_last_spec (l : List Row) :
    SelSpec RLast keyTV l (mergeOf ty l).last :=
  sel_spec pickLast RLast keyTV (fun l => (mergeOf ty l).last) rfl
    (fun r l => by rw [mergeOf_cons, ← single_last_key]; rfl) pickLast_choice
    (fun a b => by unfold pickLast RLast; grind) (fun a => by unfold RLast; grind)
    (fun a b c => by unfold RLast; grind) l

end OG.C09
