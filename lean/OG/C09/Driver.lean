/-
C09 — line-protocol driver of the model (core only).

  open <idx> <rows-per-segment>                      → ok      (forgets the layout)
  mem <s>:<t>:<fb>,<ff>,<fi>,<fs>;…                  → ok      memtable rows (`_` = null)
  file ord|ooo <seq>                                 → ok      a data file; its chunks follow
  chunk <s> <t>:<c>,<c>,<c>,<c>;…|…                  → ok      one series of the file, segment by segment
  endlayout                                          → ok
  stat <file#> <s> <col>                             → st <count> [<sum> <min> <minT> <max> <maxT>]
  raw <lo> <hi> <filter>                             → rows s:t:c,c,c,c|…     the plain select
  agg <f:col+…> <lo> <hi> nohint|exact <grp> <interval> <fill> asc|desc <filter>
                                                     → ans <group>{<bucket>=<v>,…[@t];…} …
  auxq <f:col/aux/…> … (as agg)                      → ok      (spec side only)
-/
import OG.C09.Model

namespace OG.C09

/-- a full row: time and the four cells fb, ff, fi, fs. -/
structure FRow where
  t : Int
  cs : List (Option Int)
deriving Repr, Inhabited

structure FileL where
  ordered : Bool
  seq : Nat
  chunks : List (Nat × List (List FRow))   -- series, segments
deriving Repr, Inhabited

structure St where
  seg : Nat := 0
  mem : List (Nat × FRow) := []
  files : List FileL := []                  -- in the order of the ops (last one is open)
deriving Repr, Inhabited

def colIndex : String → Option Nat
  | "fb" => some 0 | "ff" => some 1 | "fi" => some 2 | "fs" => some 3 | _ => none

/-- the types of the four columns fb, ff, fi, fs. -/
def colType : Nat → ColType
  | 0 => .bool | 1 => .float | 2 => .int | _ => .string

def parseCell (s : String) : Option (Option Int) :=
  if s == "_" then some none else s.toInt?.map some

def parseFRow (s : String) : Option FRow :=
  match s.splitOn ":" with
  | [t, cells] => do
    let t ← t.toInt?
    let cs ← (cells.splitOn ",").mapM parseCell
    if cs.length = 4 then some ⟨t, cs⟩ else none
  | _ => none

def parseMemRow (s : String) : Option (Nat × FRow) :=
  match s.splitOn ":" with
  | [sr, t, cells] => do
    let sr ← sr.toNat?
    let r ← parseFRow (t ++ ":" ++ cells)
    some (sr, r)
  | _ => none

def FRow.col (r : FRow) (c : Nat) : Row := ⟨r.t, (r.cs.getD c none)⟩

/-- a field filter `col > k` / `col <= k` (a null cell fails). -/
structure Filter where
  col : Nat
  gt : Bool
  k : Int
deriving Repr

def parseFilter (s : String) : Option (Option Filter) :=
  if s == "-" then some none
  else
    match s.splitOn "<=" with
    | [c, k] => do some (some ⟨← colIndex c, false, ← k.toInt?⟩)
    | _ =>
      match s.splitOn ">" with
      | [c, k] => do some (some ⟨← colIndex c, true, ← k.toInt?⟩)
      | _ => none

def Filter.pass (f : Option Filter) (r : FRow) : Bool :=
  match f with
  | none => true
  | some f =>
    match r.cs.getD f.col none with
    | none => false
    | some v => if f.gt then decide (v > f.k) else decide (v ≤ f.k)

/-! ### layout access -/

def St.seriesList (st : St) : List Nat :=
  let all := st.mem.map (·.1) ++ (st.files.flatMap (fun f => f.chunks.map (·.1)))
  (all.foldl (fun acc s => if acc.contains s then acc else acc ++ [s]) []).mergeSort (· ≤ ·)

/-- files in read precedence: out-of-order files newest first, then ordered files newest first. -/
def St.filesByPrecedence (st : St) : List FileL :=
  let ooo := (st.files.filter (!·.ordered)).mergeSort (fun a b => a.seq ≥ b.seq)
  let ord := (st.files.filter (·.ordered)).mergeSort (fun a b => a.seq ≥ b.seq)
  ooo ++ ord

/-- the containers of a series as full rows: memtable, then the chunks by precedence. -/
def St.containers (st : St) (s : Nat) : List (List (List FRow)) :=
  let mem : List FRow := (st.mem.filter (·.1 == s)).map (·.2)
  let chunks := st.filesByPrecedence.flatMap (fun f => (f.chunks.filter (·.1 == s)).map (·.2))
  [mem] :: chunks

def St.seriesData (st : St) (s c : Nat) : SeriesData :=
  match st.containers s with
  | mem :: chunks => ⟨colType c, mem.flatten.map (·.col c), chunks.map (fun ch => ch.map (fun seg => seg.map (·.col c)))⟩
  | [] => ⟨colType c, [], []⟩

/-- field-wise merge of two time-sorted row lists: at equal times the cells of the first list
(the containers of higher precedence) win, its null cells are filled from the second. This is
`insertRow` of the model applied row by row, done in one pass. -/
def mergeF : List FRow → List FRow → List FRow
  | [], ys => ys
  | xs, [] => xs
  | x :: xs, y :: ys =>
    if x.t < y.t then x :: mergeF xs (y :: ys)
    else if y.t < x.t then y :: mergeF (x :: xs) ys
    else ⟨x.t, (x.cs.zip y.cs).map (fun (a, b) => if a.isSome then a else b)⟩ :: mergeF xs ys
termination_by xs ys => xs.length + ys.length

/-- the rows of the plain select for one series: every container restricted to the range and
the field filter (evaluated on the container's own row), then merged field by field. -/
def St.view (st : St) (s : Nat) (lo hi : Int) (f : Option Filter) : List FRow :=
  (st.containers s).foldl (fun acc c =>
    mergeF acc ((c.flatten).filter (fun r => decide (lo ≤ r.t) && decide (r.t ≤ hi) && Filter.pass f r))) []

/-! ### printing -/

def showCell : Option Int → String
  | none => "_"
  | some v => toString v

def showFRow (s : Nat) (r : FRow) : String :=
  toString s ++ ":" ++ toString r.t ++ ":" ++ ",".intercalate (r.cs.map showCell)

def showRat (n : Int) (d : Nat) : String :=
  let g := Nat.gcd n.natAbs d
  if g == 0 then "0/1" else toString (n / (g : Int)) ++ "/" ++ toString (d / g)

structure Call where
  f : String
  col : Nat
deriving Repr

def parseCall (s : String) : Option Call :=
  match s.splitOn ":" with
  | [f, c] =>
    if ["count", "sum", "mean", "min", "max", "first", "last"].contains f then (colIndex c).map (⟨f, ·⟩) else none
  | _ => none

def isSelector (f : String) : Bool := f == "min" || f == "max" || f == "first" || f == "last"

/-- the value of a call out of a statistics record, and the point time of a selector. -/
def callValue (c : Call) (s : Stats) : Option String × Option Int :=
  match c.f with
  | "count" => (if s.count = 0 then none else some (toString s.count), none)
  | "sum" => (if s.count = 0 then none else some (toString s.sum), none)
  | "mean" => (if s.count = 0 then none else some (showRat s.sum s.count), none)
  | "min" => (s.min.map (fun p => toString p.1), s.min.map (·.2))
  | "max" => (s.max.map (fun p => toString p.1), s.max.map (·.2))
  | "first" => (s.first.map (fun p => toString p.2), s.first.map (·.1))
  | "last" => (s.last.map (fun p => toString p.2), s.last.map (·.1))
  | _ => (none, none)

def baseSec : Int := 1700000000

/-- start of the bucket (relative seconds) that holds relative second `t`. -/
def window (w : Int) (t : Int) : Int := bucketStart w (baseSec + t) - baseSec


def groupOf (grp : String) (s : Nat) : String :=
  if grp == "host" then "h" ++ toString s
  else if grp == "zone" then "z" ++ toString (s % 2)
  else "-"

structure Query where
  calls : List Call
  lo : Int
  hi : Int
  exact : Bool
  grp : String
  interval : Nat
  fillNull : Bool
  filter : Option Filter

def Query.shape (q : Query) : QueryShape :=
  { preAggEnabled := true, hasCall := true, hasNonPreCall := false, hasInterval := q.interval > 0,
    ctxFieldCond := q.filter.isSome, schemaFieldCond := q.filter.isSome, isProm := false,
    hint := if q.exact then Hint.ExactStatisticQuery else Hint.DefaultNoHint }

/-- per series and call: the statistics record of one bucket (`none` = no bucketing); `rows` are
the rows of the plain select for the series. -/
def St.seriesStats (st : St) (q : Query) (s : Nat) (rows : List FRow) (c : Call) (bucket : Option Int) : Stats :=
  let rows := match bucket with
    | none => rows
    | some b => rows.filter (fun r => window q.interval r.t == b)
  answer q.shape q.lo q.hi (st.seriesData s c.col) (rows.map (·.col c.col))

/-- two ascending lists share an element. -/
def sharesTime : List Int → List Int → Bool
  | [], _ => false
  | _, [] => false
  | x :: xs, y :: ys =>
    if x < y then sharesTime xs (y :: ys)
    else if y < x then sharesTime (x :: xs) ys
    else true
termination_by xs ys => xs.length + ys.length

def anyPairShares : List (List Int) → Bool
  | [] => false
  | c :: cs => cs.any (sharesTime c) || anyPairShares cs

/-- some series holds a timestamp of the range in two containers (`¬ NoKeyTwiceIn`). -/
def St.keyTwiceIn (st : St) (lo hi : Int) : Bool :=
  st.seriesList.any (fun s =>
    anyPairShares ((st.containers s).map (fun c =>
      ((c.flatten).filter (fun r => decide (lo ≤ r.t) && decide (r.t ≤ hi))).map (·.t))))

def dedupSorted (l : List Int) : List Int :=
  (l.mergeSort (· ≤ ·)).foldr (fun x acc => match acc with
    | y :: _ => if x == y then acc else x :: acc
    | [] => [x]) []

def St.evalAgg (st : St) (q : Query) : String :=
  let series := st.seriesList
  let groups : List String :=
    (series.map (groupOf q.grp)).foldl (fun acc g => if acc.contains g then acc else acc ++ [g]) []
  let groups := groups.mergeSort (· ≤ ·)
  -- the plain select, once per series
  let views : List (Nat × List FRow) := series.map (fun s => (s, st.view s q.lo q.hi q.filter))
  let viewOf := fun (s : Nat) => match views.find? (·.1 == s) with
    | some p => p.2
    | none => []
  let lone := q.calls.length == 1 && q.interval == 0 && (q.calls.all (fun c => isSelector c.f))
  -- excluded case (un-hinted, a key of the range in two containers): the statistics path sees
  -- rows the plain select does not show; the time of a lone min/max is left open
  let twice := matchPreAgg q.shape && st.keyTwiceIn q.lo q.hi
  let openTime := lone && twice && (q.calls.all (fun c => c.f == "min" || c.f == "max"))
  -- … and so is the value of first/last when those rows hold several values at the extreme time
  let staleOpen := twice
  let out := groups.filterMap (fun g =>
    let ss := series.filter (fun s => groupOf q.grp s == g)
    -- buckets that hold a row of the group
    let buckets : List (Option Int) :=
      if q.interval == 0 then [none]
      else
        let bs := dedupSorted (ss.flatMap (fun s => (viewOf s).map (fun r => window q.interval r.t)))
        bs.map some
    let rowsOut := buckets.filterMap (fun b =>
      let vals := q.calls.map (fun c =>
        let v := callValue c (ss.foldl (fun acc s => acc.merge (colType c.col) (st.seriesStats q s (viewOf s) c b)) {})
        -- what InfluxQL leaves open is replaced by a marker, judged on the rows of the plain
        -- select: several values at the extreme time (first/last), the extreme value at
        -- several times (point time of a lone min/max)
        let pts : List (Int × Int) := ss.flatMap (fun s =>
          ((viewOf s).filter (fun r => match b with
            | none => true
            | some x => window q.interval r.t == x)).filterMap (fun r =>
              (r.cs.getD c.col none).map (fun x => (r.t, x))))
        match pts with
        | [] => v
        | p0 :: _ =>
          if c.f == "first" || c.f == "last" then
            let bt : Int := pts.foldl (fun (m : Int) (p : Int × Int) => if c.f == "first" then min m p.1 else max m p.1) p0.1
            let vs := dedupSorted ((pts.filter (fun (p : Int × Int) => p.1 == bt)).map (fun (p : Int × Int) => p.2))
            -- excluded case: the rows of all containers (also those the plain select hides)
            let stale : Bool :=
              if staleOpen then
                let all : List (Int × Int) := ss.flatMap (fun s => (st.containers s).flatMap (fun (cont : List (List FRow)) =>
                  (cont.flatten.filter (fun (r : FRow) => decide (q.lo ≤ r.t) && decide (r.t ≤ q.hi))).filterMap (fun (r : FRow) =>
                    (r.cs.getD c.col none).map (fun x => (r.t, x)))))
                match all with
                | [] => false
                | a0 :: _ =>
                  let aT : Int := all.foldl (fun (m : Int) (p : Int × Int) => if c.f == "first" then min m p.1 else max m p.1) a0.1
                  (dedupSorted ((all.filter (fun (p : Int × Int) => p.1 == aT)).map (fun (p : Int × Int) => p.2))).length > 1
              else false
            if (vs.length > 1 || stale) && v.1.isSome then (some "~", v.2) else v
          else if (c.f == "min" || c.f == "max") && lone then
            let best : Int := pts.foldl (fun (m : Int) (p : Int × Int) => if c.f == "min" then min m p.2 else max m p.2) p0.2
            let ts := dedupSorted ((pts.filter (fun (p : Int × Int) => p.2 == best)).map (fun (p : Int × Int) => p.1))
            if ts.length > 1 && v.1.isSome then (v.1, none) else v
          else v)
      if vals.all (fun v => v.1.isNone) then none
      else
        let bt := match b with | some x => toString x | none => "-"
        let atT := if lone then match vals.head? with
          | some (some _, some t) => if openTime then "@~" else "@" ++ toString t
          | some (none, some t) => "@" ++ toString t
          | some (some _, none) => "@~"
          | _ => "" else ""
        let cells := (q.calls.zip vals).map (fun (c, v) =>
          match v.1 with
          | some x => x
          | none => if c.f == "count" && q.interval > 0 && q.fillNull then "0" else "_")
        some (b, bt ++ "=" ++ ",".intercalate cells ++ atT))
    if rowsOut.isEmpty then none
    else
      -- fill(null): every bucket of the range is reported once the group has a result
      let rowsOut :=
        if q.interval > 0 && q.fillNull then
          let w : Int := q.interval
          let first := window w q.lo
          let n := ((window w q.hi - first) / w).toNat + 1
          (List.range n).map (fun (i : Nat) =>
            let b : Int := first + w * Int.ofNat i
            match rowsOut.find? (fun r => r.1 == some b) with
            | some r => r.2
            | none => toString b ++ "=" ++ ",".intercalate (q.calls.map (fun c => if c.f == "count" then "0" else "_")))
        else rowsOut.map (·.2)
      some (g ++ "{" ++ ";".intercalate rowsOut ++ "}"))
  if out.isEmpty then "ans" else "ans " ++ " ".intercalate out

def St.evalRaw (st : St) (lo hi : Int) (f : Option Filter) : String :=
  let cells := st.seriesList.flatMap (fun s =>
    ((st.view s lo hi f).filter (fun r => r.cs.any (·.isSome))).map (showFRow s))
  "rows " ++ "|".intercalate cells

def St.evalStat (st : St) (fi s : Nat) (col : String) : String :=
  match st.files[fi]? with
  | none => "bad-op"
  | some f =>
    match f.chunks.find? (·.1 == s) with
    | none => "bad-op"
    | some (_, ch) =>
      if col == "time" then "st " ++ toString (ch.flatten.length)
      else
        match colIndex col with
        | none => "bad-op"
        | some c =>
          let s := storedStats (ch.map (fun seg => seg.map (·.col c)))
          if col == "fi" || col == "ff" then
            match s.min, s.max with
            | some (mn, mnT), some (mx, mxT) =>
              s!"st {s.count} {s.sum} {mn} {mnT} {mx} {mxT}"
            | _, _ => s!"st {s.count} - - - - -"
          else if col == "fb" then
            match s.min, s.max with
            | some (mn, mnT), some (mx, mxT) => s!"st {s.count} {mn} {mnT} {mx} {mxT}"
            | _, _ => s!"st {s.count} - - - -"
          else s!"st {s.count}"

def parseQuery (f : List String) : Option Query :=
  match f with
  | [calls, lo, hi, hint, grp, interval, fill, _dir, filter] => do
    let calls ← (calls.splitOn "+").mapM parseCall
    let lo ← lo.toInt?
    let hi ← hi.toInt?
    let interval ← interval.toNat?
    let filter ← parseFilter filter
    if hint != "nohint" && hint != "exact" then none
    if !["-", "host", "zone"].contains grp then none
    some ⟨calls, lo, hi, hint == "exact", grp, interval, fill == "null", filter⟩
  | _ => none

def step (st : St) (line : String) : St × String :=
  let ws := (line.trimAscii.toString.splitOn " ").filter (· ≠ "")
  match ws with
  | ["open", _, seg] =>
    match seg.toNat? with
    | some n => ({ seg := n }, "ok")
    | none => (st, "bad-op")
  | ["mem"] => ({ st with mem := [], files := [] }, "ok")
  | ["mem", rows] =>
    -- a layout starts with its memtable rows
    match (rows.splitOn ";").mapM parseMemRow with
    | some rs => ({ st with mem := rs, files := [] }, "ok")
    | none => (st, "bad-op")
  | ["file", kind, seq] =>
    match seq.toNat? with
    | some n =>
      if kind == "ord" || kind == "ooo" then
        ({ st with files := st.files ++ [⟨kind == "ord", n, []⟩] }, "ok")
      else (st, "bad-op")
    | none => (st, "bad-op")
  | ["chunk", s, segs] =>
    match s.toNat?, (segs.splitOn "|").mapM (fun sg => (sg.splitOn ";").mapM parseFRow) with
    | some s, some sg =>
      match st.files.reverse with
      | last :: rest =>
        ({ st with files := (({ last with chunks := last.chunks ++ [(s, sg)] }) :: rest).reverse }, "ok")
      | [] => (st, "bad-op")
    | _, _ => (st, "bad-op")
  | ["endlayout"] => (st, "ok")
  | ["stat", fi, s, col] =>
    match fi.toNat?, s.toNat? with
    | some fi, some s => (st, st.evalStat fi s col)
    | _, _ => (st, "bad-op")
  | ["raw", lo, hi, filter] =>
    match lo.toInt?, hi.toInt?, parseFilter filter with
    | some lo, some hi, some f => (st, st.evalRaw lo hi f)
    | _, _, _ => (st, "bad-op")
  | "auxq" :: _ =>
    -- a lone selector with auxiliary columns: not modelled (the harness compares the answer
    -- with the rows only)
    (st, "ok")
  | "agg" :: rest =>
    match parseQuery rest with
    | some q => (st, st.evalAgg q)
    | none => (st, "bad-op")
  | _ => (st, "bad-op")

partial def loop (h : IO.FS.Stream) (out : IO.FS.Stream) (st : St) : IO Unit := do
  let line ← h.getLine
  if line.isEmpty then return ()
  let (st', o) := step st line
  out.putStrLn o
  loop h out st'

def main : IO Unit := do
  loop (← IO.getStdin) (← IO.getStdout) {}

end OG.C09
