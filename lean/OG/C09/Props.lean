/-
C09 — property theorems: aggregates served from stored statistics equal aggregates over the
rows.  Helper lemmas are in `OG.C09.Lemmas` / `OG.C09.Meaning`.
-/
import OG.C09.Lemmas
import OG.C09.Meaning

namespace OG.C09

variable (ty : ColType)

instance (c : Chunk) : Decidable (Chunk.WF c) := by unfold Chunk.WF; infer_instance
instance (d : SeriesData) : Decidable (d.WF) := by unfold SeriesData.WF; infer_instance

/-! ## 1. the statistics record is a homomorphism -/

/-- **scan order** (`addValues` over the rows of a segment, the row scans of the readers, the
reducers): the record of a concatenation is the in-order combination of the records — count,
sum, min+time, max+time (the earlier row stays on equal values), first, last; null cells
contribute nothing. -/
theorem stats_homomorphism (a b : List Row) :
    buildStats (a ++ b) = (buildStats a).seq (buildStats b) := buildStats_append a b

/-- ⊕ₒ is a monoid. -/
theorem seq_monoid : (∀ a : Stats, Stats.seq {} a = a) ∧ (∀ a : Stats, a.seq {} = a) ∧
    ∀ a b c : Stats, (a.seq b).seq c = a.seq (b.seq c) :=
  ⟨Stats.seq_empty_left, Stats.seq_empty_right, Stats.seq_assoc⟩

/-- ⊕ (`AggregateData`: `countMeta`, `sumMeta`, `minMeta`, `maxMeta`, `firstMeta`, `lastMeta`
with their tie-breaking on equal values / times) is a commutative monoid: the answer does not
depend on the order in which containers, files or series are combined. -/
theorem merge_comm_monoid : (∀ a : Stats, Stats.merge ty {} a = a) ∧ (∀ a : Stats, a.merge ty {} = a) ∧
    (∀ a b c : Stats, (a.merge ty b).merge ty c = a.merge ty (b.merge ty c)) ∧ ∀ a b : Stats, a.merge ty b = b.merge ty a :=
  ⟨Stats.merge_empty_left ty, Stats.merge_empty_right ty, Stats.merge_assoc ty, Stats.merge_comm ty⟩

/-- **any interleaving** (merge of out-of-order files, compaction): when the time-sorted rows
`m` are a rearrangement of the rows of two sorted containers, the statistics rebuilt from `m`
are the record merge of the two containers' statistics. -/
theorem stats_homomorphism_merge {a b m : List Row} (ha : StrictAsc a) (hb : StrictAsc b)
    (hm : StrictAsc m) (hp : m.Perm (a ++ b)) :
    buildStats m = (buildStats a).merge ty (buildStats b) := by
  rw [buildStats_eq_mergeOf ty hm, buildStats_eq_mergeOf ty ha, buildStats_eq_mergeOf ty hb, mergeOf_perm ty hp, mergeOf_append]

example : buildStats ([⟨1, some 5⟩, ⟨2, none⟩, ⟨3, some 2⟩] ++ [⟨4, some 2⟩, ⟨6, some 9⟩])
    = { count := 4, sum := 18, min := some (2, 3), max := some (9, 6), first := some (1, 5), last := some (6, 9) } := by
  decide
example : buildStats [⟨0, some 2⟩, ⟨1, some 5⟩, ⟨3, some 2⟩, ⟨4, some 5⟩]
    = (buildStats [⟨1, some 5⟩, ⟨3, some 2⟩]).merge ty (buildStats [⟨0, some 2⟩, ⟨4, some 5⟩]) :=
  stats_homomorphism_merge ty (by decide) (by decide) (by decide) (by decide)

/-! ## 2. one chunk, every range -/

/-- what `readSegmentMetaRecord` answers for one chunk and any time range — the stored
statistics when `allRowsInRange`, scans of the overlapping segments otherwise, first / last
through the `FirstLastReader` shortcuts — is the statistics record of exactly the rows of the
chunk that lie in the range. -/
theorem chunkStats_eq_rows {c : Chunk} (h : Chunk.WF c) (ty : ColType) (lo hi : Int) :
    chunkStats ty lo hi c = buildStats (c.flatten.filter (inRange lo hi)) := chunkStats_eq h ty lo hi

def exChunk : Chunk := [[⟨1, some 5⟩, ⟨2, none⟩, ⟨3, some 2⟩], [⟨4, some 2⟩, ⟨6, some 9⟩], [⟨7, none⟩, ⟨9, some 1⟩]]
example : Chunk.WF exChunk := by decide
-- range ends inside segments, on their edges, outside the chunk, empty range
example : (chunkStats .int 2 8 exChunk).count = 3 ∧ (chunkStats .int 2 8 exChunk).first = some (3, 2) := by decide
example : chunkStats .float 1 9 exChunk = storedStats exChunk := by decide
example : chunkStats .bool 4 6 exChunk = buildStats [⟨4, some 2⟩, ⟨6, some 9⟩] := by decide
example : chunkStats .string 10 20 exChunk = {} ∧ chunkStats .int 5 4 exChunk = {} := by decide

/-! ## 3. one series: memtable + ordered + out-of-order files -/

/-- **the statistics path equals the rows**, for every layout and every time range such that no
timestamp of the range is held by two containers of the series. -/
theorem aggViaStats_eq_aggRows_partial {d : SeriesData} (hw : d.WF) {lo hi : Int}
    (hk : NoKeyTwiceIn lo hi d) : aggViaStats lo hi d = aggRows lo hi d := by
  rw [aggViaStats_eq_mergeOf hw, aggRows_eq_mergeOf hw hk]

/-- in particular for every range when no timestamp at all is held by two containers (no
(series, timestamp) written in two flush generations, or the generations compacted since). -/
theorem aggViaStats_eq_aggRows_noKeyTwice {d : SeriesData} (hw : d.WF) (hk : NoKeyTwice d) (lo hi : Int) :
    aggViaStats lo hi d = aggRows lo hi d := aggViaStats_eq_aggRows_partial hw (hk.restrict lo hi)

/-- what the un-hinted path computes for *any* layout: the record of the rows of all containers
in the range taken together, timestamps held by several containers counted once per container —
the documented trade-off, stated exactly. -/
theorem aggViaStats_is_concat {d : SeriesData} (hw : d.WF) (lo hi : Int) :
    aggViaStats lo hi d = mergeOf d.ty (((containers d).map (fun c => c.filter (inRange lo hi))).flatten) ∧
    (aggViaStats lo hi d).count =
      (points (((containers d).map (fun c => c.filter (inRange lo hi))).flatten)).length := by
  refine ⟨aggViaStats_eq_mergeOf hw lo hi, ?_⟩
  rw [aggViaStats_eq_mergeOf hw lo hi, mergeOf_count]

/-- the un-guarded statement … -/
def aggViaStats_eq_aggRows_full : Prop :=
  ∀ d : SeriesData, d.WF → ∀ lo hi : Int, aggViaStats lo hi d = aggRows lo hi d

/-- a timestamp rewritten after its flush: the memtable and a file both hold t = 1. -/
def crossGen : SeriesData := ⟨.int, [⟨1, some 5⟩, ⟨2, some 1⟩], [[[⟨0, some 7⟩, ⟨1, some 3⟩]]]⟩

/-- … does not hold: the documented trade-off of the un-hinted path (the key written in two
flush generations is counted twice: count 4 for 3 rows, sum 16 for 13). -/
theorem aggViaStats_eq_aggRows_full_fails : ¬ aggViaStats_eq_aggRows_full := by
  intro h
  have := h crossGen (by decide) 0 9
  revert this; decide

example : (aggViaStats 0 9 crossGen).count = 4 ∧ (aggRows 0 9 crossGen).count = 3 ∧
    (aggViaStats 0 9 crossGen).sum = 16 ∧ (aggRows 0 9 crossGen).sum = 13 := by decide
example : ¬ NoKeyTwice crossGen := by decide
-- the duplicate key is outside the range: the paths agree although the layout has one
example : NoKeyTwiceIn 2 9 crossGen ∧ aggViaStats 2 9 crossGen = aggRows 2 9 crossGen := by decide

/-- the caveat exactly as the property words it: the two paths can differ only when some
timestamp of the series sits in two containers. -/
theorem double_count_only_cross_generation {d : SeriesData} (hw : d.WF) {lo hi : Int}
    (h : aggViaStats lo hi d ≠ aggRows lo hi d) : ¬ NoKeyTwiceIn lo hi d ∧ ¬ NoKeyTwice d :=
  ⟨fun hk => h (aggViaStats_eq_aggRows_partial hw hk), fun hk => h (aggViaStats_eq_aggRows_noKeyTwice hw hk lo hi)⟩

def exData : SeriesData :=
  ⟨.float, [⟨10, some 1⟩, ⟨11, none⟩, ⟨12, some 1⟩], [[[⟨0, some 4⟩, ⟨5, some 2⟩]], exChunk]⟩
example : exData.WF ∧ NoKeyTwice exData := by decide
example : aggViaStats 2 10 exData = aggRows 2 10 exData ∧ (aggRows 2 10 exData).count = 6 ∧
    (aggRows 2 10 exData).min = some (1, 9) := by decide

/-! ## 4. eligibility -/

/-- what the regenerated `matchPreAgg` (the sequence of `if … return false`) lets through. -/
theorem eligible_shape {q : QueryShape} (h : matchPreAgg q = true) :
    q.preAggEnabled = true ∧ q.hasCall = true ∧ q.hasNonPreCall = false ∧ q.hasInterval = false ∧
    q.ctxFieldCond = false ∧ q.schemaFieldCond = false ∧ q.hint ≠ Hint.ExactStatisticQuery ∧ q.isProm = false := by
  rcases q with ⟨a, b, c, d, e, f, g, hint⟩
  cases a <;> cases b <;> cases c <;> cases d <;> cases e <;> cases f <;> cases g <;> cases hint <;>
    simp_all [matchPreAgg]

/-- the store serves statistics exactly when the planner built no per-series plan
(`CreateSeriesPlan` returns nil): the two hand-written copies of the predicate agree as soon
as the cursor context and the schema agree on "there is a field condition". -/
theorem store_and_planner_agree (q : QueryShape) (h : q.ctxFieldCond = q.schemaFieldCond) :
    matchPreAgg q = seriesPlanSkipped q := by
  rcases q with ⟨a, b, c, d, e, f, g, hint⟩
  simp only at h; subst h
  cases a <;> cases b <;> cases c <;> cases d <;> cases e <;> cases g <;> cases hint <;>
    simp [matchPreAgg, seriesPlanSkipped, schemaMatchPreAgg]

/-- **the property**: the answer of the store is the function applied to the rows of the plain
select — whenever the exact-statistics hint is given or a field filter or a time bucket is
present, and without them for every layout in which no timestamp sits in two containers.
(`selected` = the rows of the column the plain select returns for the same filter, range and
bucket; an eligible query has neither filter nor bucket, so they are `viewRows`.) -/
theorem eligible_implies_safe (q : QueryShape) {d : SeriesData} (hw : d.WF) (lo hi : Int)
    (selected : List Row) (hsel : matchPreAgg q = true → selected = viewRows lo hi d)
    (h : q.hint = Hint.ExactStatisticQuery ∨ q.hasInterval = true ∨ q.ctxFieldCond = true ∨
         q.schemaFieldCond = true ∨ NoKeyTwiceIn lo hi d) :
    answer q lo hi d selected = buildStats selected := by
  unfold answer
  split
  · rename_i he
    have hs := eligible_shape he
    rcases h with h | h | h | h | h
    · exact absurd h hs.2.2.2.2.2.2.1
    · rw [hs.2.2.2.1] at h; cases h
    · rw [hs.2.2.2.2.1] at h; cases h
    · rw [hs.2.2.2.2.2.1] at h; cases h
    · rw [hsel he]; exact aggViaStats_eq_aggRows_partial hw h
  · rfl

/-- whenever the eligibility predicate fires and no key spans two containers: shortcut = rows. -/
theorem eligible_implies_safe_partial {q : QueryShape} (_he : matchPreAgg q = true) {d : SeriesData}
    (hw : d.WF) (hk : NoKeyTwice d) (lo hi : Int) :
    answer q lo hi d (viewRows lo hi d) = aggRows lo hi d :=
  eligible_implies_safe q hw lo hi _ (fun _ => rfl) (Or.inr (Or.inr (Or.inr (Or.inr (hk.restrict lo hi)))))

def exEligible : QueryShape :=
  { preAggEnabled := true, hasCall := true, hasNonPreCall := false, hasInterval := false,
    ctxFieldCond := false, schemaFieldCond := false, isProm := false, hint := Hint.DefaultNoHint }
example : matchPreAgg exEligible = true := by decide
example : matchPreAgg { exEligible with hint := Hint.ExactStatisticQuery } = false := by decide
example : matchPreAgg { exEligible with hasInterval := true } = false := by decide
example : matchPreAgg { exEligible with ctxFieldCond := true } = false := by decide
-- the hint makes the cross-generation layout safe, the un-hinted query is not
example : answer { exEligible with hint := Hint.ExactStatisticQuery } 0 9 crossGen (viewRows 0 9 crossGen)
    = aggRows 0 9 crossGen := by decide
example : answer exEligible 0 9 crossGen (viewRows 0 9 crossGen) ≠ aggRows 0 9 crossGen := by decide

/-! ## 4b. time buckets and descending scans (the row path) -/

/-- `GROUP BY time(w)`: every time lies in exactly one bucket, buckets are aligned to the epoch. -/
theorem bucket_alignment (w t : Int) (hw : 0 < w) :
    bucketStart w t ≤ t ∧ t < bucketStart w t + w ∧ bucketStart w t % w = 0 ∧
    ∀ b : Int, b % w = 0 → b ≤ t → t < b + w → b = bucketStart w t := by
  refine ⟨bucketStart_le w t hw, lt_bucketStart_add w t hw, bucketStart_aligned w t, ?_⟩
  intro b hb h1 h2
  have h0 := bucketStart_aligned w t
  have hl := bucketStart_le w t hw
  have hu := lt_bucketStart_add w t hw
  generalize bucketStart w t = b0 at *
  by_cases hge : b0 ≤ b
  · have hx : (b - b0) % w = 0 := by rw [Int.sub_emod, hb, h0]; simp
    rw [Int.emod_eq_of_lt (by omega) (by omega)] at hx; omega
  · have hx : (b0 - b) % w = 0 := by rw [Int.sub_emod, hb, h0]; simp
    rw [Int.emod_eq_of_lt (by omega) (by omega)] at hx; omega

example : bucketStart 30 1700000047 = 1700000040 ∧ bucketStart 7 (-3) = -7 := by decide

/-- `ORDER BY time DESC`: scanning the rows newest first and exchanging first / last at the end
answers the same count, sum, first, last and the same extreme *values* as the ascending scan
(the time reported for an extreme value that occurs several times is the one scanned first:
it is the only thing that depends on the direction). -/
theorem desc_scan_agrees (l : List Row) :
    (buildStatsDesc l).count = (buildStats l).count ∧ (buildStatsDesc l).sum = (buildStats l).sum ∧
    (buildStatsDesc l).first = (buildStats l).first ∧ (buildStatsDesc l).last = (buildStats l).last ∧
    (buildStatsDesc l).min.map (·.1) = (buildStats l).min.map (·.1) ∧
    (buildStatsDesc l).max.map (·.1) = (buildStats l).max.map (·.1) := by
  have hp : mergeOf .int l.reverse = mergeOf .int l := mergeOf_perm .int (List.reverse_perm l)
  have hc := buildStats_count_sum .int l.reverse
  have hc' := buildStats_count_sum .int l
  have hv := buildStats_extreme_values .int l.reverse
  have hv' := buildStats_extreme_values .int l
  simp only [buildStatsDesc]
  refine ⟨?_, ?_, buildStats_reverse_last l, buildStats_reverse_first l, ?_, ?_⟩
  · rw [hc.1, hp, hc'.1]
  · rw [hc.2, hp, hc'.2]
  · rw [hv.1, hp, hv'.1]
  · rw [hv.2, hp, hv'.2]

example : (buildStats [⟨1, some 2⟩, ⟨2, some 2⟩]).min = some (2, 1) ∧
    (buildStatsDesc [⟨1, some 2⟩, ⟨2, some 2⟩]).min = some (2, 2) := by decide

/-! ## 5. what the answer means -/

/-- the row-level answer of one series is count / sum / extreme points of the rows of the
plain select (stated for any order of rows, hence also for a group of series). -/
theorem stats_meaning (l : List Row) :
    (mergeOf ty l).count = (points l).length ∧ (mergeOf ty l).sum = ((points l).map (·.2)).sum ∧
    SelSpec RMin keyVT l (mergeOf ty l).min ∧ SelSpec RMax keyVT l (mergeOf ty l).max ∧
    SelSpec (RFirst ty) keyTV l (mergeOf ty l).first ∧ SelSpec RLast keyTV l (mergeOf ty l).last :=
  ⟨mergeOf_count ty l, mergeOf_sum ty l, mergeOf_min_spec ty l, mergeOf_max_spec ty l, mergeOf_first_spec ty l, mergeOf_last_spec ty l⟩

/-- the rows of the plain select are sorted by time, so the scan-order record is that record. -/
theorem aggRows_meaning {d : SeriesData} (hw : d.WF) {lo hi : Int} (hk : NoKeyTwiceIn lo hi d) :
    aggRows lo hi d = mergeOf d.ty (((containers d).map (fun c => c.filter (inRange lo hi))).flatten) :=
  aggRows_eq_mergeOf hw hk

/-- a group of series (GROUP BY tag, or none): merging the per-series answers is the record of
all the rows of the group. -/
theorem group_answer (series : List (List Row)) :
    (series.map (mergeOf ty)).foldl (Stats.merge ty) {} = mergeOf ty series.flatten := (mergeOf_flatten ty series).symm

/-- **a group of series** (GROUP BY tag, or the whole measurement): merging the per-series
answers of the store equals the record of all the rows the plain select returns for the group,
under the same condition as for one series, required of every series of the group. -/
theorem group_answer_eq_rows (q : QueryShape) (lo hi : Int) (ps : List (SeriesData × List Row))
    (h : ∀ p ∈ ps, p.1.WF ∧ StrictAsc p.2 ∧ (matchPreAgg q = true → p.2 = viewRows lo hi p.1) ∧
      (q.hint = Hint.ExactStatisticQuery ∨ q.hasInterval = true ∨ q.ctxFieldCond = true ∨
        q.schemaFieldCond = true ∨ NoKeyTwiceIn lo hi p.1)) :
    (ps.map (fun p => answer q lo hi p.1 p.2)).foldl (Stats.merge ty) {} =
      mergeOf ty (ps.map (·.2)).flatten := by
  rw [mergeOf_flatten, List.map_map]
  congr 1
  apply List.map_congr_left
  intro p hp
  obtain ⟨hw, hs, hsel, hc⟩ := h p hp
  simp only [Function.comp]
  rw [eligible_implies_safe q hw lo hi p.2 hsel hc, buildStats_eq_mergeOf ty hs]

example : (([(crossGen, viewRows 2 9 crossGen), (exData, viewRows 2 9 exData)] : List (SeriesData × List Row)).map
    (fun p => answer exEligible 2 9 p.1 p.2)).foldl (Stats.merge .int) {}
    = mergeOf .int (viewRows 2 9 crossGen ++ viewRows 2 9 exData) := by decide

end OG.C09
