/-
C09 — helper lemmas (core Lean only): the algebra of the two combinations of statistics
records, sorted row lists, one chunk, one series.  The property theorems are in
`OG.C09.Props`.
-/
import OG.C09.Model

namespace OG.C09

variable (ty : ColType)

/-! ## algebra of the two combinations -/

theorem optComb_none_left {α} (f : α → α → α) (b : Option α) : optComb f none b = b := by
  cases b <;> rfl
theorem optComb_none_right {α} (f : α → α → α) (a : Option α) : optComb f a none = a := by
  cases a <;> rfl
theorem optComb_assoc {α} {f : α → α → α} (h : ∀ a b c, f (f a b) c = f a (f b c)) (a b c : Option α) :
    optComb f (optComb f a b) c = optComb f a (optComb f b c) := by
  cases a <;> cases b <;> cases c <;> simp [optComb, h]
theorem optComb_comm {α} {f : α → α → α} (h : ∀ a b, f a b = f b a) (a b : Option α) :
    optComb f a b = optComb f b a := by
  cases a <;> cases b <;> simp [optComb, h]

theorem seqMin_assoc (a b c : Int × Int) : seqMin (seqMin a b) c = seqMin a (seqMin b c) := by
  unfold seqMin; grind
theorem seqMax_assoc (a b c : Int × Int) : seqMax (seqMax a b) c = seqMax a (seqMax b c) := by
  unfold seqMax; grind
theorem keepLeft_assoc (a b c : Int × Int) : keepLeft (keepLeft a b) c = keepLeft a (keepLeft b c) := rfl
theorem keepRight_assoc (a b c : Int × Int) : keepRight (keepRight a b) c = keepRight a (keepRight b c) := rfl

theorem pickMin_assoc (a b c : Int × Int) : pickMin (pickMin a b) c = pickMin a (pickMin b c) := by
  unfold pickMin; grind
theorem pickMax_assoc (a b c : Int × Int) : pickMax (pickMax a b) c = pickMax a (pickMax b c) := by
  unfold pickMax; grind
theorem pickFirst_assoc (a b c : Int × Int) : pickFirst ty (pickFirst ty a b) c = pickFirst ty a (pickFirst ty b c) := by
  unfold pickFirst; grind
theorem pickLast_assoc (a b c : Int × Int) : pickLast (pickLast a b) c = pickLast a (pickLast b c) := by
  unfold pickLast; grind
theorem pickMin_comm (a b : Int × Int) : pickMin a b = pickMin b a := by
  unfold pickMin; grind
theorem pickMax_comm (a b : Int × Int) : pickMax a b = pickMax b a := by
  unfold pickMax; grind
theorem pickFirst_comm (a b : Int × Int) : pickFirst ty a b = pickFirst ty b a := by
  unfold pickFirst; grind
theorem pickLast_comm (a b : Int × Int) : pickLast a b = pickLast b a := by
  unfold pickLast; grind

theorem Stats.ext' {a b : Stats} (h1 : a.count = b.count) (h2 : a.sum = b.sum) (h3 : a.min = b.min)
    (h4 : a.max = b.max) (h5 : a.first = b.first) (h6 : a.last = b.last) : a = b := by
  cases a; cases b; simp_all

@[simp] theorem Stats.seq_empty_left (b : Stats) : Stats.seq {} b = b := by
  apply Stats.ext' <;> simp [Stats.seq, optComb_none_left]
@[simp] theorem Stats.seq_empty_right (a : Stats) : Stats.seq a {} = a := by
  apply Stats.ext' <;> simp [Stats.seq, optComb_none_right]
theorem Stats.seq_assoc (a b c : Stats) : (a.seq b).seq c = a.seq (b.seq c) := by
  apply Stats.ext' <;> simp only [Stats.seq]
  · omega
  · exact Int.add_assoc _ _ _
  · exact optComb_assoc seqMin_assoc _ _ _
  · exact optComb_assoc seqMax_assoc _ _ _
  · exact optComb_assoc keepLeft_assoc _ _ _
  · exact optComb_assoc keepRight_assoc _ _ _

@[simp] theorem Stats.merge_empty_left (b : Stats) : Stats.merge ty {} b = b := by
  apply Stats.ext' <;> simp [Stats.merge, optComb_none_left]
@[simp] theorem Stats.merge_empty_right (a : Stats) : Stats.merge ty a {} = a := by
  apply Stats.ext' <;> simp [Stats.merge, optComb_none_right]
theorem Stats.merge_assoc (a b c : Stats) : (a.merge ty b).merge ty c = a.merge ty (b.merge ty c) := by
  apply Stats.ext' <;> simp only [Stats.merge]
  · omega
  · exact Int.add_assoc _ _ _
  · exact optComb_assoc pickMin_assoc _ _ _
  · exact optComb_assoc pickMax_assoc _ _ _
  · exact optComb_assoc (pickFirst_assoc ty) _ _ _
  · exact optComb_assoc pickLast_assoc _ _ _
theorem Stats.merge_comm (a b : Stats) : a.merge ty b = b.merge ty a := by
  apply Stats.ext' <;> simp only [Stats.merge]
  · omega
  · exact Int.add_comm _ _
  · exact optComb_comm pickMin_comm _ _
  · exact optComb_comm pickMax_comm _ _
  · exact optComb_comm (pickFirst_comm ty) _ _
  · exact optComb_comm pickLast_comm _ _

/-! ## folds -/

theorem foldl_seq_init (s : Stats) (l : List Stats) :
    l.foldl Stats.seq s = s.seq (l.foldl Stats.seq {}) := by
  induction l generalizing s with
  | nil => simp
  | cons x xs ih => simp only [List.foldl_cons, Stats.seq_empty_left]; rw [ih (s.seq x), ih x, Stats.seq_assoc]

theorem foldl_merge_init (s : Stats) (l : List Stats) :
    l.foldl (Stats.merge ty) s = s.merge ty (l.foldl (Stats.merge ty) {}) := by
  induction l generalizing s with
  | nil => simp
  | cons x xs ih => simp only [List.foldl_cons, Stats.merge_empty_left]; rw [ih (s.merge ty x), ih x, Stats.merge_assoc]

theorem buildStats_eq_foldl_map (rows : List Row) :
    buildStats rows = (rows.map Stats.single).foldl Stats.seq {} := by
  simp [buildStats, List.foldl_map]

@[simp] theorem buildStats_nil : buildStats [] = {} := rfl
@[simp] theorem buildStats_singleton (r : Row) : buildStats [r] = Stats.single r := by
  simp [buildStats]

/-- **the statistics record is a monoid homomorphism (scan order)**. -/
theorem buildStats_append (a b : List Row) :
    buildStats (a ++ b) = (buildStats a).seq (buildStats b) := by
  simp only [buildStats_eq_foldl_map, List.map_append, List.foldl_append]
  rw [foldl_seq_init]

theorem buildStats_cons (r : Row) (l : List Row) :
    buildStats (r :: l) = (Stats.single r).seq (buildStats l) := by
  have := buildStats_append [r] l
  simpa using this

/-- the statistics of rows taken in any order, combined with the record-level merge. -/
def mergeOf (ty : ColType) (rows : List Row) : Stats := (rows.map Stats.single).foldl (Stats.merge ty) {}

@[simp] theorem mergeOf_nil : mergeOf ty [] = {} := rfl
theorem mergeOf_append (a b : List Row) : mergeOf ty (a ++ b) = (mergeOf ty a).merge ty (mergeOf ty b) := by
  simp only [mergeOf, List.map_append, List.foldl_append]
  rw [foldl_merge_init]
theorem mergeOf_cons (r : Row) (l : List Row) : mergeOf ty (r :: l) = (Stats.single r).merge ty (mergeOf ty l) := by
  have := mergeOf_append ty [r] l
  simpa [mergeOf] using this

theorem mergeOf_perm {a b : List Row} (h : a.Perm b) : mergeOf ty a = mergeOf ty b := by
  unfold mergeOf
  apply List.Perm.foldl_eq' (h.map _)
  intro x _ y _ z
  rw [Stats.merge_assoc, Stats.merge_comm ty x y, ← Stats.merge_assoc]

/-- strictly ascending in time (what every container of one series is). -/
def StrictAsc (l : List Row) : Prop := l.Pairwise (fun a b => a.t < b.t)

instance (l : List Row) : Decidable (StrictAsc l) := by unfold StrictAsc; infer_instance

/-! ### where the points of a record come from -/

theorem single_min (r : Row) (p : Int × Int) (h : (Stats.single r).min = some p) : r = ⟨p.2, some p.1⟩ := by
  rcases r with ⟨t, v⟩; cases v <;> simp [Stats.single] at h; subst h; rfl
theorem single_max (r : Row) (p : Int × Int) (h : (Stats.single r).max = some p) : r = ⟨p.2, some p.1⟩ := by
  rcases r with ⟨t, v⟩; cases v <;> simp [Stats.single] at h; subst h; rfl
theorem single_first (r : Row) (p : Int × Int) (h : (Stats.single r).first = some p) : r = ⟨p.1, some p.2⟩ := by
  rcases r with ⟨t, v⟩; cases v <;> simp [Stats.single] at h; subst h; rfl
theorem single_last (r : Row) (p : Int × Int) (h : (Stats.single r).last = some p) : r = ⟨p.1, some p.2⟩ := by
  rcases r with ⟨t, v⟩; cases v <;> simp [Stats.single] at h; subst h; rfl

theorem optComb_choice {α} {f : α → α → α} (hf : ∀ a b, f a b = a ∨ f a b = b) {a b : Option α} {p : α}
    (h : optComb f a b = some p) : a = some p ∨ b = some p := by
  cases a <;> cases b <;> simp [optComb] at h ⊢
  · exact h
  · exact h
  · rename_i x y; rcases hf x y with e | e <;> rw [e] at h <;> simp [h]

theorem seqMin_choice (a b : Int × Int) : seqMin a b = a ∨ seqMin a b = b := by unfold seqMin; split <;> simp
theorem seqMax_choice (a b : Int × Int) : seqMax a b = a ∨ seqMax a b = b := by unfold seqMax; split <;> simp
theorem keepLeft_choice (a b : Int × Int) : keepLeft a b = a ∨ keepLeft a b = b := Or.inl rfl
theorem keepRight_choice (a b : Int × Int) : keepRight a b = a ∨ keepRight a b = b := Or.inr rfl

theorem buildStats_min_mem {l : List Row} {p : Int × Int} (h : (buildStats l).min = some p) :
    (⟨p.2, some p.1⟩ : Row) ∈ l := by
  induction l with
  | nil => simp at h
  | cons r l ih =>
    rw [buildStats_cons] at h
    rcases optComb_choice seqMin_choice h with e | e
    · rw [← single_min r p e]; exact List.mem_cons_self
    · exact List.mem_cons_of_mem _ (ih e)
theorem buildStats_max_mem {l : List Row} {p : Int × Int} (h : (buildStats l).max = some p) :
    (⟨p.2, some p.1⟩ : Row) ∈ l := by
  induction l with
  | nil => simp at h
  | cons r l ih =>
    rw [buildStats_cons] at h
    rcases optComb_choice seqMax_choice h with e | e
    · rw [← single_max r p e]; exact List.mem_cons_self
    · exact List.mem_cons_of_mem _ (ih e)
theorem buildStats_first_mem {l : List Row} {p : Int × Int} (h : (buildStats l).first = some p) :
    (⟨p.1, some p.2⟩ : Row) ∈ l := by
  induction l with
  | nil => simp at h
  | cons r l ih =>
    rw [buildStats_cons] at h
    rcases optComb_choice keepLeft_choice h with e | e
    · rw [← single_first r p e]; exact List.mem_cons_self
    · exact List.mem_cons_of_mem _ (ih e)
theorem buildStats_last_mem {l : List Row} {p : Int × Int} (h : (buildStats l).last = some p) :
    (⟨p.1, some p.2⟩ : Row) ∈ l := by
  induction l with
  | nil => simp at h
  | cons r l ih =>
    rw [buildStats_cons] at h
    rcases optComb_choice keepRight_choice h with e | e
    · rw [← single_last r p e]; exact List.mem_cons_self
    · exact List.mem_cons_of_mem _ (ih e)

/-! ### scan order = record merge when the second operand is later in time -/

theorem single_seq_eq_merge (r : Row) (s : Stats)
    (hmin : ∀ p, s.min = some p → r.t < p.2) (hmax : ∀ p, s.max = some p → r.t < p.2)
    (hfirst : ∀ p, s.first = some p → r.t < p.1) (hlast : ∀ p, s.last = some p → r.t < p.1) :
    (Stats.single r).seq s = (Stats.single r).merge ty s := by
  rcases r with ⟨t, v⟩
  cases v with
  | none => simp [Stats.single]
  | some v =>
    apply Stats.ext' <;> simp only [Stats.seq, Stats.merge, Stats.single]
    · cases hm : s.min with
      | none => rfl
      | some p => have := hmin p hm; simp only [optComb, seqMin, pickMin]; grind
    · cases hm : s.max with
      | none => rfl
      | some p => have := hmax p hm; simp only [optComb, seqMax, pickMax]; grind
    · cases hm : s.first with
      | none => rfl
      | some p => have := hfirst p hm; simp only [optComb, keepLeft, pickFirst]; grind
    · cases hm : s.last with
      | none => rfl
      | some p => have := hlast p hm; simp only [optComb, keepRight, pickLast]; grind

theorem buildStats_eq_mergeOf {l : List Row} (h : StrictAsc l) : buildStats l = mergeOf ty l := by
  induction l with
  | nil => rfl
  | cons r l ih =>
    have hr : ∀ x ∈ l, r.t < x.t := (List.pairwise_cons.mp h).1
    have hl : StrictAsc l := (List.pairwise_cons.mp h).2
    rw [buildStats_cons, mergeOf_cons, ← ih hl]
    apply single_seq_eq_merge
    · intro p hp; exact hr _ (buildStats_min_mem hp)
    · intro p hp; exact hr _ (buildStats_max_mem hp)
    · intro p hp; exact hr _ (buildStats_first_mem hp)
    · intro p hp; exact hr _ (buildStats_last_mem hp)

/-! ### time-sorted lists: the index search is a filter -/

theorem StrictAsc.tail {r : Row} {l : List Row} (h : StrictAsc (r :: l)) : StrictAsc l :=
  (List.pairwise_cons.mp h).2
theorem StrictAsc.head_lt {r : Row} {l : List Row} (h : StrictAsc (r :: l)) : ∀ x ∈ l, r.t < x.t :=
  (List.pairwise_cons.mp h).1
theorem StrictAsc.filter {l : List Row} (p : Row → Bool) (h : StrictAsc l) : StrictAsc (l.filter p) :=
  List.Pairwise.filter p h
theorem StrictAsc.sublist {l l' : List Row} (hs : l'.Sublist l) (h : StrictAsc l) : StrictAsc l' :=
  List.Pairwise.sublist hs h

theorem StrictAsc.eq_of_t_eq {l : List Row} (h : StrictAsc l) {x y : Row} (hx : x ∈ l) (hy : y ∈ l)
    (e : x.t = y.t) : x = y := by
  induction l with
  | nil => cases hx
  | cons r l ih =>
    have hlt := h.head_lt
    rcases List.mem_cons.mp hx with rfl | hx' <;> rcases List.mem_cons.mp hy with rfl | hy'
    · rfl
    · have := hlt _ hy'; omega
    · have := hlt _ hx'; omega
    · exact ih h.tail hx' hy'

theorem dropWhile_eq_filter {l : List Row} (h : StrictAsc l) (lo : Int) :
    l.dropWhile (fun r => decide (r.t < lo)) = l.filter (fun r => decide (lo ≤ r.t)) := by
  induction l with
  | nil => rfl
  | cons r l ih =>
    by_cases hr : r.t < lo
    · rw [List.dropWhile_cons_of_pos (by simpa using hr), ih h.tail, List.filter_cons_of_neg (by simp; omega)]
    · rw [List.dropWhile_cons_of_neg (by simpa using hr), List.filter_cons_of_pos (by simp; omega)]
      congr 1
      symm; apply List.filter_eq_self.mpr
      intro x hx; have := h.head_lt x hx; simp; omega

theorem takeWhile_eq_filter {l : List Row} (h : StrictAsc l) (hi : Int) :
    l.takeWhile (fun r => decide (r.t ≤ hi)) = l.filter (fun r => decide (r.t ≤ hi)) := by
  induction l with
  | nil => rfl
  | cons r l ih =>
    by_cases hr : r.t ≤ hi
    · rw [List.takeWhile_cons_of_pos (by simpa using hr), List.filter_cons_of_pos (by simpa using hr), ih h.tail]
    · rw [List.takeWhile_cons_of_neg (by simpa using hr), List.filter_cons_of_neg (by simpa using hr)]
      symm; apply List.filter_eq_nil_iff.mpr
      intro x hx; have := h.head_lt x hx; simp; omega

/-- `findRowIdxRange` on a time-sorted segment selects exactly the rows of the range. -/
theorem rowsInRange_eq_filter {s : List Row} (h : StrictAsc s) (lo hi : Int) :
    rowsInRange lo hi s = s.filter (inRange lo hi) := by
  unfold rowsInRange
  rw [dropWhile_eq_filter h, takeWhile_eq_filter (h.filter _), List.filter_filter]
  congr 1; funext r; simp [inRange, Bool.and_comm]

/-! ### the time range of a sorted segment -/

theorem segRange_nil : segRange [] = none := rfl

theorem segRange_eq_some {s : List Row} {a b : Int} (h : segRange s = some (a, b)) :
    (∃ x xs, s = x :: xs ∧ x.t = a) ∧ (∃ y ys, s = ys ++ [y] ∧ y.t = b) := by
  unfold segRange at h
  split at h
  · rename_i x y hx hy
    simp only [Option.some.injEq, Prod.mk.injEq] at h
    obtain ⟨xs, rfl⟩ := List.head?_eq_some_iff.mp hx
    obtain ⟨ys, hys⟩ := List.getLast?_eq_some_iff.mp hy
    exact ⟨⟨x, xs, rfl, h.1⟩, ⟨y, ys, hys, h.2⟩⟩
  · cases h

theorem segRange_of_ne_nil {s : List Row} (h : s ≠ []) : ∃ a b, segRange s = some (a, b) := by
  unfold segRange
  cases s with
  | nil => exact absurd rfl h
  | cons x xs =>
    have : (x :: xs).getLast? = some ((x :: xs).getLast (by simp)) := List.getLast?_eq_some_getLast (by simp)
    rw [this]; simp

theorem segRange_eq_none {s : List Row} (h : segRange s = none) : s = [] := by
  cases s with
  | nil => rfl
  | cons x xs =>
    obtain ⟨a, b, e⟩ := segRange_of_ne_nil (s := x :: xs) (by simp)
    rw [e] at h; cases h

theorem StrictAsc.le_last {l : List Row} {y : Row} (h : StrictAsc (l ++ [y])) : ∀ x ∈ l ++ [y], x.t ≤ y.t := by
  intro x hx
  rcases List.mem_append.mp hx with hx | hx
  · have := (List.pairwise_append.mp h).2.2 x hx y (by simp); omega
  · simp at hx; subst hx; omega

theorem segRange_bounds {s : List Row} {a b : Int} (hs : StrictAsc s) (h : segRange s = some (a, b)) :
    ∀ x ∈ s, a ≤ x.t ∧ x.t ≤ b := by
  obtain ⟨⟨x, xs, e1, ha⟩, ⟨y, ys, e2, hb⟩⟩ := segRange_eq_some h
  intro z hz
  constructor
  · subst e1
    rcases List.mem_cons.mp hz with rfl | hz'
    · omega
    · have := hs.head_lt z hz'; omega
  · rw [e2] at hs hz
    have := hs.le_last z hz; omega

/-- a chunk as the files hold it: no empty segment, rows strictly ascending in time over the
whole chunk. -/
def Chunk.WF (c : Chunk) : Prop := (∀ s ∈ c, s ≠ []) ∧ StrictAsc c.flatten

theorem Chunk.WF.seg_asc {c : Chunk} (h : Chunk.WF c) {s : Segment} (hs : s ∈ c) : StrictAsc s := by
  have := (List.pairwise_flatten.mp h.2).1
  exact this s hs

theorem Chunk.WF.mem_flatten {c : Chunk} {s : Segment} (hs : s ∈ c) {x : Row} (hx : x ∈ s) : x ∈ c.flatten :=
  List.mem_flatten.mpr ⟨s, hs, hx⟩

/-! ### count / sum / min / max -/

theorem seg_filter_nil_of_not_overlaps {s : Segment} {lo hi a b : Int} (hs : StrictAsc s)
    (hr : segRange s = some (a, b)) (ho : overlaps lo hi a b = false) : s.filter (inRange lo hi) = [] := by
  apply List.filter_eq_nil_iff.mpr
  intro x hx
  have := segRange_bounds hs hr x hx
  simp [overlaps] at ho
  simp [inRange]; omega

theorem scanStep_eq {lo hi : Int} {seg : Segment} (hs : StrictAsc seg) (s : Stats) :
    (if segOverlaps lo hi seg then s.seq (buildStats (rowsInRange lo hi seg)) else s)
      = s.seq (buildStats (seg.filter (inRange lo hi))) := by
  rw [rowsInRange_eq_filter hs]
  unfold segOverlaps
  cases hr : segRange seg with
  | none => simp [segRange_eq_none hr]
  | some p =>
    rcases p with ⟨a, b⟩
    simp only
    by_cases ho : overlaps lo hi a b = true
    · simp [ho]
    · have ho' : overlaps lo hi a b = false := by simpa using ho
      simp [ho', seg_filter_nil_of_not_overlaps hs hr ho']

theorem scanChunk_eq {c : Chunk} (hc : ∀ s ∈ c, StrictAsc s) (lo hi : Int) :
    scanChunk lo hi c = buildStats (c.flatten.filter (inRange lo hi)) := by
  unfold scanChunk
  suffices h : ∀ init : Stats, c.foldl (fun s seg => if segOverlaps lo hi seg then s.seq (buildStats (rowsInRange lo hi seg)) else s) init
      = init.seq (buildStats (c.flatten.filter (inRange lo hi))) by simpa using h {}
  induction c with
  | nil => intro init; simp
  | cons seg c ih =>
    intro init
    simp only [List.foldl_cons, List.flatten_cons, List.filter_append]
    rw [scanStep_eq (hc seg List.mem_cons_self), ih (fun s hs => hc s (List.mem_cons_of_mem _ hs)),
      buildStats_append, Stats.seq_assoc]

theorem filter_eq_self_of_allRows {l : List Row} {lo hi a b : Int} (hl : StrictAsc l)
    (hr : segRange l = some (a, b)) (h : allRowsInRange lo hi a b = true) : l.filter (inRange lo hi) = l := by
  apply List.filter_eq_self.mpr
  intro x hx
  have := segRange_bounds hl hr x hx
  simp [allRowsInRange] at h
  simp [inRange]; omega

/-- count, sum, min, max of `readSegmentMetaRecord`: the stored record when the chunk lies
inside the range, the scan of the overlapping segments otherwise — always the statistics of
the rows of the chunk that are in the range. -/
theorem chunkBody_eq {c : Chunk} (h : Chunk.WF c) (lo hi : Int) :
    chunkBody lo hi c = buildStats (c.flatten.filter (inRange lo hi)) := by
  unfold chunkBody
  cases hr : chunkRange c with
  | none => simp [segRange_eq_none (show segRange c.flatten = none from hr)]
  | some p =>
    rcases p with ⟨a, b⟩
    simp only
    by_cases ha : allRowsInRange lo hi a b = true
    · simp [ha, storedStats, filter_eq_self_of_allRows h.2 hr ha]
    · simp [ha, scanChunk_eq (fun s hs => h.seg_asc hs)]

/-! ### first / last -/

theorem optComb_keepLeft (a b : Option (Int × Int)) : optComb keepLeft a b = a.or b := by
  cases a <;> cases b <;> rfl
theorem optComb_keepRight (a b : Option (Int × Int)) : optComb keepRight a b = b.or a := by
  cases a <;> cases b <;> rfl

theorem buildStats_append_first (a b : List Row) :
    (buildStats (a ++ b)).first = (buildStats a).first.or (buildStats b).first := by
  rw [buildStats_append]; simp [Stats.seq, optComb_keepLeft]
theorem buildStats_append_last (a b : List Row) :
    (buildStats (a ++ b)).last = (buildStats b).last.or (buildStats a).last := by
  rw [buildStats_append]; simp [Stats.seq, optComb_keepRight]

theorem buildStats_flatten_first (L : List (List Row)) :
    (buildStats L.flatten).first = L.findSome? (fun l => (buildStats l).first) := by
  induction L with
  | nil => rfl
  | cons l L ih =>
    rw [List.flatten_cons, buildStats_append_first, ih, List.findSome?_cons]
    cases (buildStats l).first <;> simp

theorem buildStats_flatten_last (L : List (List Row)) :
    (buildStats L.flatten).last = L.reverse.findSome? (fun l => (buildStats l).last) := by
  induction L with
  | nil => rfl
  | cons l L ih =>
    rw [List.flatten_cons, buildStats_append_last, ih, List.reverse_cons, List.findSome?_append]
    simp [List.findSome?_cons]
    cases (buildStats l).last <;> simp

theorem findSome?_congr' {α β} {f g : α → Option β} {l : List α} (h : ∀ x ∈ l, f x = g x) :
    l.findSome? f = l.findSome? g := by
  induction l with
  | nil => rfl
  | cons x l ih =>
    simp only [List.findSome?_cons, h x List.mem_cons_self]
    rw [ih (fun y hy => h y (List.mem_cons_of_mem _ hy))]

/-- the first row of a segment, once it is in the range and has a value, is the answer. -/
theorem first_of_head {x : Row} {xs : List Row} {lo hi v : Int} (hx : inRange lo hi x = true) (hv : x.v = some v) :
    (buildStats ((x :: xs).filter (inRange lo hi))).first = some (x.t, v) := by
  rw [List.filter_cons_of_pos hx, buildStats_cons]
  rcases x with ⟨t, xv⟩; simp only at hv; subst hv
  simp [Stats.seq, Stats.single, optComb_keepLeft]

theorem last_of_last {y : Row} {ys : List Row} {lo hi v : Int} (hy : inRange lo hi y = true) (hv : y.v = some v) :
    (buildStats ((ys ++ [y]).filter (inRange lo hi))).last = some (y.t, v) := by
  rw [List.filter_append, buildStats_append_last]
  rcases y with ⟨t, yv⟩; simp only at hv; subst hv
  simp [List.filter_cons_of_pos hy, Stats.single]

theorem segFirst_eq {c : Chunk} (h : Chunk.WF c) {seg : Segment} (hs : seg ∈ c) (lo hi : Int)
    (sm : Option (Int × Int)) (hsm : sm = none ∨ sm = (storedStats c).min) :
    segFirst sm lo hi seg = (buildStats (seg.filter (inRange lo hi))).first := by
  have hasc := h.seg_asc hs
  unfold segFirst
  cases hr : segRange seg with
  | none => simp [segRange_eq_none hr]
  | some p =>
    rcases p with ⟨a, b⟩
    simp only
    by_cases ho' : overlaps lo hi a b = false
    · simp [ho', seg_filter_nil_of_not_overlaps hasc hr ho']
    have ho : overlaps lo hi a b = true := by simpa using ho'
    simp only [ho, Bool.not_true, Bool.false_eq_true, if_false]
    obtain ⟨⟨x, xs, e1, ha⟩, _⟩ := segRange_eq_some hr
    have hob : lo ≤ b ∧ a ≤ hi := by simpa [overlaps] using ho
    -- what the data path answers
    have hdata : (if (noNulls seg && decide (lo ≤ a)) = true then
          match seg.head? with
          | some r => r.v.map (fun v => (a, v))
          | none => none
        else (buildStats (rowsInRange lo hi seg)).first) = (buildStats (seg.filter (inRange lo hi))).first := by
      split
      · rename_i hc
        simp only [Bool.and_eq_true, decide_eq_true_eq] at hc
        subst e1
        have hxv : x.v.isSome = true := by
          have := hc.1; unfold noNulls at this; simp at this; exact this.1
        obtain ⟨v, hv⟩ := Option.isSome_iff_exists.mp hxv
        have hin : inRange lo hi x = true := by simp [inRange]; omega
        rw [first_of_head hin hv]; simp [hv, ha]
      · rw [rowsInRange_eq_filter hasc]
    cases hm : sm with
    | none => exact hdata
    | some q =>
      rcases q with ⟨v, t⟩
      have hm' : (storedStats c).min = some (v, t) := by
        rcases hsm with e | e
        · rw [e] at hm; cases hm
        · rw [← e]; exact hm
      simp only
      split
      · rename_i hc
        simp only [Bool.and_eq_true, decide_eq_true_eq] at hc
        subst e1
        have hmem : (⟨t, some v⟩ : Row) ∈ c.flatten := buildStats_min_mem (p := (v, t)) hm'
        have hxmem : x ∈ c.flatten := Chunk.WF.mem_flatten hs List.mem_cons_self
        have hx : x = ⟨t, some v⟩ := h.2.eq_of_t_eq hxmem hmem (by simp; omega)
        have hin : inRange lo hi x = true := by simp [inRange]; omega
        rw [first_of_head hin (v := v) (by rw [hx])]; simp [ha]
      · exact hdata

theorem segLast_eq {c : Chunk} (h : Chunk.WF c) {seg : Segment} (hs : seg ∈ c) (lo hi : Int)
    (sm : Option (Int × Int)) (hsm : sm = none ∨ sm = (storedStats c).max) :
    segLast sm lo hi seg = (buildStats (seg.filter (inRange lo hi))).last := by
  have hasc := h.seg_asc hs
  unfold segLast
  cases hr : segRange seg with
  | none => simp [segRange_eq_none hr]
  | some p =>
    rcases p with ⟨a, b⟩
    simp only
    by_cases ho' : overlaps lo hi a b = false
    · simp [ho', seg_filter_nil_of_not_overlaps hasc hr ho']
    have ho : overlaps lo hi a b = true := by simpa using ho'
    simp only [ho, Bool.not_true, Bool.false_eq_true, if_false]
    obtain ⟨_, ⟨y, ys, e2, hb⟩⟩ := segRange_eq_some hr
    have hob : lo ≤ b ∧ a ≤ hi := by simpa [overlaps] using ho
    have hdata : (if (noNulls seg && decide (b ≤ hi)) = true then
          match seg.getLast? with
          | some r => r.v.map (fun v => (b, v))
          | none => none
        else (buildStats (rowsInRange lo hi seg)).last) = (buildStats (seg.filter (inRange lo hi))).last := by
      split
      · rename_i hc
        simp only [Bool.and_eq_true, decide_eq_true_eq] at hc
        subst e2
        have hyv : y.v.isSome = true := by
          have := hc.1; unfold noNulls at this; simp at this; exact this.2
        obtain ⟨v, hv⟩ := Option.isSome_iff_exists.mp hyv
        have hin : inRange lo hi y = true := by simp [inRange]; omega
        rw [last_of_last hin hv]; simp [hv, hb]
      · rw [rowsInRange_eq_filter hasc]
    cases hm : sm with
    | none => exact hdata
    | some q =>
      rcases q with ⟨v, t⟩
      have hm' : (storedStats c).max = some (v, t) := by
        rcases hsm with e | e
        · rw [e] at hm; cases hm
        · rw [← e]; exact hm
      simp only
      split
      · rename_i hc
        simp only [Bool.and_eq_true, decide_eq_true_eq] at hc
        subst e2
        have hmem : (⟨t, some v⟩ : Row) ∈ c.flatten := buildStats_max_mem (p := (v, t)) hm'
        have hymem : y ∈ c.flatten := Chunk.WF.mem_flatten hs (by simp)
        have hy : y = ⟨t, some v⟩ := h.2.eq_of_t_eq hymem hmem (by simp; omega)
        have hin : inRange lo hi y = true := by simp [inRange]; omega
        rw [last_of_last hin (v := v) (by rw [hy])]; simp [hb]
      · exact hdata

theorem chunkFirst_eq {c : Chunk} (h : Chunk.WF c) (ty : ColType) (lo hi : Int) :
    chunkFirst ty lo hi c = (buildStats (c.flatten.filter (inRange lo hi))).first := by
  unfold chunkFirst
  rw [List.filter_flatten, buildStats_flatten_first, List.findSome?_map]
  exact findSome?_congr' (fun seg hs => segFirst_eq h hs lo hi _ (by split <;> simp))

theorem chunkLast_eq {c : Chunk} (h : Chunk.WF c) (ty : ColType) (lo hi : Int) :
    chunkLast ty lo hi c = (buildStats (c.flatten.filter (inRange lo hi))).last := by
  unfold chunkLast
  rw [List.filter_flatten, buildStats_flatten_last, ← List.map_reverse, List.findSome?_map]
  exact findSome?_congr' (fun seg hs => segLast_eq h (List.mem_reverse.mp hs) lo hi _ (by split <;> simp))

/-- **one chunk**: what `readSegmentMetaRecord` answers (stored statistics when the chunk lies
inside the range, scans of the overlapping segments otherwise, first/last through the
shortcuts of `FirstLastReader`) is the statistics record of the chunk's rows in the range. -/
theorem chunkStats_eq {c : Chunk} (h : Chunk.WF c) (ty : ColType) (lo hi : Int) :
    chunkStats ty lo hi c = buildStats (c.flatten.filter (inRange lo hi)) := by
  unfold chunkStats
  rw [chunkBody_eq h, chunkFirst_eq h, chunkLast_eq h]

/-- the containers of a series as row lists, in precedence order. -/
def containers (d : SeriesData) : List (List Row) := d.mem :: d.chunks.map (fun c => c.flatten)

/-- the layout is what the engine keeps: the memtable rows and every chunk sorted by time. -/
def SeriesData.WF (d : SeriesData) : Prop := StrictAsc d.mem ∧ ∀ c ∈ d.chunks, Chunk.WF c

/-- no timestamp of the series is held by two containers (which is the case when no
(series, timestamp) was written in two flush generations, or once the generations were
compacted / merged into one file). -/
def NoKeyTwice (d : SeriesData) : Prop :=
  (containers d).Pairwise (fun a b => ∀ x ∈ a, ∀ y ∈ b, x.t ≠ y.t)

instance (d : SeriesData) : Decidable (NoKeyTwice d) := by unfold NoKeyTwice; infer_instance

/-- the same restricted to a time range: no timestamp *of the range* is held by two containers. -/
def NoKeyTwiceIn (lo hi : Int) (d : SeriesData) : Prop :=
  ((containers d).map (fun c => c.filter (inRange lo hi))).Pairwise (fun a b => ∀ x ∈ a, ∀ y ∈ b, x.t ≠ y.t)

instance (lo hi : Int) (d : SeriesData) : Decidable (NoKeyTwiceIn lo hi d) := by
  unfold NoKeyTwiceIn; infer_instance

theorem NoKeyTwice.restrict {d : SeriesData} (hk : NoKeyTwice d) (lo hi : Int) : NoKeyTwiceIn lo hi d := by
  unfold NoKeyTwiceIn
  apply List.pairwise_map.mpr
  exact hk.imp (fun h x hx y hy => h x (List.mem_filter.mp hx).1 y (List.mem_filter.mp hy).1)

/-! ### `insertRow` on fresh timestamps -/

theorem insertRow_perm {r : Row} {acc : List Row} (h : ∀ x ∈ acc, x.t ≠ r.t) :
    (insertRow r acc).Perm (r :: acc) := by
  induction acc with
  | nil => simp [insertRow]
  | cons x xs ih =>
    unfold insertRow
    have hx : x.t ≠ r.t := h x List.mem_cons_self
    split
    · exact List.Perm.refl _
    · split
      · rename_i e; exact absurd e.symm hx
      · exact ((ih (fun y hy => h y (List.mem_cons_of_mem _ hy))).cons x).trans (List.Perm.swap r x xs)

theorem insertRow_asc {r : Row} {acc : List Row} (ha : StrictAsc acc) (h : ∀ x ∈ acc, x.t ≠ r.t) :
    StrictAsc (insertRow r acc) := by
  induction acc with
  | nil => simp [insertRow, StrictAsc]
  | cons x xs ih =>
    have hx : x.t ≠ r.t := h x List.mem_cons_self
    have hxs := ha.head_lt
    unfold insertRow
    split
    · rename_i hlt
      apply List.pairwise_cons.mpr
      refine ⟨?_, ha⟩
      intro y hy
      rcases List.mem_cons.mp hy with rfl | hy'
      · exact hlt
      · have := hxs y hy'; omega
    · split
      · rename_i e; exact absurd e.symm hx
      · rename_i hnlt hne
        have h' : ∀ y ∈ xs, y.t ≠ r.t := fun y hy => h y (List.mem_cons_of_mem _ hy)
        apply List.pairwise_cons.mpr
        refine ⟨?_, ih ha.tail h'⟩
        intro y hy
        have := (insertRow_perm h').subset hy
        rcases List.mem_cons.mp this with rfl | hy'
        · omega
        · exact hxs y hy'

theorem foldl_insertRow {l acc : List Row} (hl : l.Pairwise (fun a b => a.t ≠ b.t)) (ha : StrictAsc acc)
    (hd : ∀ x ∈ l, ∀ y ∈ acc, y.t ≠ x.t) :
    StrictAsc (l.foldl (fun a r => insertRow r a) acc) ∧ (l.foldl (fun a r => insertRow r a) acc).Perm (acc ++ l) := by
  induction l generalizing acc with
  | nil => simp [ha]
  | cons r l ih =>
    simp only [List.foldl_cons]
    have hr : ∀ y ∈ acc, y.t ≠ r.t := hd r List.mem_cons_self
    have hp := insertRow_perm hr
    have hrl := (List.pairwise_cons.mp hl).1
    have := ih (acc := insertRow r acc) (List.pairwise_cons.mp hl).2 (insertRow_asc ha hr) (by
      intro x hx y hy
      rcases List.mem_cons.mp (hp.subset hy) with rfl | hy'
      · exact hrl x hx
      · exact hd x (List.mem_cons_of_mem _ hx) y hy')
    refine ⟨this.1, this.2.trans ?_⟩
    have h1 : (insertRow r acc ++ l).Perm ((r :: acc) ++ l) := hp.append_right l
    refine h1.trans ?_
    simp only [List.cons_append]
    exact (List.perm_middle (a := r) (l₁ := acc) (l₂ := l)).symm

/-! ### one series -/

theorem mergeOf_flatten (L : List (List Row)) : mergeOf ty L.flatten = (L.map (mergeOf ty)).foldl (Stats.merge ty) {} := by
  induction L with
  | nil => rfl
  | cons l L ih =>
    rw [List.flatten_cons, mergeOf_append, ih, List.map_cons, List.foldl_cons, Stats.merge_empty_left,
      foldl_merge_init ty (mergeOf ty l)]

theorem viewRows_eq (lo hi : Int) (d : SeriesData) :
    viewRows lo hi d = (((containers d).map (fun c => c.filter (inRange lo hi))).flatten).foldl (fun a r => insertRow r a) [] := by
  unfold viewRows containers
  generalize (d.mem :: d.chunks.map fun c => c.flatten) = cs
  generalize ([] : List Row) = acc
  induction cs generalizing acc with
  | nil => rfl
  | cons c cs ih => simp only [List.foldl_cons, List.map_cons, List.flatten_cons, List.foldl_append]; rw [ih]

theorem inRange_rows_distinct {d : SeriesData} (hw : d.WF) {lo hi : Int} (hk : NoKeyTwiceIn lo hi d) :
    (((containers d).map (fun c => c.filter (inRange lo hi))).flatten).Pairwise (fun a b => a.t ≠ b.t) := by
  apply List.pairwise_flatten.mpr
  constructor
  · intro l hl
    obtain ⟨c, hc, rfl⟩ := List.mem_map.mp hl
    have hasc : StrictAsc c := by
      unfold containers at hc
      rcases List.mem_cons.mp hc with rfl | hc'
      · exact hw.1
      · obtain ⟨ch, hch, rfl⟩ := List.mem_map.mp hc'; exact (hw.2 ch hch).2
    exact (hasc.filter _).imp (fun h => by omega)
  · exact hk

theorem container_asc {d : SeriesData} (hw : d.WF) {c : List Row} (hc : c ∈ containers d) : StrictAsc c := by
  unfold containers at hc
  rcases List.mem_cons.mp hc with rfl | hc'
  · exact hw.1
  · obtain ⟨ch, hch, rfl⟩ := List.mem_map.mp hc'; exact (hw.2 ch hch).2

/-- the rows of the plain select are sorted by time. -/
theorem viewRows_asc {d : SeriesData} (hw : d.WF) {lo hi : Int} (hk : NoKeyTwiceIn lo hi d) :
    StrictAsc (viewRows lo hi d) := by
  rw [viewRows_eq]
  exact (foldl_insertRow (acc := []) (inRange_rows_distinct hw hk) (by simp [StrictAsc]) (by simp)).1

/-- the row-level answer is the record merge of the rows in range of all containers. -/
theorem aggRows_eq_mergeOf {d : SeriesData} (hw : d.WF) {lo hi : Int} (hk : NoKeyTwiceIn lo hi d) :
    aggRows lo hi d = mergeOf d.ty (((containers d).map (fun c => c.filter (inRange lo hi))).flatten) := by
  unfold aggRows
  rw [viewRows_eq]
  have := foldl_insertRow (acc := []) (inRange_rows_distinct hw hk) (by simp [StrictAsc]) (by simp)
  rw [buildStats_eq_mergeOf d.ty this.1]
  exact mergeOf_perm d.ty (by simpa using this.2)

/-- the statistics path is the same record merge. -/
theorem aggViaStats_eq_mergeOf {d : SeriesData} (hw : d.WF) (lo hi : Int) :
    aggViaStats lo hi d = mergeOf d.ty (((containers d).map (fun c => c.filter (inRange lo hi))).flatten) := by
  unfold aggViaStats containers
  rw [List.map_cons, List.flatten_cons, mergeOf_append, mergeOf_flatten, foldl_merge_init,
    buildStats_eq_mergeOf d.ty (hw.1.filter _)]
  congr 2
  rw [List.map_map, List.map_map]
  apply List.map_congr_left
  intro c hc
  simp only [Function.comp]
  rw [chunkStats_eq (hw.2 c hc), buildStats_eq_mergeOf d.ty ((hw.2 c hc).2.filter _)]

/-! ### time buckets -/

theorem bucketStart_le (w t : Int) (hw : 0 < w) : bucketStart w t ≤ t := by
  unfold bucketStart
  have := Int.emod_nonneg t (Int.ne_of_gt hw)
  omega

theorem lt_bucketStart_add (w t : Int) (hw : 0 < w) : t < bucketStart w t + w := by
  unfold bucketStart
  have := Int.emod_lt_of_pos t hw
  omega

theorem bucketStart_aligned (w t : Int) : bucketStart w t % w = 0 := by
  unfold bucketStart
  have h : t - t % w = w * (t / w) := by
    have := Int.mul_ediv_add_emod t w
    omega
  rw [h]; exact Int.mul_emod_right w (t / w)

/-! ### a descending scan -/

theorem buildStats_count_sum (l : List Row) :
    (buildStats l).count = (mergeOf ty l).count ∧ (buildStats l).sum = (mergeOf ty l).sum := by
  induction l with
  | nil => exact ⟨rfl, rfl⟩
  | cons r l ih =>
    rw [buildStats_cons, mergeOf_cons]
    simp [Stats.seq, Stats.merge, ih.1, ih.2]

theorem optComb_min_fst (x : Option (Int × Int)) {a a' : Option (Int × Int)}
    (h : a.map (·.1) = a'.map (·.1)) :
    (optComb seqMin x a).map (·.1) = (optComb pickMin x a').map (·.1) := by
  cases x <;> cases a <;> cases a' <;> simp_all [optComb, seqMin, pickMin] <;> grind

theorem optComb_max_fst (x : Option (Int × Int)) {a a' : Option (Int × Int)}
    (h : a.map (·.1) = a'.map (·.1)) :
    (optComb seqMax x a).map (·.1) = (optComb pickMax x a').map (·.1) := by
  cases x <;> cases a <;> cases a' <;> simp_all [optComb, seqMax, pickMax] <;> grind

/-- the extreme *values* of a scan do not depend on the order of the rows. -/
theorem buildStats_extreme_values (l : List Row) :
    (buildStats l).min.map (·.1) = (mergeOf ty l).min.map (·.1) ∧
    (buildStats l).max.map (·.1) = (mergeOf ty l).max.map (·.1) := by
  induction l with
  | nil => exact ⟨rfl, rfl⟩
  | cons r l ih =>
    rw [buildStats_cons, mergeOf_cons]
    exact ⟨optComb_min_fst _ ih.1, optComb_max_fst _ ih.2⟩

theorem single_first_eq_last (r : Row) : (Stats.single r).first = (Stats.single r).last := by
  rcases r with ⟨t, v⟩; cases v <;> rfl

theorem buildStats_reverse_last (l : List Row) : (buildStats l.reverse).last = (buildStats l).first := by
  induction l with
  | nil => rfl
  | cons r l ih =>
    rw [List.reverse_cons, buildStats_append_last, ih, buildStats_singleton, buildStats_cons]
    simp [Stats.seq, optComb_keepLeft, single_first_eq_last]

theorem buildStats_reverse_first (l : List Row) : (buildStats l.reverse).first = (buildStats l).last := by
  have := buildStats_reverse_last l.reverse
  rw [List.reverse_reverse] at this; exact this.symm

end OG.C09
