/-
C09 — model of the statistics ("pre-aggregation") path of openGemini's ts-store reader
(core Lean only; imported by the driver).

Values are exact numbers (`Int`): integer fields as they are, float fields as the numerator of
value·8 (the correspondence generates floats that are multiples of 1/8, so float64 sums are
exact and order independent), booleans as 0/1, strings by an order preserving code.

* `Stats`           the record carried per column in `record.ColMeta`
                    (count, sum, min+time, max+time, first+time, last+time)
* `Stats.seq`  (⊕ₒ) combination of two records *in scan order* — what every in-order loop does:
                    `IntegerPreAgg.addValues` over the rows of a segment, `readMinMaxFromData` /
                    `readSumCountFromData` over the segments of a chunk, `FirstLastReader.Read`
                    over the segments, the per-series reducers over a record
* `Stats.merge` (⊕) combination of two records that come from different containers / series:
                    `immutable.AggregateData` (minMeta, maxMeta, countMeta, sumMeta, firstMeta,
                    lastMeta with their tie-breaking rules)
* `buildStats`      the statistics of a list of rows in scan order
* `chunkStats`      what `readSegmentMetaRecord` answers for one chunk (one series in one
                    file) and a time range: the stored statistics when `allRowsInRange`, the
                    segments that overlap the range otherwise; first/last through
                    `FirstLastReader` with its two shortcuts
* `aggViaStats`     the un-hinted answer for one series: ⊕ over memtable and chunks
* `aggRows`         the row-level answer: the statistics of the rows the plain select returns
-/
import OG.Generated.C09

namespace OG.C09

/-- times (seconds relative to a base) and value codes are plain integers. -/
abbrev Time := Int
abbrev Val := Int

/-- one cell of one column: the time of the row and the value (`none` = null). -/
structure Row where
  t : Int
  v : Option Int
deriving DecidableEq, Repr, Inhabited

/-- field types (`influx.Field_Type_*`). -/
inductive ColType where
  | int | float | bool | string
deriving DecidableEq, Repr, Inhabited

/-- `FirstLastReader.unmarshalPreAgg`: only integer and float columns have a stored minimum /
maximum the first / last shortcut can look at (`default: return nil, false`). -/
def ColType.hasExtremeShortcut : ColType → Bool
  | .int | .float => true
  | .bool | .string => false

/-- `record.ColMeta`. `min`/`max` are (value, time); `first`/`last` are (time, value). -/
structure Stats where
  count : Nat := 0
  sum : Int := 0
  min : Option (Int × Int) := none
  max : Option (Int × Int) := none
  first : Option (Int × Int) := none
  last : Option (Int × Int) := none
deriving DecidableEq, Repr, Inhabited

def Stats.empty : Stats := {}

/-! ### combination in scan order -/

/-- `if agg[minIndex] > v { take v }` : the earlier one stays on a tie. -/
def seqMin (a b : Int × Int) : Int × Int := if b.1 < a.1 then b else a
/-- `if agg[maxIndex] < v { take v }`. -/
def seqMax (a b : Int × Int) : Int × Int := if a.1 < b.1 then b else a
def keepLeft (a _b : Int × Int) : Int × Int := a
def keepRight (_a b : Int × Int) : Int × Int := b

def optComb {α : Type} (f : α → α → α) : Option α → Option α → Option α
  | none, b => b
  | a, none => a
  | some a, some b => some (f a b)

/-- ⊕ₒ : `b` was scanned after `a`. -/
def Stats.seq (a b : Stats) : Stats where
  count := a.count + b.count
  sum := a.sum + b.sum
  min := optComb seqMin a.min b.min
  max := optComb seqMax a.max b.max
  first := optComb keepLeft a.first b.first
  last := optComb keepRight a.last b.last

/-- the record of one row. -/
def Stats.single (r : Row) : Stats :=
  match r.v with
  | none => {}
  | some v => { count := 1, sum := v, min := some (v, r.t), max := some (v, r.t),
                first := some (r.t, v), last := some (r.t, v) }

/-- statistics of rows in scan order (`addValues`, the reducers, the row scans of the readers). -/
def buildStats (rows : List Row) : Stats := rows.foldl (fun s r => s.seq (Stats.single r)) {}

/-- a descending scan (`ORDER BY time DESC`): the rows arrive newest first and the scanning code
is the same; after the repairs b8a54da / aae5dd9 the first and last value are exchanged at the end
(`readMemTableMetaRecord`, the exchanged reducers of `series_call_processor`). -/
def buildStatsDesc (rowsAsc : List Row) : Stats :=
  let s := buildStats rowsAsc.reverse
  { s with first := s.last, last := s.first }

/-! ### combination of records of different containers: `immutable.AggregateData` -/

/-- minMeta: base replaces new iff `new.v > base.v || (new.v == base.v && new.t > base.t)`. -/
def pickMin (n b : Int × Int) : Int × Int := if b.1 < n.1 ∨ (b.1 = n.1 ∧ b.2 < n.2) then b else n
/-- maxMeta: `new.v < base.v || (new.v == base.v && new.t > base.t)`. -/
def pickMax (n b : Int × Int) : Int × Int := if n.1 < b.1 ∨ (b.1 = n.1 ∧ b.2 < n.2) then b else n
/-- firstMeta: `new.t > base.t`, or equal times and `compareMin(new, base)` (new.v < base.v): the
larger value wins, for every column type (a boolean first() keeps `true`; the executor's
`BooleanFirstMerge` keeps `false` - a repair of that difference, 31cbbdb, was withdrawn because
the repository's own test `TestAggQueryOnlyInImmutable_NoEmpty` pins this rule). The type is a
parameter because `compareMin` dispatches on it. -/
def pickFirst (_ty : ColType) (n b : Int × Int) : Int × Int :=
  if b.1 < n.1 ∨ (b.1 = n.1 ∧ n.2 < b.2) then b else n
/-- lastMeta: `new.t < base.t`, or equal times and `compareMin(new, base)`. -/
def pickLast (n b : Int × Int) : Int × Int := if n.1 < b.1 ∨ (b.1 = n.1 ∧ n.2 < b.2) then b else n

/-- ⊕ : `AggregateData(new := a, base := b)` for a column of type `ty`. -/
def Stats.merge (ty : ColType) (a b : Stats) : Stats where
  count := a.count + b.count
  sum := a.sum + b.sum
  min := optComb pickMin a.min b.min
  max := optComb pickMax a.max b.max
  first := optComb (pickFirst ty) a.first b.first
  last := optComb pickLast a.last b.last

def mergeAll (ty : ColType) (l : List Stats) : Stats := l.foldl (Stats.merge ty) {}

/-! ### one chunk (one series in one file): segments of rows, ascending in time -/

abbrev Segment := List Row
abbrev Chunk := List Segment

def inRange (lo hi : Int) (r : Row) : Bool := decide (lo ≤ r.t) && decide (r.t ≤ hi)

/-- `findRowIdxRange` on a time-sorted segment: skip the rows before `lo`, take those up to `hi`. -/
def rowsInRange (lo hi : Int) (s : Segment) : Segment :=
  (s.dropWhile (fun r => decide (r.t < lo))).takeWhile (fun r => decide (r.t ≤ hi))

/-- the time range recorded per segment in the chunk meta: first and last row. -/
def segRange (s : Segment) : Option (Int × Int) :=
  match s.head?, s.getLast? with
  | some a, some b => some (a.t, b.t)
  | _, _ => none

/-- `MinMaxTime()` of the chunk: first row of the first segment, last row of the last one. -/
def chunkRange (c : Chunk) : Option (Int × Int) := segRange c.flatten

def segOverlaps (lo hi : Int) (s : Segment) : Bool :=
  match segRange s with
  | some (a, b) => overlaps lo hi a b
  | none => false

/-- the statistics record stored in the chunk meta (count, sum, min, max with times). -/
def storedStats (c : Chunk) : Stats := buildStats c.flatten

/-- the row-level answer of `readSumCountFromData` / `readMinMaxFromData` for a partially covered
chunk: the segments that overlap the range, each restricted to the range, scanned in order. -/
def scanChunk (lo hi : Int) (c : Chunk) : Stats :=
  c.foldl (fun s seg => if segOverlaps lo hi seg then s.seq (buildStats (rowsInRange lo hi seg)) else s) {}

def noNulls (s : Segment) : Bool := s.all (fun r => r.v.isSome)

/-- what one segment answers `FirstLastReader.Read` for `first` (`none`: go on with the next):
1. `readFirstOrLastFromPreAgg`: the range starts at or before the segment and the chunk's
   stored minimum sits at the segment's first time: that value;
2. no nulls in the segment and the segment starts inside the range: row 0, at the *segment's*
   first time (repaired; the code reported the chunk's first time);
3. otherwise the first row in range that has a value. -/
def segFirst (storedMin : Option (Int × Int)) (lo hi : Int) (seg : Segment) : Option (Int × Int) :=
  match segRange seg with
  | none => none
  | some (a, b) =>
    if !overlaps lo hi a b then none
    else
      let fromData :=
        if noNulls seg && decide (lo ≤ a) then
          match seg.head? with
          | some r => r.v.map (fun v => (a, v))
          | none => none
        else (buildStats (rowsInRange lo hi seg)).first
      match storedMin with
      | some (v, t) => if decide (lo ≤ a) && decide (t = a) then some (a, v) else fromData
      | none => fromData

/-- the same for `last` (segments are visited from the last one). -/
def segLast (storedMax : Option (Int × Int)) (lo hi : Int) (seg : Segment) : Option (Int × Int) :=
  match segRange seg with
  | none => none
  | some (a, b) =>
    if !overlaps lo hi a b then none
    else
      let fromData :=
        if noNulls seg && decide (b ≤ hi) then
          match seg.getLast? with
          | some r => r.v.map (fun v => (b, v))
          | none => none
        else (buildStats (rowsInRange lo hi seg)).last
      match storedMax with
      | some (v, t) => if decide (b ≤ hi) && decide (t = b) then some (b, v) else fromData
      | none => fromData

def chunkFirst (ty : ColType) (lo hi : Int) (c : Chunk) : Option (Int × Int) :=
  c.findSome? (segFirst (if ty.hasExtremeShortcut then (storedStats c).min else none) lo hi)

def chunkLast (ty : ColType) (lo hi : Int) (c : Chunk) : Option (Int × Int) :=
  c.reverse.findSome? (segLast (if ty.hasExtremeShortcut then (storedStats c).max else none) lo hi)

/-- count, sum, min, max of `readSegmentMetaRecord` (`readSumCount`, `readMinMax`): the stored
record when `allRowsInRange`, the scan of the overlapping segments otherwise. -/
def chunkBody (lo hi : Int) (c : Chunk) : Stats :=
  match chunkRange c with
  | some (a, b) => if allRowsInRange lo hi a b then storedStats c else scanChunk lo hi c
  | none => {}

/-- `readSegmentMetaRecord`: the record one chunk contributes for the range. -/
def chunkStats (ty : ColType) (lo hi : Int) (c : Chunk) : Stats :=
  { chunkBody lo hi c with first := chunkFirst ty lo hi c, last := chunkLast ty lo hi c }

/-! ### one series: memtable rows and chunks -/

/-- the containers of one series and one column. -/
structure SeriesData where
  ty : ColType := .int  -- the type of the column
  mem : List Row        -- rows of the memory tables, ascending in time
  chunks : List Chunk   -- one per file that holds the series, in precedence order (newest first)

/-- the un-hinted answer (statistics path): memtable rows in range, ⊕ every chunk's record. -/
def aggViaStats (lo hi : Int) (d : SeriesData) : Stats :=
  (d.chunks.map (chunkStats d.ty lo hi)).foldl (Stats.merge d.ty) (buildStats (d.mem.filter (inRange lo hi)))

/-- insert a cell into a time-sorted row list; an existing non-null cell wins (it comes from a
container of higher precedence), a null cell is filled. -/
def insertRow (r : Row) : List Row → List Row
  | [] => [r]
  | x :: xs =>
    if r.t < x.t then r :: x :: xs
    else if r.t = x.t then (if x.v.isSome then x else r) :: xs
    else x :: insertRow r xs

/-- the rows of one column the plain select returns: containers in precedence order, each
restricted to the range, merged key by key (last write wins, field by field). -/
def viewRows (lo hi : Int) (d : SeriesData) : List Row :=
  let cs : List (List Row) := d.mem :: d.chunks.map (fun c => c.flatten)
  cs.foldl (fun acc c => (c.filter (inRange lo hi)).foldl (fun a r => insertRow r a) acc) []

/-- the row-level answer: the statistics of the rows of the plain select. -/
def aggRows (lo hi : Int) (d : SeriesData) : Stats := buildStats (viewRows lo hi d)

/-- what the store answers for one series, one column and one (group, bucket): the statistics
path when the regenerated eligibility predicate `matchPreAgg` fires (then there is neither a
field filter nor a time bucket and `selected` is not looked at), otherwise the reducers over
`selected`, the rows of the column that the plain select returns for the same filter, range
and bucket. -/
def answer (q : QueryShape) (lo hi : Int) (d : SeriesData) (selected : List Row) : Stats :=
  if matchPreAgg q then aggViaStats lo hi d else buildStats selected

/-- `GROUP BY time(w)`: start of the bucket that holds absolute time `t` (`t - t mod w` with
the non-negative remainder: buckets are aligned to the epoch). -/
def bucketStart (w t : Int) : Int := t - t % w

/-- mean = sum / count as an exact fraction (numerator, denominator); none when there is no value. -/
def Stats.mean (s : Stats) : Option (Int × Nat) := if s.count = 0 then none else some (s.sum, s.count)

end OG.C09
