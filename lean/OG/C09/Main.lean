import OG.C09.Driver
def main : IO Unit := OG.C09.main
