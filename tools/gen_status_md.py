#!/usr/bin/env python3
"""tools/gen_status_md.py — rewrite the per-property status table of DESIGN.md §0 (between <!-- status begin/end -->)
from props/*.json, evidence/*.json, known_findings.jsonl, seeded/*/meta.json and the Lean sources."""
import glob, json, os, re, subprocess
root = os.path.dirname(os.path.dirname(os.path.abspath(__file__)))
known, fixed = {}, {}
for l in open(os.path.join(root, "known_findings.jsonl")):
    l = l.strip()
    if l.startswith("fixed:"):
        m = re.search(r"property=(C\d\d)", l)
        if m: fixed[m.group(1)] = fixed.get(m.group(1), 0) + 1
    elif l.startswith("{"):
        try:
            p = json.loads(l)["property"]; known[p] = known.get(p, 0) + 1
        except Exception: pass
seeds = {}
for d in glob.glob(os.path.join(root, "seeded", "C*-*")):
    mp = os.path.join(d, "meta.json")
    if not os.path.exists(mp): continue
    m = json.load(open(mp)); c = m.get("confirmed_by_main_session", {})
    first = (c.get("check_result_first_run") or c.get("check_result") or "")
    after = m.get("check_result_after_strengthening") or c.get("check_result_after_strengthening") or ""
    p = os.path.basename(d).split("-")[0]
    s = seeds.setdefault(p, {"n": 0, "first_input": 0, "now_input": 0})
    s["n"] += 1
    fi = ("failing" in first.lower()) and not first.upper().startswith("MISSED") and "no-failing-input-found" not in first
    if fi: s["first_input"] += 1
    if fi or ("VIOLATION" in str(after) and "no-failing-input-found" not in str(after)) or "failing" in str(after).lower(): s["now_input"] += 1
rows = ["| prop | Lean (lines: model+proofs) | theorems audited | obligations (last run) | correspondence lines (last run, tier) | fixes in /repo | open finding classes | seeds: n / caught with failing input at first run / now |",
        "|---|---|---|---|---|---|---|---|"]
for pf in sorted(glob.glob(os.path.join(root, "props", "C*.json"))):
    cfg = json.load(open(pf)); P = cfg["id"]
    nth = sum(len(v) for v in cfg.get("theorems", {}).values())
    lines = 0
    for d in cfg.get("lean_dirs", []):
        for f in glob.glob(os.path.join(root, "lean", d, "*.lean")):
            lines += sum(1 for _ in open(f, errors="replace"))
    ev = {}
    ep = os.path.join(root, "evidence", P + ".json")
    if os.path.exists(ep):
        ev = json.load(open(ep))
    cov = ev.get("coverage", {})
    s = seeds.get(P, {"n": 0, "first_input": 0, "now_input": 0})
    rows.append("| %s | %d | %d | %s/%s | %s (%s) | %d | %d | %d / %d / %d |" % (
        P, lines, nth, cov.get("discharged", "?"), cov.get("obligations", "?"),
        cov.get("correspondence_lines_compared", "?"), ev.get("tier", "?"),
        fixed.get(P, 0), known.get(P, 0), s["n"], s["first_input"], s["now_input"]))
p = os.path.join(root, "DESIGN.md")
s = open(p).read()
blk = "<!-- status begin -->\n" + "\n".join(rows) + "\n<!-- status end -->"
if "<!-- status begin -->" in s:
    s = re.sub(r"<!-- status begin -->.*?<!-- status end -->", lambda _: blk, s, flags=re.S)
    open(p, "w").write(s)
print(blk)
