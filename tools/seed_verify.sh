#!/bin/bash
# Confirms a seeded change: (1) the demonstration passes on the unchanged worktree and fails with
# the patch, (2) the package tests named in meta.json still pass with the patch (optional, slow),
# (3) our check catches it (run through VERIF_OVERLAY, /repo untouched).
# usage: tools/seed_verify.sh <Cxx> <worktree> <outdir> [--tests]
set -u
P=$1; WT=$2; OUT=$3
export GOFLAGS=-mod=mod GOPROXY=off
cd "$WT" || exit 2
# NOTE: never `git stash` here - the stash is shared by every worktree of the repository.
git diff > "$OUT/worktree_state_before_verify.diff" 2>/dev/null
git checkout -q -- . 2>/dev/null
DEMO_CMD=$(grep -v '^#' "$OUT/demo_cmd.txt" | grep "go test\|go run" | head -1)
echo "== demo command: $DEMO_CMD"
# place demo files
for f in "$OUT"/*_test.go; do
  [ -f "$f" ] || continue
  dest=$(grep -o '[a-zA-Z0-9_/.-]*zz_seeded[a-zA-Z0-9_]*_test.go' "$OUT/demo_cmd.txt" | head -1)
  [ -z "$dest" ] && dest=$(python3 -c "import json;print([x for x in json.load(open('$OUT/meta.json')).get('demo_path',[''])][0] if isinstance(json.load(open('$OUT/meta.json')).get('demo_path'),list) else json.load(open('$OUT/meta.json')).get('demo_path',''))" 2>/dev/null)
  echo "== demo file $f -> $dest"
  [ -n "$dest" ] && mkdir -p "$(dirname "$dest")" && cp "$f" "$dest"
done
echo "== without the change:"
bash -c "$DEMO_CMD" > "$OUT/verify_without.log" 2>&1; R0=$?
tail -3 "$OUT/verify_without.log"
git apply "$OUT/patch.diff" || { echo "patch does not apply"; exit 2; }
echo "== with the change:"
bash -c "$DEMO_CMD" > "$OUT/verify_with.log" 2>&1; R1=$?
tail -3 "$OUT/verify_with.log"
echo "== demo: without=$R0 (want 0) with=$R1 (want !=0)"
git checkout -q -- . ; git clean -fdq . 2>/dev/null
OV=$(python3 /verif/tools/overlay_from_patch.py "$OUT/patch.diff" /var/tmp/seed-ov-$P-$$)
echo "== our check with the change (overlay $OV):"
(cd /verif && VERIF_OVERLAY=$OV ./check $P > "$OUT/check_with.log" 2>&1; echo "check exit=$?" >> "$OUT/check_with.log")
grep "VIOLATION\|KNOWN\|check exit\|\[check\] $P" "$OUT/check_with.log"
rm -rf /var/tmp/seed-ov-$P-$$
