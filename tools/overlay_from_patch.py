#!/usr/bin/env python3
"""Turn a unified diff against /repo into a `go build -overlay` JSON, without touching /repo:
every file the patch changes (or adds) is copied to <outdir>, patched there, and mapped.
usage: overlay_from_patch.py <patch.diff> <outdir>   -> prints the path of the overlay json"""
import json, os, re, shutil, subprocess, sys
patch, out = os.path.abspath(sys.argv[1]), os.path.abspath(sys.argv[2])
repo = os.environ.get("VERIF_REPO", "/repo")
shutil.rmtree(out, ignore_errors=True)
os.makedirs(out)
files = []
for line in open(patch, errors="replace"):
    m = re.match(r"^\+\+\+ (?:b/)?(\S+)", line)
    if m and m.group(1) != "/dev/null":
        files.append(m.group(1))
tree = os.path.join(out, "tree")
for f in files:
    dst = os.path.join(tree, f)
    os.makedirs(os.path.dirname(dst), exist_ok=True)
    src = os.path.join(repo, f)
    if os.path.exists(src):
        shutil.copy(src, dst)
r = subprocess.run(["patch", "-p1", "-s", "-i", patch], cwd=tree, capture_output=True, text=True)
if r.returncode != 0:
    sys.stderr.write(r.stdout + r.stderr)
    sys.exit(1)
ov = {"Replace": {os.path.join(repo, f): os.path.join(tree, f) for f in files}}
p = os.path.join(out, "overlay.json")
json.dump(ov, open(p, "w"), indent=1)
print(p)
