#!/usr/bin/env python3
"""Write harness/go.mod from /repo/go.mod: same go directive and require block (pinned
versions, needed offline), plus replace lines pointing at /repo."""
import re, shutil, sys, os
repo = os.environ.get("VERIF_REPO", "/repo")
dst = sys.argv[1] if len(sys.argv) > 1 else "/verif/harness"
src = open(os.path.join(repo, "go.mod")).read()
gover = re.search(r"^go\s+(\S+)", src, re.M).group(1)
reqs = re.findall(r"^require\s*\((.*?)^\)", src, re.M | re.S)
out = ["module verif/harness", "", "go " + gover, ""]
out.append("require github.com/openGemini/openGemini v0.0.0")
for r in reqs:
    out.append("require (" + r + ")")
out.append("replace (")
out.append("\tgithub.com/openGemini/openGemini => " + repo)
out.append("\tgithub.com/VictoriaMetrics/VictoriaMetrics => " + repo + "/lib/util/lifted/VictoriaMetrics")
out.append("\tgithub.com/influxdata/influxdb => " + repo + "/lib/util/lifted/influxdb")
out.append(")")
def put(path, data):
    try:
        if open(path).read() == data:
            return
    except OSError:
        pass
    tmp = path + ".tmp%d" % os.getpid()
    open(tmp, "w").write(data)
    os.replace(tmp, path)
put(os.path.join(dst, "go.mod"), "\n".join(out) + "\n")
put(os.path.join(dst, "go.sum"), open(os.path.join(repo, "go.sum")).read())
