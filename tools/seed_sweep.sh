#!/bin/bash
# tools/seed_sweep.sh <Cxx> [<Cyy> ...] — re-run every saved seeded change of the given properties against the CURRENT check
# (VERIF_OVERLAY, /repo untouched) and record the outcome in seeded/<id>/meta.json under "sweep" (date, result line).
# Seeds of one property run one after the other (they share lean/OG/Generated/Cxx.lean); call it several times in
# parallel for different properties.
cd "$(dirname "$0")/.."
mkdir -p /var/tmp/seed-sweep
for P in "$@"; do
  for d in $(ls -d seeded/$P-* 2>/dev/null | sort -t- -k2 -n); do
    id=$(basename $d)
    ovd=/var/tmp/seed-sweep/ov-$id
    OV=$(python3 tools/overlay_from_patch.py $d/patch.diff $ovd 2>/var/tmp/seed-sweep/$id.patcherr)
    if [ -z "$OV" ]; then
      res="patch no longer applies to the current source (a later fix changed the site)"
    else
      VERIF_OVERLAY=$OV timeout 1500 ./check $P --seed 1 > /var/tmp/seed-sweep/$id.log 2>&1
      rc=$?
      line=$(grep "^VIOLATION" /var/tmp/seed-sweep/$id.log | head -1)
      stat=$(grep "^\[check\] $P " /var/tmp/seed-sweep/$id.log | tail -1)
      kind=""
      rp=$(echo "$line" | sed -n 's/.*replay=\([^ ]*\).*/\1/p')
      [ -n "$rp" ] && [ -f "$rp" ] && kind=$(python3 -c "import json;print(json.load(open('$rp')).get('kind',''))" 2>/dev/null)
      if [ $rc -eq 0 ]; then res="MISSED (exit 0) $stat"
      elif [ $rc -eq 124 ]; then res="timed out"
      elif echo "$line" | grep -q no-failing-input-found; then res="VIOLATION no-failing-input-found $stat"
      else res="VIOLATION with a failing input (replay kind $kind) $stat"; fi
    fi
    rm -rf $ovd
    python3 - "$d/meta.json" "$res" <<'PY'
import json,sys,datetime
p,res=sys.argv[1],sys.argv[2]
m=json.load(open(p)); m["sweep"]={"at":datetime.datetime.utcnow().strftime("%Y-%m-%d %H:%M UTC"),"result":res}
json.dump(m,open(p,"w"),indent=1)
PY
    echo "$id: $res"
  done
  # leave the generated facts and the driver of this property in the state of /repo itself
  ./check $P --seed 1 > /var/tmp/seed-sweep/$P-final.log 2>&1; echo "$P unchanged-tree: exit $? $(grep "^\[check\] $P " /var/tmp/seed-sweep/$P-final.log | tail -1)"
done
