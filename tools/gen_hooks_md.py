#!/usr/bin/env python3
"""tools/gen_hooks_md.py — rewrite the hook table of DESIGN.md §6 (between <!-- hooks begin/end -->) from
`git -C /repo log`: every commit whose subject starts with "verif hook:", grouped by the files it touches."""
import os, re, subprocess, collections
root = os.path.dirname(os.path.dirname(os.path.abspath(__file__)))
repo = os.environ.get("VERIF_REPO", "/repo")
out = subprocess.run(["git", "-C", repo, "log", "--reverse", "--format=@@%h %s", "--name-only", "--grep=^verif hook:"],
                     capture_output=True, text=True).stdout
files = collections.OrderedDict()
cur = None
for l in out.splitlines():
    if l.startswith("@@"):
        h, s = l[2:].split(" ", 1)
        cur = (h, s[len("verif hook:"):].strip())
    elif l.strip() and cur:
        files.setdefault(l.strip(), []).append(cur)
rows = ["| file (all `//go:build verif`) | commits | what the commits say they expose |", "|---|---|---|"]
for f, cs in files.items():
    says = "; ".join(dict.fromkeys(s for _, s in cs))
    says = says.replace("|", "\\|")
    if len(says) > 420:
        says = says[:419] + "…"
    rows.append("| `%s` | %s | %s |" % (f, " ".join(h for h, _ in cs), says))
p = os.path.join(root, "DESIGN.md")
s = open(p).read()
blk = "<!-- hooks begin -->\n" + "\n".join(rows) + "\n<!-- hooks end -->"
if "<!-- hooks begin -->" in s:
    s = re.sub(r"<!-- hooks begin -->.*?<!-- hooks end -->", lambda _: blk, s, flags=re.S)
else:
    m = re.search(r"\| file \| commits \| what it exposes \| used by \|\n(\|.*\n)+", s)
    s = s[:m.start()] + blk + "\n" + s[m.end():]
open(p, "w").write(s)
print("hooks table:", len(files), "files")
