#!/usr/bin/env python3
"""Sensitivity set of C09: (re)creates every mutant overlay from /repo's current tree under
/var/tmp/c09-mut/<name>/overlay.json (hand-made mutants and the revert of every C09 repair);
run each with VERIF_OVERLAY=<overlay.json> ./check C09. The revert of d2cac61 no longer applies
as a patch (a2cd771 touched the same lines): it is made by hand at the end."""
import json, os, shutil, subprocess, sys
ROOT='/var/tmp/c09-mut'
def mut(name, edits):
    d=os.path.join(ROOT,name); shutil.rmtree(d,ignore_errors=True); os.makedirs(d)
    rep={}
    for rel, old, new in edits:
        dst=os.path.join(d,rel.replace('/','_'))
        src=dst if os.path.exists(dst) else '/repo/'+rel
        s=open(src).read()
        assert s.count(old)>=1, (name, rel, 'pattern not found')
        s=s.replace(old,new,1)
        open(dst,'w').write(s)
        rep['/repo/'+rel]=dst
    json.dump({"Replace":rep},open(d+'/overlay.json','w'),indent=1)
    print(name,'ok')
def revert(commit, skip=(), extra=()):
    name='rev-'+commit
    d=os.path.join(ROOT,name); shutil.rmtree(d,ignore_errors=True); os.makedirs(d)
    files=subprocess.check_output(['git','-C','/repo','show','--format=','--name-only',commit],text=True).split()
    files=[f for f in files if f not in skip]
    patch=subprocess.check_output(['git','-C','/repo','diff',commit,commit+'^','--']+files,text=True)
    open(d+'/rev.diff','w').write(patch)
    tree=d+'/tree'
    for f in files:
        os.makedirs(os.path.dirname(os.path.join(tree,f)),exist_ok=True)
        shutil.copy('/repo/'+f, os.path.join(tree,f))
    r=subprocess.run(['patch','-p1','-s','-i',d+'/rev.diff'],cwd=tree,capture_output=True,text=True)
    if r.returncode!=0:
        print(name,'PATCH FAILED',r.stdout,r.stderr); return
    rep={'/repo/'+f: os.path.join(tree,f) for f in files}
    for rel, old, new in extra:
        dst=os.path.join(tree,rel); os.makedirs(os.path.dirname(dst),exist_ok=True)
        s=open('/repo/'+rel).read(); assert old in s, (name, rel)
        open(dst,'w').write(s.replace(old,new,1)); rep['/repo/'+rel]=dst
    json.dump({"Replace":rep},open(d+'/overlay.json','w'),indent=1)
    print(name,'ok',files)

mut('m1-covered-lt',[('engine/immutable/tssp_file_meta.go','return tr.Min <= min && tr.Max >= max','return tr.Min < min && tr.Max >= max')])
mut('m1b-rowstop',[('engine/immutable/reader.go','n = sort.Search(len(times), func(i int) bool { return times[i] > t })','n = sort.Search(len(times), func(i int) bool { return times[i] >= t })')])
mut('m1c-covered-overlap',[('engine/immutable/tssp_file_meta.go','return tr.Min <= min && tr.Max >= max','return tr.Min <= min && tr.Max >= min && max >= min')])
mut('m2-merge-stats-first-only',[('engine/immutable/stream_compact.go','''			aggBuilder.merge(ab)
		}
	}

	cm.preAgg = aggBuilder.marshal(cm.preAgg[:0])
	return nil
}''','''			_ = ab // mutant: the statistics of the other inputs are dropped
		}
	}

	cm.preAgg = aggBuilder.marshal(cm.preAgg[:0])
	return nil
}''')])
mut('m3-mintime-tie',[('engine/immutable/pre_aggregation.go','''		if agg[minIndex] > v {
			agg[minIndex] = v
			agg[minTIndex] = times[i]
		}''','''		if agg[minIndex] >= v {
			agg[minIndex] = v
			agg[minTIndex] = times[i]
		}''')])
mut('m4-count-nulls',[('engine/immutable/pre_aggregation.go','''		agg[sumIndex] += v
	}

	agg[countIndex] += int64(valLen)''','''		agg[sumIndex] += v
	}

	agg[countIndex] += int64(valLen) + int64(col.NilCount)''')])
mut('m5-preagg-with-filter',[('engine/iterators_helper.go','''	if ctx.hasFieldCondition() || schema.HasFieldCondition() {
		return false
	}

	if schema.Options().GetHintType()''','''	if schema.Options().GetHintType()''')])
mut('m6-firstlast-shortcut-max',[('engine/immutable/first_last_reader.go','''		val, tm, ok := r.ReadMinFromPreAgg(colMeta)

		return val, tm, ok && tm == sr.minTime()''','''		val, tm, ok := r.ReadMinFromPreAgg(colMeta)

		return val, tm, ok && tm <= sr.maxTime()''')])
revert('b8a54da', skip=('engine/iterators_helper.go',), extra=[('engine/iterators_helper.go','''		if descending {
			first, firstTime := r.record.ColMeta[idx].First()
			last, lastTime := r.record.ColMeta[idx].Last()
			r.record.ColMeta[idx].SetFirst(last, lastTime)
			r.record.ColMeta[idx].SetLast(first, firstTime)
		}
''','		_ = descending\n')])
for c in ['f830b3c','65eec77','ed4137d','aae5dd9','a67f692','2179f5e','1e3d664','3611c7a','590f987','a2cd771']:
    revert(c)

# revert of d2cac61 by hand
import re
d=os.path.join(ROOT,'rev-d2cac61'); shutil.rmtree(d,ignore_errors=True); os.makedirs(d)
s=open('/repo/engine/iterators_helper.go').read()
assert len(re.findall(r"\.SetLast\((\w+)\[lastIndex\], lastTime\)", s))==4
s=re.sub(r"\.SetLast\((\w+)\[lastIndex\], lastTime\)", r".SetLast(\1[lastIndex], timeCols[len(timeCols)-1])", s)
s=s.replace("\t\tlastTime = timeCol\n","\t\t_ = lastTime\n")
dst=d+'/iterators_helper.go'; open(dst,'w').write(s)
json.dump({"Replace":{"/repo/engine/iterators_helper.go":dst}},open(d+'/overlay.json','w'))
print('rev-d2cac61 ok (by hand)')
