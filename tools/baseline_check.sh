#!/bin/bash
# Runs the repository's own test suite with the verif guard OFF on a given checkout and reports
# every test of the pinned stable baseline (/root/.vp/BASELINE.json) that does not pass.
# usage: tools/baseline_check.sh <repo-dir> <out-dir> [pkg pattern...]
set -u
REPO=${1:-/repo}; OUT=${2:-/var/tmp/verif-baseline}; shift 2 || true
PKGS=${@:-./...}
mkdir -p "$OUT"
export GOFLAGS=-mod=mod GOPROXY=off
unset GOSUMDB GOTOOLCHAIN
for m in . lib/util/lifted/VictoriaMetrics lib/util/lifted/influxdb; do
  [ "$m" != "." ] && [ "$PKGS" != "./..." ] && continue
  (cd "$REPO/$m" && go test -json -vet=off -count=1 -timeout 25m $PKGS) >> "$OUT/gotest.json" 2>> "$OUT/gotest.err"
done
python3 - "$OUT/gotest.json" <<'PY'
import json,sys
passed=set(); failed=set(); seenpk=set()
for l in open(sys.argv[1],errors='replace'):
    try: e=json.loads(l)
    except Exception: continue
    t=e.get('Test'); 
    if e.get('Package'): seenpk.add(e['Package'])
    if not t: continue
    k=e['Package']+'::'+t
    if e.get('Action')=='pass': passed.add(k)
    elif e.get('Action')=='fail': failed.add(k)
base=set(json.load(open('/root/.vp/BASELINE.json'))['stable_pass'])
rel=[b for b in base if b.split('::')[0] in seenpk]
missing=sorted(b for b in rel if b not in passed)
print('baseline tests in the packages run:',len(rel),'passed:',len([b for b in rel if b in passed]),'NOT passing:',len(missing))
for m in missing: print('  NOTPASS',m, '(failed)' if m in failed else '(not run / skipped)')
PY
