#!/usr/bin/env python3
"""Developer tool for C09 (run deliberately, after a *reviewed* change of the transcribed
sources): rewrites the data expectations of lean/OG/C09/Facts.lean from
lean/OG/Generated/C09.lean. The hand-written header (closed formulas of the predicates) is kept.
usage: tools/c09_refresh_facts.py [generated-file]"""
import re, sys, os
root = os.path.dirname(os.path.dirname(os.path.abspath(__file__)))
gen = sys.argv[1] if len(sys.argv) > 1 else os.path.join(root, "lean/OG/Generated/C09.lean")
facts = os.path.join(root, "lean/OG/C09/Facts.lean")
g = open(gen).read()
g = g[g.index("namespace OG.Gen.C09"):]
s = open(facts).read()
marker = "/-! ## data expectations (tools/c09_refresh_facts.py) -/\n"
if marker in s:
    head = s[:s.index(marker)]
else:
    # first run: everything before the first data theorem
    m = re.search(r"^theorem (hintNames|generationFailed)_expected", s, flags=re.M)
    head = s[:m.start()]
out = [head.rstrip("\n") + "\n\n" + marker]
for m in re.finditer(r"^def (\w+) : ([^\n]*?) := (.*?)(?=^def |^end )", g, flags=re.M | re.S):
    name, body = m.group(1), m.group(3).rstrip("\n")
    if name == "generationFailed":
        continue
    out.append("theorem %s_expected : %s = %s := by rfl\n" % (name, name, body))
out.append("end OG.C09.Facts\n")
open(facts, "w").write("\n".join(out))
print("rewrote", facts, "with", len(out) - 2, "data expectations")
# keep the list of audited fact theorems in props/C09.json in step
import json
pp = os.path.join(root, "props/C09.json")
if os.path.exists(pp):
    cfg = json.load(open(pp))
    names = re.findall(r"^theorem (\w+)", open(facts).read(), flags=re.M)
    cfg["theorems"]["OG.C09.Facts"] = ["OG.C09.Facts." + n for n in names]
    json.dump(cfg, open(pp, "w"), indent=1)
    print("props/C09.json lists", len(names), "fact theorems")
