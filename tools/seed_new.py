#!/usr/bin/env python3
"""tools/seed_new.py <Cxx> <n> — create a scratch worktree /tmp/seed-<Cxx>-<n> of /repo (detached HEAD) and an output
directory /tmp/seed-<Cxx>-<n>-out holding PROPERTY.txt, and print the prompt for the adversary sub-agent
(seeded/MUTANT_PROMPT.txt filled in). The agent gets nothing from /verif but the property text."""
import json, os, subprocess, sys
pid, n = sys.argv[1], sys.argv[2]
root = os.path.dirname(os.path.dirname(os.path.abspath(__file__)))
prop = None
for l in open(os.path.join(root, "properties.jsonl")):
    p = json.loads(l)
    if p["id"] == pid:
        prop = p
wt, out = "/tmp/seed-%s-%s" % (pid, n), "/tmp/seed-%s-%s-out" % (pid, n)
if not os.path.exists(wt):
    subprocess.check_call(["git", "-C", "/repo", "worktree", "add", "--detach", "-q", wt])
os.makedirs(out, exist_ok=True)
text = "%s — %s\n\n%s\n\nQuantifier: %s\n\nAnchors (files): %s\nMechanisms: %s\n" % (
    pid, prop["title"], prop["statement"], prop["quantifier"]["text"],
    ", ".join(prop["anchors"]["files"]),
    "; ".join("%s (%s)" % (m["name"], m["where"]) for m in prop["anchors"].get("mechanism", [])))
open(os.path.join(out, "PROPERTY.txt"), "w").write(text)
extra = " ".join(sys.argv[3:])
t = open(os.path.join(root, "seeded", "MUTANT_PROMPT.txt")).read().format(WT=wt, OUT=out, PROP=text, ID=pid)
if extra:
    t += "\nAdditional direction: " + extra + "\n"
print(t)
