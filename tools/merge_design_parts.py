#!/usr/bin/env python3
"""Insert design_parts/Cxx.md (written by the agent that built Cxx) at the end of the §5
subsection of Cxx in DESIGN.md, between markers, replacing what was there before."""
import re, os, sys
root = os.path.dirname(os.path.dirname(os.path.abspath(__file__)))
dp = os.path.join(root, "design_parts")
path = os.path.join(root, "DESIGN.md")
s = open(path).read()
for f in sorted(os.listdir(dp)):
    m = re.fullmatch(r"(C\d\d)\.md", f)
    if not m:
        continue
    pid = m.group(1)
    body = open(os.path.join(dp, f)).read().strip()
    # demote the part's headings to bold run-in titles
    body = re.sub(r"^## +built\s*$", "", body, flags=re.M)
    body = re.sub(r"^## +(.+?)\s*$", lambda k: "**[built — %s]**" % k.group(1), body, flags=re.M)
    body = re.sub(r"^#+ +(.+?)\s*$", lambda k: "*%s*" % k.group(1), body, flags=re.M)
    begin, end = "<!-- built:%s begin -->" % pid, "<!-- built:%s end -->" % pid
    block = begin + "\n" + body.strip() + "\n" + end + "\n"
    if begin in s:
        a, b = s.index(begin), s.index(end) + len(end) + 1
        s = s[:a] + block + s[b:]
        continue
    h = re.search(r"^### %s\b.*$" % pid, s, flags=re.M)
    if not h:
        print("no section for", pid, file=sys.stderr)
        continue
    nxt = re.search(r"^(### C\d\d\b|## \d+\.|-{20,})", s[h.end():], flags=re.M)
    at = h.end() + nxt.start()
    s = s[:at].rstrip("\n") + "\n\n" + block + "\n" + s[at:]
open(path, "w").write(s)
