#!/usr/bin/env python3
"""Write lean/OG/C18/Facts.lean: one `_expected` theorem per definition of OG/Generated/C18.lean,
recording the current value (run once after the model was written / after a reviewed source change)."""
import re, sys
gen = open('/verif/lean/OG/Generated/C18.lean').read()
out = ['''/-
C18 — expectations about the regenerated facts. Each theorem compares what ogfacts extracted
from /repo *now* (OG.Gen.C18: look-back default, the PromQL-name -> InfluxQL-call -> reducer
tables, the window arithmetic of the transpiler and of the range / instant vector cursors, the
extrapolation formula) with what the reference semantics and OGWin.lean were written against.
A failure means the modelled source changed shape; the correspondence run then decides whether
the property still holds (and supplies the replay).
-/
import OG.Generated.C18
import OG.C18.OGRec

namespace OG.C18.Facts
open OG.Gen.C18

theorem generation_ok : generationFailed = false := by rfl
''']
names = []
# single-line defs
for m in re.finditer(r'^def (\w+) : (String|Int|List String) := (.*)$', gen, re.M):
    n, ty, val = m.group(1), m.group(2), m.group(3)
    out.append('theorem %s_expected : %s = %s := by rfl\n' % (n, n, val))
    names.append(n + '_expected')
# list defs
for m in re.finditer(r'^def (\w+) : List \(String × String\) := \[\n(.*?)\n\]', gen, re.M | re.S):
    n, body = m.group(1), m.group(2)
    out.append('theorem %s_expected : %s = [\n%s\n] := by rfl\n' % (n, n, body))
    names.append(n + '_expected')
out.append('''/-- the look-back the reference semantics uses by default is the code's default. -/
theorem lookback_is_5m : lookbackMs = 5 * 60 * 1000 := by decide

/-- every function of the checked subset has a PromQL name -> InfluxQL call -> reducer chain. -/
def subsetChain : List (String × String × String) := [
  ("rate", "rate_prom", "&rateOp{}"), ("increase", "increase", "&increaseOp{}"),
  ("delta", "delta_prom", "&deltaOp{}"), ("irate", "irate_prom", "&irateOp{}"),
  ("idelta", "idelta_prom", "&ideltaOp{}"), ("sum_over_time", "sum_over_time", "&sumOp{}"),
  ("avg_over_time", "avg_over_time", "&avgOp{}"), ("min_over_time", "min_over_time", "&minOp{}"),
  ("max_over_time", "max_over_time", "&maxOp{}"), ("count_over_time", "count_over_time", "&countOp{}"),
  ("last_over_time", "last_over_time_prom", "&lastOp{}"),
  ("present_over_time", "present_over_time_prom", "&intervalExistMark{}")]

def chainOk (c : String × String × String) : Bool :=
  rangeVectorFunctions.lookup c.1 == some c.2.1 && promFunctionRegistry.lookup c.2.1 == some c.2.2

theorem subset_chain_ok : subsetChain.all chainOk = true := by decide

/-- the duration-to-zero clamp of the store-side rate / increase has the reference's condition
(`clampApplies`: counter, increase > 0, first value >= 0 - a first value of exactly 0 is clamped). -/
theorem clamp_condition_engine_is_reference :
    clampCond_engine = ["isCounter", "reduceResult > 0", "pointCount > 0", "firstValue >= 0"] := by decide

/-- the subquery-side implementation has the same condition on the values; it lacks `isCounter`
(recorded finding: delta over a subquery is cut at the zero point). -/
theorem clamp_condition_executor_is_reference_but_counter :
    clampCond_executor = ["reduceResult > 0", "pointCount > 0", "firstValue >= 0"] := by decide

/-- only `last_over_time` keeps the metric name (the reference: `rfnLabels`). -/
theorem keepMetric_only_last : keepMetricFunctions = ["last_over_time"] := by decide
''')
names += ['generation_ok', 'lookback_is_5m', 'subset_chain_ok', 'keepMetric_only_last', 'clamp_condition_engine_is_reference', 'clamp_condition_executor_is_reference_but_counter']
out.append('end OG.C18.Facts\n')
open('/verif/lean/OG/C18/Facts.lean', 'w').write('\n'.join(out))
print('\n'.join('   "OG.C18.Facts.%s",' % n for n in names))
