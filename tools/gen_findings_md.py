#!/usr/bin/env python3
"""Regenerate the tables of DESIGN.md §7 (between markers) from known_findings.jsonl."""
import json, os, re
root = os.path.dirname(os.path.dirname(os.path.abspath(__file__)))
fixed, known = [], []
for line in open(os.path.join(root, "known_findings.jsonl")):
    line = line.strip()
    if not line or line.startswith("#"):
        continue
    if line.startswith("fixed:"):
        m = re.match(r"fixed:\s+property=(C\d\d)\s+(\S+)\s+(.*)", line)
        fixed.append((m.group(1), m.group(2), m.group(3)))
    else:
        j = json.loads(line)
        known.append((j["property"], j["class"], j["what"]))
def esc(t, n):
    t = t.replace("|", "\\|").replace("\n", " ")
    return t if len(t) <= n else t[: n - 1].rstrip() + "…"
out = ["<!-- findings begin -->", "",
       "**Repaired in /repo (%d `fix:` commits; a `fixed:` entry suppresses nothing):**" % len(fixed), "",
       "| prop | commit | what failed |", "|---|---|---|"]
for p, c, w in sorted(fixed):
    out.append("| %s | %s | %s |" % (p, c, esc(w, 330)))
out += ["", "**Recorded, not repaired (%d classes; the check prints `KNOWN-FINDING:` for each one it meets and exits 0):**" % len(known), "",
        "| prop | class | what fails |", "|---|---|---|"]
for p, c, w in sorted(known):
    out.append("| %s | `%s` | %s |" % (p, c, esc(w, 420)))
out += ["", "<!-- findings end -->"]
path = os.path.join(root, "DESIGN.md")
s = open(path).read()
a, b = s.index("<!-- findings begin -->"), s.index("<!-- findings end -->") + len("<!-- findings end -->")
open(path, "w").write(s[:a] + "\n".join(out) + s[b:])
print(len(fixed), "fixed,", len(known), "known")
