#!/usr/bin/env python3
"""tools/seed_save.py <id e.g. C19-1> <outdir> <key=value>...  — copy a confirmed seed into /verif/seeded/<id>/ and
record the main session's confirmation in meta.json (keys go under confirmed_by_main_session)."""
import json, os, shutil, sys, glob
sid, out = sys.argv[1], sys.argv[2]
dst = os.path.join(os.path.dirname(os.path.dirname(os.path.abspath(__file__))), "seeded", sid)
os.makedirs(dst, exist_ok=True)
for f in ["patch.diff", "demo_cmd.txt", "meta.json", "check_with.log"] + [os.path.basename(x) for x in glob.glob(out + "/*_test.go")]:
    if os.path.exists(os.path.join(out, f)):
        shutil.copy(os.path.join(out, f), os.path.join(dst, f))
m = json.load(open(os.path.join(dst, "meta.json")))
c = m.get("confirmed_by_main_session", {})
c.update({"demo_without_change": "pass", "demo_with_change": "fail",
          "ran": "tools/seed_verify.sh %s %s %s" % (sid.split("-")[0], out.replace("-out", ""), out)})
for kv in sys.argv[3:]:
    k, v = kv.split("=", 1)
    c[k] = v
m["confirmed_by_main_session"] = c
json.dump(m, open(os.path.join(dst, "meta.json"), "w"), indent=1)
print("saved", dst)
