#!/usr/bin/env python3
"""Regenerates MANIFEST.json from props/*.json (one file per claimed property)."""
import json, os, glob
ROOT = os.path.dirname(os.path.dirname(os.path.abspath(__file__)))
props = [json.loads(l)["id"] for l in open(os.path.join(ROOT, "properties.jsonl")) if l.strip()]
cfgs = {}
import subprocess
# only props files that are committed (or at least staged) count: MANIFEST must describe what a
# fresh checkout of /verif can run, not an agent's work in progress
tracked = set(subprocess.run(["git", "-C", ROOT, "ls-files", "props"], capture_output=True, text=True).stdout.split())
for f in sorted(glob.glob(os.path.join(ROOT, "props", "C*.json"))):
    if os.path.relpath(f, ROOT) not in tracked and not os.environ.get("MANIFEST_INCLUDE_UNTRACKED"):
        continue
    c = json.load(open(f))
    cfgs[c["id"]] = c
na_reasons = {}
nap = os.path.join(ROOT, "props", "not_applicable.json")
if os.path.exists(nap):
    na_reasons = json.load(open(nap))
claimed = [p for p in props if p in cfgs and not cfgs[p].get("unclaimed")]
hooks_commits = []
import subprocess
hooks = {"source_commits": []}
try:
    out = subprocess.run(["git", "-C", os.environ.get("VERIF_REPO", "/repo"), "log", "--format=%H %s"],
                         capture_output=True, text=True).stdout
    hooks["source_commits"] = [l.split()[0] for l in out.splitlines() if " verif hook:" in l][::-1]
except Exception:
    pass
m = {
 "version": 1,
 "setup_cmd": "./setup.sh",
 "hooks": {"guard": "verif",
           "enable": "go build -tags verif (the harness module /verif/harness replaces github.com/openGemini/openGemini with /repo); hook files in /repo carry //go:build verif",
           "baseline_off_cmd": "cd /repo && go test -mod=mod -vet=off -count=1 -timeout 25m ./...",
           "source_commits": hooks.get("source_commits", []), "add_only": True},
 "engines": [
  {"name": "lean-proofs", "path": "/verif/lean", "serves_properties": claimed, "kind_free_text": "Lean 4 models and theorems (lake project; models core-only, proofs kernel-checked, axioms audited)"},
  {"name": "ogfacts", "path": "/verif/ogfacts", "serves_properties": [p for p in claimed if cfgs[p].get("facts")], "kind_free_text": "go/ast fact extractor and mini translator Go -> Lean, run on every check against /repo's working tree"},
  {"name": "ogh", "path": "/verif/harness", "serves_properties": [p for p in claimed if cfgs[p].get("harness")], "kind_free_text": "Go correspondence harness: runs the real code in-process (built from the working tree, -tags verif), diffed line by line against the Lean model driver"}],
 "checks": [],
 "notes": "See DESIGN.md. Every check: regenerate facts -> lake build proofs -> axiom audit -> harness vs Lean model driver -> spec diff classified against known_findings.jsonl.",
 "not_applicable": [],
}
for p in props:
    if p in claimed:
        c = cfgs[p]
        m["checks"].append({
            "property_id": p,
            "quick_cmd": "./check %s --tier quick" % p,
            "thorough_cmd": "./check %s --tier thorough" % p,
            "evidence_file": "/verif/evidence/%s.json" % p,
            "replay_cmd_template": "./check %s --replay {path}" % p,
            "engine": "lean-proofs",
            "level_claimed": {"category": c.get("level", "proof"), "text": c.get("level_text", ""), "design_ref": c.get("design_ref", "DESIGN.md §5 " + p)},
            "level_note": c.get("level_note", "; ".join(c.get("trusted_base", []))),
            "technique": c.get("technique", "Lean 4 theorems over a model + regenerated facts + Go-vs-Lean correspondence"),
        })
    else:
        m["not_applicable"].append({"property_id": p, "reason": na_reasons.get(p, "no check registered yet in this round: the Lean model / correspondence for this property is not built; see DESIGN.md §5 for the plan")})
json.dump(m, open(os.path.join(ROOT, "MANIFEST.json"), "w"), indent=1)
print("claimed:", claimed)
