#!/usr/bin/env python3
"""tools/gen_seed_table.py — rewrite the table between <!-- seeds begin --> and <!-- seeds end --> in DESIGN.md
from seeded/*/meta.json (summary, needs, confirmed_by_main_session.check_result_first_run,
check_result_after_strengthening — the latter may sit at top level or under confirmed_by_main_session)."""
import glob, json, os, re
root = os.path.dirname(os.path.dirname(os.path.abspath(__file__)))
def short(s, n):
    s = " ".join(str(s).split()).replace("|", "\\|")
    return s if len(s) <= n else s[: n - 1].rstrip() + "…"
rows = []
for d in sorted(glob.glob(os.path.join(root, "seeded", "C*-*")), key=lambda p: (os.path.basename(p).split("-")[0], int(os.path.basename(p).split("-")[1]))):
    mp = os.path.join(d, "meta.json")
    if not os.path.exists(mp):
        continue
    m = json.load(open(mp))
    c = m.get("confirmed_by_main_session", {})
    first = c.get("check_result_first_run") or c.get("check_result", "")
    after = m.get("check_result_after_strengthening") or c.get("check_result_after_strengthening") or "—"
    if isinstance(after, dict):
        after = "; ".join("%s: %s" % kv for kv in after.items())
    f = ", ".join(m.get("files", []))
    if first.upper().startswith("MISSED"):
        first = "**missed** " + first[6:].lstrip(": ")
    rows.append("| %s | %s (`%s`) | %s | %s | %s |" % (os.path.basename(d), short(m.get("summary", ""), 260), short(f, 90),
                short(m.get("needs", ""), 260), short(first, 300), short(after, 300)))
hdr = ["| seed | change (site) | what it needs to show | first run | after strengthening |", "|---|---|---|---|---|"]
p = os.path.join(root, "DESIGN.md")
s = open(p).read()
s2 = re.sub(r"<!-- seeds begin -->.*?<!-- seeds end -->", lambda _: "<!-- seeds begin -->\n" + "\n".join(hdr + rows) + "\n<!-- seeds end -->", s, flags=re.S)
open(p, "w").write(s2)
print("seed table:", len(rows), "rows")
