#!/usr/bin/env python3
"""tools/gen_seed_table.py — rewrite the table between <!-- seeds begin --> and <!-- seeds end --> in DESIGN.md
from seeded/*/meta.json (summary, needs, confirmed_by_main_session.check_result_first_run,
check_result_after_strengthening — the latter may sit at top level or under confirmed_by_main_session)."""
import glob, json, os, re
root = os.path.dirname(os.path.dirname(os.path.abspath(__file__)))
def short(s, n):
    s = " ".join(str(s).split()).replace("|", "\\|")
    return s if len(s) <= n else s[: n - 1].rstrip() + "…"
rows = []
for d in sorted(glob.glob(os.path.join(root, "seeded", "C*-*")), key=lambda p: (os.path.basename(p).split("-")[0], int(os.path.basename(p).split("-")[1]))):
    mp = os.path.join(d, "meta.json")
    if not os.path.exists(mp):
        continue
    m = json.load(open(mp))
    c = m.get("confirmed_by_main_session", {})
    first = c.get("check_result_first_run") or c.get("check_result", "")
    after = m.get("check_result_after_strengthening") or c.get("check_result_after_strengthening") or "—"
    if isinstance(after, dict):
        after = "; ".join("%s: %s" % kv for kv in after.items())
    f = ", ".join(m.get("files", []))
    if first.upper().startswith("MISSED"):
        first = "**missed** " + first[6:].lstrip(": ")
    rows.append("| %s | %s (`%s`) | %s | %s | %s |" % (os.path.basename(d), short(m.get("summary", ""), 260), short(f, 90),
                short(m.get("needs", ""), 260), short(first, 300), short(after, 300)))
hdr = ["| seed | change (site) | what it needs to show | first run | after strengthening |", "|---|---|---|---|---|"]
p = os.path.join(root, "DESIGN.md")
s = open(p).read()
s2 = re.sub(r"<!-- seeds begin -->.*?<!-- seeds end -->", lambda _: "<!-- seeds begin -->\n" + "\n".join(hdr + rows) + "\n<!-- seeds end -->", s, flags=re.S)
# summary paragraph
def cls(t):
    t = str(t)
    if not t or t == "—": return None
    if t.upper().startswith("MISSED") or t.startswith("**missed**"): return "missed"
    if "no-failing-input-found" in t.split("(kind failing-input)")[0] and "kind failing-input" not in t: return "nofi"
    return "input"
first, final = {"input": 0, "nofi": 0, "missed": 0}, {"input": 0, "nofi": 0, "missed": 0}
for d in sorted(glob.glob(os.path.join(root, "seeded", "C*-*"))):
    mp = os.path.join(d, "meta.json")
    if not os.path.exists(mp): continue
    m = json.load(open(mp)); c = m.get("confirmed_by_main_session", {})
    f = cls(c.get("check_result_first_run") or c.get("check_result", "")) or "input"
    a = m.get("check_result_after_strengthening") or c.get("check_result_after_strengthening")
    if isinstance(a, dict): a = a.get("result") or "; ".join("%s: %s" % kv for kv in a.items())
    first[f] += 1
    g = cls(a) if a else None
    final[g or f] += 1
n = sum(first.values())
sweep_ok = sweep_n = 0
for d in glob.glob(os.path.join(root, "seeded", "C*-*")):
    mp = os.path.join(d, "meta.json")
    if os.path.exists(mp):
        sw = json.load(open(mp)).get("sweep")
        if sw:
            sweep_n += 1
            if sw.get("result", "").startswith("VIOLATION with a failing input"): sweep_ok += 1
summ = ("<!-- seedsum begin -->\n**Summary (generated).** %d seeded changes, each confirmed both ways by the main session. First run of the check as it was "
        "when the seed arrived: %d reported with a concrete failing input, %d reported as `no-failing-input-found` (a proof obligation or the "
        "correspondence broke, the search found no input), %d missed (exit 0). After the strengthening the misses and no-input catches triggered: "
        "%d reported with a failing input, %d as `no-failing-input-found`, %d still missed. Every miss was a part of the code outside the model and the tie at "
        "the time (a reader object reused across files, metadata the read path prunes with, a rewriting step between planning and shipping, the meta command "
        "decoding, a body reader failing mid-line …); the repair was always to bring that part into the model with a theorem and a regenerated fact, never to "
        "special-case the seed. A final regression sweep (`tools/seed_sweep.sh`, every saved seed re-run through `VERIF_OVERLAY` against "
        "the checks as committed, result under `sweep` in each `meta.json`) reported %d of %d seeds with a concrete failing input, and every property's "
        "check exited 0 on the unchanged tree right after its seeds.\n<!-- seedsum end -->" % (n, first["input"], first["nofi"], first["missed"], final["input"], final["nofi"], final["missed"], sweep_ok, sweep_n))
if "<!-- seedsum begin -->" in s2:
    s2 = re.sub(r"<!-- seedsum begin -->.*?<!-- seedsum end -->", lambda _: summ, s2, flags=re.S)
else:
    s2 = s2.replace("<!-- seeds begin -->", summ + "\n\n<!-- seeds begin -->", 1)
open(p, "w").write(s2)
print("seed table:", len(rows), "rows")
