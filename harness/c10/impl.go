package c10

import (
	"bytes"
	"encoding/hex"
	"flag"
	"fmt"
	"os"
	"path/filepath"
	"regexp"
	"sort"
	"strings"
	"time"

	"github.com/openGemini/openGemini/engine/index/tsi"
	"github.com/openGemini/openGemini/lib/config"
	"github.com/openGemini/openGemini/lib/index"
	"github.com/openGemini/openGemini/lib/logger"
	"github.com/openGemini/openGemini/lib/syscontrol"
	"github.com/openGemini/openGemini/lib/util/lifted/influx/influxql"
	"github.com/openGemini/openGemini/lib/util/lifted/influx/meta"
	"github.com/openGemini/openGemini/lib/util/lifted/influx/query"
	"github.com/openGemini/openGemini/lib/util/lifted/vm/protoparser/influx"
	"github.com/savsgio/dictpool"
	"go.uber.org/zap"
)

var delTR = tsi.TimeRange{Min: 0, Max: 1000}

func initProcess() {
	// the repository logs every index operation to ~/.openGemini/logs: keep the harness quiet
	logger.SetLogger(zap.NewNop())
	_ = flag.Set("loggerLevel", "ERROR")
	if !flag.Parsed() {
		_ = flag.CommandLine.Parse([]string{})
	}
}

type ix struct {
	idx *tsi.MergeSetIndex
	b   *tsi.IndexBuilder
}

func openIndex(path string, clock uint64, seq *uint64) (*ix, error) {
	lockPath := ""
	ident := &meta.IndexIdentifier{OwnerDb: "db0", OwnerPt: 1, Policy: "rp0"}
	ident.Index = &meta.IndexDescriptor{IndexID: 2, IndexGroupID: 3, TimeRange: meta.TimeRangeInfo{}}
	now := time.Unix(1700000000, 0)
	opts := new(tsi.Options).Path(path).Ident(ident).IndexType(index.MergeSet).EngineType(config.TSSTORE).
		StartTime(now).EndTime(now.Add(time.Hour)).Duration(time.Hour).LogicalClock(clock).SequenceId(seq).Lock(&lockPath)
	b := tsi.NewIndexBuilder(opts)
	p, err := tsi.NewIndex(opts)
	if err != nil {
		return nil, err
	}
	p.SetIndexBuilder(b)
	rel, err := tsi.NewIndexRelation(opts, p, b)
	if err != nil {
		return nil, err
	}
	b.Relations[uint32(index.MergeSet)] = rel
	if err := b.Open(); err != nil {
		return nil, err
	}
	ms := p.(*tsi.MergeSetIndex)
	ms.VerifStopBackground()
	return &ix{idx: ms, b: b}, nil
}

// env is one index history on the real code: the series index of one partition, its delete
// index (created by the first delete, as storeTsids does) and an unrelated sibling index.
type env struct {
	dir    string
	clock  uint64
	now    uint64 // virtual unix seconds: the engine seeds the sequence with time.Now().Unix()
	seq    *uint64
	main   *ix
	del    *ix
	delSeq uint64
	sib    *ix
	sibDel *ix
	sibSeq uint64
	store    bool // persistent index cache on
	restarts int
}

func newEnv(dir string) (*env, error) {
	e := &env{dir: dir, clock: 1, now: 1000, store: curStore}
	if err := os.MkdirAll(dir, 0o750); err != nil {
		return nil, err
	}
	return e, e.openMain()
}

func (e *env) openMain() error {
	seed := e.now // partition.go: sequenceID: uint64(time.Now().Unix())
	e.seq = &seed
	m, err := openIndex(filepath.Join(e.dir, "main"), e.clock, e.seq)
	if err != nil {
		return err
	}
	e.main = m
	if _, err := os.Stat(filepath.Join(e.dir, "del")); err == nil {
		return e.openDel()
	}
	return nil
}

func (e *env) openDel() error {
	d, err := openIndex(filepath.Join(e.dir, "del"), e.clock, &e.delSeq)
	if err != nil {
		return err
	}
	if err := d.idx.LoadDeletedTSIDs(); err != nil {
		return err
	}
	e.del = d
	e.main.idx.SetDeleteMergeSet(d.idx)
	return nil
}

func (e *env) closeAll() {
	for _, x := range []*ix{e.main, e.del, e.sib, e.sibDel} {
		if x != nil {
			_ = x.b.Close()
		}
	}
	e.main, e.del, e.sib, e.sibDel = nil, nil, nil, nil
}

func (e *env) destroy() {
	e.closeAll()
	_ = os.RemoveAll(e.dir)
}

func makeRow(mst string, tags []tagKV) influx.Row {
	pt := influx.Row{Name: mst}
	for _, t := range tags {
		pt.Tags = append(pt.Tags, influx.Tag{Key: t.k, Value: t.v})
	}
	sort.Sort(&pt.Tags)
	pt.UnmarshalIndexKeys(nil)
	pt.ShardKey = pt.IndexKey
	return pt
}

func insertInto(x *ix, mst string, tags []tagKV) (uint64, error) {
	pts := []influx.Row{makeRow(mst, tags)}
	mm := &dictpool.Dict{}
	mm.Set(mst, &pts)
	if err := x.idx.CreateIndexIfNotExists(mm); err != nil {
		return 0, err
	}
	return pts[0].SeriesId, nil
}

func (e *env) insert(h *history, s *seriesT) (uint64, error) {
	return insertInto(e.main, h.msts[s.mst], s.tags)
}

func (e *env) get(h *history, s *seriesT) (uint64, error) {
	row := makeRow(h.msts[s.mst], s.tags)
	return e.main.idx.GetSeriesIdBySeriesKey(row.IndexKey)
}

func (e *env) reopen() error {
	if err := e.main.idx.Close(); err != nil {
		return err
	}
	if err := e.main.idx.Open(); err != nil {
		return err
	}
	e.main.idx.VerifStopBackground()
	return nil
}

// restart: the process ends and starts again dt (virtual) seconds later: same logical clock
// (no clock file, see LoadLogicalClock), sequence seeded from the wall clock again.
func (e *env) restart(dt uint64) error {
	// with the persistent index cache on, every other restart starts from the cache files of the
	// close before this one (what a start after a crash finds: the index is newer than the cache)
	var stale map[string]string
	if e.store && e.restarts%2 == 1 {
		stale = map[string]string{}
		for _, name := range []string{tsi.SeriesKeyToTSIDCacheName, tsi.TSIDToSeriesKeyCacheName, tsi.TagKeyToTagValueCacheName} {
			src := filepath.Join(e.dir, "main", name)
			if _, err := os.Stat(src); err == nil {
				dst := filepath.Join(e.dir, "stale-"+name)
				_ = os.RemoveAll(dst)
				if err := copyTree(src, dst); err != nil {
					return err
				}
				stale[src] = dst
			}
		}
	}
	e.restarts++
	e.closeAll()
	for src, dst := range stale {
		_ = os.RemoveAll(src)
		if err := copyTree(dst, src); err != nil {
			return err
		}
	}
	e.now += dt
	return e.openMain()
}

func copyTree(src, dst string) error {
	return filepath.Walk(src, func(p string, info os.FileInfo, err error) error {
		if err != nil {
			return err
		}
		rel, _ := filepath.Rel(src, p)
		target := filepath.Join(dst, rel)
		if info.IsDir() {
			return os.MkdirAll(target, 0o750)
		}
		b, err := os.ReadFile(p)
		if err != nil {
			return err
		}
		return os.WriteFile(target, b, 0o640)
	})
}

var curBF, curStore = false, false

// setIndexMode switches the bloom filter of the series-key lookup and the persistent index cache
// (both off by default) for the indexes opened from now on. Neither may change any answer.
func setIndexMode(bf, store bool) {
	config.SetIndexConfig(&config.Index{CacheCompressEnable: true, BloomFilterEnabled: bf})
	if store != curStore {
		syscontrol.SetIndexReadCachePersistent(store)
	}
	curBF, curStore = bf, store
}

func (e *env) ensureDel() error {
	if e.del != nil {
		return nil
	}
	return e.openDel()
}

func (p *pnode) expr() influxql.Expr {
	if p == nil {
		return nil
	}
	ref := func(k string) *influxql.VarRef { return &influxql.VarRef{Val: k, Type: influxql.Tag} }
	switch p.kind {
	case '&':
		return &influxql.BinaryExpr{Op: influxql.AND, LHS: p.l.expr(), RHS: p.r.expr()}
	case '|':
		return &influxql.BinaryExpr{Op: influxql.OR, LHS: p.l.expr(), RHS: p.r.expr()}
	case '(':
		return &influxql.ParenExpr{Expr: p.l.expr()}
	case '=':
		return &influxql.BinaryExpr{Op: influxql.EQ, LHS: ref(p.key), RHS: &influxql.StringLiteral{Val: p.val}}
	case '!':
		return &influxql.BinaryExpr{Op: influxql.NEQ, LHS: ref(p.key), RHS: &influxql.StringLiteral{Val: p.val}}
	case '~':
		return &influxql.BinaryExpr{Op: influxql.EQREGEX, LHS: ref(p.key), RHS: &influxql.RegexLiteral{Val: p.re.re}}
	default:
		return &influxql.BinaryExpr{Op: influxql.NEQREGEX, LHS: ref(p.key), RHS: &influxql.RegexLiteral{Val: p.re.re}}
	}
}

func (e *env) show(mst string, p *pnode) ([]uint64, error) {
	return e.main.idx.SearchSeriesByTableAndCond([]byte(mst), p.expr(), tsi.DefaultTR)
}

func (e *env) sel(mst string, p *pnode) ([]uint64, error) {
	opt := &query.ProcessorOptions{Condition: p.expr(), StartTime: tsi.DefaultTR.Min, EndTime: tsi.DefaultTR.Max}
	it, err := e.main.idx.SearchSeriesIterator(nil, []byte(mst), opt)
	if err != nil || it == nil {
		return nil, err
	}
	ids := it.Ids().AppendTo(nil)
	_ = it.Close()
	return ids, nil
}

func (e *env) keys(mst string, p *pnode) ([]string, error) {
	ks, err := e.main.idx.SearchSeriesKeys(nil, []byte(mst), p.expr())
	if err != nil {
		return nil, err
	}
	out := make([]string, 0, len(ks))
	for _, k := range ks {
		out = append(out, string(k))
	}
	return out, nil
}

func (e *env) tagvals(mst, key string, p *pnode) ([]string, error) {
	r, err := e.main.idx.SearchTagValues([]byte(mst), [][]byte{[]byte(key)}, p.expr())
	if err != nil || len(r) == 0 {
		return nil, err
	}
	return r[0], nil
}

func (e *env) delete(mst string, p *pnode) error {
	if err := e.ensureDel(); err != nil {
		return err
	}
	return e.main.idx.DeleteTSIDs([]byte(mst), p.expr(), delTR)
}

// sibling: an unrelated index in the same process issues the same numeric tsids, deletes
// them all and runs a select. Nothing of this may be visible in the main index.
func (e *env) sibling() error {
	if e.sib == nil {
		e.sibSeq = 1000 // same numbering as the first run of the main index
		s, err := openIndex(filepath.Join(e.dir, "sib"), e.clock, &e.sibSeq)
		if err != nil {
			return err
		}
		d, err := openIndex(filepath.Join(e.dir, "sibdel"), e.clock, new(uint64))
		if err != nil {
			return err
		}
		if err := d.idx.LoadDeletedTSIDs(); err != nil {
			return err
		}
		s.idx.SetDeleteMergeSet(d.idx)
		e.sib, e.sibDel = s, d
	}
	for i := 0; i < 6; i++ {
		if _, err := insertInto(e.sib, "sib_0000", []tagKV{{"n", fmt.Sprintf("v%d", e.sibSeq)}}); err != nil {
			return err
		}
	}
	e.sib.idx.DebugFlush()
	if err := e.sib.idx.DeleteTSIDs([]byte("sib_0000"), nil, delTR); err != nil {
		return err
	}
	opt := &query.ProcessorOptions{StartTime: tsi.DefaultTR.Min, EndTime: tsi.DefaultTR.Max}
	it, err := e.sib.idx.SearchSeriesIterator(nil, []byte("sib_0000"), opt)
	if err != nil {
		return err
	}
	if it != nil {
		_ = it.Close()
	}
	return nil
}

// fillRegex computes, through the accessors of verif_c10.go, what tagFilter.Init derived for
// the atom and evaluates spec / derived / prune matchers on every candidate value.
func fillRegex(h *history, mst string, at *reAtom, neg bool) error {
	name, key := []byte(mst), []byte(at.key)
	vtf, err := tsi.VerifNewTagFilter(name, key, []byte(at.re.String()), neg, true)
	if err != nil {
		return err
	}
	at.matchEmpty = at.re.MatchString("")
	at.value = string(vtf.Value())
	itemPrefix := tsi.VerifTagItemPrefix(name, key)
	full := vtf.Prefix()
	if !bytes.HasPrefix(full, itemPrefix) {
		return fmt.Errorf("tag filter prefix %x does not start with the item prefix %x", full, itemPrefix)
	}
	valPrefix := full[len(itemPrefix):]
	ors := vtf.OrSuffixes()
	// prune step (matchSeriesKeyTagFilter): substring test for a literal regexp, else the regexp
	// of tf.value matched unanchored
	var pre *regexp.Regexp
	var perr error
	lit := vtf.IsLiteralRegexp()
	at.tfLiteral = lit
	if !lit {
		pre, perr = regexp.Compile(at.value)
	}
	prune := func(v string) byte {
		switch {
		case lit:
			return b2c(strings.Contains(v, at.value))
		case perr != nil:
			return 'X'
		}
		return b2c(pre.MatchString(v))
	}
	at.rows = at.rows[:0]
	at.rows = append(at.rows, reRow{absent: true, spec: at.re.MatchString(""), prune: prune("")})
	for _, v := range h.valuesOfKey(at.key) {
		ev := tsi.VerifMarshalTagValue(nil, []byte(v))
		row := reRow{val: v, spec: at.re.MatchString(v), prune: prune(v)}
		if len(ors) > 0 {
			for _, s := range ors {
				want := append(append(append([]byte{}, valPrefix...), s...), 1)
				if bytes.Equal(ev, want) {
					row.tf = true
				}
			}
		} else if bytes.HasPrefix(ev, valPrefix) {
			ok, err := vtf.MatchSuffix(ev[len(valPrefix):])
			if err != nil {
				return err
			}
			row.tf = ok
		}
		at.rows = append(at.rows, row)
	}
	return nil
}

func hx2(s string) string { return "x" + hex.EncodeToString([]byte(s)) }

func b2c(b bool) byte {
	if b {
		return '1'
	}
	return '0'
}

func (at *reAtom) token() string {
	var sb strings.Builder
	// R:<matchEmpty><literal-regexp><empty text>:<tf.value>:<regex text>:<value/tf/prune;...>
	fmt.Fprintf(&sb, "R:%c%c%c:%s:%s:", b2c(at.matchEmpty), b2c(at.tfLiteral), b2c(at.text == ""), hx2(at.value), hx2(at.text))
	for i, r := range at.rows {
		if i > 0 {
			sb.WriteByte(';')
		}
		v := hx2(r.val)
		if r.absent {
			v = "_"
		}
		fmt.Fprintf(&sb, "%s/%c/%c", v, b2c(r.tf), r.prune)
	}
	return sb.String()
}

func (p *pnode) tokens(sb *strings.Builder) {
	if p == nil {
		sb.WriteString(" *")
		return
	}
	switch p.kind {
	case '&', '|':
		sb.WriteString(" " + string(p.kind))
		p.l.tokens(sb)
		p.r.tokens(sb)
	case '(':
		sb.WriteString(" (")
		p.l.tokens(sb)
	case '=', '!':
		fmt.Fprintf(sb, " %c %s %s", p.kind, hx2(p.key), hx2(p.val))
	default:
		fmt.Fprintf(sb, " %c %s %d", p.kind, hx2(p.key), p.re.idx)
	}
}

// predTokens: "<nre> R… <prefix tokens>"
func predTokens(p *pnode, res []*reAtom) string {
	var sb strings.Builder
	fmt.Fprintf(&sb, "%d", len(res))
	for _, at := range res {
		sb.WriteString(" " + at.token())
	}
	p.tokens(&sb)
	return sb.String()
}

func tagsToken(tags []tagKV) string {
	if len(tags) == 0 {
		return "-"
	}
	var parts []string
	for _, t := range tags {
		parts = append(parts, hx2(t.k)+"="+hx2(t.v))
	}
	return strings.Join(parts, ",")
}

func idsText(prefix string, ids []uint64) string {
	s := append([]uint64{}, ids...)
	sort.Slice(s, func(i, j int) bool { return s[i] < s[j] })
	var sb strings.Builder
	sb.WriteString(prefix)
	for _, x := range s {
		fmt.Fprintf(&sb, " %d", x)
	}
	return sb.String()
}
