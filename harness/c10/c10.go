package c10

import (
	"bufio"
	"crypto/sha1"
	"encoding/hex"
	"encoding/json"
	"fmt"
	"os"
	"os/exec"
	"path/filepath"
	"regexp"
	"regexp/syntax"
	"sort"
	"strconv"
	"strings"
	"sync"

	"verif/harness/internal/hx"
)

func init() { hx.Register("C10", Run) }

// spec is the property-level reference state of one history (independent of the index code).
type spec struct {
	h       *history
	live    map[int]uint64 // series -> its current (not deleted) id
	owner   map[uint64]int // every id ever issued -> series
	visible map[uint64]bool
	pending map[uint64]bool // issued, not yet followed by a flush / close
	deleted map[uint64]bool
	// made visible by a periodic (non-final) flush whose cache-generation bump is still owed: the
	// select path may answer from a stale tag-filter cache entry and miss them
	unsettled map[uint64]bool
	owed      bool // the flush callback of the table is owed (the harness took it over from the ticker)
}

func newSpec(h *history) *spec {
	return &spec{h: h, live: map[int]uint64{}, owner: map[uint64]int{}, visible: map[uint64]bool{}, pending: map[uint64]bool{}, deleted: map[uint64]bool{}, unsettled: map[uint64]bool{}}
}

// flush: a final flush (DebugFlush, ClearCache, Close): what was pending becomes visible and, if
// there was anything, the tag-filter cache generation is bumped at once.
func (sp *spec) flush() {
	if len(sp.pending) > 0 {
		sp.unsettled = map[uint64]bool{}
	}
	for id := range sp.pending {
		sp.visible[id] = true
	}
	sp.pending = map[uint64]bool{}
}

// settled: the tag-filter cache was dropped or its generation bumped
func (sp *spec) settled() { sp.unsettled = map[uint64]bool{} }

func sat(s *seriesT, p *pnode) bool {
	if p == nil {
		return true
	}
	switch p.kind {
	case '&':
		return sat(s, p.l) && sat(s, p.r)
	case '|':
		return sat(s, p.l) || sat(s, p.r)
	case '(':
		return sat(s, p.l)
	}
	v, _ := s.tag(p.key) // absent tag = empty string
	switch p.kind {
	case '=':
		return v == p.val
	case '!':
		return v != p.val
	case '~':
		return p.re.re.MatchString(v)
	default:
		return !p.re.re.MatchString(v)
	}
}

// expected ids of a search: lower = over flushed series, upper = flushed + pending.
func (sp *spec) expected(mst int, p *pnode) (lower, upper map[uint64]bool) {
	lower, upper = map[uint64]bool{}, map[uint64]bool{}
	for id, si := range sp.owner {
		s := &sp.h.univ[si]
		if sp.deleted[id] || s.mst != mst || !sat(s, p) {
			continue
		}
		if sp.visible[id] {
			lower[id] = true
			upper[id] = true
		} else if sp.pending[id] {
			upper[id] = true
		}
	}
	return
}

func setText(m map[uint64]bool) string {
	ids := make([]uint64, 0, len(m))
	for id := range m {
		ids = append(ids, id)
	}
	return idsText("", ids)
}

// unfaithful reports the finding class of the first regex atom whose derived (or prune)
// matcher disagrees with unanchored matching on a value of this universe; "" if none.
func unfaithfulClass(res []*reAtom) (string, string) {
	class, why := "", ""
	rank := func(c string) int {
		switch c {
		case "show_series_anchored_regex":
			return 3
		case "regex_nonliteral_unanchored":
			return 2
		case "regex_sees_escaped_separator_bytes":
			return 1
		}
		return 0
	}
	for _, at := range res {
		for _, r := range at.rows {
			dm := at.matchEmpty || (!r.absent && r.tf)
			pm := r.prune == '1'
			if dm == r.spec && pm == r.spec && r.prune != 'X' {
				continue
			}
			c := ""
			sep := false
			for i := 0; i < len(r.val); i++ {
				if r.val[i] <= 2 {
					sep = true
				}
			}
			switch {
			case sep:
				c = "regex_sees_escaped_separator_bytes"
			case goodSyntax(at.text) != "":
				// a regex of a form the index is proved to evaluate correctly (given the
				// library contract): no known finding explains a wrong answer here
				return "", fmt.Sprintf("/%s/ (form %s, evaluated correctly by the unchanged code) on %q: unanchored=%v tagfilter=%v prune=%c", at.text, goodSyntax(at.text), r.val, r.spec, dm, r.prune)
			case at.anchored:
				c = "show_series_anchored_regex"
			case !at.literal:
				c = "regex_nonliteral_unanchored"
			}
			if c != "" && rank(c) >= rank(class) {
				if c != class {
					why = fmt.Sprintf("/%s/ on %q: unanchored=%v tagfilter=%v prune=%c", at.text, r.val, r.spec, dm, r.prune)
				}
				class = c
			}
			if c == "" && class == "" {
				why = fmt.Sprintf("/%s/ on %q: unanchored=%v tagfilter=%v prune=%c (unclassified)", at.text, r.val, r.spec, dm, r.prune)
			}
		}
	}
	return class, why
}

// goodSyntax names the syntactic form of a regex text if it is one of those on which the code is
// right (TagFilterProps.lean: literal, match-all, ^literal, literal$, ^(alternation of two or more
// distinct literals / a character class)$, and literal between .* / .+); "" otherwise.
func goodSyntax(text string) string {
	re, err := syntax.Parse(text, syntax.Perl)
	if err != nil {
		return ""
	}
	lit := func(r *syntax.Regexp) bool { return r.Op == syntax.OpLiteral && r.Flags&syntax.FoldCase == 0 && len(r.Rune) > 0 }
	if strings.Contains(text, "(?") {
		// flag groups: the parser normalises some of them away ((?i)1 parses as the literal 1), the
		// index code works on the text it re-prints; only the fold-case literal below is a proved form
		// (a fold-case literal without a cased letter is printed as a plain literal and handed to
		// the or-values lookup: (?i)1 is evaluated anchored — finding regex_nonliteral_unanchored)
		if re.Op == syntax.OpLiteral && re.Flags&syntax.FoldCase != 0 && len(re.Rune) > 0 && strings.Contains(re.String(), "(?i") {
			return "fold-literal"
		}
		return ""
	}
	dot := func(r *syntax.Regexp) bool {
		return (r.Op == syntax.OpStar || r.Op == syntax.OpPlus) && r.Sub[0].Op == syntax.OpAnyCharNotNL
	}
	var lits func(r *syntax.Regexp) int // number of distinct literals of an alternation, 0 if it is none
	lits = func(r *syntax.Regexp) int {
		switch r.Op {
		case syntax.OpCapture:
			return lits(r.Sub[0])
		case syntax.OpAlternate:
			seen := map[string]bool{}
			for _, s := range r.Sub {
				if !lit(s) {
					return 0
				}
				seen[string(s.Rune)] = true
			}
			return len(seen)
		case syntax.OpCharClass:
			n := 0
			for i := 0; i+1 < len(r.Rune); i += 2 {
				n += int(r.Rune[i+1]-r.Rune[i]) + 1
			}
			if n > 20 || r.Flags&syntax.FoldCase != 0 {
				return 0
			}
			return n
		}
		return 0
	}
	switch {
	case lit(re):
		return "literal"
	case re.Op == syntax.OpPlus && re.Sub[0].Op == syntax.OpCharClass:
		return "class+" // left to the regexp library, unanchored
	case re.Op == syntax.OpStar && re.Sub[0].Op == syntax.OpAnyCharNotNL:
		return "match-all"
	case re.Op != syntax.OpConcat:
		return ""
	}
	sub := re.Sub
	switch {
	case len(sub) == 2 && sub[0].Op == syntax.OpBeginText && lit(sub[1]):
		return "^literal"
	case len(sub) == 2 && lit(sub[0]) && sub[1].Op == syntax.OpEndText:
		return "literal$"
	case len(sub) == 3 && sub[0].Op == syntax.OpBeginText && sub[2].Op == syntax.OpEndText && lits(sub[1]) >= 2:
		return "^(literals)$"
	case len(sub) == 3 && dot(sub[0]) && lit(sub[1]) && dot(sub[2]):
		return "dots-literal-dots"
	}
	return ""
}

// pureLiteral: the regex text is nothing but an (escaped) literal
func pureLiteral(text string, sre *syntax.Regexp) bool {
	return sre.Op == syntax.OpLiteral && sre.Flags&syntax.FoldCase == 0 && !strings.Contains(text, "(?")
}

func needsEscape(s string) bool { return strings.ContainsAny(s, ",= ") }

// what show-series prints for a series (Parse2SeriesKey, no escaping)
func plainKeyText(mst string, s *seriesT) string {
	var sb strings.Builder
	sb.WriteString(mst)
	for _, t := range s.tags {
		sb.WriteString("," + t.k + "=" + t.v)
	}
	return sb.String()
}

type savedPred struct {
	mst string
	p   *pnode
	res []*reAtom
}

type runner struct {
	cases *bufio.Writer     // worker mode: hashes of the non-trivial case keys
	ksig  map[string]string // cache key of a regex atom -> its matcher tables (KeySound check)
	prev  []savedPred
	marsh map[string]string // marshalled bytes -> value (injectivity of marshalTagValue over the run)
	tfseen map[string]bool // tfinit ops already emitted in this history
	taint  map[int]bool    // series whose cache entry was evicted while they were not flushed yet
	journal  *os.File // crash replay mode: every op is written (and synced) before and after it runs
	progress string   // worker mode: file that names the history being run
	c    *hx.Ctx
	r    *hx.Rng
	h    *history
	e    *env
	sp   *spec
	dead bool // the environment broke (open failed); skip the rest of the history
	reop bool // a reopen/restart happened before
}

func (rn *runner) emit(op, ans string) int {
	if rn.journal != nil {
		fmt.Fprintf(rn.journal, "=\t%s\t%s\n", op, ans)
		_ = rn.journal.Sync()
	}
	return rn.c.Emit(op, ans)
}

// intent names the op that is about to run on the real index (crash replay mode only): if the
// process dies inside it, the journal ends with this line.
func (rn *runner) intent(op string) {
	if rn.journal != nil {
		fmt.Fprintf(rn.journal, "?\t%s\n", op)
		_ = rn.journal.Sync()
	}
}

func (rn *runner) mark(token string) {
	if rn.progress != "" {
		_ = os.WriteFile(rn.progress, []byte(token), 0o644)
	}
}

func (rn *runner) caseOf(key string, nontrivial bool) {
	rn.c.Case(key, nontrivial)
	if nontrivial && rn.cases != nil {
		h := sha1.Sum([]byte(key))
		rn.cases.WriteString(hex.EncodeToString(h[:10]) + "\n")
	}
}

// keySound: two regex atoms that share a tag-filter cache key must have the same derived matcher
// (hypothesis KeySound of the Lean theorems, measured here on every generated atom).
func (rn *runner) keySound(line int, mst string, res []*reAtom) {
	for _, at := range res {
		k := fmt.Sprintf("%s\x00%s\x00%v\x00%s", mst, at.key, at.tfLiteral, at.value)
		var sb strings.Builder
		fmt.Fprintf(&sb, "%v", at.matchEmpty)
		for _, r := range at.rows {
			fmt.Fprintf(&sb, ";%s/%v", r.val, r.tf)
		}
		if old, ok := rn.ksig[k]; ok && old != sb.String() {
			rn.c.Violation(line, "", fmt.Sprintf("regex atoms with the same tag filter cache key (%q, literal=%v) have different matchers: /%s/", at.value, at.tfLiteral, at.text))
		}
		rn.ksig[k] = sb.String()
	}
}

func errText(perr string, err error) string {
	if perr != "" {
		if len(perr) > 120 {
			perr = perr[:120]
		}
		return "err " + strings.ReplaceAll(perr, "\n", " ")
	}
	return "err " + strings.ReplaceAll(err.Error(), "\n", " ")
}

func (rn *runner) opInsert(si int) {
	s := &rn.h.univ[si]
	op := fmt.Sprintf("ins %s %s", hx2(rn.h.msts[s.mst]), tagsToken(s.tags))
	var id uint64
	var err error
	rn.intent(op)
	perr := hx.Safe(func() { id, err = rn.e.insert(rn.h, s) })
	if perr != "" || err != nil {
		line := rn.emit(op, errText(perr, err))
		rn.c.Violation(line, "", "insert failed: "+errText(perr, err))
		return
	}
	line := rn.emit(op, fmt.Sprintf("id %d", id))
	rn.c.Count("op:ins")
	sp := rn.sp
	if want, ok := sp.live[si]; ok {
		rn.c.Count("ins:existing")
		if id != want {
			class := ""
			if rn.taint[si] {
				class = "series_cache_evicted_before_flush"
			}
			rn.c.Violation(line, class, fmt.Sprintf("series %q had id %d and was assigned a second id %d", seriesText(rn.h, s), want, id))
		}
	} else {
		rn.c.Count("ins:new")
		if other, used := sp.owner[id]; used || id == 0 {
			class := ""
			rn.c.Violation(line, class, fmt.Sprintf("new series %q got id %d already issued to %q", seriesText(rn.h, s), id, seriesText(rn.h, &rn.h.univ[other])))
		}
	}
	if _, used := sp.owner[id]; !used {
		sp.owner[id] = si
		sp.pending[id] = true
	}
	sp.live[si] = id
}

func (rn *runner) opGet(si int) {
	s := &rn.h.univ[si]
	op := fmt.Sprintf("get %s %s", hx2(rn.h.msts[s.mst]), tagsToken(s.tags))
	var id uint64
	var err error
	rn.intent(op)
	perr := hx.Safe(func() { id, err = rn.e.get(rn.h, s) })
	if perr != "" || err != nil {
		line := rn.emit(op, errText(perr, err))
		rn.c.Violation(line, "", "lookup failed: "+errText(perr, err))
		return
	}
	line := rn.emit(op, fmt.Sprintf("id %d", id))
	rn.c.Count("op:get")
	want := rn.sp.live[si]
	// a series that is not yet flushed may be answered from the cache or not at all
	if id != want && !(id == 0 && rn.sp.pending[want]) {
		rn.c.Violation(line, "", fmt.Sprintf("lookup of %q returned %d, its id is %d", seriesText(rn.h, s), id, want))
	}
}

func (rn *runner) simple(name string, f func() error, after func()) {
	var err error
	rn.intent(name)
	perr := hx.Safe(func() { err = f() })
	rn.c.Count("op:" + strings.Fields(name)[0])
	if perr != "" || err != nil {
		line := rn.emit(name, errText(perr, err))
		rn.c.Violation(line, "", name+" failed: "+errText(perr, err))
		if rn.e.main == nil {
			rn.dead = true
		}
		return
	}
	rn.emit(name, "ok")
	if after != nil {
		after()
	}
}

func (rn *runner) genPredFor(mst string, allowRegex bool, nilPct int) (*pnode, []*reAtom, error) {
	if rn.r.Chance(nilPct) {
		return nil, nil, nil
	}
	// repeat an earlier predicate of this history now and then: warm filter and cost caches
	if allowRegex && len(rn.prev) > 0 && rn.r.Chance(25) {
		sp := rn.prev[rn.r.Intn(len(rn.prev))]
		if sp.mst == mst {
			rn.c.Count("pred:repeated")
			return sp.p, sp.res, nil
		}
	}
	var res []*reAtom
	depth := rn.r.Intn(5)
	orPct := 45
	if rn.r.Chance(25) {
		orPct = 0
		depth = 1 + rn.r.Intn(3)
	}
	p := genPred(rn.r, rn.h, depth, allowRegex, &res, orPct)
	var ferr error
	p.walk(func(n *pnode) {
		if n.re != nil && ferr == nil {
			ferr = fillRegex(rn.h, mst, n.re, n.kind == '^')
		}
	})
	if ferr == nil && allowRegex {
		rn.prev = append(rn.prev, savedPred{mst, p, res})
	}
	return p, res, ferr
}

func predShape(p *pnode) (neg, emptyVal, regex, or, and bool, leaves int) {
	p.walk(func(n *pnode) {
		switch n.kind {
		case '!', '^':
			neg = true
		case '|':
			or = true
		case '&':
			and = true
		}
		if n.kind == '~' || n.kind == '^' {
			regex = true
			leaves++
		}
		if n.kind == '=' || n.kind == '!' {
			leaves++
			if n.val == "" {
				emptyVal = true
			}
		}
	})
	return
}

func (rn *runner) opSearch(kind string) {
	mi := rn.r.Intn(len(rn.h.msts))
	mst := rn.h.msts[mi]
	nilPct := 6
	p, res, ferr := rn.genPredFor(mst, true, nilPct)
	if ferr != nil {
		rn.c.Count("skipped:tagfilter-init-error")
		return
	}
	rn.searchWith(kind, mi, p, res)
}

func (rn *runner) searchWith(kind string, mi int, p *pnode, res []*reAtom) {
	mst := rn.h.msts[mi]
	for _, at := range res {
		rn.tfinit(mst, at)
	}
	op := fmt.Sprintf("%s %s %s", kind, hx2(mst), predTokens(p, res))
	var ids []uint64
	var texts []string
	var err error
	rn.intent(op)
	perr := hx.Safe(func() {
		switch kind {
		case "show":
			ids, err = rn.e.show(mst, p)
		case "sel":
			ids, err = rn.e.sel(mst, p)
		default:
			texts, err = rn.e.keys(mst, p)
		}
	})
	neg, emptyVal, regex, or, and, leaves := predShape(p)
	rn.c.Count("op:" + kind)
	if regex {
		rn.c.Count("pred:regex")
	}
	if neg {
		rn.c.Count("pred:negation")
	}
	if emptyVal {
		rn.c.Count("pred:empty-value")
	}
	if or {
		rn.c.Count("pred:or")
	}
	if and {
		rn.c.Count("pred:and")
	}
	if p == nil {
		rn.c.Count("pred:none")
	}
	rn.c.Count(fmt.Sprintf("pred:leaves=%d", min(leaves, 8)))
	class, why := unfaithfulClass(res)
	if perr != "" || err != nil {
		line := rn.emit(op, errText(perr, err))
		rn.c.Violation(line, "", "search failed: "+errText(perr, err))
		rn.caseOf(op, true)
		return
	}
	lower, upper := rn.sp.expected(mi, p)
	if kind == "sel" {
		stale := false
		have := map[uint64]bool{}
		for _, id := range ids {
			have[id] = true
		}
		for id := range rn.sp.unsettled {
			if lower[id] && !have[id] {
				stale = true
			}
			delete(lower, id)
		}
		if len(rn.sp.unsettled) > 0 {
			rn.c.Count("sel:in-staleness-window")
		}
		if stale {
			rn.c.Count("sel:stale-answer-observed")
		}
	}
	var line int
	bad := ""
	if kind == "keys" {
		// map the texts back to ids: multiset of plain texts of the expected series
		want := map[string][]uint64{}
		for id := range upper {
			t := plainKeyText(mst, &rn.h.univ[rn.sp.owner[id]])
			want[t] = append(want[t], id)
		}
		for t := range want {
			sort.Slice(want[t], func(i, j int) bool { return want[t][i] < want[t][j] })
		}
		// also ids outside the expectation (for the exact model diff): all issued ids
		all := map[string][]uint64{}
		for id, si := range rn.sp.owner {
			if rn.h.univ[si].mst == mi {
				t := plainKeyText(mst, &rn.h.univ[si])
				all[t] = append(all[t], id)
			}
		}
		sort.Strings(texts)
		got := map[uint64]bool{}
		unknown := 0
		for _, t := range texts {
			// several ids can carry one text (a deleted series that was written again):
			// prefer the expected ones, then live ones, then deleted ones
			cands := all[t]
			sort.Slice(cands, func(i, j int) bool {
				di, dj := rn.sp.deleted[cands[i]], rn.sp.deleted[cands[j]]
				if di != dj {
					return !di
				}
				return cands[i] < cands[j]
			})
			placed := false
			// prefer an expected id with this text that is not taken yet
			for _, pref := range [][]uint64{want[t], cands} {
				for _, id := range pref {
					if !got[id] {
						got[id] = true
						placed = true
						break
					}
				}
				if placed {
					break
				}
			}
			if !placed {
				unknown++
			}
		}
		for id := range got {
			ids = append(ids, id)
		}
		ans := idsText("ids", ids)
		if unknown > 0 {
			ans += fmt.Sprintf(" unknown=%d", unknown)
		}
		line = rn.emit(op, ans)
		if unknown > 0 {
			bad = fmt.Sprintf("%d listed series keys are not series of this measurement", unknown)
		}
		// text exactness: what is printed must identify what was written
		for id := range got {
			s := &rn.h.univ[rn.sp.owner[id]]
			esc := needsEscape(mst)
			for _, t := range s.tags {
				esc = esc || needsEscape(t.k) || needsEscape(t.v)
			}
			if esc {
				rn.c.Violation(line, "listing_text_unescaped", fmt.Sprintf("series key listed as %q: commas/equals/spaces of measurement, tag keys or values are not escaped, so tag keys derived from it are wrong", plainKeyText(mst, s)))
				break
			}
		}
	} else {
		line = rn.emit(op, idsText("ids", ids))
	}
	got := map[uint64]bool{}
	for _, id := range ids {
		if got[id] {
			bad = fmt.Sprintf("id %d returned twice", id)
		}
		got[id] = true
	}
	for id := range lower {
		if !got[id] && bad == "" {
			bad = fmt.Sprintf("misses id %d (%q)", id, seriesText(rn.h, &rn.h.univ[rn.sp.owner[id]]))
		}
	}
	for id := range got {
		if !upper[id] && bad == "" {
			why2 := "does not satisfy the predicate"
			if rn.sp.deleted[id] {
				why2 = "is deleted"
			} else if si, ok := rn.sp.owner[id]; !ok {
				why2 = "was never issued"
			} else if rn.h.univ[si].mst != mi {
				why2 = "belongs to another measurement"
			}
			name := "?"
			if si, ok := rn.sp.owner[id]; ok {
				name = seriesText(rn.h, &rn.h.univ[si])
			}
			bad = fmt.Sprintf("returns id %d (%q) which %s", id, name, why2)
		}
	}
	nontrivial := neg || emptyVal || regex || rn.reop
	rn.caseOf(op, nontrivial)
	rn.keySound(line, mst, res)
	if bad != "" {
		desc := fmt.Sprintf("%s %q: %s; expected%s got%s", kind, mst, bad, setText(lower), idsText("", ids))
		// the regex findings can only move live series of this measurement in or out of the answer
		for id := range got {
			si, issued := rn.sp.owner[id]
			if !issued || rn.sp.deleted[id] || rn.h.univ[si].mst != mi {
				class = ""
			}
		}
		if len(got) != len(ids) {
			class = ""
		}
		if class != "" {
			desc += "; " + why
		} else if why != "" {
			desc += "; not attributable to a regex finding: " + why
		}
		rn.c.Violation(line, class, desc)
	} else if class != "" {
		rn.c.Count("regex-unfaithful-but-result-right")
	}
	if nontrivial && len(lower) > 0 && len(lower) < len(rn.sp.owner) {
		rn.c.Sample(op + " => " + idsText("ids", ids))
	}
}

// probePred: a predicate that series s satisfies, built around one of its tags; with orSuffix a
// regex the tag filter answers through its or-suffix lookup.
func (rn *runner) probePred(mst string, s *seriesT, orSuffix bool) (*pnode, []*reAtom, bool) {
	if len(s.tags) == 0 {
		return nil, nil, false
	}
	t := s.tags[rn.r.Intn(len(s.tags))]
	var res []*reAtom
	var p *pnode
	if orSuffix && regexSafe(t.v) {
		text := "^(" + regexp.QuoteMeta(t.v) + "|zz9)$"
		if rn.r.Bool() {
			text = regexp.QuoteMeta(t.v) + "|zz9"
		}
		at := &reAtom{text: text, re: regexp.MustCompile(text), key: t.k}
		if sre, err := syntax.Parse(text, syntax.Perl); err == nil {
			at.anchored = hasAnchor(sre)
		}
		res = append(res, at)
		p = &pnode{kind: '~', key: t.k, re: at}
	} else {
		p = &pnode{kind: '=', key: t.k, val: t.v}
	}
	if rn.r.Chance(40) {
		other := genPred(rn.r, rn.h, 1, false, &res, 50)
		if rn.r.Bool() {
			p = &pnode{kind: '|', l: p, r: other}
		} else {
			p = &pnode{kind: '|', l: other, r: p}
		}
	}
	ok := true
	p.walk(func(n *pnode) {
		if n.re != nil && fillRegex(rn.h, mst, n.re, n.kind == '^') != nil {
			ok = false
		}
	})
	return p, res, ok
}

// cacheProbe: search, write a series the predicate selects, flush, search again (cache_coherent).
func (rn *runner) cacheProbe() {
	si := rn.r.Intn(len(rn.h.univ))
	s := &rn.h.univ[si]
	mst := rn.h.msts[s.mst]
	p, res, ok := rn.probePred(mst, s, rn.r.Chance(30))
	if !ok {
		return
	}
	rn.c.Count("macro:cache-probe")
	rn.searchWith("sel", s.mst, p, res)
	rn.opInsert(si)
	rn.simple("flush", func() error { rn.e.main.idx.DebugFlush(); return nil }, rn.sp.flush)
	rn.searchWith("sel", s.mst, p, res)
	if rn.r.Bool() {
		rn.searchWith("show", s.mst, p, res)
	}
}

// deleteProbe: search, delete a series the predicate selects, search again on both paths.
func (rn *runner) deleteProbe() {
	var cands []int
	for si, id := range rn.sp.live {
		if rn.sp.visible[id] {
			cands = append(cands, si)
		}
	}
	if len(cands) == 0 {
		return
	}
	sort.Ints(cands)
	si := cands[rn.r.Intn(len(cands))]
	s := &rn.h.univ[si]
	mst := rn.h.msts[s.mst]
	p, res, ok := rn.probePred(mst, s, rn.r.Chance(60))
	if !ok || len(s.tags) == 0 {
		return
	}
	rn.c.Count("macro:delete-probe")
	rn.searchWith("sel", s.mst, p, res)
	t := s.tags[rn.r.Intn(len(s.tags))]
	rn.deleteWith(s.mst, &pnode{kind: '=', key: t.k, val: t.v}, nil)
	rn.searchWith("sel", s.mst, p, res)
	rn.searchWith("show", s.mst, p, res)
	if rn.r.Bool() {
		rn.opInsert(si)
		rn.simple("flush", func() error { rn.e.main.idx.DebugFlush(); return nil }, rn.sp.flush)
		rn.searchWith("sel", s.mst, p, res)
	}
}

func (rn *runner) opTagVals() {
	mi := rn.r.Intn(len(rn.h.msts))
	mst := rn.h.msts[mi]
	key := rn.h.keys[rn.r.Intn(len(rn.h.keys))]
	p, res, ferr := rn.genPredFor(mst, false, 60)
	if ferr != nil {
		return
	}
	op := fmt.Sprintf("tagvals %s %s %s", hx2(mst), hx2(key), predTokens(p, res))
	var vals []string
	var err error
	rn.intent(op)
	perr := hx.Safe(func() { vals, err = rn.e.tagvals(mst, key, p) })
	rn.c.Count("op:tagvals")
	if perr != "" || err != nil {
		line := rn.emit(op, errText(perr, err))
		rn.c.Violation(line, "", "tag value listing failed: "+errText(perr, err))
		return
	}
	sort.Strings(vals)
	var sb strings.Builder
	sb.WriteString("vals")
	for _, v := range vals {
		sb.WriteString(" " + hx2(v))
	}
	line := rn.emit(op, sb.String())
	lower, upper := rn.sp.expected(mi, p)
	lo, up := map[string]bool{}, map[string]bool{}
	for id := range upper {
		if v, ok := rn.h.univ[rn.sp.owner[id]].tag(key); ok {
			up[v] = true
			if lower[id] {
				lo[v] = true
			}
		}
	}
	got := map[string]bool{}
	for _, v := range vals {
		got[v] = true
	}
	rn.caseOf(op, p != nil || rn.reop)
	for v := range lo {
		if !got[v] {
			rn.c.Violation(line, "", fmt.Sprintf("tag values of %q.%q miss %q", mst, key, v))
			return
		}
	}
	for v := range got {
		if !up[v] {
			rn.c.Violation(line, "", fmt.Sprintf("tag values of %q.%q list %q which no live matching series has", mst, key, v))
			return
		}
	}
}

func (rn *runner) opDelete() {
	mi := rn.r.Intn(len(rn.h.msts))
	p, res, ferr := rn.genPredFor(rn.h.msts[mi], false, 10)
	if ferr != nil {
		return
	}
	rn.deleteWith(mi, p, res)
}

func (rn *runner) deleteWith(mi int, p *pnode, res []*reAtom) {
	mst := rn.h.msts[mi]
	op := fmt.Sprintf("del %s %s", hx2(mst), predTokens(p, res))
	var err error
	rn.intent(op)
	perr := hx.Safe(func() { err = rn.e.delete(mst, p) })
	rn.c.Count("op:del")
	if perr != "" || err != nil {
		line := rn.emit(op, errText(perr, err))
		rn.c.Violation(line, "", "delete failed: "+errText(perr, err))
		return
	}
	var delIDs []uint64
	for id := range rn.sp.owner {
		if rn.e.main.idx.HasDeletedTSID(id) {
			delIDs = append(delIDs, id)
		}
	}
	line := rn.emit(op, idsText("del", delIDs))
	lower, upper := rn.sp.expected(mi, p)
	got := map[uint64]bool{}
	for _, id := range delIDs {
		got[id] = true
	}
	for id := range lower {
		if !got[id] {
			rn.c.Violation(line, "", fmt.Sprintf("delete did not remove matching id %d", id))
		}
	}
	for id := range got {
		if !rn.sp.deleted[id] && !upper[id] {
			rn.c.Violation(line, "", fmt.Sprintf("delete removed id %d which does not match", id))
		}
	}
	for id := range got {
		rn.sp.deleted[id] = true
		if si := rn.sp.owner[id]; rn.sp.live[si] == id {
			delete(rn.sp.live, si)
		}
	}
	rn.sp.settled() // WriteDeleteTsids bumps the tag-filter cache generation
}

// withEnv opens a fresh index for rn.h, runs body and removes everything again.
func (rn *runner) withEnv(tag string, body func()) {
	c := rn.c
	rn.sp = newSpec(rn.h)
	rn.reop, rn.dead = false, false
	rn.prev = nil
	rn.ksig = map[string]string{}
	rn.tfseen = map[string]bool{}
	rn.taint = map[int]bool{}
	if rn.marsh == nil {
		rn.marsh = map[string]string{}
	}
	root := os.Getenv("VERIF_SCRATCH")
	if root == "" {
		root = "/var/tmp/c10-harness"
	}
	dir := filepath.Join(root, fmt.Sprintf("c10-%d-%s", os.Getpid(), tag))
	_ = os.RemoveAll(dir)
	var err error
	perr := hx.Safe(func() { rn.e, err = newEnv(dir) })
	if perr != "" || err != nil {
		line := rn.emit("open "+tag, errText(perr, err))
		c.Violation(line, "", "cannot open index: "+errText(perr, err))
		_ = os.RemoveAll(dir)
		return
	}
	defer func() {
		if p := hx.Safe(func() { rn.e.destroy() }); p != "" {
			c.Count("close-panic")
		}
		_ = os.RemoveAll(dir)
	}()
	rn.emit("open "+tag, "ok")
	body()
}

func (rn *runner) runHistory(hi int, nOps int, big bool) {
	rn.h = genHistory(rn.r, big)
	// a quarter of the histories with the bloom filter in front of the series-key lookup, a quarter
	// with the persistent index cache (restarts then alternate between the cache saved by the last
	// close and the one saved by the close before): the model is the same for all of them
	mode := rn.r.Intn(4)
	setIndexMode(mode == 2, mode == 3)
	defer setIndexMode(false, false)
	rn.withEnv(fmt.Sprintf("%d", hi), func() {
		rn.c.Count(fmt.Sprintf("history:bloom=%v,persistent-cache=%v", mode == 2, mode == 3))
		rn.runOps(nOps, big)
	})
}

func (rn *runner) runOps(nOps int, big bool) {
	c := rn.c
	c.Count(fmt.Sprintf("history:profile=%d", rn.h.profile))
	if big {
		c.Count("history:big")
	}
	r := rn.r
	nU := len(rn.h.univ)
	warm := 1 + r.Intn(nU)
	if big {
		warm = nU
	}
	for i := 0; i < warm && !rn.dead; i++ {
		rn.opInsert(r.Intn(nU))
		if big {
			rn.opInsert(i)
		}
	}
	rn.byteBlock(4 + r.Intn(6))
	for k := 0; k < nOps && !rn.dead; k++ {
		x := r.Intn(134)
		switch {
		case x >= 128:
			rn.opXSearch("xshow")
		case x >= 122:
			rn.opXSearch("xsel")
		case x >= 120:
			rn.windowProbe()
		case x >= 118:
			rn.opEvictFilters()
		case x >= 114:
			rn.opEvict()
		case x >= 111:
			rn.opBump()
		case x >= 108:
			rn.opPFlush()
		case x >= 100:
			rn.opScan()
		case x < 22:
			rn.opInsert(r.Intn(nU))
		case x < 27:
			rn.opGet(r.Intn(nU))
		case x < 39:
			rn.simple("flush", func() error { rn.e.main.idx.DebugFlush(); return nil }, rn.sp.flush)
		case x < 43:
			rn.simple("clear", func() error { return rn.e.main.idx.ClearCache() }, func() { rn.sp.flush(); rn.sp.settled() }) // ClearCache flushes first (fix d720cb5)
		case x < 46:
			rn.simple("reopen", rn.e.reopen, func() { rn.sp.flush(); rn.sp.settled(); rn.sp.owed = false; rn.reop = true })
		case x < 49:
			dt := []uint64{0, 1, 2, 5, 100}[r.Intn(5)]
			rn.simple(fmt.Sprintf("restart %d", dt), func() error { return rn.e.restart(dt) }, func() { rn.sp.flush(); rn.sp.settled(); rn.sp.owed = false; rn.reop = true })
		case x < 52:
			rn.opDelete()
		case x < 54:
			rn.simple("sib", rn.e.sibling, nil)
		case x < 57:
			rn.cacheProbe()
		case x < 59:
			rn.deleteProbe()
		case x < 72:
			rn.opSearch("show")
		case x < 86:
			rn.opSearch("sel")
		case x < 93:
			rn.opSearch("keys")
		default:
			rn.opTagVals()
		}
	}
}

func Run(c *hx.Ctx) error {
	initProcess()
	c.Stats.Rule = "index histories on the real MergeSetIndex: 6 hand-written histories (minimised inputs of the repaired defects, cost-triggered pruning) then generated ones: 3-14 series (20% with 16-40, 1% with 70-100) over 1-3 measurements and 3-6 tag keys from four alphabets (shared prefixes; commas, equals, spaces, separator bytes 0-2, unicode, quotes; regex metacharacters), interleaved insert / lookup / flush / cache clear / close-reopen / restart after 0-100 s (sequence reseeded) / delete / unrelated sibling index, predicate trees to depth 4 over =, !=, =~, !~, AND, OR, parentheses (25% all-AND, 25% repeated) on the show-series path, the select path, series-key and tag-value listings; a search is non-trivial when its predicate has a negation, an empty-value match or a regex, or a reopen/restart precedes it; distinct by op line"
	c.Stats.Notes = append(c.Stats.Notes,
		"search results are specified over flushed series (lower bound) and flushed+pending series (upper bound): the table makes raw items searchable only after a flush; the harness stops the periodic flusher and flushes explicitly",
		"empty tag keys/values are dropped before the insert, as the line-protocol parser does")
	nHist := c.Budget(300, 4000)
	nOps := 30
	if c.Tier == "thorough" {
		nOps = 100
	}
	if v := c.Arg("ops", ""); v != "" {
		fmt.Sscanf(v, "%d", &nOps)
	}
	only, onlyDirected := -1, -1
	if v := c.Arg("only", ""); v != "" {
		if strings.HasPrefix(v, "d") {
			fmt.Sscanf(v[1:], "%d", &onlyDirected)
			only = 1 << 30
		} else {
			fmt.Sscanf(v, "%d", &only)
		}
	}
	workers, _ := strconv.Atoi(c.Arg("workers", "1"))
	worker := -1
	if v := c.Arg("worker", ""); v != "" {
		worker, _ = strconv.Atoi(v)
	}
	if workers > 1 && worker < 0 && only < 0 {
		return runParallel(c, workers, nHist, nOps)
	}
	rn := &runner{c: c}
	if v := c.Arg("journal", ""); v != "" {
		jf, err := os.Create(v)
		if err != nil {
			return err
		}
		defer jf.Close()
		rn.journal = jf
	}
	if worker >= 0 {
		f, err := os.Create(filepath.Join(c.Out, "cases.txt"))
		if err != nil {
			return err
		}
		defer f.Close()
		rn.cases = bufio.NewWriter(f)
		defer rn.cases.Flush()
		rn.progress = filepath.Join(c.Out, "progress.txt")
	}
	if (only < 0 && worker <= 0) || onlyDirected >= 0 {
		rn.r = hx.NewRng(c.Seed)
		for i := range directed {
			if onlyDirected >= 0 && i != onlyDirected {
				continue
			}
			rn.mark(fmt.Sprintf("d%d", i))
			rn.runDirected(i)
		}
	}
	for hi := 0; hi < nHist; hi++ {
		if only >= 0 && hi != only {
			continue
		}
		if worker >= 0 && hi%workers != worker {
			continue
		}
		// one PRNG per history: a history replays alone with -D only=<index>
		rn.mark(fmt.Sprint(hi))
		rn.r = hx.NewRng(c.Seed*1000003 + uint64(hi))
		big := rn.r.Chance(1)
		n := nOps/2 + rn.r.Intn(nOps)
		if big {
			n = nOps / 2
		}
		rn.runHistory(hi, n, big)
	}
	return nil
}

// runParallel runs the histories in `workers` child processes (the index code keeps process-wide
// state: tag-filter cache generation, pools, regexp caches — histories of one process run one
// after the other) and merges their outputs in worker order.
func runParallel(c *hx.Ctx, workers, nHist, nOps int) error {
	exe, err := os.Executable()
	if err != nil {
		return err
	}
	var wg sync.WaitGroup
	errs := make([]error, workers)
	for k := 0; k < workers; k++ {
		wg.Add(1)
		go func(k int) {
			defer wg.Done()
			out := filepath.Join(c.Out, fmt.Sprintf("w%d", k))
			cmd := exec.Command(exe, "C10", "-seed", fmt.Sprint(c.Seed), "-tier", c.Tier, "-n", fmt.Sprint(nHist), "-out", out,
				"-D", fmt.Sprintf("worker=%d", k), "-D", fmt.Sprintf("workers=%d", workers), "-D", fmt.Sprintf("ops=%d", nOps))
			cmd.Env = os.Environ()
			if b, err := cmd.CombinedOutput(); err != nil {
				tail := string(b)
				if len(tail) > 2000 {
					tail = tail[len(tail)-2000:]
				}
				errs[k] = fmt.Errorf("worker %d: %v: %s", k, err, tail)
			}
		}(k)
	}
	wg.Wait()
	crashed := map[int]bool{}
	for k, e := range errs {
		if e == nil {
			continue
		}
		// the process that ran the real index died (a panic outside the calling goroutine, a fatal
		// error): run the history it was in once more, alone, with a synced journal, and report
		// the ops up to the crash as the failing sequence
		tok, rerr := os.ReadFile(filepath.Join(c.Out, fmt.Sprintf("w%d", k), "progress.txt"))
		if rerr != nil {
			return e
		}
		crashed[k] = true
		jpath := filepath.Join(c.Out, fmt.Sprintf("crash-w%d.journal", k))
		cmd := exec.Command(exe, "C10", "-seed", fmt.Sprint(c.Seed), "-tier", c.Tier, "-n", fmt.Sprint(nHist), "-out", filepath.Join(c.Out, fmt.Sprintf("crash-w%d", k)),
			"-D", "only="+string(tok), "-D", "journal="+jpath, "-D", fmt.Sprintf("ops=%d", nOps))
		cmd.Env = os.Environ()
		b, cerr := cmd.CombinedOutput()
		what := firstPanicLine(string(b))
		if cerr == nil {
			what = firstPanicLine(e.Error()) + " (not reproduced when the history ran alone)"
		}
		last := 0
		if jl, jerr := readLines(jpath); jerr == nil {
			for _, l := range jl {
				parts := strings.SplitN(l, "\t", 3)
				if parts[0] == "=" && len(parts) == 3 {
					last = c.Emit(parts[1], parts[2])
				}
			}
			if n := len(jl); n > 0 && strings.HasPrefix(jl[n-1], "?\t") && cerr != nil {
				last = c.Emit(strings.TrimPrefix(jl[n-1], "?\t"), "crash")
			}
		}
		if last == 0 {
			last = c.Emit("open "+string(tok), "crash")
		}
		c.Violation(last, "", fmt.Sprintf("the process running the index died in history %s: %s", tok, what))
		_ = os.RemoveAll(filepath.Join(c.Out, fmt.Sprintf("crash-w%d", k)))
	}
	seen := map[string]struct{}{}
	evals := 0
	for k := 0; k < workers; k++ {
		if crashed[k] {
			_ = os.RemoveAll(filepath.Join(c.Out, fmt.Sprintf("w%d", k)))
			continue
		}
		dir := filepath.Join(c.Out, fmt.Sprintf("w%d", k))
		ops, err := readLines(filepath.Join(dir, "ops.txt"))
		if err != nil {
			return err
		}
		impl, err := readLines(filepath.Join(dir, "impl.out"))
		if err != nil {
			return err
		}
		if len(ops) != len(impl) {
			return fmt.Errorf("worker %d: %d ops, %d answers", k, len(ops), len(impl))
		}
		offset := 0
		for i := range ops {
			ln := c.Emit(ops[i], impl[i])
			if i == 0 {
				offset = ln - 1
			}
		}
		viol, _ := readLines(filepath.Join(dir, "viol.out"))
		for _, v := range viol {
			parts := strings.SplitN(v, "\t", 3)
			if len(parts) == 3 {
				ln, _ := strconv.Atoi(parts[0])
				c.Violation(ln+offset, parts[1], parts[2])
			}
		}
		var st hx.Stats
		if b, err := os.ReadFile(filepath.Join(dir, "stats.json")); err == nil && json.Unmarshal(b, &st) == nil {
			evals += st.Evaluations
			for h, n := range st.Hist {
				c.Stats.Hist[h] += n
			}
			for _, s := range st.Samples {
				c.Sample(s)
			}
		}
		cs, _ := readLines(filepath.Join(dir, "cases.txt"))
		for _, h := range cs {
			seen[h] = struct{}{}
		}
		_ = os.RemoveAll(dir)
	}
	c.Stats.Evaluations = evals
	c.Stats.DistinctNontrivial = len(seen)
	c.Stats.Notes = append(c.Stats.Notes, fmt.Sprintf("histories ran in %d worker processes", workers))
	return nil
}

func firstPanicLine(out string) string {
	for _, l := range strings.Split(out, "\n") {
		if strings.Contains(l, "panic") || strings.Contains(l, "fatal error") || strings.Contains(l, "FATAL") {
			if len(l) > 300 {
				l = l[:300]
			}
			return strings.TrimSpace(l)
		}
	}
	if len(out) > 300 {
		out = out[len(out)-300:]
	}
	return strings.TrimSpace(strings.ReplaceAll(out, "\n", " "))
}

func readLines(path string) ([]string, error) {
	f, err := os.Open(path)
	if err != nil {
		return nil, err
	}
	defer f.Close()
	var out []string
	sc := bufio.NewScanner(f)
	sc.Buffer(make([]byte, 1<<20), 1<<26)
	for sc.Scan() {
		out = append(out, sc.Text())
	}
	return out, sc.Err()
}
