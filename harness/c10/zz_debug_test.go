package c10

import (
	"fmt"
	"regexp"
	"testing"
)

func TestDebug(t *testing.T) {
	initProcess()
	e, err := newEnv("/var/tmp/c10/dbg")
	if err != nil {
		t.Fatal(err)
	}
	defer e.destroy()
	h := &history{msts: []string{"m_0000"}, keys: []string{"dc", "host"}}
	for i := 0; i < 14; i++ {
		v := "axb"
		if i%2 == 0 {
			v = "a.b"
		}
		h.univ = append(h.univ, seriesT{tags: []tagKV{{"dc", fmt.Sprintf("d%d", i)}, {"host", v}}})
	}
	for i := range h.univ {
		id, _ := e.insert(h, &h.univ[i])
		fmt.Println("ins", i, id, h.univ[i].tags)
	}
	e.main.idx.DebugFlush()
	for _, txt := range []string{`a\.b`, `a\(b`} {
		at := &reAtom{text: txt, re: regexp.MustCompile(txt), key: "host"}
		for _, neg := range []byte{'~', '^'} {
			p := &pnode{kind: '&', l: &pnode{kind: '=', key: "dc", val: "d1"}, r: &pnode{kind: neg, key: "host", re: at}}
			for k := 0; k < 3; k++ {
				perr := ""
				var ids []uint64
				func() {
					defer func() {
						if r := recover(); r != nil {
							perr = fmt.Sprint(r)
						}
					}()
					ids, _ = e.sel("m_0000", p)
				}()
				fmt.Printf("dc='d1' AND host %c /%s/ run %d: %v %s\n", neg, txt, k, ids, perr)
			}
		}
	}
}
