package c10

import (
	"fmt"
	"sort"
	"strings"

	"github.com/openGemini/openGemini/engine/index/tsi"
	"github.com/openGemini/openGemini/lib/util/lifted/influx/influxql"
	"github.com/openGemini/openGemini/lib/util/lifted/influx/query"
)

// The other predicate forms of the index (model: lean/OG/C10/Forms.lean): tag IN (...) / NOT IN
// (...) with small and with large value sets (more than PruneWithSetTagValSize values: the
// prune-with-set path), tag = tag / tag != tag, comparisons on fields mixed with tag predicates.

type xnode struct {
	kind byte // '&' '|' '(' 'T' (a tag atom of the basic forms) 'i' 'n' 'e' 'd' 'f'
	l, r *xnode
	tag  *pnode
	key  string
	key2 string
	vals []string
	num  bool // the value list also holds a number
	fid  int
}

func (x *xnode) walk(f func(*xnode)) {
	if x == nil {
		return
	}
	f(x)
	x.l.walk(f)
	x.r.walk(f)
}

func genXPred(r *runner, depth int, res *[]*reAtom) *xnode {
	h := r.h
	rg := r.r
	if depth == 0 || rg.Chance(30) {
		k := h.keys[rg.Intn(len(h.keys))]
		vals := h.valuesOfKey(k)
		switch x := rg.Intn(100); {
		case x < 40:
			return &xnode{kind: 'T', tag: genPred(rg, h, 0, true, res, 0)}
		case x < 62:
			kind := byte('i')
			if rg.Chance(40) {
				kind = 'n'
			}
			n := rg.Intn(4)
			if rg.Chance(45) {
				n = 11 + rg.Intn(4) // more than PruneWithSetTagValSize
			}
			seen := map[string]bool{}
			var vs []string
			for tries := 0; len(vs) < n && tries < 60; tries++ {
				var v string
				switch {
				case rg.Chance(8):
					v = ""
				case len(vals) > 0 && rg.Chance(40):
					v = vals[rg.Intn(len(vals))]
				case rg.Chance(50):
					v = h.vals[rg.Intn(len(h.vals))]
				default:
					v = fmt.Sprintf("zz%d", rg.Intn(40))
				}
				if !seen[v] {
					seen[v] = true
					vs = append(vs, v)
				}
			}
			sort.Strings(vs)
			return &xnode{kind: kind, key: k, vals: vs, num: rg.Chance(10)}
		case x < 72:
			kind := byte('e')
			if rg.Bool() {
				kind = 'd'
			}
			return &xnode{kind: kind, key: k, key2: h.keys[rg.Intn(len(h.keys))]}
		default:
			return &xnode{kind: 'f', fid: rg.Intn(3)}
		}
	}
	if rg.Chance(10) {
		return &xnode{kind: '(', l: genXPred(r, depth-1, res)}
	}
	k := byte('&')
	if rg.Chance(40) {
		k = '|'
	}
	return &xnode{kind: k, l: genXPred(r, depth-1, res), r: genXPred(r, depth-1, res)}
}

func (x *xnode) expr() influxql.Expr {
	ref := func(k string) *influxql.VarRef { return &influxql.VarRef{Val: k, Type: influxql.Tag} }
	switch x.kind {
	case '&':
		return &influxql.BinaryExpr{Op: influxql.AND, LHS: x.l.expr(), RHS: x.r.expr()}
	case '|':
		return &influxql.BinaryExpr{Op: influxql.OR, LHS: x.l.expr(), RHS: x.r.expr()}
	case '(':
		return &influxql.ParenExpr{Expr: x.l.expr()}
	case 'T':
		return x.tag.expr()
	case 'i', 'n':
		m := map[interface{}]bool{}
		for _, v := range x.vals {
			m[v] = true
		}
		if x.num {
			// a number in the list, as the parser stores it: it equals no tag value
			m[float64(len(x.vals))] = true
		}
		op := influxql.IN
		if x.kind == 'n' {
			op = influxql.NOTIN
		}
		return &influxql.BinaryExpr{Op: influxql.Token(op), LHS: ref(x.key), RHS: &influxql.SetLiteral{Vals: m}}
	case 'e':
		return &influxql.BinaryExpr{Op: influxql.EQ, LHS: ref(x.key), RHS: ref(x.key2)}
	case 'd':
		return &influxql.BinaryExpr{Op: influxql.NEQ, LHS: ref(x.key), RHS: ref(x.key2)}
	default:
		return &influxql.BinaryExpr{Op: influxql.GT, LHS: &influxql.VarRef{Val: fmt.Sprintf("f%d", x.fid), Type: influxql.Float}, RHS: &influxql.NumberLiteral{Val: 1}}
	}
}

// xsat: the property's reading; a field comparison may hold for some row, so it keeps the series
func xsat(s *seriesT, x *xnode) bool {
	switch x.kind {
	case '&':
		return xsat(s, x.l) && xsat(s, x.r)
	case '|':
		return xsat(s, x.l) || xsat(s, x.r)
	case '(':
		return xsat(s, x.l)
	case 'T':
		return sat(s, x.tag)
	case 'f':
		return true
	}
	v, _ := s.tag(x.key)
	switch x.kind {
	case 'i', 'n':
		in := false
		for _, w := range x.vals {
			if w == v {
				in = true
			}
		}
		return in == (x.kind == 'i')
	}
	w, _ := s.tag(x.key2)
	return (v == w) == (x.kind == 'e')
}

func (x *xnode) tokens(sb *strings.Builder) {
	switch x.kind {
	case '&', '|':
		sb.WriteString(" " + string(x.kind))
		x.l.tokens(sb)
		x.r.tokens(sb)
	case '(':
		sb.WriteString(" (")
		x.l.tokens(sb)
	case 'T':
		x.tag.tokens(sb)
	case 'i', 'n':
		fmt.Fprintf(sb, " %c %s %d", x.kind, hx2(x.key), len(x.vals))
		for _, v := range x.vals {
			sb.WriteString(" " + hx2(v))
		}
	case 'e', 'd':
		fmt.Fprintf(sb, " %c %s %s", x.kind, hx2(x.key), hx2(x.key2))
	default:
		fmt.Fprintf(sb, " f %d", x.fid)
	}
}

func (rn *runner) opXSearch(kind string) {
	mi := rn.r.Intn(len(rn.h.msts))
	mst := rn.h.msts[mi]
	var res []*reAtom
	depth := rn.r.Intn(4)
	x := genXPred(rn, depth, &res)
	ok := true
	x.walk(func(n *xnode) {
		if n.kind == 'T' && n.tag.re != nil && fillRegex(rn.h, mst, n.tag.re, n.tag.kind == '^') != nil {
			ok = false
		}
	})
	if !ok {
		return
	}
	rn.xsearchWith(kind, mi, x, res)
}

func (rn *runner) xsearchWith(kind string, mi int, x *xnode, res []*reAtom) {
	mst := rn.h.msts[mi]
	for _, at := range res {
		rn.tfinit(mst, at)
	}
	var sb strings.Builder
	fmt.Fprintf(&sb, "%d", len(res))
	for _, at := range res {
		sb.WriteString(" " + at.token())
	}
	x.tokens(&sb)
	op := fmt.Sprintf("%s %s %s", kind, hx2(mst), sb.String())
	var ids []uint64
	var err error
	rn.intent(op)
	perr := safe(func() {
		if kind == "xshow" {
			ids, err = rn.e.main.idx.SearchSeriesByTableAndCond([]byte(mst), x.expr(), tsi.DefaultTR)
			return
		}
		opt := &query.ProcessorOptions{Condition: x.expr(), StartTime: tsi.DefaultTR.Min, EndTime: tsi.DefaultTR.Max}
		it, e2 := rn.e.main.idx.SearchSeriesIterator(nil, []byte(mst), opt)
		if e2 != nil || it == nil {
			err = e2
			return
		}
		if s := it.Ids(); s != nil {
			ids = s.AppendTo(nil)
		}
		_ = it.Close()
	})
	rn.c.Count("op:" + kind)
	forms := map[byte]bool{}
	bigSet := false
	x.walk(func(n *xnode) {
		forms[n.kind] = true
		if (n.kind == 'i' || n.kind == 'n') && len(n.vals) > 10 {
			bigSet = true
		}
	})
	for k := range forms {
		if strings.IndexByte("inedf", k) >= 0 {
			rn.c.Count("xpred:form=" + string(k))
		}
	}
	if bigSet {
		rn.c.Count("xpred:large-value-set")
	}
	if perr != "" || err != nil {
		line := rn.emit(op, errText(perr, err))
		rn.c.Violation(line, "", "search failed: "+errText(perr, err))
		return
	}
	line := rn.emit(op, idsText("ids", ids))
	rn.caseOf(op, true)
	// expected: brute force over the flushed series (lower) and flushed + pending (upper)
	lower, upper := map[uint64]bool{}, map[uint64]bool{}
	for id, si := range rn.sp.owner {
		s := &rn.h.univ[si]
		if rn.sp.deleted[id] || s.mst != mi || !xsat(s, x) {
			continue
		}
		if rn.sp.visible[id] {
			upper[id] = true
			if !(kind == "xsel" && rn.sp.unsettled[id]) {
				lower[id] = true
			}
		} else if rn.sp.pending[id] {
			upper[id] = true
		}
	}
	got := map[uint64]bool{}
	bad := ""
	for _, id := range ids {
		if got[id] {
			bad = fmt.Sprintf("id %d returned twice", id)
		}
		got[id] = true
	}
	for id := range lower {
		if !got[id] && bad == "" {
			bad = fmt.Sprintf("misses id %d (%q)", id, seriesText(rn.h, &rn.h.univ[rn.sp.owner[id]]))
		}
	}
	for id := range got {
		if !upper[id] && bad == "" {
			name := "?"
			if si, ok := rn.sp.owner[id]; ok {
				name = seriesText(rn.h, &rn.h.univ[si])
			}
			bad = fmt.Sprintf("returns id %d (%q) which does not satisfy the predicate, is deleted or foreign", id, name)
		}
	}
	if bad == "" {
		return
	}
	class, why := unfaithfulClass(res)
	if forms['e'] || forms['d'] {
		class, why = "tag_eq_tag_compares_presence", "the predicate compares two tags"
	}
	for id := range got {
		si, issued := rn.sp.owner[id]
		if !issued || rn.sp.deleted[id] || rn.h.univ[si].mst != mi {
			class = ""
		}
	}
	desc := fmt.Sprintf("%s %q: %s; expected%s got%s", kind, mst, bad, setText(lower), idsText("", ids))
	if class != "" {
		desc += "; " + why
	}
	rn.c.Violation(line, class, desc)
}
