package c10

import (
	"fmt"
	"sort"
	"strings"
)

// The two timer-driven steps of the index table and cache evictions as operations of a history
// (model: pflush / bump / evict / evictFilters in lean/OG/C10/Model.lean, theorems in Windows.lean).

// opPFlush: one tick of the table's raw-items flusher (a non-final flush). What was pending
// becomes visible to searches; the tag-filter cache generation is NOT bumped — that call is owed
// until opBump — so the select path may still answer from entries cached before.
func (rn *runner) opPFlush() {
	had := len(rn.sp.pending) > 0
	var owed bool
	rn.intent("pflush")
	perr := safe(func() { owed = rn.e.main.idx.VerifPeriodicFlush() })
	rn.c.Count("op:pflush")
	if perr != "" {
		line := rn.emit("pflush", "err "+perr)
		rn.c.Violation(line, "", "periodic flush failed: "+perr)
		return
	}
	rn.emit("pflush", "ok")
	for id := range rn.sp.pending {
		rn.sp.visible[id] = true
		rn.sp.unsettled[id] = true
	}
	rn.sp.pending = map[uint64]bool{}
	if had {
		rn.sp.owed = true
		if !owed {
			// the table's own 10 s ticker ran the callback between the flush and our take-over
			rn.c.Count("pflush:ticker-won")
			rn.emit("bump", "ok")
			rn.sp.owed = false
			rn.sp.settled()
		}
	}
}

// opBump: the deferred flush callback (what the 10 s ticker does when the flag is set).
func (rn *runner) opBump() {
	if !rn.sp.owed {
		return
	}
	rn.intent("bump")
	perr := safe(func() { rn.e.main.idx.VerifFlushCallback() })
	rn.c.Count("op:bump")
	if perr != "" {
		line := rn.emit("bump", "err "+perr)
		rn.c.Violation(line, "", "flush callback failed: "+perr)
		return
	}
	rn.emit("bump", "ok")
	rn.sp.owed = false
	rn.sp.settled()
}

// opEvictFilters: every entry of the tag filter cache and of the filter cost cache is evicted.
func (rn *runner) opEvictFilters() {
	rn.intent("evictf")
	perr := safe(func() { rn.e.main.idx.VerifDropFilterCaches() })
	rn.c.Count("op:evictf")
	if perr != "" {
		line := rn.emit("evictf", "err "+perr)
		rn.c.Violation(line, "", "dropping the filter caches failed: "+perr)
		return
	}
	rn.emit("evictf", "ok")
	rn.sp.settled()
}

// opEvict: the series-key cache loses every entry except those of a chosen set of series (an
// arbitrary eviction). Mostly the unflushed series are spared; sometimes one of them is evicted
// and written again at once: the index then cannot find it and issues a second id (finding
// series_cache_evicted_before_flush) — the history ends there.
func (rn *runner) opEvict() {
	h := rn.h
	pendingSeries := map[int]bool{}
	for id := range rn.sp.pending {
		pendingSeries[rn.sp.owner[id]] = true
	}
	bad := -1
	if len(pendingSeries) > 0 && rn.r.Chance(15) {
		var ps []int
		for si := range pendingSeries {
			ps = append(ps, si)
		}
		sort.Ints(ps)
		bad = ps[rn.r.Intn(len(ps))]
	}
	var keep []int
	mode := rn.r.Intn(3) // keep nothing but what must stay / a random half / all but one
	for si := range h.univ {
		switch {
		case si == bad:
			continue
		case pendingSeries[si]:
			keep = append(keep, si)
		case mode == 1 && rn.r.Bool(), mode == 2 && rn.r.Chance(90):
			keep = append(keep, si)
		}
	}
	var keys [][]byte
	var toks []string
	for _, si := range keep {
		s := &h.univ[si]
		row := makeRow(h.msts[s.mst], s.tags)
		keys = append(keys, append([]byte{}, row.IndexKey...))
		toks = append(toks, hx2(h.msts[s.mst])+" "+tagsToken(s.tags))
	}
	op := fmt.Sprintf("evict %d", len(keep))
	if len(toks) > 0 {
		op += " " + strings.Join(toks, " ")
	}
	rn.intent(op)
	var err error
	perr := safe(func() { _, err = rn.e.main.idx.VerifEvictSeriesKeys(keys) })
	rn.c.Count("op:evict")
	if perr != "" || err != nil {
		line := rn.emit(op, errText(perr, err))
		rn.c.Violation(line, "", "eviction failed: "+errText(perr, err))
		return
	}
	rn.emit(op, "ok")
	if bad >= 0 {
		rn.c.Count("evict:unflushed-series")
		rn.taint[bad] = true
		rn.opInsert(bad)
		rn.dead = true // the series now has two live ids: nothing further is specified
	}
}

// windowProbe: search (the answer is cached), write a series the predicate selects, periodic
// flush, search again on both paths (the select path may be stale, the show path may not), run the
// deferred callback, search again (must be exact).
func (rn *runner) windowProbe() {
	si := rn.r.Intn(len(rn.h.univ))
	s := &rn.h.univ[si]
	mst := rn.h.msts[s.mst]
	p, res, ok := rn.probePred(mst, s, rn.r.Chance(30))
	if !ok {
		return
	}
	rn.c.Count("macro:window-probe")
	rn.searchWith("sel", s.mst, p, res)
	rn.opInsert(si)
	rn.opPFlush()
	rn.searchWith("sel", s.mst, p, res)
	rn.searchWith("show", s.mst, p, res)
	if rn.r.Chance(70) {
		rn.opBump()
		rn.searchWith("sel", s.mst, p, res)
	}
}
