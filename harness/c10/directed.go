package c10

import (
	"fmt"
	"regexp"
	"regexp/syntax"
)

// Hand-written histories run before the generated ones: the minimised failing inputs of the
// defects fixed in /repo (regression corpus) and boundary cases the random generator reaches
// rarely (cost-triggered pruning in the all-AND fast path).

type dsl struct {
	rn  *runner
	res []*reAtom
}

func (d *dsl) eq(k, v string) *pnode { return &pnode{kind: '=', key: k, val: v} }
func (d *dsl) ne(k, v string) *pnode { return &pnode{kind: '!', key: k, val: v} }
func (d *dsl) and(a, b *pnode) *pnode { return &pnode{kind: '&', l: a, r: b} }
func (d *dsl) or(a, b *pnode) *pnode  { return &pnode{kind: '|', l: a, r: b} }
func (d *dsl) re(k, text string, neg bool) *pnode {
	at := &reAtom{idx: len(d.res), text: text, re: regexp.MustCompile(text), key: k}
	if sre, err := syntax.Parse(text, syntax.Perl); err == nil {
		at.anchored = hasAnchor(sre)
		at.literal = pureLiteral(text, sre)
	}
	d.res = append(d.res, at)
	kind := byte('~')
	if neg {
		kind = '^'
	}
	return &pnode{kind: kind, key: k, re: at}
}

// search runs one predicate on one path; regex atoms are numbered per call.
func (d *dsl) search(kind string, build func() *pnode) {
	d.res = nil
	var p *pnode
	if build != nil {
		p = build()
	}
	mst := d.rn.h.msts[0]
	p.walk(func(n *pnode) {
		if n.re != nil {
			if err := fillRegex(d.rn.h, mst, n.re, n.kind == '^'); err != nil {
				panic(err)
			}
		}
	})
	d.rn.searchWith(kind, 0, p, d.res)
}

func (d *dsl) del(build func() *pnode) {
	d.res = nil
	var p *pnode
	if build != nil {
		p = build()
	}
	d.rn.deleteWith(0, p, nil)
}

func (d *dsl) flush() {
	d.rn.simple("flush", func() error { d.rn.e.main.idx.DebugFlush(); return nil }, d.rn.sp.flush)
}
func (d *dsl) clear() { d.rn.simple("clear", func() error { return d.rn.e.main.idx.ClearCache() }, nil) }
func (d *dsl) restart(dt uint64) {
	d.rn.simple(fmt.Sprintf("restart %d", dt), func() error { return d.rn.e.restart(dt) }, func() { d.rn.sp.flush(); d.rn.reop = true })
}
func (d *dsl) sib() { d.rn.simple("sib", d.rn.e.sibling, nil) }

func hosts(mst int, vals ...string) []seriesT {
	var out []seriesT
	for _, v := range vals {
		out = append(out, seriesT{mst: mst, tags: []tagKV{{"host", v}}})
	}
	return out
}

var directed = []struct {
	name string
	h    func() *history
	run  func(d *dsl)
}{
	{"id-after-clear-before-flush", func() *history {
		return &history{msts: []string{"m_0000"}, keys: []string{"host"}, vals: []string{"a"}, univ: hosts(0, "zz", "a")}
	}, func(d *dsl) {
		d.rn.opInsert(0)
		d.clear()
		d.rn.opInsert(0)
		d.flush()
		d.search("show", func() *pnode { return d.eq("host", "zz") })
	}},
	{"id-after-restart-same-second", func() *history {
		return &history{msts: []string{"m_0000"}, keys: []string{"host"}, vals: []string{"a"}, univ: hosts(0, "a", "b", "c", "d")}
	}, func(d *dsl) {
		d.rn.opInsert(0)
		d.rn.opInsert(1)
		d.rn.opInsert(2)
		d.restart(0)
		d.rn.opInsert(3)
		d.rn.opInsert(0)
		d.restart(1)
		d.rn.opInsert(3)
		d.search("keys", nil)
	}},
	{"recreated-series-after-delete-and-restart", func() *history {
		return &history{msts: []string{"m_0000"}, keys: []string{"host"}, vals: []string{"a"}, univ: hosts(0, "a", "b")}
	}, func(d *dsl) {
		d.rn.opInsert(0)
		d.rn.opInsert(1)
		d.flush()
		d.del(func() *pnode { return d.eq("host", "a") })
		d.rn.opInsert(0)
		d.restart(100)
		d.rn.opInsert(0)
		d.clear()
		d.rn.opInsert(0)
		d.search("show", func() *pnode { return d.eq("host", "a") })
		d.search("keys", nil)
	}},
	{"negated-match-all-under-and", func() *history {
		return &history{msts: []string{"m_0000"}, keys: []string{"host"}, vals: []string{"a"}, univ: hosts(0, "a", "b")}
	}, func(d *dsl) {
		d.rn.opInsert(0)
		d.rn.opInsert(1)
		d.flush()
		for _, kind := range []string{"show", "sel", "sel"} {
			d.search(kind, func() *pnode { return d.and(d.eq("host", "a"), d.re("host", ".*", true)) })
			d.search(kind, func() *pnode { return d.and(d.or(d.eq("host", "a"), d.eq("host", "b")), d.re("host", ".*", true)) })
			d.search(kind, func() *pnode { return d.or(d.eq("host", "a"), d.re("host", ".*", true)) })
		}
	}},
	{"deleted-ids-on-the-select-path", func() *history {
		h := &history{msts: []string{"m_0000", "z_0000"}, keys: []string{"host", "dc"}, vals: []string{"a"}, univ: hosts(0, "a", "b", "c", "db")}
		h.univ = append(h.univ, seriesT{mst: 1, tags: []tagKV{{"host", "a"}}}, seriesT{mst: 0, tags: []tagKV{{"dc", "x"}}})
		return h
	}, func(d *dsl) {
		for i := range d.rn.h.univ {
			d.rn.opInsert(i)
		}
		d.flush()
		qs := []func() *pnode{
			func() *pnode { return d.eq("host", "b") },
			func() *pnode { return d.ne("host", "a") },
			func() *pnode { return d.re("host", "b|c", false) },
			func() *pnode { return d.re("host", "(b|c)", true) },
			func() *pnode { return d.eq("dc", "") },
			nil,
		}
		for _, q := range qs {
			d.search("sel", q)
		}
		d.del(func() *pnode { return d.eq("host", "b") })
		for _, q := range qs {
			d.search("sel", q)
			d.search("show", q)
		}
		d.sib()
		for _, q := range qs {
			d.search("show", q)
		}
	}},
	{"literal-regex-cache-key-and-prune", func() *history {
		h := &history{msts: []string{"m_0000"}, keys: []string{"host", "dc"}, vals: []string{"a"}}
		for i := 0; i < 14; i++ {
			v := []string{"a.b", "axb", "a(b", "web", "w", "db"}[i%6]
			h.univ = append(h.univ, seriesT{tags: []tagKV{{"dc", fmt.Sprintf("d%d", i)}, {"host", v}}})
		}
		return h
	}, func(d *dsl) {
		for i := range d.rn.h.univ {
			d.rn.opInsert(i)
		}
		d.flush()
		for _, t := range []string{`a.b`, `a\.b`, `a.b`} {
			d.search("sel", func() *pnode { return d.re("host", t, false) })
		}
		// evaluated three times: the 2nd and 3rd run use the cached filter costs and prune
		for _, t := range []string{`a\.b`, `a\(b`, `[wd]`, `web|db`, `^a`, `b$`, `(?i)WEB`, `w.*`} {
			for k := 0; k < 3; k++ {
				for _, dc := range []string{"d1", "d3"} {
					d.search("sel", func() *pnode { return d.and(d.eq("dc", dc), d.re("host", t, true)) })
					d.search("sel", func() *pnode { return d.and(d.eq("dc", dc), d.re("host", t, false)) })
				}
			}
			d.search("sel", func() *pnode {
				return d.and(d.and(d.eq("dc", "d4"), d.ne("host", "")), d.and(d.re("host", t, true), d.eq("nokey", "")))
			})
		}
	}},
}

func (rn *runner) runDirected(i int) {
	dc := directed[i]
	rn.h = dc.h()
	rn.h.profile = 0
	for j := range rn.h.univ {
		s := &rn.h.univ[j]
		if len(rn.h.vals) > 0 {
			_ = s
		}
	}
	rn.withEnv(fmt.Sprintf("d%d", i), func() {
		rn.c.Count("history:directed")
		dc.run(&dsl{rn: rn})
	})
}
