// Package c10: correspondence harness for C10 (series index exactness). It drives the real
// tsi.MergeSetIndex through its exported API (plus the read-only accessors of
// engine/index/tsi/verif_c10.go) on generated index histories: inserts of series keys over
// awkward alphabets, flush / cache clear / close-reopen / restart, deletes, and predicate
// searches on both evaluation paths (show-series path = SearchSeriesByTableAndCond, select
// path = SearchSeriesIterator), series-key and tag-value listings.
package c10

import (
	"regexp"
	"regexp/syntax"
	"sort"
	"strings"
	"unicode/utf8"

	"verif/harness/internal/hx"
)

type tagKV struct{ k, v string }

type seriesT struct {
	mst  int
	tags []tagKV // sorted by key, unique keys, no empty key or value (the write path drops those)
}

func (s *seriesT) tag(k string) (string, bool) {
	for _, t := range s.tags {
		if t.k == k {
			return t.v, true
		}
	}
	return "", false
}

// predicate tree
type pnode struct {
	kind byte // '&' '|' '(' '=' '!' '~' '^'
	l, r *pnode
	key  string
	val  string
	re   *reAtom
}

type reRow struct {
	val    string
	absent bool
	spec   bool // Go regexp, unanchored MatchString (absent tag = "")
	tf     bool // derived matcher of the tag filter (index scan); false for absent
	prune  byte // '0' '1' or 'X' (regexp of the rewritten value does not compile)
}

type reAtom struct {
	idx        int
	text       string
	re         *regexp.Regexp
	key        string
	matchEmpty bool
	value      string // tf.value after Init
	tfLiteral  bool   // tf.isLiteralRegexp
	rows       []reRow
	anchored   bool
	literal    bool
	initErr    bool
}

var valueProfiles = [][]string{
	{"a", "b", "ab", "web", "web-1", "db", "w", "web-2", "d", "abc"},
	{"a", "aa", "aab", "ab", "aba", "b", "ba", "bab"},
	{"a,b", "a=b", "a b", "x,y=z", "é", "日本", "a\x00b", "a\x01", "\x02", "a\\b", "it's", "\"q\"", "1", "0", "a1", "a"},
	{"a.b", "axb", "a(b", "x|y", "[w]", "a*", "^a", "a$", "a+b", "w", "a"},
	// hostile to the item encoding: separator bytes, their escape codes '0' '1' '2' (a NUL followed by
	// '0' reads like an escaped NUL), the composite-key marker 0xfe, 0xff, values that extend each
	// other by such bytes, a value longer than 255 bytes
	{"\x00", "\x01", "\x02", "\x00\x00", "\x000", "\x001", "a", "a\x00", "a\x01", "a\x01b", "a\x02", "a0", "a1", "\xff", "\xff\xfe", "\xfe", "0", "1",
		"LLLLLLLLLLLLLLLLLLLLLLLLLLLLLLLLLLLLLLLLLLLLLLLLLLLLLLLLLLLLLLLLLLLLLLLLLLLLLLLLLLLLLLLLLLLLLLLLLLLLLLLLLLLLLLLLLLLLLLLLLLLLLLLLLLLLLLLLLLLLLLLLLLLLLLLLLLLLLLLLLLLLLLLLLLLLLLLLLLLLLLLLLLLLLLLLLLLLLLLLLLLLLLLLLLLLLLLLLLLLLLLLLLLLLLLLLLLLLLLLLLLLLLLLLLLLLLLLLLLLLLLLLLLLLLLLLLLLLLLLLLLLLLLLLLLLLLLLLLLLLLLLLLLLLLLLLLLLLLLLLLLLLLLLLL\x01"},
}

var keyProfiles = [][]string{
	{"host", "dc", "h"},
	{"host", "ho", "hos"},
	{"k,1", "k=2", "k 3", "ké", "k\x01", "host"},
	{"host", "dc", "r.e"},
	{"host", "k\x00", "k\x01", "\xfe", "k\x02v"},
}

var mstNames = []string{"m_0000", "m0_0000", "cpu load_0000", "m,x_0000", "m__0000", "ü_0000",
	// bytes 0-2 and 0xfe in the name; a name longer than 127 bytes (its length takes two varuint bytes)
	"m\x00\x01_0000", "\xfem\x02_0000",
	"NNNNNNNNNNNNNNNNNNNNNNNNNNNNNNNNNNNNNNNNNNNNNNNNNNNNNNNNNNNNNNNNNNNNNNNNNNNNNNNNNNNNNNNNNNNNNNNNNNNNNNNNNNNNNNNNNNNNNNNNNNNNNNNNNNNNNNNNNNNN_0000"}

type history struct {
	profile int
	msts    []string
	keys    []string
	vals    []string
	univ    []seriesT
}

func genHistory(r *hx.Rng, big bool) *history {
	h := &history{profile: r.Intn(len(valueProfiles))}
	nm := 1 + r.Intn(3)
	perm := r.Intn(len(mstNames))
	for i := 0; i < nm; i++ {
		h.msts = append(h.msts, mstNames[(perm+i)%len(mstNames)])
	}
	h.keys = keyProfiles[h.profile]
	h.vals = valueProfiles[h.profile]
	if r.Chance(25) { // mixed alphabet
		h.vals = append(append([]string{}, h.vals...), valueProfiles[r.Intn(len(valueProfiles))]...)
	}
	n := 3 + r.Intn(12)
	if r.Chance(20) {
		n = 16 + r.Intn(25) // enough series for cost-triggered pruning in the all-AND fast path
	}
	if big {
		n = 70 + r.Intn(30)
	}
	seen := map[string]bool{}
	for tries := 0; len(h.univ) < n && tries < 20*n; tries++ {
		s := seriesT{mst: r.Intn(len(h.msts))}
		for _, k := range h.keys {
			if r.Chance(65) {
				v := h.vals[r.Intn(len(h.vals))]
				if big && r.Chance(60) {
					v = h.vals[0]
				}
				s.tags = append(s.tags, tagKV{k, v})
			}
		}
		if big {
			s.tags = append(s.tags, tagKV{"uniq", string(rune('A'+len(h.univ)/26)) + string(rune('a'+len(h.univ)%26))})
		}
		sort.Slice(s.tags, func(i, j int) bool { return s.tags[i].k < s.tags[j].k })
		key := seriesText(h, &s)
		if seen[key] {
			continue
		}
		seen[key] = true
		h.univ = append(h.univ, s)
	}
	return h
}

func seriesText(h *history, s *seriesT) string {
	var sb strings.Builder
	sb.WriteString(h.msts[s.mst])
	for _, t := range s.tags {
		sb.WriteString("\x00")
		sb.WriteString(t.k)
		sb.WriteString("\x00\x00")
		sb.WriteString(t.v)
	}
	return sb.String()
}

func regexSafe(s string) bool {
	if !utf8.ValidString(s) {
		// Go's regexp reads an invalid byte as U+FFFD: a regex made from such a value says nothing
		// about the index
		return false
	}
	for i := 0; i < len(s); i++ {
		if s[i] < 0x20 {
			return false
		}
	}
	return true
}

// valuesOfKey: values that occur for key k in the universe.
func (h *history) valuesOfKey(k string) []string {
	m := map[string]bool{}
	for i := range h.univ {
		if v, ok := h.univ[i].tag(k); ok {
			m[v] = true
		}
	}
	out := make([]string, 0, len(m))
	for v := range m {
		out = append(out, v)
	}
	sort.Strings(out)
	return out
}

func genRegexText(r *hx.Rng, vals []string) string {
	var safe []string
	for _, v := range vals {
		if regexSafe(v) {
			safe = append(safe, v)
		}
	}
	if len(safe) == 0 {
		safe = []string{"a", "web"}
	}
	v := safe[r.Intn(len(safe))]
	w := safe[r.Intn(len(safe))]
	q := regexp.QuoteMeta
	rs := []rune(v)
	sub := func() string {
		a := r.Intn(len(rs))
		b := a + 1 + r.Intn(len(rs)-a)
		return string(rs[a:b])
	}
	pre := string(rs[:1+r.Intn(len(rs))])
	suf := string(rs[r.Intn(len(rs)):])
	switch r.Intn(30) {
	case 20:
		return ".*" + q(sub()) + ".*"
	case 21:
		return ".+" + q(sub()) + []string{".+", ".*"}[r.Intn(2)]
	case 22:
		return ".*" + q(sub()) + ".+"
	case 23:
		return q(pre) + ".*" + q(suf)
	case 24:
		return "(" + q(pre) + ")(" + q(suf) + ")" + []string{"", ".*", "x?"}[r.Intn(3)]
	case 25:
		return "[" + q(string(rs[:1])) + "x]" + q(string(rs[1:]))
	case 26:
		return q(string(rs[:1])) + "{1,2}" + q(string(rs[1:]))
	case 27:
		return "(?:" + q(v) + "|" + q(pre) + ")" + []string{"", "$", ".*"}[r.Intn(3)]
	case 28:
		return "^" + q(pre) + ".+"
	case 29:
		return ".+" + q(suf) + "$"
	case 0, 1:
		return q(sub())
	case 2:
		return "[" + q(string(rs[:1])) + q(string([]rune(w)[:1])) + "]"
	case 3:
		return q(v) + "|" + q(w)
	case 4:
		return q(pre) + "[0-9a-z]"
	case 5:
		return "^" + q(v) + "$"
	case 6:
		return "^" + q(pre)
	case 7:
		return q(suf) + "$"
	case 8:
		return "^$"
	case 9:
		return []string{".*", ".+"}[r.Intn(2)]
	case 10:
		if len(rs) >= 3 {
			return q(string(rs[:1])) + "." + q(string(rs[2:]))
		}
		return q(v) + "."
	case 11:
		return q(pre) + ".*"
	case 12:
		return ".*" + q(suf)
	case 13:
		return "(" + q(v) + "|" + q(w) + ")"
	case 14:
		return "^(" + q(v) + "|" + q(w) + ")$"
	case 15:
		return q(string(rs[:1])) + "*"
	case 16:
		return "(?i)" + q(strings.ToUpper(v))
	case 17:
		return "[a-c]+"
	case 18:
		return q(pre) + ".+"
	default:
		return q(v)
	}
}

func hasAnchor(re *syntax.Regexp) bool {
	switch re.Op {
	case syntax.OpBeginLine, syntax.OpEndLine, syntax.OpBeginText, syntax.OpEndText, syntax.OpWordBoundary, syntax.OpNoWordBoundary:
		return true
	}
	for _, s := range re.Sub {
		if hasAnchor(s) {
			return true
		}
	}
	return false
}

// orPct: chance of OR at an inner node (0 = all-AND tree, the fast path of the select path)
func genPred(r *hx.Rng, h *history, depth int, allowRegex bool, res *[]*reAtom, orPct int) *pnode {
	if depth == 0 || r.Chance(30) {
		k := h.keys[r.Intn(len(h.keys))]
		if r.Chance(5) {
			k = "nokey"
		}
		vals := h.valuesOfKey(k)
		op := r.Intn(4)
		if !allowRegex {
			op = r.Intn(2)
		}
		switch op {
		case 0, 1:
			var v string
			switch {
			case r.Chance(12):
				v = ""
			case r.Chance(80) && len(vals) > 0:
				v = vals[r.Intn(len(vals))]
			default:
				v = h.vals[r.Intn(len(h.vals))] + "z"
			}
			kind := byte('=')
			if op == 1 {
				kind = '!'
			}
			return &pnode{kind: kind, key: k, val: v}
		default:
			var text string
			var re *regexp.Regexp
			for {
				text = genRegexText(r, vals)
				var err error
				if re, err = regexp.Compile(text); err == nil && text != "" {
					break
				}
			}
			at := &reAtom{idx: len(*res), text: text, re: re, key: k}
			if sre, err := syntax.Parse(text, syntax.Perl); err == nil {
				at.anchored = hasAnchor(sre)
				at.literal = pureLiteral(text, sre)
			}
			*res = append(*res, at)
			kind := byte('~')
			if op == 3 {
				kind = '^'
			}
			return &pnode{kind: kind, key: k, re: at}
		}
	}
	if r.Chance(12) {
		return &pnode{kind: '(', l: genPred(r, h, depth-1, allowRegex, res, orPct)}
	}
	k := byte('&')
	if r.Chance(orPct) {
		k = '|'
	}
	return &pnode{kind: k, l: genPred(r, h, depth-1, allowRegex, res, orPct), r: genPred(r, h, depth-1, allowRegex, res, orPct)}
}

func (p *pnode) walk(f func(*pnode)) {
	if p == nil {
		return
	}
	f(p)
	p.l.walk(f)
	p.r.walk(f)
}
