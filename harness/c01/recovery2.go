package c01

// Crash *during recovery*: for a few crash images per history the recovery itself (WAL replay,
// force flush, removal of the replayed WAL files) runs under a second observer that copies the
// directory after every mutation under wal/ and data/. Every such second-level image is recovered
// again and must read exactly like the acknowledged state its parent stands for — the property
// itself; the Lean model does not follow the recovery's own flush (its generation overlaps the
// generations already on disk), so these images are checked against the specification only.
// The one exception is the known finding: the recovery removes the replayed WAL files one by one
// after its flush; an image that holds some of them and not the others is the window of
// `crash_inside_wal_removal`.

import (
	"fmt"
	"os"
	"path/filepath"
	"sort"
	"strings"
	"sync"

	"github.com/openGemini/openGemini/engine"
	"github.com/openGemini/openGemini/lib/fileops"

	"verif/harness/engx"
	"verif/harness/internal/hx"
)

type recObs struct {
	mu      sync.Mutex
	opMu    reMutex
	root    string
	imgRoot string
	n       int
	dirs    []string
	descs   []string
}

func (o *recObs) Before(op, p, p2 string, n int64) {
	if !strings.HasPrefix(p, o.root+"/") {
		return
	}
	o.opMu.Lock()
}

func (o *recObs) After(op, p, p2 string, n int64, err error) {
	if !strings.HasPrefix(p, o.root+"/") {
		return
	}
	if op != "sync" {
		defer o.opMu.Unlock()
	}
	if err != nil || op == "sync" {
		return
	}
	rel := strings.TrimPrefix(p, o.root+"/")
	if !strings.HasPrefix(rel, "wal/") && !strings.HasPrefix(rel, "data/") {
		return
	}
	o.mu.Lock()
	defer o.mu.Unlock()
	o.n++
	dst := filepath.Join(o.imgRoot, fmt.Sprintf("r%04d", o.n))
	if e := copyTree(o.root, dst); e != nil {
		return
	}
	relocateTxn(dst, o.root)
	o.dirs = append(o.dirs, dst)
	o.descs = append(o.descs, fmt.Sprintf("after %s %s of the recovery", op, rel))
}

func walFileSet(dir string) string {
	var fs []string
	filepath.Walk(filepath.Join(dir, "wal"), func(p string, info os.FileInfo, err error) error {
		if err == nil && !info.IsDir() && strings.HasSuffix(p, ".wal") && info.Size() > 0 {
			rel, _ := filepath.Rel(dir, p)
			fs = append(fs, rel)
		}
		return nil
	})
	sort.Strings(fs)
	return strings.Join(fs, ",")
}

// dataFileCount: committed data files and files still under their temporary name.
func dataFileCount(dir string) (tssp, tmp int) {
	filepath.Walk(filepath.Join(dir, "data"), func(p string, info os.FileInfo, err error) error {
		if err != nil || info.IsDir() {
			return nil
		}
		switch {
		case strings.HasSuffix(p, ".tssp"):
			tssp++
		case strings.HasSuffix(p, ".tssp.init"):
			tmp++
		}
		return nil
	})
	return
}

// image2 is a crash image of a recovery.
type image2 struct {
	dir    string
	parent *image
	desc   string
	class  string
}

// observeRecovery runs the recovery of (a copy of) img under the observer and returns the images
// of its intermediate states.
func observeRecovery(img *image, nParts int, imgRoot string, k int) []*image2 {
	work := filepath.Join(imgRoot, fmt.Sprintf("rec%03d", k))
	if err := copyTree(img.dir, work); err != nil {
		return nil
	}
	relocateTxn(work, img.dir)
	o := &recObs{root: work, imgRoot: filepath.Join(imgRoot, fmt.Sprintf("rec%03dimg", k))}
	parentWal := walFileSet(work)
	parentFiles, _ := dataFileCount(work)
	fileops.SetVerifObserver(o)
	hx.Safe(func() {
		sh, err := engine.VerifOpenShard(work, nParts)
		if err != nil {
			return
		}
		compMu.Lock()
		sh.DetachFromCompactor()
		sh.Close()
		compMu.Unlock()
	})
	fileops.SetVerifObserver(nil)
	os.RemoveAll(work)
	var out []*image2
	for i, d := range o.dirs {
		class := ""
		if w := walFileSet(d); w != parentWal && w != "" {
			// some of the replayed WAL files removed, others not: the known window — provided the recovery's
			// flush had committed its files by then (a removal that starts earlier loses data and is no
			// known finding)
			if files, tmp := dataFileCount(d); files > parentFiles && tmp == 0 {
				class = "crash_inside_wal_removal"
			}
		}
		out = append(out, &image2{dir: d, parent: img, desc: o.descs[i], class: class})
	}
	return out
}

func recoverImage2(img *image2, nParts int) string {
	return recoverImage(&image{dir: img.dir}, nParts)
}

var _ = engx.FieldNames
