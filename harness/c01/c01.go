// Package c01: correspondence harness for C01 (acknowledged writes survive a crash at any
// moment, with their latest values).
//
// Phase 1 runs a random history (write batches incl. overwrites and late data, forced flushes,
// WAL partition counts 1/2/4) on a real shard while a VFS observer (hook lib/fileops
// verif_hook.go) copies the whole shard directory after every file-system mutation under
// wal/ and data/ (and every few mutations of the series index): each copy is the disk as a
// `kill -9` at that instant would leave it. For WAL appends it also makes torn variants (the
// record cut short, incl. exactly after its 5-byte header).
// A second family of images is the disk after a *power loss*: the same copy with every WAL file cut
// back to what its last completed Sync covered. Half of the histories run with
// wal-sync-interval = 0 (every append is synced before the acknowledgement: the power-loss images
// must satisfy the property too, and the order append -> Sync -> ack, data-file write -> Sync ->
// rename is checked on the observed trace), the others with an interval that never fires (the
// model must still predict the recovered rows; acknowledged batches may be lost there, which the
// configuration allows). Batches may span two measurements (files of one flush are committed
// measurement by measurement).
// Phase 2 reopens a shard on every image (recovery = WAL replay + flush), dumps all rows and
// compares with (a) the Lean model's prediction for the observed durable state, (b) the
// property: exactly the last-write-wins replay of the acknowledged batches (a batch that was
// being written when the process died may be present as a whole or absent).
package c01

import (
	"fmt"
	"io"
	"math"
	"os"
	"path/filepath"
	"runtime"
	"sort"
	"strconv"
	"strings"
	"sync"
	"time"

	"github.com/openGemini/openGemini/engine"
	"github.com/openGemini/openGemini/lib/fileops"

	"verif/harness/engx"
	"verif/harness/internal/hx"
)

func init() { hx.Register("C01", Run) }

const nSeries, nTimes = 3, 6

type key struct{ s, t int }
type lww map[key]map[string]string

func (m lww) apply(rows []engx.Row) {
	for _, r := range rows {
		k := key{r.Series, r.T}
		if m[k] == nil {
			m[k] = map[string]string{}
		}
		for f, v := range r.Fields {
			m[k][f] = v
		}
	}
}

func (m lww) read() string {
	var ks []key
	for k := range m {
		ks = append(ks, k)
	}
	sort.Slice(ks, func(a, b int) bool {
		if ks[a].s != ks[b].s {
			return ks[a].s < ks[b].s
		}
		return ks[a].t < ks[b].t
	})
	var cells []string
	for _, k := range ks {
		var vs []string
		for _, f := range engx.FieldNames {
			if v, ok := m[k][f]; ok {
				vs = append(vs, v)
			} else {
				vs = append(vs, "_")
			}
		}
		cells = append(cells, fmt.Sprintf("%d:%d:%s", k.s, k.t, strings.Join(vs, ",")))
	}
	return "rows " + strings.Join(cells, "|")
}

func specOf(batches [][]engx.Row, n int) string {
	m := lww{}
	for i := 0; i < n && i < len(batches); i++ {
		m.apply(batches[i])
	}
	return m.read()
}

// image is one crash image waiting to be recovered.
type image struct {
	dir      string
	acked    int // number of acknowledged batches when the image was taken
	inflight int // index of the batch being written, or -1
	torn     bool
	pl       bool // power-loss image: un-synced WAL suffixes dropped
	desc     string
	opLine   string // durable state as the model sees it
	window   bool   // the durable state is outside the model's exactness condition (safeDurable)
	class    string // known finding class this durable state belongs to ("" = none: recovery must be exact)
}

type recorder struct {
	mu       sync.Mutex
	opMu     reMutex // held from Before to After of every mutation under root (re-entrant: the VFS nests calls)
	root     string
	imgRoot  string
	on       bool
	imaging  bool // take crash images (bookkeeping of the durable state always runs while `on`)
	n        int
	idxSkip  int
	acked    int
	inflight int
	phase    string
	images   []*image
	// model-level view of the durable state
	walRecs  map[string][]int // wal file (relative) -> batch ids appended, in order
	genOf    map[string]int   // tssp file (relative, final name) -> flush generation
	flushNo  int
	genFiles map[int][]string // generation -> final names of the data files it writes
	genLo    map[int]int      // generation -> first batch id it covers
	genHi    map[int]int      // generation -> one past the last batch id it covers
	nParts   int
	histOps  int // write / flush op lines issued so far
	// pausing a flush
	pauseAt, pauseCnt int
	inWrite           bool
	paused, resume    chan struct{}
	r                 *hx.Rng
	tornPct           int
	// sync discipline / power loss
	sync0     bool               // wal-sync-interval = 0 for this history
	fileLen   map[string]int64   // bytes written so far (wal and data files)
	syncedLen map[string]int64   // bytes covered by the last completed Sync
	walEnds   map[string][]int64 // wal file -> end offset of every record appended
	plCnt     int
	orderViol []string // write-path order violations seen on the trace (reported with the history)
	msts      []string // measurements of this history, index = measurement number of the model
	// A flush commits its measurements from goroutines started in Go map order: the recorder lets
	// them through one after the other, in measurement order, so that the sequence of images is a
	// function of the history. flushMsts = measurements with rows in the table being flushed.
	cond      *sync.Cond
	flushMsts []int
	initCnt   map[int]int // .init files created by the measurement in this flush
	renDone   map[int]int // of which renamed into place
	gateOff   bool
}

// gateBlocked: some measurement that goes before x in this flush has not committed all its files.
func (rc *recorder) gateBlocked(x int) bool {
	if rc.gateOff {
		return false
	}
	for _, y := range rc.flushMsts {
		if y >= x {
			break
		}
		if !(rc.renDone[y] >= 1 && rc.renDone[y] == rc.initCnt[y]) {
			return true
		}
	}
	return false
}

func (rc *recorder) mstNo(rel string) int {
	// data/tssp/<measurement>/[out-of-order/]<file>
	f := strings.Split(rel, "/")
	if len(f) >= 3 {
		for i, m := range rc.msts {
			if f[2] == m {
				return i
			}
		}
	}
	return -1
}

// reMutex is a mutex that the goroutine holding it may take again (fileops' local VFS
// implements some calls through other hooked calls, e.g. CreateV2 -> Create).
type reMutex struct {
	mu    sync.Mutex
	cond  *sync.Cond
	owner int64
	depth int
}

func goid() int64 {
	var buf [64]byte
	n := runtime.Stack(buf[:], false)
	// "goroutine 123 [running]:"
	f := strings.Fields(string(buf[:n]))
	if len(f) < 2 {
		return -1
	}
	id, _ := strconv.ParseInt(f[1], 10, 64)
	return id
}

func (m *reMutex) Lock() {
	g := goid()
	m.mu.Lock()
	if m.cond == nil {
		m.cond = sync.NewCond(&m.mu)
	}
	for m.depth > 0 && m.owner != g {
		m.cond.Wait()
	}
	m.owner = g
	m.depth++
	m.mu.Unlock()
}

func (m *reMutex) Unlock() {
	m.mu.Lock()
	if m.depth > 0 {
		m.depth--
		if m.depth == 0 && m.cond != nil {
			m.cond.Broadcast()
		}
	}
	m.mu.Unlock()
}

func copyTree(src, dst string) error {
	return filepath.Walk(src, func(p string, info os.FileInfo, err error) error {
		if err != nil {
			if os.IsNotExist(err) {
				return nil
			}
			return err
		}
		rel, _ := filepath.Rel(src, p)
		target := filepath.Join(dst, rel)
		if info.IsDir() {
			return os.MkdirAll(target, 0o755)
		}
		in, err := os.Open(p)
		if err != nil {
			if os.IsNotExist(err) {
				return nil
			}
			return err
		}
		defer in.Close()
		out, err := os.Create(target)
		if err != nil {
			return err
		}
		_, err = io.Copy(out, in)
		out.Close()
		return err
	})
}

// relocateTxn: the series index (mergeset) records pending renames / removals in text files
// under txn/ using absolute paths. A crash image lives in another directory than the shard it
// was copied from, so those paths are rewritten to the image's own root (a real crash keeps the
// directory).
func relocateTxn(imgRoot, origRoot string) {
	filepath.Walk(imgRoot, func(p string, info os.FileInfo, err error) error {
		if err != nil || info.IsDir() || !strings.Contains(p, "/txn/") {
			return nil
		}
		b, e := os.ReadFile(p)
		if e != nil || !strings.Contains(string(b), origRoot) {
			return nil
		}
		os.WriteFile(p, []byte(strings.ReplaceAll(string(b), origRoot, imgRoot)), 0o644)
		return nil
	})
}

// durable renders the durable state of an image directory for the model:
//
//	vis=<gen>:<o|u>,...   wal=<part>:<id>.<id>|<part>:...   torn=<id|->
func (rc *recorder) durable(dir string, tornID int, syncedOnly bool) (string, bool, string) {
	var vis []string
	visGen := map[int]bool{}
	visFile := map[string]bool{}
	filepath.Walk(filepath.Join(dir, "data"), func(p string, info os.FileInfo, err error) error {
		if err != nil || info.IsDir() || !strings.HasSuffix(p, ".tssp") {
			return nil
		}
		rel, _ := filepath.Rel(dir, p)
		visFile[rel] = true
		g, ok := rc.genOf[rel]
		kind := "o"
		if strings.Contains(rel, "out-of-order") {
			kind = "u"
		}
		if !ok || rc.mstNo(rel) < 0 {
			vis = append(vis, "?"+rel)
		} else {
			vis = append(vis, fmt.Sprintf("%d:%s:%d", g, kind, rc.mstNo(rel)))
			visGen[g] = true
		}
		return nil
	})
	sort.Strings(vis)
	// wal files per partition in file order
	type wf struct {
		part, seq int
		rel       string
	}
	var wfs []wf
	filepath.Walk(filepath.Join(dir, "wal"), func(p string, info os.FileInfo, err error) error {
		if err != nil || info.IsDir() || !strings.HasSuffix(p, ".wal") {
			return nil
		}
		rel, _ := filepath.Rel(dir, p)
		var part, seq int
		fmt.Sscanf(strings.TrimPrefix(rel, "wal/"), "%d/%d.wal", &part, &seq)
		wfs = append(wfs, wf{part, seq, rel})
		return nil
	})
	sort.Slice(wfs, func(a, b int) bool {
		if wfs[a].part != wfs[b].part {
			return wfs[a].part < wfs[b].part
		}
		return wfs[a].seq < wfs[b].seq
	})
	var parts []string
	var allIDs []int
	cur, ids := -1, []string{}
	flushPart := func() {
		if cur >= 0 {
			parts = append(parts, fmt.Sprintf("%d:%s", cur, strings.Join(ids, ".")))
		}
	}
	for _, f := range wfs {
		if f.part != cur {
			flushPart()
			cur, ids = f.part, nil
		}
		for i, id := range rc.walRecs[f.rel] {
			if id == tornID {
				continue // a torn record is not durable
			}
			if syncedOnly && (i >= len(rc.walEnds[f.rel]) || rc.walEnds[f.rel][i] > rc.syncedLen[f.rel]) {
				continue // not covered by a completed Sync: gone after a power loss
			}
			ids = append(ids, fmt.Sprint(id))
			allIDs = append(allIDs, id)
		}
	}
	flushPart()
	t := "-"
	if tornID >= 0 {
		t = fmt.Sprint(tornID)
	}
	// classification of the durable state: the same exactness condition as the Lean model's
	// `safeDurable` (OG/C01/Model.lean), evaluated on what the harness observed.
	type rec struct{ part, id int }
	var recs []rec
	{
		// allIDs was collected partition by partition; rebuild (partition, id) pairs
		for _, ps := range parts {
			var p int
			var rest string
			if i := strings.IndexByte(ps, ':'); i >= 0 {
				fmt.Sscanf(ps[:i], "%d", &p)
				rest = ps[i+1:]
			}
			if rest == "" {
				continue
			}
			for _, x := range strings.Split(rest, ".") {
				var id int
				fmt.Sscanf(x, "%d", &id)
				recs = append(recs, rec{p, id})
			}
		}
	}
	sort.SliceStable(recs, func(a, b int) bool { return recs[a].id < recs[b].id })
	q := make([][]int, rc.nParts)
	for _, r := range recs {
		if r.part < rc.nParts {
			q[r.part] = append(q[r.part], r.id)
		}
	}
	var order []int
	for len(order) < len(recs) {
		progressed := false
		for p := 0; p < rc.nParts; p++ {
			if len(q[p]) > 0 {
				order = append(order, q[p][0])
				q[p] = q[p][1:]
				progressed = true
			}
		}
		if !progressed {
			break
		}
	}
	full := func(g int) bool {
		for _, f := range rc.genFiles[g] {
			if !visFile[f] {
				return false
			}
		}
		return true
	}
	class := ""
	if len(order) == 0 {
		for g := 1; g <= rc.flushNo; g++ {
			if !full(g) {
				class = "crash_inside_wal_removal"
			}
		}
	} else {
		w, m := order[0], order[0]+len(order)
		consecutive := true
		for i, id := range order {
			if id != w+i {
				consecutive = false
			}
		}
		if !consecutive {
			class = "flush_window_replay_order"
		} else {
			flushedTo := 0
			if rc.flushNo > 0 {
				flushedTo = rc.genHi[rc.flushNo]
			}
			if w > flushedTo {
				class = "crash_inside_wal_removal"
			}
			for g := 1; g <= rc.flushNo; g++ {
				if rc.genHi[g] > m || (rc.genLo[g] < w && !full(g)) {
					class = "crash_inside_wal_removal"
				}
			}
		}
	}
	// `class` so far says only that the durable state is outside the model's exactness condition
	// (safeDurable). Which of the two known findings it is: a state where a record of an
	// acknowledged batch is neither in the WAL nor covered by a completely visible generation is a
	// *loss* and never a known finding; otherwise the surviving records are replayed out of write
	// order (flush_window_replay_order) or a surviving part of an already flushed generation is
	// replayed over its files (crash_inside_wal_removal).
	window := class != ""
	if window {
		present := map[int]bool{}
		for _, id := range order {
			present[id] = true
		}
		covered := func(id int) bool {
			for g := 1; g <= rc.flushNo; g++ {
				if rc.genLo[g] <= id && id < rc.genHi[g] && full(g) {
					return true
				}
			}
			return false
		}
		lost := false
		for id := 0; id < rc.acked; id++ {
			if !present[id] && !covered(id) {
				lost = true
			}
		}
		sorted := append([]int{}, order...)
		sort.Ints(sorted)
		inOrder := true
		for i := range order {
			if order[i] != sorted[i] {
				inOrder = false
			}
		}
		switch {
		case lost:
			class = ""
		case !inOrder:
			class = "flush_window_replay_order"
		default:
			class = "crash_inside_wal_removal"
		}
	}
	return fmt.Sprintf("crash at=%d vis=%s wal=%s torn=%s", rc.histOps, strings.Join(vis, ","), strings.Join(parts, "|"), t), window, class
}

// Before lets the history pause a flush right before one of its data-file / WAL-removal
// mutations, so that writes can be interleaved with the flush deterministically.
func (rc *recorder) Before(op, p, p2 string, n int64) {
	if !strings.HasPrefix(p, rc.root) {
		return
	}
	if !rc.on {
		rc.opMu.Lock()
		return
	}
	rel := strings.TrimPrefix(strings.TrimPrefix(p, rc.root), "/")
	rc.mu.Lock()
	if x := rc.mstNo(rel); strings.HasPrefix(rel, "data/") && x > 0 && rc.gateBlocked(x) {
		t := time.AfterFunc(30*time.Second, func() {
			rc.mu.Lock()
			rc.gateOff = true // never hang: give the order up (counted)
			rc.cond.Broadcast()
			rc.mu.Unlock()
		})
		for rc.gateBlocked(x) {
			rc.cond.Wait()
		}
		t.Stop()
	}
	armed := rc.pauseAt > 0 && !rc.inWrite
	hit := false
	if armed && (strings.HasPrefix(rel, "data/") || (strings.HasPrefix(rel, "wal/") && op == "remove")) && op != "sync" && op != "mkdir" {
		rc.pauseCnt++
		if rc.pauseCnt == rc.pauseAt {
			hit = true
			rc.pauseAt = 0
		}
	}
	rc.mu.Unlock()
	if hit {
		rc.paused <- struct{}{}
		<-rc.resume
	}
	// From here until After returns no other mutation (and no image of another goroutine's
	// mutation) may interleave: otherwise an image could show a file change whose bookkeeping
	// (which batch a WAL record belongs to) has not been done yet.
	rc.opMu.Lock()
}

func (rc *recorder) After(op, p, p2 string, n int64, err error) {
	if !strings.HasPrefix(p, rc.root) {
		return
	}
	if op != "sync" { // the hook reports a sync only after the fact
		defer rc.opMu.Unlock()
	}
	if !rc.on || err != nil {
		return
	}
	rel := strings.TrimPrefix(strings.TrimPrefix(p, rc.root), "/")
	rc.mu.Lock()
	defer rc.mu.Unlock()
	isWal := strings.HasPrefix(rel, "wal/")
	isData := strings.HasPrefix(rel, "data/")
	if op == "sync" {
		rc.syncedLen[rel] = rc.fileLen[rel] // content does not change; what is there is durable now
		return
	}
	// bookkeeping for the model-level view
	if op == "write" {
		rc.fileLen[rel] += n
	}
	if isWal && op == "write" && rc.inflight >= 0 {
		rc.walRecs[rel] = append(rc.walRecs[rel], rc.inflight)
		rc.walEnds[rel] = append(rc.walEnds[rel], rc.fileLen[rel])
	}
	if isData && (op == "openfile" || op == "create") && strings.HasSuffix(rel, ".tssp.init") {
		final := strings.TrimSuffix(rel, ".init")
		rc.genFiles[rc.flushNo] = append(rc.genFiles[rc.flushNo], final)
		rc.genOf[final] = rc.flushNo
		rc.fileLen[rel], rc.syncedLen[rel] = 0, 0
		rc.initCnt[rc.mstNo(rel)]++
	}
	if isData && op == "rename" {
		rel2 := strings.TrimPrefix(strings.TrimPrefix(p2, rc.root), "/")
		rc.genOf[rel2] = rc.flushNo
		if strings.HasSuffix(rel, ".tssp.init") && rc.syncedLen[rel] != rc.fileLen[rel] {
			rc.orderViol = append(rc.orderViol, fmt.Sprintf("%s: data file %s renamed into place with %d of its %d bytes covered by a Sync", rc.phase, rel, rc.syncedLen[rel], rc.fileLen[rel]))
		}
		rc.fileLen[rel2], rc.syncedLen[rel2] = rc.fileLen[rel], rc.syncedLen[rel]
		if strings.HasSuffix(rel, ".tssp.init") {
			rc.renDone[rc.mstNo(rel)]++
			rc.cond.Broadcast()
		}
	}
	if op == "remove" {
		if isWal && rc.flushNo > 0 {
			// the old WAL files go only after every data file of the flush is in place and synced
			for _, f := range rc.genFiles[rc.flushNo] {
				if rc.syncedLen[f] != rc.fileLen[f] || rc.fileLen[f] == 0 {
					rc.orderViol = append(rc.orderViol, fmt.Sprintf("%s: WAL file %s removed while data file %s of the flush is not committed and synced", rc.phase, rel, f))
				}
			}
		}
		delete(rc.fileLen, rel)
		delete(rc.syncedLen, rel)
	}
	if !rc.imaging {
		return
	}
	if !isWal && !isData {
		rc.idxSkip++
		if rc.idxSkip%6 != 0 {
			return
		}
	}
	take := func(torn bool, tornBytes int64, desc string) {
		rc.n++
		dst := filepath.Join(rc.imgRoot, fmt.Sprintf("img%05d", rc.n))
		if e := copyTree(rc.root, dst); e != nil {
			return
		}
		relocateTxn(dst, rc.root)
		tornID := -1
		if torn {
			f := filepath.Join(dst, rel)
			if st, e := os.Stat(f); e == nil {
				os.Truncate(f, st.Size()-tornBytes)
			}
			tornID = rc.inflight
		}
		line, window, class := rc.durable(dst, tornID, false)
		rc.images = append(rc.images, &image{dir: dst, acked: rc.acked, inflight: rc.inflight, torn: torn, window: window,
			desc: fmt.Sprintf("%s; after %s %s %s", rc.phase, op, rel, desc), opLine: line, class: class})
	}
	// the disk after a power loss at this instant: every WAL file cut back to its synced length
	takePL := func() {
		unsynced := false
		for f, l := range rc.fileLen {
			if strings.HasPrefix(f, "wal/") && rc.syncedLen[f] != l {
				unsynced = true
			}
		}
		if !unsynced {
			return // the same as the process-kill image
		}
		rc.plCnt++
		if !rc.sync0 && rc.plCnt%3 != 0 {
			return
		}
		rc.n++
		dst := filepath.Join(rc.imgRoot, fmt.Sprintf("img%05d", rc.n))
		if e := copyTree(rc.root, dst); e != nil {
			return
		}
		relocateTxn(dst, rc.root)
		for f := range rc.fileLen {
			if strings.HasPrefix(f, "wal/") {
				os.Truncate(filepath.Join(dst, f), rc.syncedLen[f])
			}
		}
		line, window, class := rc.durable(dst, -1, true)
		rc.images = append(rc.images, &image{dir: dst, acked: rc.acked, inflight: rc.inflight, pl: true, window: window,
			desc: fmt.Sprintf("%s; after %s %s (power loss: WAL files cut back to their synced length)", rc.phase, op, rel), opLine: line, class: class})
	}
	take(false, 0, "")
	if isWal || isData {
		takePL()
	}
	if isWal && op == "write" && n > 6 && rc.inflight >= 0 {
		// torn variants of the record just appended: header only, one byte short, random cut
		cuts := []int64{n - 5, 1}
		if rc.r.Chance(rc.tornPct) {
			cuts = append(cuts, 1+int64(rc.r.Intn(int(n-1))))
		}
		for _, c := range cuts {
			take(true, c, fmt.Sprintf("(record cut by %d of %d bytes)", c, n))
		}
	}
}

var mstNames = []string{"m", "n"}

// opRow is the row as the model sees it: the series of the k-th measurement are numbered 100k+i.
func opRow(x engx.Row) engx.Row {
	for k, m := range mstNames {
		if x.Mst == m {
			x.Series += 100 * k
		}
	}
	return x
}

func genBatch(r *hx.Rng, hiWater int, nMst int) []engx.Row {
	n := 1 + r.Intn(4)
	var rows []engx.Row
	for i := 0; i < n; i++ {
		row := engx.Row{Mst: "m", Series: r.Intn(nSeries), Fields: map[string]string{}}
		if nMst > 1 && r.Chance(40) {
			row.Mst = mstNames[1]
		}
		if r.Chance(45) {
			row.T = r.Intn(nTimes)
		} else {
			row.T = hiWater + r.Intn(2)
			if row.T >= nTimes {
				row.T = nTimes - 1
			}
		}
		for _, f := range engx.FieldNames {
			if r.Chance(40) {
				switch f {
				case "fi":
					row.Fields[f] = fmt.Sprint(r.Intn(1000))
				case "ff":
					row.Fields[f] = fmt.Sprintf("%016x", math.Float64bits(float64(r.Intn(64))/8))
				case "fb":
					row.Fields[f] = fmt.Sprint(r.Intn(2))
				default:
					row.Fields[f] = fmt.Sprintf("v%d", r.Intn(50))
				}
			}
		}
		if len(row.Fields) == 0 {
			row.Fields["fi"] = fmt.Sprint(r.Intn(1000))
		}
		rows = append(rows, row)
	}
	return rows
}

type verdict struct {
	img  *image
	ans  string
	line int
}

// dumpAll reads every measurement of the universe and renders the rows with the model's series
// numbers (100k+i for the k-th measurement).
func dumpAll(sh *engine.VerifShard) (string, error) {
	var cells []string
	split := false
	for k, m := range mstNames {
		rows, err := sh.Dump(m, engx.AllFields(), math.MinInt64, math.MaxInt64, true)
		if err != nil {
			return "", err
		}
		t := engx.DumpText(rows)
		if strings.HasSuffix(t, " !split") {
			split = true
			t = strings.TrimSuffix(t, " !split")
		}
		body := strings.TrimPrefix(t, "rows ")
		if body == "" {
			continue
		}
		for _, c := range strings.Split(body, "|") {
			if k > 0 {
				if i := strings.IndexByte(c, ':'); i > 0 {
					if sn, e := strconv.Atoi(c[:i]); e == nil {
						c = fmt.Sprint(sn+100*k) + c[i:]
					}
				}
			}
			cells = append(cells, c)
		}
	}
	out := "rows " + strings.Join(cells, "|")
	if split {
		out += " !split"
	}
	return out, nil
}

// Every shard the harness opens has the shard id 1 and registers with the process-wide compactor;
// recoveries run in parallel. Compactor.UnregisterShard (called by DetachFromCompactor and by
// Close) is check-then-act per shard id, so two of them at once would sign one registration off
// twice ("negative WaitGroup counter"). A store never has two shards with one id; here the calls
// are serialised.
var compMu sync.Mutex

func recoverImage(img *image, nParts int) string {
	var text string
	var err error
	perr := hx.Safe(func() {
		var sh *engine.VerifShard
		sh, err = engine.VerifOpenShard(img.dir, nParts)
		if err != nil {
			return
		}
		compMu.Lock()
		sh.DetachFromCompactor()
		compMu.Unlock()
		sh.FlushIndex()
		text, err = dumpAll(sh)
		compMu.Lock()
		cerr := sh.Close()
		compMu.Unlock()
		if err == nil && cerr != nil {
			err = cerr
		}
	})
	os.RemoveAll(img.dir)
	switch {
	case perr != "":
		return "err " + strings.SplitN(perr, "\n", 2)[0]
	case err != nil:
		return "err " + strings.SplitN(err.Error(), "\n", 2)[0]
	}
	return text
}

func runHistory(c *hx.Ctx, r *hx.Rng, idx int, workers int) error {
	root := engx.FastScratchDir("c01")
	imgRoot := engx.FastScratchDir("c01img")
	defer os.RemoveAll(root)
	defer os.RemoveAll(imgRoot)
	nParts := []int{1, 2, 2, 4}[r.Intn(4)]
	rc := &recorder{root: root, imgRoot: imgRoot, inflight: -1, walRecs: map[string][]int{}, genOf: map[string]int{},
		genLo: map[int]int{}, genHi: map[int]int{}, genFiles: map[int][]string{}, nParts: nParts, r: r.Fork(), tornPct: 50,
		paused: make(chan struct{}), resume: make(chan struct{}),
		fileLen: map[string]int64{}, syncedLen: map[string]int64{}, walEnds: map[string][]int64{}, msts: mstNames,
		initCnt: map[int]int{}, renDone: map[int]int{}}
	rc.cond = sync.NewCond(&rc.mu)
	// wal-sync-interval: 0 (every append synced before the acknowledgement) or an interval that never
	// fires during the history (only the switch of a flush syncs): the sync events are then a
	// function of the history, not of the wall clock
	rc.sync0 = r.Chance(50)
	nMst := 1
	if r.Chance(40) {
		nMst = 2
	}
	fileops.SetVerifObserver(rc)
	defer fileops.SetVerifObserver(nil)
	sh, err := engine.VerifOpenShard(root, nParts)
	if err != nil {
		return err
	}
	compMu.Lock()
	sh.DetachFromCompactor()
	compMu.Unlock()
	sh.StopIndexBackground()
	if rc.sync0 {
		sh.SetWalSyncInterval(0)
		c.Count("wal-sync-interval=0")
	} else {
		sh.SetWalSyncInterval(time.Hour)
		c.Count("wal-sync-interval>0")
	}
	c.Count(fmt.Sprintf("measurements=%d", nMst))
	c.Emit(fmt.Sprintf("open %d", idx), "ok")
	c.Emit(fmt.Sprintf("parts %d", nParts), "ok")
	c.Count(fmt.Sprintf("wal-partitions=%d", nParts))
	var batches [][]engx.Row
	nOps := 3 + r.Intn(9)
	hiWater := 0
	kinds := ""
	overwrite := false
	seen := map[key]bool{}
	flushedTo := 0

	// A third of the histories first age the shard (see below).
	warm := 0
	if r.Chance(35) {
		warm = 7 + r.Intn(3) // the imaged part then crosses the 9.wal -> 10.wal boundary
		c.Count("history:aged-wal-sequence")
	}

	var lastRaw []engx.Row // the previous batch with the shard's own series numbers
	doWrite := func(i int) error {
		rows := genBatch(r, hiWater, nMst)
		if warm > 0 && len(batches) > 0 && r.Chance(60) {
			// overwrite a key of the previous batch: the order of replay then matters
			prev := lastRaw
			src := prev[r.Intn(len(prev))]
			rows[0].Mst, rows[0].Series, rows[0].T = src.Mst, src.Series, src.T
			// one field of the overwritten row (the first in name order: iterating the map would make the
			// history depend on Go's map order)
			var fns []string
			for f := range src.Fields {
				fns = append(fns, f)
			}
			sort.Strings(fns)
			if len(fns) > 0 {
				f := fns[0]
				rows[0].Fields[f] = map[string]string{"fi": fmt.Sprint(r.Intn(1000)), "ff": fmt.Sprintf("%016x", math.Float64bits(float64(r.Intn(64))/8)), "fb": fmt.Sprint(r.Intn(2)), "fs": fmt.Sprintf("v%d", r.Intn(50))}[f]
			}
		}
		var ts []string
		var orows []engx.Row // the batch as the model and the spec see it
		mstsOf := map[string]bool{}
		for _, x := range rows {
			o := opRow(x)
			orows = append(orows, o)
			ts = append(ts, o.Text())
			mstsOf[x.Mst] = true
			if x.T > hiWater {
				hiWater = x.T
			}
			if seen[key{o.Series, o.T}] {
				overwrite = true
			}
			seen[key{o.Series, o.T}] = true
		}
		if len(mstsOf) > 1 {
			c.Count("batch:two-measurements")
		}
		rc.mu.Lock()
		rc.inflight = len(batches)
		rc.inWrite = true
		rc.histOps++
		rc.phase = fmt.Sprintf("history %d op %d write #%d (%s)", idx, i, len(batches), kinds)
		rc.mu.Unlock()
		batches = append(batches, orows)
		lastRaw = rows
		wl := c.Emit("write "+strings.Join(ts, ";"), "ack")
		var werr error
		perr := hx.Safe(func() { werr = sh.Write(engx.ToInflux(rows)) })
		rc.mu.Lock()
		// the acknowledgement: with wal-sync-interval = 0 the record must be covered by a Sync by now
		if rc.sync0 && perr == "" && werr == nil {
			id := len(batches) - 1
			found := false
			for f, ids := range rc.walRecs {
				for i, x := range ids {
					if x == id {
						found = true
						if i >= len(rc.walEnds[f]) || rc.walEnds[f][i] > rc.syncedLen[f] {
							rc.orderViol = append(rc.orderViol, fmt.Sprintf("%s: batch #%d acknowledged while its WAL record in %s is not covered by a Sync (wal-sync-interval = 0)", rc.phase, id, f))
						}
					}
				}
			}
			if !found {
				rc.orderViol = append(rc.orderViol, fmt.Sprintf("%s: batch #%d acknowledged without a WAL append", rc.phase, id))
			}
		}
		for _, v := range rc.orderViol {
			c.Violation(wl, "", v)
		}
		rc.orderViol = nil
		rc.inflight = -1
		rc.inWrite = false
		rc.acked = len(batches)
		rc.mu.Unlock()
		if perr != "" || werr != nil {
			return fmt.Errorf("write failed: %s %v", perr, werr)
		}
		kinds += "w"
		c.Count("op:write")
		return nil
	}

	rc.on = true
	panicked := ""
	// A quarter of the histories first age the shard: 8-11 write+flush rounds without crash images,
	// so that the WAL file sequence numbers of a partition grow past 9 (two-digit names) before
	// the part of the history that is imaged.
	nOps += 2 * warm
	for i := 0; i < nOps; i++ {
		rc.mu.Lock()
		rc.imaging = i >= 2*warm
		rc.mu.Unlock()
		isWrite := r.Chance(72)
		if i < 2*warm {
			isWrite = i%2 == 0
		}
		if isWrite {
			if err := doWrite(i); err != nil {
				return err
			}
			continue
		}
		rc.mu.Lock()
		rc.flushNo++
		rc.histOps++
		rc.genLo[rc.flushNo] = flushedTo
		rc.genHi[rc.flushNo] = len(batches)
		rc.flushMsts, rc.initCnt, rc.renDone = nil, map[int]int{}, map[int]int{}
		for k := range mstNames {
			has := false
			for _, b := range batches[flushedTo:] {
				for _, x := range b {
					if x.Series/100 == k {
						has = true
					}
				}
			}
			if has {
				rc.flushMsts = append(rc.flushMsts, k)
			}
		}
		interleave := (r.Chance(45) || (warm > 0 && r.Chance(80))) && len(batches) > flushedTo && i >= 2*warm
		flushedTo = len(batches)
		rc.phase = fmt.Sprintf("history %d op %d flush #%d (%s)", idx, i, rc.flushNo, kinds)
		if interleave {
			rc.pauseAt, rc.pauseCnt = 1+r.Intn(6), 0
		}
		rc.mu.Unlock()
		c.Emit("flush", "ok")
		kinds += "f"
		c.Count("op:flush")
		done := make(chan string, 1)
		go func() { done <- hx.Safe(func() { sh.Flush() }) }()
		perr := ""
		select {
		case perr = <-done:
		case <-rc.paused:
			// the flush is stopped right before one of its mutations: write meanwhile
			c.Count("op:writes-during-flush")
			kinds += "("
			nw := 1 + r.Intn(3)
			for k := 0; k < nw; k++ {
				if err := doWrite(i); err != nil {
					rc.resume <- struct{}{}
					return err
				}
			}
			kinds += ")"
			rc.mu.Lock()
			rc.phase = fmt.Sprintf("history %d op %d flush #%d resumed (%s)", idx, i, rc.flushNo, kinds)
			rc.mu.Unlock()
			rc.resume <- struct{}{}
			perr = <-done
		}
		rc.mu.Lock()
		rc.pauseAt = 0
		rc.mu.Unlock()
		if perr != "" {
			// A panic in the flush is the process dying at that instant: the images taken so far
			// (the last one is the disk as the panic leaves it) are recovered like any other crash
			// image. The model knows no such step, so the extra line is a correspondence diff, and
			// the panic is reported with the history that led to it.
			panicked = strings.SplitN(perr, "\n", 2)[0]
			pl := c.Emit("flush-outcome", "err "+panicked)
			c.Violation(pl, "", fmt.Sprintf("history %d (%s, %d WAL partitions): the flush panicked: %s", idx, kinds, nParts, panicked))
			c.Count("history:ended-by-a-panic-in-the-flush")
			break
		}
	}
	rc.on = false
	rc.mu.Lock()
	for _, v := range rc.orderViol {
		c.Violation(c.Emit("trace-order", "ok"), "", v)
	}
	rc.orderViol = nil
	rc.mu.Unlock()
	if panicked == "" {
		if perr := hx.Safe(func() { compMu.Lock(); defer compMu.Unlock(); sh.Close() }); perr != "" {
			return fmt.Errorf("close failed: %s", perr)
		}
	} else {
		// the shard may be left with locks held: close it if that ends soon, otherwise abandon it
		closed := make(chan struct{})
		// (not under compMu: a Close that never returns must not block every later recovery; the shard
		// was detached from the compactor when it was opened)
		go func() { hx.Safe(func() { sh.Close() }); close(closed) }()
		select {
		case <-closed:
		case <-time.After(10 * time.Second):
		}
	}
	fileops.SetVerifObserver(nil)

	// phase 2: recover every image
	imgs := rc.images
	// crash during recovery: the recovery of a few images whose durable state is inside the exactness
	// condition is itself run under an observer (sequentially: the observer is process-wide)
	var imgs2 []*image2
	if panicked == "" {
		var cand []int
		for i, img := range imgs {
			if !img.window && !img.torn && !(img.pl && !rc.sync0) && strings.Contains(img.opLine, " wal=") && !strings.Contains(img.opLine, " wal= ") {
				cand = append(cand, i)
			}
		}
		nObs := 1
		if c.Tier == "thorough" {
			nObs = 2
		}
		for k := 0; k < nObs && len(cand) > 0; k++ {
			j := r.Intn(len(cand))
			imgs2 = append(imgs2, observeRecovery(imgs[cand[j]], nParts, imgRoot, k)...)
			cand = append(cand[:j], cand[j+1:]...)
		}
	}
	answers := make([]string, len(imgs))
	answers2 := make([]string, len(imgs2))
	var wg sync.WaitGroup
	ch := make(chan int)
	for w := 0; w < workers; w++ {
		wg.Add(1)
		go func() {
			defer wg.Done()
			for i := range ch {
				if i < len(imgs) {
					answers[i] = recoverImage(imgs[i], nParts)
				} else {
					answers2[i-len(imgs)] = recoverImage2(imgs2[i-len(imgs)], nParts)
				}
			}
		}()
	}
	// the second-level images first: their parents' directories are consumed by the first-level recovery
	for i := range imgs2 {
		ch <- len(imgs) + i
	}
	for i := range imgs {
		ch <- i
	}
	close(ch)
	wg.Wait()
	if rc.gateOff {
		c.Count("history:measurement-order-of-a-flush-not-enforced")
	}
	inFlushWindow := 0
	lineOf := map[*image]int{}
	for i, img := range imgs {
		ansLine := answers[i]
		if img.window {
			ansLine += " window" // the durable state is outside the model's exactness condition
		}
		line := c.Emit(img.opLine, ansLine)
		lineOf[img] = line
		if df, e := os.OpenFile(filepath.Join(c.Out, "descs.txt"), os.O_CREATE|os.O_APPEND|os.O_WRONLY, 0o644); e == nil {
			fmt.Fprintf(df, "%d\t%s\n", line, img.desc)
			df.Close()
		}
		ok := answers[i] == specOf(batches, img.acked)
		if !ok && img.inflight >= 0 && !img.torn {
			ok = answers[i] == specOf(batches, img.inflight+1)
		}
		if img.pl {
			c.Count("image:power-loss")
			if !rc.sync0 {
				// with a positive wal-sync-interval acknowledged batches may be lost by a power loss: the
				// configuration allows it; the model must still predict what is recovered
				if !ok {
					c.Count("power-loss:acknowledged-batches-lost(interval>0)")
				}
				ok = true
			}
		}
		c.Count("image:" + strings.Fields(strings.SplitN(img.desc, "; after ", 2)[1])[0])
		if img.torn {
			c.Count("image:torn-record")
		}
		if strings.Contains(img.desc, "flush") {
			inFlushWindow++
		}
		if img.window {
			if img.class != "" {
				c.Count("durable-state:" + img.class)
			} else {
				c.Count("durable-state:outside-the-exactness-condition,no-known-class")
			}
		}
		if !ok {
			c.Violation(line, img.class, fmt.Sprintf("%s: recovered %q, acknowledged state %q (acked=%d inflight=%d torn=%v)", img.desc, answers[i], specOf(batches, img.acked), img.acked, img.inflight, img.torn))
		}
	}
	for i, im := range imgs2 {
		p := im.parent
		ok := answers2[i] == specOf(batches, p.acked)
		if !ok && p.inflight >= 0 {
			ok = answers2[i] == specOf(batches, p.inflight+1)
		}
		c.Count("image:crash-during-recovery")
		if im.class != "" {
			c.Count("crash-during-recovery:inside-the-removal-of-the-replayed-wal-files")
		}
		if !ok {
			c.Violation(lineOf[p], im.class, fmt.Sprintf("%s; crash %s, recovered again: %q, acknowledged state %q (acked=%d inflight=%d)", p.desc, im.desc, answers2[i], specOf(batches, p.acked), p.acked, p.inflight))
		}
	}
	c.Case(fmt.Sprintf("%d:%s:%d", idx, kinds, nParts), overwrite && inFlushWindow > 0)
	if overwrite {
		c.Sample(fmt.Sprintf("history %d ops=%s walParts=%d crash images=%d (in a flush: %d)", idx, kinds, nParts, len(imgs), inFlushWindow))
	}
	c.Stats.Hist["crash-images"] += len(imgs)
	return nil
}

func Run(c *hx.Ctx) error {
	c.Stats.Rule = "random histories (write batches with overwrites / late data / partial fields, over one or two measurements; forced flushes with writes interleaved; 1, 2 or 4 WAL partitions; wal-sync-interval 0 or never firing) on a real shard; a crash image (copy of the shard directory) is taken after every file-system mutation under wal/ and data/, every 6th mutation of the series index, plus torn variants of every WAL append, plus power-loss variants (WAL files cut back to their synced length) wherever they differ; every image is recovered by reopening a shard on it and read back; the order append -> Sync -> acknowledgement (interval 0) and data-file write -> Sync -> rename -> WAL removal is checked on the observed trace; a history is non-trivial when it overwrites a (series,time) and has crash points inside a flush; distinct by (op kinds, partitions)"
	n := c.Budget(25, 600)
	r := hx.NewRng(c.Seed)
	for i := 0; i < n; i++ {
		if err := runHistory(c, r.Fork(), i, 8); err != nil {
			return err
		}
	}
	return nil
}
