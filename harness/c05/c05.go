package c05

// c05.go: the scenario engine. One scenario = one replica group of N real nodes (cluster.go) driven
// by a seeded sequence of actions (writes incl. overwrites, flush begin / end, kill, restart, hold
// and release of a node's traffic, gate on a node's apply loop, injected apply failures, entry-log
// truncation by the leader, by size, meta liveness changes, master elections). After every action
// the harness lets the group settle (logical ticks only), observes every node, and emits
//   * the model steps that explain what it saw (propose / commit / sync / publish / apply / ...),
//     each answered `ok` by the implementation side by construction, and
//   * a `digest` line whose implementation answer is the canonical text of the observed state;
// the Lean driver replays the steps on the model and must print the same digest.
// Spec check (Go oracle): after every settle, every node ts-meta could make master (or has made
// master) that has caught up must answer, for every key, the latest committed write; an
// acknowledged writer's proposal must be committed and applied on its node.

import (
	"encoding/binary"
	"fmt"
	"os"
	"path/filepath"
	"sort"
	"strings"
	"sync/atomic"
	"time"

	metaapp "github.com/openGemini/openGemini/app/ts-meta/meta"
	"github.com/openGemini/openGemini/lib/metaclient"
	"github.com/openGemini/openGemini/lib/util/lifted/hashicorp/serf/serf"
	proto2 "github.com/openGemini/openGemini/lib/util/lifted/influx/meta/proto"
	"github.com/openGemini/openGemini/lib/util/lifted/protobuf/proto"
	"github.com/openGemini/openGemini/lib/config"
	"github.com/openGemini/openGemini/lib/logger"
	"github.com/openGemini/openGemini/lib/raftconn"
	"github.com/openGemini/openGemini/lib/raftlog"
	meta2 "github.com/openGemini/openGemini/lib/util/lifted/influx/meta"
	"github.com/influxdata/influxdb/toml"
	"go.etcd.io/etcd/raft/v3"
	"go.etcd.io/etcd/raft/v3/raftpb"
	"go.uber.org/zap"
	"io"
	"log"
	"verif/harness/internal/hx"
)

func init() { hx.Register("C05", Run) }

// ---------------------------------------------------------------------------------------------

type ent struct { // mirror of one committed entry
	kind       string // write | clear | noop
	k, v, sh   int
	prop       int
	uid        int
	clearIdx   uint64
	size       int
	failedOn   map[int]bool // nodes whose commit loop was made to fail on it
}

type infl struct {
	kind string
	uid  int
	prop int
}

type writer struct {
	uid, node, life, seq int
	k, v, sh             int
	done                 chan error
	res                  string // "" pending, ok, err, timeout, dead
	reported             bool
}

type mirror struct { // what the emitted steps have told the model about a node
	up                         bool
	last, commit, pub, applied uint64
	sc                         uint64
	seq                        int
	failPlan                   int
	gated                      bool
	held, heldIn, heldOut      bool
	holeLo, holeHi             []uint64
	deadLast                   uint64 // entryLog.lastIndex() when the node was killed
	lateReplay                 bool   // this life applied its start-up replay after newer entries
	lifePub                    uint64 // appliedIndex at the start of this life: the commit loop gets the entries above it
	replayPending              bool
}

type H struct {
	c      *hx.Ctx
	r      *hx.Rng
	cl     *cluster
	n      int
	root   string
	clog   []ent
	infl   []infl
	mir    []mirror
	leader int
	wr     []*writer
	nextU  int
	data   *meta2.Data
	log    []string // actions of this scenario (for the replay text)
	err    error
	prof   string
	viol   int
	reported map[string]int
	ltime    uint64
	cap      *capture
	wkind    map[uint64]bool // entry index -> it is a Normal (row) entry; filled from the logs
	real     bool // real ts-store shards behind the nodes
	tag      string // "" or "@1 ": which replica group of the run this is (two groups can share the nodes)
	twin     *H     // the other replica group on the same nodes
	nontrivial bool
}

func (h *H) emit(op string) int { return h.c.Emit(h.tag+op, "ok") }

func (h *H) fail(format string, a ...any) {
	if h.err == nil {
		h.err = fmt.Errorf(format, a...)
	}
}

// ---------------------------------------------------------------------------------------------
// set-up

func (h *H) boot() {
	h.cl = newCluster(h.root, h.n, h.real)
	for i := 0; i < h.n; i++ {
		if err := h.cl.start(i, filepath.Join(h.root, fmt.Sprintf("n%d-life1", i))); err != nil {
			h.fail("start node %d: %v", i, err)
			return
		}
	}
	// every node applies its n bootstrap conf changes on its own
	ok := waitFor(5*time.Second, func() bool {
		for i := 0; i < h.n; i++ {
			o := h.cl.nodes[i].observe()
			if o.applied != uint64(h.n) || o.commit != uint64(h.n) {
				return false
			}
		}
		return true
	})
	if !ok {
		h.fail("bootstrap did not finish")
		return
	}
	ents, err := h.cl.nodes[0].store.Entries(1, uint64(h.n)+1, 1<<40)
	if err != nil || len(ents) != h.n {
		h.fail("bootstrap entries: %v", err)
		return
	}
	var szs []string
	for _, e := range ents {
		szs = append(szs, fmt.Sprint(len(e.Data)))
		h.clog = append(h.clog, ent{kind: "noop", size: len(e.Data)})
	}
	h.mir = make([]mirror, h.n)
	for i := range h.mir {
		h.mir[i] = mirror{up: true, last: uint64(h.n), commit: uint64(h.n), pub: uint64(h.n), applied: uint64(h.n), lifePub: uint64(h.n)}
	}
	h.leader = -1
	// ts-meta's record of the group, built by the real code
	h.data = &meta2.Data{PtView: map[string]meta2.DBPtInfos{}, ReplicaGroups: map[string][]meta2.ReplicaGroup{},
		Databases: map[string]*meta2.DatabaseInfo{dbName: {Name: dbName, ReplicaN: h.n}}, TakeOverEnabled: true}
	for i := 0; i < h.n; i++ {
		dn := meta2.DataNode{}
		dn.ID = uint64(i + 1)
		dn.Host = fmt.Sprintf("127.0.0.%d:8400", i+1)
		dn.Status = serf.StatusAlive
		h.data.DataNodes = append(h.data.DataNodes, dn)
		h.data.PtView[dbName] = append(h.data.PtView[dbName], meta2.PtInfo{Owner: meta2.PtOwner{NodeID: uint64(i + 1)}, Status: meta2.Offline, PtId: uint32(i)})
	}
	if perr := safe(func() {
		if err := h.data.CreateDBReplication(dbName, uint32(h.n)); err != nil {
			h.fail("CreateDBReplication: %v", err)
		}
	}); perr != "" {
		h.fail("CreateDBReplication: %s", perr)
		return
	}
	if len(h.data.ReplicaGroups[dbName]) != 1 {
		h.fail("expected one replica group, got %d", len(h.data.ReplicaGroups[dbName]))
		return
	}
	// the partitions come online one by one (UpdatePtInfo): the group turns Health with the majority
	for i := 0; i < h.n && h.err == nil; i++ {
		h.ptOnline(i)
	}
	if h.rgp().Status != meta2.Health {
		h.fail("replica group is not Health after all partitions came online (status %d)", h.rgp().Status)
		return
	}
	h.emit("new")
	h.emit(fmt.Sprintf("boot %d %s", h.n, strings.Join(szs, ",")))
}

func (h *H) rgp() *meta2.ReplicaGroup { return &h.data.ReplicaGroups[dbName][0] }

// ---------------------------------------------------------------------------------------------
// settle + observe

func (h *H) upUnheld(i int) bool { return h.mir[i].up && !h.mir[i].held && !h.mir[i].heldIn }

// settle: tick the leader (heartbeats carry the commit index), wait until nothing moves.
func (h *H) settle() {
	if h.err != nil {
		return
	}
	if h.leader >= 0 && h.mir[h.leader].up {
		if err := h.cl.tickNode(h.leader, 2); err != nil {
			h.fail("%v", err)
			return
		}
	}
	var prev string
	stable := 0
	ok := waitFor(120*time.Second, func() bool {
		cur := h.rawState()
		if cur == prev && h.quiet() {
			stable++
		} else {
			stable = 0
		}
		prev = cur
		if stable >= 3 {
			return true
		}
		time.Sleep(time.Millisecond)
		return false
	})
	if !ok {
		h.fail("group does not settle: %s", prev)
		return
	}
	// a writer whose answer has been handed over by the commit loop may not have returned yet
	// (goroutine scheduling); a writer whose proposal was lost never does: bounded extra wait
	for _, w := range h.wr {
		if w.res == "" && h.mir[w.node].up && !h.mir[w.node].gated {
			w := w
			waitFor(60*time.Millisecond, func() bool {
				select {
				case err := <-w.done:
					w.res = classify(err)
					return true
				default:
					return false
				}
			})
		}
	}
}

func (h *H) rawState() string {
	var b strings.Builder
	for i := 0; i < h.n; i++ {
		if !h.mir[i].up {
			continue
		}
		x := h.cl.nodes[i]
		o := x.observe()
		fmt.Fprintf(&b, "%d:%+v,%d,%d,%d|", i, o, atomic.LoadInt64(&x.st.applied), atomic.LoadInt32(&x.st.waiting), len(x.rn.GetCommitC()))
	}
	for _, w := range h.wr {
		if w.res == "" {
			select {
			case err := <-w.done:
				w.res = classify(err)
			default:
			}
		}
		b.WriteString(w.res + ",")
	}
	return b.String()
}

func classify(err error) string {
	switch {
	case err == nil:
		return "ok"
	case strings.Contains(err.Error(), "timeout") || strings.Contains(err.Error(), "Timeout"):
		return "timeout"
	}
	return "err"
}

// quiet: every running node either has applied all it published or waits at its gate; followers
// that can hear the leader have what the leader has.
func (h *H) quiet() bool {
	var lo obs
	haveLeader := h.leader >= 0 && h.mir[h.leader].up
	if haveLeader {
		lo = h.cl.nodes[h.leader].observe()
	}
	for i := 0; i < h.n; i++ {
		if !h.mir[i].up {
			continue
		}
		x := h.cl.nodes[i]
		o := x.observe()
		if haveLeader && !h.mir[i].held && !h.mir[i].heldIn && !h.mir[h.leader].held && !h.mir[h.leader].heldIn && (o.last != lo.last || o.commit != lo.commit) {
			return false
		}
		if len(x.rn.GetCommitC()) != 0 && !h.mir[i].gated {
			return false
		}
		if atomic.LoadInt32(&x.st.busy) != atomic.LoadInt32(&x.st.waiting) {
			return false // an apply is inside the store (and not merely waiting at the gate)
		}
		// the commit loop has finished every row entry it was handed (decoding a batch of several MiB
		// takes longer than the polls are apart); not checked after a snapshot install, which skips entries
		if !h.mir[i].gated && len(h.mir[i].holeLo) == 0 && !(o.snap > h.mir[i].last && o.snap > h.mir[i].sc) {
			want, ok := h.countWrites(x, h.mir[i].lifePub, o.applied)
			if ok && atomic.LoadInt64(&x.st.applied) < want {
				return false
			}
		}
		if o.applied < o.commit && !(h.mir[i].gated) {
			return false
		}
	}
	return true
}

// wouldRotate: would the next entry of payload size sz start a new entry file? (the canonical layout:
// AddEntries rotates when the file has 30000 entries or offset + 4 + len exceeds 32 MiB, data from 1 MiB)
func (h *H) wouldRotate(sz int) bool {
	off, cnt := 1<<20, 0
	for i := range h.clog {
		if cnt >= 30000 || off+4+h.clog[i].size > 32<<20 {
			off, cnt = 1<<20, 0
		}
		off += 4 + h.clog[i].size
		cnt++
	}
	return cnt >= 30000 || off+4+sz > 32<<20
}

// entrySize is len(Entry.Data) of a write proposed on node p
func entrySize(p, sh, k, v, pad int) int {
	return 4 + 1 + len(fmt.Sprintf("%s_%d", dbName, p)) + 8 + len(tailOf(sh, k, v, pad))
}

// countWrites: how many row entries lie in (lo, hi] of the log (kinds are cached; an entry the node
// does not have any more was counted while it had it).
func (h *H) countWrites(x *nd, lo, hi uint64) (int64, bool) {
	if h.wkind == nil {
		h.wkind = map[uint64]bool{}
	}
	var n int64
	for idx := lo + 1; idx <= hi; idx++ {
		w, ok := h.wkind[idx]
		if !ok {
			if idx <= uint64(len(h.clog)) {
				w = h.clog[idx-1].kind == "write"
			} else {
				ents, err := x.store.Entries(idx, idx+1, 1<<40)
				if err != nil || len(ents) != 1 {
					return 0, false
				}
				d := ents[0].Data
				w = ents[0].Type == raftpb.EntryNormal && len(d) >= 4 && binary.BigEndian.Uint32(d) == uint32(raftlog.Normal)
			}
			h.wkind[idx] = w
		}
		if w {
			n++
		}
	}
	return n, true
}

// decode one raft entry into the mirror's terms
func (h *H) decode(e raftpb.Entry) ent {
	out := ent{kind: "noop", size: len(e.Data), failedOn: map[int]bool{}}
	if e.Type != raftpb.EntryNormal || len(e.Data) == 0 {
		return out
	}
	dw, err := raftlog.Unmarshal(e.Data)
	if err != nil {
		return out
	}
	switch dw.DataType {
	case raftlog.Normal:
		out.kind = "write"
		var pt int
		fmt.Sscanf(strings.TrimPrefix(dw.Identity, dbName+"_"), "%d", &pt)
		out.prop = pt
		tail := dw.Data
		out.sh = int(binary.BigEndian.Uint64(tail))
		rows, derr := decodeRows(tail[12:])
		if derr != nil || len(rows) != 1 {
			h.fail("cannot decode committed rows: %v", derr)
			return out
		}
		out.k, out.v, _ = rowKV(&rows[0])
		out.uid = out.v
	case raftlog.ClearEntryLog:
		out.kind = "clear"
		out.clearIdx = binary.BigEndian.Uint64(dw.Data)
	}
	return out
}

// explain emits the model steps that lead from the mirror to what is observed now.
func (h *H) explain() {
	if h.err != nil {
		return
	}
	cp := h.cap // one consistent look at a quiet group (after): nothing below reads the running nodes
	// 1. new committed entries, read from the node that knows the highest commit index
	best, bestC := -1, uint64(0)
	for i := 0; i < h.n; i++ {
		if h.mir[i].up {
			if o := cp.o[i]; o.commit > bestC {
				best, bestC = i, o.commit
			}
		}
	}
	known := uint64(len(h.clog))
	// 0. members that lagged behind the committed log and have it now: they caught up first
	for i := 0; i < h.n; i++ {
		m := &h.mir[i]
		if !m.up || i == h.leader || h.leader < 0 || !h.mir[h.leader].up || m.last >= known {
			continue
		}
		o := cp.o[i]
		if o.last >= known {
			if lf := cp.o[h.leader].first; m.last+1 < lf {
				// the leader no longer had entry m.last+1: raft sent its snapshot
				m.holeLo, m.holeHi = append(m.holeLo, m.last), append(m.holeHi, o.snap)
				m.pub, m.applied = o.snap, o.snap // RaftNode.appliedIndex = snapshot index
				h.c.Count("snapshot-install")
			}
			h.emit(fmt.Sprintf("sync %d", i))
			m.last, m.commit = known, known
		}
	}
	if best >= 0 && bestC > known {
		ents, err := cp.ents, cp.entsErr
		if err != nil || uint64(len(ents)) != bestC-known {
			h.fail("cannot read committed entries %d..%d from node %d: %v (%d)", known+1, bestC, best, err, len(ents))
			return
		}
		for _, re := range ents {
			e := h.decode(re)
			j := -1
			for x, f := range h.infl {
				if f.kind == e.kind && (e.kind != "write" || f.uid == e.uid) && (e.kind == "write" || f.prop >= 0) {
					j = x
					break
				}
			}
			if j < 0 {
				h.fail("committed entry %d (%s) matches no proposal in flight", re.Index, e.kind)
				return
			}
			if e.kind != "write" {
				e.prop = h.infl[j].prop
			}
			var q []string
			for m := 0; m < h.n; m++ {
				holds := false
				if h.mir[m].up {
					holds = cp.o[m].last >= re.Index
				} else {
					holds = h.mir[m].deadLast >= re.Index // it was in its log when it died (then uncommitted)
				}
				if h.mir[m].last == re.Index-1 && holds {
					q = append(q, fmt.Sprint(m))
					h.mir[m].last = re.Index
					if m == h.leader {
						h.mir[m].commit = re.Index
					}
				}
			}
			h.emit(fmt.Sprintf("commit %d %d %s", j, e.size, strings.Join(q, ",")))
			h.infl = append(h.infl[:j], h.infl[j+1:]...)
			h.clog = append(h.clog, e)
		}
	}
	// 2. per node: log / commit index, published, applied
	total := uint64(len(h.clog))
	for i := 0; i < h.n; i++ {
		m := &h.mir[i]
		if !m.up {
			continue
		}
		x := h.cl.nodes[i]
		o := cp.o[i]
		if o.last > total {
			o.last = total // an uncommitted tail is not part of the model's log
		}
		if o.last != m.last || o.commit != m.commit {
			h.emit(fmt.Sprintf("sync %d", i))
			if o.snap > 0 && m.last+1 < o.first && false {
				_ = o
			}
			m.last, m.commit = total, total
		}
		if o.applied != m.pub {
			h.emit(fmt.Sprintf("publish %d", i))
			m.pub = m.commit
		}
		target := m.pub
		if m.gated && cp.waiting[i] > 0 {
			// blocked at the first write entry after what it has applied
			for j := m.applied + 1; j <= m.pub; j++ {
				if h.clog[j-1].kind == "write" {
					target = j - 1
					break
				}
			}
		}
		for j := m.applied + 1; j <= target; j++ {
			e := &h.clog[j-1]
			f := 0
			if e.kind == "write" && m.failPlan > 0 {
				f = 1
				m.failPlan--
				e.failedOn[i] = true
			}
			u := 0
			if j == o.sc && o.sc != m.sc {
				u = 1
			}
			h.emit(fmt.Sprintf("apply %d %d %d", i, f, u))
			if e.kind == "write" && e.prop == i {
				// the proposer applied the entry: its writer (if it still waits) is being answered
				for _, w := range h.wr {
					if w.uid == e.uid && w.node == i && w.life == x.life && w.res == "" {
						select {
						case err := <-w.done:
							w.res = classify(err)
							if w.res == "ok" || w.res == "err" {
								cp.acked[w.uid] = w.res
							}
							if cp.pending[i] > 0 {
								cp.pending[i]-- // it was still registered when the look was taken
							}
						case <-time.After(20 * time.Second):
						}
					}
				}
			}
		}
		if target > m.applied {
			m.applied = target
		}
		m.sc = o.sc
	}
	// 3. writers that gave up
	for _, w := range h.wr {
		if w.res == "timeout" {
			h.emit(fmt.Sprintf("giveup %d %d", w.node, w.seq))
			w.res = "timeout-told"
		}
	}
}

// ---------------------------------------------------------------------------------------------
// digest of the implementation

func entryFileFirsts(dir string) []uint64 {
	var out []uint64
	fis, _ := os.ReadDir(dir)
	for _, fi := range fis {
		if !strings.HasSuffix(fi.Name(), ".entry") {
			continue
		}
		f, err := os.Open(filepath.Join(dir, fi.Name()))
		if err != nil {
			continue
		}
		var b [32]byte
		if _, err := io.ReadFull(f, b[:]); err == nil {
			if idx := binary.BigEndian.Uint64(b[8:]); idx != 0 {
				out = append(out, idx)
			}
		}
		f.Close()
	}
	sort.Slice(out, func(a, b int) bool { return out[a] < out[b] })
	return out
}

func natList[T any](l []T) string {
	if len(l) == 0 {
		return "-"
	}
	var s []string
	for _, x := range l {
		s = append(s, fmt.Sprint(x))
	}
	return strings.Join(s, ",")
}

// digestOp: with real shards only the merged view of a node's rows can be observed
func (h *H) digestOp() string {
	if h.real {
		return "digestm"
	}
	return "digest"
}

func (h *H) digest() string {
	cp := h.cap
	var ack []string
	var uids []int
	for u := range cp.acked {
		uids = append(uids, u)
	}
	sort.Ints(uids)
	for _, u := range uids {
		ack = append(ack, fmt.Sprintf("%d:%s", u, cp.acked[u]))
	}
	rg := h.rgp()
	var peers []uint32
	for _, p := range rg.Peers {
		peers = append(peers, p.ID)
	}
	var alive []int
	for i := 0; i < h.n; i++ {
		if h.cl.alive[i] {
			alive = append(alive, 1)
		} else {
			alive = append(alive, 0)
		}
	}
	lead := "-"
	if h.leader >= 0 {
		lead = fmt.Sprint(h.leader)
	}
	ackS := "-"
	if len(ack) > 0 {
		ackS = strings.Join(ack, ",")
	}
	health := 0
	if rg.Status == meta2.Health {
		health = 1
	}
	parts := []string{fmt.Sprintf("D clog=%d infl=%d lead=%s master=%d peers=%s alive=%s health=%d acked=%s", len(h.clog), len(h.infl), lead, rg.MasterPtID, natList(peers), natList(alive), health, ackS)}
	for i := 0; i < h.n; i++ {
		if !h.mir[i].up {
			parts = append(parts, fmt.Sprintf("n%d down", i))
			continue
		}
		o := cp.o[i]
		if o.last > uint64(len(h.clog)) {
			o.last = uint64(len(h.clog))
		}
		fsText, fText := cp.fs[i], fmt.Sprint(o.first)
		if len(h.mir[i].holeLo) > 0 {
			fsText, fText = "~", "~" // after a snapshot install the file layout is no longer the canonical one (C17 finding)
		}
		parts = append(parts, fmt.Sprintf("n%d up f=%s l=%d fs=%s c=%d p=%d a=%d s=%d sc=%d snp=%s w=%d %s",
			i, fText, o.last, fsText, o.commit, o.applied, h.mir[i].applied, o.snap, o.sc, natList(o.snps), cp.pending[i], cp.data[i]))
	}
	return strings.Join(parts, " | ")
}

// ---------------------------------------------------------------------------------------------
// the specification, computed in Go

func (h *H) latest() map[[2]int]*ent {
	out := map[[2]int]*ent{}
	for i := range h.clog {
		e := &h.clog[i]
		if e.kind == "write" {
			out[[2]int{e.sh, e.k}] = e
		}
	}
	return out
}

func (h *H) indexOf(e *ent) int {
	for i := range h.clog {
		if &h.clog[i] == e {
			return i + 1
		}
	}
	return 0
}

// check: (1) answers to writers, (2) readability on every node meta may serve reads from.
func (h *H) check(line int) {
	if h.err != nil {
		return
	}
	committed := map[int]int{} // uid -> index
	for i := range h.clog {
		if h.clog[i].kind == "write" {
			committed[h.clog[i].uid] = i + 1
		}
	}
	for _, w := range h.wr {
		if w.res != "ok" || w.reported {
			continue
		}
		idx, ok := committed[w.uid]
		if !ok {
			h.violation(line, "acked_not_committed", fmt.Sprintf("writer %d (node %d, key %d.%d=%d) was answered ok, its proposal is not in the committed log | %s", w.uid, w.node, w.sh, w.k, w.v, strings.Join(h.log, " ; ")))
			w.reported = true
			continue
		}
		if w.life != h.cl.nodes[w.node].life || !h.mir[w.node].up {
			continue
		}
		if h.mir[w.node].applied < uint64(idx) {
			h.violation(line, "acked_before_apply", fmt.Sprintf("writer %d was answered ok before its node %d applied entry %d | %s", w.uid, w.node, idx, strings.Join(h.log, " ; ")))
			w.reported = true
			continue
		}
		if h.clog[idx-1].failedOn[w.node] {
			h.violation(line, "acked_not_applied", fmt.Sprintf("writer %d was answered ok although the apply of entry %d failed on its node %d | %s", w.uid, idx, w.node, strings.Join(h.log, " ; ")))
			w.reported = true
		}
	}
	// eligible readers: the master, and every peer ts-meta would elect (Slave, Online) - if it is up and has caught up
	rg := h.rgp()
	elig := []int{int(rg.MasterPtID)}
	for _, p := range rg.Peers {
		if p.PtRole == meta2.Slave && h.pts()[p.ID].Status == meta2.Online {
			elig = append(elig, int(p.ID))
		}
	}
	lat := h.latest()
	keys := make([][2]int, 0, len(lat))
	for k := range lat {
		keys = append(keys, k)
	}
	sort.Slice(keys, func(a, b int) bool { return keys[a][0] < keys[b][0] || (keys[a][0] == keys[b][0] && keys[a][1] < keys[b][1]) })
	for _, n := range elig {
		if !h.mir[n].up || h.mir[n].applied != uint64(len(h.clog)) {
			continue
		}
		for _, k := range keys {
			e := lat[k]
			got, ok := h.cl.nodes[n].st.read(k[0], k[1])
			if ok && got == e.v {
				continue
			}
			idx := h.indexOf(e)
			key := fmt.Sprintf("%d/%d/%d", n, k[0], k[1])
			if h.reported[key] == idx {
				continue
			}
			h.reported[key] = idx
			class := "acked_write_unreadable"
			why := ""
			switch {
			case e.failedOn[n]:
				class, why = "apply_error_skipped", "the apply of the entry failed on this node and was only logged"
			case h.inHole(n, uint64(idx)):
				class, why = "dataless_snapshot_install", "the node was moved over the entry by a raft snapshot that carries no rows"
			case h.mir[n].lateReplay:
				class, why = "stale_after_late_replay", "the node applied its start-up replay after entries committed since"
			case h.prof == "multishard":
				class, why = "snapshot_covers_unflushed_shard", "the raft snapshot index taken at the flush of another shard covered the entry"
			}
			gotS := "nothing"
			if ok {
				gotS = fmt.Sprint(got)
			}
			h.violation(line, class, fmt.Sprintf("node %d (eligible as master, caught up to %d) answers %s for key %d.%d, latest committed write is %d (entry %d)%s | %s", n, len(h.clog), gotS, k[0], k[1], e.v, idx, sep(why), strings.Join(h.log, " ; ")))
		}
	}
}

func sep(s string) string {
	if s == "" {
		return ""
	}
	return ": " + s
}

func (h *H) inHole(n int, idx uint64) bool {
	m := &h.mir[n]
	for i := range m.holeLo {
		if m.holeLo[i] < idx && idx <= m.holeHi[i] {
			return true
		}
	}
	return false
}

func (h *H) pts() meta2.DBPtInfos { return h.data.PtView[dbName] }

func (h *H) violation(line int, class, desc string) {
	h.viol++
	h.c.Violation(line, class, desc)
}

// step: after an action, settle, explain, digest, check
type capture struct {
	o       []obs
	waiting []int32
	pending []int             // waiters registered on the node
	data    []string          // merged view of the node's rows (+ the layers, with the stand-in)
	fs      []string          // first indexes of the node's entry files
	acked   map[int]string    // writer uid -> ok | err, as answered so far
	ents    []raftpb.Entry // the committed entries the mirror does not know yet
	entsErr error
}

// look takes every observation `explain` needs, in one go.
func (h *H) look() *capture {
	cp := &capture{o: make([]obs, h.n), waiting: make([]int32, h.n), pending: make([]int, h.n), data: make([]string, h.n), fs: make([]string, h.n), acked: map[int]string{}}
	for _, w := range h.wr {
		if w.res == "" {
			select {
			case err := <-w.done:
				w.res = classify(err)
			default:
			}
		}
		if w.res == "ok" || w.res == "err" {
			cp.acked[w.uid] = w.res
		}
	}
	best, bestC := -1, uint64(0)
	for i := 0; i < h.n; i++ {
		if !h.mir[i].up {
			continue
		}
		cp.o[i] = h.cl.nodes[i].observe()
		cp.waiting[i] = atomic.LoadInt32(&h.cl.nodes[i].st.waiting)
		x := h.cl.nodes[i]
		cp.pending[i] = x.rn.VerifPending()
		cp.fs[i] = natList(entryFileFirsts(filepath.Join(x.dir, "wal", "__raft_entries__")))
		cp.data[i] = "D=" + x.st.mergedText()
		if !h.real {
			x.st.mu.Lock()
			cp.data[i] += fmt.Sprintf(" F=%s I=%s M=%s", layerText(x.st.files), layerText(x.st.imm), layerText(x.st.mem))
			x.st.mu.Unlock()
		}
		if cp.o[i].commit > bestC {
			best, bestC = i, cp.o[i].commit
		}
	}
	if known := uint64(len(h.clog)); best >= 0 && bestC > known {
		cp.ents, cp.entsErr = h.cl.nodes[best].store.Entries(known+1, bestC+1, 1<<40)
	}
	return cp
}

// step: after an action, settle, explain, digest, check. The observations are taken while the group
// is quiet: if anything moved while they were taken (a proposal of several MiB can take longer to
// show up than the settle polls are apart), settle again and look again.
func (h *H) after(action string) {
	h.log = append(h.log, action)
	for try := 0; try < 200 && h.err == nil; try++ {
		h.settle()
		if h.err != nil {
			return
		}
		before := h.rawState()
		h.cap = h.look()
		if h.rawState() == before && h.quiet() {
			break
		}
	}
	h.explain()
	if h.err != nil {
		return
	}
	line := h.c.Emit(h.tag+h.digestOp(), h.digest())
	h.check(line)
}

// ---------------------------------------------------------------------------------------------
// actions

func (h *H) actLead(l int) {
	if !h.upUnheld(l) {
		return
	}
	won := false
	for k := 0; k < 600 && !won; k++ { // ticks are logical time; more of them only mean more campaigns
		if err := h.cl.tickNode(l, 1); err != nil {
			h.fail("%v", err)
			return
		}
		won = waitFor(5*time.Millisecond, func() bool {
			st := h.cl.nodes[l].rn.VerifStatus()
			return st.RaftState == raft.StateLeader
		})
	}
	if !won {
		h.fail("node %d does not become leader", l)
		return
	}
	h.leader = l
	h.emit(fmt.Sprintf("lead %d", l))
	h.infl = append(h.infl, infl{kind: "noop", prop: l})
	h.after(fmt.Sprintf("lead %d", l))
}

func (h *H) actWrite(p, k, v, sh, pad int) { h.writeAt(p, k, v, sh, pad, "propose") }

func (h *H) writeAt(p, k, v, sh, pad int, op string) {
	if !h.mir[p].up {
		h.nextU--
		return
	}
	tail := tailOf(sh, k, v, pad)
	x := h.cl.nodes[p]
	h.mir[p].seq++
	w := &writer{uid: v, node: p, life: x.life, seq: h.mir[p].seq, k: k, v: v, sh: sh, done: make(chan error, 1)}
	h.wr = append(h.wr, w)
	eng := x.eng
	before := x.rn.VerifPending()
	go func() { w.done <- eng.WriteToRaft(dbName, "rp0", uint32(p), tail) }()
	// size of the proposal = DataWrapper.Marshal: type(4) identity(1+len) proposeId(8) data
	size := 4 + 1 + len(fmt.Sprintf("%s_%d", dbName, p)) + 8 + len(tail)
	// the waiter is registered before the proposal is handed to raft
	waitFor(2*time.Second, func() bool { return x.rn.VerifPending() > before || len(w.done) > 0 })
	if op == "coordwrite" {
		h.emit(fmt.Sprintf("coordwrite %d %d %d %d", k, v, sh, size))
	} else {
		h.emit(fmt.Sprintf("propose %d %d %d %d %d", p, k, v, sh, size))
	}
	h.infl = append(h.infl, infl{kind: "write", uid: v, prop: p})
	h.c.Count("write")
	h.after(fmt.Sprintf("%s n%d %d.%d=%d pad=%d", map[string]string{"propose": "write", "coordwrite": "coord-write"}[op], p, sh, k, v, pad))
}

func (h *H) actFlushBegin(n, sh int) {
	x := h.cl.nodes[n]
	x.st.mu.Lock()
	_, busy := x.st.imm[sh]
	x.st.mu.Unlock()
	if !h.mir[n].up || busy {
		return
	}
	if h.real {
		// the real shard flushes in one go: tsstoreImpl.writeSnapshot through ForceFlush
		if err := x.st.flushReal(sh); err != nil {
			h.fail("flush: %v", err)
			return
		}
		h.emit(fmt.Sprintf("flushb %d %d", n, sh))
		h.emit(fmt.Sprintf("flushe %d %d", n, sh))
		h.c.Count("flush-real")
		h.after(fmt.Sprintf("flush n%d sh%d", n, sh))
		return
	}
	x.st.flushBegin(sh)
	h.emit(fmt.Sprintf("flushb %d %d", n, sh))
	h.c.Count("flush-begin")
	h.after(fmt.Sprintf("flush-begin n%d sh%d", n, sh))
}

func (h *H) actFlushEnd(n, sh int) {
	x := h.cl.nodes[n]
	x.st.mu.Lock()
	_, busy := x.st.imm[sh]
	x.st.mu.Unlock()
	if !h.mir[n].up || !busy {
		return
	}
	if err := x.st.flushEnd(sh); err != nil {
		h.fail("flush: %v", err)
		return
	}
	h.emit(fmt.Sprintf("flushe %d %d", n, sh))
	h.c.Count("flush-end")
	h.after(fmt.Sprintf("flush-end n%d sh%d", n, sh))
}

func (h *H) upCount() int {
	c := 0
	for i := range h.mir {
		if h.mir[i].up && !h.mir[i].held {
			c++
		}
	}
	return c
}

func (h *H) actKill(n int) {
	if !h.mir[n].up {
		return
	}
	h.mir[n].deadLast = h.cl.nodes[n].observe().last
	next, err := h.cl.kill(n)
	if err != nil {
		h.fail("kill: %v", err)
		return
	}
	h.cl.nodes[n].dir = next
	h.mir[n].up, h.mir[n].gated, h.mir[n].held, h.mir[n].heldIn, h.mir[n].heldOut = false, false, false, false, false
	h.cl.mu.Lock()
	h.cl.held[n], h.cl.heldIn[n], h.cl.heldOut[n] = false, false, false
	h.cl.mu.Unlock()
	for _, w := range h.wr {
		if w.node == n && w.res == "" {
			w.res = "dead"
		}
	}
	h.emit(fmt.Sprintf("kill %d", n))
	h.c.Count("kill")
	if h.leader == n {
		h.leader = -1
		h.log = append(h.log, fmt.Sprintf("kill n%d (leader)", n))
		// the model keeps its leader field until the next `lead`
		return
	}
	h.after(fmt.Sprintf("kill n%d", n))
}

// actRestartHeld: the node comes back but nothing reaches it yet (it is paused / partitioned)
func (h *H) actRestartHeld(n int) {
	h.cl.mu.Lock()
	h.cl.held[n] = true
	h.cl.mu.Unlock()
	h.mir[n].held = true
	h.actRestart(n)
}

// actHoldOut: the proposals the node forwards to the leader are lost (one-message loss, repeated)
func (h *H) actHoldOut(n int, on bool) {
	if !h.mir[n].up {
		return
	}
	h.cl.mu.Lock()
	h.cl.heldOut[n] = on
	h.cl.mu.Unlock()
	h.mir[n].heldOut = on
	h.c.Count("hold-out")
	h.log = append(h.log, fmt.Sprintf("hold-out n%d %v", n, on))
}

func (h *H) actHoldIn(n int, on bool) {
	if !h.mir[n].up || h.mir[n].heldIn == on {
		return
	}
	h.cl.mu.Lock()
	h.cl.heldIn[n] = on
	h.cl.mu.Unlock()
	h.mir[n].heldIn = on
	h.c.Count("hold-in")
	h.after(fmt.Sprintf("hold-in n%d %v", n, on))
}

// actRestartLate / actReplayLate: the node is up and follows the leader while its start-up replay
// has not been applied yet
func (h *H) actRestartLate(n int) { h.restart(n, true) }

func (h *H) actReplayLate(n int) {} // the replay is released inside the restart action

func (h *H) actRestart(n int) { h.restart(n, false) }

func (h *H) restart(n int, late bool) {
	if h.mir[n].up {
		return
	}
	if err := h.cl.startMode(n, h.cl.nodes[n].dir, late); err != nil {
		h.fail("restart node %d: %v", n, err)
		return
	}
	x := h.cl.nodes[n]
	o := x.observe() // before any traffic reaches the node
	raced := false
	if late {
		// The store is up and follows the leader while its start-up replay has not been applied
		// yet. What the commit loop applies in this window lands under the replayed, older rows.
		if h.leader >= 0 && h.mir[h.leader].up {
			_ = h.cl.tickNode(h.leader, 3)
		}
		replayOver := func() bool {
			select {
			case <-x.replayDone:
				return true // nothing to replay (or nothing that writes): the loop may run
			default:
				return false
			}
		}
		waitFor(300*time.Millisecond, func() bool { return replayOver() || atomic.LoadInt64(&x.st.applied) > 0 })
		raced = !replayOver() && atomic.LoadInt64(&x.st.applied) > 0
		if !h.cl.releaseReplay(n) {
			h.fail("replay of node %d does not end", n)
			return
		}
		h.c.Count("restart-late")
	}
	m := &h.mir[n]
	m.up, m.seq, m.failPlan = true, 0, 0
	m.pub, m.applied, m.sc = o.commit, o.commit, o.snap
	m.lifePub = o.commit
	m.last, m.commit = o.last, o.commit
	if m.last > uint64(len(h.clog)) {
		m.last = uint64(len(h.clog))
	}
	m.lateReplay = raced
	line := h.emit(fmt.Sprintf("restart %d", n))
	if raced {
		h.violation(line, "commit_loop_before_replay", fmt.Sprintf("node %d applied entries committed since its restart before its start-up replay | %s", n, strings.Join(h.log, " ; ")))
	}
	h.c.Count("restart")
	h.after(fmt.Sprintf("restart n%d late=%v", n, late))
}

func (h *H) actHold(n int, on bool) {
	if !h.mir[n].up || n == h.leader || h.mir[n].held == on {
		return
	}
	h.cl.mu.Lock()
	h.cl.held[n] = on
	h.cl.mu.Unlock()
	h.mir[n].held = on
	h.c.Count("hold")
	h.after(fmt.Sprintf("hold n%d %v", n, on))
}

func (h *H) actGate(n int, on bool) {
	if !h.mir[n].up || h.mir[n].gated == on {
		return
	}
	st := h.cl.nodes[n].st
	st.mu.Lock()
	if on {
		st.gate = make(chan struct{})
	} else if st.gate != nil {
		close(st.gate)
		st.gate = nil
	}
	st.mu.Unlock()
	h.mir[n].gated = on
	h.c.Count("gate")
	h.after(fmt.Sprintf("gate n%d %v", n, on))
}

func (h *H) actFailNext(n int) {
	if !h.mir[n].up {
		return
	}
	atomic.AddInt32(&h.cl.nodes[n].st.failNext, 1)
	h.mir[n].failPlan++
	h.c.Count("apply-failure")
	h.log = append(h.log, fmt.Sprintf("next apply on n%d fails", n))
}

func (h *H) actTrunc(tolerate bool) {
	l := h.leader
	if l < 0 || !h.mir[l].up {
		return
	}
	h.cl.mu.Lock()
	h.cl.truncWindow = true
	h.cl.mu.Unlock()
	defer func() {
		h.cl.mu.Lock()
		h.cl.truncWindow = false
		h.cl.mu.Unlock()
	}()
	rn := h.cl.nodes[l].rn
	o := h.cl.nodes[l].observe()
	if o.snap == 0 {
		return
	}
	allAlive := true
	for i := 0; i < h.n; i++ {
		allAlive = allAlive && h.cl.alive[i]
	}
	if !allAlive && !tolerate {
		rn.VerifSetTolerateStart(0)
		_ = rn.VerifDeleteEntryLog() // "replica group status is unhealthy": nothing may be proposed
		h.c.Count("trunc-refused")
		h.settle()
		if h.err == nil && h.cl.nodes[l].observe().last > uint64(len(h.clog)) {
			// it did propose: go on as if the tolerate time were over, and say so
			pr := rn.VerifStatus().Progress
			var ms []string
			for i := 0; i < h.n; i++ {
				ms = append(ms, fmt.Sprintf("%d:%d", i, pr[raftconn.GetRaftNodeId(uint32(i))].Match))
			}
			line := h.emit(fmt.Sprintf("trunc 1 %s", strings.Join(ms, ",")))
			h.infl = append(h.infl, infl{kind: "clear", prop: l})
			h.violation(line, "truncation_before_tolerate_time", "deleteEntryLog proposed a truncation although a member is not alive and the tolerate time is not over | "+strings.Join(h.log, " ; "))
			h.after("trunc (not allowed yet)")
		}
		return
	}
	if !allAlive {
		rn.VerifSetTolerateStart(1) // long ago
	}
	pr := rn.VerifStatus().Progress
	var ms []string
	for i := 0; i < h.n; i++ {
		ms = append(ms, fmt.Sprintf("%d:%d", i, pr[raftconn.GetRaftNodeId(uint32(i))].Match))
	}
	if err := rn.VerifDeleteEntryLog(); err != nil {
		h.fail("deleteEntryLog: %v", err)
		return
	}
	forced := 0
	if !allAlive {
		forced = 1
	}
	h.emit(fmt.Sprintf("trunc %d %s", forced, strings.Join(ms, ",")))
	h.infl = append(h.infl, infl{kind: "clear", prop: l})
	h.c.Count(fmt.Sprintf("trunc-forced=%d", forced))
	h.after(fmt.Sprintf("trunc forced=%d match=%s", forced, strings.Join(ms, ",")))
	if forced == 1 {
		h.checkAvail("forced truncation", "unconditional_truncation_strands_member")
	} else {
		h.checkAvail("truncation", "truncation_strands_member")
	}
}

func (h *H) actTruncSize(n int) {
	if !h.mir[n].up || h.cl.nodes[n].observe().snap == 0 {
		return
	}
	config.GetStoreConfig().ClearEntryLogTolerateSize = 1
	err := h.cl.nodes[n].rn.VerifDeleteEntryLogBySize()
	config.GetStoreConfig().ClearEntryLogTolerateSize = toml.Size(1 << 50)
	if err != nil {
		h.fail("deleteEntryLogBySize: %v", err)
		return
	}
	h.emit(fmt.Sprintf("truncsize %d", n))
	h.c.Count("trunc-by-size")
	h.after(fmt.Sprintf("trunc-by-size n%d", n))
	h.checkAvail("truncation by size", "unconditional_truncation_strands_member")
}

// checkAvail: after a truncation every member must still find its next entry on every node that
// can lead (spec of truncate_safe, in Go).
func (h *H) checkAvail(what, class string) {
	if h.err != nil {
		return
	}
	for i := 0; i < h.n; i++ {
		if !h.mir[i].up {
			continue
		}
		f := h.cl.nodes[i].observe().first
		for m := 0; m < h.n; m++ {
			if h.mir[m].last+1 < f {
				h.violation(h.c.Emit(h.tag+h.digestOp(), h.digest()), class,
					fmt.Sprintf("after %s node %d keeps entries from %d on, member %d holds entries up to %d only | %s", what, i, f, m, h.mir[m].last, strings.Join(h.log, " ; ")))
				return
			}
		}
	}
}

// ptOnline: ts-meta learns that the partition of node n is loaded (Data.UpdatePtInfo -> updatePtStatus
// -> ReplicaGroup.nextSubHealth)
func (h *H) ptOnline(n int) {
	pt := h.data.PtView[dbName][n]
	info := &proto2.PtInfo{Owner: &proto2.PtOwner{NodeID: proto.Uint64(pt.Owner.NodeID)}, Status: proto.Uint32(uint32(pt.Status)),
		PtId: proto.Uint32(pt.PtId), Ver: proto.Uint64(pt.Ver), RGID: proto.Uint32(pt.RGID)}
	if perr := safe(func() {
		if err := h.data.UpdatePtInfo(dbName, info, pt.Owner.NodeID, uint32(meta2.Online)); err != nil {
			h.fail("UpdatePtInfo: %v", err)
		}
	}); perr != "" {
		h.fail("UpdatePtInfo: %s", perr)
	}
}

// actMeta: ts-meta's view of node n changes - through the real Data.UpdateNodeStatus (which marks the
// node's partitions Offline and lets the replica group leave Health) and, for a node that is back,
// Data.UpdatePtInfo(Online).
func (h *H) actMeta(n int, up bool) {
	h.cl.mu.Lock()
	h.cl.alive[n] = up
	h.cl.mu.Unlock()
	h.ltime++
	st := serf.StatusFailed
	if up {
		st = serf.StatusAlive
	}
	if perr := safe(func() {
		if err := h.data.UpdateNodeStatus(uint64(n+1), int32(st), h.ltime, "8011"); err != nil {
			h.fail("UpdateNodeStatus: %v", err)
		}
	}); perr != "" {
		h.fail("UpdateNodeStatus: %s", perr)
		return
	}
	if up {
		h.ptOnline(n)
		h.emit(fmt.Sprintf("metaup %d", n))
	} else {
		h.emit(fmt.Sprintf("metadown %d", n))
	}
	h.c.Count("meta-liveness")
	h.after(fmt.Sprintf("meta n%d alive=%v", n, up))
}

// actCoordWrite: one request of a client - routed by the real Client.getAliveShardsForRepDB over the
// meta image, sent to the store that owns the target partition (PointsWriter.writeRowToShard); a
// store that is down gives the coordinator a retryable error: nothing happens.
func (h *H) actCoordWrite(k, v, sh, pad int) {
	sgi := &meta2.ShardGroupInfo{ID: uint64(sh)}
	for i := 0; i < h.n; i++ {
		sgi.Shards = append(sgi.Shards, meta2.ShardInfo{ID: uint64(sh*100 + i), Owners: []uint32{uint32(i)}})
	}
	var idx []int
	if perr := safe(func() { idx = metaclient.VerifAliveShardsForRepDB(h.data, dbName, sgi, h.n) }); perr != "" {
		h.fail("getAliveShardsForRepDB: %s", perr)
		return
	}
	tail := tailOf(sh, k, v, pad)
	size := 4 + 1 + len(fmt.Sprintf("%s_%d", dbName, 0)) + 8 + len(tail)
	h.c.Count("coord-write")
	if len(idx) == 0 || !h.mir[int(sgi.Shards[idx[0]].Owners[0])].up {
		h.emit(fmt.Sprintf("coordwrite %d %d %d %d", k, v, sh, size))
		h.c.Count("coord-write-retry")
		h.nextU-- // no writer came into being: the model numbers writers by proposals
		h.log = append(h.log, fmt.Sprintf("coord-write %d.%d=%d: target store not reachable", sh, k, v))
		return
	}
	h.writeAt(int(sgi.Shards[idx[0]].Owners[0]), k, v, sh, pad, "coordwrite")
}

func (h *H) actElect() {
	rg := h.rgp()
	if h.pts()[rg.MasterPtID].Status == meta2.Online {
		return
	}
	var nm uint32
	var np []meta2.Peer
	var ok bool
	if perr := safe(func() { nm, np, ok = metaapp.VerifElectRgMaster(rg, h.pts(), dbName) }); perr != "" {
		h.fail("electRgMaster: %s", perr)
		return
	}
	if !ok {
		h.c.Count("elect-none")
		return
	}
	if _, err := h.data.UpdateReplication(dbName, rg.ID, nm, peersPB(np)); err != nil {
		h.fail("UpdateReplication: %v", err)
		return
	}
	line := h.emit("elect")
	h.c.Count("elect")
	if h.pts()[nm].Status != meta2.Online {
		h.violation(line, "elected_master_not_online", fmt.Sprintf("electRgMaster chose partition %d, which is not online | %s", nm, strings.Join(h.log, " ; ")))
	}
	h.after(fmt.Sprintf("elect -> master %d", nm))
}

func (h *H) actSetMaster(m int) {
	rg := h.rgp()
	nm, np, err := h.data.GetNewRg(dbName, rg.ID, uint32(m))
	if err != nil {
		return
	}
	if _, err := h.data.UpdateReplication(dbName, rg.ID, nm, peersPB(np)); err != nil {
		h.fail("UpdateReplication: %v", err)
		return
	}
	h.emit(fmt.Sprintf("setmaster %d", m))
	h.c.Count("setmaster")
	h.after(fmt.Sprintf("setmaster %d", m))
}

// ---------------------------------------------------------------------------------------------

func Run(c *hx.Ctx) error {
	logger.SetLogger(zap.NewNop())
	meta2.DataLogger = zap.NewNop()
	raft.SetLogger(&raft.DefaultLogger{Logger: log.New(io.Discard, "", 0)})
	_ = config.SetHaPolicy(config.RepPolicy)
	config.SetElectionTick(4)
	config.SetHeartbeatTick(1)
	config.SetShardMemTableSizeLimit(1 << 30) // no size-triggered flush behind the harness's back
	config.SetWaitCommitTimeout(10 * time.Minute) // no wall-clock outcome: a writer whose proposal is lost ends with the kill of its node
	config.GetStoreConfig().ClearEntryLogTolerateTime = toml.Duration(6 * time.Hour)
	config.GetStoreConfig().ClearEntryLogTolerateSize = toml.Size(1 << 50) // the nodes' own one-minute ticker never truncates by size; actTruncSize lowers it for its call
	root := os.Getenv("VERIF_SCRATCH")
	if root == "" {
		root = "/var/tmp/c05-x"
	}
	root = filepath.Join(root, fmt.Sprintf("c05-%d", os.Getpid()))
	defer os.RemoveAll(root)
	c.Stats.Rule = "a scenario is non-trivial if it killed or restarted a node, or truncated the entry log, after at least one acknowledged write, and read every key back from every eligible caught-up node"
	// where does the real shard give the raft snapshot signal? (the stand-in follows the answer)
	tssp, walBytes, perr := probeFlushOrder(root)
	if perr != nil {
		return fmt.Errorf("flush probe: %v", perr)
	}
	flushSignalAfterCommit = tssp > 0
	after := 0
	if flushSignalAfterCommit {
		after = 1
	}
	pl := c.Emit("flushprobe", fmt.Sprintf("signal-after-commit=%d", after))
	if tssp == 0 && walBytes == 0 {
		c.Violation(pl, "snapshot_signal_before_files", "real shard: at the raft snapshot signal of a flush the rows written by the replication apply path are in no data file and not in the shard WAL; the raft snapshot index excludes them from the start-up replay: write 20 rows via the apply path, committed index 7, flush, SIGKILL at the signal")
	}
	c.Count(fmt.Sprintf("flushprobe-after-commit=%d", after))
	nsc := c.Budget(24, 400)
	rng := hx.NewRng(c.Seed*7919 + 13)
	only := -1
	if v := c.Arg("only", ""); v != "" {
		fmt.Sscanf(v, "%d", &only)
	}
	for i := 0; i < nsc; i++ {
		sub := rng.Fork()
		if only >= 0 && i != only {
			continue
		}
		h := &H{c: c, r: sub, n: 3, root: filepath.Join(root, fmt.Sprintf("s%d", i)), reported: map[string]int{}}
		if h.r.Chance(20) {
			h.n = 5
		}
		t0 := time.Now()
		h.scenario(i)
		h.shutdown()
		if h.twin != nil {
			h.twin.shutdown()
			os.RemoveAll(h.twin.root)
			if h.err == nil && h.twin.err != nil {
				h.err = fmt.Errorf("group 1: %v | %s", h.twin.err, strings.Join(h.twin.log, " ; "))
			}
		}
		if os.Getenv("C05_TIMING") != "" {
			fmt.Fprintf(os.Stderr, "scenario %d %s nodes=%d: %v, %d actions\n", i, h.prof, h.n, time.Since(t0), len(h.log))
		}
		os.RemoveAll(h.root)
		if h.err != nil {
			return fmt.Errorf("scenario %d (%s): %v | %s", i, h.prof, h.err, strings.Join(h.log, " ; "))
		}
		c.Case(fmt.Sprintf("%d-%s-%d", c.Seed, h.prof, i), h.nontrivial)
		if i < 3 {
			c.Sample(fmt.Sprintf("scenario %d (%s, %d nodes): %s", i, h.prof, h.n, strings.Join(h.log, " ; ")))
		}
	}
	return nil
}

func (h *H) shutdown() {
	if h.cl == nil {
		return
	}
	for i := 0; i < h.n; i++ {
		if h.cl.nodes[i].rn != nil && h.cl.nodes[i].up {
			h.cl.kill(i)
		}
	}
}

// waitWriters: a writer still waiting after everything was released and has settled waits for a
// proposal that was lost (it would wait for the commit time-out): its node is killed and restarted.
func (h *H) waitWriters() {
	h.settle()
	h.cap = h.look()
	h.explain()
	for _, w := range h.wr {
		if w.res == "" && h.err == nil {
			n := w.node
			h.actKill(n)
			if h.leader < 0 {
				h.pickLeader()
			}
			h.actRestart(n)
		}
	}
}
