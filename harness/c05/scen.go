package c05

import "fmt"

// scenario i: profile by index (every run covers every profile), actions by the scenario's PRNG.
func (h *H) scenario(i int) {
	if i < len(scripted) {
		// real ts-store shards behind the nodes, except where the scenario stops inside a flush
		h.real = scripted[i].name != "flush-kill"
		if scripted[i].nodes > 0 {
			h.n = scripted[i].nodes
		}
		h.prof = scripted[i].name
		h.c.Count("profile-" + h.prof)
		h.boot()
		if h.err == nil {
			scripted[i].f(h)
		}
		if h.err == nil {
			h.windDown(scripted[i].shards)
		}
		h.nontrivial = h.err == nil
		return
	}
	i -= len(scripted)
	h.real = !h.r.Chance(25)
	if h.real {
		h.c.Count("store-real-shard")
	} else {
		h.c.Count("store-stand-in")
	}
	profs := []string{"clean", "clean", "bigfile", "clean", "multishard", "applyfail", "forced", "bigfile", "race", "dual"}
	h.prof = profs[i%len(profs)]
	h.c.Count("profile-" + h.prof)
	h.c.Count(fmt.Sprintf("nodes-%d", h.n))
	if h.prof == "dual" {
		h.n = 3
		h.boot()
		if h.err == nil {
			h.twoGroups(true)
		}
		if h.err == nil {
			h.windDown(1)
		}
		h.nontrivial = h.err == nil
		return
	}
	h.boot()
	if h.err != nil {
		return
	}
	h.actLead(h.r.Intn(h.n))
	steps := 18 + h.r.Intn(14)
	if h.prof == "bigfile" {
		steps = 30 + h.r.Intn(10)
	}
	keys := 4
	shards := 1
	if h.prof == "multishard" {
		shards = 2
	}
	killed, acked := false, false
	for s := 0; s < steps && h.err == nil; s++ {
		// a leader is needed for anything to commit
		if h.leader < 0 || !h.mir[h.leader].up {
			h.pickLeader()
			continue
		}
		down := h.n - h.upCount()
		canLose := 2*(down+1) < h.n
		master := int(h.rgp().MasterPtID)
		d := h.r.Intn(100)
		switch {
		case d < 38: // write at the master's node (or, rarely, at another one)
			p := master
			if !h.mir[p].up || h.r.Chance(10) {
				p = h.anyUp()
			}
			pad := 0
			if h.prof == "bigfile" {
				pad = (2 + h.r.Intn(3)) << 20
			}
			if h.prof == "bigfile" && h.wouldRotate(entrySize(p, 1, 0, h.nextU+1, pad)) && h.r.Chance(70) {
				// snapshot indexes exactly at the end of an entry file
				for n := 0; n < h.n && h.err == nil; n++ {
					if h.mir[n].up && h.r.Chance(80) {
						h.actFlushBegin(n, 1)
						h.actFlushEnd(n, 1)
					}
				}
			}
			h.nextU++
			if h.prof == "applyfail" && h.r.Chance(35) {
				h.actFailNext(h.anyUp())
			}
			if h.r.Chance(60) {
				h.actCoordWrite(h.r.Intn(keys), h.nextU, 1+h.r.Intn(shards), pad)
			} else {
				h.actWrite(p, h.r.Intn(keys), h.nextU, 1+h.r.Intn(shards), pad)
			}
			for _, w := range h.wr {
				if w.res == "ok" {
					acked = true
				}
			}
		case d < 50: // flush, possibly with a kill between the table switch and the commit
			n := h.anyUp()
			sh := 1 + h.r.Intn(shards)
			h.actFlushBegin(n, sh)
			if h.real {
				break // the real shard's flush is one action
			}
			if canLose && h.r.Chance(20) && n != h.leader {
				h.actKill(n)
				killed = killed || acked
			} else {
				h.actFlushEnd(n, sh)
			}
		case d < 60:
			if canLose {
				n := h.anyUp()
				if h.mir[n].held {
					break
				}
				h.actKill(n)
				killed = killed || acked
				if n == master {
					h.actMeta(n, false)
					h.actElect()
				} else if h.r.Chance(50) {
					h.actMeta(n, false)
				}
			}
		case d < 72:
			for n := 0; n < h.n; n++ {
				if !h.mir[n].up {
					if h.prof == "race" && h.r.Chance(60) {
						h.actRestartLate(n)
					} else {
						h.actRestart(n)
					}
					if !h.cl.alive[n] {
						h.actMeta(n, true)
					}
					break
				}
			}
		case d < 78:
			n := h.anyUp()
			if n != h.leader && (h.mir[n].held || canLose) {
				h.actHold(n, !h.mir[n].held)
			}
		case d < 84:
			n := h.anyUp()
			h.actGate(n, !h.mir[n].gated)
		case d < 92:
			h.actTrunc(h.prof == "forced")
			killed = killed || acked
		case d < 95:
			if h.prof == "forced" {
				h.actTruncSize(h.anyUp())
			}
		case d < 98:
			h.actSetMaster(h.anyUp())
		default:
			h.actLead(h.anyUpUnheld())
		}
	}
	h.windDown(shards)
	h.nontrivial = killed && acked && h.err == nil
}

// windDown: everything released, everybody back, one last look
func (h *H) windDown(shards int) {
	for n := 0; n < h.n && h.err == nil; n++ {
		if h.mir[n].up && h.mir[n].replayPending {
			h.actReplayLate(n)
		}
		if h.mir[n].up && h.mir[n].gated {
			h.actGate(n, false)
		}
		if h.mir[n].up && h.mir[n].held {
			h.actHold(n, false)
		}
		if h.mir[n].up && h.mir[n].heldIn {
			h.actHoldIn(n, false)
		}
		if h.mir[n].up && h.mir[n].heldOut {
			h.actHoldOut(n, false)
		}
	}
	if h.err == nil && (h.leader < 0 || !h.mir[h.leader].up) {
		h.pickLeader()
	}
	for n := 0; n < h.n && h.err == nil; n++ {
		if !h.mir[n].up {
			h.actRestart(n)
		}
		if !h.cl.alive[n] {
			h.actMeta(n, true)
		}
	}
	for n := 0; n < h.n && h.err == nil; n++ {
		for sh := 1; sh <= shards; sh++ {
			h.actFlushEnd(n, sh)
		}
	}
	h.waitWriters()
	h.after("end")
}

func (h *H) anyUp() int {
	var ups []int
	for i := range h.mir {
		if h.mir[i].up {
			ups = append(ups, i)
		}
	}
	return ups[h.r.Intn(len(ups))]
}

func (h *H) anyUpUnheld() int {
	var ups []int
	for i := range h.mir {
		if h.mir[i].up && !h.mir[i].held {
			ups = append(ups, i)
		}
	}
	return ups[h.r.Intn(len(ups))]
}

// pickLeader: after the leader died, the node with the longest log that can reach a majority campaigns
func (h *H) pickLeader() {
	best := -1
	for i := range h.mir {
		if h.upUnheld(i) && (best < 0 || h.mir[i].last > h.mir[best].last) {
			best = i
		}
	}
	if best < 0 || 2*h.upCount() <= h.n {
		h.fail("no majority left to elect a leader")
		return
	}
	h.actLead(best)
}

// ---------------------------------------------------------------------------------------------
// scripted scenarios: one per mechanism the property rests on (run first in every run)

type script struct {
	name   string
	shards int
	f      func(h *H)
	nodes  int // 0 = whatever the run drew
}

func (h *H) w(p, k, sh, pad int) {
	h.nextU++
	h.actWrite(p, k, h.nextU, sh, pad)
}

func (h *H) flush(n, sh int) {
	h.actFlushBegin(n, sh)
	h.actFlushEnd(n, sh)
}

const big = 3 << 20 // 10 such entries fill an entry file

var scripted = []script{
	{"basic", 1, func(h *H) {
		h.actLead(0)
		h.w(0, 1, 1, 0)
		h.w(0, 1, 1, 0)
		h.w(0, 2, 1, 0)
		h.flush(0, 1)
		h.actKill(1)
		h.w(0, 1, 1, 0)
		h.actRestart(1)
		h.actKill(0)
		h.actMeta(0, false)
		h.actElect()
		h.pickLeader()
		h.w(int(h.rgp().MasterPtID), 3, 1, 0)
	}, 0},
	// the writer is answered only after the local apply, and with its result
	{"ack-order", 1, func(h *H) {
		h.actLead(1)
		h.actGate(0, true)
		h.w(0, 1, 1, 0) // committed everywhere, node 0's apply waits at the gate: no answer yet
		h.actGate(0, false)
		h.actFailNext(0)
		h.w(0, 2, 1, 0) // the apply fails on the proposer: the writer must see the error
		h.w(0, 2, 1, 0)
	}, 0},
	// a proposal of an earlier life that commits after the restart must not answer a new writer
	{"pid-reuse", 1, func(h *H) {
		h.actLead(0)
		h.actHoldIn(0, true)
		h.w(0, 1, 1, 0) // reaches the followers, the leader never learns
		h.actKill(0)
		h.pickLeader() // the new leader commits it
		h.actRestartHeld(0)
		h.w(0, 2, 1, 0)       // same propose id as the entry of the first life; no leader known yet: the proposal waits
		h.actHoldOut(0, true) // the proposal it will forward to the leader is lost
		h.actHold(0, false)   // it learns the commit index and applies the entry of its first life
		h.actKill(0)          // the new proposal never left the node
		h.actRestart(0)
	}, 0},
	// flush: a kill between the table switch and the commit of the files
	{"flush-kill", 1, func(h *H) {
		h.actLead(0)
		h.w(0, 1, 1, 0)
		h.w(0, 2, 1, 0)
		h.actFlushBegin(1, 1)
		h.actKill(1)
		h.actRestart(1)
		h.w(0, 1, 1, 0)
		h.flush(1, 1)
		h.actKill(1)
		h.actRestart(1)
	}, 0},
	// the snapshot index is per partition, a flush is per shard
	{"multishard", 2, func(h *H) {
		h.actLead(0)
		h.w(0, 1, 2, 0)
		h.w(0, 2, 1, 0)
		h.flush(1, 1)
		h.actKill(1)
		h.actRestart(1)
	}, 0},
	// truncation proposed by the leader: followers that have not flushed yet
	{"trunc-follower", 1, func(h *H) {
		h.actLead(0)
		for i := 0; i < 12; i++ {
			h.w(0, i%4, 1, big)
		}
		h.flush(0, 1)
		h.actTrunc(false)
		h.actKill(1)
		h.actRestart(1)
		h.w(0, 1, 1, 0)
	}, 0},
	// truncation with a lagging member: the rule must keep what it still needs
	{"trunc-lagging", 1, func(h *H) {
		h.actLead(0)
		h.w(0, 0, 1, big)
		h.actHold(2, true)
		for i := 0; i < 12; i++ {
			h.w(0, i%4, 1, big)
		}
		h.flush(0, 1)
		h.flush(1, 1)
		h.actTrunc(false)
		h.actHold(2, false)
		h.w(0, 1, 1, 0)
	}, 0},
	// restart-time truncation on both other members while the third lags: dataless snapshot
	{"restart-strands", 1, func(h *H) {
		h.actLead(0)
		h.w(0, 0, 1, 0)
		h.actKill(2)
		for i := 0; i < 12; i++ {
			h.w(0, i%4, 1, big)
		}
		h.flush(0, 1)
		h.flush(1, 1)
		h.actRestartHeld(2)
		h.actKill(1)
		h.actRestart(1)
		h.actKill(0)
		h.actHold(2, false)
		h.pickLeader()
		h.actRestart(0)
	}, 0},
	// forced truncation after the tolerate time, the inactive member rejoins
	{"forced-trunc", 1, func(h *H) {
		h.actLead(0)
		h.w(0, 0, 1, 0)
		h.actKill(2)
		h.actMeta(2, false)
		for i := 0; i < 12; i++ {
			h.w(0, i%4, 1, big)
		}
		h.flush(0, 1)
		h.flush(1, 1)
		h.actTrunc(false) // unhealthy, tolerate time not over: refused
		h.actTrunc(true)
		h.actRestart(2)
		h.actMeta(2, true)
	}, 0},
	// the start-up replay applied after an entry committed since (engine starts the commit loop first)
	{"replay-race", 1, func(h *H) {
		h.actLead(0)
		h.w(0, 1, 1, 0)
		h.w(0, 2, 1, 0)
		h.actKill(1)
		h.w(0, 1, 1, 0) // overwrites key 1 while node 1 is down
		h.actRestartLate(1)
		h.actReplayLate(1)
	}, 3},
	// ts-meta must skip a peer that is not online
	{"elect-skips-offline", 1, func(h *H) {
		h.actLead(2)
		h.w(0, 1, 1, 0)
		h.actKill(1)
		h.actMeta(1, false)
		h.w(0, 1, 1, 0)
		h.actKill(0)
		h.actMeta(0, false)
		h.actElect()
		h.w(int(h.rgp().MasterPtID), 2, 1, 0)
	}, 5},
	// the snapshot index is the LAST entry of an entry file when the ClearEntryLog entry is applied:
	// the file that holds it must stay (the replay starts at the snapshot index, inclusive)
	{"trunc-boundary", 1, func(h *H) {
		h.actLead(0)
		for i := 0; i < 14 && h.err == nil && !h.wouldRotate(entrySize(0, 1, i%4, h.nextU+1, big)); i++ {
			h.w(0, i%4, 1, big)
		}
		for n := 0; n < h.n; n++ {
			h.flush(n, 1) // every node's snapshot index: the last entry of the first file
		}
		h.w(0, 0, 1, big) // starts the second file
		h.w(0, 1, 1, big)
		h.actTrunc(false)
		h.w(0, 2, 1, 0) // applied, not flushed
		h.w(0, 3, 1, 0)
		h.actKill(1)
		h.actRestart(1)
		h.actKill(0)
		h.actMeta(0, false)
		h.actElect()
		h.pickLeader()
		h.actRestart(0)
		h.actMeta(0, true)
	}, 0},
	// two replica groups on the same three nodes: a node kill hits a member of each
	{"two-groups", 1, func(h *H) { h.twoGroups(false) }, 3},
	// truncation by size on the leader while a member is down
	{"size-trunc", 1, func(h *H) {
		h.actLead(0)
		h.w(0, 0, 1, 0)
		h.actKill(2)
		for i := 0; i < 12; i++ {
			h.w(0, i%4, 1, big)
		}
		h.flush(0, 1)
		h.flush(1, 1)
		h.actTruncSize(0)
		h.actTruncSize(1)
		h.actRestart(2)
	}, 0},
}

// twoGroups: a second replica group (its own raft group, log directories, shards, meta record) lives
// on the same nodes; kills, restarts and liveness changes hit the members of both groups at once,
// writes / flushes / truncations / elections are per group. The model decides each group on its own
// (op lines of the second group carry the prefix `@1 `).
func (h *H) twoGroups(random bool) {
	g := &H{c: h.c, r: h.r.Fork(), n: h.n, root: h.root + "-g1", reported: map[string]int{}, real: h.real, tag: "@1 ", prof: h.prof}
	h.twin = g
	g.boot()
	if g.err != nil {
		return
	}
	both := []*H{h, g}
	each := func(f func(x *H)) {
		for _, x := range both {
			if x.err == nil {
				f(x)
			}
		}
	}
	node := func(f func(x *H, n int), n int) { each(func(x *H) { f(x, n) }) }
	h.actLead(0)
	g.actLead(1) // the groups have different raft leaders ...
	g.actSetMaster(2) // ... and different masters
	h.w(0, 1, 1, 0)
	g.w(2, 1, 1, 0)
	steps := 0
	if random {
		steps = 16 + h.r.Intn(10)
	} else {
		// node 1 dies: group 1 loses its raft leader, group 0 a follower
		node(func(x *H, n int) { x.actKill(n) }, 1)
		g.pickLeader()
		h.w(0, 1, 1, 0)
		g.w(2, 2, 1, 0)
		h.flush(0, 1)
		node(func(x *H, n int) { x.actRestart(n) }, 1)
		// node 2 dies: group 1 loses its master
		node(func(x *H, n int) { x.actKill(n) }, 2)
		node(func(x *H, n int) { x.actMeta(n, false) }, 2)
		each(func(x *H) { x.actElect() })
		each(func(x *H) {
			if x.leader < 0 {
				x.pickLeader()
			}
		})
		h.w(int(h.rgp().MasterPtID), 2, 1, 0)
		g.w(int(g.rgp().MasterPtID), 1, 1, 0)
		node(func(x *H, n int) { x.actRestart(n) }, 2)
		node(func(x *H, n int) { x.actMeta(n, true) }, 2)
	}
	for s := 0; s < steps && h.err == nil && g.err == nil; s++ {
		x := both[h.r.Intn(2)]
		for _, y := range both {
			if y.leader < 0 || !y.mir[y.leader].up {
				y.pickLeader()
			}
		}
		if h.err != nil || g.err != nil {
			break
		}
		down := h.n - h.upCount()
		d := h.r.Intn(100)
		switch {
		case d < 45:
			p := int(x.rgp().MasterPtID)
			if !x.mir[p].up {
				p = x.anyUp()
			}
			x.nextU++
			x.actWrite(p, h.r.Intn(4), x.nextU, 1, 0)
		case d < 60:
			x.flush(x.anyUp(), 1)
		case d < 72:
			if 2*(down+1) < h.n {
				n := h.anyUp()
				wasMaster := []bool{int(h.rgp().MasterPtID) == n, int(g.rgp().MasterPtID) == n}
				node(func(y *H, n int) { y.actKill(n) }, n)
				if wasMaster[0] || wasMaster[1] {
					node(func(y *H, n int) { y.actMeta(n, false) }, n)
					each(func(y *H) { y.actElect() })
				}
			}
		case d < 88:
			for n := 0; n < h.n; n++ {
				if !h.mir[n].up {
					node(func(y *H, n int) { y.actRestart(n) }, n)
					if !h.cl.alive[n] {
						node(func(y *H, n int) { y.actMeta(n, true) }, n)
					}
					break
				}
			}
		case d < 94:
			x.actTrunc(false)
		default:
			x.actSetMaster(x.anyUp())
		}
	}
	if g.err == nil {
		g.windDown(1)
	}
}
