// Package c05 — correspondence harness for property C05 (replicated data survives the loss of a
// minority of store nodes).
//
// cluster.go: N in-process replicas of one partition. Each replica is the REAL code:
// raftlog.RaftDiskStorage on its own directory, raftconn.RaftNode (StartNode/InitAndStartNode:
// PastLife, replay, serveChannels, PublishEntries, snapshotAfterFlush, deleteEntryLog,
// genProposeData ...) around etcd's raft.Node, engine.WriteToRaft as the writer,
// engine.readCommitFromRaft/dealCommitData as the apply loop, engine.readReplayForReplication as
// the start-up replay. Doubles: the transport between the nodes (in memory, can hold a node's
// traffic), the clock (raft ticks are fed by the harness: no wall-clock dependence), the meta
// client (two methods) and the shard below the apply loop (`standin`: memtable / table being
// flushed / files, with the flush hand-shake of tsstoreImpl.writeSnapshot on the real SnapShotter).
package c05

import (
	"encoding/json"
	"errors"
	"fmt"
	"os"
	"path/filepath"
	"sort"
	"strconv"
	"strings"
	"sync"
	"sync/atomic"
	"time"

	"github.com/VictoriaMetrics/VictoriaMetrics/lib/encoding"
	"github.com/openGemini/openGemini/engine"
	"github.com/openGemini/openGemini/lib/errno"
	"github.com/openGemini/openGemini/lib/logger"
	"github.com/openGemini/openGemini/lib/metaclient"
	"github.com/openGemini/openGemini/lib/raftconn"
	"github.com/openGemini/openGemini/lib/raftlog"
	"github.com/openGemini/openGemini/lib/util/lifted/hashicorp/serf/serf"
	"github.com/openGemini/openGemini/lib/util/lifted/influx/influxql"
	meta2 "github.com/openGemini/openGemini/lib/util/lifted/influx/meta"
	"github.com/openGemini/openGemini/lib/util/lifted/vm/protoparser/influx"
	"go.etcd.io/etcd/raft/v3"
	"go.etcd.io/etcd/raft/v3/raftpb"
	"verif/harness/engx"
)

const dbName = "db0"

// ---------------------------------------------------------------------------------------------
// stand-in for the shards of one partition (what sits below storage.WriteDataFunc)

type kv map[int]int

type standin struct {
	mu    sync.Mutex
	dir   string
	mem   map[int]kv // shard -> active memtable (volatile)
	imm   map[int]kv // shard -> table being flushed (volatile)
	files map[int]kv // shard -> data files (durable: <dir>/data.json)
	snp   *raftlog.SnapShotter
	immSnp map[int]*raftlog.SnapShotter // the SnapShotter each running flush saw at its start
	snpOf  map[int]bool                 // shards that know the SnapShotter
	// real mode: a REAL ts-store shard per shard number (engine.VerifShard); the maps above stay empty
	realMode bool
	real     map[int]*engine.VerifShard
	cache    map[int]kv // what realMap returned last, per shard; dropped whenever the shard is written, flushed, opened
	dead     bool // the life this store belonged to was killed: nothing reaches the directories any more
	// controls
	gate      chan struct{} // non-nil: applies of the commit loop wait until it is closed
	replayGate chan struct{}
	failNext  int32 // >0: that many next applies of the commit loop return an error
	applied   int64 // number of successful + failed applies seen (commit loop)
	replayed  int64
	waiting   int32 // commit-loop applies currently blocked at the gate
	busy      int32 // applies (commit loop or replay) inside the store right now
}

func newStandin(dir string, real bool) *standin {
	s := &standin{dir: dir, mem: map[int]kv{}, imm: map[int]kv{}, files: map[int]kv{}, immSnp: map[int]*raftlog.SnapShotter{},
		snpOf: map[int]bool{}, realMode: real, real: map[int]*engine.VerifShard{}}
	if real {
		return s
	}
	if b, err := os.ReadFile(filepath.Join(dir, "data.json")); err == nil {
		var f map[string]map[string]int
		if json.Unmarshal(b, &f) == nil {
			for sh, m := range f {
				shi, _ := strconv.Atoi(sh)
				s.files[shi] = kv{}
				for k, v := range m {
					ki, _ := strconv.Atoi(k)
					s.files[shi][ki] = v
				}
			}
		}
	}
	return s
}

// shard opens (recovers) the real shard sh of this life on first use.
func (s *standin) shard(sh int) (*engine.VerifShard, error) {
	s.mu.Lock()
	defer s.mu.Unlock()
	if s.dead {
		return nil, errors.New("store of a dead life")
	}
	if v := s.real[sh]; v != nil {
		return v, nil
	}
	v, err := engine.VerifOpenShard(filepath.Join(s.dir, fmt.Sprintf("shard%d", sh)), 0)
	if err != nil {
		return nil, err
	}
	v.DisableBackground()
	v.StopIndexBackground() // the index touches the disk only when the engine asks it to (crash images are copies of the directory)
	s.real[sh] = v
	return v, nil
}

// openExisting opens every shard directory the previous life left (a restarted store loads its
// shards - WAL replay included - before the raft node starts).
func (s *standin) openExisting() error {
	fis, _ := os.ReadDir(s.dir)
	for _, fi := range fis {
		var sh int
		if n, _ := fmt.Sscanf(fi.Name(), "shard%d", &sh); n == 1 && fi.IsDir() {
			if _, err := s.shard(sh); err != nil {
				return err
			}
		}
	}
	return nil
}

// realMap is what a read of the whole shard returns: key -> value.
func (s *standin) realMap(sh int) (kv, error) {
	s.mu.Lock()
	v := s.real[sh]
	if c, ok := s.cache[sh]; ok && v != nil {
		s.mu.Unlock()
		return c, nil
	}
	s.mu.Unlock()
	out := kv{}
	if v == nil {
		return out, nil
	}
	v.FlushIndex() // new series become searchable (the index buffers them for up to a second)
	rows, err := v.Dump("m", []engine.VerifField{{Name: "fi", Type: influxql.Integer}}, engx.TimeOf(0), engx.TimeOf(1000), true)
	if err != nil {
		return nil, err
	}
	for _, r := range rows {
		k := engx.SeriesIndex(r.Series)
		if len(r.Vals) == 1 {
			if x, ok := r.Vals[0].(int64); ok {
				out[k] = int(x)
			}
		}
	}
	s.mu.Lock()
	if s.cache == nil {
		s.cache = map[int]kv{}
	}
	s.cache[sh] = out
	s.mu.Unlock()
	return out, nil
}

func (s *standin) dirty(sh int) {
	s.mu.Lock()
	delete(s.cache, sh)
	s.mu.Unlock()
}

// mergedText: digest of everything the node answers (all shards, merged view)
func (s *standin) mergedText() string {
	l := map[int]kv{}
	if s.realMode {
		s.mu.Lock()
		var shs []int
		for sh := range s.real {
			shs = append(shs, sh)
		}
		s.mu.Unlock()
		for _, sh := range shs {
			m, err := s.realMap(sh)
			if err != nil {
				return "err:" + err.Error()
			}
			l[sh] = m
		}
		return layerText(l)
	}
	s.mu.Lock()
	defer s.mu.Unlock()
	for _, layer := range []map[int]kv{s.files, s.imm, s.mem} {
		for sh, m := range layer {
			if l[sh] == nil {
				l[sh] = kv{}
			}
			for k, v := range m {
				l[sh][k] = v
			}
		}
	}
	return layerText(l)
}

// flushReal is a whole flush of the real shard (tsstoreImpl.writeSnapshot through ForceFlush).
func (s *standin) flushReal(sh int) error {
	v, err := s.shard(sh)
	if err != nil {
		return err
	}
	defer s.dirty(sh)
	if perr := safe(func() { v.Flush() }); perr != "" {
		return errors.New(perr)
	}
	return nil
}

// crashImage: what the shard directories hold at this instant is what the next life finds. The
// image is taken first; the dead life's shard objects are closed afterwards (their close may still
// write - into directories that are then thrown away).
func (s *standin) crashImage() error {
	s.mu.Lock()
	var shs []int
	for sh := range s.real {
		shs = append(shs, sh)
	}
	s.mu.Unlock()
	for _, sh := range shs {
		src := filepath.Join(s.dir, fmt.Sprintf("shard%d", sh))
		if err := copyDir(src, src+".img"); err != nil {
			return err
		}
	}
	s.abandon()
	for _, sh := range shs {
		src := filepath.Join(s.dir, fmt.Sprintf("shard%d", sh))
		if err := os.RemoveAll(src); err != nil {
			return err
		}
		if err := os.Rename(src+".img", src); err != nil {
			return err
		}
	}
	return nil
}

// abandon: the process died; the shard objects are closed without reaching the raft node
func (s *standin) abandon() {
	s.mu.Lock()
	vs := s.real
	s.real = map[int]*engine.VerifShard{}
	s.dead = true
	s.mu.Unlock()
	for _, v := range vs {
		v := v
		_ = safe(func() { _ = v.Abandon() })
	}
}

func (s *standin) snpList() []int {
	s.mu.Lock()
	defer s.mu.Unlock()
	var out []int
	if s.realMode {
		for sh, v := range s.real {
			if v.HasSnapShotter() {
				out = append(out, sh)
			}
		}
	} else {
		for sh := range s.snpOf {
			out = append(out, sh)
		}
	}
	sort.Ints(out)
	return out
}

func (s *standin) persist() error {
	f := map[string]map[string]int{}
	for sh, m := range s.files {
		f[strconv.Itoa(sh)] = map[string]int{}
		for k, v := range m {
			f[strconv.Itoa(sh)][strconv.Itoa(k)] = v
		}
	}
	b, _ := json.Marshal(f)
	tmp := filepath.Join(s.dir, "data.json.tmp")
	if err := os.WriteFile(tmp, b, 0o644); err != nil {
		return err
	}
	return os.Rename(tmp, filepath.Join(s.dir, "data.json"))
}

// engine.StorageService ------------------------------------------------------------------------

func (s *standin) GetNodeId() uint64 { return 0 }

func (s *standin) Write(db, rp, mst string, ptId uint32, shardID uint64, writeData func() error) error {
	return writeData()
}

func (s *standin) WriteDataFunc(db, rp string, ptId uint32, shardID uint64, rows []influx.Row, binaryRows []byte, snp *raftlog.SnapShotter) error {
	s.mu.Lock()
	dead := s.dead
	s.mu.Unlock()
	if dead {
		return errors.New("store of a dead life")
	}
	atomic.AddInt32(&s.busy, 1)
	defer atomic.AddInt32(&s.busy, -1)
	fromReplay := snp == nil
	if fromReplay {
		s.mu.Lock()
		g := s.replayGate
		s.mu.Unlock()
		if g != nil {
			<-g
		}
		atomic.AddInt64(&s.replayed, 1)
	} else {
		s.mu.Lock()
		g := s.gate
		s.mu.Unlock()
		if g != nil {
			atomic.AddInt32(&s.waiting, 1)
			<-g
			atomic.AddInt32(&s.waiting, -1)
		}
		defer atomic.AddInt64(&s.applied, 1)
		if atomic.LoadInt32(&s.failNext) > 0 {
			atomic.AddInt32(&s.failNext, -1)
			return errors.New("standin: write refused")
		}
	}
	sh := int(shardID) / 100
	if s.realMode {
		v, err := s.shard(sh)
		if err != nil {
			return err
		}
		var werr error
		defer s.dirty(sh)
		if perr := safe(func() { werr = v.WriteReplicated(rows, snp) }); perr != "" {
			return errors.New(perr)
		}
		return werr
	}
	s.mu.Lock()
	defer s.mu.Unlock()
	if snp != nil && s.snp == nil { // shard.SetSnapShotter keeps the first one
		s.snp = snp
	}
	if snp != nil {
		s.snpOf[sh] = true
	}
	if s.mem[sh] == nil {
		s.mem[sh] = kv{}
	}
	for i := range rows {
		k, v, ok := rowKV(&rows[i])
		if !ok {
			return errors.New("standin: undecodable row")
		}
		s.mem[sh][k] = v
	}
	return nil
}

// flushBegin is tsstoreImpl.writeSnapshot up to the point where the table has been switched and
// the raft snapshot signal sent; flushEnd is commitSnapshot (files durable) and the table reset.
func (s *standin) flushBegin(sh int) {
	s.mu.Lock()
	var snp *raftlog.SnapShotter
	if s.snpOf[sh] {
		snp = s.snp // read once, as writeSnapshot does
	}
	s.immSnp[sh] = snp
	s.mu.Unlock()
	if snp != nil {
		atomic.StoreUint32(&snp.RaftFlag, 0)
	}
	s.mu.Lock()
	s.imm[sh] = s.mem[sh]
	if s.imm[sh] == nil {
		s.imm[sh] = kv{}
	}
	s.mem[sh] = kv{}
	s.mu.Unlock()
	if !flushSignalAfterCommit {
		signal(snp)
	}
}

// flushSignalAfterCommit: where tsstoreImpl.writeSnapshot gives the raft snapshot signal — measured
// on a real shard at the start of every run (probe.go), so that the stand-in follows the code.
var flushSignalAfterCommit = true

func signal(snp *raftlog.SnapShotter) {
	if snp != nil {
		snp.RaftFlushC <- true
		atomic.StoreUint32(&snp.RaftFlag, 1)
	}
}

func (s *standin) flushEnd(sh int) error {
	s.mu.Lock()
	if s.imm[sh] == nil {
		s.mu.Unlock()
		return nil
	}
	if s.files[sh] == nil {
		s.files[sh] = kv{}
	}
	for k, v := range s.imm[sh] {
		s.files[sh][k] = v
	}
	delete(s.imm, sh)
	err := s.persist()
	snp := s.immSnp[sh]
	delete(s.immSnp, sh)
	s.mu.Unlock()
	if err == nil && flushSignalAfterCommit {
		signal(snp)
	}
	return err
}

func (s *standin) read(sh, k int) (int, bool) {
	if s.realMode {
		m, err := s.realMap(sh)
		if err != nil {
			return 0, false
		}
		v, ok := m[k]
		return v, ok
	}
	s.mu.Lock()
	defer s.mu.Unlock()
	for _, layer := range []map[int]kv{s.mem, s.imm, s.files} {
		if m := layer[sh]; m != nil {
			if v, ok := m[k]; ok {
				return v, true
			}
		}
	}
	return 0, false
}

func layerText(l map[int]kv) string {
	var parts []string
	for sh, m := range l {
		for k, v := range m {
			parts = append(parts, fmt.Sprintf("%d.%d=%d", sh, k, v))
		}
	}
	sort.Strings(parts)
	return fmt.Sprintf("%d:%s", len(parts), fnvHex(parts))
}

func fnvHex(parts []string) string {
	h := uint64(14695981039346656037)
	for _, p := range parts {
		for i := 0; i < len(p); i++ {
			h ^= uint64(p[i])
			h *= 1099511628211
		}
		h ^= uint64(';')
		h *= 1099511628211
	}
	return fmt.Sprintf("%016x", h)
}

// ---------------------------------------------------------------------------------------------
// rows

func rowKV(r *influx.Row) (k, v int, ok bool) {
	for i := range r.Tags {
		if r.Tags[i].Key == "host" {
			k, _ = strconv.Atoi(strings.TrimPrefix(r.Tags[i].Value, "h"))
			ok = true
		}
	}
	for i := range r.Fields {
		if r.Fields[i].Key == "fi" {
			v = int(r.Fields[i].NumValue)
		}
	}
	return
}

// rowOf is one point of the small universe the shard harnesses share (engx): measurement m, series
// h<k>, timestamp k, integer field fi = v, optionally a string field of `pad` bytes.
func rowOf(k, v, pad int) influx.Row {
	f := map[string]string{"fi": strconv.Itoa(v)}
	if pad > 0 {
		f["fs"] = strings.Repeat("x", pad)
	}
	return engx.ToInflux([]engx.Row{{Mst: "m", Series: k, T: k, Fields: f}})[0]
}

// tailOf is the request body WriteToRaft receives: master shard id, stream shard ids, rows.
func tailOf(shard, k, v, pad int) []byte {
	var b []byte
	b = encoding.MarshalUint64(b, uint64(shard))
	b = encoding.MarshalUint32(b, 0)
	b, err := influx.FastMarshalMultiRows(b, []influx.Row{rowOf(k, v, pad)})
	if err != nil {
		panic(err)
	}
	return b
}

// ---------------------------------------------------------------------------------------------
// meta client double

type fakeMeta struct {
	metaclient.MetaClient // every other method: nil dereference (recovered as a harness error)
	cl                    *cluster
}

func (m *fakeMeta) DataNode(id uint64) (*meta2.DataNode, error) {
	dn := &meta2.DataNode{}
	dn.ID = id
	// RaftNode.deleteEntryLogPeriodically runs deleteEntryLog once a minute of wall-clock time on its own.
	// Outside the harness's own truncation action every member is reported not alive: the periodic run
	// then stops at "replica group status is unhealthy" (the tolerate time is hours) and proposes nothing.
	m.cl.mu.Lock()
	alive := m.cl.alive[int(id)-1] && m.cl.truncWindow
	m.cl.mu.Unlock()
	if alive {
		dn.Status = serf.StatusAlive
	} else {
		dn.Status = serf.StatusFailed
	}
	return dn, nil
}

func (m *fakeMeta) ShardOwner(shardID uint64) (string, string, *meta2.ShardGroupInfo) {
	sgi := &meta2.ShardGroupInfo{ID: shardID}
	for i := 0; i < m.cl.n; i++ {
		sgi.Shards = append(sgi.Shards, meta2.ShardInfo{ID: shardID*100 + uint64(i)})
	}
	return dbName, "rp0", sgi
}

// ---------------------------------------------------------------------------------------------
// nodes

type nd struct {
	cl    *cluster
	id    int // partition id = id, raft id = id+1, data node id = id+1
	life  int
	dir   string
	up    bool
	store *raftlog.RaftDiskStorage
	rn    *raftconn.RaftNode
	eng   *engine.EngineImpl
	tick  chan time.Time
	st    *standin
	loop  chan struct{} // closed when the commit loop of this life ended
	replayDone chan struct{} // closed when readReplayForReplication of this life returned
}

type cluster struct {
	mu    sync.Mutex
	n     int
	root  string
	nodes []*nd
	held  []bool // transport: traffic from/to the node is dropped
	heldIn []bool // transport: traffic to the node is dropped (what it sends still arrives)
	heldOut []bool // transport: the proposals the node forwards to the leader (MsgProp) are lost
	alive []bool // what the meta client reports for the data node
	meta  *fakeMeta
	sync  time.Duration
	truncWindow bool // the harness runs deleteEntryLog right now (else the nodes' own one-minute ticker must find nothing to do)
	real  bool // a real ts-store shard behind every node (else the stand-in, which can be paused inside a flush)
}

type transport struct {
	cl   *cluster
	from int
	life int
}

func (t *transport) SendRaftMessages(nodeID uint64, database string, pt uint32, msg raftpb.Message) error {
	cl := t.cl
	to := int(pt)
	cl.mu.Lock()
	src, dst := cl.nodes[t.from], cl.nodes[to]
	ok := src.up && src.life == t.life && dst.up && !cl.held[t.from] && !cl.held[to] && !cl.heldIn[to] && !(cl.heldOut[t.from] && msg.Type == raftpb.MsgProp)
	rn := dst.rn
	cl.mu.Unlock()
	if !ok {
		return nil
	}
	rn.StepRaftMessage([]raftpb.Message{msg})
	return nil
}

func newCluster(root string, n int, real bool) *cluster {
	cl := &cluster{n: n, root: root, real: real, held: make([]bool, n), heldIn: make([]bool, n), heldOut: make([]bool, n), alive: make([]bool, n), sync: time.Second}
	cl.meta = &fakeMeta{cl: cl}
	for i := 0; i < n; i++ {
		cl.nodes = append(cl.nodes, &nd{cl: cl, id: i})
		cl.alive[i] = true
	}
	return cl
}

// start (or restart) node i on directory dir.
func (cl *cluster) start(i int, dir string) (err error) { return cl.startMode(i, dir, false) }

// startMode: late = the replayed entries wait at a gate (the caller opens it with releaseReplay)
// while the node is already up: engine.startRaftNode starts the commit loop before its caller
// runs readReplayForReplication.
func (cl *cluster) startMode(i int, dir string, late bool) (err error) {
	x := cl.nodes[i]
	if perr := safe(func() {
		x.dir = dir
		if err = os.MkdirAll(dir, 0o755); err != nil {
			return
		}
		x.st = newStandin(dir, cl.real)
		if cl.real {
			if err = x.st.openExisting(); err != nil {
				return
			}
		}
		if late {
			x.st.replayGate = make(chan struct{})
		}
		x.store, err = raftlog.Init(filepath.Join(dir, "wal"), cl.sync)
		if err != nil {
			return
		}
		x.store.SetUint(raftlog.RaftId, raftconn.GetRaftNodeId(uint32(i)))
		x.store.SetUint(raftlog.GroupId, 0)
		var peers []raft.Peer
		trans := map[uint32]uint64{}
		for j := 0; j < cl.n; j++ {
			peers = append(peers, raft.Peer{ID: raftconn.GetRaftNodeId(uint32(j))})
			trans[uint32(j)] = uint64(j + 1)
		}
		x.life++
		rn := raftconn.StartNode(x.store, uint64(i+1), dbName, raftconn.GetRaftNodeId(uint32(i)), peers, cl.meta, trans)
		rn.WithLogger(logger.NewLogger(errno.ModuleUnknown))
		rn.ISend = &transport{cl: cl, from: i, life: x.life}
		x.tick = make(chan time.Time)
		rn.VerifSetTick(x.tick)
		replayC := make(chan *raftconn.Commit, 1)
		rn.ReplayC = replayC
		x.rn = rn
		x.eng = engine.VerifRaftEngine(dbName, uint32(i), rn)
		if err = rn.InitAndStartNode(); err != nil {
			return
		}
		close(replayC)
		cl.mu.Lock()
		x.up = true
		cl.mu.Unlock()
		// the production helper starts the apply loop; it decides what the loop does before the
		// replay has been applied (engine.startRaftNode / the PT load path: start, replay, open)
		gate := make(chan struct{})
		engine.VerifStartCommitLoop(rn, cl.meta, x.st, gate)
		x.replayDone = make(chan struct{})
		if late {
			go func(done chan struct{}, st *standin) {
				defer close(done)
				engine.VerifReadReplay(replayC, cl.meta, st, dbName, uint32(i))
				close(gate)
			}(x.replayDone, x.st)
		} else {
			engine.VerifReadReplay(replayC, cl.meta, x.st, dbName, uint32(i))
			close(gate)
			close(x.replayDone)
		}
	}); perr != "" {
		return errors.New(perr)
	}
	return err
}

// kill drops the node object (SIGKILL between two steps of the node): everything volatile is gone,
// the directory is what it is. The next life runs on a copy of the directory, so that nothing the
// dead object still holds (open files, a late background sync) can touch it.
func (cl *cluster) kill(i int) (string, error) {
	x := cl.nodes[i]
	cl.mu.Lock()
	x.up = false
	cl.mu.Unlock()
	// an apply that waits at a gate of this life waits for ever (the goroutine is the dead process's)
	// Cancel + Close change nothing in the files (Close = sync + close of the descriptors): the
	// directory is the image a SIGKILL between two steps leaves; the next life opens it again.
	// (RaftNode.Stop would close channels serveChannels may be sending on.) The raft node's own
	// loop ends when serveChannels sees the cancelled context between two Ready rounds.
	rn := x.rn
	rn.VerifCancel()
	waitFor(20*time.Second, func() bool { return rn.VerifStatus().ID == 0 })
	_ = safe(func() { x.store.Close() })
	x.rn, x.eng, x.store = nil, nil, nil
	if cl.real {
		if err := x.st.crashImage(); err != nil {
			return "", err
		}
	}
	return x.dir, nil
}

func copyDir(src, dst string) error {
	return filepath.Walk(src, func(p string, info os.FileInfo, err error) error {
		if err != nil {
			return err
		}
		rel, _ := filepath.Rel(src, p)
		t := filepath.Join(dst, rel)
		if info.IsDir() {
			return os.MkdirAll(t, 0o755)
		}
		b, err := os.ReadFile(p)
		if err != nil {
			return err
		}
		return os.WriteFile(t, b, 0o644)
	})
}

// releaseReplay opens the replay gate of node i and waits for the replay to end.
func (cl *cluster) releaseReplay(i int) bool {
	x := cl.nodes[i]
	x.st.mu.Lock()
	if x.st.replayGate != nil {
		close(x.st.replayGate)
		x.st.replayGate = nil
	}
	x.st.mu.Unlock()
	select {
	case <-x.replayDone:
		return true
	case <-time.After(60 * time.Second):
		return false
	}
}

func (cl *cluster) tickNode(i, k int) error {
	x := cl.nodes[i]
	for j := 0; j < k; j++ {
		select {
		case x.tick <- time.Time{}:
		case <-time.After(90 * time.Second):
			return fmt.Errorf("node %d does not take a tick", i)
		}
	}
	return nil
}

func waitFor(d time.Duration, cond func() bool) bool {
	end := time.Now().Add(d)
	for {
		if cond() {
			return true
		}
		if time.Now().After(end) {
			return false
		}
		time.Sleep(200 * time.Microsecond)
	}
}

func safe(f func()) (perr string) {
	defer func() {
		if r := recover(); r != nil {
			perr = fmt.Sprintf("panic: %v", r)
		}
	}()
	f()
	return ""
}

// obs is what the harness can see of a node between two steps.
type obs struct {
	first, last, commit, applied, snap, sc uint64
	snps                                   []int // shards that know the SnapShotter
}

func (x *nd) observe() obs {
	var o obs
	o.first, _ = x.store.GetFirstLast()
	o.last, _ = x.store.LastIndex() // max(entryLog.lastIndex(), snapshot index)
	hs, _ := x.store.HardState()
	o.commit = hs.Commit
	sp, _ := x.store.Snapshot()
	o.snap = sp.Metadata.Index
	o.applied = x.rn.VerifAppliedIndex()
	o.sc = atomic.LoadUint64(&x.rn.SnapShotter.CommittedIndex)
	o.snps = x.st.snpList()
	return o
}
