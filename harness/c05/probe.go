package c05

import (
	"fmt"
	"os"
	"path/filepath"
	"strings"

	"github.com/openGemini/openGemini/engine"
	"github.com/openGemini/openGemini/lib/raftlog"
	proto2 "github.com/openGemini/openGemini/lib/util/lifted/influx/meta/proto"
	meta2 "github.com/openGemini/openGemini/lib/util/lifted/influx/meta"
	"github.com/openGemini/openGemini/lib/util/lifted/protobuf/proto"
	"github.com/openGemini/openGemini/lib/util/lifted/vm/protoparser/influx"
)

func decodeRows(b []byte) ([]influx.Row, error) {
	rows, _, _, _, _, err := influx.FastUnmarshalMultiRows(b, nil, nil, nil, nil, nil)
	return rows, err
}

func peersPB(ps []meta2.Peer) []*proto2.Peer {
	var out []*proto2.Peer
	for _, p := range ps {
		out = append(out, &proto2.Peer{ID: proto.Uint32(p.ID), Role: proto.Uint32(uint32(p.PtRole))})
	}
	return out
}

// probeFlushOrder runs a flush of a REAL ts-store shard that received its rows the way the
// replication apply path writes them, and looks at the disk at the instant the shard gives the
// raft snapshot signal: are the rows in a data file (or at least in the shard's WAL) by then?
func probeFlushOrder(root string) (tssp int, walBytes int64, err error) {
	dir := filepath.Join(root, "probe-shard")
	defer os.RemoveAll(dir)
	sh, err := engine.VerifOpenShard(dir, 0)
	if err != nil {
		return 0, 0, err
	}
	defer sh.Close()
	sh.DisableBackground()
	flushC := make(chan bool)
	snp := &raftlog.SnapShotter{RaftFlag: 1, RaftFlushC: flushC}
	var rows []influx.Row
	for i := 0; i < 20; i++ {
		rows = append(rows, influx.Row{Name: "m_0000", Timestamp: int64(i+1) * 1e9,
			Tags:   influx.PointTags{{Key: "k", Value: fmt.Sprint(i % 4)}},
			Fields: influx.Fields{{Key: "v", Type: influx.Field_Type_Int, NumValue: float64(i)}}})
	}
	if err = sh.WriteReplicated(rows, snp); err != nil {
		return 0, 0, err
	}
	snp.TryToUpdateCommittedIndex(7)
	done := make(chan struct{})
	go func() {
		<-flushC
		filepath.Walk(dir, func(p string, info os.FileInfo, err error) error {
			if err == nil && !info.IsDir() {
				if strings.HasSuffix(p, ".tssp") {
					tssp++
				}
				if strings.Contains(p, string(filepath.Separator)+"wal"+string(filepath.Separator)) {
					walBytes += info.Size()
				}
			}
			return nil
		})
		close(done)
	}()
	sh.Flush()
	<-done
	return tssp, walBytes, nil
}
