//go:build c06 || allprops

package main

import _ "verif/harness/c06"
