//go:build c03 || allprops

package main

import _ "verif/harness/c03"
