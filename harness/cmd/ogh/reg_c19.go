//go:build c19 || allprops

package main

import _ "verif/harness/c19"
