//go:build c12 || allprops

package main

import _ "verif/harness/c12"
