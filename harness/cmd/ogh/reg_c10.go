//go:build c10 || allprops

package main

import _ "verif/harness/c10"
