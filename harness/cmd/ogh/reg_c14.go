//go:build c14 || allprops

package main

import _ "verif/harness/c14"
