//go:build c20 || allprops

package main

import _ "verif/harness/c20"
