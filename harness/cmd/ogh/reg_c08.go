//go:build c08 || allprops

package main

import _ "verif/harness/c08"
