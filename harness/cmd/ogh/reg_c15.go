//go:build c15 || allprops

package main

import _ "verif/harness/c15"
