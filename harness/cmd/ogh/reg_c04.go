//go:build c04 || allprops

package main

import _ "verif/harness/c04"
