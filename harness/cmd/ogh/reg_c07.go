//go:build c07 || allprops

package main

import _ "verif/harness/c07"
