// ogh — correspondence harness: runs the real openGemini code (built from /repo's working
// tree with -tags verif) on generated inputs and writes ops.txt / impl.out / viol.out /
// stats.json for ./check to compare with the Lean model's answers.
package main

import (
	"flag"
	"fmt"
	"os"
	"strings"

	"verif/harness/internal/hx"
)

type kv map[string]string

func (k kv) String() string { return "" }
func (k kv) Set(s string) error {
	i := strings.IndexByte(s, '=')
	if i < 0 {
		return fmt.Errorf("want key=value")
	}
	k[s[:i]] = s[i+1:]
	return nil
}

func main() {
	if len(os.Args) < 2 {
		fmt.Fprintln(os.Stderr, "usage: ogh <property> [-seed n] [-tier quick|thorough] [-n cases] [-out dir] [-replay file] [-D k=v]; properties:", hx.Props())
		os.Exit(2)
	}
	prop := os.Args[1]
	fs := flag.NewFlagSet("ogh", flag.ExitOnError)
	seed := fs.Uint64("seed", 1, "PRNG seed")
	tier := fs.String("tier", "quick", "quick|thorough")
	n := fs.Int("n", 0, "number of cases (0 = tier default)")
	out := fs.String("out", ".", "output directory")
	replay := fs.String("replay", "", "replay file")
	args := kv{}
	fs.Var(args, "D", "extra key=value")
	fs.Parse(os.Args[2:])
	flag.CommandLine.Parse(nil) // VictoriaMetrics' memory package insists on a parsed default flag set
	f := hx.Lookup(prop)
	if f == nil {
		fmt.Fprintln(os.Stderr, "unknown property", prop, "known:", hx.Props())
		os.Exit(2)
	}
	c := &hx.Ctx{Prop: prop, Tier: *tier, Seed: *seed, N: *n, Out: *out, Replay: *replay, Args: args}
	if err := c.Open(); err != nil {
		fmt.Fprintln(os.Stderr, err)
		os.Exit(2)
	}
	err := f(c)
	if cerr := c.Close(); err == nil {
		err = cerr
	}
	if err != nil {
		fmt.Fprintln(os.Stderr, "harness error:", err)
		os.Exit(3)
	}
}
