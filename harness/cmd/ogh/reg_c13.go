//go:build c13 || allprops

package main

import _ "verif/harness/c13"
