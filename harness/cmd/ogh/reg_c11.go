//go:build c11 || allprops

package main

import _ "verif/harness/c11"
