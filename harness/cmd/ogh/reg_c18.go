//go:build c18 || allprops

package main

import _ "verif/harness/c18"
