//go:build c02 || allprops

package main

import _ "verif/harness/c02"
