//go:build c16 || allprops

package main

import _ "verif/harness/c16"
