//go:build c01 || allprops

package main

import _ "verif/harness/c01"
