//go:build c17 || allprops

package main

import _ "verif/harness/c17"
