//go:build c09 || allprops

package main

import _ "verif/harness/c09"
