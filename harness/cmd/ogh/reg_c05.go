//go:build c05 || allprops

package main

import _ "verif/harness/c05"
