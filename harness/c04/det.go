package c04

import (
	"fmt"
	"math"
	"os"
	"sort"
	"strings"
	"time"

	"github.com/openGemini/openGemini/engine"
	"github.com/openGemini/openGemini/lib/fileops"

	"verif/harness/engx"
	"verif/harness/internal/hx"
)

// Deterministic interleavings on a real shard (the tie of the protocol model).

var detMsts = []string{"m0", "m1"}

const detSeriesPerMst, detTimes = 3, 80

func mstOfSeries(s int) string { return detMsts[s/detSeriesPerMst] }

type heldView struct {
	vid        int
	ms         string
	asc        bool
	vw         *engine.VerifView
	specRows   string // what the view must return: the acknowledged rows when it was taken
	ok         bool
	line       int // op line of the take
	unlinkSeen bool
}

type detRun struct {
	c     *hx.Ctx
	r     *hx.Rng
	idx   int
	sh    *engine.VerifShard
	p     *pauser
	root  string
	spec  lww
	prev  engine.VerifProtocolState
	views []*heldView
	nvid  int
	kinds strings.Builder
	// what the history went through (non-triviality)
	readsInFlush, readsInReplace, writesInFlush, longViews int
	pausePoints                                            int
	closed, filesClosed                                    bool
	trace                                                  bool
	pendingRows                                            map[string]bool
	mergeGrp                                               map[string][]string
	// files published by the flush in flight (since the last switch), per measurement
	flushFiles map[string]map[string]bool
	sched      []string
	untied     bool
	nviol      int
	dropped    map[string]bool // measurements dropped while operations were in flight (lock-point mode)
}

func rev(xs []string) []string {
	out := make([]string, len(xs))
	for i, x := range xs {
		out[len(xs)-1-i] = x
	}
	return out
}

func diff(a, b []string) (onlyA, onlyB []string) {
	inB := map[string]bool{}
	for _, x := range b {
		inB[x] = true
	}
	inA := map[string]bool{}
	for _, x := range a {
		inA[x] = true
		if !inB[x] {
			onlyA = append(onlyA, x)
		}
	}
	for _, x := range b {
		if !inA[x] {
			onlyB = append(onlyB, x)
		}
	}
	return
}

func nameList(xs []string) string {
	if len(xs) == 0 {
		return "-"
	}
	return strings.Join(xs, ",")
}

// shortName: 0000000c-0001-00000000.tssp -> c-1
func shortName(f string) string {
	base := strings.TrimSuffix(f, ".tssp")
	parts := strings.Split(base, "-")
	if len(parts) != 3 {
		return f
	}
	a := strings.TrimLeft(parts[0], "0")
	b := strings.TrimLeft(parts[1], "0")
	if a == "" {
		a = "0"
	}
	if b == "" {
		b = "0"
	}
	return a + "-" + b
}

func shortNames(list string) string {
	if list == "-" {
		return "-"
	}
	xs := strings.Split(list, ",")
	for i := range xs {
		xs[i] = shortName(xs[i])
	}
	return strings.Join(xs, ",")
}

// step appends one item to the compact schedule of the history (what a violation reports).
func (d *detRun) step(op string) {
	f := strings.Fields(op)
	if len(f) == 0 {
		return
	}
	item := ""
	switch f[0] {
	case "note", "release", "open":
		return
	case "write":
		item = "w"
	case "query":
		item = "q(" + f[2] + ")"
	case "take":
		item = "take#" + f[1] + "(" + f[3] + ")"
	case "read":
		item = "read#" + f[1]
	case "publish":
		item = "publish(" + f[1] + " ord=" + shortNames(f[2]) + " ooo=" + shortNames(f[3]) + ")"
	case "plan":
		return
	case "replace":
		item = "replace(" + f[1] + " " + f[2] + " " + shortNames(f[3]) + "=>" + shortNames(f[4]) + ")"
	case "mergereplace":
		item = "mergereplace(" + f[1] + " ooo=" + shortNames(f[2]) + " " + shortNames(f[3]) + "=>" + shortNames(f[4]) + ")"
	default:
		item = strings.Join(f, " ")
	}
	d.sched = append(d.sched, item)
}

// viol reports a violation of the property together with the schedule that led to it.
func (d *detRun) viol(line int, class, desc string) {
	d.nviol++
	from := 0
	if len(d.sched) > 120 {
		from = len(d.sched) - 120
	}
	pre := ""
	if from > 0 {
		pre = fmt.Sprintf("… (%d earlier steps) ", from)
	}
	d.c.Violation(line, class, desc+" | schedule of history "+fmt.Sprint(d.idx)+" (@actor#n:op = the actor is stopped before its n-th file-system mutation, * = inside a file-list critical section): "+pre+strings.Join(d.sched[from:], " "))
}

func (d *detRun) emit(op, ans string) int {
	d.step(op)
	if d.untied && !strings.HasPrefix(op, "note") {
		// the order of the steps of this history is no longer known (lock-point round in which
		// the second actor had to wait for the first): nothing more is compared with the model
		op, ans = "note untied: "+op, "ok"
	}
	if d.trace {
		fmt.Fprintf(os.Stderr, "   op: %-60s -> %s\n", op, ans)
	}
	return d.c.Emit(op, ans)
}

// observe reads the protocol state and emits the model steps that happened since the last
// observation. actor says which background actor is (or was just) running.
func (d *detRun) observe(actor string, locked map[string]bool) {
	var msts []string
	for _, ms := range detMsts {
		if !locked[ms] {
			msts = append(msts, ms)
		}
	}
	d.observeState(actor, d.sh.ProtocolState(msts), locked)
}

// observeState: the inference of observe, from a protocol state read elsewhere.
func (d *detRun) observeState(actor string, st engine.VerifProtocolState, locked map[string]bool) {
	for _, ms := range detMsts {
		if locked[ms] {
			// cannot be looked at now: unchanged since the last observation as far as we know
			st.Flushed[ms], st.InSnapshot[ms] = d.prev.Flushed[ms], d.prev.InSnapshot[ms]
			st.Orders[ms], st.OutOfOrders[ms] = d.prev.Orders[ms], d.prev.OutOfOrders[ms]
		}
	}
	prev := d.prev
	// flusher
	if !prev.HasSnapshot && st.HasSnapshot {
		d.emit("switch", "ok")
		d.pendingRows = map[string]bool{}
		prev.Flushed = map[string]bool{}
		d.flushFiles = map[string]map[string]bool{}
	}
	flushGone := prev.HasSnapshot && !st.HasSnapshot
	for _, ms := range detMsts {
		removedOrd, addedOrd := diff(prev.Orders[ms], st.Orders[ms])
		removedOoo, addedOoo := diff(prev.OutOfOrders[ms], st.OutOfOrders[ms])
		switch actor {
		case actFlush:
			if (st.HasSnapshot && st.Flushed[ms] && !prev.Flushed[ms]) || (flushGone && (len(addedOrd) > 0 || len(addedOoo) > 0)) || (!prev.HasSnapshot && !st.HasSnapshot && (len(addedOrd) > 0 || len(addedOoo) > 0)) {
				if !prev.HasSnapshot && !st.HasSnapshot {
					// a whole flush went by unobserved
					d.emit("switch", "ok")
					d.pendingRows = map[string]bool{}
					d.flushFiles = map[string]map[string]bool{}
					prev.HasSnapshot = true
					flushGone = true
				}
				d.emit(fmt.Sprintf("publish %s %s %s", ms, nameList(addedOrd), nameList(addedOoo)), "ok")
				if d.flushFiles[ms] == nil {
					d.flushFiles[ms] = map[string]bool{}
				}
				for _, f := range append(append([]string{}, addedOrd...), addedOoo...) {
					d.flushFiles[ms][f] = true
				}
			}
		case actCompact:
			if len(removedOrd) > 0 || len(addedOrd) > 0 {
				d.emit(fmt.Sprintf("plan %s %s", ms, nameList(removedOrd)), "ok")
				d.emit(fmt.Sprintf("replace %s ord %s %s", ms, nameList(removedOrd), nameList(addedOrd)), "ok")
			}
			if len(removedOoo) > 0 || len(addedOoo) > 0 {
				d.emit(fmt.Sprintf("plan %s %s", ms, nameList(removedOoo)), "ok")
				d.emit(fmt.Sprintf("replace %s ooo %s %s", ms, nameList(rev(removedOoo)), nameList(rev(addedOoo))), "ok")
			}
		case actMerge:
			if len(removedOrd) > 0 || len(addedOrd) > 0 {
				// the out-of-order files that were merged: the ones the merge has delisted if that is
				// already visible, else the out-of-order list as it was when the merge started
				grp := d.mergeGrp[ms]
				if len(removedOoo) > 0 && len(addedOoo) == 0 {
					grp = removedOoo
				}
				d.emit(fmt.Sprintf("plan %s %s", ms, nameList(removedOrd)), "ok")
				d.emit(fmt.Sprintf("mergereplace %s %s %s %s", ms, nameList(rev(grp)), nameList(removedOrd), nameList(addedOrd)), "ok")
			}
			if len(addedOoo) > 0 {
				d.emit(fmt.Sprintf("plan %s %s", ms, nameList(removedOoo)), "ok")
				d.emit(fmt.Sprintf("replace %s ooo %s %s", ms, nameList(rev(removedOoo)), nameList(rev(addedOoo))), "ok")
			} else if len(removedOoo) > 0 {
				d.emit(fmt.Sprintf("dropooo %s", ms), "ok")
			}
		}
	}
	if flushGone {
		d.emit("drop", "ok")
		d.flushFiles = map[string]map[string]bool{}
	}
	d.prev = st
	// files held by open views must still exist
	for _, hv := range d.views {
		if locked[hv.ms] {
			continue // a file of that measurement is being renamed under its own lock
		}
		if hv.unlinkSeen {
			continue
		}
		names := append(append([]string{}, hv.vw.Orders...), hv.vw.OutOfOrders...)
		for i, p := range hv.vw.Files() {
			if _, err := os.Stat(p); err != nil {
				name := p
				if i < len(names) {
					name = names[i]
				}
				line := d.emit("note use-after-unlink check", "ok")
				d.viol(line, "use_after_unlink", fmt.Sprintf("history %d (%s) after %s: view %d of %s (taken at op line %d) holds %s, which is gone from the disk (%v)", d.idx, d.kinds.String(), actor, hv.vid, hv.ms, hv.line, name, err))
				hv.unlinkSeen = true
				break
			}
		}
	}
}

func viewText(vw *engine.VerifView) string {
	b2s := func(b bool) string {
		if b {
			return "1"
		}
		return "0"
	}
	o := append([]string{}, vw.Orders...)
	u := append([]string{}, vw.OutOfOrders...)
	sort.Strings(o)
	sort.Strings(u)
	return fmt.Sprintf("view act=%s snap=%s ord=%s ooo=%s", b2s(vw.HasActive), b2s(vw.HasSnapshot), strings.Join(o, ","), strings.Join(u, ","))
}

// checkComposition is the implementation-vs-theorem check of the fifth clause of
// view_exactly_once: a view never holds the table being flushed together with a file made
// from it (the rows would be consulted twice), and - from what the last observation of the
// protocol state says - holds the table being flushed exactly when the measurement has rows
// in it that are not yet published.
func (d *detRun) checkComposition(line int, ms string, vw *engine.VerifView, context string) {
	if vw == nil || vw.Empty {
		return
	}
	if vw.HasSnapshot {
		for _, f := range append(append([]string{}, vw.Orders...), vw.OutOfOrders...) {
			if d.flushFiles[ms][f] {
				d.viol(line, "view_holds_table_and_its_files", fmt.Sprintf("history %d (%s) %s: a view of %s holds the table being flushed and the file %s published from it", d.idx, d.kinds.String(), context, ms, f))
				return
			}
		}
	}
	if d.prev.HasSnapshot && d.prev.InSnapshot[ms] && !d.prev.Flushed[ms] && !vw.HasSnapshot && !d.closed {
		d.viol(line, "view_misses_table_being_flushed", fmt.Sprintf("history %d (%s) %s: a view of %s does not hold the table being flushed although the measurement's rows in it are not published yet", d.idx, d.kinds.String(), context, ms))
	}
}

func dirName(asc bool) string {
	if asc {
		return "asc"
	}
	return "desc"
}

// query = takeView + openCursors + readView + release, back to back.
func (d *detRun) query(ms string, asc bool, context string) {
	client := 1 + d.r.Intn(3)
	var vw *engine.VerifView
	var rows []engine.VerifRow
	var err error
	perr := hx.Safe(func() {
		vw, err = d.sh.TakeView(ms, engx.AllFields(), math.MinInt64, math.MaxInt64, asc)
		if err == nil {
			rows, err = vw.Read()
			if e := vw.Release(); err == nil {
				err = e
			}
		}
	})
	ans := ""
	rowsText := ""
	switch {
	case perr != "":
		ans = "err " + strings.SplitN(perr, "\n", 2)[0]
	case err != nil:
		ans = "err " + strings.SplitN(err.Error(), "\n", 2)[0]
	case vw.Empty:
		rowsText = "rows "
		ans = "view none rows "
	default:
		rowsText = engx.DumpText(rows)
		ans = viewText(vw) + " " + rowsText
	}
	line := d.emit(fmt.Sprintf("query %d %s %s", client, ms, dirName(asc)), ans)
	d.c.Count("probe:query@" + context)
	if perr == "" && err == nil {
		d.checkComposition(line, ms, vw, context)
	}
	if d.closed {
		d.c.Count("probe:query-after-close-begun")
		return
	}
	if d.dropped[ms] {
		d.c.Count("probe:query-of-dropped-measurement")
		if perr != "" {
			d.viol(line, "panic", "query of a dropped measurement: "+perr)
		}
		return
	}
	if want := d.spec.read(ms, asc); rowsText != want {
		class := "torn_read"
		if strings.HasPrefix(ans, "err ") {
			class = "read_error"
		}
		d.viol(line, class, fmt.Sprintf("history %d (%s) %s: read of %s answered %q, acknowledged writes give %q", d.idx, d.kinds.String(), context, ms, ans, want))
	}
}

func (d *detRun) take(ms string, asc bool, context string) {
	client := 1 + d.r.Intn(3)
	var vw *engine.VerifView
	var err error
	perr := hx.Safe(func() { vw, err = d.sh.TakeView(ms, engx.AllFields(), math.MinInt64, math.MaxInt64, asc) })
	d.nvid++
	op := fmt.Sprintf("take %d %d %s %s", d.nvid, client, ms, dirName(asc))
	if perr != "" || err != nil {
		line := d.emit(op, "err "+perr+fmt.Sprint(err))
		d.viol(line, "read_error", "opening a query failed: "+perr+fmt.Sprint(err))
		return
	}
	if vw.Empty {
		// nothing to hold: the model's view is released right away
		d.emit(fmt.Sprintf("query %d %s %s", client, ms, dirName(asc)), "view none rows ")
		d.nvid--
		return
	}
	line := d.emit(op, viewText(vw))
	d.checkComposition(line, ms, vw, context)
	d.views = append(d.views, &heldView{vid: d.nvid, ms: ms, asc: asc, vw: vw, specRows: d.spec.read(ms, asc), ok: !d.closed, line: line})
	d.longViews++
	d.c.Count("probe:take@" + context)
}

func (d *detRun) readHeld(i int, context string) {
	hv := d.views[i]
	var rows []engine.VerifRow
	var err error
	perr := hx.Safe(func() { rows, err = hv.vw.Read() })
	ans := ""
	switch {
	case perr != "":
		ans = "err " + strings.SplitN(perr, "\n", 2)[0]
	case err != nil && d.closed && strings.Contains(err.Error(), "closed"):
		ans = "err closed"
		d.c.Count("read-after-files-closed:error")
	case err != nil:
		ans = "err " + strings.SplitN(err.Error(), "\n", 2)[0]
	default:
		ans = engx.DumpText(rows)
	}
	if d.filesClosed && len(hv.vw.Orders)+len(hv.vw.OutOfOrders) > 0 {
		// the files were closed under the view: whether a read still succeeds depends on what
		// the reader had cached; it must fail cleanly or return what the view stood for
		line := d.emit("note read after the files were closed", "ok")
		d.c.Count("read-after-files-closed:" + strings.Fields(ans)[0])
		if !strings.HasPrefix(ans, "err ") && hv.ok && ans != hv.specRows {
			d.viol(line, "torn_read", fmt.Sprintf("history %d: view %d read after Close answered %q, rows acknowledged when it was taken: %q", d.idx, hv.vid, ans, hv.specRows))
		}
		if perr := hx.Safe(func() { hv.vw.Release() }); perr != "" {
			d.viol(line, "panic", "release: "+perr)
		}
		d.emit(fmt.Sprintf("release %d", hv.vid), "ok")
		d.views = append(d.views[:i], d.views[i+1:]...)
		return
	}
	line := d.emit(fmt.Sprintf("read %d", hv.vid), ans)
	d.c.Count("probe:read-held@" + context)
	if hv.ok && !d.closed && ans != hv.specRows {
		class := "torn_read"
		if strings.HasPrefix(ans, "err ") {
			class = "read_error"
		}
		d.viol(line, class, fmt.Sprintf("history %d (%s) %s: view %d of %s taken earlier answered %q, rows acknowledged when it was taken: %q", d.idx, d.kinds.String(), context, hv.vid, hv.ms, ans, hv.specRows))
	}
	if perr := hx.Safe(func() { hv.vw.Release() }); perr != "" {
		d.viol(line, "panic", "release: "+perr)
	}
	d.emit(fmt.Sprintf("release %d", hv.vid), "ok")
	d.views = append(d.views[:i], d.views[i+1:]...)
}

func genVal(r *hx.Rng, f string) string {
	switch f {
	case "fi":
		return fmt.Sprint(int64(r.Intn(200)) - 100)
	case "ff":
		return fmt.Sprintf("%016x", math.Float64bits(float64(r.Intn(40))/4-3))
	case "fb":
		return fmt.Sprint(r.Intn(2))
	}
	return fmt.Sprintf("s%d", r.Intn(30))
}

func (d *detRun) genBatch(hiWater *int) []engx.Row {
	n := 1 + d.r.Intn(4)
	var rows []engx.Row
	for i := 0; i < n; i++ {
		s := d.r.Intn(detSeriesPerMst * len(detMsts))
		row := engx.Row{Mst: mstOfSeries(s), Series: s, Fields: map[string]string{}}
		if d.r.Chance(40) {
			row.T = d.r.Intn(*hiWater + 2)
		} else {
			row.T = *hiWater + d.r.Intn(2)
			if row.T >= detTimes {
				row.T = detTimes - 1
			}
		}
		for _, f := range engx.FieldNames {
			if d.r.Chance(45) {
				row.Fields[f] = genVal(d.r, f)
			}
		}
		if len(row.Fields) == 0 {
			row.Fields["fi"] = genVal(d.r, "fi")
		}
		if row.T > *hiWater {
			*hiWater = row.T
		}
		rows = append(rows, row)
	}
	return rows
}

func (d *detRun) write(rows []engx.Row, context string) error {
	var ts []string
	for _, x := range rows {
		ts = append(ts, x.Mst+"/"+x.Text())
	}
	var werr error
	perr := hx.Safe(func() { werr = d.sh.Write(engx.ToInflux(rows)) })
	ans := "ack"
	switch {
	case perr != "":
		ans = "err " + perr
	case werr != nil && d.closed:
		ans = "err closed"
	case werr != nil:
		ans = "err " + werr.Error()
	}
	line := d.emit("write "+strings.Join(ts, ";"), ans)
	d.c.Count("probe:write@" + context)
	if ans == "ack" {
		d.spec.apply(rows)
		for _, x := range rows {
			d.pendingRows[x.Mst] = true
		}
	} else if !d.closed {
		d.viol(line, "write_rejected", "a valid write batch was rejected: "+ans)
		return fmt.Errorf("write failed: %s", ans)
	}
	return nil
}

func lockedMst(ev *event) string {
	// data/tssp/<measurement>_0000/... or data/<measurement>/...
	for _, part := range strings.Split(ev.rel, "/") {
		for _, ms := range detMsts {
			if part == ms || strings.HasPrefix(part, ms+"_") {
				return ms
			}
		}
	}
	return ""
}

// probes at one pause point of a background actor.
func (d *detRun) probes(ev *event, locked map[string]bool, hiWater *int) error {
	context := ev.actor
	if ev.inLock {
		context += "-inlock"
	}
	if d.r.Chance(35) && !d.closed {
		if err := d.write(d.genBatch(hiWater), context); err != nil {
			return err
		}
		if ev.actor == actFlush {
			d.writesInFlush++
		}
	}
	for _, ms := range detMsts {
		if locked[ms] {
			continue
		}
		if d.r.Chance(70) {
			d.query(ms, d.r.Bool(), context)
			if ev.actor == actFlush {
				d.readsInFlush++
			} else {
				d.readsInReplace++
			}
		}
		if d.r.Chance(12) && len(d.views) < 4 {
			d.take(ms, d.r.Bool(), context)
		}
	}
	if len(d.views) > 0 && d.r.Chance(25) {
		i := d.r.Intn(len(d.views))
		if !locked[d.views[i].ms] {
			d.readHeld(i, context)
		}
	}
	return nil
}

// runActor runs one background operation in its own goroutine, stops it at every mutation
// it issues and probes the shard there.
func (d *detRun) runActor(actor, opName string, f func() error, hiWater *int) error {
	d.kinds.WriteString(opName)
	if actor == actMerge {
		d.mergeGrp = map[string][]string{}
		for _, ms := range detMsts {
			d.mergeGrp[ms] = append([]string{}, d.prev.OutOfOrders[ms]...)
		}
	}
	d.p.setGate(actor, true)
	done := make(chan string, 1)
	go func() {
		var e error
		perr := hx.Safe(func() { e = f() })
		if perr == "" && e != nil {
			perr = "error: " + e.Error()
		}
		done <- perr
	}()
	excluded := false
	cur := ""
	lastMs := map[string]string{} // goroutine -> measurement of the last data file it touched
	msOf := func(e *event) string {
		if ms := lockedMst(e); ms != "" {
			lastMs[e.gid] = ms
			return ms
		}
		return lastMs[e.gid]
	}
	for {
		ev, others, finished, perr, timedOut := waitEvent(d.p, done, 60*time.Second, cur)
		if timedOut {
			line := d.emit("note actor "+opName, "ok")
			d.viol(line, "deadlock", fmt.Sprintf("history %d: %s neither reached a pause point nor finished within 60 s", d.idx, opName))
			return fmt.Errorf("actor %s stuck", opName)
		}
		if finished {
			d.p.setGate(actor, false)
			d.observe(actor, nil)
			if perr != "" && !strings.HasPrefix(perr, "error: ") {
				line := d.emit("note actor "+opName, "ok")
				d.viol(line, "panic", fmt.Sprintf("history %d: %s: %s", d.idx, opName, perr))
			}
			return nil
		}
		d.pausePoints++
		d.c.Count("pause:" + ev.actor + ":" + ev.op)
		{
			mark := ""
			if ev.inLock {
				mark = "*"
			}
			d.sched = append(d.sched, fmt.Sprintf("@%s#%d:%s%s", ev.actor, ev.n, ev.op, mark))
		}
		// measurements whose file list some goroutine standing at a gate holds exclusively
		locked := map[string]bool{}
		unknownLock := false
		for _, e := range append([]*event{ev}, others...) {
			ms := msOf(e) // (the compact log is removed under the list lock of the measurement
			// whose files the goroutine has just replaced: the path does not name it)
			if e.inLock {
				if ms != "" {
					locked[ms] = true
				} else {
					unknownLock = true
				}
			}
		}
		if d.trace {
			fmt.Fprintf(os.Stderr, " pause %s g%s #%d %s %s %s inlock=%v locked=%v waiting=%d\n", ev.actor, ev.gid, ev.n, ev.op, ev.rel, ev.rel2, ev.inLock, locked, len(others))
		}
		if unknownLock {
			d.c.Count("pause:inlock-unknown-measurement")
		} else if !excluded {
			d.observe(actor, locked)
			if ev.inLock && d.r.Chance(10) && len(others) == 0 && lockedMst(ev) != "" {
				// exclusion probe: a query of the measurement whose list is locked must wait
				excluded = true
				d.exclusionProbe(ev, actor, done)
				cur = ""
				continue
			}
			if err := d.probes(ev, locked, hiWater); err != nil {
				close(ev.resume)
				return err
			}
		}
		cur = ev.gid
		close(ev.resume)
	}
}

// exclusionProbe starts a query of the measurement whose file list the stopped actor holds
// exclusively. The query must not complete while the actor is stopped (if it does, the
// replace is not atomic for readers); the actor then runs to its end and the query's answer
// must satisfy the property.
func (d *detRun) exclusionProbe(ev *event, actor string, done chan string) {
	ms := lockedMst(ev)
	type res struct {
		rows []engine.VerifRow
		err  error
		perr string
	}
	ch := make(chan res, 1)
	asc := d.r.Bool()
	go func() {
		var r res
		r.perr = hx.Safe(func() { r.rows, r.err = d.sh.Dump(ms, engx.AllFields(), math.MinInt64, math.MaxInt64, asc) })
		ch <- r
	}()
	d.c.Count("probe:exclusion")
	select {
	case r := <-ch:
		line := d.emit("note exclusion probe", "ok")
		got := ""
		if r.perr == "" && r.err == nil {
			got = engx.DumpText(r.rows)
		}
		d.viol(line, "read_not_excluded_during_replace", fmt.Sprintf("history %d: a query of %s completed (%q) while %s was stopped inside the critical section that swaps the measurement's file list entries (%s %s)", d.idx, ms, got, actor, ev.op, ev.rel))
		close(ev.resume)
		return
	case <-time.After(150 * time.Millisecond):
	}
	// let the actor run freely to its end; the model is told the steps afterwards
	d.p.setGate(actor, false)
	close(ev.resume)
	// drain further events (none once the gate is open) and wait for the query
	select {
	case r := <-ch:
		line := d.emit("note exclusion probe", "ok")
		switch {
		case r.perr != "":
			d.viol(line, "panic", "query during replace: "+r.perr)
		case r.err != nil:
			d.viol(line, "read_error", "query during replace: "+r.err.Error())
		default:
			if got, want := engx.DumpText(r.rows), d.spec.read(ms, asc); got != want {
				d.viol(line, "torn_read", fmt.Sprintf("history %d: a query of %s that waited for the file-list swap answered %q, acknowledged writes give %q", d.idx, ms, got, want))
			}
		}
	case <-time.After(60 * time.Second):
		line := d.emit("note exclusion probe", "ok")
		d.viol(line, "deadlock", "a query that waited for a file-list swap did not return within 60 s")
	}
	d.p.setGate(actor, true) // keeps the loop's bookkeeping symmetric; the actor is past its pause points or done
}

func runDetHistory(c *hx.Ctx, r *hx.Rng, idx int) error {
	root := engx.ScratchDir("c04")
	defer os.RemoveAll(root)
	p := newPauser(root)
	fileops.SetVerifObserver(p)
	defer fileops.SetVerifObserver(nil)
	engine.VerifSetFlushConcurrency(1)
	sh, err := engine.VerifOpenShard(root, 1)
	if err != nil {
		return err
	}
	// (not DisableBackground: DisableCompAndMerge closes the table store's task scheduler for
	// good, after which level and full compaction silently do nothing)
	sh.DetachFromCompactor()
	d := &detRun{c: c, r: r, idx: idx, sh: sh, p: p, root: root, spec: lww{}, pendingRows: map[string]bool{}, flushFiles: map[string]map[string]bool{}, trace: c.Arg("trace", "") != ""}
	d.prev = engine.VerifProtocolState{Flushed: map[string]bool{}, Orders: map[string][]string{}, OutOfOrders: map[string][]string{}}
	d.emit(fmt.Sprintf("open %d %s", idx, strings.Join(detMsts, ",")), "ok")
	hiWater := 2
	// every series exists and is visible in the index before anything is measured
	var first []engx.Row
	for s := 0; s < detSeriesPerMst*len(detMsts); s++ {
		first = append(first, engx.Row{Mst: mstOfSeries(s), Series: s, T: 2, Fields: map[string]string{"fi": fmt.Sprint(s)}})
	}
	if err := d.write(first, "setup"); err != nil {
		return err
	}
	sh.FlushIndex()
	p.on = true
	closeMode := r.Intn(4) // 0,1: plain close; 2: close while a flush is stopped; 3: close with an open view
	nOps := 4 + r.Intn(11)
	for i := 0; i < nOps; i++ {
		x := r.Intn(100)
		switch {
		case x < 40:
			d.kinds.WriteString("w")
			if err := d.write(d.genBatch(&hiWater), "idle"); err != nil {
				return err
			}
		case x < 58:
			if err := d.runActor(actFlush, "F", func() error { sh.Flush(); return nil }, &hiWater); err != nil {
				return err
			}
		case x < 66:
			// several quick flushes of in-order rows (no pause points), so that there are enough
			// files of one level for a level compaction
			d.kinds.WriteString("B")
			for k := 0; k < 9; k++ {
				if hiWater < detTimes-1 {
					hiWater++
				}
				var rows []engx.Row
				for s := 0; s < detSeriesPerMst*len(detMsts); s++ {
					if r.Chance(70) {
						rows = append(rows, engx.Row{Mst: mstOfSeries(s), Series: s, T: hiWater, Fields: map[string]string{"fi": genVal(r, "fi")}})
					}
				}
				if len(rows) == 0 {
					continue
				}
				if err := d.write(rows, "idle"); err != nil {
					return err
				}
				if perr := hx.Safe(func() { sh.Flush() }); perr != "" {
					return fmt.Errorf("flush: %s", perr)
				}
				d.observe(actFlush, nil)
			}
		case x < 74:
			lv := uint16(r.Intn(2))
			if err := d.runActor(actCompact, "c", func() error { return sh.LevelCompact(lv) }, &hiWater); err != nil {
				return err
			}
		case x < 80:
			if err := d.runActor(actCompact, "C", func() error { return sh.FullCompact() }, &hiWater); err != nil {
				return err
			}
		case x < 88:
			full := r.Bool()
			if err := d.runActor(actMerge, "M", func() error { return sh.MergeOutOfOrder(full, true) }, &hiWater); err != nil {
				return err
			}
		default:
			d.kinds.WriteString("q")
			for _, ms := range detMsts {
				d.query(ms, r.Bool(), "idle")
			}
		}
		if len(d.views) > 0 && r.Chance(30) {
			d.readHeld(r.Intn(len(d.views)), "idle")
		}
	}
	// ---- close
	keep := -1
	for len(d.views) > 0 {
		if closeMode == 3 && len(d.views) == 1 {
			keep = 0
			break
		}
		d.readHeld(0, "before-close")
	}
	if err := d.closeShard(closeMode, keep, &hiWater); err != nil {
		return err
	}
	nontrivial := d.readsInFlush > 0 && (d.writesInFlush > 0 || d.readsInReplace > 0)
	c.Case(fmt.Sprintf("%d:%s", idx, d.kinds.String()), nontrivial)
	if nontrivial && len(c.Stats.Samples) < 3 {
		c.Sample(fmt.Sprintf("history %d ops=%s pause points=%d reads during flush=%d during replace/merge=%d writes during flush=%d long-lived views=%d close mode=%d", idx, d.kinds.String(), d.pausePoints, d.readsInFlush, d.readsInReplace, d.writesInFlush, d.longViews, closeMode))
	}
	c.Stats.Hist["pause-points"] += d.pausePoints
	return nil
}

// closeShard closes the shard, in one of three situations, and checks that Close waits for
// what is in flight and that nothing touches the directory after it returned.
func (d *detRun) closeShard(mode, keep int, hiWater *int) error {
	closeDone := make(chan string, 1)
	startClose := func() {
		go func() {
			var e error
			perr := hx.Safe(func() { e = d.sh.CloseShardFirst() })
			if perr == "" && e != nil {
				perr = "error: " + e.Error()
			}
			d.p.mu.Lock()
			d.p.closedAt = len(d.p.afterLog)
			d.p.mu.Unlock()
			closeDone <- perr
		}()
	}
	waitClosing := func() bool {
		deadline := time.Now().Add(60 * time.Second)
		for time.Now().Before(deadline) {
			st := d.sh.ProtocolState(nil)
			if !st.HasActive {
				return true
			}
			time.Sleep(time.Millisecond)
		}
		return false
	}
	finish := func(what string) error {
		select {
		case perr := <-closeDone:
			if perr != "" && !strings.HasPrefix(perr, "error: ") {
				line := d.emit("note close", "ok")
				d.viol(line, "panic", "Close: "+perr)
			}
		case <-time.After(60 * time.Second):
			line := d.emit("note close", "ok")
			d.viol(line, "deadlock", fmt.Sprintf("history %d: Close (%s) did not return within 60 s", d.idx, what))
			return fmt.Errorf("close stuck")
		}
		d.emit("closefiles", "ok")
		d.filesClosed = true
		return nil
	}
	switch {
	case mode == 2 && d.pendingRows["m0"] || mode == 2 && d.pendingRows["m1"]:
		// a flush is stopped at its first data-file mutation; Close must wait for it
		d.kinds.WriteString("[F|close]")
		d.c.Count("close:during-flush")
		d.p.setGate(actFlush, true)
		logFrom := d.p.logLen()
		flushDone := make(chan string, 1)
		go func() { flushDone <- hx.Safe(func() { d.sh.Flush() }) }()
		ev, _, finished, _, timedOut := waitEvent(d.p, flushDone, 60*time.Second, "")
		if timedOut {
			return fmt.Errorf("flush before close stuck")
		}
		if finished {
			d.p.setGate(actFlush, false)
			d.observe(actFlush, nil)
			d.emit("closebegin", "ok")
			d.closed = true
			startClose()
			return finish("after flush")
		}
		d.observe(actFlush, nil)
		startClose()
		if !waitClosing() {
			return fmt.Errorf("close did not reach its first critical section")
		}
		d.emit("closebegin", "ok")
		d.closed = true
		select {
		case perr := <-closeDone:
			line := d.emit("note close returned while a flush was in flight", "ok")
			d.viol(line, "close_did_not_wait_for_flush", fmt.Sprintf("history %d: Close returned (%q) while a flush was stopped before %s %s", d.idx, perr, ev.op, ev.rel))
			closeDone <- perr
		case <-time.After(200 * time.Millisecond):
		}
		// a query and a write while the shard is closing
		d.query(detMsts[d.r.Intn(len(detMsts))], true, "closing")
		d.write(d.genBatch(hiWater), "closing")
		d.p.setGate(actFlush, false)
		close(ev.resume)
		if perr := <-flushDone; perr != "" {
			line := d.emit("note flush during close", "ok")
			d.viol(line, "panic", "flush overlapping Close: "+perr)
		}
		// Close goes on as soon as the flush has dropped its table and closes the files, so the
		// lists cannot be observed any more: the publications are read off the renames the flush
		// issued (`x.tssp.init` -> `x.tssp`), measurement by measurement.
		type pub struct{ ord, ooo []string }
		pubs := map[string]*pub{}
		var order []string
		d.p.mu.Lock()
		for _, l := range d.p.afterLog[logFrom:] {
			f := strings.Fields(l)
			if len(f) != 3 || f[0] != "rename" || !strings.HasSuffix(f[1], ".tssp.init") || !strings.HasSuffix(f[2], ".tssp") {
				continue
			}
			parts := strings.Split(f[2], "/")
			ms := ""
			for _, x := range parts {
				for _, m := range detMsts {
					if x == m {
						ms = m
					}
				}
			}
			if ms == "" {
				continue
			}
			if pubs[ms] == nil {
				pubs[ms] = &pub{}
				order = append(order, ms)
			}
			name := parts[len(parts)-1]
			if strings.Contains(f[2], "out-of-order") {
				pubs[ms].ooo = append(pubs[ms].ooo, name)
			} else {
				pubs[ms].ord = append(pubs[ms].ord, name)
			}
		}
		d.p.mu.Unlock()
		for _, ms := range order {
			d.emit(fmt.Sprintf("publish %s %s %s", ms, nameList(pubs[ms].ord), nameList(pubs[ms].ooo)), "ok")
		}
		d.emit("drop", "ok")
		d.prev.HasSnapshot = false
		// the flush has finished: tell the model (observation needs the shard's locks, which
		// Close does not hold while it waits for open cursors / after it returned)
		if err := finish("during flush"); err != nil {
			return err
		}
	case mode == 3 && keep >= 0:
		// a query is open while the shard is closed. Close does not wait for it (tsspFile.Close
		// releases a WaitGroup count it never took); the query's read then fails cleanly.
		d.kinds.WriteString("[view|close]")
		d.c.Count("close:with-open-view")
		d.emit("closebegin", "ok")
		d.closed = true
		startClose()
		if err := finish("with open view"); err != nil {
			return err
		}
		d.readHeld(keep, "closed")
	default:
		d.kinds.WriteString("[close]")
		for len(d.views) > 0 {
			d.readHeld(0, "before-close")
		}
		d.emit("closebegin", "ok")
		d.closed = true
		startClose()
		if err := finish("idle"); err != nil {
			return err
		}
	}
	// nothing may touch the shard directory once Close has returned
	time.Sleep(20 * time.Millisecond)
	d.p.mu.Lock()
	var late []string
	for _, l := range d.p.afterLog[d.p.closedAt:] {
		// the node-wide collector removes replaced files that a query still held at the time
		// (renamed to *.init) whenever their last reference goes; it does not belong to the shard
		if strings.HasPrefix(l, "remove ") && strings.HasSuffix(strings.TrimSpace(l), ".tssp.init") {
			d.c.Count("collector-removal-after-close")
			continue
		}
		late = append(late, l)
	}
	d.p.mu.Unlock()
	d.p.on = false
	if len(late) > 0 {
		line := d.emit("note work after close", "ok")
		d.viol(line, "work_after_close", fmt.Sprintf("history %d: %d file-system mutations after Close returned, first: %s", d.idx, len(late), late[0]))
	}
	return nil
}
