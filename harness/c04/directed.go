package c04

import (
	"fmt"
	"math"
	"os"
	"strings"
	"time"

	"github.com/openGemini/openGemini/engine"
	"github.com/openGemini/openGemini/lib/fileops"

	"verif/harness/engx"
	"verif/harness/internal/hx"
)

// Directed schedules: windows that the reading of the code pointed at. Each one is set up with
// the pause technique; whether the window is hit can depend on the scheduler, so an outcome is
// only ever *reported* when it violates the property, never required.

func row(ms string, s, t int, v int) engx.Row {
	return engx.Row{Mst: ms, Series: s, T: t, Fields: map[string]string{"fi": fmt.Sprint(v)}}
}

func dumpAll(sh *engine.VerifShard, ms string, asc bool) (string, error) {
	var rows []engine.VerifRow
	var err error
	perr := hx.Safe(func() { rows, err = sh.Dump(ms, engx.AllFields(), math.MinInt64, math.MaxInt64, asc) })
	if perr != "" {
		return "", fmt.Errorf("%s", perr)
	}
	if err != nil {
		return "", err
	}
	return engx.DumpText(rows), nil
}

// scenarioPublishDuringLastMergeDelete: an out-of-order merge is stopped at the removal of the
// last out-of-order file of the measurement (it holds the out-of-order list lock), a flush
// that publishes a new out-of-order file runs up to AddBothTSSPFiles (which has looked the
// list up and waits for its lock), then the merge goes on: it finds the list empty and drops
// the measurement's entry from the out-of-order map. If the flush appends to the list object
// it looked up earlier, the published file is in no list any more.
func scenarioPublishDuringLastMergeDelete(c *hx.Ctx, idx int) error {
	root := engx.ScratchDir("c04d")
	defer os.RemoveAll(root)
	p := newPauser(root)
	fileops.SetVerifObserver(p)
	defer fileops.SetVerifObserver(nil)
	sh, err := engine.VerifOpenShard(root, 1)
	if err != nil {
		return err
	}
	sh.DisableBackground()
	defer func() { hx.Safe(func() { sh.Close() }) }()
	spec := lww{}
	w := func(rows ...engx.Row) error {
		if e := sh.Write(engx.ToInflux(rows)); e != nil {
			return e
		}
		spec.apply(rows)
		return nil
	}
	// ordered file with t=5, then an out-of-order file with t=1
	if err := w(row("m0", 0, 5, 50)); err != nil {
		return err
	}
	sh.FlushIndex()
	sh.Flush()
	if err := w(row("m0", 0, 1, 10)); err != nil {
		return err
	}
	sh.Flush()
	// late row waiting in the memtable: its flush produces a second out-of-order file
	if err := w(row("m0", 0, 2, 20)); err != nil {
		return err
	}
	p.on = true
	p.hold = func(ev *event) bool {
		return ev.actor == actMerge && ev.op == "remove" && strings.Contains(ev.rel, "out-of-order") && strings.HasSuffix(ev.rel, ".tssp")
	}
	p.setGate(actMerge, true)
	mergeDone := make(chan string, 1)
	go func() { mergeDone <- hx.Safe(func() { sh.MergeOutOfOrder(false, true) }) }()
	ev, _, finished, perr, timedOut := waitEvent(p, mergeDone, 20*time.Second, "")
	if timedOut {
		return fmt.Errorf("directed: merge neither paused nor finished")
	}
	if finished {
		c.Count("directed:merge-did-not-reach-ooo-delete")
		_ = perr
		p.on = false
		return nil
	}
	// the merge holds the out-of-order list lock. Run the flush; it cannot finish.
	from := p.logLen()
	flushDone := make(chan string, 1)
	go func() { flushDone <- hx.Safe(func() { sh.Flush() }) }()
	deadline := time.Now().Add(5 * time.Second)
	for time.Now().Before(deadline) {
		if p.sawAfter(from, func(l string) bool {
			return strings.HasPrefix(l, "rename ") && strings.Contains(l, "out-of-order") && strings.HasSuffix(strings.TrimSpace(l), ".tssp")
		}) {
			break
		}
		time.Sleep(2 * time.Millisecond)
	}
	time.Sleep(30 * time.Millisecond) // let the flush goroutine reach the list lock
	close(ev.resume)
	p.mu.Lock()
	p.hold = func(*event) bool { return false }
	p.mu.Unlock()
	for _, ch := range []chan string{mergeDone, flushDone} {
		select {
		case perr := <-ch:
			if perr != "" {
				line := c.Emit("note directed publish-during-merge-delete", "ok")
				c.Violation(line, "panic", "directed schedule publish-during-merge-delete: "+perr)
			}
		case <-time.After(30 * time.Second):
			line := c.Emit("note directed publish-during-merge-delete", "ok")
			c.Violation(line, "deadlock", "directed schedule publish-during-merge-delete: flush or merge did not return within 30 s")
			return nil
		}
	}
	p.on = false
	got, err := dumpAll(sh, "m0", true)
	if err != nil {
		return err
	}
	want := spec.read("m0", true)
	c.Count("directed:publish-during-merge-delete")
	line := c.Emit("note directed publish-during-merge-delete", "ok")
	if got != want {
		c.Violation(line, "published_file_lost_when_merge_empties_list", fmt.Sprintf("a flush published an out-of-order file while a merge was deleting the last out-of-order file of the measurement: read %q, acknowledged %q", got, want))
	}
	_ = idx
	return nil
}

// probeCompaction is a development aid: does a level compaction happen after n in-order flushes?
func probeCompaction(c *hx.Ctx) error {
	root := engx.ScratchDir("c04p")
	defer os.RemoveAll(root)
	sh, err := engine.VerifOpenShard(root, 1)
	if err != nil {
		return err
	}
	sh.DetachFromCompactor()
	for t := 0; t < 10; t++ {
		if e := sh.Write(engx.ToInflux([]engx.Row{row("m0", 0, t, t)})); e != nil {
			return e
		}
		sh.Flush()
	}
	fmt.Fprintln(os.Stderr, "files before:", len(sh.Files("m0")))
	e := sh.LevelCompact(0)
	fmt.Fprintln(os.Stderr, "level compact:", e, "files after:", len(sh.Files("m0")))
	time.Sleep(time.Second)
	fmt.Fprintln(os.Stderr, "a second later:", len(sh.Files("m0")))
	e = sh.FullCompact()
	fmt.Fprintln(os.Stderr, "full compact:", e, "files after:", len(sh.Files("m0")))
	for _, f := range sh.Files("m0") {
		fmt.Fprintln(os.Stderr, "  ", f.Name, f.Level, f.Order)
	}
	return sh.Close()
}
