package c04

import (
	"runtime"
	"strings"
	"sync"
	"time"
)

// actor classes of the goroutines that mutate the shard directory.
const (
	actNone    = ""
	actFlush   = "flush"   // writeSnapshot: data files of the table being flushed, WAL removal
	actCompact = "compact" // level / full compaction: ReplaceFiles
	actMerge   = "merge"   // out-of-order merge: ReplaceFiles + deleteUnorderedFiles
)

// event is one file-system mutation a background actor is about to issue (Before hook) and is
// stopped at.
type event struct {
	actor    string
	op       string
	rel      string // path relative to the shard directory
	rel2     string
	inLock   bool // issued while a per-measurement file-list lock is held (replace / delete)
	n        int  // ordinal among the pause points of this actor run
	resume   chan struct{}
	lockedMs string
	gid      string // goroutine that issued the mutation
}

// goroutineID returns the id of the calling goroutine ("goroutine 123 [running]:" header).
func goroutineID() string {
	var buf [64]byte
	n := runtime.Stack(buf[:], false)
	f := strings.Fields(string(buf[:n]))
	if len(f) >= 2 {
		return f[1]
	}
	return "?"
}

// goroutineAlive reports whether a goroutine with this id still exists.
func goroutineAlive(gid string) bool {
	buf := make([]byte, 1<<20)
	for {
		n := runtime.Stack(buf, true)
		if n < len(buf) {
			buf = buf[:n]
			break
		}
		buf = make([]byte, 2*len(buf))
	}
	return strings.Contains(string(buf), "goroutine "+gid+" [")
}

// pauser is the VFS observer (lib/fileops verif hook). When an actor class is gated, every
// mutation under data/ (and WAL removals) issued by a goroutine of that class stops in the
// Before hook until the driver resumes it.
type pauser struct {
	mu      sync.Mutex
	root    string
	on      bool
	gate    map[string]bool
	hold    func(ev *event) bool // optional filter: pause only at these events
	count   map[string]int
	events  chan *event // wake-up only; the events themselves are in pending
	pending []*event
	// after-hook log (what was done), for step inference and the "work after close" check
	afterLog []string
	closedAt int // index into afterLog when Close returned (-1 = not yet)
	// lock-point mode (lockpoint.go)
	lpMode bool
	lp     *lpGate
}

func newPauser(root string) *pauser {
	return &pauser{root: root, gate: map[string]bool{}, count: map[string]int{}, events: make(chan *event, 64), closedAt: -1}
}

// classify finds out which background actor the calling goroutine is, from its call stack.
func classify() (actor string, inLock bool) {
	var pcs [64]uintptr
	n := runtime.Callers(3, pcs[:])
	frames := runtime.CallersFrames(pcs[:n])
	for {
		fr, more := frames.Next()
		fn := fr.Function
		switch {
		case strings.HasSuffix(fn, ".deleteUnorderedFiles"), strings.HasSuffix(fn, ".deleteUnorderedFiles.func1"):
			inLock = true
			if actor == actNone {
				actor = actMerge
			}
		case strings.HasSuffix(fn, "(*MmsTables).deleteFiles"):
			inLock = true
		case strings.HasSuffix(fn, "(*MmsTables).ReplaceFiles"):
			// the compact-log removal at the end of ReplaceFiles is still under the list lock;
			// log writing and RenameTmpFiles are before it. deleteFiles (above) is inside.
			if actor == actNone {
				actor = actCompact
			}
		case strings.Contains(fn, "(*mergeTool)."), strings.HasSuffix(fn, ".replaceMergedFiles"), strings.Contains(fn, "mergeOutOfOrder"):
			actor = actMerge
		case strings.Contains(fn, "compactToLevel"), strings.Contains(fn, "(*MmsTables).compact"), strings.Contains(fn, "LevelCompact"), strings.Contains(fn, "FullCompact"):
			if actor == actNone || actor == actCompact {
				actor = actCompact
			}
		case strings.Contains(fn, "writeSnapshot"), strings.Contains(fn, "commitSnapshot"), strings.Contains(fn, "FlushChunks"), strings.Contains(fn, "RemoveWalFiles"):
			if actor == actNone {
				actor = actFlush
			}
		}
		if !more {
			break
		}
	}
	return
}

func (p *pauser) relOf(path string) (string, bool) {
	if path == "" {
		return "", true
	}
	if !strings.HasPrefix(path, p.root) {
		return "", false
	}
	return strings.TrimPrefix(strings.TrimPrefix(path, p.root), "/"), true
}

func (p *pauser) Before(op, path, path2 string, n int64) {
	if !p.on {
		return
	}
	if p.lpMode {
		p.lpBefore(op, path)
		return
	}
	if op == "point" {
		return
	}
	rel, ok := p.relOf(path)
	if !ok {
		return
	}
	isData := strings.HasPrefix(rel, "data/")
	isWalRm := strings.HasPrefix(rel, "wal/") && op == "remove"
	if !(isData || isWalRm) || op == "mkdir" {
		return
	}
	actor, inLock := classify()
	if actor == actNone {
		return
	}
	p.mu.Lock()
	gated := p.gate[actor]
	var ev *event
	if gated {
		p.count[actor]++
		rel2, _ := p.relOf(path2)
		ev = &event{actor: actor, op: op, rel: rel, rel2: rel2, n: p.count[actor], resume: make(chan struct{}), gid: goroutineID()}
		// the compact-log removal inside ReplaceFiles is under the list lock as well
		if actor != actFlush && op == "remove" {
			inLock = true
		}
		if op == "rename" && strings.HasSuffix(path2, ".init") {
			inLock = true // an in-use old file is renamed away under the list lock
		}
		ev.inLock = inLock
		if p.hold != nil && !p.hold(ev) {
			ev = nil
		}
		if ev != nil {
			// registered before blocking: the driver sees every goroutine that stands at a gate
			p.pending = append(p.pending, ev)
		}
	}
	p.mu.Unlock()
	if ev != nil {
		select {
		case p.events <- ev:
		default:
		}
		<-ev.resume
	}
}

func (p *pauser) After(op, path, path2 string, n int64, err error) {
	if !p.on || err != nil {
		return
	}
	rel, ok := p.relOf(path)
	if !ok || !(strings.HasPrefix(rel, "data/") || strings.HasPrefix(rel, "wal/")) || op == "sync" {
		return
	}
	rel2, _ := p.relOf(path2)
	p.mu.Lock()
	p.afterLog = append(p.afterLog, op+" "+rel+" "+rel2)
	p.mu.Unlock()
}

func (p *pauser) setGate(actor string, on bool) {
	p.mu.Lock()
	p.gate[actor] = on
	p.count[actor] = 0
	p.mu.Unlock()
}

func (p *pauser) logLen() int {
	p.mu.Lock()
	defer p.mu.Unlock()
	return len(p.afterLog)
}

// sawAfter reports whether a mutation matching the predicate completed since index `from`.
func (p *pauser) sawAfter(from int, pred func(line string) bool) bool {
	p.mu.Lock()
	defer p.mu.Unlock()
	for i := from; i < len(p.afterLog); i++ {
		if pred(p.afterLog[i]) {
			return true
		}
	}
	return false
}

// takePending removes and returns the next goroutine standing at a gate: the one that was
// resumed last if it is there again (an actor runs to its end before another one moves), else
// the oldest. inLock lists the measurements whose list lock some waiting goroutine holds.
func (p *pauser) takePending(prefer string) (ev *event, others []*event) {
	p.mu.Lock()
	defer p.mu.Unlock()
	if len(p.pending) == 0 {
		return nil, nil
	}
	k := 0
	for i, e := range p.pending {
		if e.gid == prefer {
			k = i
			break
		}
	}
	ev = p.pending[k]
	p.pending = append(append([]*event{}, p.pending[:k]...), p.pending[k+1:]...)
	return ev, append([]*event{}, p.pending...)
}

func (p *pauser) hasPending(gid string) bool {
	p.mu.Lock()
	defer p.mu.Unlock()
	for _, e := range p.pending {
		if gid == "" || e.gid == gid {
			return true
		}
	}
	return false
}

// waitEvent waits until the goroutine that was resumed last (cur) stands at a gate again or
// is gone, then returns the next waiting goroutine; or reports that the whole operation has
// finished. Only one goroutine that has passed a gate runs at any time, so between two pause
// points exactly one actor moved.
func waitEvent(p *pauser, done <-chan string, timeout time.Duration, cur string) (ev *event, others []*event, finished bool, perr string, timedOut bool) {
	deadline := time.Now().Add(timeout)
	tick := time.NewTicker(time.Millisecond)
	defer tick.Stop()
	curGone := cur == ""
	stuckSince := time.Now()
	for {
		if !curGone && p.hasPending(cur) {
			curGone = true
		}
		if curGone && p.hasPending("") {
			ev, others = p.takePending(cur)
			return ev, others, false, "", false
		}
		select {
		case perr = <-done:
			return nil, nil, true, perr, false
		case <-p.events:
		case <-tick.C:
			if !curGone && !goroutineAlive(cur) {
				curGone = true
			}
			if !curGone && time.Since(stuckSince) > 5*time.Second {
				// the resumed goroutine neither moves nor ends (it waits for one that stands at a
				// gate): let the others go on
				curGone = true
			}
			if time.Now().After(deadline) {
				return nil, nil, false, "", true
			}
		}
	}
}
