package c04

import (
	"fmt"
	"math"
	"os"
	"sort"
	"strconv"
	"strings"
	"sync"
	"sync/atomic"
	"time"

	"github.com/openGemini/openGemini/engine"

	"verif/harness/engx"
	"verif/harness/internal/hx"
)

// Free-running rounds (exploration, not part of the tie): W writers, R readers, a flusher and a
// maintenance goroutine (level / full compaction, out-of-order merge) run as real goroutines on one shard, with nothing stopped anywhere;
// half of the rounds end with Close while the readers are still reading. What is compared is
// never one expected interleaving: every answer of a reader is checked against the set of
// answers the acknowledgement history allows.
//
// Each writer owns its series and stamps every batch with its own increasing sequence number
// (fi = n, fs = "s<n>"), so for every key the values are written in increasing order. With a
// process-wide logical clock, a read that was invoked at i and returned at r must show, for
// every key, a value that is
//   - not older than the last write of that key acknowledged before i   (nothing acknowledged is missing / stale),
//   - not newer than the last write of that key invoked before r        (nothing from the future),
//   - whole: fs belongs to the same write as fi                         (no torn row),
// each (series, time) at most once and in time order, and - per reader - never older than
// what the same reader saw before (monotone reads). The same binary built with -race runs these
// rounds in the thorough tier; a race report is a violation (class data_race).

type stWrite struct {
	seq      int
	inv, ack int64 // logical clock; ack = 0 while in flight, -1 when rejected
}

type stKey struct {
	s, t int
}

type stressRun struct {
	c       *hx.Ctx
	idx     int
	sh      *engine.VerifShard
	clock   int64
	mu      sync.Mutex
	writes  map[stKey][]*stWrite
	closing int32
	viols   int32
	flushes int32
	dropped int32 // 1 once DropMeasurement of the second measurement was started
	line    int
}

func (s *stressRun) tick() int64 { return atomic.AddInt64(&s.clock, 1) }

func (s *stressRun) viol(class, desc string) {
	if atomic.AddInt32(&s.viols, 1) > 5 {
		return
	}
	s.c.Violation(s.line, class, fmt.Sprintf("free-running round %d: %s", s.idx, desc))
}

func (s *stressRun) writer(w, nOps int, seed uint64, stop *int32, wg *sync.WaitGroup) {
	defer wg.Done()
	r := hx.NewRng(seed)
	series := []int{w, detSeriesPerMst + w}
	hi := 3
	for n := 1; n <= nOps && atomic.LoadInt32(stop) == 0; n++ {
		var rows []engx.Row
		var keys []stKey
		nr := 1 + r.Intn(3)
		for i := 0; i < nr; i++ {
			sr := series[r.Intn(len(series))]
			t := hi
			switch {
			case r.Chance(25) && hi > 4:
				t = 3 + r.Intn(hi-3) // an older time: overwrite, or an out-of-order row
			case r.Chance(60):
				hi++
				t = hi
			}
			dup := false
			for _, k := range keys {
				if k == (stKey{sr, t}) {
					dup = true
				}
			}
			if dup {
				continue
			}
			keys = append(keys, stKey{sr, t})
			rows = append(rows, engx.Row{Mst: mstOfSeries(sr), Series: sr, T: t, Fields: map[string]string{"fi": fmt.Sprint(n), "fs": "s" + fmt.Sprint(n)}})
		}
		recs := make([]*stWrite, len(keys))
		s.mu.Lock()
		inv := s.tick()
		for i, k := range keys {
			recs[i] = &stWrite{seq: n, inv: inv}
			s.writes[k] = append(s.writes[k], recs[i])
		}
		s.mu.Unlock()
		var err error
		perr := safeStack(func() { err = s.sh.Write(engx.ToInflux(rows)) })
		s.mu.Lock()
		ack := s.tick()
		if perr != "" || err != nil {
			ack = -1
		}
		for _, rc := range recs {
			rc.ack = ack
		}
		s.mu.Unlock()
		if perr != "" {
			s.viol("panic", "write: "+panicSummary(perr))
			return
		}
		if err != nil {
			if atomic.LoadInt32(&s.closing) == 0 {
				s.viol("write_rejected", "a valid write batch was rejected: "+err.Error())
			}
			return
		}
		if r.Chance(50) {
			time.Sleep(time.Duration(r.Intn(400)) * time.Microsecond)
		}
	}
}

type stBound struct{ lo, hi int } // allowed sequence numbers of a key (lo = 0: may be absent)

func (s *stressRun) reader(id int, seed uint64, stop *int32, wg *sync.WaitGroup, reads *int64) {
	defer wg.Done()
	r := hx.NewRng(seed)
	lastSeen := map[stKey]int{}
	for atomic.LoadInt32(stop) == 0 {
		ms := detMsts[r.Intn(len(detMsts))]
		asc := r.Bool()
		inv := s.tick()
		var rows []engine.VerifRow
		var err error
		perr := safeStack(func() { rows, err = s.sh.Dump(ms, engx.AllFields(), math.MinInt64, math.MaxInt64, asc) })
		ret := s.tick()
		if perr != "" {
			s.viol("panic", "query: "+panicSummary(perr))
			return
		}
		droppedMs := ms == detMsts[1] && atomic.LoadInt32(&s.dropped) != 0
		if err != nil {
			if atomic.LoadInt32(&s.closing) != 0 && strings.Contains(err.Error(), "closed") {
				s.c.Count("stress:read-after-close-began:error")
				return
			}
			if droppedMs {
				s.c.Count("stress:read-of-measurement-being-dropped:error")
				continue
			}
			s.viol("read_error", fmt.Sprintf("reader %d: %v", id, err))
			return
		}
		if droppedMs {
			// what a measurement that is being dropped shows is not defined; no crash is all that is asked
			s.c.Count("stress:read-of-measurement-being-dropped")
			for k := range lastSeen {
				if mstOfSeries(k.s) == ms {
					delete(lastSeen, k)
				}
			}
			continue
		}
		atomic.AddInt64(reads, 1)
		closing := atomic.LoadInt32(&s.closing) != 0
		// the bounds the acknowledgement history gives
		bounds := map[stKey]stBound{}
		s.mu.Lock()
		for k, ws := range s.writes {
			if mstOfSeries(k.s) != ms {
				continue
			}
			b := stBound{}
			for _, w := range ws {
				if w.ack > 0 && w.ack < inv && w.seq > b.lo {
					b.lo = w.seq
				}
				if w.inv < ret && w.ack != -1 && w.seq > b.hi {
					b.hi = w.seq
				}
			}
			bounds[k] = b
		}
		s.mu.Unlock()
		text := engx.DumpText(rows)
		if strings.HasSuffix(text, "!split") {
			s.viol("torn_read", fmt.Sprintf("reader %d: a series came back in two runs: %s", id, text))
		}
		seen := map[stKey]bool{}
		prevS, prevT := -1, 0
		for _, cell := range strings.Split(strings.TrimSuffix(strings.TrimPrefix(text, "rows "), " !split"), "|") {
			if cell == "" {
				continue
			}
			f := strings.SplitN(cell, ":", 3)
			if len(f) != 3 {
				continue
			}
			sr, _ := strconv.Atoi(f[0])
			t, _ := strconv.Atoi(f[1])
			vals := strings.Split(f[2], ",") // fb, ff, fi, fs
			k := stKey{sr, t}
			if seen[k] {
				s.viol("duplicate_row", fmt.Sprintf("reader %d: (series %d, time %d) returned twice: %s", id, sr, t, text))
			}
			seen[k] = true
			if sr == prevS && (asc && t <= prevT || !asc && t >= prevT) {
				s.viol("torn_read", fmt.Sprintf("reader %d: rows of series %d out of time order: %s", id, sr, text))
			}
			prevS, prevT = sr, t
			if t == 2 && len(vals) == 4 && vals[3] == "_" {
				continue // the set-up row
			}
			if len(vals) != 4 || "s"+vals[2] != vals[3] {
				s.viol("torn_row", fmt.Sprintf("reader %d: (series %d, time %d) reads fi=%s fs=%s: not the fields of one write", id, sr, t, vals[2], vals[3]))
				continue
			}
			n, _ := strconv.Atoi(vals[2])
			b, known := bounds[k]
			switch {
			case !known || b.hi == 0:
				s.viol("torn_read", fmt.Sprintf("reader %d: (series %d, time %d)=%d was never written before the read returned", id, sr, t, n))
			case n < b.lo:
				s.viol("stale_read", fmt.Sprintf("reader %d: (series %d, time %d) reads write %d; write %d of the key was acknowledged before the read began", id, sr, t, n, b.lo))
			case n > b.hi:
				s.viol("torn_read", fmt.Sprintf("reader %d: (series %d, time %d) reads write %d; the newest write of the key invoked before the read returned is %d", id, sr, t, n, b.hi))
			}
			if old := lastSeen[k]; n < old {
				s.viol("non_monotone_read", fmt.Sprintf("reader %d: (series %d, time %d) read %d earlier and %d now", id, sr, t, old, n))
			}
			lastSeen[k] = n
		}
		if !closing {
			for k, b := range bounds {
				if b.lo > 0 && !seen[k] {
					s.viol("lost_row", fmt.Sprintf("reader %d: (series %d, time %d) is missing; write %d of it was acknowledged before the read began (%s %s)", id, k.s, k.t, b.lo, ms, dirName(asc)))
				}
			}
			for k, old := range lastSeen {
				if mstOfSeries(k.s) == ms && old > 0 && !seen[k] {
					s.viol("non_monotone_read", fmt.Sprintf("reader %d: (series %d, time %d) was read before and is gone now", id, k.s, k.t))
				}
			}
		}
	}
}

func (s *stressRun) background(name string, stop *int32, wg *sync.WaitGroup, f func(r *hx.Rng), seed uint64) {
	defer wg.Done()
	r := hx.NewRng(seed)
	for atomic.LoadInt32(stop) == 0 {
		if perr := safeStack(func() { f(r) }); perr != "" {
			s.viol("panic", name+": "+panicSummary(perr))
			return
		}
		s.c.Count("stress:" + name)
		if name == "flush" {
			atomic.AddInt32(&s.flushes, 1)
		}
		time.Sleep(time.Duration(200+r.Intn(1500)) * time.Microsecond)
	}
}

func runStressRound(c *hx.Ctx, r *hx.Rng, idx int) error {
	root := engx.ScratchDir("c04s")
	defer os.RemoveAll(root)
	sh, err := engine.VerifOpenShard(root, 1)
	if err != nil {
		return err
	}
	sh.DetachFromCompactor()
	s := &stressRun{c: c, idx: idx, sh: sh, writes: map[stKey][]*stWrite{}}
	s.line = c.Emit(fmt.Sprintf("note free-running round %d", idx), "ok")
	var first []engx.Row
	for sr := 0; sr < detSeriesPerMst*len(detMsts); sr++ {
		first = append(first, engx.Row{Mst: mstOfSeries(sr), Series: sr, T: 2, Fields: map[string]string{"fi": "0"}})
	}
	if err := sh.Write(engx.ToInflux(first)); err != nil {
		return err
	}
	sh.FlushIndex()
	nOps := 5000
	wantFlushes := int32(5 + r.Intn(6))
	var wwg, rwg, bwg sync.WaitGroup
	var stopReaders, stopBg, stopWriters int32
	var reads int64
	for w := 0; w < detSeriesPerMst; w++ {
		wwg.Add(1)
		go s.writer(w, nOps, r.U64(), &stopWriters, &wwg)
	}
	for i := 0; i < 2; i++ {
		rwg.Add(1)
		go s.reader(i, r.U64(), &stopReaders, &rwg, &reads)
	}
	// (compaction and merge alternate in one goroutine: the facade waits for each with
	// MmsTables.Wait, which the engine itself never calls while another job is being started)
	bwg.Add(2)
	go s.background("flush", &stopBg, &bwg, func(*hx.Rng) { sh.Flush() }, r.U64())
	go s.background("maintain", &stopBg, &bwg, func(rr *hx.Rng) {
		switch x := rr.Intn(100); {
		case x < 20:
			_ = sh.FullCompact()
			s.c.Count("stress:full-compact")
		case x < 55:
			_ = sh.LevelCompact(uint16(rr.Intn(2)))
			s.c.Count("stress:level-compact")
		default:
			_ = sh.MergeOutOfOrder(rr.Bool(), true)
			s.c.Count("stress:merge")
		}
	}, r.U64())

	waitOr := func(wg *sync.WaitGroup, what string) bool {
		done := make(chan struct{})
		go func() { wg.Wait(); close(done) }()
		select {
		case <-done:
			return true
		case <-time.After(120 * time.Second):
			s.viol("deadlock", what+" did not finish within 120 s")
			return false
		}
	}
	closeWithReaders := r.Bool()
	// in a third of the rounds the second measurement is dropped while everything is running
	dropDone := make(chan struct{})
	if r.Chance(33) {
		wantDropAt := wantFlushes / 2
		go func() {
			defer close(dropDone)
			for atomic.LoadInt32(&s.flushes) < wantDropAt && atomic.LoadInt32(&stopWriters) == 0 {
				time.Sleep(time.Millisecond)
			}
			atomic.StoreInt32(&s.dropped, 1)
			var err error
			if perr := safeStack(func() { err = sh.DropMeasurement(detMsts[1]) }); perr != "" {
				s.viol("panic", "DropMeasurement: "+panicSummary(perr))
			}
			if err != nil {
				s.c.Count("stress:drop-returned-error")
			}
			s.c.Count("stress:drop-in-flight")
		}()
	} else {
		close(dropDone)
	}
	// the writers go on until the flusher has been through enough flushes
	for t0 := time.Now(); atomic.LoadInt32(&s.flushes) < wantFlushes && time.Since(t0) < 60*time.Second; {
		done := make(chan struct{})
		go func() { wwg.Wait(); close(done) }()
		select {
		case <-done:
			t0 = time.Time{}
		case <-time.After(2 * time.Millisecond):
		}
	}
	atomic.StoreInt32(&stopWriters, 1)
	ok := waitOr(&wwg, "the writers")
	<-dropDone
	atomic.StoreInt32(&stopBg, 1)
	ok = ok && waitOr(&bwg, "flusher / compactor / merger")
	if !closeWithReaders {
		atomic.StoreInt32(&stopReaders, 1)
		ok = ok && waitOr(&rwg, "the readers")
	}
	if ok {
		// what the shard holds now, read with nothing else running (unless the readers still are)
		for _, ms := range detMsts {
			if ms == detMsts[1] && atomic.LoadInt32(&s.dropped) != 0 {
				continue
			}
			rows, err := sh.Dump(ms, engx.AllFields(), math.MinInt64, math.MaxInt64, true)
			if err != nil {
				s.viol("read_error", "final read: "+err.Error())
				continue
			}
			got := rowsByKey(engx.DumpText(rows))
			s.mu.Lock()
			for k, ws := range s.writes {
				if mstOfSeries(k.s) != ms {
					continue
				}
				last := 0
				for _, w := range ws {
					if w.ack > 0 && w.seq > last {
						last = w.seq
					}
				}
				want := fmt.Sprintf("_,_,%d,s%d", last, last)
				if last > 0 && got[fmt.Sprintf("%d:%d", k.s, k.t)] != want {
					s.viol("lost_row", fmt.Sprintf("final read of %s: (series %d, time %d) reads %q, last acknowledged write gives %q", ms, k.s, k.t, got[fmt.Sprintf("%d:%d", k.s, k.t)], want))
				}
			}
			s.mu.Unlock()
		}
	}
	atomic.StoreInt32(&s.closing, 1)
	closed := make(chan string, 1)
	go func() { closed <- safeStack(func() { _ = sh.CloseShardFirst() }) }()
	select {
	case perr := <-closed:
		if perr != "" {
			s.viol("panic", "Close: "+panicSummary(perr))
		}
	case <-time.After(120 * time.Second):
		s.viol("deadlock", "Close did not return within 120 s")
	}
	atomic.StoreInt32(&stopReaders, 1)
	waitOr(&rwg, "the readers (after Close)")
	if closeWithReaders {
		c.Count("stress:close-with-readers-running")
	}
	nw := 0
	for _, ws := range s.writes {
		nw += len(ws)
	}
	c.Stats.Hist["stress:reads"] += int(reads)
	c.Stats.Hist["stress:key-writes"] += nw
	c.Case(fmt.Sprintf("stress:%d", idx), reads > 0 && nw > 0)
	if idx == 0 {
		ks := make([]string, 0)
		for k, ws := range s.writes {
			ks = append(ks, fmt.Sprintf("(%d,%d)x%d", k.s, k.t, len(ws)))
		}
		sort.Strings(ks)
		if len(ks) > 12 {
			ks = ks[:12]
		}
		c.Stats.Notes = append(c.Stats.Notes, fmt.Sprintf("free-running round 0: %d reads checked, %d key writes by 3 writers during %d flushes, keys and number of writes: %s …", reads, nw, atomic.LoadInt32(&s.flushes), strings.Join(ks, " ")))
	}
	return nil
}
