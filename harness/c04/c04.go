// Package c04: harness for C04 (concurrent writes, flushes, compactions and queries show no
// torn data).
//
// Part 1 (tie, deterministic): random histories on a real shard. Every flush, compaction and
// out-of-order merge runs in its own goroutine and is stopped, through the VFS observer's
// Before hook, at every file-system mutation it issues; while it is stopped the main goroutine
// observes the protocol state (is a table being flushed, which measurements are published,
// the file lists), writes, and opens / reads / releases queries. Every query reports its
// composition (memtables and files it holds) and its rows; both must equal what the Lean
// model's takeView + readView yield at that point (impl-vs-model) and the rows must equal the
// last-write-wins map of the acknowledged writes (impl-vs-spec).
// Part 2 (directed): schedules for windows found by reading the code.
// Part 3 (exploration): a second binary built with -race runs N writers, M readers, forced
// flushes, compaction / merge triggers and a final Close; the history of invocations and
// responses is checked against the property; a race report is a violation (class data_race).
package c04

import (
	"fmt"
	"sort"
	"strings"

	"verif/harness/engx"
	"verif/harness/internal/hx"
)

func init() { hx.Register("C04", Run) }

type key struct {
	ms   string
	s, t int
}

// lww is the specification: the last-write-wins map of the acknowledged rows.
type lww map[key]map[string]string

func (m lww) apply(rows []engx.Row) {
	for _, r := range rows {
		k := key{r.Mst, r.Series, r.T}
		if m[k] == nil {
			m[k] = map[string]string{}
		}
		for f, v := range r.Fields {
			m[k][f] = v
		}
	}
}

// read renders the expected full read of one measurement in the canonical row format.
func (m lww) read(ms string, asc bool) string {
	var ks []key
	for k := range m {
		if k.ms == ms {
			ks = append(ks, k)
		}
	}
	sort.Slice(ks, func(a, b int) bool {
		if ks[a].s != ks[b].s {
			return ks[a].s < ks[b].s
		}
		if asc {
			return ks[a].t < ks[b].t
		}
		return ks[a].t > ks[b].t
	})
	var cells []string
	for _, k := range ks {
		var vs []string
		for _, f := range engx.FieldNames {
			if v, ok := m[k][f]; ok {
				vs = append(vs, v)
			} else {
				vs = append(vs, "_")
			}
		}
		cells = append(cells, fmt.Sprintf("%d:%d:%s", k.s, k.t, strings.Join(vs, ",")))
	}
	return "rows " + strings.Join(cells, "|")
}

func Run(c *hx.Ctx) error {
	switch c.Arg("mode", "all") {
	case "probecompact":
		return probeCompaction(c)
	case "directed":
		n := c.Budget(5, 20)
		for i := 0; i < n; i++ {
			if err := scenarioPublishDuringLastMergeDelete(c, i); err != nil {
				return err
			}
		}
		return nil
	}
	c.Stats.Rule = "a history counts as non-trivial when at least one query ran while a flush was stopped between switch and dropSnapshot, and in addition a write was acknowledged while a flush was stopped or a query ran while a compaction / out-of-order merge was stopped at one of its file-system mutations"
	r := hx.NewRng(c.Seed)
	n := c.Budget(30, 400)
	for i := 0; i < n; i++ {
		if err := runDetHistory(c, r.Fork(), i); err != nil {
			return err
		}
	}
	return nil
}
