// Package c04: harness for C04 (concurrent writes, flushes, compactions and queries show no
// torn data).
//
// Part 1 (tie, deterministic): random histories on a real shard. Every flush, compaction and
// out-of-order merge runs in its own goroutine and is stopped, through the VFS observer's
// Before hook, at every file-system mutation it issues; while it is stopped the main goroutine
// observes the protocol state (is a table being flushed, which measurements are published,
// the file lists), writes, and opens / reads / releases queries. Every query reports its
// composition (memtables and files it holds) and its rows; both must equal what the Lean
// model's takeView + readView yield at that point (impl-vs-model) and the rows must equal the
// last-write-wins map of the acknowledged writes (impl-vs-spec).
// Part 2 (directed): schedules for windows found by reading the code.
// Part 3 (exploration): a second binary built with -race runs N writers, M readers, forced
// flushes, compaction / merge triggers and a final Close; the history of invocations and
// responses is checked against the property; a race report is a violation (class data_race).
package c04

import (
	"bufio"
	"encoding/json"
	"fmt"
	"os"
	"os/exec"
	"path/filepath"
	"sort"
	"strconv"
	"strings"
	"syscall"
	"time"

	"verif/harness/engx"
	"verif/harness/internal/hx"
)

func init() { hx.Register("C04", Run) }

type key struct {
	ms   string
	s, t int
}

// lww is the specification: the last-write-wins map of the acknowledged rows.
type lww map[key]map[string]string

func (m lww) apply(rows []engx.Row) {
	for _, r := range rows {
		k := key{r.Mst, r.Series, r.T}
		if m[k] == nil {
			m[k] = map[string]string{}
		}
		for f, v := range r.Fields {
			m[k][f] = v
		}
	}
}

// read renders the expected full read of one measurement in the canonical row format.
func (m lww) read(ms string, asc bool) string {
	var ks []key
	for k := range m {
		if k.ms == ms {
			ks = append(ks, k)
		}
	}
	sort.Slice(ks, func(a, b int) bool {
		if ks[a].s != ks[b].s {
			return ks[a].s < ks[b].s
		}
		if asc {
			return ks[a].t < ks[b].t
		}
		return ks[a].t > ks[b].t
	})
	var cells []string
	for _, k := range ks {
		var vs []string
		for _, f := range engx.FieldNames {
			if v, ok := m[k][f]; ok {
				vs = append(vs, v)
			} else {
				vs = append(vs, "_")
			}
		}
		cells = append(cells, fmt.Sprintf("%d:%d:%s", k.s, k.t, strings.Join(vs, ",")))
	}
	return "rows " + strings.Join(cells, "|")
}

func Run(c *hx.Ctx) error {
	switch c.Arg("mode", "all") {
	case "probecompact":
		return probeCompaction(c)
	case "instrument": // development aid: write the instrumented copies and the overlay
		ov, sites, err := buildLockPointOverlay(repoRoot(), c.Arg("dir", "/var/tmp/c04-lp"))
		fmt.Fprintln(os.Stderr, "overlay:", ov, "sites:", len(sites), err)
		return err
	case "lp": // lock-point schedules; only the binary built from the instrumented copies gets here
		r := hx.NewRng(c.Seed ^ 0x4c50)
		n := c.Budget(60, 1500)
		only := c.Arg("only", "")
		for i := 0; i < n; i++ {
			rr := r.Fork()
			if only != "" && only != fmt.Sprint(i) {
				continue
			}
			if i < 6 || i%25 == 24 {
				// the sequencer's id-time loader against a merge / a full compaction
				b := []string{"M", "C"}[i%2]
				// (the third site is the second, nested read lock LoadIdTimes took through IsOrder before the
				// fix: a reader standing there with a Rename waiting for the write lock never gets it)
				site := []string{"tsspFile.LoadIdTimes:|before RLock f.mu", "idTimesLoader.loadFromTSSPFiles:|after deferred RUnlock files.lock",
					"tsspFile.IsOrder:|before RLock f.mu"}[(i/2)%3]
				if err := runLPReloadHistory(c, rr, i, b, site); err != nil {
					return err
				}
				continue
			}
			if err := runLPHistory(c, rr, i); err != nil {
				return err
			}
		}
		return nil
	case "stress": // free-running rounds only (also what the -race binary runs)
		r := hx.NewRng(c.Seed ^ 0x5354)
		n := c.Budget(3, 30)
		for i := 0; i < n; i++ {
			if err := runStressRound(c, r.Fork(), i); err != nil {
				return err
			}
		}
		return nil
	case "directed":
		n := c.Budget(5, 20)
		for i := 0; i < n; i++ {
			if err := scenarioPublishDuringLastMergeDelete(c, i); err != nil {
				return err
			}
		}
		return nil
	}
	c.Stats.Rule = "a history counts as non-trivial when at least one query ran while a flush was stopped between switch and dropSnapshot, and in addition a write was acknowledged while a flush was stopped or a query ran while a compaction / out-of-order merge was stopped at one of its file-system mutations; a lock-point history (second part) counts when its first operation was actually frozen at a schedule point while the second one ran"
	r := hx.NewRng(c.Seed)
	n := c.Budget(30, 400)
	for i := 0; i < n; i++ {
		if err := runDetHistory(c, r.Fork(), i); err != nil {
			return err
		}
	}
	if c.Arg("lp", "on") != "off" {
		if err := runLockPointPart(c, 4*n); err != nil {
			return err
		}
	}
	// free-running rounds (exploration)
	rounds := 3
	if c.Tier == "thorough" {
		rounds = 12
	}
	rs := hx.NewRng(c.Seed ^ 0x5354)
	for i := 0; i < rounds; i++ {
		if err := runStressRound(c, rs.Fork(), i); err != nil {
			return err
		}
	}
	if c.Tier == "thorough" && c.Arg("race", "on") != "off" {
		return runRacePart(c, 12)
	}
	return nil
}

func harnessDir() string {
	if r := os.Getenv("VERIF_ROOT"); r != "" {
		return filepath.Join(r, "harness")
	}
	return "/verif/harness"
}

// runLockPointPart builds the second binary (this harness over the instrumented copies of the
// anchored files, see instrument.go), runs the lock-point schedules in it and takes its op
// lines, answers, violations and counts over into this run.
func runLockPointPart(c *hx.Ctx, n int) error {
	base := os.Getenv("VERIF_SCRATCH")
	if base == "" {
		base = "/var/tmp/verif-scratch"
	}
	dir := filepath.Join(base, fmt.Sprintf("c04-lp-%d", os.Getpid()))
	defer os.RemoveAll(dir)
	t0 := time.Now()
	ov, sites, err := buildLockPointOverlay(repoRoot(), filepath.Join(dir, "src"))
	if err != nil {
		return fmt.Errorf("lock-point instrumentation: %v", err)
	}
	var flags []string
	for _, f := range strings.Fields(os.Getenv("GOFLAGS")) {
		if !strings.HasPrefix(f, "-overlay=") {
			flags = append(flags, f)
		}
	}
	bin := filepath.Join(dir, "ogh-lp")
	build := exec.Command("go", "build", "-overlay", ov, "-tags", "verif c04", "-o", bin, "./cmd/ogh")
	build.Dir = harnessDir()
	build.Env = append(os.Environ(), "GOFLAGS="+strings.Join(flags, " "))
	if out, err := build.CombinedOutput(); err != nil {
		return fmt.Errorf("lock-point binary does not build: %v\n%s", err, out)
	}
	c.Stats.Hist["lp:instrumented-sites"] = len(sites)
	buildS := time.Since(t0).Seconds()
	out := filepath.Join(dir, "out")
	run := exec.Command(bin, "C04", "-D", "mode=lp", "-seed", fmt.Sprint(c.Seed), "-tier", c.Tier, "-n", fmt.Sprint(n), "-out", out)
	run.Env = append(os.Environ(), "VERIF_SCRATCH="+filepath.Join(dir, "scratch"))
	logf, _ := os.Create(filepath.Join(dir, "log.txt"))
	run.Stdout, run.Stderr = logf, logf
	err = run.Start()
	if err == nil {
		// (a history that does not end is reported by the child itself after 240 s; this is the
		// last resort)
		waitCh := make(chan error, 1)
		go func() { waitCh <- run.Wait() }()
		limit := 12 * time.Minute
		if c.Tier == "thorough" {
			limit = 40 * time.Minute
		}
		select {
		case err = <-waitCh:
		case <-time.After(limit):
			_ = run.Process.Signal(syscall.SIGQUIT)
			time.Sleep(2 * time.Second)
			_ = run.Process.Kill()
			err = fmt.Errorf("lock-point run did not end within %s", limit)
		}
	}
	logf.Close()
	if err != nil {
		tail, _ := os.ReadFile(filepath.Join(dir, "log.txt"))
		if len(tail) > 3000 {
			tail = tail[len(tail)-3000:]
		}
		return fmt.Errorf("lock-point run failed: %v\n%s", err, tail)
	}
	// ---- take the child's results over
	readLines := func(name string) ([]string, error) {
		f, err := os.Open(filepath.Join(out, name))
		if err != nil {
			return nil, err
		}
		defer f.Close()
		var ls []string
		sc := bufio.NewScanner(f)
		sc.Buffer(make([]byte, 1<<20), 1<<28)
		for sc.Scan() {
			ls = append(ls, sc.Text())
		}
		return ls, sc.Err()
	}
	ops, err := readLines("ops.txt")
	if err != nil {
		return err
	}
	impl, err := readLines("impl.out")
	if err != nil {
		return err
	}
	if len(ops) != len(impl) {
		return fmt.Errorf("lock-point run: %d op lines, %d answers", len(ops), len(impl))
	}
	offset := 0
	for i := range ops {
		ln := c.Emit(ops[i], impl[i])
		if i == 0 {
			offset = ln - 1
		}
	}
	viols, _ := readLines("viol.out")
	for _, v := range viols {
		parts := strings.SplitN(v, "\t", 3)
		if len(parts) != 3 {
			continue
		}
		ln, _ := strconv.Atoi(parts[0])
		c.Violation(offset+ln, parts[1], parts[2])
	}
	var st hx.Stats
	if b, err := os.ReadFile(filepath.Join(out, "stats.json")); err == nil {
		_ = json.Unmarshal(b, &st)
	}
	for k, v := range st.Hist {
		c.Stats.Hist[k] += v
	}
	c.Stats.Evaluations += st.Evaluations
	c.Stats.DistinctNontrivial += st.DistinctNontrivial
	for i, s := range st.Samples {
		if i < 2 {
			c.Stats.Samples = append(c.Stats.Samples, s)
		}
	}
	c.Stats.Notes = append(c.Stats.Notes, fmt.Sprintf("lock-point part: %d sites instrumented, binary built in %.0f s, %d histories", len(sites), buildS, st.Evaluations))
	return nil
}

func repoRoot() string {
	if r := os.Getenv("VERIF_REPO"); r != "" {
		return r
	}
	return "/repo"
}

// runRacePart builds this harness with the race detector and runs the free-running rounds in
// it. Every report of the detector is a violation (class data_race).
func runRacePart(c *hx.Ctx, rounds int) error {
	base := os.Getenv("VERIF_SCRATCH")
	if base == "" {
		base = "/var/tmp/verif-scratch"
	}
	dir := filepath.Join(base, fmt.Sprintf("c04-race-%d", os.Getpid()))
	defer os.RemoveAll(dir)
	if err := os.MkdirAll(dir, 0o755); err != nil {
		return err
	}
	t0 := time.Now()
	bin := filepath.Join(dir, "ogh-race")
	build := exec.Command("go", "build", "-race", "-tags", "verif c04", "-o", bin, "./cmd/ogh")
	build.Dir = harnessDir()
	build.Env = os.Environ() // GOFLAGS carries the active overlay, if any
	if out, err := build.CombinedOutput(); err != nil {
		return fmt.Errorf("race binary does not build: %v\n%s", err, out)
	}
	buildS := time.Since(t0).Seconds()
	out := filepath.Join(dir, "out")
	run := exec.Command(bin, "C04", "-D", "mode=stress", "-seed", fmt.Sprint(c.Seed+7), "-tier", c.Tier, "-n", fmt.Sprint(rounds), "-out", out)
	run.Env = append(os.Environ(), "VERIF_SCRATCH="+filepath.Join(dir, "scratch"), "GORACE=log_path="+filepath.Join(dir, "race")+" halt_on_error=0 exitcode=0 history_size=3")
	logf, _ := os.Create(filepath.Join(dir, "log.txt"))
	run.Stdout, run.Stderr = logf, logf
	err := run.Run()
	logf.Close()
	if err != nil {
		tail, _ := os.ReadFile(filepath.Join(dir, "log.txt"))
		if len(tail) > 3000 {
			tail = tail[len(tail)-3000:]
		}
		return fmt.Errorf("race run failed: %v\n%s", err, tail)
	}
	line := c.Emit(fmt.Sprintf("note free-running rounds under the race detector (%d rounds)", rounds), "ok")
	// the child's own violations
	if b, err := os.ReadFile(filepath.Join(out, "viol.out")); err == nil {
		for _, v := range strings.Split(string(b), "\n") {
			parts := strings.SplitN(v, "\t", 3)
			if len(parts) == 3 {
				c.Violation(line, parts[1], "under -race: "+parts[2])
			}
		}
	}
	var st hx.Stats
	if b, err := os.ReadFile(filepath.Join(out, "stats.json")); err == nil {
		_ = json.Unmarshal(b, &st)
	}
	for k, v := range st.Hist {
		c.Stats.Hist["race:"+k] += v
	}
	// the detector's reports
	logs, _ := filepath.Glob(filepath.Join(dir, "race.*"))
	seen := map[string]bool{}
	nReports := 0
	for _, lf := range logs {
		b, err := os.ReadFile(lf)
		if err != nil {
			continue
		}
		for _, blk := range strings.Split(string(b), "==================") {
			if !strings.Contains(blk, "WARNING: DATA RACE") {
				continue
			}
			nReports++
			sum := raceSummary(blk)
			if seen[sum] {
				continue
			}
			seen[sum] = true
			c.Violation(line, "data_race", "race detector: "+sum)
		}
	}
	c.Stats.Hist["race:reports"] += nReports
	c.Stats.Notes = append(c.Stats.Notes, fmt.Sprintf("race part: binary built in %.0f s, %d rounds, %d reads checked, %d race reports (%d distinct)", buildS, rounds, st.Hist["stress:reads"], nReports, len(seen)))
	return nil
}

// raceSummary: the two accesses of a report, each by its innermost frames inside /repo.
func raceSummary(blk string) string {
	var parts []string
	cur := ""
	var frames []string
	flush := func() {
		if cur != "" {
			parts = append(parts, cur+" "+strings.Join(frames, " < "))
		}
		cur, frames = "", nil
	}
	for _, ln := range strings.Split(blk, "\n") {
		t := strings.TrimSpace(ln)
		switch {
		case strings.HasPrefix(t, "Write at"), strings.HasPrefix(t, "Read at"), strings.HasPrefix(t, "Previous write at"), strings.HasPrefix(t, "Previous read at"),
			strings.HasPrefix(t, "Atomic"), strings.HasPrefix(t, "Previous atomic"):
			flush()
			cur = strings.Join(strings.Fields(t)[:2], " ")
			if strings.HasPrefix(t, "Previous") {
				cur = strings.Join(strings.Fields(t)[:3], " ")
			}
			cur = strings.TrimSuffix(cur, " at")
		case strings.HasPrefix(t, "Goroutine"):
			flush()
		case cur != "" && strings.HasPrefix(t, "github.com/openGemini/openGemini/") && len(frames) < 3:
			f := strings.TrimPrefix(t, "github.com/openGemini/openGemini/")
			if i := strings.LastIndexByte(f, '('); i > 0 {
				f = f[:i]
			}
			frames = append(frames, f)
		}
	}
	flush()
	return strings.Join(parts, " || ")
}
