package c04

import (
	"encoding/json"
	"fmt"
	"go/ast"
	"go/parser"
	"go/printer"
	"go/token"
	"os"
	"path/filepath"
	"sort"
	"strings"
)

// Lock-point instrumentation (part 2 of the tie).
//
// The protocol model's atomic steps are the critical sections of the code. To stop a real
// goroutine exactly at the boundaries of those sections - and so to run the schedules the
// model quantifies over, not only the ones that happen to be separated by a file-system
// mutation - the harness builds a second binary of itself from a mechanically instrumented
// copy of the anchored source files: a call of fileops.VerifPoint(site) is put
//
//   * before every  x.Lock() / x.RLock()  statement          ("<file>:<func>:<line> before Lock x"),
//   * after every   x.Unlock() / x.RUnlock() statement       ("… after Unlock x"),
//   * inside every  defer x.Unlock() / defer x.RUnlock()     (the deferred call becomes a closure
//                                                             that unlocks and then reports),
//   * before every  x.Ref() / x.Unref() / x.UnRef() statement ("… before Ref x").
//
// The insertions are made on the same source line, so line numbers (stack traces, the site
// names) are those of the original file. The copies are never written to /repo: they go to a
// scratch directory and reach the compiler through `go build -overlay`. An overlay that is
// already active (VERIF_OVERLAY, sensitivity tests) is merged: the file named there is the one
// that is instrumented. VerifPoint itself is a file added by the overlay to lib/fileops; it
// forwards to the VFS observer the pause-point harness already uses.

var lpFiles = []string{
	"engine/shard.go", "engine/ts_storage.go", "engine/iterators.go", "engine/ts_index_info.go",
	"engine/mutable/table.go", "engine/mutable/ts_table.go",
	"engine/immutable/mms_tables.go", "engine/immutable/ts_mms_tables.go", "engine/immutable/tssp_file.go",
	"engine/immutable/tssp_reader.go", "engine/immutable/compact.go", "engine/immutable/merge_out_of_order.go",
	"engine/immutable/merge_tool.go", "engine/immutable/evict.go", "engine/immutable/mms_loader.go",
}

const lpPointFile = `//go:build verif

package fileops

// VerifPoint reports a schedule point (a lock-operation boundary of an instrumented copy of a
// source file, see /verif/harness/c04/instrument.go) to the VFS observer.
func VerifPoint(site string) {
	if o := verifObs(); o != nil {
		o.Before("point", site, "", 0)
	}
}
`

type lpEdit struct {
	off  int
	text string
	del  int // bytes of the original dropped at off
}

func exprText(fset *token.FileSet, e ast.Expr) string {
	var sb strings.Builder
	_ = printer.Fprint(&sb, fset, e)
	return strings.Join(strings.Fields(sb.String()), "")
}

func lockCall(s ast.Expr) (recv ast.Expr, op string, ok bool) {
	call, isCall := s.(*ast.CallExpr)
	if !isCall || len(call.Args) != 0 {
		return nil, "", false
	}
	sel, isSel := call.Fun.(*ast.SelectorExpr)
	if !isSel {
		return nil, "", false
	}
	switch sel.Sel.Name {
	case "Lock", "RLock", "Unlock", "RUnlock", "Ref", "Unref", "UnRef":
		return sel.X, sel.Sel.Name, true
	}
	return nil, "", false
}

// instrumentSource returns the instrumented text of one file and the sites it defines.
func instrumentSource(rel string, src []byte) ([]byte, []string, error) {
	fset := token.NewFileSet()
	f, err := parser.ParseFile(fset, rel, src, parser.ParseComments)
	if err != nil {
		return nil, nil, err
	}
	var edits []lpEdit
	var sites []string
	base := filepath.Base(rel)
	for _, decl := range f.Decls {
		fd, ok := decl.(*ast.FuncDecl)
		if !ok || fd.Body == nil {
			continue
		}
		fname := fd.Name.Name
		if fd.Recv != nil && len(fd.Recv.List) == 1 {
			t := exprText(fset, fd.Recv.List[0].Type)
			fname = strings.TrimPrefix(t, "*") + "." + fname
		}
		ast.Inspect(fd.Body, func(n ast.Node) bool {
			switch st := n.(type) {
			case *ast.ExprStmt:
				recv, op, ok := lockCall(st.X)
				if !ok {
					return true
				}
				line := fset.Position(st.Pos()).Line
				x := exprText(fset, recv)
				switch op {
				case "Lock", "RLock", "Ref", "Unref", "UnRef":
					site := fmt.Sprintf("%s:%s:%d before %s %s", base, fname, line, op, x)
					sites = append(sites, site)
					edits = append(edits, lpEdit{off: fset.Position(st.Pos()).Offset, text: fmt.Sprintf("verifpt.VerifPoint(%q); ", site)})
				default:
					site := fmt.Sprintf("%s:%s:%d after %s %s", base, fname, line, op, x)
					sites = append(sites, site)
					edits = append(edits, lpEdit{off: fset.Position(st.End()).Offset, text: fmt.Sprintf("; verifpt.VerifPoint(%q)", site)})
				}
			case *ast.DeferStmt:
				recv, op, ok := lockCall(st.Call)
				if !ok || (op != "Unlock" && op != "RUnlock") {
					return true
				}
				line := fset.Position(st.Pos()).Line
				x := exprText(fset, recv)
				site := fmt.Sprintf("%s:%s:%d after deferred %s %s", base, fname, line, op, x)
				sites = append(sites, site)
				// defer x.Unlock()  ->  defer func(u func()) { u(); verifpt.VerifPoint("…") }(x.Unlock)
				// (the method value binds the receiver when the defer statement runs, as the original does)
				edits = append(edits, lpEdit{off: fset.Position(st.Call.Pos()).Offset, text: fmt.Sprintf("func(u func()) { u(); verifpt.VerifPoint(%q) }(", site)})
				lp, rp := fset.Position(st.Call.Lparen).Offset, fset.Position(st.Call.Rparen).Offset
				edits = append(edits, lpEdit{off: lp, text: ")", del: rp + 1 - lp})
			}
			return true
		})
	}
	if len(sites) == 0 {
		return src, nil, nil
	}
	// the import, on the line of the package clause
	edits = append(edits, lpEdit{off: fset.Position(f.Name.End()).Offset, text: `; import verifpt "github.com/openGemini/openGemini/lib/fileops"`})
	sort.SliceStable(edits, func(i, j int) bool { return edits[i].off < edits[j].off })
	var out []byte
	last := 0
	for _, e := range edits {
		out = append(out, src[last:e.off]...)
		out = append(out, e.text...)
		last = e.off + e.del
	}
	out = append(out, src[last:]...)
	// must still parse
	if _, err := parser.ParseFile(token.NewFileSet(), rel, out, 0); err != nil {
		return nil, nil, fmt.Errorf("instrumented %s does not parse: %v", rel, err)
	}
	return out, sites, nil
}

// activeOverlay returns the overlay file named in GOFLAGS (-overlay=…), if any.
func activeOverlay() string {
	for _, f := range strings.Fields(os.Getenv("GOFLAGS")) {
		if strings.HasPrefix(f, "-overlay=") {
			return strings.TrimPrefix(f, "-overlay=")
		}
	}
	return ""
}

// buildLockPointOverlay writes the instrumented copies and the merged overlay under dir and
// returns the overlay's path and the list of sites.
func buildLockPointOverlay(repo, dir string) (string, []string, error) {
	type overlay struct {
		Replace map[string]string
	}
	merged := overlay{Replace: map[string]string{}}
	if ov := activeOverlay(); ov != "" {
		b, err := os.ReadFile(ov)
		if err != nil {
			return "", nil, err
		}
		var in overlay
		if err := json.Unmarshal(b, &in); err != nil {
			return "", nil, err
		}
		for k, v := range in.Replace {
			merged.Replace[k] = v
		}
	}
	if err := os.MkdirAll(dir, 0o755); err != nil {
		return "", nil, err
	}
	var all []string
	for i, rel := range lpFiles {
		abs := filepath.Join(repo, rel)
		from := abs
		if r, ok := merged.Replace[abs]; ok {
			from = r
		}
		src, err := os.ReadFile(from)
		if err != nil {
			return "", nil, err
		}
		out, sites, err := instrumentSource(rel, src)
		if err != nil {
			return "", nil, err
		}
		all = append(all, sites...)
		dst := filepath.Join(dir, fmt.Sprintf("%02d_%s", i, filepath.Base(rel)))
		if err := os.WriteFile(dst, out, 0o644); err != nil {
			return "", nil, err
		}
		merged.Replace[abs] = dst
	}
	pt := filepath.Join(dir, "zz_verif_point.go")
	if err := os.WriteFile(pt, []byte(lpPointFile), 0o644); err != nil {
		return "", nil, err
	}
	merged.Replace[filepath.Join(repo, "lib/fileops/zz_verif_point.go")] = pt
	b, _ := json.MarshalIndent(merged, "", " ")
	ovPath := filepath.Join(dir, "ov.json")
	if err := os.WriteFile(ovPath, b, 0o644); err != nil {
		return "", nil, err
	}
	return ovPath, all, nil
}
